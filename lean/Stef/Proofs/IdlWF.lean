/-
  Well-formedness of accepted schemas (C12): invariants of the grammar phase, of ResolveRefs,
  of the recursion marking and of PruneUnused.
-/
import Stef.Proofs.SchemaDefs

namespace Stef.Idl

/-! ### grammar phase -/

/-- the shape of a type as the parser builds it: a primitive, a name in the `struct` slot, or
    nothing (the missing-type defect). -/
def BaseType.Raw (b : BaseType) : Prop :=
  b.multimap = [] ∧ b.enum = [] ∧ (b.prim.isSome = true → b.struct = [])

def Struct.Ok (s : Struct) : Prop :=
  (s.fields.map (·.name)).Nodup ∧ (s.isRoot = true → s.fields ≠ [])

structure GInv (σ : Schema) : Prop where
  top : σ.topNames.Nodup
  structs : ∀ s ∈ σ.structs, s.Ok
  raw : ∀ ty ∈ σ.allTypes, ty.inner.Raw
  enums : σ.EnumMembersUnique

theorem not_mem_topNames {σ : Schema} {n : Name} (h : σ.isTopUsed n = false) : n ∉ σ.topNames := by
  simp only [Schema.isTopUsed, Schema.hasStruct, Schema.hasMultimap, Schema.hasEnum,
    Bool.or_eq_false_iff, List.any_eq_false, decide_eq_true_eq] at h
  obtain ⟨⟨h1, h2⟩, h3⟩ := h
  simp only [Schema.topNames, List.mem_append, List.mem_map, not_or, not_exists, not_and]
  exact ⟨⟨h1, h2⟩, h3⟩

theorem typeOfTok_raw {t : Tok} {b : BaseType} (h : typeOfTok t = some b) : b.Raw := by
  unfold typeOfTok at h
  split at h <;> simp at h <;> subst h <;> simp [BaseType.Raw]

theorem parseFieldType_raw {ts ts' : List Token} {ty : FType}
    (h : parseFieldType ts = .ok ty ts') : ty.inner.Raw := by
  unfold parseFieldType at h
  simp only at h
  split at h
  · cases h
  · split at h
    · split at h <;> cases h
    · rename_i ft hft
      have hr := typeOfTok_raw hft
      split at h
      · split at h
        · cases h
        · split at h
          · cases h
          · split at h <;> cases h <;> simpa [FType.inner, BaseType.Raw] using hr
      · split at h <;> cases h <;> simpa [FType.inner] using hr

theorem parseMultimapField_raw {ts ts' : List Token} {ty : FType}
    (h : parseMultimapField ts = .ok ty ts') : ty.inner.Raw := by
  unfold parseMultimapField at h
  split at h
  · cases h
  · rename_i ty0 ts0 h0
    have hr := parseFieldType_raw h0
    split at h
    · split at h
      · cases h
      · cases h
        cases ty0 <;> simpa [FType.setDict, FType.inner, BaseType.Raw] using hr
    · cases h; exact hr

/-- the field loop keeps names unique and types raw. -/
theorem parseStructFields_inv : ∀ (f : Nat) (fs : List Field) (ts : List Token) (fs' : List Field)
    (ts' : List Token), parseStructFields f fs ts = .ok fs' ts' →
    (fs.map (·.name)).Nodup → (∀ x ∈ fs, x.ty.inner.Raw) →
    (fs'.map (·.name)).Nodup ∧ (∀ x ∈ fs', x.ty.inner.Raw)
  | 0, fs, ts, fs', ts', h, _, _ => by simp [parseStructFields] at h
  | f + 1, fs, ts, fs', ts', h, hn, hr => by
    unfold parseStructFields at h
    split at h
    · rename_i fname _
      split at h
      · cases h
      · rename_i hdup
        split at h
        · cases h
        · rename_i ty ts1 hty
          simp only at h
          refine parseStructFields_inv f _ _ _ _ h ?_ ?_
          · simp only [List.map_append, List.map_cons, List.map_nil]
            rw [List.nodup_append]
            refine ⟨hn, by simp, ?_⟩
            intro a ha b hb
            simp at hb
            subst hb
            simp only [Bool.not_eq_true, List.any_eq_false, decide_eq_true_eq] at hdup
            intro hab
            subst hab
            simp only [List.mem_map] at ha
            obtain ⟨x, hx, hxa⟩ := ha
            exact hdup x hx hxa
          · intro x hx
            simp only [List.mem_append, List.mem_singleton] at hx
            rcases hx with hx | hx
            · exact hr x hx
            · subst hx; exact parseFieldType_raw hty
    · cases h
      exact ⟨hn, hr⟩

/-- the enum member loop keeps member names unique (the duplicate check of `parseEnumField`). -/
theorem parseEnumFields_inv : ∀ (f : Nat) (fs : List EnumField) (ts : List Token)
    (fs' : List EnumField) (ts' : List Token), parseEnumFields f fs ts = .ok fs' ts' →
    (fs.map (·.name)).Nodup → (fs'.map (·.name)).Nodup
  | 0, fs, ts, fs', ts', h, _ => by simp [parseEnumFields] at h
  | f + 1, fs, ts, fs', ts', h, hn => by
    unfold parseEnumFields at h
    split at h
    · rename_i fname _
      split at h
      · cases h
      · rename_i hdup
        split at h
        · cases h
        · split at h
          · rename_i v _
            refine parseEnumFields_inv f _ _ _ _ h ?_
            simp only [List.map_append, List.map_cons, List.map_nil]
            rw [List.nodup_append]
            refine ⟨hn, by simp, ?_⟩
            intro a ha b hb
            simp at hb
            subst hb
            simp only [Bool.not_eq_true, List.any_eq_false, decide_eq_true_eq] at hdup
            intro hab
            subst hab
            simp only [List.mem_map] at ha
            obtain ⟨x, hx, hxa⟩ := ha
            exact hdup x hx hxa
          · cases h
    · cases h
      exact hn

theorem mem_allTypes {σ : Schema} {ty : FType} :
    ty ∈ σ.allTypes ↔ (∃ s ∈ σ.structs, ty ∈ s.types) ∨ (∃ m ∈ σ.multimaps, ty ∈ m.types) := by
  simp [Schema.allTypes, List.mem_flatten]
  constructor
  · rintro (⟨l, ⟨s, hs, rfl⟩, h⟩ | ⟨l, ⟨m, hm, rfl⟩, h⟩)
    · exact Or.inl ⟨s, hs, h⟩
    · exact Or.inr ⟨m, hm, h⟩
  · rintro (⟨s, hs, h⟩ | ⟨m, hm, h⟩)
    · exact Or.inl ⟨_, ⟨s, hs, rfl⟩, h⟩
    · exact Or.inr ⟨_, ⟨m, hm, rfl⟩, h⟩

theorem GInv.addStruct {σ : Schema} (h : GInv σ) (s : Struct) (hn : s.name ∉ σ.topNames)
    (hs : s.Ok) (hr : ∀ ty ∈ s.types, ty.inner.Raw) :
    GInv { σ with structs := σ.structs ++ [s] } := by
  refine ⟨?_, ?_, ?_, h.enums⟩
  · have hp : (Schema.topNames { σ with structs := σ.structs ++ [s] }).Perm (s.name :: σ.topNames) := by
      simp only [Schema.topNames, List.map_append, List.map_cons, List.map_nil, List.append_assoc,
        List.singleton_append]
      exact List.perm_middle
    rw [hp.nodup_iff, List.nodup_cons]
    exact ⟨hn, h.top⟩
  · intro x hx
    simp only [List.mem_append, List.mem_singleton] at hx
    rcases hx with hx | hx
    · exact h.structs x hx
    · subst hx; exact hs
  · intro ty hty
    rw [mem_allTypes] at hty
    rcases hty with ⟨x, hx, hty⟩ | ⟨m, hm, hty⟩
    · simp only [List.mem_append, List.mem_singleton] at hx
      rcases hx with hx | hx
      · exact h.raw ty (mem_allTypes.2 (Or.inl ⟨x, hx, hty⟩))
      · subst hx; exact hr ty hty
    · exact h.raw ty (mem_allTypes.2 (Or.inr ⟨m, hm, hty⟩))

theorem GInv.addMultimap {σ : Schema} (h : GInv σ) (m : Multimap) (hn : m.name ∉ σ.topNames)
    (hr : ∀ ty ∈ m.types, ty.inner.Raw) :
    GInv { σ with multimaps := σ.multimaps ++ [m] } := by
  refine ⟨?_, h.structs, ?_, h.enums⟩
  · have hp : (Schema.topNames { σ with multimaps := σ.multimaps ++ [m] }).Perm (m.name :: σ.topNames) := by
      simp only [Schema.topNames, List.map_append, List.map_cons, List.map_nil, List.append_assoc,
        List.singleton_append]
      rw [← List.append_assoc]
      have := @List.perm_middle _ m.name (σ.structs.map (·.name) ++ σ.multimaps.map (·.name)) (σ.enums.map (·.name))
      simpa [List.append_assoc] using this
    rw [hp.nodup_iff, List.nodup_cons]
    exact ⟨hn, h.top⟩
  · intro ty hty
    rw [mem_allTypes] at hty
    rcases hty with ⟨x, hx, hty⟩ | ⟨x, hx, hty⟩
    · exact h.raw ty (mem_allTypes.2 (Or.inl ⟨x, hx, hty⟩))
    · simp only [List.mem_append, List.mem_singleton] at hx
      rcases hx with hx | hx
      · exact h.raw ty (mem_allTypes.2 (Or.inr ⟨x, hx, hty⟩))
      · subst hx; exact hr ty hty

theorem GInv.addEnum {σ : Schema} (h : GInv σ) (e : Enum) (hn : e.name ∉ σ.topNames)
    (he : (e.fields.map (·.name)).Nodup) :
    GInv { σ with enums := σ.enums ++ [e] } := by
  refine ⟨?_, h.structs, ?_, ?_⟩
  · have hp : (Schema.topNames { σ with enums := σ.enums ++ [e] }).Perm (e.name :: σ.topNames) := by
      simp only [Schema.topNames, List.map_append, List.map_cons, List.map_nil]
      have := @List.perm_middle _ e.name (σ.structs.map (·.name) ++ σ.multimaps.map (·.name) ++ σ.enums.map (·.name)) []
      simpa [List.append_assoc] using this
    rw [hp.nodup_iff, List.nodup_cons]
    exact ⟨hn, h.top⟩
  · intro ty hty
    rw [mem_allTypes] at hty
    exact h.raw ty (mem_allTypes.2 hty)
  · intro x hx
    simp only [List.mem_append, List.mem_singleton] at hx
    rcases hx with hx | hx
    · exact h.enums x hx
    · subst hx; exact he

theorem parseStruct_inv {σ σ' : Schema} {ts ts' : List Token} {o : Bool} (hg : GInv σ)
    (h : parseStruct o σ ts = .ok σ' ts') : GInv σ' := by
  unfold parseStruct at h
  simp only at h
  repeat' (split at h)
  all_goals first
    | (cases h; done)
    | skip
  rename_i _ sname _ hfresh _ dict isRoot _ _ _ _ _ _ _ fs _ hfs hroot _ _ _ _
  cases h
  have hf := parseStructFields_inv _ _ _ _ _ hfs (by simp) (by simp)
  refine hg.addStruct _ (not_mem_topNames (by simpa using hfresh)) ⟨hf.1, ?_⟩ ?_
  · intro hr hempty
    simp only at hr hempty
    subst hr hempty
    simp at hroot
  · intro ty hty
    simp only [Struct.types, List.mem_map] at hty
    obtain ⟨x, hx, rfl⟩ := hty
    exact hf.2 x hx

theorem parseMultimap_inv {σ σ' : Schema} {ts ts' : List Token} (hg : GInv σ)
    (h : parseMultimap σ ts = .ok σ' ts') : GInv σ' := by
  unfold parseMultimap at h
  simp only at h
  repeat' (split at h)
  all_goals first
    | (cases h; done)
    | skip
  rename_i _ mname _ hfresh _ _ _ _ _ _ _ _ _ kt _ hk _ _ _ _ _ vt _ hv _ _ _ _
  cases h
  refine hg.addMultimap _ (not_mem_topNames (by simpa using hfresh)) ?_
  intro ty hty
  simp only [Multimap.types, List.mem_cons, List.mem_nil_iff, or_false] at hty
  rcases hty with rfl | rfl
  · exact parseMultimapField_raw hk
  · exact parseMultimapField_raw hv

theorem parseEnum_inv {σ σ' : Schema} {ts ts' : List Token} (hg : GInv σ)
    (h : parseEnum σ ts = .ok σ' ts') : GInv σ' := by
  unfold parseEnum at h
  simp only at h
  split at h
  · rename_i ename _
    split at h
    · cases h
    · rename_i hfresh
      split at h
      · cases h
      · split at h
        · cases h
        · rename_i fs ts2 hfs
          split at h
          · cases h
          · cases h
            exact hg.addEnum _ (not_mem_topNames (by simpa using hfresh))
              (parseEnumFields_inv _ _ _ _ _ hfs (by simp))
  · cases h

theorem parseDefs_inv : ∀ (f : Nat) (σ σ' : Schema) (ts ts' : List Token), GInv σ →
    parseDefs f σ ts = .ok σ' ts' → GInv σ'
  | 0, σ, σ', ts, ts', _, h => by simp [parseDefs] at h
  | f + 1, σ, σ', ts, ts', hg, h => by
    unfold parseDefs at h
    simp only at h
    split at h
    · cases h
    · rename_i σ1 ts1 h1
      have hg1 : GInv σ1 := by
        split at h1
        · exact parseStruct_inv hg h1
        · exact parseStruct_inv hg h1
        · exact parseMultimap_inv hg h1
        · exact parseEnum_inv hg h1
        · cases h1
      split at h
      · cases h; exact hg1
      · exact parseDefs_inv f _ _ _ _ hg1 h

theorem grammar_inv {σ : Schema} {ts ts' : List Token} (h : grammar ts = .ok σ ts') : GInv σ := by
  unfold grammar at h
  split at h
  · cases h
  · have h0 : GInv { pkg := ‹List Name› } :=
      ⟨by simp [Schema.topNames], by simp, by simp [Schema.allTypes],
        by simp [Schema.EnumMembersUnique]⟩
    split at h
    · cases h; exact h0
    · exact parseDefs_inv _ _ _ _ _ h0 h


/-! ### ResolveRefs -/

/-- resolved reference (without the "no empty type" clause of `BaseType.Resolved`). -/
def BaseType.Res3 (σ : Schema) (b : BaseType) : Prop :=
  (b.struct ≠ [] → b.multimap = [] ∧ b.enum = [] ∧ b.prim = none ∧
      σ.hasStruct b.struct = true ∧ σ.topNames.count b.struct = 1) ∧
  (b.multimap ≠ [] → b.struct = [] ∧ b.enum = [] ∧ b.prim = none ∧
      σ.hasMultimap b.multimap = true ∧ σ.topNames.count b.multimap = 1) ∧
  (b.enum ≠ [] → b.struct = [] ∧ b.multimap = [] ∧ b.prim = some .uint64 ∧
      σ.hasEnum b.enum = true ∧ σ.topNames.count b.enum = 1)

theorem hasStruct_iff {σ : Schema} {n : Name} : σ.hasStruct n = true ↔ n ∈ σ.structs.map (·.name) := by
  simp only [Schema.hasStruct, List.any_eq_true, decide_eq_true_eq, List.mem_map]
theorem hasMultimap_iff {σ : Schema} {n : Name} :
    σ.hasMultimap n = true ↔ n ∈ σ.multimaps.map (·.name) := by
  simp only [Schema.hasMultimap, List.any_eq_true, decide_eq_true_eq, List.mem_map]
theorem hasEnum_iff {σ : Schema} {n : Name} : σ.hasEnum n = true ↔ n ∈ σ.enums.map (·.name) := by
  simp only [Schema.hasEnum, List.any_eq_true, decide_eq_true_eq, List.mem_map]

def SameNames (σ σ' : Schema) : Prop :=
  σ'.structs.map (·.name) = σ.structs.map (·.name) ∧
  σ'.multimaps.map (·.name) = σ.multimaps.map (·.name) ∧
  σ'.enums.map (·.name) = σ.enums.map (·.name)

theorem SameNames.topNames {σ σ' : Schema} (h : SameNames σ σ') : σ'.topNames = σ.topNames := by
  simp [Schema.topNames, h.1, h.2.1, h.2.2]

theorem BaseType.Res3.congr {σ σ' : Schema} {b : BaseType} (h : SameNames σ σ') (hb : b.Res3 σ) :
    b.Res3 σ' := by
  have e1 : ∀ n, σ'.hasStruct n = σ.hasStruct n := by
    intro n; rw [Bool.eq_iff_iff, hasStruct_iff, hasStruct_iff, h.1]
  have e2 : ∀ n, σ'.hasMultimap n = σ.hasMultimap n := by
    intro n; rw [Bool.eq_iff_iff, hasMultimap_iff, hasMultimap_iff, h.2.1]
  have e3 : ∀ n, σ'.hasEnum n = σ.hasEnum n := by
    intro n; rw [Bool.eq_iff_iff, hasEnum_iff, hasEnum_iff, h.2.2]
  unfold BaseType.Res3
  rw [h.topNames, e1, e2, e3]
  exact hb

theorem count_one_of_mem {l : List Name} {n : Name} (hn : l.Nodup) (h : n ∈ l) : l.count n = 1 := by
  rw [hn.count]; simp [h]

theorem resolveBase_res3 {σ : Schema} {b b' : BaseType} (htop : σ.topNames.Nodup) (hr : b.Raw)
    (h : resolveBase σ b = .ok b') : b'.Res3 σ := by
  obtain ⟨hm, he, hp⟩ := hr
  unfold resolveBase at h
  simp only [hm, he] at h
  by_cases hs : b.struct = []
  · simp [hs] at h
    cases h
    simp [BaseType.Res3, hs, hm, he]
  · have hprim : b.prim = none := by
      cases hpp : b.prim with
      | none => rfl
      | some p => exact absurd (hp (by simp [hpp])) hs
    simp only [hs, ne_eq, not_false_eq_true, ↓reduceIte] at h
    have mem_s : σ.hasStruct b.struct = true → b.struct ∈ σ.topNames := by
      intro hh; simp only [Schema.topNames, List.mem_append]; exact Or.inl (Or.inl (hasStruct_iff.1 hh))
    have mem_m : σ.hasMultimap b.struct = true → b.struct ∈ σ.topNames := by
      intro hh; simp only [Schema.topNames, List.mem_append]; exact Or.inl (Or.inr (hasMultimap_iff.1 hh))
    have mem_e : σ.hasEnum b.struct = true → b.struct ∈ σ.topNames := by
      intro hh; simp only [Schema.topNames, List.mem_append]; exact Or.inr (hasEnum_iff.1 hh)
    cases h1 : σ.hasStruct b.struct <;> cases h2 : σ.hasMultimap b.struct <;>
      cases h3 : σ.hasEnum b.struct <;> simp [h1, h2, h3] at h
    · -- enum only
      cases h
      simp [BaseType.Res3, hs, hm, h3, count_one_of_mem htop (mem_e h3)]
    · -- multimap only
      cases h
      simp [BaseType.Res3, hs, hprim, h2, count_one_of_mem htop (mem_m h2)]
    · -- struct only
      cases h
      simp [BaseType.Res3, hs, hm, he, hprim, h1, count_one_of_mem htop (mem_s h1)]

theorem resolveFType_res3 {σ : Schema} {ty ty' : FType} (htop : σ.topNames.Nodup) (hr : ty.inner.Raw)
    (h : resolveFType σ ty = .ok ty') : ty'.inner.Res3 σ := by
  cases ty with
  | base b =>
    simp only [resolveFType] at h
    cases hb : resolveBase σ b with
    | error e => simp [hb, Except.map] at h
    | ok b' =>
      simp [hb, Except.map] at h
      subst h
      exact resolveBase_res3 htop hr hb
  | array e d r =>
    simp only [resolveFType] at h
    cases hb : resolveBase σ e with
    | error e => simp [hb, Except.map] at h
    | ok b' =>
      simp [hb, Except.map] at h
      subst h
      exact resolveBase_res3 htop hr hb

theorem resolveFields_inv {σ : Schema} (htop : σ.topNames.Nodup) :
    ∀ (fs fs' : List Field), (∀ f ∈ fs, f.ty.inner.Raw) → resolveFields σ fs = .ok fs' →
      fs'.map (·.name) = fs.map (·.name) ∧ ∀ f ∈ fs', f.ty.inner.Res3 σ
  | [], fs', _, h => by simp [resolveFields] at h; subst h; simp
  | f :: fs, fs', hr, h => by
    unfold resolveFields at h
    split at h
    · cases h
    · rename_i ty hty
      split at h
      · cases h
      · rename_i fs1 hfs
        cases h
        have ih := resolveFields_inv htop fs fs1 (fun x hx => hr x (by simp [hx])) hfs
        refine ⟨by simp [ih.1], ?_⟩
        intro x hx
        simp only [List.mem_cons] at hx
        rcases hx with rfl | hx
        · exact resolveFType_res3 htop (hr f (by simp)) hty
        · exact ih.2 x hx

theorem resolveStructs_inv {σ : Schema} (htop : σ.topNames.Nodup) :
    ∀ (ss ss' : List Struct), (∀ s ∈ ss, ∀ ty ∈ s.types, ty.inner.Raw) →
      resolveStructs σ ss = .ok ss' →
      ss'.map (·.name) = ss.map (·.name) ∧
      (∀ s' ∈ ss', ∃ s ∈ ss, s'.isRoot = s.isRoot ∧ s'.fields.map (·.name) = s.fields.map (·.name)) ∧
      (∀ s' ∈ ss', ∀ ty ∈ s'.types, ty.inner.Res3 σ)
  | [], ss', _, h => by simp [resolveStructs] at h; subst h; simp
  | s :: ss, ss', hr, h => by
    unfold resolveStructs at h
    split at h
    · cases h
    · rename_i fs hfs
      split at h
      · cases h
      · rename_i ss1 hss
        cases h
        have ih := resolveStructs_inv htop ss ss1 (fun x hx => hr x (by simp [hx])) hss
        have hf := resolveFields_inv htop s.fields fs (by
          intro f hf; exact hr s (by simp) f.ty (by simp [Struct.types]; exact ⟨f, hf, rfl⟩)) hfs
        refine ⟨by simp [ih.1], ?_, ?_⟩
        · intro x hx
          simp only [List.mem_cons] at hx
          rcases hx with rfl | hx
          · exact ⟨s, by simp, rfl, hf.1⟩
          · obtain ⟨y, hy, h1⟩ := ih.2.1 x hx
            exact ⟨y, by simp [hy], h1⟩
        · intro x hx ty hty
          simp only [List.mem_cons] at hx
          rcases hx with rfl | hx
          · simp only [Struct.types, List.mem_map] at hty
            obtain ⟨f, hf', rfl⟩ := hty
            exact hf.2 f hf'
          · exact ih.2.2 x hx ty hty

theorem resolveMultimaps_inv {σ : Schema} (htop : σ.topNames.Nodup) :
    ∀ (ms ms' : List Multimap), (∀ m ∈ ms, ∀ ty ∈ m.types, ty.inner.Raw) →
      resolveMultimaps σ ms = .ok ms' →
      ms'.map (·.name) = ms.map (·.name) ∧ (∀ m' ∈ ms', ∀ ty ∈ m'.types, ty.inner.Res3 σ)
  | [], ms', _, h => by simp [resolveMultimaps] at h; subst h; simp
  | m :: ms, ms', hr, h => by
    unfold resolveMultimaps at h
    split at h
    · cases h
    · rename_i k hk
      split at h
      · cases h
      · rename_i v hv
        split at h
        · cases h
        · rename_i ms1 hms
          cases h
          have ih := resolveMultimaps_inv htop ms ms1 (fun x hx => hr x (by simp [hx])) hms
          refine ⟨by simp [ih.1], ?_⟩
          intro x hx ty hty
          simp only [List.mem_cons] at hx
          rcases hx with rfl | hx
          · simp only [Multimap.types, List.mem_cons, List.mem_nil_iff, or_false] at hty
            rcases hty with rfl | rfl
            · exact resolveFType_res3 htop (hr m (by simp) _ (by simp [Multimap.types])) hk
            · exact resolveFType_res3 htop (hr m (by simp) _ (by simp [Multimap.types])) hv
          · exact ih.2 x hx ty hty

/-- invariant after ResolveRefs. -/
structure RInv (σ : Schema) : Prop where
  top : σ.topNames.Nodup
  structs : ∀ s ∈ σ.structs, s.Ok
  res : ∀ ty ∈ σ.allTypes, ty.inner.Res3 σ
  enums : σ.EnumMembersUnique

theorem resolveRefs_inv {σ σ1 : Schema} (hg : GInv σ) (h : resolveRefs σ = .ok σ1) : RInv σ1 := by
  unfold resolveRefs at h
  split at h
  · cases h
  · rename_i ss hss
    split at h
    · cases h
    · rename_i ms hms
      cases h
      have h1 := resolveStructs_inv hg.top σ.structs ss
        (fun s hs ty hty => hg.raw ty (mem_allTypes.2 (Or.inl ⟨s, hs, hty⟩))) hss
      have h2 := resolveMultimaps_inv hg.top σ.multimaps ms
        (fun m hm ty hty => hg.raw ty (mem_allTypes.2 (Or.inr ⟨m, hm, hty⟩))) hms
      have hsame : SameNames σ { σ with structs := ss, multimaps := ms } := ⟨h1.1, h2.1, rfl⟩
      refine ⟨?_, ?_, ?_, hg.enums⟩
      · rw [hsame.topNames]; exact hg.top
      · intro s' hs'
        obtain ⟨s, hs, hroot, hnames⟩ := h1.2.1 s' hs'
        have hok := hg.structs s hs
        refine ⟨by rw [hnames]; exact hok.1, ?_⟩
        intro hr hempty
        rw [hroot] at hr
        apply hok.2 hr
        have : (s'.fields.map (·.name)).length = (s.fields.map (·.name)).length := by rw [hnames]
        simp [hempty] at this
        exact List.eq_nil_of_length_eq_zero this.symm
      · intro ty hty
        rw [mem_allTypes] at hty
        apply BaseType.Res3.congr hsame
        rcases hty with ⟨s, hs, hty⟩ | ⟨m, hm, hty⟩
        · exact h1.2.2 s hs ty hty
        · exact h2.2 m hm ty hty


/-! ### recursion marks -/

theorem applyMarksFields_inner (m : Marks) (b : Bool) (o : Name) :
    ∀ (tys : List FType) (i : Nat),
      (applyMarksFields m b o tys i).map FType.inner = tys.map FType.inner
  | [], i => by simp [applyMarksFields]
  | ty :: rest, i => by
    simp only [applyMarksFields, List.map_cons, applyMarksFields_inner m b o rest (i + 1)]
    cases ty <;> simp [FType.inner]

theorem applyMarksFields_length (m : Marks) (b : Bool) (o : Name) (tys : List FType) (i : Nat) :
    (applyMarksFields m b o tys i).length = tys.length := by
  have := congrArg List.length (applyMarksFields_inner m b o tys i)
  simpa using this

theorem zipFieldTypes_spec : ∀ (fs : List Field) (tys : List FType), fs.length = tys.length →
    (zipFieldTypes fs tys).map (·.name) = fs.map (·.name) ∧ (zipFieldTypes fs tys).map (·.ty) = tys
  | [], [], _ => by simp [zipFieldTypes]
  | [], _ :: _, h => by simp at h
  | _ :: _, [], h => by simp at h
  | f :: fs, t :: ts, h => by
    have ih := zipFieldTypes_spec fs ts (by simpa using h)
    simp [zipFieldTypes, ih.1, ih.2]

/-- what `applyMarks` does to one struct. -/
def markStruct (m : Marks) (s : Struct) : Struct :=
  { s with recursive := s.recursive || m.structs.contains s.name,
           fields := zipFieldTypes s.fields (applyMarksFields m false s.name s.types 0) }

def markMultimap (m : Marks) (mm : Multimap) : Multimap :=
  match applyMarksFields m true mm.name mm.types 0 with
  | [k, v] => { mm with recursive := mm.recursive || m.multimaps.contains mm.name, key := k, value := v }
  | _ => mm

theorem applyMarks_eq (σ : Schema) (m : Marks) :
    applyMarks σ m = { σ with structs := σ.structs.map (markStruct m),
                              multimaps := σ.multimaps.map (markMultimap m) } := rfl

theorem markStruct_spec (m : Marks) (s : Struct) :
    (markStruct m s).name = s.name ∧ (markStruct m s).isRoot = s.isRoot ∧
    (markStruct m s).oneOf = s.oneOf ∧ (markStruct m s).dict = s.dict ∧
    (markStruct m s).fields.map (·.name) = s.fields.map (·.name) ∧
    (markStruct m s).types.map FType.inner = s.types.map FType.inner ∧
    (markStruct m s).fields.length = s.fields.length := by
  have hl : s.fields.length = (applyMarksFields m false s.name s.types 0).length := by
    rw [applyMarksFields_length]; simp [Struct.types]
  have hz := zipFieldTypes_spec s.fields _ hl
  refine ⟨rfl, rfl, rfl, rfl, hz.1, ?_, ?_⟩
  · show List.map FType.inner (List.map (·.ty)
        (zipFieldTypes s.fields (applyMarksFields m false s.name s.types 0))) = _
    rw [hz.2, applyMarksFields_inner]
  · have := congrArg List.length hz.1
    simpa [markStruct] using this

theorem markMultimap_spec (m : Marks) (mm : Multimap) :
    (markMultimap m mm).name = mm.name ∧
    (markMultimap m mm).types.map FType.inner = mm.types.map FType.inner := by
  unfold markMultimap
  simp only [Multimap.types, applyMarksFields]
  constructor
  · trivial
  · cases mm.key <;> cases mm.value <;> simp [FType.inner]

theorem applyMarks_sameNames (σ : Schema) (m : Marks) : SameNames σ (applyMarks σ m) := by
  rw [applyMarks_eq]
  refine ⟨?_, ?_, rfl⟩
  · simp only [List.map_map]
    apply List.map_congr_left
    intro s _
    exact (markStruct_spec m s).1
  · simp only [List.map_map]
    apply List.map_congr_left
    intro mm _
    exact (markMultimap_spec m mm).1

theorem mem_of_map_inner_eq {l l' : List FType} (h : l'.map FType.inner = l.map FType.inner)
    {ty' : FType} (hty : ty' ∈ l') : ∃ ty ∈ l, ty.inner = ty'.inner := by
  have : ty'.inner ∈ l'.map FType.inner := List.mem_map_of_mem hty
  rw [h] at this
  simpa [List.mem_map] using this

theorem applyMarks_types {σ : Schema} {m : Marks} {ty' : FType}
    (h : ty' ∈ (applyMarks σ m).allTypes) : ∃ ty ∈ σ.allTypes, ty.inner = ty'.inner := by
  rw [applyMarks_eq, mem_allTypes] at h
  rcases h with ⟨s', hs', hty⟩ | ⟨m', hm', hty⟩
  · simp only [List.mem_map] at hs'
    obtain ⟨s, hs, rfl⟩ := hs'
    obtain ⟨ty, hty1, hty2⟩ := mem_of_map_inner_eq (markStruct_spec m s).2.2.2.2.2.1 hty
    exact ⟨ty, mem_allTypes.2 (Or.inl ⟨s, hs, hty1⟩), hty2⟩
  · simp only [List.mem_map] at hm'
    obtain ⟨mm, hmm, rfl⟩ := hm'
    obtain ⟨ty, hty1, hty2⟩ := mem_of_map_inner_eq (markMultimap_spec m mm).2 hty
    exact ⟨ty, mem_allTypes.2 (Or.inr ⟨mm, hmm, hty1⟩), hty2⟩

theorem applyMarks_inv {σ : Schema} (m : Marks) (h : RInv σ) : RInv (applyMarks σ m) := by
  have hsame := applyMarks_sameNames σ m
  refine ⟨by rw [hsame.topNames]; exact h.top, ?_, ?_, h.enums⟩
  · intro s' hs'
    rw [applyMarks_eq] at hs'
    simp only [List.mem_map] at hs'
    obtain ⟨s, hs, rfl⟩ := hs'
    have sp := markStruct_spec m s
    have hok := h.structs s hs
    refine ⟨by rw [sp.2.2.2.2.1]; exact hok.1, ?_⟩
    intro hr hempty
    rw [sp.2.1] at hr
    apply hok.2 hr
    have := sp.2.2.2.2.2.2
    rw [hempty] at this
    exact List.eq_nil_of_length_eq_zero this.symm
  · intro ty' hty'
    obtain ⟨ty, hty, he⟩ := applyMarks_types hty'
    rw [← he]
    exact (h.res ty hty).congr hsame

theorem computeRecursive_inv {σ σ2 : Schema} (h : RInv σ) (hc : computeRecursive σ = .ok σ2) :
    RInv σ2 := by
  unfold computeRecursive at hc
  split at hc
  · cases hc
  · cases hc; exact applyMarks_inv _ h


/-! ### PruneUnused: the reachable set is closed under references -/

/-- the reference of `b` (in the branch order of `markReachableFromFieldType`) is in `r`. -/
def Covered (r : Reach) (b : BaseType) : Prop :=
  (b.struct ≠ [] → b.struct ∈ r.structs) ∧
  (b.struct = [] → b.multimap ≠ [] → b.multimap ∈ r.multimaps) ∧
  (b.struct = [] → b.multimap = [] → b.enum ≠ [] → b.enum ∈ r.enums)

def Reach.le (r r' : Reach) : Prop :=
  r.structs ⊆ r'.structs ∧ r.multimaps ⊆ r'.multimaps ∧ r.enums ⊆ r'.enums

theorem Reach.le_refl (r : Reach) : r.le r := ⟨fun _ h => h, fun _ h => h, fun _ h => h⟩
theorem Reach.le_trans {a b c : Reach} (h1 : a.le b) (h2 : b.le c) : a.le c :=
  ⟨fun _ h => h2.1 (h1.1 h), fun _ h => h2.2.1 (h1.2.1 h), fun _ h => h2.2.2 (h1.2.2 h)⟩

theorem Covered.mono {r r' : Reach} {b : BaseType} (h : r.le r') (hc : Covered r b) : Covered r' b :=
  ⟨fun a => h.1 (hc.1 a), fun a b' => h.2.1 (hc.2.1 a b'), fun a b' c => h.2.2 (hc.2.2 a b' c)⟩

/-- the lookups `markReachable...` performs for `b` succeed. -/
def Lookup (σ : Schema) (b : BaseType) : Prop :=
  (b.struct ≠ [] → (σ.findStruct b.struct).isSome = true) ∧
  (b.struct = [] → b.multimap ≠ [] → (σ.findMultimap b.multimap).isSome = true)

/-- every marked definition that is not grey (still being visited) has all its references marked. -/
def ClosedExcept (σ : Schema) (r : Reach) (Gs Gm : List Name) : Prop :=
  (∀ n ∈ r.structs, n ∉ Gs → ∀ s, σ.findStruct n = some s → ∀ ty ∈ s.types, Covered r ty.inner) ∧
  (∀ n ∈ r.multimaps, n ∉ Gm → ∀ m, σ.findMultimap n = some m → ∀ ty ∈ m.types, Covered r ty.inner)

def MrSpec (σ : Schema) (rec : BaseType → Reach → Option Reach) : Prop :=
  ∀ (b : BaseType) (r r' : Reach), rec b r = some r' → Lookup σ b →
    r.le r' ∧ Covered r' b ∧ ∀ Gs Gm, ClosedExcept σ r Gs Gm → ClosedExcept σ r' Gs Gm

theorem mrFields_spec {σ : Schema} {rec : BaseType → Reach → Option Reach} (hrec : MrSpec σ rec) :
    ∀ (tys : List FType) (r r' : Reach), mrFields rec tys r = some r' →
      (∀ ty ∈ tys, Lookup σ ty.inner) →
      r.le r' ∧ (∀ ty ∈ tys, Covered r' ty.inner) ∧
        ∀ Gs Gm, ClosedExcept σ r Gs Gm → ClosedExcept σ r' Gs Gm
  | [], r, r', h, _ => by
    simp [mrFields] at h; subst h
    exact ⟨Reach.le_refl _, by simp, fun _ _ h => h⟩
  | ty :: rest, r, r', h, hl => by
    unfold mrFields at h
    split at h
    · cases h
    · rename_i r1 h1
      obtain ⟨a1, a2, a3⟩ := hrec _ _ _ h1 (hl ty (by simp))
      obtain ⟨b1, b2, b3⟩ := mrFields_spec hrec rest r1 r' h (fun x hx => hl x (by simp [hx]))
      refine ⟨Reach.le_trans a1 b1, ?_, fun Gs Gm hc => b3 Gs Gm (a3 Gs Gm hc)⟩
      intro x hx
      simp only [List.mem_cons] at hx
      rcases hx with rfl | hx
      · exact a2.mono b1
      · exact b2 x hx

theorem findStruct_spec {σ : Schema} {n : Name} {s : Struct} (h : σ.findStruct n = some s) :
    s ∈ σ.structs ∧ s.name = n := by
  unfold Schema.findStruct at h
  exact ⟨List.mem_of_find?_eq_some h, by simpa using List.find?_some h⟩

theorem findMultimap_spec {σ : Schema} {n : Name} {m : Multimap} (h : σ.findMultimap n = some m) :
    m ∈ σ.multimaps ∧ m.name = n := by
  unfold Schema.findMultimap at h
  exact ⟨List.mem_of_find?_eq_some h, by simpa using List.find?_some h⟩

theorem mrBase_spec {σ : Schema} (hall : ∀ ty ∈ σ.allTypes, Lookup σ ty.inner) :
    ∀ fuel, MrSpec σ (mrBase σ fuel)
  | 0 => by intro b r r' h; simp [mrBase] at h
  | fuel + 1 => by
    intro b r r' h hl
    have ih := mrBase_spec hall fuel
    unfold mrBase at h
    split at h
    · rename_i hs
      split at h
      · rename_i hc
        cases h
        refine ⟨Reach.le_refl _, ⟨fun _ => by simpa using hc, fun a => absurd a hs, fun a => absurd a hs⟩,
          fun _ _ h => h⟩
      · rename_i hc
        split at h
        · rename_i hnone
          have := hl.1 hs
          simp [hnone] at this
        · rename_i s hfind
          have hsm := findStruct_spec hfind
          have hlk : ∀ ty ∈ s.types, Lookup σ ty.inner := fun ty hty =>
            hall ty (mem_allTypes.2 (Or.inl ⟨s, hsm.1, hty⟩))
          obtain ⟨b1, b2, b3⟩ := mrFields_spec ih s.types _ r' h hlk
          have hle : r.le { r with structs := b.struct :: r.structs } :=
            ⟨fun _ h => by simp [h], fun _ h => h, fun _ h => h⟩
          refine ⟨Reach.le_trans hle b1, ⟨fun _ => b1.1 (by simp), fun a => absurd a hs, fun a => absurd a hs⟩, ?_⟩
          intro Gs Gm hcl
          have hcl1 : ClosedExcept σ { r with structs := b.struct :: r.structs } (b.struct :: Gs) Gm := by
            refine ⟨?_, ?_⟩
            · intro n hn hng s' hs' ty hty
              simp only [List.mem_cons, not_or] at hn hng
              rcases hn with rfl | hn
              · exact absurd rfl hng.1
              · exact (hcl.1 n hn hng.2 s' hs' ty hty).mono hle
            · intro n hn hng m' hm' ty hty
              exact (hcl.2 n hn hng m' hm' ty hty).mono hle
          have hcl2 := b3 _ _ hcl1
          refine ⟨?_, hcl2.2⟩
          intro n hn hng s' hs' ty hty
          by_cases hnb : n = b.struct
          · subst hnb
            rw [hfind] at hs'
            cases hs'
            exact b2 ty hty
          · exact hcl2.1 n hn (by simp [hnb, hng]) s' hs' ty hty
    · rename_i hs
      simp only [ne_eq, Decidable.not_not] at hs
      split at h
      · rename_i hmm
        split at h
        · rename_i hc
          cases h
          refine ⟨Reach.le_refl _, ⟨fun a => absurd hs a, fun _ _ => by simpa using hc,
            fun _ a => absurd a hmm⟩, fun _ _ h => h⟩
        · rename_i hc
          split at h
          · rename_i hnone
            have := hl.2 hs hmm
            simp [hnone] at this
          · rename_i m hfind
            have hmem := findMultimap_spec hfind
            have hlk : ∀ ty ∈ m.types, Lookup σ ty.inner := fun ty hty =>
              hall ty (mem_allTypes.2 (Or.inr ⟨m, hmem.1, hty⟩))
            obtain ⟨b1, b2, b3⟩ := mrFields_spec ih m.types _ r' h hlk
            have hle : r.le { r with multimaps := b.multimap :: r.multimaps } :=
              ⟨fun _ h => h, fun _ h => by simp [h], fun _ h => h⟩
            refine ⟨Reach.le_trans hle b1, ⟨fun a => absurd hs a, fun _ _ => b1.2.1 (by simp),
              fun _ a => absurd a hmm⟩, ?_⟩
            intro Gs Gm hcl
            have hcl1 : ClosedExcept σ { r with multimaps := b.multimap :: r.multimaps } Gs (b.multimap :: Gm) := by
              refine ⟨?_, ?_⟩
              · intro n hn hng s' hs' ty hty
                exact (hcl.1 n hn hng s' hs' ty hty).mono hle
              · intro n hn hng m' hm' ty hty
                simp only [List.mem_cons, not_or] at hn hng
                rcases hn with rfl | hn
                · exact absurd rfl hng.1
                · exact (hcl.2 n hn hng.2 m' hm' ty hty).mono hle
            have hcl2 := b3 _ _ hcl1
            refine ⟨hcl2.1, ?_⟩
            intro n hn hng m' hm' ty hty
            by_cases hnb : n = b.multimap
            · subst hnb
              rw [hfind] at hm'
              cases hm'
              exact b2 ty hty
            · exact hcl2.2 n hn (by simp [hnb, hng]) m' hm' ty hty
      · rename_i hmm
        simp only [ne_eq, Decidable.not_not] at hmm
        split at h
        · rename_i he
          cases h
          have hle : r.le { r with enums := b.enum :: r.enums } :=
            ⟨fun _ h => h, fun _ h => h, fun _ h => by simp [h]⟩
          refine ⟨hle, ⟨fun a => absurd hs a, fun _ a => absurd hmm a, fun _ _ _ => by simp⟩, ?_⟩
          intro Gs Gm hcl
          exact ⟨fun n hn hng s' hs' ty hty => (hcl.1 n hn hng s' hs' ty hty).mono hle,
                 fun n hn hng m' hm' ty hty => (hcl.2 n hn hng m' hm' ty hty).mono hle⟩
        · rename_i he
          cases h
          exact ⟨Reach.le_refl _, ⟨fun a => absurd hs a, fun _ a => absurd hmm a, fun _ _ a => absurd a he⟩,
            fun _ _ h => h⟩


theorem mrRoots_spec {σ : Schema} (hall : ∀ ty ∈ σ.allTypes, Lookup σ ty.inner) :
    ∀ (ss : List Struct) (r r' : Reach), mrRoots σ ss r = some r' → (∀ s ∈ ss, s ∈ σ.structs) →
      ClosedExcept σ r [] [] → ClosedExcept σ r' [] []
  | [], r, r', h, _, hc => by simp [mrRoots] at h; subst h; exact hc
  | s :: ss, r, r', h, hmem, hc => by
    unfold mrRoots at h
    split at h
    · split at h
      · cases h
      · rename_i r1 h1
        have hl : Lookup σ { struct := s.name } := by
          refine ⟨fun _ => ?_, fun a b => by simp at b⟩
          simp only [Schema.findStruct, List.find?_isSome, decide_eq_true_eq]
          exact ⟨s, hmem s (by simp), rfl⟩
        have sp := mrBase_spec hall _ _ _ _ h1 hl
        exact mrRoots_spec hall ss r1 r' h (fun x hx => hmem x (by simp [hx])) (sp.2.2 _ _ hc)
    · exact mrRoots_spec hall ss r r' h (fun x hx => hmem x (by simp [hx])) hc

theorem find?_of_nodup_struct : ∀ (l : List Struct) (s : Struct), (l.map (·.name)).Nodup → s ∈ l →
    l.find? (fun x => x.name = s.name) = some s
  | [], s, _, h => by simp at h
  | a :: l, s, hn, h => by
    simp only [List.map_cons, List.nodup_cons, List.mem_map, not_exists, not_and] at hn
    simp only [List.mem_cons] at h
    by_cases ha : a.name = s.name
    · rcases h with rfl | h
      · simp
      · exact absurd ha.symm (hn.1 s h)
    · rcases h with rfl | h
      · exact absurd rfl ha
      · simp only [List.find?_cons, ha, decide_false]
        exact find?_of_nodup_struct l s hn.2 h

theorem find?_of_nodup_multimap : ∀ (l : List Multimap) (s : Multimap), (l.map (·.name)).Nodup → s ∈ l →
    l.find? (fun x => x.name = s.name) = some s
  | [], s, _, h => by simp at h
  | a :: l, s, hn, h => by
    simp only [List.map_cons, List.nodup_cons, List.mem_map, not_exists, not_and] at hn
    simp only [List.mem_cons] at h
    by_cases ha : a.name = s.name
    · rcases h with rfl | h
      · simp
      · exact absurd ha.symm (hn.1 s h)
    · rcases h with rfl | h
      · exact absurd rfl ha
      · simp only [List.find?_cons, ha, decide_false]
        exact find?_of_nodup_multimap l s hn.2 h

/-- the conclusion of C12 without the "no empty type" clause. -/
structure WF0 (σ : Schema) : Prop where
  top_unique : σ.topNames.Nodup
  fields_unique : ∀ s ∈ σ.structs, (s.fields.map (·.name)).Nodup
  root_nonempty : ∀ s ∈ σ.structs, s.isRoot = true → s.fields ≠ []
  refs : ∀ ty ∈ σ.allTypes, ty.inner.Res3 σ
  enum_members_unique : σ.EnumMembersUnique

theorem res3_lookup {σ : Schema} {b : BaseType} (h : b.Res3 σ) : Lookup σ b := by
  refine ⟨fun hs => ?_, fun hs hm => ?_⟩
  · have := (h.1 hs).2.2.2.1
    simpa [Schema.findStruct, Schema.hasStruct, List.find?_isSome] using this
  · have := (h.2.1 hm).2.2.2.1
    simpa [Schema.findMultimap, Schema.hasMultimap, List.find?_isSome] using this

theorem pruneUnused_wf0 {σ σ3 : Schema} (hi : RInv σ) (h : pruneUnused σ = some σ3) : WF0 σ3 := by
  unfold pruneUnused at h
  split at h
  · cases h
  · rename_i r hr
    cases h
    have hall : ∀ ty ∈ σ.allTypes, Lookup σ ty.inner := fun ty hty => res3_lookup (hi.res ty hty)
    have hcl := mrRoots_spec hall σ.structs {} r hr (fun _ h => h) ⟨by simp, by simp⟩
    -- names of the pruned schema
    have hsub : (Schema.topNames
        { σ with structs := σ.structs.filter (fun s => r.structs.contains s.name),
                 multimaps := σ.multimaps.filter (fun m => r.multimaps.contains m.name),
                 enums := σ.enums.filter (fun e => r.enums.contains e.name) }).Sublist σ.topNames := by
      simp only [Schema.topNames]
      exact ((List.filter_sublist.map _).append (List.filter_sublist.map _)).append
        (List.filter_sublist.map _)
    have htop3 := hi.top.sublist hsub
    have hsn : (σ.structs.map (·.name)).Nodup := by
      have := hi.top
      simp only [Schema.topNames, List.nodup_append] at this
      exact this.1.1
    have hmn : (σ.multimaps.map (·.name)).Nodup := by
      have := hi.top
      simp only [Schema.topNames, List.nodup_append] at this
      exact this.1.2.1
    refine ⟨htop3, ?_, ?_, ?_, ?_⟩
    rotate_right
    · intro e he
      simp only [List.mem_filter] at he
      exact hi.enums e he.1
    · intro s hs
      simp only [List.mem_filter] at hs
      exact (hi.structs s hs.1).1
    · intro s hs
      simp only [List.mem_filter] at hs
      exact (hi.structs s hs.1).2
    · intro ty hty
      rw [mem_allTypes] at hty
      -- ty belongs to a kept definition: it is resolved in σ and covered by r
      have hfacts : ty.inner.Res3 σ ∧ Covered r ty.inner := by
        rcases hty with ⟨s, hs, hty⟩ | ⟨m, hm, hty⟩
        · simp only [List.mem_filter, List.contains_iff_mem] at hs
          refine ⟨hi.res ty (mem_allTypes.2 (Or.inl ⟨s, hs.1, hty⟩)), ?_⟩
          exact hcl.1 s.name hs.2 (by simp) s (find?_of_nodup_struct _ s hsn hs.1) ty hty
        · simp only [List.mem_filter, List.contains_iff_mem] at hm
          refine ⟨hi.res ty (mem_allTypes.2 (Or.inr ⟨m, hm.1, hty⟩)), ?_⟩
          exact hcl.2 m.name hm.2 (by simp) m (find?_of_nodup_multimap _ m hmn hm.1) ty hty
      obtain ⟨hres, hcov⟩ := hfacts
      refine ⟨?_, ?_, ?_⟩
      · intro hs
        obtain ⟨a1, a2, a3, a4, _⟩ := hres.1 hs
        have hin := hcov.1 hs
        have hmem : ty.inner.struct ∈ (σ.structs.filter (fun s => r.structs.contains s.name)).map (·.name) := by
          rw [hasStruct_iff] at a4
          simp only [List.mem_map] at a4 ⊢
          obtain ⟨x, hx, hxn⟩ := a4
          exact ⟨x, by simp [List.mem_filter, hx, hxn, hin], hxn⟩
        refine ⟨a1, a2, a3, hasStruct_iff.2 hmem, count_one_of_mem htop3 ?_⟩
        simp only [Schema.topNames, List.mem_append]
        exact Or.inl (Or.inl hmem)
      · intro hm
        obtain ⟨a1, a2, a3, a4, _⟩ := hres.2.1 hm
        have hin := hcov.2.1 a1 hm
        have hmem : ty.inner.multimap ∈ (σ.multimaps.filter (fun m => r.multimaps.contains m.name)).map (·.name) := by
          rw [hasMultimap_iff] at a4
          simp only [List.mem_map] at a4 ⊢
          obtain ⟨x, hx, hxn⟩ := a4
          exact ⟨x, by simp [List.mem_filter, hx, hxn, hin], hxn⟩
        refine ⟨a1, a2, a3, hasMultimap_iff.2 hmem, count_one_of_mem htop3 ?_⟩
        simp only [Schema.topNames, List.mem_append]
        exact Or.inl (Or.inr hmem)
      · intro he
        obtain ⟨a1, a2, a3, a4, _⟩ := hres.2.2 he
        have hin := hcov.2.2 a1 a2 he
        have hmem : ty.inner.enum ∈ (σ.enums.filter (fun e => r.enums.contains e.name)).map (·.name) := by
          rw [hasEnum_iff] at a4
          simp only [List.mem_map] at a4 ⊢
          obtain ⟨x, hx, hxn⟩ := a4
          exact ⟨x, by simp [List.mem_filter, hx, hxn, hin], hxn⟩
        refine ⟨a1, a2, a3, hasEnum_iff.2 hmem, count_one_of_mem htop3 ?_⟩
        simp only [Schema.topNames, List.mem_append]
        exact Or.inr hmem

/-- accepted schemas are well-formed (all clauses but "no empty type"). -/
theorem parseTokens_wf0 {ts : List Token} {σ : Schema} (h : parseTokens ts = .ok σ) : WF0 σ := by
  unfold parseTokens at h
  split at h
  · cases h
  · rename_i σ0 ts0 hg
    split at h
    · cases h
    · rename_i σ1 hres
      split at h
      · cases h
      · rename_i σ2 hcr
        split at h
        · cases h
        · rename_i σ3 hp
          cases h
          exact pruneUnused_wf0 (computeRecursive_inv (resolveRefs_inv (grammar_inv hg) hres) hcr) hp

end Stef.Idl
