/-
  Stef.Proofs.ParseFlowGen: the IDL parser REGENERATED from go/pkg/idl/parser.go (Stef/Gen/ParseFlow.lean, by
  extract/parseflow.go), running on the lexer REGENERATED from lexer.go (Stef/Gen/LexFlow.lean), computes exactly
  what the hand parser of Stef/Idl.lean says - function by function, on every parser object:
    eat_run, parseDictModifier_run, parseFieldType_run            (tokens: `toks l` = what the lexer object will deliver)
    parseStructFieldModifier_run / _loop, hasField_run, addField_run, parseStructField_run, parseStructFields_run
    parseStructModifier_run, parseStruct_run, parseOneof_run      (heap: `Enc p σ` = the heaps and maps hold exactly σ)
    parseMultimapField_run, parseMultimap_run, parseEnumField_run, parseEnumFields_loop, parseEnum_run
    parsePackage_run, defStep_run, defLoop, parse_run, genParse2_eq
  Conventions. `toks l` is the token list of the hand parser for the lexer object `l` (current token, then `Next()`
  up to EOF; `next_toks`: Next = Idl.adv). An error value is read through `classify` (message text -> error class of the
  hand model). The heap the Go code builds by allocation and writes through pointers is, at every point where a
  function returns normally, the canonical encoding `encHeap` / `heapOf` of the hand model's (partial) schema - the
  allocation order of parser.go is deterministic - and `absSchema_enc` shows that the vocabulary reads it back as that
  schema. Loops: the four loops of the shape `for { err, ok := step(); .. }` are `stepLoop`; the package loop and the
  declaration loop are characterised by the behaviour of their bodies (`pkgStep`, `defStep`), the body itself is taken
  from the goal by unification; fuel: `*_fuel` (the hand loops do not depend on the fuel beyond the number of tokens).
  These proofs are the tie of the hand parser to the source text: a change of parser.go either still proves equal here,
  or breaks this file (or makes the generator fail).
-/
import Stef.Gen.ParseFlow
import Stef.Proofs.LexFlowGen

set_option linter.unusedSimpArgs false
set_option linter.unusedVariables false

namespace Stef.Proofs.ParseFlowGen
open Stef.ParseFlowSem Stef.Idl Stef.Proofs.LexFlowGen
open Stef.LexFlowSem (L)
open Stef.Gen.LexFlow

/-! ### reading the results of the regenerated parser -/

/-- the class of an error message text (how the hand model names the messages of parser.go) -/
def classifyMsg (l : L) : Msg → Option ErrClass
  | .lit "expected struct, oneof or multimap" => some .expectedDef
  | .lit "struct name expected" => some .structName
  | .lit "multimap name expected" => some .multimapName
  | .lit "enum name expected" => some .enumName
  | .lit "oneof cannot have dict modifier" => some .oneofDict
  | .lit "oneof cannot be a root" => some .oneofRoot
  | .lit "root struct must have at least one field" => some .rootEmpty
  | .lit "dict name expected" => some .dictName
  | .lit "type specifier expected after []" => some .arrayType
  | .lit "type specifier expected" => some .typeExpected
  | .lit "only string or bytes can have dict modifier" => some .dictPrim
  | .lit "identifier expected" => some .pkgIdent
  | .lit "enum field value expected" => some .enumValue
  | .cat (.lit "enum field value expected") (.cat (.lit ": ") (.lex _)) => some .enumValue
  | .cat (.lit "duplicate top-level identifier: ") (.str n) => some (.dupTop n)
  | .cat (.lit "duplicate field name: ") (.str n) => some (.dupField n)
  | .cat (.lit "duplicate enum field name: ") (.str n) => some (.dupEnumField n)
  | .sprintfTok "expected %s but got %s" [w, g] =>
    if g = l.token then some (.expected (tokOf w [] 0) (observe l).tok) else none
  | .resolve c => some c
  | _ => none

/-- a non-nil error of the regenerated parser as the hand model's positioned error; `l` = the lexer
    object when the error was made (no token is consumed after an error) -/
def classify (e : PErr) (l : L) : Option (Pos × ErrClass) :=
  match e with
  | .resolve _ => none
  | .error m =>
    if m.type = Gen.ParseFlow.c_MessageTypeError then (classifyMsg l m.msg).map fun c => (m.pos, c) else none

/-- the result of the regenerated `Parse()` as an outcome of the hand model -/
def outcomeOf : Res Err → Outcome
  | .ok none p => match p.post with
    | some σ => .ok σ
    | none => .panic .invalidState
  | .ok (some e) p => match classify e p.lexer with
    | some (pos, c) => .error pos c
    | none => .panic .invalidState
  | .stuck => .panic .outOfFuel
  | .panic (.schema s) => .panic s
  | .panic _ => .panic .nilDef

/-- `idl.Parse`: `NewLexer(input)`, `NewParser(lexer, fileName)`, `parser.Parse()` - all three regenerated
    (NewParser: a parser object with that lexer and an empty schema). -/
def genParse2 (input : List Char) : Outcome :=
  match (LexFlowSem.call (newLexer input) : LexFlowSem.M Unit Unit).run {} with
  | .next _ l => outcomeOf (Gen.ParseFlow.parse.run { lexer := l, schema := some {} })
  | _ => .panic .outOfFuel


/-! ### the monad -/

theorem bind_run {α β : Type} (m : M α) (f : α → M β) (p : P) :
    (m >>= f).run p = match m.run p with
      | .ok a p' => (f a).run p'
      | .stuck => .stuck
      | .panic g => .panic g := rfl

theorem pure_run {α : Type} (a : α) (p : P) : (pure a : M α).run p = .ok a p := rfl
theorem ite_run {α : Type} (c : Prop) [Decidable c] (a b : M α) (p : P) :
    (if c then a else b).run p = if c then a.run p else b.run p := by split <;> rfl
theorem getP_run (p : P) : getP.run p = .ok p p := rfl
theorem modP_run (f : P → P) (p : P) : (modP f).run p = .ok () (f p) := rfl
theorem rounds_run (p : P) : rounds.run p = .ok ⟨p.lexer.input.length + 4⟩ p := rfl
theorem forIn_rounds {β : Type} (r : Rounds) (b : β) (f : Unit → β → M (ForInStep β)) :
    forIn r b f = loopN f r.n b := rfl

/-- the getters of the lexer -/
theorem curToken_run (p : P) : (lexCall curToken).run p = .ok p.lexer.token p := rfl
theorem curIdent_run (p : P) : (lexCall curIdent).run p = .ok p.lexer.ident p := rfl
theorem curUint64Number_run (p : P) : (lexCall curUint64Number).run p = .ok p.lexer.uintNumber p := rfl
theorem tokenStartPos_run (p : P) : (lexCall tokenStartPos).run p = .ok p.lexer.prevPos p := rfl
theorem curErrMsg_run (p : P) : (lexCall curErrMsg).run p = .ok p.lexer.errMsg p := rfl

/-- unfold one more layer of a translated `do` block -/
macro "rsimp" "[" ts:Lean.Parser.Tactic.simpLemma,* "]" : tactic =>
  `(tactic| simp only [bind_run, pure_run, ite_run, curToken_run, curIdent_run, curUint64Number_run,
      tokenStartPos_run, curErrMsg_run, getP_run, modP_run, rounds_run, forIn_rounds,
      Option.isSome_none, Option.isSome_some, Bool.false_eq_true, if_false, if_true, $ts,*])

/-! ### the token stream a lexer object stands for -/

/-- the tokens the parser will read from the lexer object `l`: the current one (`Token()` etc.), then what
    `Next()` delivers, up to and including EOF - the token list the hand parser works on -/
def toks (l : L) : List Token :=
  if (observe l).tok = .eof then [observe l] else observe l :: lexLoop (mu (abs l) + 1) (abs l)

theorem cur_toks (l : L) : cur (toks l) = observe l := by
  unfold toks; split <;> rfl

theorem toks_wfs (l : L) : WFS (toks l) := by
  unfold toks
  split
  · rename_i h; exact h
  · rename_i h; exact WFS_cons h (lexLoop_wfs _ _)

theorem lexLoop_len : ∀ (f : Nat) (s : LexSt), (lexLoop f s).length ≤ mu s + 1
  | 0, s => by simp [lexLoop]
  | f + 1, s => by
    simp only [lexLoop]
    split
    · simp
    · rename_i h
      have := nextTok_mu_lt s h
      have := lexLoop_len f (nextTok s).2
      simp only [List.length_cons]
      omega

theorem toks_len (l : L) : (toks l).length ≤ l.input.length + 3 := by
  have h1 := mu_abs_le l
  have h2 := lexLoop_len (mu (abs l) + 1) (abs l)
  unfold toks
  split
  · simp
  · simp only [List.length_cons]; omega

/-- **`p.lexer.Next()` = `Idl.adv`** on the token list, while the current token is not EOF -/
theorem next_toks (p : P) (he : p.lexer.isError = false) (hne : (observe p.lexer).tok ≠ .eof) :
    ∃ l', (lexCall next).run p = .ok () { p with lexer := l' } ∧ l'.isError = false ∧
      toks l' = adv (toks p.lexer) := by
  obtain ⟨l', h1, h2, h3, h4⟩ := next_run (ρ := Unit) p.lexer he
  refine ⟨l', ?_, h3, ?_⟩
  · simp only [LexFlowSem.call, Stef.LexFlowSem.Out.ofCall] at h1
    simp only [lexCall]
    cases hr : next.run p.lexer with
    | next a l => rw [hr] at h1; simp at h1; subst h1; rfl
    | ret a l => rw [hr] at h1; simp at h1; subst h1; rfl
    | brk l => rw [hr] at h1; simp at h1
    | stuck => rw [hr] at h1; simp at h1
  · have e1 : toks p.lexer = observe p.lexer :: lexLoop (mu (abs p.lexer) + 1) (abs p.lexer) := by
      unfold toks; rw [if_neg hne]
    rw [e1]
    have e2 : lexLoop (mu (abs p.lexer) + 1) (abs p.lexer) =
        (if (nextTok (abs p.lexer)).1.tok = .eof then [(nextTok (abs p.lexer)).1]
         else (nextTok (abs p.lexer)).1 :: lexLoop (mu (abs p.lexer)) (nextTok (abs p.lexer)).2) := by
      simp only [lexLoop]
    have e3 : adv (observe p.lexer :: lexLoop (mu (abs p.lexer) + 1) (abs p.lexer)) =
        lexLoop (mu (abs p.lexer) + 1) (abs p.lexer) := by
      rw [e2]; split <;> rfl
    rw [e3, e2]
    unfold toks
    rw [h4, h2]
    split
    · rfl
    · rename_i hq
      have := nextTok_mu_lt _ hq
      rw [lexLoop_fuel (mu (nextTok (abs p.lexer)).2 + 1) (mu (abs p.lexer)) _ (by omega) (by omega)]


/-! ### token codes (how parser.go reads `Token()`) -/

theorem ofNat_eq {t : Nat} {c : Char} (h : Char.ofNat t = c) (hc : c.toNat ≠ 0) : t = c.toNat := by
  subst h
  unfold Char.ofNat at hc ⊢
  split
  · rfl
  · rename_i h; simp [h] at hc

theorem kwOfCode_kwCode (k : Kw) : kwOfCode (kwCode k) = some k := by cases k <;> rfl

theorem kwOfCode_some {t : Nat} {k : Kw} (h : kwOfCode t = some k) : t = kwCode k := by
  have := List.find?_some h
  simp at this
  exact this.symm

/-- the six shapes of `tokOf` -/
theorem tokOf_cases (t : Nat) (i : List Char) (n : Nat) :
    (t = c_tError ∧ tokOf t i n = .error) ∨ (t = c_tEOF ∧ tokOf t i n = .eof) ∨
    (t = c_tIdent ∧ tokOf t i n = .ident i) ∨ (t = c_tIntNumber ∧ tokOf t i n = .num n) ∨
    (∃ k, t = kwCode k ∧ tokOf t i n = .kw k) ∨
    (t ≠ c_tError ∧ t ≠ c_tEOF ∧ t ≠ c_tIdent ∧ t ≠ c_tIntNumber ∧ (∀ k, t ≠ kwCode k) ∧
      tokOf t i n = .punct (Char.ofNat t)) := by
  by_cases h0 : t = c_tError
  · subst h0; exact .inl ⟨rfl, rfl⟩
  by_cases h1 : t = c_tEOF
  · subst h1; exact .inr (.inl ⟨rfl, rfl⟩)
  by_cases h2 : t = c_tIdent
  · subst h2; exact .inr (.inr (.inl ⟨rfl, rfl⟩))
  by_cases h3 : t = c_tIntNumber
  · subst h3; exact .inr (.inr (.inr (.inl ⟨rfl, rfl⟩)))
  cases hk : kwOfCode t with
  | some k =>
    have := kwOfCode_some hk
    subst this
    exact .inr (.inr (.inr (.inr (.inl ⟨k, rfl, tokOf_kw k i n⟩))))
  | none =>
    refine .inr (.inr (.inr (.inr (.inr ⟨h0, h1, h2, h3, ?_, ?_⟩))))
    · intro k hk'; subst hk'; rw [kwOfCode_kwCode] at hk; simp at hk
    · simp [tokOf, h0, h1, h2, h3, hk]

theorem tokOf_ident_iff (t : Nat) (i : List Char) (n : Nat) (s : Name) :
    tokOf t i n = .ident s ↔ (t = c_tIdent ∧ s = i) := by
  constructor
  · intro h
    rcases tokOf_cases t i n with ⟨_, e⟩ | ⟨_, e⟩ | ⟨h3, e⟩ | ⟨_, e⟩ | ⟨k, _, e⟩ | ⟨_, _, _, _, _, e⟩ <;>
      rw [e] at h <;> simp at h
    exact ⟨h3, h.symm⟩
  · rintro ⟨rfl, rfl⟩; rfl

theorem tokOf_num_iff (t : Nat) (i : List Char) (n v : Nat) :
    tokOf t i n = .num v ↔ (t = c_tIntNumber ∧ v = n) := by
  constructor
  · intro h
    rcases tokOf_cases t i n with ⟨_, e⟩ | ⟨_, e⟩ | ⟨_, e⟩ | ⟨h3, e⟩ | ⟨k, _, e⟩ | ⟨_, _, _, _, _, e⟩ <;>
      rw [e] at h <;> simp at h
    exact ⟨h3, h.symm⟩
  · rintro ⟨rfl, rfl⟩; rfl

theorem tokOf_eof_iff (t : Nat) (i : List Char) (n : Nat) : tokOf t i n = .eof ↔ t = c_tEOF := by
  constructor
  · intro h
    rcases tokOf_cases t i n with ⟨_, e⟩ | ⟨h3, e⟩ | ⟨_, e⟩ | ⟨_, e⟩ | ⟨k, _, e⟩ | ⟨_, _, _, _, _, e⟩ <;>
      rw [e] at h <;> simp at h
    exact h3
  · rintro rfl; rfl

theorem tokOf_error_iff (t : Nat) (i : List Char) (n : Nat) : tokOf t i n = .error ↔ t = c_tError := by
  constructor
  · intro h
    rcases tokOf_cases t i n with ⟨h3, e⟩ | ⟨_, e⟩ | ⟨_, e⟩ | ⟨_, e⟩ | ⟨k, _, e⟩ | ⟨_, _, _, _, _, e⟩ <;>
      rw [e] at h <;> simp at h
    exact h3
  · rintro rfl; rfl

theorem tokOf_kw_iff (t : Nat) (i : List Char) (n : Nat) (k : Kw) : tokOf t i n = .kw k ↔ t = kwCode k := by
  constructor
  · intro h
    rcases tokOf_cases t i n with ⟨_, e⟩ | ⟨_, e⟩ | ⟨_, e⟩ | ⟨_, e⟩ | ⟨k', h3, e⟩ | ⟨_, _, _, _, _, e⟩ <;>
      rw [e] at h <;> simp at h
    subst h; exact h3
  · rintro rfl; exact tokOf_kw k i n

theorem tokOf_punct_iff (t : Nat) (i : List Char) (n : Nat) (c : Char)
    (hc : c ∈ ['.', '=', '[', ']', '(', ')', '{', '}']) : tokOf t i n = .punct c ↔ t = c.toNat := by
  constructor
  · intro h
    rcases tokOf_cases t i n with ⟨_, e⟩ | ⟨_, e⟩ | ⟨_, e⟩ | ⟨_, e⟩ | ⟨k', _, e⟩ | ⟨_, _, _, _, _, e⟩ <;>
      rw [e] at h <;> simp at h
    apply ofNat_eq h
    simp at hc
    rcases hc with rfl | rfl | rfl | rfl | rfl | rfl | rfl | rfl <;> decide
  · rintro rfl
    simp at hc
    rcases hc with rfl | rfl | rfl | rfl | rfl | rfl | rfl | rfl <;> rfl

/-- a token the parser `eat`s or tests for: a punctuation or keyword constant `code` standing for `w` -/
structure IsCode (code : Nat) (w : Tok) : Prop where
  iff : ∀ t i n, tokOf t i n = w ↔ t = code
  ne_eof : w ≠ .eof

theorem isCode_kw (k : Kw) : IsCode (kwCode k) (.kw k) := ⟨fun t i n => tokOf_kw_iff t i n k, by simp⟩
theorem isCode_punct (c : Char) (hc : c ∈ ['.', '=', '[', ']', '(', ')', '{', '}']) : IsCode c.toNat (.punct c) :=
  ⟨fun t i n => tokOf_punct_iff t i n c hc, by simp⟩

theorem IsCode.self {code : Nat} {w : Tok} (h : IsCode code w) (i : List Char) (n : Nat) : tokOf code i n = w :=
  (h.iff code i n).2 rfl

/-! ### errors -/

/-- the error value `e` made when the parser was in state `p'` is the hand model's error `pos`, `c` -/
def IsErr (e : Err) (p' : P) (pos : Pos) (c : ErrClass) : Prop :=
  ∃ x, e = some x ∧ classify x p'.lexer = some (pos, c)

theorem IsErr.isSome {e : Err} {p' : P} {pos : Pos} {c : ErrClass} (h : IsErr e p' pos c) : e.isSome = true := by
  obtain ⟨x, rfl, _⟩ := h; rfl

/-- `p'` is `p` with the lexer advanced so that the tokens `ts` are left -/
def LexAt (p p' : P) (ts : List Token) : Prop :=
  ∃ l', p' = { p with lexer := l' } ∧ l'.isError = false ∧ toks l' = ts

theorem LexAt.refl (p : P) (he : p.lexer.isError = false) : LexAt p p (toks p.lexer) := ⟨p.lexer, rfl, he, rfl⟩

/-- the value of `p.error(msg)` -/
def mkErr (msg : Msg) (p : P) : Err :=
  some (.error { type := Gen.ParseFlow.c_MessageTypeError, msg := msg, filename := p.fileName, pos := p.lexer.prevPos })

theorem perror_run (msg : Msg) (p : P) : (Gen.ParseFlow.perror msg).run p = .ok (mkErr msg p) p := rfl

theorem perror_isErr (msg : Msg) (p : P) (c : ErrClass) (h : classifyMsg p.lexer msg = some c) :
    IsErr (mkErr msg p) p (cur (toks p.lexer)).pos c := by
  refine ⟨_, rfl, ?_⟩
  simp [classify, h, cur_toks, observe]

/-- **eat = Idl.eat** -/
theorem eat_run (p : P) (code : Nat) (w : Tok) (hw : IsCode code w) (he : p.lexer.isError = false) :
    (∀ ts, Idl.eat w (toks p.lexer) = .ok () ts →
      ∃ p', (Gen.ParseFlow.eat code).run p = .ok none p' ∧ LexAt p p' ts) ∧
    (∀ pos c, Idl.eat w (toks p.lexer) = .err pos c →
      ∃ e, (Gen.ParseFlow.eat code).run p = .ok e p ∧ IsErr e p pos c) := by
  have hcur := cur_toks p.lexer
  simp only [Idl.eat, hcur]
  have hobs : (observe p.lexer).tok = w ↔ p.lexer.token = code := hw.iff _ _ _
  by_cases ht : p.lexer.token = code
  · have hw' : (observe p.lexer).tok = w := hobs.2 ht
    obtain ⟨l', h1, h2, h3⟩ := next_toks p he (by rw [hw']; exact hw.ne_eof)
    constructor
    · intro ts hts
      simp only [hw', if_true, PR.ok.injEq, true_and] at hts
      subst hts
      refine ⟨_, ?_, l', rfl, h2, h3⟩
      simp [Gen.ParseFlow.eat, bind_run, curToken_run, ite_run, pure_run, ht, h1]
    · intro pos c hts
      simp [hw'] at hts
  · have hw' : ¬ (observe p.lexer).tok = w := fun h => ht (hobs.1 h)
    constructor
    · intro ts hts
      simp [hw'] at hts
    · intro pos c hts
      simp only [hw', if_false, PR.err.injEq] at hts
      obtain ⟨rfl, rfl⟩ := hts
      refine ⟨mkErr (Msg.sprintfTok "expected %s but got %s" [code, p.lexer.token]) p, ?_, ?_⟩
      · simp only [Gen.ParseFlow.eat, bind_run, curToken_run, ite_run, pure_run, bne_iff_ne, ne_eq, ht,
          not_false_eq_true, if_true, perror_run]
      · have := perror_isErr (Msg.sprintfTok "expected %s but got %s" [code, p.lexer.token]) p
          (.expected w (observe p.lexer).tok) (by simp [classifyMsg, hw.self])
        simpa [cur_toks] using this


theorem c_LParen : IsCode c_tLParen (.punct '(') := isCode_punct '(' (by simp)
theorem c_RParen : IsCode c_tRParen (.punct ')') := isCode_punct ')' (by simp)
theorem c_LBracket : IsCode c_tLBracket (.punct '[') := isCode_punct '[' (by simp)
theorem c_RBracket : IsCode c_tRBracket (.punct ']') := isCode_punct ']' (by simp)
theorem c_LBrace : IsCode c_tLBrace (.punct '{') := isCode_punct '{' (by simp)
theorem c_RBrace : IsCode c_tRBrace (.punct '}') := isCode_punct '}' (by simp)
theorem c_Dot : IsCode c_tDot (.punct '.') := isCode_punct '.' (by simp)
theorem c_Assign : IsCode c_tAssign (.punct '=') := isCode_punct '=' (by simp)

theorem obs_tok (l : L) : (observe l).tok = tokOf l.token l.ident l.uintNumber := rfl

/-- the current token is the constant `code` -/
theorem tok_eq_code {code : Nat} {w : Tok} (hw : IsCode code w) (l : L) : (observe l).tok = w ↔ l.token = code :=
  hw.iff _ _ _

/-- **parseDictModifier = Idl.parseDictModifier** (the current token is `dict`) -/
theorem parseDictModifier_run (p : P) (he : p.lexer.isError = false) (hd : (observe p.lexer).tok = .kw .dict) :
    (∀ d ts, Idl.parseDictModifier (toks p.lexer) = .ok d ts →
      ∃ p', Gen.ParseFlow.parseDictModifier.run p = .ok (d, none) p' ∧ LexAt p p' ts) ∧
    (∀ pos c, Idl.parseDictModifier (toks p.lexer) = .err pos c →
      ∃ v e p', Gen.ParseFlow.parseDictModifier.run p = .ok (v, e) p' ∧ IsErr e p' pos c) := by
  obtain ⟨l1, h1, he1, ht1⟩ := next_toks p he (by rw [hd]; simp)
  simp only [Idl.parseDictModifier, ← ht1]
  simp only [Gen.ParseFlow.parseDictModifier, bind_run, h1]
  have E1 := eat_run { p with lexer := l1 } c_tLParen _ c_LParen he1
  cases hh1 : Idl.eat (.punct '(') (toks l1) with
  | err pos c =>
    obtain ⟨e, r, ie⟩ := E1.2 pos c hh1
    rsimp [r, ie.isSome]
    exact ⟨by intro d ts h; simp at h, by intro pos' c' h; simp at h; obtain ⟨rfl, rfl⟩ := h; exact ⟨_, _, _, rfl, ie⟩⟩
  | ok u ts1 =>
    obtain ⟨p2, r, l2, rfl, he2, ht2⟩ := E1.1 ts1 hh1
    rsimp [r]
    subst ht2
    simp only [cur_toks]
    by_cases hid : l2.token = c_tIdent
    · have hobs : (observe l2).tok = .ident l2.ident := (tokOf_ident_iff _ _ _ _).2 ⟨hid, rfl⟩
      obtain ⟨l3, h3, he3, ht3⟩ := next_toks { p with lexer := l2 } he2 (by rw [hobs]; simp)
      rsimp [hobs, hid, bne_self_eq_false, h3, ← ht3]
      have E2 := eat_run { p with lexer := l3 } c_tRParen _ c_RParen he3
      cases hh2 : Idl.eat (.punct ')') (toks l3) with
      | err pos c =>
        obtain ⟨e, r2, ie⟩ := E2.2 pos c hh2
        rsimp [r2, ie.isSome]
        exact ⟨by intro d ts h; simp at h, by intro pos' c' h; simp at h; obtain ⟨rfl, rfl⟩ := h; exact ⟨_, _, _, rfl, ie⟩⟩
      | ok u2 ts3 =>
        obtain ⟨p4, r2, l4, rfl, he4, ht4⟩ := E2.1 ts3 hh2
        rsimp [r2]
        exact ⟨by intro d ts h; simp at h; obtain ⟨rfl, rfl⟩ := h; exact ⟨_, rfl, l4, rfl, he4, ht4⟩,
          by intro pos' c' h; simp at h⟩
    · have hobs : ∀ s, (observe l2).tok ≠ .ident s := fun s h => hid ((tokOf_ident_iff _ _ _ _).1 h).1
      have hne : (l2.token != c_tIdent) = true := by simpa using hid
      have ie := perror_isErr (Msg.lit "dict name expected") { p with lexer := l2 } .dictName rfl
      simp only [cur_toks] at ie
      rsimp [hne, perror_run]
      cases htk : (observe l2).tok with
      | ident s => exact (hobs s htk).elim
      | _ =>
        (try simp only [])
        exact ⟨by intro d ts h; simp at h, by intro pos' c' h; simp at h; obtain ⟨rfl, rfl⟩ := h; exact ⟨_, _, _, rfl, ie⟩⟩


/-! ### field types -/

/-- the `PrimitiveFieldType` constant of a primitive type -/
def codeOfPrim : Prim → Nat
  | .int64 => Gen.ParseFlow.c_PrimitiveTypeInt64
  | .uint64 => Gen.ParseFlow.c_PrimitiveTypeUint64
  | .float64 => Gen.ParseFlow.c_PrimitiveTypeFloat64
  | .bool => Gen.ParseFlow.c_PrimitiveTypeBool
  | .string => Gen.ParseFlow.c_PrimitiveTypeString
  | .bytes => Gen.ParseFlow.c_PrimitiveTypeBytes

/-- the regenerated constants are the codes the vocabulary's `primOfCode` reads -/
theorem primOfCode_codeOfPrim (pr : Prim) : primOfCode (codeOfPrim pr) = some pr := by cases pr <;> rfl

/-- the Go `FieldType` value of a non-array type of the hand model -/
def toGoBase (b : BaseType) : GFieldType :=
  { primitive := b.prim.map fun pr => ⟨codeOfPrim pr⟩, struct := b.struct, multiMap := b.multimap, enum := b.enum,
    dictName := b.dict }

/-- the Go `FieldType` value of a field type of the hand model -/
def toGoFT : FType → GFieldType
  | .base b => toGoBase b
  | .array e d r => { array := some (toGoBase e), dictName := d, arrayRecursive := r }

/-- `*r` -/
def readFT (h : Heap) : FTRef → Option GFieldType
  | .ofField k => h.fields[k]?.map (·.fieldType)
  | .ofMultimap k v => h.multimaps[k]?.map fun m => if v then m.value.type else m.key.type

/-- the heap after `*r = g` -/
def writeFT (h : Heap) (r : FTRef) (g : GFieldType) : Heap :=
  match r with
  | .ofField k => match h.fields[k]? with
    | some x => { h with fields := h.fields.set k { x with fieldType := g } }
    | none => h
  | .ofMultimap k v => match h.multimaps[k]? with
    | some m =>
      let m' : GMultimap :=
        if v then { m with value := { m.value with type := g } } else { m with key := { m.key with type := g } }
      { h with multimaps := h.multimaps.set k m' }
    | none => h

theorem modFT_run (p : P) (r : FTRef) (f : GFieldType → GFieldType) (g : GFieldType) (hr : readFT p.heap r = some g) :
    (modFT (some r) f).run p = .ok () { p with heap := writeFT p.heap r (f g) } := by
  cases r with
  | ofField k =>
    simp only [readFT] at hr
    cases hk : p.heap.fields[k]? with
    | none => simp [hk] at hr
    | some x =>
      simp [hk] at hr
      subst hr
      simp [modFT, modField, modCell, hk, writeFT]
  | ofMultimap k v =>
    simp only [readFT] at hr
    cases hk : p.heap.multimaps[k]? with
    | none => simp [hk] at hr
    | some m =>
      simp [hk] at hr
      subst hr
      cases v <;> simp [modFT, modMF, modMultimap, modCell, hk, writeFT, bind_run]

/-- the `switch p.lexer.Token()` of `parseFieldType`, on token codes -/
theorem typeOfTok_spec (t : Nat) (i : List Char) (n : Nat) :
    typeOfTok (tokOf t i n) =
      if t = c_tIdent then some { struct := i }
      else if t = c_tBool then some { prim := some .bool }
      else if t = c_tInt64 then some { prim := some .int64 }
      else if t = c_tUint64 then some { prim := some .uint64 }
      else if t = c_tFloat64 then some { prim := some .float64 }
      else if t = c_tString then some { prim := some .string }
      else if t = c_tBytes then some { prim := some .bytes }
      else none := by
  rcases tokOf_cases t i n with ⟨h, e⟩ | ⟨h, e⟩ | ⟨h, e⟩ | ⟨h, e⟩ | ⟨k, h, e⟩ | ⟨h0, h1, h2, h3, hk, e⟩
  · subst h; rw [e]; rfl
  · subst h; rw [e]; rfl
  · subst h; rw [e]; rfl
  · subst h; rw [e]; rfl
  · subst h; rw [e]; cases k <;> rfl
  · rw [e]
    have b1 := hk .bool; have b2 := hk .int64; have b3 := hk .uint64; have b4 := hk .float64
    have b5 := hk .string; have b6 := hk .bytes
    simp only [kwCode] at b1 b2 b3 b4 b5 b6
    simp [typeOfTok, h2, b1, b2, b3, b4, b5, b6]

/-- numerals for the token / primitive constants -/
macro "csimp" "[" ts:Lean.Parser.Tactic.simpLemma,* "]" : tactic =>
  `(tactic| simp only [c_tError, c_tEOF, c_tIdent, c_tIntNumber, c_tBool, c_tInt64, c_tUint64, c_tFloat64, c_tString, c_tBytes,
      c_tDict, c_tLBracket, c_tRBracket, c_tOptional, c_tRoot,
      Gen.ParseFlow.c_PrimitiveTypeBool, Gen.ParseFlow.c_PrimitiveTypeInt64, Gen.ParseFlow.c_PrimitiveTypeUint64,
      Gen.ParseFlow.c_PrimitiveTypeFloat64, Gen.ParseFlow.c_PrimitiveTypeString, Gen.ParseFlow.c_PrimitiveTypeBytes,
      Nat.reduceEqDiff, Nat.reduceBEq, Nat.reduceBNe, bne_self_eq_false, beq_self_eq_true,
      Bool.false_eq_true, if_false, if_true, reduceCtorEq, $ts,*])

theorem derefPrim_run (v : GPrimitiveType) (p : P) : (derefPrim (some v)).run p = .ok v p := rfl

-- closes `(∀ .., err = ok → ..) ∧ (∀ pos c, err pos0 c0 = err pos c → ∃ e p', X = .ok e p' ∧ IsErr ..)`
set_option hygiene false in
macro "close_err" ie:term : tactic =>
  `(tactic| exact ⟨by intro _ _ h; simp at h, by intro _ _ h; simp at h; obtain ⟨rfl, rfl⟩ := h; exact ⟨_, _, rfl, $ie⟩⟩)

set_option hygiene false in
-- `parseFieldType` after the type token: p r hr l2 he2 in scope, the goal speaks of `l2.token`, `ck : l2.token = code`
macro "pft_tail" ck:ident : tactic => `(tactic| (
  have hne : (observe l2).tok ≠ .eof := by
    rw [obs_tok, Ne, tokOf_eof_iff, $ck:ident]; decide
  obtain ⟨l3, h3, he3, ht3⟩ := next_toks (⟨l2, sch, fn, msgs, hp, post⟩ : P) he2 hne
  simp only [$ck:ident]
  csimp []
  simp only [h3, ← ht3, cur_toks]
  by_cases hd : l3.token = c_tDict
  · have hobs3 : (observe l3).tok = .kw .dict := (tok_eq_code (isCode_kw .dict) l3).2 hd
    simp only [hobs3, hd]
    csimp [dictAllowed, derefPrim_run, Bool.not_true, Bool.not_false, perror_run]
    first
    | (have ie := perror_isErr (Msg.lit "only string or bytes can have dict modifier") (⟨l3, sch, fn, msgs, hp, post⟩ : P) .dictPrim rfl
       simp only [cur_toks] at ie
       close_err ie)
    | (have D := parseDictModifier_run (⟨l3, sch, fn, msgs, hp, post⟩ : P) he3 hobs3
       cases hh2 : Idl.parseDictModifier (toks l3) with
       | err pos c =>
         obtain ⟨v, e, p', r2, ie⟩ := D.2 pos c hh2
         simp only [r2, ie.isSome, if_true]
         close_err ie
       | ok d ts4 =>
         obtain ⟨_, r2, l4, rfl, he4, ht4⟩ := D.1 d ts4 hh2
         simp only [r2, Option.isSome_none, Bool.false_eq_true, if_false]
         rw [modFT_run (⟨l4, sch, fn, msgs, hp, post⟩ : P) r _ {} hr]
         exact ⟨by intro ty ts h; simp at h; obtain ⟨rfl, rfl⟩ := h; first | exact ⟨l4, rfl, he4, ht4⟩ | exact ⟨l4, rfl, he4, rfl⟩,
           by intro _ _ h; simp at h⟩)
  · have hobs3 : ¬ (observe l3).tok = .kw .dict := fun h => hd ((tok_eq_code (isCode_kw .dict) l3).1 h)
    have hd' : (l3.token == c_tDict) = false := by simpa using hd
    simp only [c_tDict] at hd'
    simp only [hobs3, hd', if_false, Bool.false_eq_true]
    rw [modFT_run (⟨l3, sch, fn, msgs, hp, post⟩ : P) r _ {} hr]
    exact ⟨by intro ty ts h; simp at h; obtain ⟨rfl, rfl⟩ := h; exact ⟨l3, rfl, he3, rfl⟩,
      by intro _ _ h; simp at h⟩))

set_option hygiene false in
-- the `default:` clause: c1 .. c7 say the token is none of the type tokens
macro "pft_dflt" cls:term:max msg:str : tactic => `(tactic| (
  have d1 : (l2.token == c_tIdent) = false := by simpa using c1
  have d2 : (l2.token == c_tBool) = false := by simpa using c2
  have d3 : (l2.token == c_tInt64) = false := by simpa using c3
  have d4 : (l2.token == c_tUint64) = false := by simpa using c4
  have d5 : (l2.token == c_tFloat64) = false := by simpa using c5
  have d6 : (l2.token == c_tString) = false := by simpa using c6
  have d7 : (l2.token == c_tBytes) = false := by simpa using c7
  simp only [c1, c2, c3, c4, c5, c6, c7, d1, d2, d3, d4, d5, d6, d7, if_false, Bool.false_eq_true, perror_run]
  have ie := perror_isErr (Msg.lit $msg) (⟨l2, sch, fn, msgs, hp, post⟩ : P) $cls rfl
  simp only [cur_toks] at ie
  close_err ie))

theorem parseFieldType_run (p : P) (r : FTRef) (he : p.lexer.isError = false) (hr : readFT p.heap r = some {}) :
    (∀ ty ts, Idl.parseFieldType (toks p.lexer) = .ok ty ts →
      ∃ l', (Gen.ParseFlow.parseFieldType (some r)).run p =
          .ok none { p with lexer := l', heap := writeFT p.heap r (toGoFT ty) } ∧
        l'.isError = false ∧ toks l' = ts) ∧
    (∀ pos c, Idl.parseFieldType (toks p.lexer) = .err pos c →
      ∃ e p', (Gen.ParseFlow.parseFieldType (some r)).run p = .ok e p' ∧ IsErr e p' pos c) := by
  obtain ⟨l0, sch, fn, msgs, hp, post⟩ := p
  simp only [] at he hr
  unfold Idl.parseFieldType Gen.ParseFlow.parseFieldType
  simp only [cur_toks]
  rsimp []
  by_cases hb : l0.token = c_tLBracket
  · have hobs : (observe l0).tok = .punct '[' := (tok_eq_code c_LBracket _).2 hb
    obtain ⟨l1, h1, he1, ht1⟩ := next_toks ⟨l0, sch, fn, msgs, hp, post⟩ he (by rw [hobs]; simp)
    simp only [] at ht1
    simp only [hobs, if_true, hb, beq_self_eq_true, h1, ← ht1]
    have E1 := eat_run ⟨l1, sch, fn, msgs, hp, post⟩ c_tRBracket _ c_RBracket he1
    cases hh : Idl.eat (.punct ']') (toks l1) with
    | err pos c =>
      obtain ⟨e, r1, ie⟩ := E1.2 pos c hh
      rsimp [r1, ie.isSome]
      close_err ie
    | ok u ts2 =>
      obtain ⟨_, r1, l2, rfl, he2, ht2⟩ := E1.1 ts2 hh
      rsimp [r1]
      subst ht2
      simp only [cur_toks, obs_tok l2, typeOfTok_spec]
      by_cases c1 : l2.token = c_tIdent
      · pft_tail c1
      by_cases c2 : l2.token = c_tBool
      · pft_tail c2
      by_cases c3 : l2.token = c_tInt64
      · pft_tail c3
      by_cases c4 : l2.token = c_tUint64
      · pft_tail c4
      by_cases c5 : l2.token = c_tFloat64
      · pft_tail c5
      by_cases c6 : l2.token = c_tString
      · pft_tail c6
      by_cases c7 : l2.token = c_tBytes
      · pft_tail c7
      pft_dflt .arrayType "type specifier expected after []"
  · have hobs : ¬ (observe l0).tok = .punct '[' := fun h => hb ((tok_eq_code c_LBracket _).1 h)
    have hb' : (l0.token == c_tLBracket) = false := by simpa using hb
    simp only [hobs, hb', if_false, Bool.false_eq_true]
    simp only [cur_toks, obs_tok l0, typeOfTok_spec]
    obtain ⟨l2, hl2⟩ : ∃ l2, l2 = l0 := ⟨_, rfl⟩
    have he2 : l2.isError = false := by rw [hl2]; exact he
    rw [← hl2]
    by_cases c1 : l2.token = c_tIdent
    · pft_tail c1
    by_cases c2 : l2.token = c_tBool
    · pft_tail c2
    by_cases c3 : l2.token = c_tInt64
    · pft_tail c3
    by_cases c4 : l2.token = c_tUint64
    · pft_tail c4
    by_cases c5 : l2.token = c_tFloat64
    · pft_tail c5
    by_cases c6 : l2.token = c_tString
    · pft_tail c6
    by_cases c7 : l2.token = c_tBytes
    · pft_tail c7
    pft_dflt .typeExpected "type specifier expected"


/-! ### the loop `for { err, ok := step(); if err != nil { return err }; if !ok { break } }` -/

/-- `n` rounds of that loop: the error `step` returned, or `none` when it answered `ok = false` -/
def stepLoop (step : M (Err × Bool)) : Nat → P → Res Err
  | 0, _ => .stuck
  | n + 1, p =>
    match step.run p with
    | .ok (e, ok) p' => if e.isSome then .ok e p' else if !ok then .ok none p' else stepLoop step n p'
    | .stuck => .stuck
    | .panic g => .panic g

theorem loopN_succ {β : Type} (f : Unit → β → M (ForInStep β)) (n : Nat) (b : β) (p : P) :
    (loopN f (n + 1) b).run p = match (f () b).run p with
      | .ok (.done b') p' => .ok b' p'
      | .ok (.yield b') p' => (loopN f n b').run p'
      | .stuck => .stuck
      | .panic g => .panic g := by
  simp only [loopN, bind_run]
  cases (f () b).run p with
  | ok a p' => cases a <;> rfl
  | stuck => rfl
  | panic g => rfl

/-- a translated loop of that shape (whatever its body is called) is `stepLoop` -/
theorem stepLoop_of_body (step : M (Err × Bool)) (f : Unit → Option Err × Unit → M (ForInStep (Option Err × Unit)))
    (hf : ∀ s p, (f () s).run p = match step.run p with
      | .ok (e, ok) p' =>
        if e.isSome then .ok (.done (some e, ())) p' else if !ok then .ok (.done (none, ())) p' else .ok (.yield (none, ())) p'
      | .stuck => .stuck
      | .panic g => .panic g) :
    ∀ (n : Nat) (p : P), (loopN f n (none, ())).run p = match stepLoop step n p with
      | .ok e p' => .ok (if e.isSome then some e else none, ()) p'
      | .stuck => .stuck
      | .panic g => .panic g
  | 0, p => rfl
  | n + 1, p => by
    have ih := stepLoop_of_body step f hf n
    rw [loopN_succ, hf]
    simp only [stepLoop]
    cases step.run p with
    | stuck => rfl
    | panic g => rfl
    | ok a p' =>
      obtain ⟨e, ok⟩ := a
      simp only []
      by_cases h1 : e.isSome = true
      · simp only [h1, if_true]
      · simp only [h1, if_false, Bool.false_eq_true]
        cases ok
        · simp
        · simp only [Bool.not_true, Bool.false_eq_true, if_false]; exact ih p'

/-- the wrapper `rounds`, loop, `return` of the state -/
theorem stepLoop_wrap (step : M (Err × Bool)) (f : Unit → Option Err × Unit → M (ForInStep (Option Err × Unit)))
    (hf : ∀ s p, (f () s).run p = match step.run p with
      | .ok (e, ok) p' =>
        if e.isSome then .ok (.done (some e, ())) p' else if !ok then .ok (.done (none, ())) p' else .ok (.yield (none, ())) p'
      | .stuck => .stuck
      | .panic g => .panic g)
    (k : Option Err × Unit → M Err)
    (hk : ∀ e p, (k (if e.isSome then some e else none, ())).run p = .ok e p ∨ e = none ∧ (k (none, ())).run p = .ok none p)
    (n : Nat) (p : P) :
    (loopN f n (none, ()) >>= k).run p = stepLoop step n p := by
  rw [bind_run, stepLoop_of_body step f hf n p]
  cases stepLoop step n p with
  | stuck => rfl
  | panic g => rfl
  | ok e p' =>
    simp only []
    rcases hk e p' with h | ⟨rfl, h⟩
    · exact h
    · simpa using h

theorem stepLoop_body_shape (step : M (Err × Bool)) (s : Option Err × Unit) (p : P) :
    (do let __x ← step
        match __x with
          | (err, ok) =>
            if Option.isSome err = true then pure (ForInStep.done (some err, ()))
            else if (!ok) = true then pure (ForInStep.done (none, ())) else pure (ForInStep.yield (none, ())) :
        M (ForInStep (Option Err × Unit))).run p = match step.run p with
      | .ok (e, ok) p' =>
        if e.isSome then .ok (.done (some e, ())) p' else if !ok then .ok (.done (none, ())) p' else .ok (.yield (none, ())) p'
      | .stuck => .stuck
      | .panic g => .panic g := by
  simp only [bind_run]
  cases step.run p with
  | stuck => rfl
  | panic g => rfl
  | ok a p' =>
    obtain ⟨e, ok⟩ := a
    simp only [ite_run, pure_run]

theorem parseStructFieldModifiers_eq (field : Ptr) (p : P) :
    (Gen.ParseFlow.parseStructFieldModifiers field).run p =
      stepLoop (Gen.ParseFlow.parseStructFieldModifier field) (p.lexer.input.length + 4) p := by
  unfold Gen.ParseFlow.parseStructFieldModifiers
  rw [bind_run, rounds_run]
  simp only [forIn_rounds]
  refine stepLoop_wrap _ _ (fun s p => stepLoop_body_shape _ s p) _ ?_ _ p
  intro e p
  cases e with
  | none => right; exact ⟨rfl, rfl⟩
  | some x => left; rfl


/-! ### `optional` -/

theorem skipOptionals_step {ts : List Token} (h : WFS ts) (o : Bool) :
    skipOptionals ts o = if (cur ts).tok = .kw .optional then skipOptionals (adv ts) true else (o, ts) := by
  cases ts with
  | nil => exact h.elim
  | cons t r =>
    cases r with
    | nil =>
      have : t.tok = .eof := h
      simp [skipOptionals, cur, this]
    | cons u r =>
      simp only [skipOptionals, cur, adv, List.headD_cons, List.isEmpty_cons, Bool.not_false, Bool.and_true]
      by_cases hc : t.tok = .kw .optional <;> simp [hc]

theorem c_Optional : IsCode c_tOptional (.kw .optional) := isCode_kw .optional

/-- **parseStructFieldModifier**: one `optional` -/
theorem parseStructFieldModifier_run (p : P) (fp : Nat) (x : GStructField) (he : p.lexer.isError = false)
    (hx : p.heap.fields[fp]? = some x) :
    (p.lexer.token = c_tOptional → ∃ l', (Gen.ParseFlow.parseStructFieldModifier (some fp)).run p =
        .ok (none, true) { p with lexer := l', heap := { p.heap with fields := (p.heap.fields.set fp { x with optional := true }) } } ∧
        l'.isError = false ∧ toks l' = adv (toks p.lexer)) ∧
    (p.lexer.token ≠ c_tOptional → (Gen.ParseFlow.parseStructFieldModifier (some fp)).run p = .ok (none, false) p) := by
  unfold Gen.ParseFlow.parseStructFieldModifier
  rsimp []
  constructor
  · intro ht
    have hobs : (observe p.lexer).tok = .kw .optional := (tok_eq_code c_Optional _).2 ht
    simp only [ht, beq_self_eq_true, if_true, modField, modCell, hx]
    obtain ⟨l1, h1, he1, ht1⟩ := next_toks { p with heap := { p.heap with fields := (p.heap.fields.set fp { x with optional := true }) } } he
      (by rw [hobs]; simp)
    simp only [h1]
    exact ⟨l1, rfl, he1, ht1⟩
  · intro ht
    have : (p.lexer.token == c_tOptional) = false := by simpa using ht
    simp only [this, Bool.false_eq_true, if_false]

theorem parseStructFieldModifiers_loop (fp : Nat) : ∀ (n : Nat) (p : P) (x : GStructField),
    p.lexer.isError = false → p.heap.fields[fp]? = some x → (toks p.lexer).length < n →
    ∃ l', stepLoop (Gen.ParseFlow.parseStructFieldModifier (some fp)) n p =
        .ok none { p with lexer := l', heap := { p.heap with fields := (p.heap.fields.set fp
          { x with optional := (skipOptionals (toks p.lexer) x.optional).1 }) } } ∧
      l'.isError = false ∧ toks l' = (skipOptionals (toks p.lexer) x.optional).2
  | 0, p, x, _, _, hn => by omega
  | n + 1, p, x, he, hx, hn => by
    have S := parseStructFieldModifier_run p fp x he hx
    rw [skipOptionals_step (toks_wfs _), cur_toks]
    simp only [stepLoop]
    by_cases ht : p.lexer.token = c_tOptional
    · have hobs : (observe p.lexer).tok = .kw .optional := (tok_eq_code c_Optional _).2 ht
      obtain ⟨l1, r1, he1, ht1⟩ := S.1 ht
      simp only [r1, Option.isSome_none, Bool.false_eq_true, if_false, Bool.not_true, hobs, if_true]
      have hlt : (adv (toks p.lexer)).length < (toks p.lexer).length :=
        adv_len_lt (toks_wfs _) (by rw [cur_toks, hobs]; simp)
      have hlen : fp < p.heap.fields.length := by
        have := List.getElem?_eq_some_iff.1 hx; exact this.1
      obtain ⟨l', r2, he2, ht2⟩ := parseStructFieldModifiers_loop fp n
        { p with lexer := l1, heap := { p.heap with fields := (p.heap.fields.set fp { x with optional := true }) } }
        { x with optional := true } he1 (by simp [hlen]) (by simp only [ht1]; omega)
      refine ⟨l', ?_, he2, ?_⟩
      · rw [r2]; simp [ht1]
      · rw [ht2]; simp [ht1]
    · have hobs : ¬ (observe p.lexer).tok = .kw .optional := fun h => ht ((tok_eq_code c_Optional _).1 h)
      simp only [S.2 ht, Option.isSome_none, Bool.false_eq_true, if_false, Bool.not_false, if_true, hobs]
      refine ⟨p.lexer, ?_, he, rfl⟩
      have : p.heap.fields.set fp x = p.heap.fields := by
        apply List.ext_getElem?
        intro i
        by_cases hi : fp = i
        · subst hi; rw [hx]; simp [List.getElem?_set]; exact (List.getElem?_eq_some_iff.1 hx).1
        · simp [List.getElem?_set, hi]
      simp [this]


/-! ### the heap the parser builds, as a function of the hand model's schema -/

def encField (f : Field) : GStructField := { fieldType := toGoFT f.ty, name := f.name, optional := f.optional }

/-- `[(n0, b), (n1, b+1), ..]`: a Go map filled in this order with the pointers `b, b+1, ..` -/
def encNames : Nat → List Name → List (Name × Ptr)
  | _, [] => []
  | b, n :: ns => (n, some b) :: encNames (b + 1) ns

def encPtrs : Nat → Nat → List Ptr
  | _, 0 => []
  | b, n + 1 => some b :: encPtrs (b + 1) n

def encStructCell (b : Nat) (s : Struct) : GStruct :=
  { name := s.name, oneOf := s.oneOf, dictName := s.dict, isRoot := s.isRoot,
    fields := encPtrs b s.fields.length, fieldMap := some (encNames b (s.fields.map (·.name))),
    recursive := s.recursive }

def encStructs : Nat → List Struct → List GStruct
  | _, [] => []
  | b, s :: ss => encStructCell b s :: encStructs (b + s.fields.length) ss

def fieldCount : List Struct → Nat
  | [] => 0
  | s :: ss => s.fields.length + fieldCount ss

def allFields : List Struct → List GStructField
  | [] => []
  | s :: ss => s.fields.map encField ++ allFields ss

def encMultimap (m : Multimap) : GMultimap :=
  { name := m.name, key := ⟨toGoFT m.key⟩, value := ⟨toGoFT m.value⟩, recursive := m.recursive }

def encEnum (e : Enum) : GEnum := { name := e.name, fields := e.fields.map fun f => ⟨f.name, f.value⟩ }

def encHeap (σ : Schema) : Heap :=
  { structs := encStructs 0 σ.structs, fields := allFields σ.structs, multimaps := σ.multimaps.map encMultimap,
    enums := σ.enums.map encEnum }

def encSchema (σ : Schema) : GSchema :=
  { packageName := σ.pkg, structs := some (encNames 0 (σ.structs.map (·.name))),
    multimaps := some (encNames 0 (σ.multimaps.map (·.name))), enums := some (encNames 0 (σ.enums.map (·.name))) }

/-- the parser object `p` holds exactly the (partial) schema `σ` -/
def Enc (p : P) (σ : Schema) : Prop := p.heap = encHeap σ ∧ p.schema = some (encSchema σ)

theorem encNames_snoc : ∀ (b : Nat) (ns : List Name) (n : Name),
    encNames b (ns ++ [n]) = encNames b ns ++ [(n, some (b + ns.length))]
  | b, [], n => by simp [encNames]
  | b, m :: ns, n => by
    simp only [List.cons_append, encNames, encNames_snoc (b + 1) ns n, List.length_cons]
    have : b + 1 + ns.length = b + (ns.length + 1) := by omega
    rw [this]

theorem encPtrs_succ : ∀ (b n : Nat), encPtrs b (n + 1) = encPtrs b n ++ [some (b + n)]
  | b, 0 => by simp [encPtrs]
  | b, n + 1 => by
    rw [encPtrs, encPtrs_succ (b + 1) n]
    simp only [encPtrs, List.cons_append]
    have : b + 1 + n = b + (n + 1) := by omega
    rw [this]

theorem encPtrs_length : ∀ (b n : Nat), (encPtrs b n).length = n
  | _, 0 => rfl
  | b, n + 1 => by simp [encPtrs, encPtrs_length]

theorem encStructs_snoc : ∀ (b : Nat) (ss : List Struct) (s : Struct),
    encStructs b (ss ++ [s]) = encStructs b ss ++ [encStructCell (b + fieldCount ss) s]
  | b, [], s => by simp [encStructs, fieldCount]
  | b, t :: ss, s => by
    simp only [List.cons_append, encStructs, encStructs_snoc _ ss s, fieldCount]
    have : b + t.fields.length + fieldCount ss = b + (t.fields.length + fieldCount ss) := by omega
    rw [this]

theorem encStructs_length : ∀ (b : Nat) (ss : List Struct), (encStructs b ss).length = ss.length
  | _, [] => rfl
  | b, s :: ss => by simp [encStructs, encStructs_length]

theorem allFields_snoc : ∀ (ss : List Struct) (s : Struct), allFields (ss ++ [s]) = allFields ss ++ s.fields.map encField
  | [], s => by simp [allFields]
  | t :: ss, s => by simp [allFields, allFields_snoc ss s]

theorem allFields_length : ∀ (ss : List Struct), (allFields ss).length = fieldCount ss
  | [] => rfl
  | s :: ss => by simp [allFields, fieldCount, allFields_length ss]

theorem has_encNames : ∀ (b : Nat) (ns : List Name) (k : Name),
    GoMap.has (some (encNames b ns)) k = ns.any (fun n => decide (n = k))
  | b, [], k => rfl
  | b, n :: ns, k => by
    have := has_encNames (b + 1) ns k
    simp only [GoMap.has] at this ⊢
    simp only [encNames, List.any_cons, this]
    by_cases h : n = k <;> simp [h]

theorem get_encNames : ∀ (b : Nat) (ns : List Name) (k : Name),
    (GoMap.get (some (encNames b ns)) k).isSome = ns.any (fun n => decide (n = k))
  | b, [], k => rfl
  | b, n :: ns, k => by
    have ih := get_encNames (b + 1) ns k
    simp only [GoMap.get] at ih ⊢
    simp only [encNames, List.find?_cons, List.any_cons]
    by_cases h : n = k
    · simp [h]
    · have h' : (n == k) = false := by simpa using h
      simp only [h', h, decide_false, Bool.false_or]
      exact ih

theorem assocSet_new (l : List (Name × Ptr)) (k : Name) (v : Ptr) (h : l.any (fun e => e.1 == k) = false) :
    assocSet l k v = l ++ [(k, v)] := by simp [assocSet, h]


/-! ### struct fields -/

/-- the heap while the struct `s` is being parsed (structs `ss` are complete) -/
def heapOf (ss : List Struct) (s : Struct) (ms : List Multimap) (es : List Enum) : Heap :=
  { structs := encStructs 0 ss ++ [encStructCell (fieldCount ss) s], fields := allFields ss ++ s.fields.map encField,
    multimaps := ms.map encMultimap, enums := es.map encEnum }

theorem encHeap_snoc (pkg : List Name) (ss : List Struct) (s : Struct) (ms : List Multimap) (es : List Enum) :
    encHeap { pkg := pkg, structs := ss ++ [s], multimaps := ms, enums := es } = heapOf ss s ms es := by
  simp [encHeap, heapOf, encStructs_snoc, allFields_snoc]

theorem getStruct_run (p : P) (k : Nat) (c : GStruct) (h : p.heap.structs[k]? = some c) :
    (getStruct (some k)).run p = .ok c p := by simp [getStruct, getCell, derefL, h]

theorem getField_run (p : P) (k : Nat) (c : GStructField) (h : p.heap.fields[k]? = some c) :
    (getField (some k)).run p = .ok c p := by simp [getField, getCell, derefL, h]

theorem modStruct_run (p : P) (k : Nat) (c : GStruct) (f : GStruct → GStruct) (h : p.heap.structs[k]? = some c) :
    (modStruct (some k) f).run p = .ok () { p with heap := { p.heap with structs := p.heap.structs.set k (f c) } } := by
  simp [modStruct, modCell, h]

theorem heapOf_struct (ss : List Struct) (s : Struct) (ms : List Multimap) (es : List Enum) :
    (heapOf ss s ms es).structs[ss.length]? = some (encStructCell (fieldCount ss) s) := by
  simp [heapOf, encStructs_length]

theorem heapOf_set_struct (ss : List Struct) (s : Struct) (ms : List Multimap) (es : List Enum) (c : GStruct) :
    (heapOf ss s ms es).structs.set ss.length c = encStructs 0 ss ++ [c] := by
  have : ss.length = (encStructs 0 ss).length := (encStructs_length 0 ss).symm
  simp only [heapOf]
  rw [this, List.set_append_right _ _ (Nat.le_refl _)]
  simp

/-- **HasField** on the struct being parsed -/
theorem hasField_run (p : P) (ss : List Struct) (s : Struct) (ms : List Multimap) (es : List Enum)
    (hh : p.heap = heapOf ss s ms es) (name : Name) :
    (Gen.ParseFlow.hasField (some ss.length) name).run p = .ok (s.fields.any fun f => decide (f.name = name)) p := by
  unfold Gen.ParseFlow.hasField
  rsimp []
  rw [getStruct_run p _ _ (by rw [hh]; exact heapOf_struct ss s ms es)]
  simp only [encStructCell, has_encNames, List.any_map]
  rfl


theorem mapSet_run (m : List (Name × Ptr)) (k : Name) (v : Ptr) (p : P) :
    (mapSet (some m) k v).run p = .ok (some (assocSet m k v)) p := rfl

theorem allocField_run (v : GStructField) (p : P) :
    (allocField v).run p = .ok (some p.heap.fields.length) { p with heap := { p.heap with fields := p.heap.fields ++ [v] } } := rfl

/-- `heapOf` with one more (new) field in the struct being parsed -/
theorem heapOf_addField (ss : List Struct) (s : Struct) (ms : List Multimap) (es : List Enum) (f : Field) :
    heapOf ss { s with fields := s.fields ++ [f] } ms es =
      { structs := encStructs 0 ss ++ [{ encStructCell (fieldCount ss) s with
            fieldMap := some (encNames (fieldCount ss) (s.fields.map (·.name)) ++ [(f.name, some (fieldCount ss + s.fields.length))]),
            fields := encPtrs (fieldCount ss) s.fields.length ++ [some (fieldCount ss + s.fields.length)] }],
        fields := allFields ss ++ s.fields.map encField ++ [encField f],
        multimaps := ms.map encMultimap, enums := es.map encEnum } := by
  simp [heapOf, encStructCell, encNames_snoc, encPtrs_succ]

theorem getStruct_run' (p : P) (k : Nat) : (getStruct (some k)).run p = match p.heap.structs[k]? with
    | some c => .ok c p
    | none => .panic .nilDeref := by
  simp only [getStruct, getCell, derefL]; split <;> simp_all

theorem getField_run' (p : P) (k : Nat) : (getField (some k)).run p = match p.heap.fields[k]? with
    | some c => .ok c p
    | none => .panic .nilDeref := by
  simp only [getField, getCell, derefL]; split <;> simp_all

theorem modStruct_run' (p : P) (k : Nat) (f : GStruct → GStruct) : (modStruct (some k) f).run p =
    match p.heap.structs[k]? with
    | some c => .ok () { p with heap := { p.heap with structs := p.heap.structs.set k (f c) } }
    | none => .panic .nilDeref := by
  simp only [modStruct, modCell]; split <;> simp_all

theorem modField_run' (p : P) (k : Nat) (f : GStructField → GStructField) : (modField (some k) f).run p =
    match p.heap.fields[k]? with
    | some c => .ok () { p with heap := { p.heap with fields := p.heap.fields.set k (f c) } }
    | none => .panic .nilDeref := by
  simp only [modField, modCell]; split <;> simp_all

/-- **AddField** of a freshly allocated field to the struct being parsed -/
theorem addField_run (p : P) (ss : List Struct) (s : Struct) (ms : List Multimap) (es : List Enum) (f : Field)
    (hnew : (s.fields.any fun g => decide (g.name = f.name)) = false)
    (hh : p.heap = { heapOf ss s ms es with fields := (heapOf ss s ms es).fields ++ [encField f] }) :
    (Gen.ParseFlow.addField (some ss.length) (some (fieldCount ss + s.fields.length))).run p =
      .ok () { p with heap := heapOf ss { s with fields := s.fields ++ [f] } ms es } := by
  obtain ⟨lx, sc, fn, msgs, hp, post⟩ := p
  simp only at hh; subst hh
  rw [heapOf_addField]
  have hany : ((encNames (fieldCount ss) (s.fields.map (·.name))).any fun e => e.1 == f.name) = false := by
    have := has_encNames (fieldCount ss) (s.fields.map (·.name)) f.name
    simp only [GoMap.has] at this
    rw [this, List.any_map]
    exact hnew
  have hE := encStructs_length 0 ss
  have hF := allFields_length ss
  simp only [heapOf]
  generalize encStructs 0 ss = E at hE ⊢
  generalize allFields ss = F at hF ⊢
  rw [← hE, ← hF]
  rw [← hF] at hany
  unfold Gen.ParseFlow.addField
  simp only [bind_run, pure_run, getField_run', getStruct_run', modStruct_run', mapSet_run, encStructCell]
  simp [encField, assocSet_new _ _ _ hany, mapSet_run, bind_run, pure_run, getField_run', getStruct_run', modStruct_run']


theorem heapOf_lastField (ss : List Struct) (s : Struct) (fs : List Field) (f : Field) (ms : List Multimap) (es : List Enum) :
    (heapOf ss { s with fields := fs ++ [f] } ms es).fields[fieldCount ss + fs.length]? = some (encField f) := by
  simp [heapOf, allFields_length]

theorem heapOf_setLastField (ss : List Struct) (s : Struct) (fs : List Field) (f f' : Field) (ms : List Multimap)
    (es : List Enum) (hn : f'.name = f.name) :
    { heapOf ss { s with fields := fs ++ [f] } ms es with
        fields := (heapOf ss { s with fields := fs ++ [f] } ms es).fields.set (fieldCount ss + fs.length) (encField f') } =
      heapOf ss { s with fields := fs ++ [f'] } ms es := by
  have hF := allFields_length ss
  simp only [heapOf, encStructCell, List.map_append, List.map_cons, List.map_nil, hn, List.length_append, List.length_cons,
    List.length_nil]
  generalize allFields ss = F at hF ⊢
  rw [← hF]
  congr 1
  rw [← List.append_assoc, ← List.append_assoc]
  have : F.length + fs.length = (F ++ List.map encField fs).length := by simp
  rw [this, List.set_append_right _ _ (Nat.le_refl _)]
  simp

/-- **parseStructField**: one round of the loop of `parseStructFields` -/
theorem parseStructField_run (p : P) (ss : List Struct) (s : Struct) (ms : List Multimap) (es : List Enum)
    (he : p.lexer.isError = false) (hh : p.heap = heapOf ss s ms es) :
    ((∀ n, (observe p.lexer).tok ≠ .ident n) →
      (Gen.ParseFlow.parseStructField (some ss.length)).run p = .ok (none, false) p) ∧
    (∀ fname, (observe p.lexer).tok = .ident fname →
      ((s.fields.any fun g => decide (g.name = fname)) = true →
        ∃ e, (Gen.ParseFlow.parseStructField (some ss.length)).run p = .ok (e, false) p ∧
          IsErr e p (observe p.lexer).pos (.dupField fname)) ∧
      ((s.fields.any fun g => decide (g.name = fname)) = false →
        (∀ pos c, Idl.parseFieldType (adv (toks p.lexer)) = .err pos c →
          ∃ e p', (Gen.ParseFlow.parseStructField (some ss.length)).run p = .ok (e, false) p' ∧ IsErr e p' pos c) ∧
        (∀ ty ts1, Idl.parseFieldType (adv (toks p.lexer)) = .ok ty ts1 →
          ∃ l', (Gen.ParseFlow.parseStructField (some ss.length)).run p = .ok (none, true)
              { p with lexer := l', heap := heapOf ss { s with fields := s.fields ++
                [{ name := fname, ty := ty, optional := (skipOptionals ts1 false).1 }] } ms es } ∧
            l'.isError = false ∧ toks l' = (skipOptionals ts1 false).2))) := by
  unfold Gen.ParseFlow.parseStructField
  rsimp []
  constructor
  · intro hni
    have : (p.lexer.token != c_tIdent) = true := by
      simp only [bne_iff_ne, ne_eq]
      intro h
      exact hni p.lexer.ident ((tokOf_ident_iff _ _ _ _).2 ⟨h, rfl⟩)
    simp only [this, if_true]
  · intro fname hid
    obtain ⟨ht, rfl⟩ := (tokOf_ident_iff _ _ _ _).1 hid
    simp only [ht, bne_self_eq_false, Bool.false_eq_true, if_false, hasField_run p ss s ms es hh]
    constructor
    · intro hdup
      simp only [hdup, if_true, perror_run]
      refine ⟨_, rfl, ?_⟩
      have := perror_isErr (Msg.cat (Msg.lit "duplicate field name: ") (Msg.str p.lexer.ident)) p (.dupField p.lexer.ident) rfl
      simpa [cur_toks] using this
    · intro hnew
      simp only [hnew, Bool.false_eq_true, if_false, allocField_run]
      have hlen : p.heap.fields.length = fieldCount ss + s.fields.length := by
        rw [hh]; simp [heapOf, allFields_length]
      rw [hlen]
      let f0 : Field := { name := p.lexer.ident, ty := .base {}, optional := false }
      have A := addField_run { p with heap := { p.heap with fields := p.heap.fields ++ [encField f0] } } ss s ms es f0
        hnew (by simp only [hh])
      have A' : (Gen.ParseFlow.addField (some ss.length) (some (fieldCount ss + s.fields.length))).run
          { p with heap := { p.heap with fields := p.heap.fields ++ [{ name := p.lexer.ident }] } } = _ := A
      rw [A']
      simp only []
      obtain ⟨l1, h1, he1, ht1⟩ := next_toks
        { p with heap := heapOf ss { s with fields := s.fields ++ [f0] } ms es } he (by rw [hid]; simp)
      simp only [h1, ← ht1]
      have hfp := heapOf_lastField ss s s.fields f0 ms es
      simp only [addrFieldType, bind_run, getField_run', hfp, pure_run]
      have PF := parseFieldType_run { p with lexer := l1, heap := heapOf ss { s with fields := s.fields ++ [f0] } ms es }
        (.ofField (fieldCount ss + s.fields.length)) he1 (by simp only [readFT, hfp]; rfl)
      constructor
      · intro pos c hpf
        obtain ⟨e, p', r, ie⟩ := PF.2 pos c hpf
        simp only [r, ie.isSome, if_true]
        exact ⟨_, _, rfl, ie⟩
      · intro ty ts1 hpf
        obtain ⟨l2, r, he2, ht2⟩ := PF.1 ty ts1 hpf
        simp only [r, Option.isSome_none, Bool.false_eq_true, if_false, parseStructFieldModifiers_eq]
        let f1 : Field := { name := p.lexer.ident, ty := ty, optional := false }
        have hw : writeFT (heapOf ss { s with fields := s.fields ++ [f0] } ms es) (.ofField (fieldCount ss + s.fields.length))
            (toGoFT ty) = heapOf ss { s with fields := s.fields ++ [f1] } ms es := by
          simp only [writeFT, hfp]
          exact heapOf_setLastField ss s s.fields f0 f1 ms es rfl
        simp only [hw]
        have hfp1 := heapOf_lastField ss s s.fields f1 ms es
        obtain ⟨l3, r3, he3, ht3⟩ := parseStructFieldModifiers_loop (fieldCount ss + s.fields.length) (l2.input.length + 4)
          { p with lexer := l2, heap := heapOf ss { s with fields := s.fields ++ [f1] } ms es } (encField f1) he2 hfp1
          (by have := toks_len l2; simp only []; omega)
        simp only [r3, Option.isSome_none, Bool.false_eq_true, if_false]
        refine ⟨l3, ?_, he3, ?_⟩
        · simp only [ht2]
          congr 2
          exact heapOf_setLastField ss s s.fields f1 { f1 with optional := (skipOptionals ts1 false).1 } ms es rfl
        · simp only [ht3, ht2]; rfl


/-! ### the field loop -/

/-- the hand model's field loop does not depend on the fuel once it exceeds the number of tokens -/
theorem parseStructFields_fuel : ∀ (f1 f2 : Nat) (fs : List Field) (ts : List Token),
    WFS ts → ts.length < f1 → ts.length < f2 → Idl.parseStructFields f1 fs ts = Idl.parseStructFields f2 fs ts
  | 0, _, fs, ts, h, h1, _ => by omega
  | _ + 1, 0, fs, ts, h, _, h2 => by omega
  | f1 + 1, f2 + 1, fs, ts, h, h1, h2 => by
    unfold Idl.parseStructFields
    split
    · rename_i fname hc
      split
      · rfl
      · have hlt : (adv ts).length < ts.length := adv_len_lt h (by rw [hc]; simp)
        have hf := parseFieldType_fine (adv_wfs h)
        cases hpf : Idl.parseFieldType (adv ts) with
        | err p c => rfl
        | ok ty ts1 =>
          have k1 := hf.ok_of hpf
          have k2 := skipOptionals_wfs ts1 false k1.1
          simp only
          exact parseStructFields_fuel f1 f2 _ _ k2.1 (by omega) (by omega)
    · rfl

theorem parseStructFields_eq (str : Ptr) (p : P) :
    (Gen.ParseFlow.parseStructFields str).run p =
      stepLoop (Gen.ParseFlow.parseStructField str) (p.lexer.input.length + 4) p := by
  unfold Gen.ParseFlow.parseStructFields
  rw [bind_run, rounds_run]
  simp only [forIn_rounds]
  refine stepLoop_wrap _ _ (fun s p => stepLoop_body_shape _ s p) _ ?_ _ p
  intro e p
  cases e with
  | none => right; exact ⟨rfl, rfl⟩
  | some x => left; rfl

theorem parseStructFields_loop (ss : List Struct) (ms : List Multimap) (es : List Enum) :
    ∀ (n : Nat) (p : P) (s : Struct), p.lexer.isError = false → p.heap = heapOf ss s ms es → (toks p.lexer).length < n →
    (∀ fs ts, Idl.parseStructFields n s.fields (toks p.lexer) = .ok fs ts →
      ∃ l', stepLoop (Gen.ParseFlow.parseStructField (some ss.length)) n p =
          .ok none { p with lexer := l', heap := heapOf ss { s with fields := fs } ms es } ∧
        l'.isError = false ∧ toks l' = ts) ∧
    (∀ pos c, Idl.parseStructFields n s.fields (toks p.lexer) = .err pos c →
      ∃ e p', stepLoop (Gen.ParseFlow.parseStructField (some ss.length)) n p = .ok e p' ∧ IsErr e p' pos c)
  | 0, p, s, _, _, hn => by omega
  | n + 1, p, s, he, hh, hn => by
    have S := parseStructField_run p ss s ms es he hh
    have hw := toks_wfs p.lexer
    unfold Idl.parseStructFields
    simp only [stepLoop, cur_toks]
    cases htk : (observe p.lexer).tok with
    | ident fname =>
      have S2 := S.2 fname htk
      simp only []
      by_cases hdup : (s.fields.any fun g => decide (g.name = fname)) = true
      · obtain ⟨e, r, ie⟩ := S2.1 hdup
        simp only [hdup, if_true, r, ie.isSome]
        exact ⟨by intro _ _ h; simp at h, by intro _ _ h; simp at h; obtain ⟨rfl, rfl⟩ := h; exact ⟨_, _, rfl, ie⟩⟩
      · have hnew : (s.fields.any fun g => decide (g.name = fname)) = false := by simpa using hdup
        have S3 := S2.2 hnew
        simp only [hnew, Bool.false_eq_true, if_false]
        have hlt : (adv (toks p.lexer)).length < (toks p.lexer).length :=
          adv_len_lt hw (by rw [cur_toks, htk]; simp)
        have hf := parseFieldType_fine (adv_wfs hw)
        cases hpf : Idl.parseFieldType (adv (toks p.lexer)) with
        | err pos c =>
          obtain ⟨e, p', r, ie⟩ := S3.1 pos c hpf
          simp only [r, ie.isSome, if_true]
          exact ⟨by intro _ _ h; simp at h, by intro _ _ h; simp at h; obtain ⟨rfl, rfl⟩ := h; exact ⟨_, _, rfl, ie⟩⟩
        | ok ty ts1 =>
          obtain ⟨l1, r, he1, ht1⟩ := S3.2 ty ts1 hpf
          have k1 := hf.ok_of hpf
          have k2 := skipOptionals_wfs ts1 false k1.1
          simp only [r, Option.isSome_none, Bool.false_eq_true, if_false, Bool.not_true]
          have IH := parseStructFields_loop ss ms es n
            { p with lexer := l1, heap := heapOf ss { s with fields := s.fields ++
              [{ name := fname, ty := ty, optional := (skipOptionals ts1 false).1 }] } ms es }
            { s with fields := s.fields ++ [{ name := fname, ty := ty, optional := (skipOptionals ts1 false).1 }] }
            he1 rfl (by simp only [ht1]; omega)
          simp only [ht1] at IH
          exact IH
    | _ =>
      have hni : ∀ n, (observe p.lexer).tok ≠ .ident n := by intro n h; rw [htk] at h; cases h
      simp only [S.1 hni, Option.isSome_none, Bool.false_eq_true, if_false, Bool.not_false, if_true]
      refine ⟨?_, by intro _ _ h; simp at h⟩
      intro fs ts h; simp at h; obtain ⟨rfl, rfl⟩ := h
      refine ⟨p.lexer, ?_, he, rfl⟩
      obtain ⟨lx, sc, fn, mg, hp, po⟩ := p
      simp only at hh; subst hh; rfl


/-! ### struct declarations -/

/-- `next_toks` for every parser object that holds the lexer `l` -/
theorem next_toks' (l : L) (he : l.isError = false) (hne : (observe l).tok ≠ .eof) :
    ∃ l', (∀ sc fn mg hp po, (lexCall next).run ⟨l, sc, fn, mg, hp, po⟩ = .ok () ⟨l', sc, fn, mg, hp, po⟩) ∧
      l'.isError = false ∧ toks l' = adv (toks l) := by
  obtain ⟨l', h1, h2, h3⟩ := next_toks { lexer := l } he hne
  refine ⟨l', ?_, h2, h3⟩
  intro sc fn mg hp po
  simp only [lexCall] at h1 ⊢
  cases hr : next.run l with
  | next a l2 => rw [hr] at h1; simp at h1; subst h1; rfl
  | ret a l2 => rw [hr] at h1; simp at h1; subst h1; rfl
  | brk l2 => rw [hr] at h1; simp at h1
  | stuck => rw [hr] at h1; simp at h1


/-- **parseStructFields = Idl.parseStructFields** (with the fuel the hand model's `parseStruct` gives it) -/
theorem parseStructFields_run (p : P) (ss : List Struct) (s : Struct) (ms : List Multimap) (es : List Enum)
    (he : p.lexer.isError = false) (hh : p.heap = heapOf ss s ms es) :
    (∀ fs ts, Idl.parseStructFields ((toks p.lexer).length + 1) s.fields (toks p.lexer) = .ok fs ts →
      ∃ l', (Gen.ParseFlow.parseStructFields (some ss.length)).run p =
          .ok none { p with lexer := l', heap := heapOf ss { s with fields := fs } ms es } ∧
        l'.isError = false ∧ toks l' = ts) ∧
    (∀ pos c, Idl.parseStructFields ((toks p.lexer).length + 1) s.fields (toks p.lexer) = .err pos c →
      ∃ e p', (Gen.ParseFlow.parseStructFields (some ss.length)).run p = .ok e p' ∧ IsErr e p' pos c) := by
  have hl := toks_len p.lexer
  rw [parseStructFields_eq, parseStructFields_fuel _ (p.lexer.input.length + 4) _ _ (toks_wfs _) (by omega) (by omega)]
  exact parseStructFields_loop ss ms es _ p s he hh (by omega)

theorem heapOf_modStruct (ss : List Struct) (s s' : Struct) (ms : List Multimap) (es : List Enum) (c : GStruct)
    (hf : s'.fields = s.fields) (hc : c = encStructCell (fieldCount ss) s') :
    { heapOf ss s ms es with structs := (heapOf ss s ms es).structs.set ss.length c } = heapOf ss s' ms es := by
  subst hc
  rw [heapOf_set_struct]
  simp [heapOf, hf]

theorem c_Dict : IsCode c_tDict (.kw .dict) := isCode_kw .dict
theorem c_Root : IsCode c_tRoot (.kw .root) := isCode_kw .root

/-- the struct modifiers, as the hand model's `parseStruct` inlines them -/
def handMods (isOneOf : Bool) (ts : List Token) : PR (Name × Bool) :=
  match (cur ts).tok with
  | .kw .dict =>
    if isOneOf then .err (cur ts).pos .oneofDict
    else match Idl.parseDictModifier ts with
      | .err p c => .err p c
      | .ok d ts => .ok (d, false) ts
  | .kw .root =>
    if isOneOf then .err (cur ts).pos .oneofRoot else .ok ([], true) (adv ts)
  | _ => .ok ([], false) ts

theorem parseStructModifiers_eq (str : Ptr) (p : P) :
    (Gen.ParseFlow.parseStructModifiers str).run p =
      stepLoop (Gen.ParseFlow.parseStructModifier str) (p.lexer.input.length + 4) p := by
  unfold Gen.ParseFlow.parseStructModifiers
  rw [bind_run, rounds_run]
  simp only [forIn_rounds]
  refine stepLoop_wrap _ _ (fun s p => stepLoop_body_shape _ s p) _ ?_ _ p
  intro e p
  cases e with
  | none => right; exact ⟨rfl, rfl⟩
  | some x => left; rfl

/-- **parseStructModifier** (it always answers ok = false: at most one modifier is parsed, as written) -/
theorem parseStructModifier_run (p : P) (ss : List Struct) (s : Struct) (ms : List Multimap) (es : List Enum)
    (he : p.lexer.isError = false) (hh : p.heap = heapOf ss s ms es) (hs0 : s.dict = [] ∧ s.isRoot = false) :
    (∀ d r ts, handMods s.oneOf (toks p.lexer) = .ok (d, r) ts →
      ∃ l', (Gen.ParseFlow.parseStructModifier (some ss.length)).run p =
          .ok (none, false) { p with lexer := l', heap := heapOf ss { s with dict := d, isRoot := r } ms es } ∧
        l'.isError = false ∧ toks l' = ts) ∧
    (∀ pos c, handMods s.oneOf (toks p.lexer) = .err pos c →
      ∃ e p', (Gen.ParseFlow.parseStructModifier (some ss.length)).run p = .ok (e, false) p' ∧ IsErr e p' pos c) := by
  obtain ⟨lx, sc, fn, mg, hp, po⟩ := p
  simp only at hh he; subst hh
  have hcell := heapOf_struct ss s ms es
  unfold Gen.ParseFlow.parseStructModifier handMods
  rsimp [cur_toks]
  simp only [getStruct_run', modStruct_run', hcell, bind_run, pure_run, ite_run]
  by_cases hd : lx.token = c_tDict
  · have hobs : (observe lx).tok = .kw .dict := (tok_eq_code c_Dict _).2 hd
    simp only [hobs, hd, beq_self_eq_true, if_true, encStructCell]
    by_cases ho : s.oneOf = true
    case neg =>
      simp only [ho, Bool.false_eq_true, if_false]
      have D := parseDictModifier_run ⟨lx, sc, fn, mg, heapOf ss s ms es, po⟩ he hobs
      cases hpd : Idl.parseDictModifier (toks lx) with
      | err pos c =>
        obtain ⟨v, e, p', r, ie⟩ := D.2 pos c hpd
        simp only [r, ie.isSome, if_true]
        exact ⟨by intro _ _ _ h; simp at h, by intro _ _ h; simp at h; obtain ⟨rfl, rfl⟩ := h; exact ⟨_, _, rfl, ie⟩⟩
      | ok d ts1 =>
        obtain ⟨_, r, l1, rfl, he1, ht1⟩ := D.1 d ts1 hpd
        simp only [r, Option.isSome_none, Bool.false_eq_true, if_false, hcell]
        refine ⟨?_, by intro _ _ h; simp at h⟩
        intro d' r' ts h; simp at h; obtain ⟨⟨rfl, rfl⟩, rfl⟩ := h
        refine ⟨l1, ?_, he1, ht1⟩
        congr 2
        exact heapOf_modStruct ss s _ ms es _ rfl (by simp [encStructCell, ho, hs0.2])
    case pos =>
      simp only [ho, if_true, perror_run]
      have ie := perror_isErr (Msg.lit "oneof cannot have dict modifier") ⟨lx, sc, fn, mg, heapOf ss s ms es, po⟩ .oneofDict rfl
      simp only [cur_toks] at ie
      exact ⟨by intro _ _ _ h; simp at h, by intro _ _ h; simp at h; obtain ⟨rfl, rfl⟩ := h; exact ⟨_, _, rfl, ie⟩⟩
  · have hd' : (lx.token == c_tDict) = false := by simpa using hd
    have hnd : ¬ (observe lx).tok = .kw .dict := fun h => hd ((tok_eq_code c_Dict _).1 h)
    simp only [hd', Bool.false_eq_true, if_false]
    by_cases hr : lx.token = c_tRoot
    · have hobs : (observe lx).tok = .kw .root := (tok_eq_code c_Root _).2 hr
      simp only [hobs, hr, beq_self_eq_true, if_true, encStructCell]
      by_cases ho : s.oneOf = true
      case neg =>
        simp only [ho, Bool.false_eq_true, if_false, hcell]
        obtain ⟨l1, h1, he1, ht1⟩ := next_toks' lx he (by rw [hobs]; simp)
        simp only [h1]
        refine ⟨?_, by intro _ _ h; simp at h⟩
        intro d' r' ts h; simp at h; obtain ⟨⟨rfl, rfl⟩, rfl⟩ := h
        refine ⟨l1, ?_, he1, ht1⟩
        congr 2
        exact heapOf_modStruct ss s _ ms es _ rfl (by simp [encStructCell, ho, hs0.1])
      case pos =>
        simp only [ho, if_true, perror_run]
        have ie := perror_isErr (Msg.lit "oneof cannot be a root") ⟨lx, sc, fn, mg, heapOf ss s ms es, po⟩ .oneofRoot rfl
        simp only [cur_toks] at ie
        exact ⟨by intro _ _ _ h; simp at h, by intro _ _ h; simp at h; obtain ⟨rfl, rfl⟩ := h; exact ⟨_, _, rfl, ie⟩⟩
    · have hr' : (lx.token == c_tRoot) = false := by simpa using hr
      have hnr : ¬ (observe lx).tok = .kw .root := fun h => hr ((tok_eq_code c_Root _).1 h)
      simp only [hr', Bool.false_eq_true, if_false]
      have hm : (match (observe lx).tok with
          | .kw .dict => (if s.oneOf = true then PR.err (observe lx).pos ErrClass.oneofDict
              else match Idl.parseDictModifier (toks lx) with
                | .err p c => PR.err p c
                | .ok d ts => PR.ok (d, false) ts)
          | .kw .root => (if s.oneOf = true then PR.err (observe lx).pos ErrClass.oneofRoot else PR.ok ([], true) (adv (toks lx)))
          | _ => PR.ok (([] : Name), false) (toks lx)) = PR.ok ([], false) (toks lx) := by
        split
        · rename_i h; exact (hnd h).elim
        · rename_i h; exact (hnr h).elim
        · rfl
      try rw [hm]
      refine ⟨?_, by intro _ _ h; simp at h⟩
      intro d' r' ts h; simp at h; obtain ⟨⟨rfl, rfl⟩, rfl⟩ := h
      refine ⟨lx, ?_, he, rfl⟩
      congr 2
      obtain ⟨n, o, d, r, f, rc⟩ := s
      simp only at hs0
      obtain ⟨rfl, rfl⟩ := hs0
      rfl


/-! ### the schema maps -/

theorem getSchema_run' (p : P) : getSchema.run p = match p.schema with
    | some s => .ok s p
    | none => .panic .nilDeref := rfl

theorem modSchema_run' (f : GSchema → GSchema) (p : P) : (modSchema f).run p = match p.schema with
    | some s => .ok () { p with schema := some (f s) }
    | none => .panic .nilDeref := rfl

theorem isTopLevelNameUsed_run (p : P) (σ : Schema) (hs : p.schema = some (encSchema σ)) (name : Name) :
    (Gen.ParseFlow.isTopLevelNameUsed name).run p = .ok (σ.isTopUsed name) p := by
  unfold Gen.ParseFlow.isTopLevelNameUsed
  rsimp [getSchema_run', hs]
  simp only [encSchema, get_encNames, List.any_map, Schema.isTopUsed, Schema.hasStruct, Schema.hasMultimap, Schema.hasEnum]
  rfl

theorem encNames_set_new (ns : List Name) (n : Name) (h : ns.any (fun m => decide (m = n)) = false) :
    assocSet (encNames 0 ns) n (some ns.length) = encNames 0 (ns ++ [n]) := by
  have := has_encNames 0 ns n
  simp only [GoMap.has] at this
  rw [assocSet_new _ _ _ (by rw [this]; exact h), encNames_snoc]
  simp

theorem stepLoop_once (step : M (Err × Bool)) (n : Nat) (p : P) (e : Err) (p' : P)
    (h : step.run p = .ok (e, false) p') : stepLoop step (n + 1) p = .ok e p' := by
  simp only [stepLoop, h]
  cases e <;> simp

theorem allocStruct_run (v : GStruct) (p : P) :
    (allocStruct v).run p = .ok (some p.heap.structs.length) { p with heap := { p.heap with structs := p.heap.structs ++ [v] } } := rfl


theorem enc_get_last (ss : List Struct) (c : GStruct) : (encStructs 0 ss ++ [c])[ss.length]? = some c := by
  have := encStructs_length 0 ss
  rw [← this]; simp

theorem enc_set_last (ss : List Struct) (c c' : GStruct) : (encStructs 0 ss ++ [c]).set ss.length c' = encStructs 0 ss ++ [c'] := by
  have := encStructs_length 0 ss
  rw [← this, List.set_append_right _ _ (Nat.le_refl _)]; simp

theorem heapOf_new (ss : List Struct) (n : Name) (o : Bool) (ms : List Multimap) (es : List Enum) :
    Heap.mk (encStructs 0 ss ++ [{ name := n, oneOf := o, fieldMap := some [] }]) (allFields ss) (ms.map encMultimap)
      (es.map encEnum) = heapOf ss { name := n, oneOf := o } ms es := by
  simp [heapOf, encStructCell, encPtrs, encNames]

theorem encSchema_newStruct (pkg : List Name) (ss : List Struct) (s0 : Struct) (ms : List Multimap) (es : List Enum)
    (hnew : (ss.map (·.name)).any (fun m => decide (m = s0.name)) = false) :
    GSchema.mk pkg (some (assocSet (encNames 0 (ss.map (·.name))) s0.name (some ss.length)))
      (some (encNames 0 (ms.map (·.name)))) (some (encNames 0 (es.map (·.name)))) =
    encSchema ⟨pkg, ss ++ [s0], ms, es⟩ := by
  have hset := encNames_set_new (ss.map (·.name)) s0.name hnew
  simp only [List.length_map] at hset
  simp [encSchema, hset]

theorem c_Ident_obs (l : L) (h : l.token = c_tIdent) : (observe l).tok = .ident l.ident :=
  (tokOf_ident_iff _ _ _ _).2 ⟨h, rfl⟩

theorem not_ident_obs (l : L) (h : ¬ l.token = c_tIdent) (n : Name) : (observe l).tok ≠ .ident n :=
  fun hh => h ((tokOf_ident_iff _ _ _ _).1 hh).1

/-- the hand model's `parseStruct` after the modifiers -/
def structRest (isOneOf : Bool) (σ : Schema) (sname : Name) (md : PR (Name × Bool)) : PR Schema :=
  match md with
  | .err p c => .err p c
  | .ok (dict, isRoot) ts =>
    match Idl.eat (.punct '{') ts with
    | .err p c => .err p c
    | .ok _ ts =>
      match Idl.parseStructFields (ts.length + 1) [] ts with
      | .err p c => .err p c
      | .ok fs ts =>
        if isRoot && fs.isEmpty then .err (cur ts).pos .rootEmpty
        else match Idl.eat (.punct '}') ts with
          | .err p c => .err p c
          | .ok _ ts =>
            .ok { σ with structs := σ.structs ++
              [{ name := sname, oneOf := isOneOf, dict := dict, isRoot := isRoot, fields := fs }] } ts

theorem parseStruct_unfold (isOneOf : Bool) (σ : Schema) (ts : List Token) :
    Idl.parseStruct isOneOf σ ts =
      match (cur (adv ts)).tok with
      | .ident sname =>
        if σ.isTopUsed sname then .err (cur (adv ts)).pos (.dupTop sname)
        else structRest isOneOf σ sname (handMods isOneOf (adv (adv ts)))
      | _ => .err (cur (adv ts)).pos .structName := by
  unfold Idl.parseStruct structRest handMods
  rfl

/-- **parseStruct = Idl.parseStruct** (the current token is `struct` / `oneof`) -/
theorem parseStruct_run (p : P) (σ : Schema) (isOneOf : Bool) (he : p.lexer.isError = false) (hE : Enc p σ)
    (hne : (observe p.lexer).tok ≠ .eof) :
    (∀ σ' ts, Idl.parseStruct isOneOf σ (toks p.lexer) = .ok σ' ts →
      ∃ l', (Gen.ParseFlow.parseStruct isOneOf).run p =
          .ok (some σ.structs.length, none) { p with lexer := l', heap := encHeap σ', schema := some (encSchema σ') } ∧
        l'.isError = false ∧ toks l' = ts ∧ ∃ s, σ' = { σ with structs := σ.structs ++ [s] } ∧ s.oneOf = isOneOf) ∧
    (∀ pos c, Idl.parseStruct isOneOf σ (toks p.lexer) = .err pos c →
      ∃ v e p', (Gen.ParseFlow.parseStruct isOneOf).run p = .ok (v, e) p' ∧ IsErr e p' pos c) := by
  obtain ⟨lx, sc, fn, mg, hp, po⟩ := p
  obtain ⟨pkg, ss, ms, es⟩ := σ
  obtain ⟨hh, hs⟩ := hE
  simp only at hh hs he hne
  subst hh hs
  obtain ⟨l1, h1, he1, ht1⟩ := next_toks' lx he hne
  rw [parseStruct_unfold]
  unfold Gen.ParseFlow.parseStruct
  rsimp [h1, ← ht1, cur_toks]
  by_cases hid : l1.token = c_tIdent
  case neg =>
    have hni := not_ident_obs l1 hid
    have hb : (l1.token != c_tIdent) = true := by simpa using hid
    have ie := perror_isErr (Msg.lit "struct name expected") ⟨l1, some (encSchema ⟨pkg, ss, ms, es⟩), fn, mg,
      encHeap ⟨pkg, ss, ms, es⟩, po⟩ .structName rfl
    simp only [cur_toks] at ie
    simp only [hb, if_true, perror_run]
    cases htk : (observe l1).tok with
    | ident n => exact (hni n htk).elim
    | _ =>
      (try simp only [])
      exact ⟨by intro _ _ h; simp at h, by intro _ _ h; simp at h; obtain ⟨rfl, rfl⟩ := h; exact ⟨_, _, _, rfl, ie⟩⟩
  case pos =>
    have hobs := c_Ident_obs l1 hid
    simp only [hobs, hid, bne_self_eq_false, Bool.false_eq_true, if_false]
    rw [isTopLevelNameUsed_run _ ⟨pkg, ss, ms, es⟩ rfl]
    simp only []
    by_cases hused : Schema.isTopUsed ⟨pkg, ss, ms, es⟩ l1.ident = true
    case pos =>
      have ie := perror_isErr (Msg.cat (Msg.lit "duplicate top-level identifier: ") (Msg.str l1.ident))
        ⟨l1, some (encSchema ⟨pkg, ss, ms, es⟩), fn, mg, encHeap ⟨pkg, ss, ms, es⟩, po⟩ (.dupTop l1.ident) rfl
      simp only [cur_toks] at ie
      simp only [hused, if_true, perror_run]
      exact ⟨by intro _ _ h; simp at h, by intro _ _ h; simp at h; obtain ⟨rfl, rfl⟩ := h; exact ⟨_, _, _, rfl, ie⟩⟩
    case neg =>
      have hun : Schema.isTopUsed ⟨pkg, ss, ms, es⟩ l1.ident = false := by simpa using hused
      obtain ⟨l2, h2, he2, ht2⟩ := next_toks' l1 he1 (by rw [hobs]; simp)
      simp only [hun, Bool.false_eq_true, if_false, h2, ← ht2]
      -- NewStruct, Name, OneOf, the registration: the heap and the maps of σ ++ [s0]
      let s0 : Struct := { name := l1.ident, oneOf := isOneOf }
      have hnew : (ss.map (·.name)).any (fun m => decide (m = l1.ident)) = false := by
        simp only [Schema.isTopUsed, Schema.hasStruct, Bool.or_eq_false_iff] at hun
        rw [List.any_map]; exact hun.1.1
      simp only [Gen.ParseFlow.newStruct, bind_run, pure_run, allocStruct_run, modStruct_run', getStruct_run',
          getSchema_run', modSchema_run', mapSet_run, GoMap.empty, encHeap, enc_get_last, enc_set_last, List.length_append,
          encStructs_length, List.length_cons, List.length_nil, encSchema]
      have hsch := encSchema_newStruct pkg ss s0 ms es hnew
      simp only [s0] at hsch
      simp only [heapOf_new, hsch]
      -- the modifiers
      have hM := parseStructModifier_run ⟨l2, some (encSchema ⟨pkg, ss ++ [s0], ms, es⟩), fn, mg, heapOf ss s0 ms es, po⟩
        ss s0 ms es he2 rfl ⟨rfl, rfl⟩
      simp only [s0] at hM
      simp only [parseStructModifiers_eq, structRest]
      cases hmd : handMods isOneOf (toks l2) with
      | err pos c =>
        obtain ⟨e, p', r, ie⟩ := hM.2 pos c hmd
        rw [stepLoop_once _ _ _ _ _ r]
        simp only [ie.isSome, if_true]
        exact ⟨by intro _ _ h; simp at h, by intro _ _ h; simp at h; obtain ⟨rfl, rfl⟩ := h; exact ⟨_, _, _, rfl, ie⟩⟩
      | ok dr ts3 =>
        obtain ⟨d, rt⟩ := dr
        obtain ⟨l3, r, he3, ht3⟩ := hM.1 d rt ts3 hmd
        rw [stepLoop_once _ _ _ _ _ r]
        simp only [Option.isSome_none, Bool.false_eq_true, if_false]
        subst ht3
        let s1 : Struct := { name := l1.ident, oneOf := isOneOf, dict := d, isRoot := rt }
        have E1 := eat_run ⟨l3, some (encSchema ⟨pkg, ss ++ [s0], ms, es⟩), fn, mg, heapOf ss s1 ms es, po⟩ c_tLBrace _ c_LBrace he3
        simp only [s0, s1] at E1
        cases hh1 : Idl.eat (.punct '{') (toks l3) with
        | err pos c =>
          obtain ⟨e, r1, ie⟩ := E1.2 pos c hh1
          simp only [r1, ie.isSome, if_true]
          exact ⟨by intro _ _ h; simp at h, by intro _ _ h; simp at h; obtain ⟨rfl, rfl⟩ := h; exact ⟨_, _, _, rfl, ie⟩⟩
        | ok u ts4 =>
          obtain ⟨_, r1, l4, rfl, he4, ht4⟩ := E1.1 ts4 hh1
          simp only [r1, Option.isSome_none, Bool.false_eq_true, if_false]
          subst ht4
          have F := parseStructFields_run ⟨l4, some (encSchema ⟨pkg, ss ++ [s0], ms, es⟩), fn, mg, heapOf ss s1 ms es, po⟩
            ss s1 ms es he4 rfl
          simp only [s0, s1] at F
          cases hpf : Idl.parseStructFields ((toks l4).length + 1) [] (toks l4) with
          | err pos c =>
            obtain ⟨e, p', r2, ie⟩ := F.2 pos c hpf
            simp only [r2, ie.isSome, if_true]
            exact ⟨by intro _ _ h; simp at h, by intro _ _ h; simp at h; obtain ⟨rfl, rfl⟩ := h; exact ⟨_, _, _, rfl, ie⟩⟩
          | ok fs ts5 =>
            obtain ⟨l5, r2, he5, ht5⟩ := F.1 fs ts5 hpf
            simp only [r2, Option.isSome_none, Bool.false_eq_true, if_false, heapOf_struct, encStructCell, len,
              encPtrs_length]
            subst ht5
            have hlen0 : (((fs.length : Nat) : Int) == 0) = fs.isEmpty := by
              cases fs with
              | nil => rfl
              | cons a t => simp; omega
            simp only [hlen0]
            by_cases hroot : (rt && fs.isEmpty) = true
            · have ie := perror_isErr (Msg.lit "root struct must have at least one field")
                ⟨l5, some (encSchema ⟨pkg, ss ++ [{ name := l1.ident, oneOf := isOneOf }], ms, es⟩), fn, mg,
                  heapOf ss { name := l1.ident, oneOf := isOneOf, dict := d, isRoot := rt, fields := fs } ms es, po⟩ .rootEmpty rfl
              simp only [cur_toks] at ie
              simp only [hroot, if_true, perror_run, cur_toks]
              exact ⟨by intro _ _ h; simp at h, by intro _ _ h; simp at h; obtain ⟨rfl, rfl⟩ := h; exact ⟨_, _, _, rfl, ie⟩⟩
            · simp only [hroot, if_false, Bool.false_eq_true]
              have E2 := eat_run ⟨l5, some (encSchema ⟨pkg, ss ++ [{ name := l1.ident, oneOf := isOneOf }], ms, es⟩), fn, mg,
                heapOf ss { name := l1.ident, oneOf := isOneOf, dict := d, isRoot := rt, fields := fs } ms es, po⟩
                c_tRBrace _ c_RBrace he5
              cases hh2 : Idl.eat (.punct '}') (toks l5) with
              | err pos c =>
                obtain ⟨e, r3, ie⟩ := E2.2 pos c hh2
                simp only [r3, ie.isSome, if_true]
                exact ⟨by intro _ _ h; simp at h, by intro _ _ h; simp at h; obtain ⟨rfl, rfl⟩ := h; exact ⟨_, _, _, rfl, ie⟩⟩
              | ok u2 ts6 =>
                obtain ⟨_, r3, l6, rfl, he6, ht6⟩ := E2.1 ts6 hh2
                simp only [r3, Option.isSome_none, Bool.false_eq_true, if_false]
                refine ⟨?_, by intro _ _ h; simp at h⟩
                intro σ' ts h; simp at h; obtain ⟨rfl, rfl⟩ := h
                refine ⟨l6, ?_, he6, ht6, _, rfl, rfl⟩
                simp [heapOf, encStructs_snoc, allFields_snoc, encSchema]


/-! ### oneof -/

/-- **parseOneof = Idl.parseStruct true** -/
theorem parseOneof_run (p : P) (σ : Schema) (he : p.lexer.isError = false) (hE : Enc p σ)
    (hne : (observe p.lexer).tok ≠ .eof) :
    (∀ σ' ts, Idl.parseStruct true σ (toks p.lexer) = .ok σ' ts →
      ∃ l', Gen.ParseFlow.parseOneof.run p =
          .ok none { p with lexer := l', heap := encHeap σ', schema := some (encSchema σ') } ∧
        l'.isError = false ∧ toks l' = ts) ∧
    (∀ pos c, Idl.parseStruct true σ (toks p.lexer) = .err pos c →
      ∃ e p', Gen.ParseFlow.parseOneof.run p = .ok e p' ∧ IsErr e p' pos c) := by
  have S := parseStruct_run p σ true he hE hne
  unfold Gen.ParseFlow.parseOneof
  rsimp []
  constructor
  · intro σ' ts h
    obtain ⟨l', r, he', ht', s, rfl, hs⟩ := S.1 σ' ts h
    simp only [r, Option.isSome_none, Bool.false_eq_true, if_false]
    obtain ⟨pkg, ss, ms, es⟩ := σ
    simp only [encHeap_snoc, modStruct_run', heapOf_struct]
    refine ⟨l', ?_, he', ht'⟩
    congr 2
    exact heapOf_modStruct ss s s ms es _ rfl (by simp [encStructCell, hs])
  · intro pos c h
    obtain ⟨v, e, p', r, ie⟩ := S.2 pos c h
    simp only [r, ie.isSome, if_true]
    exact ⟨_, _, rfl, ie⟩


/-! ### multimaps -/

theorem toGoFT_setDict (ty : FType) (d : Name) :
    { toGoFT ty with dictName := d } = toGoFT (ty.setDict d) := by
  cases ty <;> rfl

theorem getMultimap_run' (p : P) (k : Nat) : (getMultimap (some k)).run p = match p.heap.multimaps[k]? with
    | some c => .ok c p
    | none => .panic .nilDeref := by
  simp only [getMultimap, getCell, derefL]; split <;> simp_all

theorem modMultimap_run' (p : P) (k : Nat) (f : GMultimap → GMultimap) : (modMultimap (some k) f).run p =
    match p.heap.multimaps[k]? with
    | some c => .ok () { p with heap := { p.heap with multimaps := p.heap.multimaps.set k (f c) } }
    | none => .panic .nilDeref := by
  simp only [modMultimap, modCell]; split <;> simp_all

/-- key (`v = false`) or value of a multimap cell -/
def mmSlot (m : GMultimap) (v : Bool) : GFieldType := if v then m.value.type else m.key.type
def mmSetSlot (m : GMultimap) (v : Bool) (g : GFieldType) : GMultimap :=
  if v then { m with value := { m.value with type := g } } else { m with key := { m.key with type := g } }

/-- **parseMultimapField = Idl.parseMultimapField** (on the key / value slot `v` of the multimap cell `k`) -/
theorem parseMultimapField_run (p : P) (k : Nat) (v : Bool) (m0 : GMultimap) (he : p.lexer.isError = false)
    (hm : p.heap.multimaps[k]? = some m0) (hz : mmSlot m0 v = {}) :
    (∀ ty ts, Idl.parseMultimapField (toks p.lexer) = .ok ty ts →
      ∃ l', (Gen.ParseFlow.parseMultimapField (some ⟨k, v⟩)).run p =
          .ok none { p with lexer := l', heap := { p.heap with multimaps := p.heap.multimaps.set k (mmSetSlot m0 v (toGoFT ty)) } } ∧
        l'.isError = false ∧ toks l' = ts) ∧
    (∀ pos c, Idl.parseMultimapField (toks p.lexer) = .err pos c →
      ∃ e p', (Gen.ParseFlow.parseMultimapField (some ⟨k, v⟩)).run p = .ok e p' ∧ IsErr e p' pos c) := by
  obtain ⟨lx, sc, fn, mg, hp, po⟩ := p
  simp only at he hm
  have hlen : k < hp.multimaps.length := (List.getElem?_eq_some_iff.1 hm).1
  unfold Gen.ParseFlow.parseMultimapField Idl.parseMultimapField
  rsimp []
  simp only [addrType, getMF, bind_run, pure_run, getMultimap_run', hm]
  have hr : readFT hp (.ofMultimap k v) = some {} := by
    simp only [readFT, hm, Option.map_some]; exact congrArg some hz
  have PF := parseFieldType_run ⟨lx, sc, fn, mg, hp, po⟩ (.ofMultimap k v) he hr
  cases hpf : Idl.parseFieldType (toks lx) with
  | err pos c =>
    obtain ⟨e, p', r, ie⟩ := PF.2 pos c hpf
    simp only [r, ie.isSome, if_true]
    exact ⟨by intro _ _ h; simp at h, by intro _ _ h; simp at h; obtain ⟨rfl, rfl⟩ := h; exact ⟨_, _, rfl, ie⟩⟩
  | ok ty ts1 =>
    obtain ⟨l1, r, he1, ht1⟩ := PF.1 ty ts1 hpf
    simp only [r, Option.isSome_none, Bool.false_eq_true, if_false, writeFT, hm]
    subst ht1
    simp only [cur_toks]
    have hw : (if v = true then ({ m0 with value := { m0.value with type := toGoFT ty } } : GMultimap)
        else { m0 with key := { m0.key with type := toGoFT ty } }) = mmSetSlot m0 v (toGoFT ty) := rfl
    simp only [hw]
    by_cases hd : l1.token = c_tDict
    · have hobs : (observe l1).tok = .kw .dict := (tok_eq_code c_Dict _).2 hd
      simp only [hobs, hd, beq_self_eq_true, if_true]
      have D := parseDictModifier_run ⟨l1, sc, fn, mg, { hp with multimaps := hp.multimaps.set k (mmSetSlot m0 v (toGoFT ty)) }, po⟩
        he1 hobs
      cases hpd : Idl.parseDictModifier (toks l1) with
      | err pos c =>
        obtain ⟨w, e, p', r2, ie⟩ := D.2 pos c hpd
        simp only [r2, ie.isSome, if_true]
        exact ⟨by intro _ _ h; simp at h, by intro _ _ h; simp at h; obtain ⟨rfl, rfl⟩ := h; exact ⟨_, _, rfl, ie⟩⟩
      | ok d ts2 =>
        obtain ⟨_, r2, l2, rfl, he2, ht2⟩ := D.1 d ts2 hpd
        simp only [r2, Option.isSome_none, Bool.false_eq_true, if_false, modMF, modMultimap_run', List.getElem?_set_self hlen,
          List.set_set]
        refine ⟨?_, by intro _ _ h; simp at h⟩
        intro ty' ts h; simp at h; obtain ⟨rfl, rfl⟩ := h
        refine ⟨l2, ?_, he2, ht2⟩
        congr 4
        cases v <;> simp [mmSetSlot, ← toGoFT_setDict]
    · have hd' : (l1.token == c_tDict) = false := by simpa using hd
      have hnd : ¬ (observe l1).tok = .kw .dict := fun h => hd ((tok_eq_code c_Dict _).1 h)
      simp only [hd', hnd, Bool.false_eq_true, if_false]
      refine ⟨?_, by intro _ _ h; simp at h⟩
      intro ty' ts h; simp at h; obtain ⟨rfl, rfl⟩ := h
      exact ⟨l1, rfl, he1, rfl⟩


/-! ### multimap declarations -/

theorem allocMultimap_run (v : GMultimap) (p : P) :
    (allocMultimap v).run p = .ok (some p.heap.multimaps.length)
      { p with heap := { p.heap with multimaps := p.heap.multimaps ++ [v] } } := rfl

theorem mm_get_last (ms : List Multimap) (c : GMultimap) : (ms.map encMultimap ++ [c])[ms.length]? = some c := by
  have : ms.length = (ms.map encMultimap).length := by simp
  rw [this]; simp

theorem mm_set_last (ms : List Multimap) (c c' : GMultimap) :
    (ms.map encMultimap ++ [c]).set ms.length c' = ms.map encMultimap ++ [c'] := by
  have : ms.length = (ms.map encMultimap).length := by simp
  rw [this, List.set_append_right _ _ (Nat.le_refl _)]; simp

theorem encSchema_newMultimap (pkg : List Name) (ss : List Struct) (ms : List Multimap) (n : Name) (es : List Enum)
    (hnew : (ms.map (·.name)).any (fun m => decide (m = n)) = false) :
    GSchema.mk pkg (some (encNames 0 (ss.map (·.name))))
      (some (assocSet (encNames 0 (ms.map (·.name))) n (some ms.length))) (some (encNames 0 (es.map (·.name)))) =
    encSchema ⟨pkg, ss, ms ++ [{ name := n }], es⟩ := by
  have hset := encNames_set_new (ms.map (·.name)) n hnew
  simp only [List.length_map] at hset
  simp [encSchema, hset]

theorem c_Key : IsCode c_tKey (.kw .key) := isCode_kw .key
theorem c_Value : IsCode c_tValue (.kw .value) := isCode_kw .value

/-- **parseMultimap = Idl.parseMultimap** (the current token is `multimap`) -/
theorem parseMultimap_run (p : P) (σ : Schema) (he : p.lexer.isError = false) (hE : Enc p σ)
    (hne : (observe p.lexer).tok ≠ .eof) :
    (∀ σ' ts, Idl.parseMultimap σ (toks p.lexer) = .ok σ' ts →
      ∃ l', Gen.ParseFlow.parseMultimap.run p =
          .ok none { p with lexer := l', heap := encHeap σ', schema := some (encSchema σ') } ∧
        l'.isError = false ∧ toks l' = ts) ∧
    (∀ pos c, Idl.parseMultimap σ (toks p.lexer) = .err pos c →
      ∃ e p', Gen.ParseFlow.parseMultimap.run p = .ok e p' ∧ IsErr e p' pos c) := by
  obtain ⟨lx, sc, fn, mg, hp, po⟩ := p
  obtain ⟨pkg, ss, ms, es⟩ := σ
  obtain ⟨hh, hs⟩ := hE
  simp only at hh hs he hne
  subst hh hs
  obtain ⟨l1, h1, he1, ht1⟩ := next_toks' lx he hne
  unfold Gen.ParseFlow.parseMultimap Idl.parseMultimap
  rsimp [h1, ← ht1, cur_toks]
  by_cases hid : l1.token = c_tIdent
  case neg =>
    have hni := not_ident_obs l1 hid
    have hb : (l1.token != c_tIdent) = true := by simpa using hid
    have ie := perror_isErr (Msg.lit "multimap name expected") ⟨l1, some (encSchema ⟨pkg, ss, ms, es⟩), fn, mg,
      encHeap ⟨pkg, ss, ms, es⟩, po⟩ .multimapName rfl
    simp only [cur_toks] at ie
    simp only [hb, if_true, perror_run]
    cases htk : (observe l1).tok with
    | ident n => exact (hni n htk).elim
    | _ =>
      (try simp only [])
      exact ⟨by intro _ _ h; simp at h, by intro _ _ h; simp at h; obtain ⟨rfl, rfl⟩ := h; exact ⟨_, _, rfl, ie⟩⟩
  case pos =>
    have hobs := c_Ident_obs l1 hid
    simp only [hobs, hid, bne_self_eq_false, Bool.false_eq_true, if_false]
    rw [isTopLevelNameUsed_run _ ⟨pkg, ss, ms, es⟩ rfl]
    simp only []
    by_cases hused : Schema.isTopUsed ⟨pkg, ss, ms, es⟩ l1.ident = true
    case pos =>
      have ie := perror_isErr (Msg.cat (Msg.lit "duplicate top-level identifier: ") (Msg.str l1.ident))
        ⟨l1, some (encSchema ⟨pkg, ss, ms, es⟩), fn, mg, encHeap ⟨pkg, ss, ms, es⟩, po⟩ (.dupTop l1.ident) rfl
      simp only [cur_toks] at ie
      simp only [hused, if_true, perror_run]
      exact ⟨by intro _ _ h; simp at h, by intro _ _ h; simp at h; obtain ⟨rfl, rfl⟩ := h; exact ⟨_, _, rfl, ie⟩⟩
    case neg =>
      have hun : Schema.isTopUsed ⟨pkg, ss, ms, es⟩ l1.ident = false := by simpa using hused
      obtain ⟨l2, h2, he2, ht2⟩ := next_toks' l1 he1 (by rw [hobs]; simp)
      simp only [hun, Bool.false_eq_true, if_false, h2, ← ht2]
      have hnew : (ms.map (·.name)).any (fun m => decide (m = l1.ident)) = false := by
        simp only [Schema.isTopUsed, Schema.hasMultimap, Bool.or_eq_false_iff] at hun
        rw [List.any_map]; exact hun.1.2
      simp only [bind_run, pure_run, allocMultimap_run, getMultimap_run', getSchema_run', modSchema_run', mapSet_run,
        encHeap, mm_get_last, List.length_map, encSchema]
      simp only [encSchema_newMultimap pkg ss ms l1.ident es hnew]
      have E1 := eat_run (⟨l2, some (encSchema ⟨pkg, ss, ms ++ [{ name := l1.ident }], es⟩), fn, mg, ⟨encStructs 0 ss, allFields ss, ms.map encMultimap ++ [{ name := l1.ident }], es.map encEnum⟩, po⟩ : P) c_tLBrace _ c_LBrace he2
      cases hh1 : Idl.eat (.punct '{') (toks l2) with
      | err pos c =>
        obtain ⟨e, r, ie⟩ := E1.2 pos c hh1
        simp only [r, ie.isSome, if_true]
        exact ⟨by intro _ _ h; simp at h, by intro _ _ h; simp at h; obtain ⟨rfl, rfl⟩ := h; exact ⟨_, _, rfl, ie⟩⟩
      | ok u1 ts1 =>
        obtain ⟨_, r, l3, rfl, he3, ht3⟩ := E1.1 ts1 hh1
        simp only [r, Option.isSome_none, Bool.false_eq_true, if_false]
        subst ht3
        have E2 := eat_run (⟨l3, some (encSchema ⟨pkg, ss, ms ++ [{ name := l1.ident }], es⟩), fn, mg, ⟨encStructs 0 ss, allFields ss, ms.map encMultimap ++ [{ name := l1.ident }], es.map encEnum⟩, po⟩ : P) c_tKey _ c_Key he3
        cases hh2 : Idl.eat (.kw .key) (toks l3) with
        | err pos c =>
          obtain ⟨e, r, ie⟩ := E2.2 pos c hh2
          simp only [r, ie.isSome, if_true]
          exact ⟨by intro _ _ h; simp at h, by intro _ _ h; simp at h; obtain ⟨rfl, rfl⟩ := h; exact ⟨_, _, rfl, ie⟩⟩
        | ok u2 ts2 =>
          obtain ⟨_, r, l4, rfl, he4, ht4⟩ := E2.1 ts2 hh2
          simp only [r, Option.isSome_none, Bool.false_eq_true, if_false]
          subst ht4
          simp only [addrKey, bind_run, pure_run, getMultimap_run', mm_get_last]
          have K := parseMultimapField_run (⟨l4, some (encSchema ⟨pkg, ss, ms ++ [{ name := l1.ident }], es⟩), fn, mg, ⟨encStructs 0 ss, allFields ss, ms.map encMultimap ++ [{ name := l1.ident }], es.map encEnum⟩, po⟩ : P) ms.length false { name := l1.ident } he4 (mm_get_last ms _) rfl
          cases hk : Idl.parseMultimapField (toks l4) with
          | err pos c =>
            obtain ⟨e, p', r, ie⟩ := K.2 pos c hk
            simp only [r, ie.isSome, if_true]
            exact ⟨by intro _ _ h; simp at h, by intro _ _ h; simp at h; obtain ⟨rfl, rfl⟩ := h; exact ⟨_, _, rfl, ie⟩⟩
          | ok kty ts5 =>
            obtain ⟨l5, r, he5, ht5⟩ := K.1 kty ts5 hk
            simp only [r, Option.isSome_none, Bool.false_eq_true, if_false, mm_set_last, mmSetSlot]
            subst ht5
            have E3 := eat_run (⟨l5, some (encSchema ⟨pkg, ss, ms ++ [{ name := l1.ident }], es⟩), fn, mg, ⟨encStructs 0 ss, allFields ss, ms.map encMultimap ++ [{ name := l1.ident, key := { type := toGoFT kty } }], es.map encEnum⟩, po⟩ : P) c_tValue _ c_Value he5
            cases hh3 : Idl.eat (.kw .value) (toks l5) with
            | err pos c =>
              obtain ⟨e, r, ie⟩ := E3.2 pos c hh3
              simp only [r, ie.isSome, if_true]
              exact ⟨by intro _ _ h; simp at h, by intro _ _ h; simp at h; obtain ⟨rfl, rfl⟩ := h; exact ⟨_, _, rfl, ie⟩⟩
            | ok u3 ts3 =>
              obtain ⟨_, r, l6, rfl, he6, ht6⟩ := E3.1 ts3 hh3
              simp only [r, Option.isSome_none, Bool.false_eq_true, if_false]
              subst ht6
              simp only [addrValue, bind_run, pure_run, getMultimap_run', mm_get_last]
              have V := parseMultimapField_run (⟨l6, some (encSchema ⟨pkg, ss, ms ++ [{ name := l1.ident }], es⟩), fn, mg, ⟨encStructs 0 ss, allFields ss, ms.map encMultimap ++ [{ name := l1.ident, key := { type := toGoFT kty } }], es.map encEnum⟩, po⟩ : P) ms.length true { name := l1.ident, key := { type := toGoFT kty } } he6 (mm_get_last ms _) rfl
              cases hv : Idl.parseMultimapField (toks l6) with
              | err pos c =>
                obtain ⟨e, p', r, ie⟩ := V.2 pos c hv
                simp only [r, ie.isSome, if_true]
                exact ⟨by intro _ _ h; simp at h, by intro _ _ h; simp at h; obtain ⟨rfl, rfl⟩ := h; exact ⟨_, _, rfl, ie⟩⟩
              | ok vty ts7 =>
                obtain ⟨l7, r, he7, ht7⟩ := V.1 vty ts7 hv
                simp only [r, Option.isSome_none, Bool.false_eq_true, if_false, mm_set_last, mmSetSlot]
                subst ht7
                have E4 := eat_run (⟨l7, some (encSchema ⟨pkg, ss, ms ++ [{ name := l1.ident }], es⟩), fn, mg, ⟨encStructs 0 ss, allFields ss, ms.map encMultimap ++ [{ name := l1.ident, key := { type := toGoFT kty }, value := { type := toGoFT vty } }], es.map encEnum⟩, po⟩ : P) c_tRBrace _ c_RBrace he7
                cases hh4 : Idl.eat (.punct '}') (toks l7) with
                | err pos c =>
                  obtain ⟨e, r, ie⟩ := E4.2 pos c hh4
                  simp only [r, ie.isSome, if_true]
                  exact ⟨by intro _ _ h; simp at h, by intro _ _ h; simp at h; obtain ⟨rfl, rfl⟩ := h; exact ⟨_, _, rfl, ie⟩⟩
                | ok u4 ts4 =>
                  obtain ⟨_, r, l8, rfl, he8, ht8⟩ := E4.1 ts4 hh4
                  simp only [r, Option.isSome_none, Bool.false_eq_true, if_false]
                  subst ht8
                  refine ⟨?_, by intro _ _ h; simp at h⟩
                  intro σ' ts h; simp at h; obtain ⟨rfl, rfl⟩ := h
                  refine ⟨l8, ?_, he8, rfl⟩
                  first | rw [r] | erw [r] | skip
                  simp [encHeap, encSchema, encMultimap]


/-! ### enums -/

def encEF (f : EnumField) : GEnumField := ⟨f.name, f.value⟩

theorem encEnum_eq (e : Enum) : encEnum e = { name := e.name, fields := e.fields.map encEF } := rfl

theorem getEnum_run' (p : P) (k : Nat) : (getEnum (some k)).run p = match p.heap.enums[k]? with
    | some c => .ok c p
    | none => .panic .nilDeref := by
  simp only [getEnum, getCell, derefL]; split <;> simp_all

theorem modEnum_run' (p : P) (k : Nat) (f : GEnum → GEnum) : (modEnum (some k) f).run p =
    match p.heap.enums[k]? with
    | some c => .ok () { p with heap := { p.heap with enums := p.heap.enums.set k (f c) } }
    | none => .panic .nilDeref := by
  simp only [modEnum, modCell]; split <;> simp_all

theorem indexL_run {α : Type} (l : List α) (i : Nat) (v : α) (h : l[i]? = some v) (p : P) :
    (indexL l (Int.ofNat i)).run p = .ok v p := by
  simp [indexL, h, pure_run]
  rfl

theorem indexL_run' {α : Type} (l : List α) (i : Nat) (v : α) (h : l[i]? = some v) (p : P) :
    (indexL l (i : Int)).run p = .ok v p := indexL_run l i v h p

theorem ef_get_last (fs : List EnumField) (c : GEnumField) : (fs.map encEF ++ [c])[fs.length]? = some c := by
  have : fs.length = (fs.map encEF).length := by simp
  rw [this]; simp

theorem toNat_ofNat' (n : Nat) : (Int.ofNat n).toNat = n := rfl

/-- the duplicate check `for i := range enum.Fields { if enum.Fields[i].Name == fieldName { return .. } }` -/
theorem dupLoop (p : P) (k : Nat) (c : GEnum) (hc : p.heap.enums[k]? = some c) (fname : Name)
    (f : Int → Option (Err × Bool) × Unit → M (ForInStep (Option (Err × Bool) × Unit)))
    (hf : ∀ (i : Nat) (s : Option (Err × Bool) × Unit) (x : GEnumField), c.fields[i]? = some x →
      (f (Int.ofNat i) s).run p = if x.name = fname
        then .ok (.done (some (mkErr (Msg.cat (Msg.lit "duplicate enum field name: ") (Msg.str fname)) p, false), ())) p
        else .ok (.yield (none, ())) p) :
    ∀ (m s : Nat), s + m = c.fields.length →
      (forIn ((List.range' s m).map Int.ofNat) (none, ()) f).run p =
        if (c.fields.drop s).any (fun x => decide (x.name = fname))
        then .ok (some (mkErr (Msg.cat (Msg.lit "duplicate enum field name: ") (Msg.str fname)) p, false), ()) p
        else .ok (none, ()) p
  | 0, s, h => by
    have : c.fields.drop s = [] := by apply List.drop_eq_nil_of_le; omega
    simp [this, List.range', pure_run]
  | m + 1, s, h => by
    have hs : s < c.fields.length := by omega
    have hx : c.fields[s]? = some c.fields[s] := List.getElem?_eq_getElem hs
    have hd : c.fields.drop s = c.fields[s] :: c.fields.drop (s + 1) := (List.drop_eq_getElem_cons hs)
    simp only [List.range', List.map_cons, List.forIn_cons, bind_run, hf s _ _ hx, hd, List.any_cons]
    by_cases hn : c.fields[s].name = fname
    · simp [hn, pure_run]
    · simp only [hn, if_false, decide_false, Bool.false_or]
      exact dupLoop p k c hc fname f hf m (s + 1) (by omega)


/-- the translated duplicate check (its body as extract/parseflow.go emits it) -/
theorem dupLoop_gen (p : P) (k : Nat) (c : GEnum) (hc : p.heap.enums[k]? = some c) (fname : Name) :
    (forIn ((List.range' 0 c.fields.length).map Int.ofNat) ((none : Option (Err × Bool)), ()) fun i __s => do
        let __do_lift ← getEnum (some k)
        let __do_lift ← indexL __do_lift.fields i
        if (__do_lift.name == fname) = true then do
            let __do_lift ← Gen.ParseFlow.perror ((Msg.lit "duplicate enum field name: ").cat (Msg.str fname))
            pure (ForInStep.done (some (__do_lift, false), ()))
          else pure (ForInStep.yield (none, ()))).run p =
      if c.fields.any (fun x => decide (x.name = fname))
      then .ok (some (mkErr (Msg.cat (Msg.lit "duplicate enum field name: ") (Msg.str fname)) p, false), ()) p
      else .ok (none, ()) p := by
  rw [dupLoop p k c hc fname _ ?hf c.fields.length 0 (by simp)]
  · simp
  · intro i s x hx
    simp only [bind_run, getEnum_run', hc, indexL_run _ i x hx, ite_run, pure_run, perror_run]
    by_cases hn : x.name = fname <;> simp [hn]

theorem rangeInt_len {α : Type} (l : List α) : rangeInt (len l) = (List.range' 0 l.length).map Int.ofNat := by
  simp [rangeInt, len, List.range_eq_range']

theorem c_IntNumber_obs (l : L) (h : l.token = c_tIntNumber) : (observe l).tok = .num l.uintNumber :=
  (tokOf_num_iff _ _ _ _).2 ⟨h, rfl⟩

theorem not_num_obs (l : L) (h : ¬ l.token = c_tIntNumber) (v : Nat) : (observe l).tok ≠ .num v :=
  fun hh => h ((tokOf_num_iff _ _ _ _).1 hh).1

/-- **parseEnumField**: one round of the loop of `parseEnumFields` -/
theorem parseEnumField_run (p : P) (k : Nat) (nm : Name) (fs : List EnumField) (he : p.lexer.isError = false)
    (hc : p.heap.enums[k]? = some { name := nm, fields := fs.map encEF }) :
    ((∀ n, (observe p.lexer).tok ≠ .ident n) →
      (Gen.ParseFlow.parseEnumField (some k)).run p = .ok (none, false) p) ∧
    (∀ fname, (observe p.lexer).tok = .ident fname →
      ((fs.any fun g => decide (g.name = fname)) = true →
        ∃ e, (Gen.ParseFlow.parseEnumField (some k)).run p = .ok (e, false) p ∧
          IsErr e p (observe p.lexer).pos (.dupEnumField fname)) ∧
      ((fs.any fun g => decide (g.name = fname)) = false →
        (∀ pos c, Idl.eat (.punct '=') (adv (toks p.lexer)) = .err pos c →
          ∃ e p', (Gen.ParseFlow.parseEnumField (some k)).run p = .ok (e, false) p' ∧ IsErr e p' pos c) ∧
        (∀ ts1, Idl.eat (.punct '=') (adv (toks p.lexer)) = .ok () ts1 →
          (∀ v, (cur ts1).tok = .num v →
            ∃ l', (Gen.ParseFlow.parseEnumField (some k)).run p = .ok (none, true)
                { p with lexer := l', heap := { p.heap with enums := (p.heap.enums.set k
                  { name := nm, fields := (fs ++ [({ name := fname, value := v } : EnumField)]).map encEF }) } } ∧
              l'.isError = false ∧ toks l' = adv ts1) ∧
          ((∀ v, (cur ts1).tok ≠ .num v) →
            ∃ e p', (Gen.ParseFlow.parseEnumField (some k)).run p = .ok (e, false) p' ∧
              IsErr e p' (cur ts1).pos .enumValue)))) := by
  obtain ⟨lx, sc, fn, mg, hp, po⟩ := p
  simp only at he hc
  have hlen : k < hp.enums.length := (List.getElem?_eq_some_iff.1 hc).1
  unfold Gen.ParseFlow.parseEnumField
  rsimp []
  constructor
  · intro hni
    have : (lx.token != c_tIdent) = true := by
      simp only [bne_iff_ne, ne_eq]
      intro h
      exact hni lx.ident (c_Ident_obs lx h)
    simp only [this, if_true]
  · intro fname hid
    obtain ⟨ht, rfl⟩ := (tokOf_ident_iff _ _ _ _).1 hid
    simp only [ht, bne_self_eq_false, Bool.false_eq_true, if_false, getEnum_run', hc, rangeInt_len]
    simp only [dupLoop_gen ⟨lx, sc, fn, mg, hp, po⟩ k _ hc lx.ident]
    simp only [List.any_map]
    have hany : (fs.any ((fun x => decide (x.name = lx.ident)) ∘ encEF)) = fs.any fun g => decide (g.name = lx.ident) := rfl
    rw [hany]
    constructor
    · intro hdup
      simp only [hdup, if_true]
      refine ⟨_, rfl, ?_⟩
      have := perror_isErr (Msg.cat (Msg.lit "duplicate enum field name: ") (Msg.str lx.ident)) ⟨lx, sc, fn, mg, hp, po⟩
        (.dupEnumField lx.ident) rfl
      simpa [cur_toks] using this
    · intro hnew
      simp only [hnew, Bool.false_eq_true, if_false, modEnum_run', hc, List.getElem?_set_self hlen, addrEnumField,
        bind_run, getEnum_run', pure_run]
      have hidx : ((len (List.map encEF fs ++ [({ name := lx.ident } : GEnumField)]) : Int) - 1) = Int.ofNat fs.length := by
        simp [len]
      rw [hidx, indexL_run _ fs.length ({ name := lx.ident } : GEnumField) (ef_get_last fs _)]
      simp only []
      obtain ⟨l1, h1, he1, ht1⟩ := next_toks' lx he (by rw [hid]; simp)
      simp only [h1, ← ht1]
      have E := eat_run ⟨l1, sc, fn, mg, { hp with enums := (hp.enums.set k
        { name := nm, fields := fs.map encEF ++ [{ name := lx.ident }] }) }, po⟩ c_tAssign _ c_Assign he1
      constructor
      · intro pos c hh
        obtain ⟨e, r, ie⟩ := E.2 pos c hh
        simp only [r, ie.isSome, if_true]
        exact ⟨_, _, rfl, ie⟩
      · intro ts1 hh
        obtain ⟨_, r, l2, rfl, he2, ht2⟩ := E.1 ts1 hh
        simp only [r, Option.isSome_none, Bool.false_eq_true, if_false]
        subst ht2
        simp only [cur_toks]
        constructor
        · intro v hv
          obtain ⟨htn, rfl⟩ := (tokOf_num_iff _ _ _ _).1 hv
          rsimp [htn, bne_self_eq_false, modEF, getEnum_run', List.getElem?_set_self hlen, modEnum_run', List.set_set,
            toNat_ofNat', indexL_run' _ fs.length ({ name := lx.ident } : GEnumField) (ef_get_last fs _)]
          obtain ⟨l3, h3, he3, ht3⟩ := next_toks' l2 he2 (by rw [hv]; simp)
          simp only [h3]
          refine ⟨l3, ?_, he3, ht3⟩
          congr 5
          have : fs.length = (fs.map encEF).length := by simp
          rw [this, List.set_append_right _ _ (Nat.le_refl _)]
          simp [encEF]
        · intro hnn
          have htn : ¬ l2.token = c_tIntNumber := fun h => hnn _ (c_IntNumber_obs l2 h)
          have hb : (l2.token != c_tIntNumber) = true := by simpa using htn
          rsimp [hb]
          by_cases hte : l2.token = c_tError
          · simp only [hte, beq_self_eq_true, if_true, perror_run]
            refine ⟨_, _, rfl, ?_⟩
            have := perror_isErr (Msg.cat (Msg.lit "enum field value expected") (Msg.cat (Msg.lit ": ") (Msg.lex l2.errMsg)))
              ⟨l2, sc, fn, mg, { hp with enums := (hp.enums.set k
                { name := nm, fields := fs.map encEF ++ [{ name := lx.ident }] }) }, po⟩ .enumValue rfl
            simpa [cur_toks] using this
          · have hb2 : (l2.token == c_tError) = false := by simpa using hte
            simp only [hb2, Bool.false_eq_true, if_false, perror_run]
            refine ⟨_, _, rfl, ?_⟩
            have := perror_isErr (Msg.lit "enum field value expected")
              ⟨l2, sc, fn, mg, { hp with enums := (hp.enums.set k
                { name := nm, fields := fs.map encEF ++ [{ name := lx.ident }] }) }, po⟩ .enumValue rfl
            simpa [cur_toks] using this


/-! ### the enum member loop -/

theorem parseEnumFields_fuel : ∀ (f1 f2 : Nat) (fs : List EnumField) (ts : List Token),
    WFS ts → ts.length < f1 → ts.length < f2 → Idl.parseEnumFields f1 fs ts = Idl.parseEnumFields f2 fs ts
  | 0, _, fs, ts, h, h1, _ => by omega
  | _ + 1, 0, fs, ts, h, _, h2 => by omega
  | f1 + 1, f2 + 1, fs, ts, h, h1, h2 => by
    unfold Idl.parseEnumFields
    split
    · rename_i fname hc
      split
      · rfl
      · have hlt : (adv ts).length < ts.length := adv_len_lt h (by rw [hc]; simp)
        have hf := eat_fine (.punct '=') (adv_wfs h)
        cases he : Idl.eat (.punct '=') (adv ts) with
        | err p c => rfl
        | ok u ts1 =>
          have k1 := hf.ok_of he
          simp only
          split
          · rename_i v hv
            have := adv_len_le ts1
            exact parseEnumFields_fuel f1 f2 _ _ (adv_wfs k1.1) (by omega) (by omega)
          · rfl
    · rfl

theorem parseEnumFields_eq (en : Ptr) (p : P) :
    (Gen.ParseFlow.parseEnumFields en).run p =
      stepLoop (Gen.ParseFlow.parseEnumField en) (p.lexer.input.length + 4) p := by
  unfold Gen.ParseFlow.parseEnumFields
  rw [bind_run, rounds_run]
  simp only [forIn_rounds]
  refine stepLoop_wrap _ _ (fun s p => stepLoop_body_shape _ s p) _ ?_ _ p
  intro e p
  cases e with
  | none => right; exact ⟨rfl, rfl⟩
  | some x => left; rfl

theorem parseEnumFields_loop (k : Nat) (nm : Name) :
    ∀ (n : Nat) (p : P) (fs : List EnumField), p.lexer.isError = false →
    p.heap.enums[k]? = some { name := nm, fields := fs.map encEF } → (toks p.lexer).length < n →
    (∀ fs' ts, Idl.parseEnumFields n fs (toks p.lexer) = .ok fs' ts →
      ∃ l', stepLoop (Gen.ParseFlow.parseEnumField (some k)) n p =
          .ok none { p with lexer := l', heap := { p.heap with enums := (p.heap.enums.set k
            { name := nm, fields := fs'.map encEF }) } } ∧
        l'.isError = false ∧ toks l' = ts) ∧
    (∀ pos c, Idl.parseEnumFields n fs (toks p.lexer) = .err pos c →
      ∃ e p', stepLoop (Gen.ParseFlow.parseEnumField (some k)) n p = .ok e p' ∧ IsErr e p' pos c)
  | 0, p, fs, _, _, hn => by omega
  | n + 1, p, fs, he, hc, hn => by
    have S := parseEnumField_run p k nm fs he hc
    have hw := toks_wfs p.lexer
    have hlen : k < p.heap.enums.length := (List.getElem?_eq_some_iff.1 hc).1
    unfold Idl.parseEnumFields
    simp only [stepLoop, cur_toks]
    cases htk : (observe p.lexer).tok with
    | ident fname =>
      have S2 := S.2 fname htk
      simp only []
      by_cases hdup : (fs.any fun g => decide (g.name = fname)) = true
      · obtain ⟨e, r, ie⟩ := S2.1 hdup
        simp only [hdup, if_true, r, ie.isSome]
        exact ⟨by intro _ _ h; simp at h, by intro _ _ h; simp at h; obtain ⟨rfl, rfl⟩ := h; exact ⟨_, _, rfl, ie⟩⟩
      · have hnew : (fs.any fun g => decide (g.name = fname)) = false := by simpa using hdup
        have S3 := S2.2 hnew
        simp only [hnew, Bool.false_eq_true, if_false]
        have hlt : (adv (toks p.lexer)).length < (toks p.lexer).length :=
          adv_len_lt hw (by rw [cur_toks, htk]; simp)
        have hf := eat_fine (.punct '=') (adv_wfs hw)
        cases hpe : Idl.eat (.punct '=') (adv (toks p.lexer)) with
        | err pos c =>
          obtain ⟨e, p', r, ie⟩ := S3.1 pos c hpe
          simp only [r, ie.isSome, if_true]
          exact ⟨by intro _ _ h; simp at h, by intro _ _ h; simp at h; obtain ⟨rfl, rfl⟩ := h; exact ⟨_, _, rfl, ie⟩⟩
        | ok u ts1 =>
          have S4 := S3.2 ts1 hpe
          have k1 := hf.ok_of hpe
          simp only []
          cases hnum : (cur ts1).tok with
          | num v =>
            obtain ⟨l1, r, he1, ht1⟩ := S4.1 v hnum
            simp only [r, Option.isSome_none, Bool.false_eq_true, if_false, Bool.not_true]
            have := adv_len_le ts1
            have IH := parseEnumFields_loop k nm n
              { p with lexer := l1, heap := { p.heap with enums := (p.heap.enums.set k
                { name := nm, fields := (fs ++ [({ name := fname, value := v } : EnumField)]).map encEF }) } }
              (fs ++ [{ name := fname, value := v }]) he1 (by simp [hlen]) (by simp only [ht1]; omega)
            simp only [ht1, List.set_set] at IH
            exact IH
          | _ =>
            have hnn : ∀ v, (cur ts1).tok ≠ .num v := by intro v h; rw [hnum] at h; cases h
            obtain ⟨e, p', r, ie⟩ := S4.2 hnn
            simp only [r, ie.isSome, if_true]
            exact ⟨by intro _ _ h; simp at h, by intro _ _ h; simp at h; obtain ⟨rfl, rfl⟩ := h; exact ⟨_, _, rfl, ie⟩⟩
    | _ =>
      have hni : ∀ n, (observe p.lexer).tok ≠ .ident n := by intro n h; rw [htk] at h; cases h
      simp only [S.1 hni, Option.isSome_none, Bool.false_eq_true, if_false, Bool.not_false, if_true]
      refine ⟨?_, by intro _ _ h; simp at h⟩
      intro fs' ts h; simp at h; obtain ⟨rfl, rfl⟩ := h
      refine ⟨p.lexer, ?_, he, rfl⟩
      have hself : p.heap.enums.set k { name := nm, fields := fs.map encEF } = p.heap.enums := by
        apply List.ext_getElem?
        intro i
        by_cases hi : k = i
        · subst hi; rw [hc]; simp [List.getElem?_set, hlen]
        · simp [List.getElem?_set, hi]
      rw [hself]


/-! ### enum declarations -/

theorem allocEnum_run (v : GEnum) (p : P) :
    (allocEnum v).run p = .ok (some p.heap.enums.length) { p with heap := { p.heap with enums := p.heap.enums ++ [v] } } := rfl

theorem en_get_last (es : List Enum) (c : GEnum) : (es.map encEnum ++ [c])[es.length]? = some c := by
  have : es.length = (es.map encEnum).length := by simp
  rw [this]; simp

theorem en_set_last (es : List Enum) (c c' : GEnum) : (es.map encEnum ++ [c]).set es.length c' = es.map encEnum ++ [c'] := by
  have : es.length = (es.map encEnum).length := by simp
  rw [this, List.set_append_right _ _ (Nat.le_refl _)]; simp

theorem encSchema_newEnum (pkg : List Name) (ss : List Struct) (ms : List Multimap) (es : List Enum) (n : Name)
    (hnew : (es.map (·.name)).any (fun m => decide (m = n)) = false) :
    GSchema.mk pkg (some (encNames 0 (ss.map (·.name)))) (some (encNames 0 (ms.map (·.name))))
      (some (assocSet (encNames 0 (es.map (·.name))) n (some es.length))) =
    encSchema ⟨pkg, ss, ms, es ++ [{ name := n }]⟩ := by
  have hset := encNames_set_new (es.map (·.name)) n hnew
  simp only [List.length_map] at hset
  simp [encSchema, hset]

/-- **parseEnum = Idl.parseEnum** (the current token is `enum`) -/
theorem parseEnum_run (p : P) (σ : Schema) (he : p.lexer.isError = false) (hE : Enc p σ)
    (hne : (observe p.lexer).tok ≠ .eof) :
    (∀ σ' ts, Idl.parseEnum σ (toks p.lexer) = .ok σ' ts →
      ∃ l', Gen.ParseFlow.parseEnum.run p =
          .ok none { p with lexer := l', heap := encHeap σ', schema := some (encSchema σ') } ∧
        l'.isError = false ∧ toks l' = ts) ∧
    (∀ pos c, Idl.parseEnum σ (toks p.lexer) = .err pos c →
      ∃ e p', Gen.ParseFlow.parseEnum.run p = .ok e p' ∧ IsErr e p' pos c) := by
  obtain ⟨lx, sc, fn, mg, hp, po⟩ := p
  obtain ⟨pkg, ss, ms, es⟩ := σ
  obtain ⟨hh, hs⟩ := hE
  simp only at hh hs he hne
  subst hh hs
  obtain ⟨l1, h1, he1, ht1⟩ := next_toks' lx he hne
  unfold Gen.ParseFlow.parseEnum Idl.parseEnum
  rsimp [h1, ← ht1, cur_toks]
  by_cases hid : l1.token = c_tIdent
  case neg =>
    have hni := not_ident_obs l1 hid
    have hb : (l1.token != c_tIdent) = true := by simpa using hid
    have ie := perror_isErr (Msg.lit "enum name expected") ⟨l1, some (encSchema ⟨pkg, ss, ms, es⟩), fn, mg,
      encHeap ⟨pkg, ss, ms, es⟩, po⟩ .enumName rfl
    simp only [cur_toks] at ie
    simp only [hb, if_true, perror_run]
    cases htk : (observe l1).tok with
    | ident n => exact (hni n htk).elim
    | _ =>
      (try simp only [])
      exact ⟨by intro _ _ h; simp at h, by intro _ _ h; simp at h; obtain ⟨rfl, rfl⟩ := h; exact ⟨_, _, rfl, ie⟩⟩
  case pos =>
    have hobs := c_Ident_obs l1 hid
    simp only [hobs, hid, bne_self_eq_false, Bool.false_eq_true, if_false]
    rw [isTopLevelNameUsed_run _ ⟨pkg, ss, ms, es⟩ rfl]
    simp only []
    by_cases hused : Schema.isTopUsed ⟨pkg, ss, ms, es⟩ l1.ident = true
    case pos =>
      have ie := perror_isErr (Msg.cat (Msg.lit "duplicate top-level identifier: ") (Msg.str l1.ident))
        ⟨l1, some (encSchema ⟨pkg, ss, ms, es⟩), fn, mg, encHeap ⟨pkg, ss, ms, es⟩, po⟩ (.dupTop l1.ident) rfl
      simp only [cur_toks] at ie
      simp only [hused, if_true, perror_run]
      exact ⟨by intro _ _ h; simp at h, by intro _ _ h; simp at h; obtain ⟨rfl, rfl⟩ := h; exact ⟨_, _, rfl, ie⟩⟩
    case neg =>
      have hun : Schema.isTopUsed ⟨pkg, ss, ms, es⟩ l1.ident = false := by simpa using hused
      obtain ⟨l2, h2, he2, ht2⟩ := next_toks' l1 he1 (by rw [hobs]; simp)
      simp only [hun, Bool.false_eq_true, if_false, h2, ← ht2]
      have hnew : (es.map (·.name)).any (fun m => decide (m = l1.ident)) = false := by
        simp only [Schema.isTopUsed, Schema.hasEnum, Bool.or_eq_false_iff] at hun
        rw [List.any_map]; exact hun.2
      simp only [bind_run, pure_run, allocEnum_run, getEnum_run', getSchema_run', modSchema_run', mapSet_run,
        encHeap, en_get_last, List.length_map, encSchema]
      simp only [encSchema_newEnum pkg ss ms es l1.ident hnew]
      have E1 := eat_run (⟨l2, some (encSchema ⟨pkg, ss, ms, es ++ [{ name := l1.ident }]⟩), fn, mg,
        ⟨encStructs 0 ss, allFields ss, ms.map encMultimap, es.map encEnum ++ [{ name := l1.ident }]⟩, po⟩ : P)
        c_tLBrace _ c_LBrace he2
      cases hh1 : Idl.eat (.punct '{') (toks l2) with
      | err pos c =>
        obtain ⟨e, r, ie⟩ := E1.2 pos c hh1
        simp only [r, ie.isSome, if_true]
        exact ⟨by intro _ _ h; simp at h, by intro _ _ h; simp at h; obtain ⟨rfl, rfl⟩ := h; exact ⟨_, _, rfl, ie⟩⟩
      | ok u1 ts1 =>
        obtain ⟨_, r, l3, rfl, he3, ht3⟩ := E1.1 ts1 hh1
        simp only [r, Option.isSome_none, Bool.false_eq_true, if_false, parseEnumFields_eq]
        subst ht3
        have hl := toks_len l3
        have F := parseEnumFields_loop es.length l1.ident (l3.input.length + 4)
          (⟨l3, some (encSchema ⟨pkg, ss, ms, es ++ [{ name := l1.ident }]⟩), fn, mg,
            ⟨encStructs 0 ss, allFields ss, ms.map encMultimap, es.map encEnum ++ [{ name := l1.ident }]⟩, po⟩ : P)
          [] he3 (en_get_last es _) (by simp only []; omega)
        rw [parseEnumFields_fuel _ (l3.input.length + 4) _ _ (toks_wfs _) (by omega) (by omega)]
        cases hpf : Idl.parseEnumFields (l3.input.length + 4) [] (toks l3) with
        | err pos c =>
          obtain ⟨e, p', r2, ie⟩ := F.2 pos c hpf
          simp only [r2, ie.isSome, if_true]
          exact ⟨by intro _ _ h; simp at h, by intro _ _ h; simp at h; obtain ⟨rfl, rfl⟩ := h; exact ⟨_, _, rfl, ie⟩⟩
        | ok fs ts4 =>
          obtain ⟨l4, r2, he4, ht4⟩ := F.1 fs ts4 hpf
          simp only [r2, Option.isSome_none, Bool.false_eq_true, if_false, en_set_last]
          subst ht4
          have E2 := eat_run (⟨l4, some (encSchema ⟨pkg, ss, ms, es ++ [{ name := l1.ident }]⟩), fn, mg,
            ⟨encStructs 0 ss, allFields ss, ms.map encMultimap,
              es.map encEnum ++ [{ name := l1.ident, fields := fs.map encEF }]⟩, po⟩ : P)
            c_tRBrace _ c_RBrace he4
          cases hh2 : Idl.eat (.punct '}') (toks l4) with
          | err pos c =>
            obtain ⟨e, r3, ie⟩ := E2.2 pos c hh2
            simp only [r3, ie.isSome, if_true]
            exact ⟨by intro _ _ h; simp at h, by intro _ _ h; simp at h; obtain ⟨rfl, rfl⟩ := h; exact ⟨_, _, rfl, ie⟩⟩
          | ok u2 ts5 =>
            obtain ⟨_, r3, l5, rfl, he5, ht5⟩ := E2.1 ts5 hh2
            simp only [r3, Option.isSome_none, Bool.false_eq_true, if_false]
            refine ⟨?_, by intro _ _ h; simp at h⟩
            intro σ' ts h; simp at h; obtain ⟨rfl, rfl⟩ := h
            refine ⟨l5, ?_, he5, ht5⟩
            first | rw [r3] | erw [r3] | skip
            simp [encHeap, encSchema, encEnum_eq]


/-! ### the package clause -/

theorem parsePackageLoop_fuel : ∀ (f1 f2 : Nat) (acc : List Name) (ts : List Token),
    WFS ts → ts.length < f1 → ts.length < f2 → Idl.parsePackageLoop f1 acc ts = Idl.parsePackageLoop f2 acc ts
  | 0, _, acc, ts, h, h1, _ => by omega
  | _ + 1, 0, acc, ts, h, _, h2 => by omega
  | f1 + 1, f2 + 1, acc, ts, h, h1, h2 => by
    unfold Idl.parsePackageLoop
    split
    · rename_i c hc
      have hlt : (adv ts).length < ts.length := adv_len_lt h (by rw [hc]; simp)
      simp only
      split
      · have := adv_len_le (adv ts)
        exact parsePackageLoop_fuel f1 f2 _ _ (adv_wfs (adv_wfs h)) (by omega) (by omega)
      · rfl
    · rfl

/-- one round of the loop of `parsePackage`, on the loop state `s` (the components so far) -/
def pkgStep (s : Option Err × List Name) (p : P) : Res (ForInStep (Option Err × List Name)) :=
  if (p.lexer.token != c_tIdent) = true then .ok (.done (some (mkErr (Msg.lit "identifier expected") p), s.2)) p
  else match (lexCall next).run p with
    | .ok _ p1 =>
      if (p1.lexer.token != c_tDot) = true then .ok (.done (none, s.2 ++ [p.lexer.ident])) p1
      else match (lexCall next).run p1 with
        | .ok _ p2 => .ok (.yield (none, s.2 ++ [p.lexer.ident])) p2
        | .stuck => .stuck
        | .panic g => .panic g
    | .stuck => .stuck
    | .panic g => .panic g

/-- what the loop of `parsePackage` returns, against the hand model's `parsePackageLoop` -/
def PkgSpec (p : P) (n : Nat) (acc : List Name) (R : Res (Option Err × List Name)) : Prop :=
  (∀ pkg ts, Idl.parsePackageLoop n acc (toks p.lexer) = .ok pkg ts →
    ∃ l', R = .ok (none, pkg) { p with lexer := l' } ∧ l'.isError = false ∧ toks l' = ts) ∧
  (∀ pos c, Idl.parsePackageLoop n acc (toks p.lexer) = .err pos c →
    ∃ e x p', R = .ok (some e, x) p' ∧ IsErr e p' pos c)

theorem pkgLoop (f : Unit → Option Err × List Name → M (ForInStep (Option Err × List Name)))
    (hf : ∀ s p, (f () s).run p = pkgStep s p) :
    ∀ (n : Nat) (p : P) (acc : List Name) (o : Option Err), p.lexer.isError = false → (toks p.lexer).length < n →
      PkgSpec p n acc ((loopN f n (o, acc)).run p)
  | 0, p, acc, o, _, hn => by omega
  | n + 1, p, acc, o, he, hn => by
    have hw := toks_wfs p.lexer
    obtain ⟨lx, sc, fn, mg, hp, po⟩ := p
    simp only at he hn hw
    unfold PkgSpec Idl.parsePackageLoop
    rw [loopN_succ, hf]
    simp only [pkgStep, cur_toks]
    by_cases hid : lx.token = c_tIdent
    case neg =>
      have hni := not_ident_obs lx hid
      have hb : (lx.token != c_tIdent) = true := by simpa using hid
      have ie := perror_isErr (Msg.lit "identifier expected") ⟨lx, sc, fn, mg, hp, po⟩ .pkgIdent rfl
      simp only [cur_toks] at ie
      simp only [hb, if_true]
      cases htk : (observe lx).tok with
      | ident n => exact (hni n htk).elim
      | _ =>
        (try simp only [])
        exact ⟨by intro _ _ h; simp at h, by intro _ _ h; simp at h; obtain ⟨rfl, rfl⟩ := h; exact ⟨_, _, _, rfl, ie⟩⟩
    case pos =>
      have hobs := c_Ident_obs lx hid
      obtain ⟨l1, h1, he1, ht1⟩ := next_toks' lx he (by rw [hobs]; simp)
      have hlt : (adv (toks lx)).length < (toks lx).length := adv_len_lt hw (by rw [cur_toks, hobs]; simp)
      simp only [hobs, hid, bne_self_eq_false, Bool.false_eq_true, if_false, h1, ← ht1, cur_toks]
      by_cases hdot : l1.token = c_tDot
      · have hobs1 : (observe l1).tok = .punct '.' := (tok_eq_code c_Dot _).2 hdot
        obtain ⟨l2, h2, he2, ht2⟩ := next_toks' l1 he1 (by rw [hobs1]; simp)
        simp only [hobs1, hdot, bne_self_eq_false, Bool.false_eq_true, if_false, if_true, h2, ← ht2]
        have hle := adv_len_le (adv (toks lx))
        have IH := pkgLoop f hf n ⟨l2, sc, fn, mg, hp, po⟩ (acc ++ [lx.ident]) none he2 (by simp only [ht2, ht1]; omega)
        exact IH
      · have hobs1 : ¬ (observe l1).tok = .punct '.' := fun h => hdot ((tok_eq_code c_Dot _).1 h)
        have hb : (l1.token != c_tDot) = true := by simpa using hdot
        simp only [hobs1, hb, if_true, if_false]
        exact ⟨by intro pkg ts h; simp at h; obtain ⟨rfl, rfl⟩ := h; exact ⟨l1, rfl, he1, rfl⟩, by intro _ _ h; simp at h⟩


theorem c_Package : IsCode c_tPackage (.kw .package) := isCode_kw .package

/-- **parsePackage = Idl.parsePackage** -/
theorem parsePackage_run (p : P) (s0 : GSchema) (he : p.lexer.isError = false) (hs : p.schema = some s0) :
    (∀ pkg ts, Idl.parsePackage (toks p.lexer) = .ok pkg ts →
      ∃ l', Gen.ParseFlow.parsePackage.run p =
          .ok none { p with lexer := l', schema := some { s0 with packageName := pkg } } ∧
        l'.isError = false ∧ toks l' = ts) ∧
    (∀ pos c, Idl.parsePackage (toks p.lexer) = .err pos c →
      ∃ e p', Gen.ParseFlow.parsePackage.run p = .ok e p' ∧ IsErr e p' pos c) := by
  obtain ⟨lx, sc, fn, mg, hp, po⟩ := p
  simp only at he hs
  subst hs
  unfold Gen.ParseFlow.parsePackage Idl.parsePackage
  rsimp []
  have E := eat_run ⟨lx, some s0, fn, mg, hp, po⟩ c_tPackage _ c_Package he
  cases hh : Idl.eat (.kw .package) (toks lx) with
  | err pos c =>
    obtain ⟨e, r, ie⟩ := E.2 pos c hh
    simp only [r, ie.isSome, if_true]
    exact ⟨by intro _ _ h; simp at h, by intro _ _ h; simp at h; obtain ⟨rfl, rfl⟩ := h; exact ⟨_, _, rfl, ie⟩⟩
  | ok u ts1 =>
    obtain ⟨_, r, l1, rfl, he1, ht1⟩ := E.1 ts1 hh
    simp only [r, Option.isSome_none, Bool.false_eq_true, if_false]
    subst ht1
    have hl := toks_len l1
    rw [parsePackageLoop_fuel _ (l1.input.length + 4) _ _ (toks_wfs _) (by omega) (by omega)]
    generalize hR : (loopN _ _ _).run _ = R
    have hspec : PkgSpec ⟨l1, some s0, fn, mg, hp, po⟩ (l1.input.length + 4) [] R := by
      rw [← hR]
      refine pkgLoop _ ?_ _ _ _ _ he1 (by simp only []; omega)
      intro s p
      simp only [bind_run, curToken_run, ite_run, perror_run, pure_run, curIdent_run, pkgStep]
      by_cases h1 : (p.lexer.token != c_tIdent) = true
      · simp only [h1, if_true]
      · simp only [h1, if_false, Bool.false_eq_true]
        cases (lexCall next).run p with
        | stuck => rfl
        | panic g => rfl
        | ok a p1 =>
          simp only []
          by_cases h2 : (p1.lexer.token != c_tDot) = true
          · simp only [h2, if_true]
          · simp only [h2, if_false, Bool.false_eq_true]
            cases (lexCall next).run p1 <;> rfl
    simp only [PkgSpec] at hspec
    cases hpl : Idl.parsePackageLoop (l1.input.length + 4) [] (toks l1) with
    | err pos c =>
      obtain ⟨e, x, p', rR, ie⟩ := hspec.2 pos c hpl
      simp only [rR, pure_run]
      exact ⟨by intro _ _ h; simp at h, by intro _ _ h; simp at h; obtain ⟨rfl, rfl⟩ := h; exact ⟨_, _, rfl, ie⟩⟩
    | ok pkg ts2 =>
      obtain ⟨l2, rR, he2, ht2⟩ := hspec.1 pkg ts2 hpl
      simp only [rR, bind_run, modSchema_run', pure_run]
      exact ⟨by intro pkg' ts h; simp at h; obtain ⟨rfl, rfl⟩ := h; exact ⟨l2, rfl, he2, ht2⟩, by intro _ _ h; simp at h⟩


/-! ### the heap the parser built is the hand model's schema (`absSchema` of `Enc`) -/

theorem absBase_toGoBase (b : BaseType) : absBase (toGoBase b) = some b := by
  obtain ⟨pr, st, mm, en, d⟩ := b
  cases pr with
  | none => rfl
  | some x => simp [absBase, toGoBase, primOfCode_codeOfPrim]

theorem absFT_toGoFT (ty : FType) : absFT (toGoFT ty) = some ty := by
  cases ty with
  | base b =>
    have := absBase_toGoBase b
    simp only [toGoFT, absFT]
    have h0 : (toGoBase b).array = none := rfl
    rw [h0]; simp [this]
  | array e d r =>
    have := absBase_toGoBase e
    simp [toGoFT, absFT, this]

theorem allSome_map_some {α β : Type} (f : α → Option β) (g : α → β) :
    ∀ (l : List α), (∀ x ∈ l, f x = some (g x)) → allSome (l.map f) = some (l.map g)
  | [], _ => rfl
  | a :: l, h => by
    simp only [List.map_cons, allSome, h a (by simp)]
    rw [allSome_map_some f g l (fun x hx => h x (by simp [hx]))]
    rfl

/-- the field pointers `b .. b+n-1` of a heap whose field cells at these places are `fs` -/
theorem absFields (H : Heap) (fs : List Field) :
    ∀ (done : List Field) (b : Nat), (∀ i (hi : i < (done ++ fs).length), H.fields[b + i]? = some (encField (done ++ fs)[i])) →
      ∀ (rest : List Field), fs = rest → allSome ((encPtrs (b + done.length) rest.length).map (absField H)) = some rest := by
  intro done b h rest hr
  subst hr
  induction fs generalizing done with
  | nil => rfl
  | cons f fs ih =>
    simp only [List.length_cons, encPtrs, List.map_cons]
    have hf := h done.length (by simp)
    simp only [List.getElem_append_right (Nat.le_refl _), Nat.sub_self, List.getElem_cons_zero] at hf
    have : absField H (some (b + done.length)) = some f := by
      simp only [absField, derefL, hf, encField, absFT_toGoFT, Option.map_some]
    simp only [allSome, this]
    have ih' := ih (done ++ [f]) (by simpa using h)
    simp only [List.length_append, List.length_cons, List.length_nil] at ih'
    rw [show b + done.length + 1 = b + (done.length + 0 + 1) by omega, ih']
    rfl

theorem absStructs (H : Heap) : ∀ (ss : List Struct) (SP : List GStruct) (FP : List GStructField) (FS : List GStructField),
    H.structs = SP ++ encStructs FP.length ss → H.fields = FP ++ allFields ss ++ FS →
    allSome ((encNames SP.length (ss.map (·.name))).map (absStruct H)) = some ss
  | [], _, _, _, _, _ => rfl
  | s :: ss, SP, FP, FS, hs, hf => by
    simp only [List.map_cons, encNames, allSome]
    have hcell : H.structs[SP.length]? = some (encStructCell FP.length s) := by
      rw [hs]; simp [encStructs]
    have hfl : ∀ i (hi : i < ([] ++ s.fields).length), H.fields[FP.length + i]? = some (encField ([] ++ s.fields)[i]) := by
      intro i hi
      simp only [List.nil_append] at hi ⊢
      rw [hf]
      simp [allFields, List.getElem?_append_right, hi, List.getElem?_append_left]
    have hfields := absFields H s.fields [] FP.length hfl s.fields rfl
    simp only [List.length_nil, Nat.add_zero] at hfields
    have : absStruct H (s.name, some SP.length) = some s := by
      simp only [absStruct, derefL, hcell, encStructCell, hfields, Option.map_some]
    have ih := absStructs H ss (SP ++ [encStructCell FP.length s]) (FP ++ s.fields.map encField) FS
      (by rw [hs]; simp [encStructs]) (by rw [hf]; simp [allFields])
    simp only [List.length_append, List.length_cons, List.length_nil, Nat.zero_add] at ih
    simp only [this, allSome, ih]
    rfl

theorem absNamed {α γ : Type} (enc : α → γ) (nm : α → Name) (abs : List γ → (Name × Ptr) → Option α)
    (h : ∀ (pre : List γ) (x : α) (post : List γ), abs (pre ++ enc x :: post) (nm x, some pre.length) = some x) :
    ∀ (xs : List α) (pre : List γ), allSome ((encNames pre.length (xs.map nm)).map (abs (pre ++ xs.map enc))) = some xs
  | [], _ => rfl
  | x :: xs, pre => by
    simp only [List.map_cons, encNames, allSome, h pre x (xs.map enc)]
    have ih := absNamed enc nm abs h xs (pre ++ [enc x])
    simp only [List.length_append, List.length_cons, List.length_nil, Nat.zero_add, List.append_assoc, List.singleton_append] at ih
    rw [ih]
    rfl

/-- **absSchema ∘ Enc = id**: what `ResolveRefs` sees is the hand model's schema -/
theorem absSchema_enc (p : P) (σ : Schema) (hE : Enc p σ) : absSchema p = some σ := by
  obtain ⟨hh, hs⟩ := hE
  obtain ⟨pkg, ss, ms, es⟩ := σ
  have h1 := absStructs (encHeap ⟨pkg, ss, ms, es⟩) ss [] [] [] (by simp [encHeap]) (by simp [encHeap])
  have h2 := absNamed encMultimap (·.name)
    (fun l e => absMultimap { structs := encStructs 0 ss, fields := allFields ss, multimaps := l, enums := es.map encEnum } e)
    (by
      intro pre x post
      simp [absMultimap, derefL, encMultimap, absFT_toGoFT]) ms []
  have h3 := absNamed encEnum (·.name)
    (fun l e => absEnum { structs := encStructs 0 ss, fields := allFields ss, multimaps := ms.map encMultimap, enums := l } e)
    (by
      intro pre x post
      obtain ⟨n, fl⟩ := x
      simp [absEnum, derefL, encEnum]
      induction fl with
      | nil => rfl
      | cons a t ih => simp [ih]) es []
  simp only [List.length_nil, List.nil_append] at h1 h2 h3
  simp only [absSchema, hs, hh, encSchema]
  simp only [encHeap] at h1 ⊢
  rw [h1, h2, h3]


/-! ### the declaration loop of `Parse` -/

/-- one definition of the hand model's `parseDefs` -/
def handDef (σ : Schema) (ts : List Token) : PR Schema :=
  match (cur ts).tok with
  | .kw .struct => Idl.parseStruct false σ ts
  | .kw .oneof => Idl.parseStruct true σ ts
  | .kw .multimap => Idl.parseMultimap σ ts
  | .kw .enum => Idl.parseEnum σ ts
  | _ => .err (cur ts).pos .expectedDef

/-- `for p.lexer.Token() != tEOF { .. }` in the hand model: `parseDefs` entered only when the token is not EOF -/
def handDefs (n : Nat) (σ : Schema) (ts : List Token) : PR Schema :=
  if (cur ts).tok = .eof then .ok σ ts else Idl.parseDefs n σ ts

theorem parseDefs_succ (n : Nat) (σ : Schema) (ts : List Token) :
    Idl.parseDefs (n + 1) σ ts = match handDef σ ts with
      | .err p c => .err p c
      | .ok σ' ts' => handDefs n σ' ts' := by
  unfold Idl.parseDefs handDef handDefs
  rfl

theorem handDef_fine {ts : List Token} (σ : Schema) (h : WFS ts) : (handDef σ ts).Fine (adv ts) := by
  unfold handDef
  split
  · exact parseStruct_fine false σ h
  · exact parseStruct_fine true σ h
  · exact parseMultimap_fine σ h
  · exact parseEnum_fine σ h
  · simp [PR.Fine]

theorem handDefs_fuel : ∀ (f1 f2 : Nat) (σ : Schema) (ts : List Token),
    WFS ts → ts.length < f1 → ts.length < f2 → handDefs f1 σ ts = handDefs f2 σ ts
  | 0, _, σ, ts, h, h1, _ => by omega
  | _ + 1, 0, σ, ts, h, _, h2 => by omega
  | f1 + 1, f2 + 1, σ, ts, h, h1, h2 => by
    unfold handDefs
    split
    · rfl
    · rename_i hne
      rw [parseDefs_succ, parseDefs_succ]
      have hf := handDef_fine σ h
      cases hd : handDef σ ts with
      | err p c => rfl
      | ok σ' ts' =>
        have k := hf.ok_of hd
        have hlt := adv_len_lt h hne
        exact handDefs_fuel f1 f2 σ' ts' k.1 (by omega) (by omega)

theorem c_Struct : IsCode c_tStruct (.kw .struct) := isCode_kw .struct
theorem c_Oneof : IsCode c_tOneof (.kw .oneof) := isCode_kw .oneof
theorem c_Multimap : IsCode c_tMultimap (.kw .multimap) := isCode_kw .multimap
theorem c_Enum : IsCode c_tEnum (.kw .enum) := isCode_kw .enum

/-- one round of the loop of `Parse` -/
def defStep (p : P) : Res (ForInStep (Option Err × Unit)) :=
  if (!(p.lexer.token != c_tEOF)) = true then .ok (.done (none, ())) p
  else
    let jp : Err → P → Res (ForInStep (Option Err × Unit)) := fun e p' =>
      if e.isSome then .ok (.done (some e, ())) p' else .ok (.yield (none, ())) p'
    if (p.lexer.token == c_tStruct) = true then
      match (Gen.ParseFlow.parseStruct false).run p with
      | .ok x p' => jp x.2 p'
      | .stuck => .stuck
      | .panic g => .panic g
    else if (p.lexer.token == c_tOneof) = true then
      match Gen.ParseFlow.parseOneof.run p with
      | .ok e p' => jp e p'
      | .stuck => .stuck
      | .panic g => .panic g
    else if (p.lexer.token == c_tMultimap) = true then
      match Gen.ParseFlow.parseMultimap.run p with
      | .ok e p' => jp e p'
      | .stuck => .stuck
      | .panic g => .panic g
    else if (p.lexer.token == c_tEnum) = true then
      match Gen.ParseFlow.parseEnum.run p with
      | .ok e p' => jp e p'
      | .stuck => .stuck
      | .panic g => .panic g
    else .ok (.done (some (mkErr (Msg.lit "expected struct, oneof or multimap") p), ())) p

/-- the definition the current token starts, on the regenerated parser -/
theorem defStep_run (p : P) (σ : Schema) (he : p.lexer.isError = false) (hE : Enc p σ)
    (hne : (observe p.lexer).tok ≠ .eof) :
    (∀ σ' ts, handDef σ (toks p.lexer) = .ok σ' ts →
      ∃ l', defStep p = .ok (.yield (none, ())) { p with lexer := l', heap := encHeap σ', schema := some (encSchema σ') } ∧
        l'.isError = false ∧ toks l' = ts) ∧
    (∀ pos c, handDef σ (toks p.lexer) = .err pos c →
      ∃ e p', defStep p = .ok (.done (some e, ())) p' ∧ IsErr e p' pos c) := by
  have hneof : ¬ p.lexer.token = c_tEOF := fun h => hne ((tokOf_eof_iff _ _ _).2 h)
  have hb : (!(p.lexer.token != c_tEOF)) = false := by simpa using hneof
  unfold defStep handDef
  simp only [hb, Bool.false_eq_true, if_false, cur_toks]
  by_cases h1 : p.lexer.token = c_tStruct
  · have hobs := (tok_eq_code c_Struct p.lexer).2 h1
    have S := parseStruct_run p σ false he hE hne
    simp only [hobs, h1, beq_self_eq_true, if_true]
    constructor
    · intro σ' ts h
      obtain ⟨l', r, he', ht', _⟩ := S.1 σ' ts h
      simp only [r, Option.isSome_none, Bool.false_eq_true, if_false]
      exact ⟨l', rfl, he', ht'⟩
    · intro pos c h
      obtain ⟨v, e, p', r, ie⟩ := S.2 pos c h
      simp only [r, ie.isSome, if_true]
      exact ⟨_, _, rfl, ie⟩
  have d1 : (p.lexer.token == c_tStruct) = false := by simpa using h1
  have n1 : ¬ (observe p.lexer).tok = .kw .struct := fun h => h1 ((tok_eq_code c_Struct _).1 h)
  simp only [d1, Bool.false_eq_true, if_false]
  by_cases h2 : p.lexer.token = c_tOneof
  · have hobs := (tok_eq_code c_Oneof p.lexer).2 h2
    have S := parseOneof_run p σ he hE hne
    simp only [hobs, h2, beq_self_eq_true, if_true]
    constructor
    · intro σ' ts h
      obtain ⟨l', r, he', ht'⟩ := S.1 σ' ts h
      simp only [r, Option.isSome_none, Bool.false_eq_true, if_false]
      exact ⟨l', rfl, he', ht'⟩
    · intro pos c h
      obtain ⟨e, p', r, ie⟩ := S.2 pos c h
      simp only [r, ie.isSome, if_true]
      exact ⟨_, _, rfl, ie⟩
  have d2 : (p.lexer.token == c_tOneof) = false := by simpa using h2
  have n2 : ¬ (observe p.lexer).tok = .kw .oneof := fun h => h2 ((tok_eq_code c_Oneof _).1 h)
  simp only [d2, Bool.false_eq_true, if_false]
  by_cases h3 : p.lexer.token = c_tMultimap
  · have hobs := (tok_eq_code c_Multimap p.lexer).2 h3
    have S := parseMultimap_run p σ he hE hne
    simp only [hobs, h3, beq_self_eq_true, if_true]
    constructor
    · intro σ' ts h
      obtain ⟨l', r, he', ht'⟩ := S.1 σ' ts h
      simp only [r, Option.isSome_none, Bool.false_eq_true, if_false]
      exact ⟨l', rfl, he', ht'⟩
    · intro pos c h
      obtain ⟨e, p', r, ie⟩ := S.2 pos c h
      simp only [r, ie.isSome, if_true]
      exact ⟨_, _, rfl, ie⟩
  have d3 : (p.lexer.token == c_tMultimap) = false := by simpa using h3
  have n3 : ¬ (observe p.lexer).tok = .kw .multimap := fun h => h3 ((tok_eq_code c_Multimap _).1 h)
  simp only [d3, Bool.false_eq_true, if_false]
  by_cases h4 : p.lexer.token = c_tEnum
  · have hobs := (tok_eq_code c_Enum p.lexer).2 h4
    have S := parseEnum_run p σ he hE hne
    simp only [hobs, h4, beq_self_eq_true, if_true]
    constructor
    · intro σ' ts h
      obtain ⟨l', r, he', ht'⟩ := S.1 σ' ts h
      simp only [r, Option.isSome_none, Bool.false_eq_true, if_false]
      exact ⟨l', rfl, he', ht'⟩
    · intro pos c h
      obtain ⟨e, p', r, ie⟩ := S.2 pos c h
      simp only [r, ie.isSome, if_true]
      exact ⟨_, _, rfl, ie⟩
  have d4 : (p.lexer.token == c_tEnum) = false := by simpa using h4
  have n4 : ¬ (observe p.lexer).tok = .kw .enum := fun h => h4 ((tok_eq_code c_Enum _).1 h)
  simp only [d4, Bool.false_eq_true, if_false]
  have ie := perror_isErr (Msg.lit "expected struct, oneof or multimap") p .expectedDef rfl
  simp only [cur_toks] at ie
  have hm : (match (observe p.lexer).tok with
      | .kw .struct => Idl.parseStruct false σ (toks p.lexer)
      | .kw .oneof => Idl.parseStruct true σ (toks p.lexer)
      | .kw .multimap => Idl.parseMultimap σ (toks p.lexer)
      | .kw .enum => Idl.parseEnum σ (toks p.lexer)
      | _ => PR.err (observe p.lexer).pos .expectedDef) = PR.err (observe p.lexer).pos .expectedDef := by
    split
    · rename_i h; exact (n1 h).elim
    · rename_i h; exact (n2 h).elim
    · rename_i h; exact (n3 h).elim
    · rename_i h; exact (n4 h).elim
    · rfl
  try rw [hm]
  exact ⟨by intro _ _ h; simp at h, by intro _ _ h; simp at h; obtain ⟨rfl, rfl⟩ := h; exact ⟨_, _, rfl, ie⟩⟩


/-! ### `Parse` -/

/-- what the declaration loop of `Parse` returns, against the hand model's `parseDefs` -/
def DefSpec (p : P) (σ : Schema) (n : Nat) (R : Res (Option Err × Unit)) : Prop :=
  (∀ σ' ts, handDefs n σ (toks p.lexer) = .ok σ' ts →
    ∃ l', R = .ok (none, ()) { p with lexer := l', heap := encHeap σ', schema := some (encSchema σ') } ∧
      l'.isError = false ∧ toks l' = ts) ∧
  (∀ pos c, handDefs n σ (toks p.lexer) = .err pos c → ∃ e p', R = .ok (some e, ()) p' ∧ IsErr e p' pos c)

theorem defLoop (f : Unit → Option Err × Unit → M (ForInStep (Option Err × Unit)))
    (hf : ∀ s p, (f () s).run p = defStep p) :
    ∀ (n : Nat) (p : P) (σ : Schema), p.lexer.isError = false → Enc p σ → (toks p.lexer).length < n →
      DefSpec p σ n ((loopN f n (none, ())).run p)
  | 0, p, σ, _, _, hn => by omega
  | n + 1, p, σ, he, hE, hn => by
    have hw := toks_wfs p.lexer
    unfold DefSpec handDefs
    rw [loopN_succ, hf]
    simp only [cur_toks]
    by_cases heof : (observe p.lexer).tok = .eof
    · have ht : p.lexer.token = c_tEOF := (tokOf_eof_iff _ _ _).1 heof
      simp only [heof, if_true, defStep, ht, bne_self_eq_false, Bool.not_false]
      refine ⟨?_, by intro _ _ h; simp at h⟩
      intro σ' ts h; simp at h; obtain ⟨rfl, rfl⟩ := h
      refine ⟨p.lexer, ?_, he, rfl⟩
      obtain ⟨lx, sc, fn, mg, hp, po⟩ := p
      obtain ⟨hh, hs⟩ := hE
      simp only at hh hs; subst hh hs; rfl
    · simp only [heof, if_false, parseDefs_succ]
      have D := defStep_run p σ he hE heof
      have hfine := handDef_fine σ hw
      have hlt := adv_len_lt hw (by rw [cur_toks]; exact heof)
      cases hd : handDef σ (toks p.lexer) with
      | err pos c =>
        obtain ⟨e, p', r, ie⟩ := D.2 pos c hd
        simp only [r]
        exact ⟨by intro _ _ h; simp at h, by intro _ _ h; simp at h; obtain ⟨rfl, rfl⟩ := h; exact ⟨_, _, rfl, ie⟩⟩
      | ok σ' ts' =>
        obtain ⟨l', r, he', ht'⟩ := D.1 σ' ts' hd
        have k := hfine.ok_of hd
        simp only [r]
        have IH := defLoop f hf n { p with lexer := l', heap := encHeap σ', schema := some (encSchema σ') } σ' he'
          ⟨rfl, rfl⟩ (by simp only [ht']; omega)
        simp only [DefSpec, ht'] at IH
        exact IH

theorem schemaResolveRefs_run (p : P) (σ : Schema) (hE : Enc p σ) :
    schemaResolveRefs.run p = match Idl.resolveRefs σ with
      | .error c => .ok (some (.resolve c)) p
      | .ok σ1 => match Idl.computeRecursive σ1 with
        | .error site => .panic (.schema site)
        | .ok σ2 => .ok none { p with post := some σ2 } := by
  simp only [schemaResolveRefs, absSchema_enc p σ hE]
  cases Idl.resolveRefs σ with
  | error c => rfl
  | ok σ1 =>
    simp only []
    cases Idl.computeRecursive σ1 <;> rfl

/-- **Parse = Idl.parseTokens**: the regenerated `Parse()` on a parser object whose lexer stands for the token
    list `toks p.lexer` returns what the hand model returns for that token list -/
theorem parse_run (p : P) (he : p.lexer.isError = false) (hheap : p.heap = {}) :
    outcomeOf (Gen.ParseFlow.parse.run p) = Idl.parseTokens (toks p.lexer) := by
  obtain ⟨lx, sc, fn, mg, hp, po⟩ := p
  simp only at he hheap
  subst hheap
  unfold Gen.ParseFlow.parse Idl.parseTokens Idl.grammar
  rsimp []
  have PK := parsePackage_run ⟨lx, some { structs := GoMap.empty, multimaps := GoMap.empty, enums := GoMap.empty }, fn, mg, {}, po⟩
    _ he rfl
  cases hpk : Idl.parsePackage (toks lx) with
  | err pos c =>
    obtain ⟨e, p', r, ie⟩ := PK.2 pos c hpk
    simp only [r, ie.isSome, if_true]
    obtain ⟨x, rfl, hx⟩ := ie
    simp [outcomeOf, hx]
  | ok pkg ts1 =>
    obtain ⟨l1, r, he1, ht1⟩ := PK.1 pkg ts1 hpk
    simp only [r, Option.isSome_none, Bool.false_eq_true, if_false]
    subst ht1
    simp only [cur_toks]
    have hl := toks_len l1
    have hhd : (if (observe l1).tok = Tok.eof then PR.ok ({ pkg := pkg } : Schema) (toks l1)
        else Idl.parseDefs ((toks l1).length + 1) { pkg := pkg } (toks l1)) =
        handDefs (l1.input.length + 4) { pkg := pkg } (toks l1) := by
      rw [← handDefs_fuel ((toks l1).length + 1) _ _ _ (toks_wfs _) (by omega) (by omega)]
      simp only [handDefs, cur_toks]
    rw [hhd]
    generalize hR : (loopN _ _ _).run _ = R
    have hE0 : Enc (⟨l1, some { packageName := pkg, structs := GoMap.empty, multimaps := GoMap.empty, enums := GoMap.empty },
        fn, mg, {}, po⟩ : P) { pkg := pkg } := ⟨rfl, rfl⟩
    have hspec : DefSpec ⟨l1, some { packageName := pkg, structs := GoMap.empty, multimaps := GoMap.empty, enums := GoMap.empty },
        fn, mg, {}, po⟩ { pkg := pkg } (l1.input.length + 4) R := by
      rw [← hR]
      refine defLoop _ ?_ _ _ _ he1 hE0 (by simp only []; omega)
      intro s p
      simp only [bind_run, curToken_run, ite_run, perror_run, pure_run, defStep]
      by_cases h0 : (!(p.lexer.token != c_tEOF)) = true
      · simp only [h0, if_true]
      · simp only [h0, if_false, Bool.false_eq_true]
        by_cases h1 : (p.lexer.token == c_tStruct) = true
        · simp only [h1, if_true]
          cases (Gen.ParseFlow.parseStruct false).run p <;> rfl
        simp only [h1, if_false, Bool.false_eq_true]
        by_cases h2 : (p.lexer.token == c_tOneof) = true
        · simp only [h2, if_true]
          cases Gen.ParseFlow.parseOneof.run p <;> rfl
        simp only [h2, if_false, Bool.false_eq_true]
        by_cases h3 : (p.lexer.token == c_tMultimap) = true
        · simp only [h3, if_true]
          cases Gen.ParseFlow.parseMultimap.run p <;> rfl
        simp only [h3, if_false, Bool.false_eq_true]
        by_cases h4 : (p.lexer.token == c_tEnum) = true
        · simp only [h4, if_true]
          cases Gen.ParseFlow.parseEnum.run p <;> rfl
        simp only [h4, if_false, Bool.false_eq_true]
    simp only [DefSpec] at hspec
    cases hdl : handDefs (l1.input.length + 4) { pkg := pkg } (toks l1) with
    | err pos c =>
      obtain ⟨e, p', rR, ie⟩ := hspec.2 pos c hdl
      obtain ⟨x, rfl, hx⟩ := ie
      simp [rR, pure_run, outcomeOf, hx]
    | ok σ ts2 =>
      obtain ⟨l2, rR, he2, ht2⟩ := hspec.1 σ ts2 hdl
      simp only [rR, bind_run]
      rw [schemaResolveRefs_run _ σ ⟨rfl, rfl⟩]
      subst ht2
      cases hrr : Idl.resolveRefs σ with
      | error c =>
        simp only [Option.isSome_some, ite_run, if_true, bind_run, errError, pure_run, perror_run]
        simp [outcomeOf, mkErr, classify, classifyMsg, cur_toks, observe]
      | ok σ1 =>
        simp only []
        cases hcr : Idl.computeRecursive σ1 with
        | error site => simp [outcomeOf]
        | ok σ2 =>
          simp only [Option.isSome_none, ite_run, Bool.false_eq_true, if_false, bind_run, schemaPruneUnused]
          cases hpu : Idl.pruneUnused σ2 with
          | none => simp [outcomeOf]
          | some σ3 => simp [outcomeOf, modP_run, pure_run]


/-- the lexer object `NewLexer(input)` returns stands for the hand model's token list of `input` -/
theorem newLexer_toks (input : List Char) :
    ∃ l, (LexFlowSem.call (newLexer input) : LexFlowSem.M Unit Unit).run {} = .next () l ∧ l.isError = false ∧
      toks l = lex input := by
  obtain ⟨l, h1, h2, h3, h4⟩ := newLexer_run (ρ := Unit) input {}
  refine ⟨l, h1, h3, ?_⟩
  have hs0 := LexSt.adv_mu_le { rest := input }
  have hm : mu ({ rest := input } : LexSt) = input.length + 1 := by simp [mu]
  have e : lex input = (if (nextTok (LexSt.adv { rest := input })).1.tok = .eof then [(nextTok (LexSt.adv { rest := input })).1]
      else (nextTok (LexSt.adv { rest := input })).1 :: lexLoop (input.length + 1) (nextTok (LexSt.adv { rest := input })).2) := by
    unfold lex
    show lexLoop (input.length + 1 + 1) _ = _
    rw [lexLoop]
  rw [e]
  unfold toks
  rw [h4, h2]
  by_cases hq : (nextTok (LexSt.adv { rest := input })).1.tok = .eof
  · simp only [hq, if_true]
  · have hlt := nextTok_mu_lt _ hq
    simp only [hq, if_false]
    rw [lexLoop_fuel (mu (nextTok (LexSt.adv { rest := input })).2 + 1) (input.length + 1) _ (by omega) (by omega)]

/-- **genParse2 = parse**: `idl.Parse` with the regenerated lexer AND the regenerated parser is the hand model,
    on every input -/
theorem genParse2_eq (input : List Char) : genParse2 input = parse input := by
  obtain ⟨l, h1, he, ht⟩ := newLexer_toks input
  simp only [genParse2, h1, parse]
  rw [parse_run _ he rfl]
  simp only [ht]


end Stef.Proofs.ParseFlowGen
