/-
  Stef.Proofs.FloatCodecGen: the float64 codec REGENERATED from go/pkg/codecs/float64.go
  (Stef/Gen/FloatCodec.lean, by extract/floatcodec.go: one Lean `let` / `if` per Go statement, Go `int`
  arithmetic wrapped at 64 bits, `uint64` as `BitVec 64`, panics as `none`) computes exactly what the
  hand model of Stef/Codec.lean says (`F64.encodeW`, `F64.decodeR`, the zero state). These proofs are
  the tie of the hand model to the source text: a change of `Float64Encoder.Encode` / `Reset` or of
  `Float64Decoder.Decode` / `Reset` that is not an equivalent rewriting either makes the generator
  fail or breaks a proof below.

  The proofs name the `let`-bound locals of the regenerated definitions in the order in which
  `extract_lets` meets them, so they also depend on the ORDER of the Go statements.
-/
import Stef.Gen.FloatCodec
import Stef.Proofs.Codec

namespace Stef.Proofs.FloatCodecGen
open Stef Stef.Codec Stef.FloatCodecSem Stef.Gen.FloatCodec

/-! ### encoder -/

/-- the regenerated encoder state that corresponds to a state of the hand model (`F64`), a
    writer and a count of accounted frame bits: exactly the states whose window fields are not
    negative (`encOf_surj`). -/
def encOf (c : F64) (w : BitsWriter) (lim : Nat) : Float64Encoder :=
  { buf := w, limiter := lim, lastVal := c.last, leadingBits := c.lead, trailingBits := c.trail }

/-- `uint64(n)` of a non-negative `int`. -/
theorem uintOfInt_nat (n : Nat) : uintOfInt (n : Int) = BitVec.ofNat 64 n := by
  unfold uintOfInt; exact BitVec.ofInt_natCast ..

theorem toNat_add_small (a n : Nat) (h : a + n < 2 ^ 64) :
    (BitVec.ofNat 64 a + BitVec.ofNat 64 n).toNat = a + n := by
  simp only [BitVec.toNat_add, BitVec.toNat_ofNat]; omega

/-- **Gen.encode = F64.encodeW**: for every state of the hand model, every writer and every value the
    regenerated `Encode` does not panic (neither `panic("unexpected")` nor a negative shift count is
    reached), leaves the state, the writer and the limiter that the hand model computes. No
    hypothesis on the window is needed: the previous window is only used under
    `leading >= prevLeading && trailing >= prevTrailing`, which bounds it by 31 / 63. -/
theorem encode_eq (c : F64) (w : BitsWriter) (lim : Nat) (v : Word) :
    (encOf c w lim).encode v =
      some (encOf (c.encodeW w v).1 (c.encodeW w v).2.1 (lim + (c.encodeW w v).2.2)) := by
  unfold Float64Encoder.encode
  extract_lets xorVal e1 eA eB lead0 lead31 leading trailing prevLeading prevTrailing sigbits eC bitCount eD eE eF eG
    bv0 bv1 bv2 eH eI eJ
  have hxv : xorVal = v ^^^ c.last := rfl
  by_cases hx : v ^^^ c.last = 0#64
  · have : (xorVal == 0#64) = true := by rw [hxv, hx]; rfl
    rw [if_pos this]
    simp [F64.encodeW, hx, eB, eA, e1, encOf]
  · have hne : ¬ (xorVal == 0#64) = true := by rw [hxv]; simpa using hx
    rw [if_neg hne]
    have hlz := lz_tz_le _ hx
    obtain ⟨L, hLdef⟩ : ∃ L, L = if lz (v ^^^ c.last) ≥ 32 then 31 else lz (v ^^^ c.last) := ⟨_, rfl⟩
    obtain ⟨t, htdef⟩ : ∃ t, t = tz (v ^^^ c.last) := ⟨_, rfl⟩
    have hL31 : L ≤ 31 := by rw [hLdef]; split <;> omega
    have hLt : L + t ≤ 63 := by rw [hLdef, htdef]; split <;> omega
    have hleading : leading = (L : Int) := by
      simp only [leading, lead0, lead31, hxv, hLdef]
      by_cases h : lz (v ^^^ c.last) ≥ 32
      · have h' : ((lz (v ^^^ c.last) : Nat) : Int) ≥ 32 := by omega
        simp [h, h']
      · have h' : ¬ ((lz (v ^^^ c.last) : Nat) : Int) ≥ 32 := by omega
        simp [h, h']
    have htrailing : trailing = (t : Int) := by simp only [trailing, hxv, htdef]
    have hpl : prevLeading = (c.lead : Int) := rfl
    have hpt : prevTrailing = (c.trail : Int) := rfl
    have hsig : sigbits = ((64 - L - t : Nat) : Int) := by
      simp only [sigbits, hleading, htrailing]; unfold isub wrapI; omega
    have hJ : (if decide (sigbits = 0) = true then none else if decide (trailing < 0) = true then none else some eJ)
        = some (encOf ⟨v, L, t⟩
            ((w.writeBits (((0b11#64 <<< 5 ||| BitVec.ofNat 64 L) <<< 6) ||| BitVec.ofNat 64 (64 - L - t - 1)) 13).writeBits
              ((v ^^^ c.last) >>> t) (64 - L - t))
            (lim + (13 + (64 - L - t)))) := by
      have g1 : ¬ decide (sigbits = 0) = true := by rw [hsig]; simp; omega
      have g2 : ¬ decide (trailing < 0) = true := by rw [htrailing]; simp
      rw [if_neg g1, if_neg g2]
      have e1' : isub ((64 - L - t : Nat) : Int) 1 = ((64 - L - t - 1 : Nat) : Int) := by unfold isub wrapI; omega
      simp only [eJ, eI, eH, eG, eF, e1, encOf, bv2, bv1, bv0, hsig, hleading, htrailing, hxv, e1', uintOfInt_nat,
        Int.toNat_natCast, writeBits, addFrameBits, ofNat_toNat_small _ (show 64 - L - t < 2 ^ 64 by omega),
        toNat_add_small 13 (64 - L - t) (by omega), show (13#64).toNat = 13 from rfl]
    rw [hJ]
    by_cases hw : L ≥ c.lead ∧ t ≥ c.trail ∧ 53 - (c.lead : Int) - (c.trail : Int) ≤ ((64 - L - t : Nat) : Int)
    · have g1 : (decide (leading ≥ prevLeading) && decide (trailing ≥ prevTrailing)) = true := by
        rw [hleading, htrailing, hpl, hpt]; simp; omega
      have g2 : decide (isub (isub 53 prevLeading) prevTrailing ≤ sigbits) = true := by
        rw [hpl, hpt, hsig]; unfold isub wrapI; simp; omega
      have g3 : ¬ decide (prevTrailing < 0) = true := by rw [hpt]; simp
      rw [if_pos g1, if_pos g2, if_neg g3]
      have hbc : isub (isub 64 (c.lead : Int)) (c.trail : Int) = ((64 - c.lead - c.trail : Nat) : Int) := by
        unfold isub wrapI; omega
      have hE : c.encodeW w v = ({ c with last := v },
          (w.writeBits 0b10#64 2).writeBits ((v ^^^ c.last) >>> c.trail) (64 - c.lead - c.trail),
          2 + (64 - c.lead - c.trail)) := by
        unfold F64.encodeW
        simp only [hx, ↓reduceIte, ← hLdef, ← htdef, hw, and_self]
      rw [hE]
      simp only [eE, eD, eC, e1, encOf, bitCount, hpl, hpt, hbc, hxv, uintOfInt_nat, Int.toNat_natCast, writeBits,
        addFrameBits, ofNat_toNat_small _ (show 64 - c.lead - c.trail < 2 ^ 64 by omega),
        toNat_add_small 2 (64 - c.lead - c.trail) (by omega), show (2#64).toNat = 2 from rfl]
    · have hE : c.encodeW w v = (⟨v, L, t⟩,
            ((w.writeBits (((0b11#64 <<< 5 ||| BitVec.ofNat 64 L) <<< 6) ||| BitVec.ofNat 64 (64 - L - t - 1)) 13).writeBits
              ((v ^^^ c.last) >>> t) (64 - L - t)), 13 + (64 - L - t)) := by
        unfold F64.encodeW
        simp only [hx, ↓reduceIte, ← hLdef, ← htdef, hw]
      rw [hE]
      by_cases g1 : (decide (leading ≥ prevLeading) && decide (trailing ≥ prevTrailing)) = true
      · have g2 : ¬ decide (isub (isub 53 prevLeading) prevTrailing ≤ sigbits) = true := by
          rw [hleading, htrailing, hpl, hpt] at g1
          rw [hpl, hpt, hsig]; unfold isub wrapI
          simp at g1 ⊢; omega
        rw [if_pos g1, if_neg g2]
      · rw [if_neg g1]

theorem encOf_surj (e : Float64Encoder) (h1 : 0 ≤ e.leadingBits) (h2 : 0 ≤ e.trailingBits) :
    e = encOf ⟨e.lastVal, e.leadingBits.toNat, e.trailingBits.toNat⟩ e.buf e.limiter := by
  cases e
  simp only [encOf, Float64Encoder.mk.injEq, true_and]
  exact ⟨(Int.toNat_of_nonneg h1).symm, (Int.toNat_of_nonneg h2).symm⟩

/-- **Gen.Float64Encoder.reset = the zero state of the hand model** (`ce reset` of the driver); the
    writer and the limiter are not touched. -/
theorem encoder_reset_eq (e : Float64Encoder) : e.reset = some (encOf {} e.buf e.limiter) := by
  rfl

/-- `IsEqual` is Go's float `==` against the last value (IEEE-754: `Stef.Flt.eq`). -/
theorem isEqual_eq (c : F64) (w : BitsWriter) (lim : Nat) (v : Word) :
    (encOf c w lim).isEqual v = Stef.Flt.eq c.last v := by
  rfl

/-- `IsEqual(val)` does NOT mean "`Encode(val)` writes the single identical bit": +0.0 == -0.0, but
    their bit patterns differ (so `IsEqual` must not be used as a fast path of `Encode`). -/
theorem isEqual_not_identical :
    (encOf {} {} 0).isEqual 0x8000000000000000#64 = true ∧ (0x8000000000000000#64 ^^^ (0#64 : Word)) ≠ 0#64 := by
  constructor
  · decide
  · decide

/-- the number the hand model hands to `AddFrameBits` is the number of bits it appends. -/
theorem encodeW_bits_count (c : F64) (w : BitsWriter) (v : Word) :
    (c.encodeW w v).2.2 = (c.encodeBits v).2.length := by
  unfold F64.encodeW F64.encodeBits
  by_cases hx : v ^^^ c.last = 0#64
  · simp [hx]
  · simp only [hx, ↓reduceIte]
    generalize v ^^^ c.last = x
    generalize (if lz x ≥ 32 then 31 else lz x) = L
    by_cases hw : L ≥ c.lead ∧ tz x ≥ c.trail ∧ 53 - (c.lead : Int) - (c.trail : Int) ≤ ((64 - L - tz x : Nat) : Int)
    · simp only [hw, and_self, ↓reduceIte]; simp [lowBits]; omega
    · simp only [hw, ↓reduceIte]; simp [lowBits]; omega

/-- a sequence of `Encode` calls (`none`: one of them panicked). -/
def encodeAll (e : Float64Encoder) : List Word → Option Float64Encoder
  | [] => some e
  | v :: vs => (e.encode v).bind (fun e' => encodeAll e' vs)

/-- the same sequence on the hand model: state, writer, accounted bits. -/
def encodeAllW (c : F64) (w : BitsWriter) (n : Nat) : List Word → F64 × BitsWriter × Nat
  | [] => (c, w, n)
  | v :: vs => encodeAllW (c.encodeW w v).1 (c.encodeW w v).2.1 (n + (c.encodeW w v).2.2) vs

theorem encodeAll_eq (c : F64) (w : BitsWriter) (lim : Nat) (vs : List Word) :
    encodeAll (encOf c w lim) vs =
      some (encOf (encodeAllW c w lim vs).1 (encodeAllW c w lim vs).2.1 (encodeAllW c w lim vs).2.2) := by
  induction vs generalizing c w lim with
  | nil => rfl
  | cons v vs ih => simp only [encodeAll, encode_eq, Option.bind_some, ih, encodeAllW]

/-- the hand model's sequence appends the specification's bits (from `f64_encodeW_spec`, `f64_step`). -/
theorem encodeAllW_spec (c : F64) (w : BitsWriter) (n : Nat) (vs : List Word) (hok : c.Ok) (hI : w.Inv) :
    (encodeAllW c w n vs).2.1.toBits = w.toBits ++ (F64.encodeAllBits c vs).2 ∧
    (encodeAllW c w n vs).1 = (F64.encodeAllBits c vs).1 ∧ (encodeAllW c w n vs).2.1.Inv ∧
    (encodeAllW c w n vs).1.Ok := by
  induction vs generalizing c w n with
  | nil => simp [encodeAllW, F64.encodeAllBits, hok, hI]
  | cons v vs ih =>
    obtain ⟨h1, h2, h3⟩ := f64_encodeW_spec c w v hok hI
    have hok' : (c.encodeW w v).1.Ok := by
      rw [h2]
      exact (f64_step c { fLast := c.last, fLead := c.lead, fTrail := c.trail } v [] hok ⟨rfl, rfl, rfl⟩).2.1
    obtain ⟨i1, i2, i3, i4⟩ := ih (c.encodeW w v).1 (c.encodeW w v).2.1 (n + (c.encodeW w v).2.2) hok' h3
    simp only [encodeAllW, F64.encodeAllBits]
    refine ⟨?_, ?_, i3, i4⟩
    · rw [i1, h1, h2, List.append_assoc]
    · rw [i2, h2]

/-! ### decoder -/

/-- the state of the hand model that a regenerated decoder state stands for (the Go fields are
    `uint64`; the hand model keeps the same numbers as `Nat`). -/
def toF64 (d : Float64Decoder) : F64 := ⟨d.lastVal, d.leadingBits.toNat, d.trailingBits.toNat⟩

/-- **Gen.decode = F64.decodeR** on every decoder state whose leading count fits its 5 header bits
    (`decode_leading_le`, `decoder_reset_eq`: every state reachable from `Reset`), every reader state
    and every header, hostile ones included (a wrapped trailing count, a shift by >= 64): new state,
    reader, value stored behind `dst`, and `Error() != nil`. `Decode` never panics.
    (For leadingBits + trailingBits > 2^64 + 64 the hand model's `sigOf` truncates where Go wraps
    twice; no header can produce such a state.) -/
theorem decode_eq (d : Float64Decoder) (dst : Word) (hl : d.leadingBits.toNat ≤ 31) :
    (d.decode dst).map (fun p => (toF64 p.1, p.1.buf, p.2.1, p.2.2)) =
      some (((toF64 d).decodeR d.buf).1, ((toF64 d).decodeR d.buf).2.1, ((toF64 d).decodeR d.buf).2.2,
            ((toF64 d).decodeR d.buf).2.1.err) := by
  unfold Float64Decoder.decode
  extract_lets r1 d1 hdr dA dstA zero dB leadB trailB sigB dC leadC sig0 sigC trailC dD dE
  rcases hp : d.buf.peekBits 13 with ⟨rp, h⟩
  have hr1 : r1 = (rp, h) := hp
  have hhdr : hdr = h := by simp only [hdr, hr1]
  have hd1 : d1 = { d with buf := rp } := by simp only [d1, hr1]
  have hc4096 : BitVec.ofNat 64 Gen.float64NonIdenticalBit = 4096#64 := rfl
  have hc2048 : BitVec.ofNat 64 Gen.float64NewLeadingTrailingBit = 2048#64 := rfl
  have hc1984 : BitVec.ofNat 64 Gen.float64LeadingBitMask = 1984#64 := rfl
  have hc63 : BitVec.ofNat 64 Gen.float64SigBitMask = 63#64 := rfl
  have hc6 : Gen.float64SigBitsCount = 6 := rfl
  unfold F64.decodeR
  simp only [toF64, hp, hc4096, hc2048, hc1984, hc63, hc6]
  by_cases hA : h &&& 4096#64 = 0#64
  · have : (hdr &&& 4096#64 == 0#64) = true := by rw [hhdr, hA]; rfl
    rw [if_pos this]
    simp only [hA, ↓reduceIte, Option.map, dA, dstA, hd1, consume, readerError]
    rfl
  · have : ¬ (hdr &&& 4096#64 == 0#64) = true := by rw [hhdr]; simpa using hA
    rw [if_neg this]
    simp only [hA, ↓reduceIte]
    by_cases hB : h &&& 2048#64 = 0#64
    · have : (hdr &&& 2048#64 == 0#64) = true := by rw [hhdr, hB]; rfl
      rw [if_pos this]
      simp only [hB, ↓reduceIte, Option.map]
      have hsig : sigB.toNat = sigOf d.leadingBits.toNat d.trailingBits.toNat := by
        have h1 := d.leadingBits.isLt
        have h2 := d.trailingBits.isLt
        simp only [sigB, leadB, trailB, dB, hd1, sigOf, BitVec.toNat_sub, BitVec.toNat_ofNat]
        omega
      simp only [dB, hd1, readBits, consume, readerError, float64frombits, float64bits, shl_eq, hsig, trailB,
        show (2#64).toNat = 2 from rfl]
    · have : ¬ (hdr &&& 2048#64 == 0#64) = true := by rw [hhdr]; simpa using hB
      rw [if_neg this]
      simp only [hB, ↓reduceIte, Option.map]
      have hs0 : (h &&& 63#64).toNat ≤ 63 := by
        rw [BitVec.toNat_and]; exact Nat.and_le_right
      have hsigC : sigC.toNat = (h &&& 63#64).toNat + 1 := by
        simp only [sigC, sig0, hhdr, BitVec.toNat_add, BitVec.toNat_ofNat]; omega
      have htr : trailC.toNat = (if ((h &&& 1984#64) >>> 6).toNat + ((h &&& 63#64).toNat + 1) ≤ 64
          then 64 - ((h &&& 1984#64) >>> 6).toNat - ((h &&& 63#64).toNat + 1)
          else 2 ^ 64 + 64 - ((h &&& 1984#64) >>> 6).toNat - ((h &&& 63#64).toNat + 1)) := by
        have h1 := ((h &&& 1984#64) >>> 6).isLt
        simp only [trailC, leadC, hhdr, BitVec.toNat_sub, hsigC, BitVec.toNat_ofNat]
        split <;> omega
      simp only [dE, dD, dC, hd1, readBits, consume, readerError, float64frombits, float64bits, shl_eq, hsigC, htr,
        leadC, hhdr, show (13#64).toNat = 13 from rfl]

/-- the leading count stored by `Decode` always fits the 5 bits it was read from. -/
theorem decode_leading_le (d : Float64Decoder) (dst : Word) (hl : d.leadingBits.toNat ≤ 31)
    (d' : Float64Decoder) (v : Word) (e : Bool) (h : d.decode dst = some (d', v, e)) :
    d'.leadingBits.toNat ≤ 31 := by
  have h0 := decode_eq d dst hl
  rw [h] at h0
  simp only [Option.map, Option.some.injEq, Prod.mk.injEq] at h0
  have h1 : d'.leadingBits.toNat = ((toF64 d).decodeR d.buf).1.lead := by rw [← h0.1]; rfl
  rw [h1]
  unfold F64.decodeR
  simp only
  split
  · exact hl
  · split
    · exact hl
    · show ((_ &&& BitVec.ofNat 64 Gen.float64LeadingBitMask) >>> Gen.float64SigBitsCount).toNat ≤ 31
      rw [BitVec.toNat_ushiftRight, BitVec.toNat_and, Nat.shiftRight_eq_div_pow]
      have : (BitVec.ofNat 64 Gen.float64LeadingBitMask).toNat = 1984 := rfl
      rw [this]
      have h2 : ∀ a : Nat, a &&& 1984 ≤ 1984 := fun a => Nat.and_le_right
      have h3 : Gen.float64SigBitsCount = 6 := rfl
      rw [h3]
      have := h2 ((d.buf.peekBits 13).2.toNat)
      omega

/-- `Float64Decoder.Reset` = the zero state of the hand model; the reader is not touched. -/
theorem decoder_reset_eq (d : Float64Decoder) :
    d.reset = some { buf := d.buf, lastVal := 0#64, leadingBits := 0#64, trailingBits := 0#64 } := by
  rfl

theorem decoder_reset_state (d d' : Float64Decoder) (h : d.reset = some d') :
    toF64 d' = {} ∧ d'.buf = d.buf ∧ d'.leadingBits.toNat ≤ 31 := by
  rw [decoder_reset_eq] at h
  cases h
  exact ⟨rfl, rfl, Nat.zero_le _⟩

end Stef.Proofs.FloatCodecGen
