/-
  Stef.Proofs.ChunkDrain: every run of positive-size reads on the chunk assembler reaches the
  end of the message source (progress measure), so everything the source holds is delivered.
-/
import Stef.Proofs.Chunk

namespace Stef.Chunk

/-- total number of bytes of a message list. -/
def msgBytes : List Msg → Nat
  | [] => 0
  | (b, _) :: rest => b.length + msgBytes rest

/-- progress measure of the assembler: unread bytes of the current chunk, bytes still in the
    source, and the number of messages still in the source (an empty chunk costs a message). -/
def Asm.mu (a : Asm) : Nat := (a.buf.length - a.readIndex) + msgBytes a.src + a.src.length

theorem recvChunk_measure {src : List Msg} {acc data : Bytes} {rest : List Msg}
    (h : recvChunk src acc = some (data, rest)) :
    data.length + msgBytes rest + rest.length < acc.length + msgBytes src + src.length := by
  induction src generalizing acc with
  | nil => simp [recvChunk] at h
  | cons m ms ih =>
    obtain ⟨b, e⟩ := m
    by_cases he : e
    · simp [recvChunk, he] at h
      obtain ⟨h1, h2⟩ := h
      subst h1; subst h2
      simp [msgBytes]
      omega
    · simp [recvChunk, he] at h
      have := ih h
      simp [msgBytes] at this ⊢
      omega

/-- a successful read of a positive size strictly decreases the measure. -/
theorem read_progress {a a' : Asm} {n : Nat} {out : Bytes} (hn : 0 < n)
    (h : a.read n = (a', some out)) : a'.mu < a.mu := by
  unfold Asm.read at h
  by_cases hc : a.readIndex ≥ a.buf.length
  · simp only [hc, if_true] at h
    cases hr : recvChunk a.src [] with
    | none => simp [hr] at h
    | some p =>
      obtain ⟨data, rest⟩ := p
      simp [hr] at h
      obtain ⟨h1, _⟩ := h
      subst h1
      have hm := recvChunk_measure hr
      simp [Asm.mu] at hm ⊢
      omega
  · simp only [hc, if_false] at h
    simp at h
    obtain ⟨h1, _⟩ := h
    subst h1
    simp [Asm.mu] at hc ⊢
    omega

/-- a run of `N` reads of size `k > 0` with `N` above the measure ends in the source's error. -/
theorem run_reaches_end (k : Nat) (hk : 0 < k) :
    ∀ (N : Nat) (a : Asm), a.mu < N → (a.run (List.replicate N k)).2.2 = true := by
  intro N
  induction N with
  | zero => intro a h; omega
  | succ N ih =>
    intro a h
    simp only [List.replicate_succ, Asm.run]
    cases hr : a.read k with
    | mk a' o =>
      cases o with
      | none => simp
      | some out =>
        have hp := read_progress hk hr
        have := ih a' (by omega)
        simp only []
        exact this

end Stef.Chunk
