/-
  Register-level `BitsReader.ReadUvarintCompact` (peek 56 bits, count leading zeros, look up shift /
  mask / consume count in the regenerated Go READ tables) refines the specification's reader
  (`Spec.readUvc`: unary prefix, then the payload) at every reachable reader state.
-/
import Stef.Proofs.BitReader
import Stef.Proofs.Uvc

namespace Stef
namespace BitsReader
open Stef.Spec

theorem readBits_none_of_short (n : Nat) (bs : Bits) (h : bs.length < n) : Spec.readBits n bs = none := by
  unfold Spec.readBits
  suffices ∀ (m : Nat) (l : Bits) (acc : Word), l.length < m → readBitsAux m l acc = none from this n bs _ h
  intro m
  induction m with
  | zero => intro l acc hl; omega
  | succ m ih =>
    intro l acc hl
    cases l with
    | nil => simp [readBitsAux]
    | cons b l => simp only [readBitsAux]; exact ih l _ (by simpa using hl)

theorem countZeros_inv : ∀ (f : Nat) (bs : Bits) (acc k : Nat) (rest : Bits),
    countZeros f bs acc = some (k, rest) →
    ∃ j, k = acc + j ∧ j < f ∧ bs = List.replicate j false ++ true :: rest := by
  intro f
  induction f with
  | zero => intro bs acc k rest h; simp [countZeros] at h
  | succ f ih =>
    intro bs acc k rest h
    cases bs with
    | nil => simp [countZeros] at h
    | cons b bs =>
      cases b with
      | true =>
        simp only [countZeros, Option.some.injEq, Prod.mk.injEq] at h
        exact ⟨0, by omega, by omega, by simp [h.2]⟩
      | false =>
        simp only [countZeros] at h
        obtain ⟨j, hj1, hj2, hj3⟩ := ih bs (acc + 1) k rest h
        exact ⟨j + 1, by omega, by omega, by simp [List.replicate_succ, hj3]⟩

theorem clz_of_bounds (w : Word) (c : Nat) (hc : c < 64) (hlo : 2 ^ (63 - c) ≤ w.toNat)
    (hhi : w.toNat < 2 ^ (64 - c)) : w.clz.toNat = c := by
  have hne : w ≠ 0#64 := by
    intro h; rw [h] at hlo
    have := Nat.two_pow_pos (63 - c)
    simp at hlo
  have hlt : w.clz.toNat < 64 := by
    have := (BitVec.clz_lt_iff_ne_zero (x := w)).2 hne
    simpa [BitVec.lt_def] using this
  have h1 := BitVec.toNat_lt_two_pow_sub_clz (x := w)
  have h2 := BitVec.two_pow_sub_clz_le_toNat_of_ne_zero (x := w) (by omega) hne
  have a : 2 ^ (63 - c) < 2 ^ (64 - w.clz.toNat) := Nat.lt_of_le_of_lt hlo h1
  have b : 2 ^ (64 - 1 - w.clz.toNat) < 2 ^ (64 - c) := Nat.lt_of_le_of_lt h2 hhi
  have a' := (Nat.pow_lt_pow_iff_right (by omega : 1 < 2)).1 a
  have b' := (Nat.pow_lt_pow_iff_right (by omega : 1 < 2)).1 b
  omega

/-- the 56-bit peek window whose bits start with `k` zeros and a one has `8 + k` leading zeros -/
theorem window56_clz (buf : Bytes) (pos k : Nat) (hk : k < 8)
    (hz : ∀ j, j < k → bitAt buf (pos + j) = false) (h1 : bitAt buf (pos + k) = true) :
    (window buf pos 56).clz.toNat = 8 + k := by
  apply clz_of_bounds _ _ (by omega)
  · have hb : (window buf pos 56).getLsbD (55 - k) = true := by
      rw [window_getLsbD _ _ _ _ (by omega)]
      have e : pos + (56 - 1 - (55 - k)) = pos + k := by omega
      simp [e, h1]; omega
    have e2 : 63 - (8 + k) = 55 - k := by omega
    rw [e2]
    rw [BitVec.getLsbD] at hb
    exact Nat.ge_two_pow_of_testBit hb
  · have e2 : 64 - (8 + k) = 56 - k := by omega
    rw [e2, BitVec.toNat_lt_iff_getLsbD_eq_false (56 - k) (by omega)]
    intro i
    by_cases h64 : 56 - k + i < 64
    · rw [window_getLsbD _ _ _ _ h64]
      by_cases h56 : 56 - k + i < 56
      · have e : pos + (56 - 1 - (56 - k + i)) = pos + (k - 1 - i) := by omega
        simp only [h56, decide_true, Bool.true_and, e]
        exact hz _ (by omega)
      · simp [h56]
    · exact BitVec.getLsbD_of_ge _ _ (by omega)

/-- the read tables on class `k` -/
theorem read_tables (k p : Nat) (hk : k < 8) (hp : uvcPayload k = some p) :
    Gen.readConsumeCountByZeros (8 + k) = k + 1 + p ∧
    Gen.readShiftByZeros (8 + k) = 56 - (k + 1 + p) ∧
    Gen.readMaskByZeros (8 + k) = BitVec.ofNat 64 (2 ^ p - 1) := by
  have h := Uvc.read_tables_ok k (by simp; omega)
  unfold Uvc.readClassOk at h
  rw [hp] at h
  simp only [Bool.and_eq_true, beq_iff_eq] at h
  exact ⟨h.1.1, h.1.2, h.2⟩

theorem uvcPayload_le (k p : Nat) (hp : uvcPayload k = some p) : k < 8 ∧ k + 1 + p ≤ 56 ∧ p ≤ 48 := by
  unfold uvcPayload at hp
  split at hp <;> simp at hp <;> omega

theorem mask_getLsbD (p j : Nat) (hp : p ≤ 48) (hj : j < 64) :
    (BitVec.ofNat 64 (2 ^ p - 1)).getLsbD j = decide (j < p) := by
  rw [BitVec.getLsbD_ofNat]
  simp only [hj, decide_true, Bool.true_and]
  rw [Nat.testBit_two_pow_sub_one]

/-- **refinement of ReadUvarintCompact**: at every reachable reader state, if the specification's
    reader decodes a UvarintCompact from the buffer's bits at `pos`, the Go reader returns the same
    value, consumes the same number of bits and reports no error. -/
theorem readUvarintCompact_refines (r : BitsReader) (pos : Nat) (hI : RInv r pos) (x : Word) (rest' : Bits)
    (h : readUvc ((bytesBits r.buf).drop pos) = some (x, rest')) :
    (r.readUvarintCompact).2 = x ∧
    ∃ n, rest' = (bytesBits r.buf).drop (pos + n) ∧ RInv (r.readUvarintCompact).1 (pos + n) ∧
      (r.readUvarintCompact).1.err = false := by
  unfold readUvc at h
  cases hcz : countZeros 8 ((bytesBits r.buf).drop pos) 0 with
  | none => rw [hcz] at h; cases h
  | some kr =>
    obtain ⟨k, rest1⟩ := kr
    rw [hcz] at h
    simp only at h
    cases hpk : uvcPayload k with
    | none => rw [hpk] at h; cases h
    | some p =>
      rw [hpk] at h
      simp only at h
      obtain ⟨j, hj1, hj2, hbs⟩ := countZeros_inv 8 _ 0 k rest1 hcz
      have hkj : k = j := by omega
      subst hkj
      obtain ⟨hk8, hkp, hp48⟩ := uvcPayload_le k p hpk
      -- bit facts from the shape of the bit list
      have hlen : pos + (k + 1 + rest1.length) = 8 * r.buf.length := by
        have := congrArg List.length hbs
        simp only [List.length_drop, List.length_append, List.length_replicate, List.length_cons,
          bytesBits_length] at this
        have hpos : pos < 8 * r.buf.length := by
          rcases Nat.lt_or_ge pos (8 * r.buf.length) with hh | hh
          · exact hh
          · have : (List.drop pos (bytesBits r.buf)) = [] := List.drop_of_length_le (by rw [bytesBits_length]; exact hh)
            rw [this] at hbs; simp at hbs
        omega
      have hbit : ∀ i, i < k + 1 + rest1.length →
          bitAt r.buf (pos + i) = (List.replicate k false ++ true :: rest1).getD i false := by
        intro i hi
        rw [bitAt_eq_bytesBits, ← hbs, List.getD_eq_getElem?_getD, List.getD_eq_getElem?_getD, List.getElem?_drop]
      have hz : ∀ i, i < k → bitAt r.buf (pos + i) = false := by
        intro i hi
        rw [hbit i (by omega), getD_append_left' _ _ _ (by simp; exact hi)]
        simp [List.getD_eq_getElem?_getD, List.getElem?_replicate, hi]
      have h1 : bitAt r.buf (pos + k) = true := by
        rw [hbit k (by omega), getD_append_right' _ _ _ (by simp)]
        simp
      -- the spec's payload
      have hpl : p ≤ rest1.length := by
        rcases Nat.lt_or_ge rest1.length p with hh | hh
        · rw [readBits_none_of_short p rest1 hh] at h; cases h
        · exact hh
      rw [spec_readBits_take p rest1 hpl] at h
      simp only [Option.some.injEq, Prod.mk.injEq] at h
      obtain ⟨hx, hrest⟩ := h
      have hrest1 : rest1 = (bytesBits r.buf).drop (pos + (k + 1)) := by
        rw [← List.drop_drop, hbs]
        have e : List.replicate k false ++ true :: rest1 = (List.replicate k false ++ [true]) ++ rest1 := by simp
        rw [e, List.drop_left' (by simp)]
      have hin : pos + (k + 1) + p ≤ 8 * r.buf.length := by omega
      have hxw : x = window r.buf (pos + (k + 1)) p := by
        rw [window_eq_take_drop _ _ _ hin, ← hrest1, hx]
      -- the Go side
      obtain ⟨hb, hok, heof⟩ := peekBits_spec r pos 56 hI (Nat.le_refl _)
      have he : (r.peekBits 56).1.eof = false := by
        cases hc : (r.peekBits 56).1.eof with
        | false => rfl
        | true =>
          obtain ⟨hl1, hl2⟩ := heof hc
          rcases hI.posn with ⟨_, q2, q3, q4, q5⟩ | ⟨_, q2, q3, q4⟩ <;> omega
      obtain ⟨hR, hav, hv⟩ := hok he
      have hclz := window56_clz r.buf pos k hk8 hz h1
      obtain ⟨t1, t2, t3⟩ := read_tables k p hk8 hpk
      unfold readUvarintCompact
      simp only [hv, hclz, t1, t2, t3]
      have hR' := consume_spec _ pos (k + 1 + p) hR (by omega)
      refine ⟨?_, k + 1 + p, ?_, hR', ?_⟩
      · rw [hxw]
        apply BitVec.eq_of_getLsbD_eq
        intro i hi
        rw [BitVec.getLsbD_and, BitVec.getLsbD_ushiftRight, mask_getLsbD p i (by omega) hi,
          window_getLsbD _ _ _ _ hi]
        by_cases hip : i < p
        · have hlt : 56 - (k + 1 + p) + i < 64 := by omega
          rw [window_getLsbD _ _ _ _ hlt]
          have h56 : 56 - (k + 1 + p) + i < 56 := by omega
          have e : pos + (56 - 1 - (56 - (k + 1 + p) + i)) = pos + (k + 1) + (p - 1 - i) := by omega
          simp [hip, h56, e]
        · simp [hip]
      · rw [← hrest, hrest1, List.drop_drop]
        congr 1; omega
      · apply (err_iff _ _ hR').2
        rw [consume_buf, hb]; omega
