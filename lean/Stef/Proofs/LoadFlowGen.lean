/-
  Stef.Proofs.LoadFlowGen: the frame / header LOADING functions REGENERATED from the Go source
  (Stef/Gen/LoadFlow.lean, by extract/loadflow.go) compute, on every state, what the hand models say:

    readSizesFrom  (ReadColumnSet.ReadSizesFrom)  = Stef.Sizes.readSizes        (every tree, every state)
    readDataFrom   (ReadColumnSet.ReadDataFrom)   = Stef.ReaderIO.readCols      (one ReadFull per visited column)
    readFrom       (ReadBufs.ReadFrom)            = Stef.ReaderIO.readFrom
    nextFrame      (BaseReader.NextFrame)         = Stef.ReaderIO.nextFrame
    readFixedHeader(BaseReader.ReadFixedHeader)   = Stef.ReaderIO.readFixedHeader
    readVarHeader  (BaseReader.ReadVarHeader, up to the bytes handed to Deserialize)
                                                  = Stef.ReaderIO.readVarHeaderBytes

  (the last four for an uncompressed stream, which is as far as the hand model goes). These
  equations are the tie of the hand models to the source text.
-/
import Stef.Gen.LoadFlow
import Stef.Proofs.FrameFlowGen
import Stef.Proofs.Sizes
import Stef.Proofs.ReaderIOSim

set_option linter.unusedSimpArgs false

namespace Stef.Proofs.LoadFlowGen
open Stef Stef.ReaderIO Stef.FrameFlowSem Stef.LoadFlowSem Stef.Proofs.FrameFlowGen
open Stef.Gen.LoadFlow

/-! ### column trees -/

mutual
/-- the shape of a `ReadColumnSet` (what the hand model of the size table is indexed by) -/
def shape : Cols → Sizes.ColTree
  | .node _ kids => .node (shapeList kids)
def shapeList : List Cols → List Sizes.ColTree
  | [] => []
  | k :: ks => shape k :: shapeList ks
end

mutual
/-- every buffer of the subtree is empty (`ResetData`) -/
def allEmpty : Cols → Bool
  | .node d kids => d.isEmpty && allEmptyList kids
def allEmptyList : List Cols → Bool
  | [] => true
  | k :: ks => allEmpty k && allEmptyList ks
end

mutual
/-- the buffers of the columns that the size table pass VISITS, in visit order (preorder; the
    sub-columns of an empty column are not visited) -/
def visited : Cols → List Bytes
  | .node d kids => d :: (if d.length = 0 then [] else visitedList kids)
def visitedList : List Cols → List Bytes
  | [] => []
  | k :: ks => visited k ++ visitedList ks
end

mutual
/-- what a successful `ReadSizesFrom` leaves: below an empty column everything is empty -/
def norm : Cols → Bool
  | .node d kids => if d.length = 0 then allEmptyList kids else normList kids
def normList : List Cols → Bool
  | [] => true
  | k :: ks => norm k && normList ks
end

/-! ### ResetData -/

mutual
theorem resetData_spec : ∀ c : Cols, shape (resetData c) = shape c ∧ allEmpty (resetData c) = true
  | .node d kids => by
    have ih := resetDataLoop1_spec kids
    unfold resetData
    rcases h : resetDataLoop1 kids with ⟨ks, r⟩
    rw [h] at ih
    cases r <;> simp [shape, allEmpty, ih]
theorem resetDataLoop1_spec : ∀ ks : List Cols,
    shapeList (resetDataLoop1 ks).1 = shapeList ks ∧ allEmptyList (resetDataLoop1 ks).1 = true
  | [] => by simp [resetDataLoop1, shapeList, allEmptyList]
  | k :: ks => by
    have h1 := resetData_spec k
    have h2 := resetDataLoop1_spec ks
    unfold resetDataLoop1
    simp [shapeList, allEmptyList, h1, h2]
end

/-! ### ReadSizesFrom = Stef.Sizes.readSizes -/


def errOf (ok : Bool) : Option Err := if ok then none else some .columnSizeLimit

/-- the reset loop of `ReadSizesFrom` (`dataSize == 0`): the state is not touched, no return -/
theorem readSizesFromLoop1_spec : ∀ (ks : List Cols) (st : Sizes.St),
    (readSizesFromLoop1 ks st).2 = (st, none) ∧
    shapeList (readSizesFromLoop1 ks st).1 = shapeList ks ∧
    allEmptyList (readSizesFromLoop1 ks st).1 = true
  | [], st => by simp [readSizesFromLoop1, shapeList, allEmptyList]
  | k :: ks, st => by
    have h1 := resetData_spec k
    have h2 := readSizesFromLoop1_spec ks st
    unfold readSizesFromLoop1
    rcases h : readSizesFromLoop1 ks st with ⟨ks', st', r⟩
    rw [h] at h2
    simp only [Prod.mk.injEq] at h2
    simp [shapeList, allEmptyList, h1, h2]

mutual
/-- **ReadSizesFrom** = `Sizes.readSizes` on the tree's shape: same reader, same budget, same
    recorded `EnsureLen` sizes, `ErrColumnSizeLimitExceeded` exactly when the hand model says
    `false`; the shape of the tree is kept; after a success the allocated buffers are exactly the
    visited columns' (in order) and everything below an empty column is empty. -/
theorem readSizesFrom_eq : ∀ (c : Cols) (st : Sizes.St),
    (readSizesFrom c st).2.1 = (Sizes.readSizes (shape c) st).1 ∧
    (readSizesFrom c st).2.2 = errOf (Sizes.readSizes (shape c) st).2 ∧
    shape (readSizesFrom c st).1 = shape c ∧
    ((Sizes.readSizes (shape c) st).2 = true →
      norm (readSizesFrom c st).1 = true ∧
      (readSizesFrom c st).2.1.alloc = ((visited (readSizesFrom c st).1).map List.length).reverse ++ st.alloc)
  | .node d kids, st => by
    rcases hr : st.rd.readUvarintCompact with ⟨rd, v⟩
    rw [readSizesFrom]
    simp only [shape]
    unfold Sizes.readSizes
    simp only [bitsReadUvarintCompact, hr]
    by_cases hgt : v.toNat > st.limit
    · simp [hgt, errOf, shape]
    · simp only [hgt, ↓reduceIte, noteAlloc, ensureLen]
      by_cases h0 : v.toNat = 0
      · have l1 := readSizesFromLoop1_spec kids
          { rd := rd, limit := st.limit - v.toNat, alloc := v.toNat :: st.alloc }
        rcases hl : readSizesFromLoop1 kids
          { rd := rd, limit := st.limit - v.toNat, alloc := v.toNat :: st.alloc } with ⟨ks', st', r⟩
        rw [hl] at l1
        simp only [Prod.mk.injEq] at l1
        obtain ⟨⟨rfl, rfl⟩, l2, l3⟩ := l1
        simp [h0, errOf, shape, l2, norm, l3, visited]
      · have l2 := readSizesFromLoop2_eq kids
          { rd := rd, limit := st.limit - v.toNat, alloc := v.toNat :: st.alloc }
        rcases hl : readSizesFromLoop2 kids
          { rd := rd, limit := st.limit - v.toNat, alloc := v.toNat :: st.alloc } with ⟨ks', st', r⟩
        rw [hl] at l2
        simp only at l2
        obtain ⟨a1, a2, a3, a4⟩ := l2
        simp only [h0, ↓reduceIte]
        cases r with
        | some e =>
          simp only
          refine ⟨a1, ?_, by simp [shape, a3], ?_⟩
          · rcases hb : (Sizes.readSizesList (shapeList kids)
              { rd := rd, limit := st.limit - v.toNat, alloc := v.toNat :: st.alloc }).2 with _ | _
            · rw [hb] at a2; simp [errOf] at a2 ⊢; exact a2
            · rw [hb] at a2; simp [errOf] at a2
          · intro hb
            rw [hb] at a2; simp [errOf] at a2
        | none =>
          simp only
          refine ⟨a1, ?_, by simp [shape, a3], ?_⟩
          · rcases hb : (Sizes.readSizesList (shapeList kids)
              { rd := rd, limit := st.limit - v.toNat, alloc := v.toNat :: st.alloc }).2 with _ | _
            · rw [hb] at a2; simp [errOf] at a2
            · simp [errOf]
          · intro hb
            obtain ⟨b1, b2⟩ := a4 hb
            have hlen : (List.replicate v.toNat (0#8 : Byte)).length ≠ 0 := by simpa using h0
            simp only [norm, visited, hlen, ↓reduceIte, b1, true_and]
            rw [b2]
            simp
theorem readSizesFromLoop2_eq : ∀ (ks : List Cols) (st : Sizes.St),
    (readSizesFromLoop2 ks st).2.1 = (Sizes.readSizesList (shapeList ks) st).1 ∧
    (readSizesFromLoop2 ks st).2.2 =
      (if (Sizes.readSizesList (shapeList ks) st).2 then none else some (some .columnSizeLimit)) ∧
    shapeList (readSizesFromLoop2 ks st).1 = shapeList ks ∧
    ((Sizes.readSizesList (shapeList ks) st).2 = true →
      normList (readSizesFromLoop2 ks st).1 = true ∧
      (readSizesFromLoop2 ks st).2.1.alloc =
        ((visitedList (readSizesFromLoop2 ks st).1).map List.length).reverse ++ st.alloc)
  | [], st => by
    simp [readSizesFromLoop2, shapeList, Sizes.readSizesList, normList, visitedList]
  | k :: ks, st => by
    have h1 := readSizesFrom_eq k st
    unfold readSizesFromLoop2
    simp only [shapeList]
    unfold Sizes.readSizesList
    rcases hg : readSizesFrom k st with ⟨k', st', e⟩
    rcases hh : Sizes.readSizes (shape k) st with ⟨hs, hb⟩
    rw [hg, hh] at h1
    simp only at h1
    obtain ⟨rfl, a2, a3, a4⟩ := h1
    cases hb with
    | false =>
      simp only [errOf] at a2
      subst a2
      simp [shapeList, a3]
    | true =>
      simp only [errOf] at a2
      subst a2
      obtain ⟨b1, b2⟩ := a4 rfl
      have h2 := readSizesFromLoop2_eq ks st'
      rcases hl : readSizesFromLoop2 ks st' with ⟨ks', st'', r⟩
      rw [hl] at h2
      simp only at h2
      obtain ⟨c1, c2, c3, c4⟩ := h2
      simp only [ne_eq, not_true_eq_false, ↓reduceIte]
      refine ⟨c1, c2, by simp [shapeList, a3, c3], ?_⟩
      intro hb
      obtain ⟨d1, d2⟩ := c4 hb
      simp only [normList, b1, d1, Bool.and_self, visitedList, true_and]
      rw [d2, b2]
      simp
end

/-! ### io.ReadFull / binary.ReadUvarint over the regenerated frame decoder = the hand model's -/

theorem readAtLeastLoop_lift (d0 : St) (hc : d0.compression = Stef.Gen.compressionNone) :
    ∀ (fuel : Nat) (f : Fd) (len min n : Nat) (acc : Bytes),
      readAtLeastLoop Stef.Gen.FrameFlow.read fuel (d0.withFd f) len min n acc =
        (d0.withFd (readAtLeastLoop Fd.read fuel f len min n acc).1,
         (readAtLeastLoop Fd.read fuel f len min n acc).2) := by
  intro fuel
  induction fuel with
  | zero => intro f len min n acc; rfl
  | succ fuel ih =>
    intro f len min n acc
    unfold readAtLeastLoop
    by_cases h : n < min
    · simp only [h, ↓reduceIte]
      rw [read_eq (d0.withFd f) (len - n) hc]
      simp only [withFd_fd, withFd_withFd]
      rcases f.read (len - n) with ⟨f', got, e⟩
      cases e with
      | some e => rfl
      | none => exact ih f' len min _ _
    · simp only [h, ↓reduceIte]

theorem readFullG_lift (d0 : St) (hc : d0.compression = Stef.Gen.compressionNone) (fuel : Nat) (f : Fd) (n : Nat) :
    readFullG Stef.Gen.FrameFlow.read fuel (d0.withFd f) n =
      (d0.withFd (readFullG Fd.read fuel f n).1, (readFullG Fd.read fuel f n).2) := by
  unfold readFullG readAtLeast
  simp only [Nat.lt_irrefl, ↓reduceIte, readAtLeastLoop_lift d0 hc]
  rcases readAtLeastLoop Fd.read fuel f n n 0 [] with ⟨f', k, got, e⟩
  simp only
  split
  · rfl
  · split <;> rfl

/-- the loop of ReadAtLeast counts what it returns, and ends without an error only when `min` is reached -/
theorem readAtLeastLoop_count {S : Type} (rd : S → Nat → S × Bytes × Option Err) :
    ∀ (fuel : Nat) (s : S) (len min n : Nat) (acc : Bytes), n = acc.length →
      (readAtLeastLoop rd fuel s len min n acc).2.1 = (readAtLeastLoop rd fuel s len min n acc).2.2.1.length ∧
      ((readAtLeastLoop rd fuel s len min n acc).2.2.2 = none →
        min ≤ (readAtLeastLoop rd fuel s len min n acc).2.1) := by
  intro fuel
  induction fuel with
  | zero => intro s len min n acc h; simp [readAtLeastLoop, h]
  | succ fuel ih =>
    intro s len min n acc h
    unfold readAtLeastLoop
    by_cases hlt : n < min
    · simp only [hlt, ↓reduceIte]
      rcases rd s (len - n) with ⟨s', got, e⟩
      cases e with
      | some e => simp [h] <;> omega
      | none => exact ih s' len min _ _ (by simp [h]; omega)
    · simp only [hlt, ↓reduceIte]
      simp [h] <;> omega

/-- a ReadFull that succeeds has filled the buffer -/
theorem readFullG_ok_len {S : Type} (rd : S → Nat → S × Bytes × Option Err) (fuel : Nat) (s : S) (n : Nat)
    (h : (readFullG rd fuel s n).2.2 = none) : n ≤ (readFullG rd fuel s n).2.1.length := by
  revert h
  unfold readFullG readAtLeast
  simp only [Nat.lt_irrefl, ↓reduceIte]
  have hc := readAtLeastLoop_count rd fuel s n n 0 [] rfl
  generalize readAtLeastLoop rd fuel s n n 0 [] = x at hc ⊢
  rcases x with ⟨s', k, got, e⟩
  simp only at hc ⊢
  obtain ⟨h1, h2⟩ := hc
  by_cases hk : k ≥ n
  · simp only [hk, ↓reduceIte]; intro _; omega
  · simp only [hk, ↓reduceIte]
    split
    · intro h; cases h
    · intro h; exact absurd (h2 h) (by omega)

theorem fillBuf_full (p got : Bytes) (h : p.length ≤ got.length) : fillBuf p got = got := by
  simp [fillBuf, List.drop_eq_nil_of_le h]

/-- **io.ReadFull(&frameDecoder, p)** over the regenerated `Read` = `Fd.readFullN` -/
theorem fdReadFull_eq (d : St) (p : Bytes) (hc : d.compression = Stef.Gen.compressionNone) :
    fdReadFull d p = (d.withFd (d.fd.readFullN p.length).1, fillBuf p (d.fd.readFullN p.length).2.1,
                      (d.fd.readFullN p.length).2.2) := by
  unfold fdReadFull Fd.readFullN
  by_cases h : d.fd.remaining < p.length
  · simp only [h, ↓reduceIte]
    have := readFullG_lift d hc (p.length + d.fd.b.src.sched.length + 1) { d.fd with overrun := true } p.length
    simp only [St.withFd] at this ⊢
    rw [this]
  · simp only [h, ↓reduceIte]
    have := readFullG_lift d hc (p.length + d.fd.b.src.sched.length + 1) d.fd p.length
    simp only [St.withFd] at this ⊢
    rw [this]

theorem fdReadFull_nil (d : St) : fdReadFull d [] = (d, [], none) := by
  simp [fdReadFull, readFullG, readAtLeast, readAtLeastLoop, fillBuf]

theorem Fd.readFull_zero (f : Fd) : f.readFull 0 = (f, .ok []) := by
  simp [Fd.readFull, Fd.readFullN, readFullG, readAtLeast, readAtLeastLoop, toExcept]

/-- **binary.ReadUvarint(&frameDecoder)** over the regenerated `ReadByte` = `Fd.readUvarint` -/
theorem fdReadUvarint_eq (d : St) (hc : d.compression = Stef.Gen.compressionNone) :
    fdReadUvarint d = (d.withFd d.fd.readUvarint.1, d.fd.readUvarint.2) := by
  have h := readUvarintLoop_rel fdByte Fd.readByte (fun (s : St) (f : Fd) => s = d.withFd f)
    (by
      intro s f hs
      subst hs
      unfold fdByte
      rw [readByte_eq (d.withFd f) hc]
      simp only [withFd_fd, withFd_withFd]
      rcases f.readByte with ⟨f', r⟩
      cases r <;> simp [unpackByte])
    10 d d.fd 0 0 0 rfl
  unfold fdReadUvarint Fd.readUvarint readUvarintG
  obtain ⟨h1, h2⟩ := h
  rcases hg : readUvarintLoop fdByte 10 d 0 0 0 with ⟨a, b⟩
  rw [hg] at h1 h2
  simp only at h1 h2
  rw [h1, h2]

/-! ### ReadDataFrom = Stef.ReaderIO.readCols -/

mutual
/-- below an empty column nothing is read: `ReadDataFrom` of an all-empty subtree is the identity -/
theorem readDataFrom_empty : ∀ (c : Cols) (d : St), allEmpty c = true → readDataFrom c d = (c, d, none)
  | .node p kids, d, h => by
    simp only [allEmpty, Bool.and_eq_true, List.isEmpty_iff] at h
    obtain ⟨rfl, hk⟩ := h
    rw [readDataFrom]
    simp only [fdReadFull_nil, ne_eq, not_true_eq_false, ↓reduceIte, readDataFromLoop1_empty kids d hk]
theorem readDataFromLoop1_empty : ∀ (ks : List Cols) (d : St), allEmptyList ks = true →
    readDataFromLoop1 ks d = (ks, d, none)
  | [], d, _ => by rw [readDataFromLoop1]
  | k :: ks, d, h => by
    simp only [allEmptyList, Bool.and_eq_true] at h
    rw [readDataFromLoop1]
    simp only [readDataFrom_empty k d h.1, ne_eq, not_true_eq_false, ↓reduceIte,
      readDataFromLoop1_empty ks d h.2]
end

def lens (l : List Bytes) : List Nat := l.map List.length

mutual
/-- **ReadDataFrom** = `readCols` over the visited columns' sizes: one `io.ReadFull` per column in
    preorder, the first error is returned at once; on success the columns hold exactly the bytes
    the hand model collects. Only the `Fd` part of the decoder state changes. -/
theorem readDataFrom_eq : ∀ (c : Cols) (d : St), d.compression = Stef.Gen.compressionNone → norm c = true →
    (readDataFrom c d).2.1 = d.withFd (readDataFrom c d).2.1.fd ∧
    ∀ (more : List Nat) (acc : List Bytes),
      readCols (lens (visited c) ++ more) d.fd acc =
        (match (readDataFrom c d).2.2 with
         | none => readCols more (readDataFrom c d).2.1.fd ((visited (readDataFrom c d).1).reverse ++ acc)
         | some e => ((readDataFrom c d).2.1.fd, .error e))
  | .node p kids, d, hc, hn => by
    rw [readDataFrom]
    by_cases hp : p.length = 0
    · have hp' : p = [] := List.eq_nil_of_length_eq_zero hp
      subst hp'
      simp only [norm, List.length_nil, ↓reduceIte] at hn
      simp only [fdReadFull_nil, ne_eq, not_true_eq_false, ↓reduceIte, readDataFromLoop1_empty kids d hn]
      refine ⟨rfl, ?_⟩
      intro more acc
      simp [visited, lens, readCols, Fd.readFull_zero]
    · simp only [norm, hp, ↓reduceIte] at hn
      rw [fdReadFull_eq d p hc]
      rcases hr : d.fd.readFullN p.length with ⟨f', got, e⟩
      have hlen := readFullG_ok_len Fd.read (p.length + (if d.fd.remaining < p.length then
          ({ d.fd with overrun := true } : Fd) else d.fd).b.src.sched.length + 1)
          (if d.fd.remaining < p.length then ({ d.fd with overrun := true } : Fd) else d.fd) p.length
      have hr' : readFullG Fd.read (p.length + (if d.fd.remaining < p.length then
          ({ d.fd with overrun := true } : Fd) else d.fd).b.src.sched.length + 1)
          (if d.fd.remaining < p.length then ({ d.fd with overrun := true } : Fd) else d.fd) p.length
          = (f', got, e) := hr
      rw [hr'] at hlen
      simp only at hlen
      cases e with
      | some e =>
        simp only [ne_eq, reduceCtorEq, not_false_eq_true, ↓reduceIte]
        refine ⟨rfl, ?_⟩
        intro more acc
        simp [visited, hp, lens, readCols, Fd.readFull, hr, toExcept, withFd_fd]
      | none =>
        have hge := hlen rfl
        have hfill : fillBuf p got = got := fillBuf_full p got hge
        have hgot : got.length ≠ 0 := by omega
        simp only [ne_eq, not_true_eq_false, ↓reduceIte, hfill]
        have ih := readDataFromLoop1_eq kids (d.withFd f') hc hn
        rcases hl : readDataFromLoop1 kids (d.withFd f') with ⟨ks', d', r⟩
        rw [hl] at ih
        simp only [withFd_fd, withFd_withFd] at ih
        obtain ⟨i1, i2⟩ := ih
        cases r with
        | none =>
          simp only
          refine ⟨i1, ?_⟩
          intro more acc
          have := i2 more (got :: acc)
          simp only at this
          simp only [visited, hp, hgot, ↓reduceIte, lens, List.map_cons, List.cons_append, readCols,
            Fd.readFull, hr, toExcept]
          simp only [lens] at this
          rw [this]
          simp
        | some ret =>
          cases ret with
          | none => exact absurd (i2 [] []) (by simp)
          | some e =>
            simp only
            refine ⟨i1, ?_⟩
            intro more acc
            have := i2 more (got :: acc)
            simp only at this
            simp only [visited, hp, ↓reduceIte, lens, List.map_cons, List.cons_append, readCols,
              Fd.readFull, hr, toExcept]
            simp only [lens] at this
            rw [this]
theorem readDataFromLoop1_eq : ∀ (ks : List Cols) (d : St), d.compression = Stef.Gen.compressionNone →
    normList ks = true →
    (readDataFromLoop1 ks d).2.1 = d.withFd (readDataFromLoop1 ks d).2.1.fd ∧
    ∀ (more : List Nat) (acc : List Bytes),
      (match (readDataFromLoop1 ks d).2.2 with
       | none => readCols (lens (visitedList ks) ++ more) d.fd acc =
           readCols more (readDataFromLoop1 ks d).2.1.fd ((visitedList (readDataFromLoop1 ks d).1).reverse ++ acc)
       | some (some e) => readCols (lens (visitedList ks) ++ more) d.fd acc =
           ((readDataFromLoop1 ks d).2.1.fd, .error e)
       | some none => False)
  | [], d, _, _ => by
    rw [readDataFromLoop1]
    exact ⟨rfl, fun more acc => by simp [visitedList, lens]⟩
  | k :: ks, d, hc, hn => by
    simp only [normList, Bool.and_eq_true] at hn
    have h1 := readDataFrom_eq k d hc hn.1
    rw [readDataFromLoop1]
    rcases hg : readDataFrom k d with ⟨k', d', e⟩
    rw [hg] at h1
    simp only at h1
    obtain ⟨a1, a2⟩ := h1
    cases e with
    | some e =>
      simp only [ne_eq, reduceCtorEq, not_false_eq_true, ↓reduceIte]
      refine ⟨a1, ?_⟩
      intro more acc
      have := a2 (lens (visitedList ks) ++ more) acc
      simp only at this
      simp only [visitedList, lens, List.map_append, List.append_assoc] at this ⊢
      exact this
    | none =>
      simp only [ne_eq, not_true_eq_false, ↓reduceIte]
      have hc' : d'.compression = Stef.Gen.compressionNone := by rw [a1]; exact hc
      have h2 := readDataFromLoop1_eq ks d' hc' hn.2
      rcases hl : readDataFromLoop1 ks d' with ⟨ks', d'', r⟩
      rw [hl] at h2
      simp only at h2
      obtain ⟨b1, b2⟩ := h2
      simp only
      refine ⟨by rw [b1, a1]; rfl, ?_⟩
      intro more acc
      have t1 := a2 (lens (visitedList ks) ++ more) acc
      have t2 := b2 more ((visited k').reverse ++ acc)
      simp only at t1
      cases r with
      | none =>
        simp only at t2 ⊢
        simp only [visitedList, lens, List.map_append, List.append_assoc, List.reverse_append] at t1 t2 ⊢
        rw [t1, t2]
      | some ret =>
        cases ret with
        | none => exact t2
        | some e =>
          simp only at t2 ⊢
          simp only [visitedList, lens, List.map_append, List.append_assoc] at t1 t2 ⊢
          rw [t1, t2]
end

/-! ### ReadBufs.ReadFrom = Stef.ReaderIO.readFrom -/

/-- the two outcomes of `io.ReadFull(&frameDecoder, p)`, next to the hand model's -/
theorem fdReadFull_cases (d : St) (p : Bytes) (hc : d.compression = Stef.Gen.compressionNone) :
    (∃ f got, fdReadFull d p = (d.withFd f, got, none) ∧ p.length ≤ got.length ∧
        d.fd.readFull p.length = (f, .ok got)) ∨
    (∃ f buf e, fdReadFull d p = (d.withFd f, buf, some e) ∧ d.fd.readFull p.length = (f, .error e)) := by
  rw [fdReadFull_eq d p hc]
  have hlen := readFullG_ok_len Fd.read (p.length + (if d.fd.remaining < p.length then
      ({ d.fd with overrun := true } : Fd) else d.fd).b.src.sched.length + 1)
      (if d.fd.remaining < p.length then ({ d.fd with overrun := true } : Fd) else d.fd) p.length
  rcases hr : d.fd.readFullN p.length with ⟨f', got, e⟩
  have hr' : readFullG Fd.read (p.length + (if d.fd.remaining < p.length then
      ({ d.fd with overrun := true } : Fd) else d.fd).b.src.sched.length + 1)
      (if d.fd.remaining < p.length then ({ d.fd with overrun := true } : Fd) else d.fd) p.length
      = (f', got, e) := hr
  rw [hr'] at hlen
  cases e with
  | none =>
    left
    exact ⟨f', got, by simp [fillBuf_full p got (hlen rfl)], hlen rfl, by simp [Fd.readFull, hr, toExcept]⟩
  | some e =>
    right
    exact ⟨f', _, e, rfl, by simp [Fd.readFull, hr, toExcept]⟩

/-- the two outcomes of `io.ReadFull(r.Source, p)`, next to the hand model's -/
theorem srcReadFull_cases (d : St) (p : Bytes) :
    (∃ b got, srcReadFull d p = ({ d with fd := { d.fd with b := b } }, got, none) ∧ p.length ≤ got.length ∧
        d.fd.b.readFull p.length = (b, .ok got)) ∨
    (∃ b buf e, srcReadFull d p = ({ d with fd := { d.fd with b := b } }, buf, some e) ∧
        d.fd.b.readFull p.length = (b, .error e)) := by
  unfold srcReadFull
  have hlen := readFullG_ok_len Bufio.read (p.length + d.fd.b.src.sched.length + 1) d.fd.b p.length
  rcases hr : d.fd.b.readFullN p.length with ⟨b', got, e⟩
  have hr' : readFullG Bufio.read (p.length + d.fd.b.src.sched.length + 1) d.fd.b p.length = (b', got, e) := hr
  rw [hr'] at hlen
  cases e with
  | none =>
    left
    exact ⟨b', got, by simp [fillBuf_full p got (hlen rfl)], hlen rfl, by simp [Bufio.readFull, hr, toExcept]⟩
  | some e =>
    right
    exact ⟨b', _, e, rfl, by simp [Bufio.readFull, hr, toExcept]⟩

mutual
/-- the hand model's size table pass does not look at what was recorded before it -/
theorem readSizes_alloc_param : ∀ (t : Sizes.ColTree) (s : Sizes.St) (A : List Nat),
    Sizes.readSizes t { s with alloc := s.alloc ++ A } =
      ({ (Sizes.readSizes t s).1 with alloc := (Sizes.readSizes t s).1.alloc ++ A }, (Sizes.readSizes t s).2)
  | .node kids, s, A => by
    unfold Sizes.readSizes
    rcases s.rd.readUvarintCompact with ⟨rd, v⟩
    simp only
    split
    · rfl
    · split
      · rfl
      · exact readSizesList_alloc_param kids { rd := rd, limit := s.limit - v.toNat, alloc := v.toNat :: s.alloc } A
theorem readSizesList_alloc_param : ∀ (ts : List Sizes.ColTree) (s : Sizes.St) (A : List Nat),
    Sizes.readSizesList ts { s with alloc := s.alloc ++ A } =
      ({ (Sizes.readSizesList ts s).1 with alloc := (Sizes.readSizesList ts s).1.alloc ++ A },
       (Sizes.readSizesList ts s).2)
  | [], s, A => by unfold Sizes.readSizesList; rfl
  | k :: ks, s, A => by
    unfold Sizes.readSizesList
    rw [readSizes_alloc_param k s A]
    rcases Sizes.readSizes k s with ⟨s', b⟩
    cases b with
    | false => rfl
    | true => exact readSizesList_alloc_param ks s' A
end

mutual
theorem readDataFrom_shape : ∀ (c : Cols) (d : St), shape (readDataFrom c d).1 = shape c
  | .node p kids, d => by
    rw [readDataFrom]
    rcases fdReadFull d p with ⟨d', p', e⟩
    simp only
    split
    · simp [shape]
    · have := readDataFromLoop1_shape kids d'
      rcases hl : readDataFromLoop1 kids d' with ⟨ks', d'', r⟩
      rw [hl] at this
      cases r <;> simpa [shape] using this
theorem readDataFromLoop1_shape : ∀ (ks : List Cols) (d : St), shapeList (readDataFromLoop1 ks d).1 = shapeList ks
  | [], d => by rw [readDataFromLoop1]
  | k :: ks, d => by
    rw [readDataFromLoop1]
    have h1 := readDataFrom_shape k d
    rcases hg : readDataFrom k d with ⟨k', d', e⟩
    rw [hg] at h1
    simp only at h1 ⊢
    split
    · simp [shapeList, h1]
    · have h2 := readDataFromLoop1_shape ks d'
      rcases hl : readDataFromLoop1 ks d' with ⟨ks', d'', r⟩
      rw [hl] at h2
      simpa [shapeList, h1] using h2
end

/-- how the results of a Go function returning `error` and of a hand model returning `Except` agree;
    `ok` says what the value is on success -/
def Agree {α : Type} (h : Except Err α) (e : Option Err) (ok : α → Prop) : Prop :=
  match h with
  | .ok a => e = none ∧ ok a
  | .error x => e = some x

/-- **ReadBufs.ReadFrom** = `ReaderIO.readFrom` on the shape of `s.Columns`: the size of the size
    table (a uvarint read from the frame), `ErrTotalColumnSizeLimitExceeded` beyond `readLimit`, one
    ReadFull for the table, the size table pass over the REST of the limit, then the columns. On
    success the visited columns hold what the hand model returns. -/
theorem readFrom_eq (s : Bufs) (d : St) (lim : Nat) (hc : d.compression = Stef.Gen.compressionNone) :
    (readFrom s d lim).2.1 = d.withFd (ReaderIO.readFrom (shape s.columns) d.fd lim).1 ∧
    Agree (ReaderIO.readFrom (shape s.columns) d.fd lim).2 (readFrom s d lim).2.2
      (fun cols => cols = visited (readFrom s d lim).1.columns) ∧
    shape (readFrom s d lim).1.columns = shape s.columns := by
  rcases hG : readFrom s d lim with ⟨s', d', e'⟩
  rcases hH : ReaderIO.readFrom (shape s.columns) d.fd lim with ⟨f', res⟩
  simp only
  unfold Stef.Gen.LoadFlow.readFrom at hG
  unfold ReaderIO.readFrom at hH
  rw [fdReadUvarint_eq d hc] at hG
  rcases hu : d.fd.readUvarint with ⟨f1, bufSize, e1⟩
  simp only [hu] at hG hH
  cases e1 with
  | some e =>
    simp only [ne_eq, reduceCtorEq, not_false_eq_true, ↓reduceIte, Prod.mk.injEq] at hG hH
    obtain ⟨rfl, rfl, rfl⟩ := hG
    obtain ⟨rfl, rfl⟩ := hH
    exact ⟨rfl, rfl, rfl⟩
  | none =>
    simp only [ne_eq, not_true_eq_false, ↓reduceIte] at hG hH
    by_cases hlim : bufSize > lim
    · simp only [hlim, ↓reduceIte, Prod.mk.injEq] at hG hH
      obtain ⟨rfl, rfl, rfl⟩ := hG
      obtain ⟨rfl, rfl⟩ := hH
      exact ⟨rfl, rfl, rfl⟩
    · simp only [hlim, ↓reduceIte, noteAllocB, ensureLen] at hG hH
      have hc1 : (d.withFd f1).compression = Stef.Gen.compressionNone := hc
      rcases fdReadFull_cases (d.withFd f1) (List.replicate bufSize 0#8) hc1 with
        ⟨f2, table, g1, _, g3⟩ | ⟨f2, buf, e, g1, g3⟩
      · simp only [List.length_replicate, withFd_fd, withFd_withFd] at g1 g3
        simp only [g1, g3, ne_eq, not_true_eq_false, ↓reduceIte, sizesArgs, BitsReader.reset] at hG hH
        have hs := readSizesFrom_eq s.columns
          { rd := { buf := table }, limit := lim - bufSize, alloc := bufSize :: s.allocs }
        have hp := readSizes_alloc_param (shape s.columns)
          { rd := { buf := table }, limit := lim - bufSize, alloc := [] } (bufSize :: s.allocs)
        simp only [List.nil_append] at hp
        rw [hp] at hs
        rcases hh : Sizes.readSizes (shape s.columns) { rd := { buf := table }, limit := lim - bufSize } with ⟨hst, hb⟩
        have hh' : Sizes.readSizes (shape s.columns) { rd := { buf := table }, limit := lim - bufSize, alloc := [] }
            = (hst, hb) := hh
        rw [hh'] at hs
        rw [hh] at hH
        rcases hg : readSizesFrom s.columns
          { rd := { buf := table }, limit := lim - bufSize, alloc := bufSize :: s.allocs } with ⟨c', st', e2⟩
        rw [hg] at hs
        simp only [hg] at hG
        simp only at hs
        obtain ⟨a1, a2, a3, a4⟩ := hs
        cases hb with
        | false =>
          simp only [errOf] at a2
          subst a2
          simp only [ne_eq, reduceCtorEq, not_false_eq_true, ↓reduceIte, Prod.mk.injEq, Bool.false_eq_true] at hG hH
          obtain ⟨rfl, rfl, rfl⟩ := hG
          obtain ⟨rfl, rfl⟩ := hH
          exact ⟨rfl, rfl, by simp [sizesBack, a3]⟩
        | true =>
          simp only [errOf] at a2
          subst a2
          obtain ⟨b1, b2⟩ := a4 rfl
          rw [a1] at b2
          simp only at b2
          have hal : hst.alloc.reverse = lens (visited c') := by
            have := List.append_cancel_right b2
            rw [this]; simp [lens]
          simp only [ne_eq, not_true_eq_false, ↓reduceIte, sizesBack] at hG hH
          have hc2 : (d.withFd f2).compression = Stef.Gen.compressionNone := hc
          obtain ⟨r1, r2⟩ := readDataFrom_eq c' (d.withFd f2) hc2 b1
          have r3 := r2 [] []
          have r4 := readDataFrom_shape c' (d.withFd f2)
          rcases hd : readDataFrom c' (d.withFd f2) with ⟨c'', d'', e3⟩
          rw [hd] at r1 r3 r4
          simp only [hd, Prod.mk.injEq] at hG
          simp only [withFd_fd, List.append_nil] at r1 r3 r4
          rw [hal, r3] at hH
          obtain ⟨rfl, rfl, rfl⟩ := hG
          cases e3 with
          | some e =>
            simp only [Prod.mk.injEq] at hH
            obtain ⟨rfl, rfl⟩ := hH
            exact ⟨r1, rfl, by rw [r4, a3]⟩
          | none =>
            simp only [readCols, Prod.mk.injEq] at hH
            obtain ⟨rfl, rfl⟩ := hH
            exact ⟨r1, ⟨rfl, by simp⟩, by rw [r4, a3]⟩
      · simp only [List.length_replicate, withFd_fd, withFd_withFd] at g1 g3
        simp only [g1, g3, ne_eq, reduceCtorEq, not_false_eq_true, ↓reduceIte, Prod.mk.injEq] at hG hH
        obtain ⟨rfl, rfl, rfl⟩ := hG
        obtain ⟨rfl, rfl⟩ := hH
        exact ⟨rfl, rfl, rfl⟩

/-! ### BaseReader.NextFrame = Stef.ReaderIO.nextFrame -/

/-- the regenerated reader state `r` and the hand model's `rd` describe the same reader -/
structure Rel (r : Rs) (rd : Rd) : Prop where
  none : r.dec.compression = Stef.Gen.compressionNone
  fd : rd.fd = r.dec.fd
  tree : rd.tree = shape r.bufs.columns
  count : rd.frameRecordCount = r.frameRecordCount

/-- **BaseReader.NextFrame** = `ReaderIO.nextFrame`: `FrameDecoder.Next`, then the record count
    (assigned to `FrameRecordCount` whatever `ReadUvarint` returned, also next to an error), then
    `ReadBufs.ReadFrom` with the remaining size of the frame as the limit; the flags of the frame
    are returned, 0 next to an error. The states stay related; on success the hand model's columns
    are the visited columns of `r.ReadBufs.Columns`. -/
theorem nextFrame_eq (r : Rs) (rd : Rd) (h : Rel r rd) :
    Rel (nextFrame r).1 (ReaderIO.nextFrame rd).1 ∧
    (nextFrame r).1.dec = r.dec.withFd (ReaderIO.nextFrame rd).1.fd ∧
    (nextFrame r).1.compression = r.compression ∧
    (match (ReaderIO.nextFrame rd).2 with
     | .ok fl => (nextFrame r).2 = (fl, none) ∧
         (ReaderIO.nextFrame rd).1.cols = visited (nextFrame r).1.bufs.columns
     | .error e => (nextFrame r).2 = (0, some e)) := by
  obtain ⟨hc, hfd, htree, hcount⟩ := h
  rcases hG : nextFrame r with ⟨r', fl', e'⟩
  rcases hH : ReaderIO.nextFrame rd with ⟨rd', res⟩
  simp only
  unfold Stef.Gen.LoadFlow.nextFrame at hG
  unfold ReaderIO.nextFrame at hH
  rw [next_eq r.dec hc] at hG
  rw [hfd] at hH
  rcases hn : r.dec.fd.next with ⟨f1, e1⟩
  simp only [hn] at hG hH
  cases e1 with
  | some e =>
    simp only [reduceCtorEq, ↓reduceIte, ne_eq, not_false_eq_true, Prod.mk.injEq] at hG hH
    obtain ⟨rfl, rfl, rfl⟩ := hG
    obtain ⟨rfl, rfl⟩ := hH
    exact ⟨⟨hc, rfl, htree, hcount⟩, rfl, rfl, rfl⟩
  | none =>
    simp only [↓reduceIte, ne_eq, not_true_eq_false] at hG hH
    have hc1 : (r.dec.withFd f1).compression = Stef.Gen.compressionNone := hc
    rw [fdReadUvarint_eq (r.dec.withFd f1) hc1] at hG
    simp only [withFd_fd, withFd_withFd] at hG
    rcases hu : f1.readUvarint with ⟨f2, nrec, e2⟩
    simp only [hu] at hG hH
    cases e2 with
    | some e =>
      simp only [reduceCtorEq, ↓reduceIte, ne_eq, not_false_eq_true, Prod.mk.injEq] at hG hH
      obtain ⟨rfl, rfl, rfl⟩ := hG
      obtain ⟨rfl, rfl⟩ := hH
      exact ⟨⟨hc, rfl, htree, rfl⟩, rfl, rfl, rfl⟩
    | none =>
      simp only [↓reduceIte, ne_eq, not_true_eq_false, withFd_fd] at hG hH
      have hc2 : (r.dec.withFd f2).compression = Stef.Gen.compressionNone := hc
      obtain ⟨q1, q2, q3⟩ := readFrom_eq r.bufs (r.dec.withFd f2) f2.remaining hc2
      rw [htree] at hH
      simp only [withFd_fd, withFd_withFd] at q1 q2 q3
      rcases hg : readFrom r.bufs (r.dec.withFd f2) f2.remaining with ⟨bufs', d', e3⟩
      rcases hh : ReaderIO.readFrom (shape r.bufs.columns) f2 f2.remaining with ⟨f3, res3⟩
      simp only [hg, hh] at q1 q2 q3
      simp only [hg] at hG
      simp only [hh] at hH
      subst q1
      cases res3 with
      | error e =>
        simp only [Agree] at q2
        subst q2
        simp only [reduceCtorEq, ↓reduceIte, ne_eq, not_false_eq_true, Prod.mk.injEq] at hG hH
        obtain ⟨rfl, rfl, rfl⟩ := hG
        obtain ⟨rfl, rfl⟩ := hH
        exact ⟨⟨hc, rfl, q3.symm, rfl⟩, rfl, rfl, rfl⟩
      | ok cols =>
        simp only [Agree] at q2
        obtain ⟨q2, q4⟩ := q2
        subst q2
        simp only [↓reduceIte, ne_eq, not_true_eq_false, Prod.mk.injEq] at hG hH
        obtain ⟨rfl, rfl, rfl⟩ := hG
        obtain ⟨rfl, rfl⟩ := hH
        exact ⟨⟨hc, rfl, q3.symm, rfl⟩, rfl, rfl, rfl, q4⟩

/-! ### BaseReader.ReadFixedHeader = Stef.ReaderIO.readFixedHeader -/

theorem hdrSignatureBytes_eq : hdrSignatureBytes = sigBytes := by decide

/-- the decoder state with the bufio reader (`r.Source`) replaced -/
def withB (d : St) (b : Bufio) : St := { d with fd := { d.fd with b := b } }

/-- **BaseReader.ReadFixedHeader** = `ReaderIO.readFixedHeader` on `r.Source`: ReadFull of the
    signature, its comparison, the content size varint and its two bounds, ReadFull of the content,
    the version check, the compression method (stored in `r.FixedHeader.Compression`) and its check. -/
theorem readFixedHeader_eq (r : Rs) :
    (readFixedHeader r).1.dec = withB r.dec (ReaderIO.readFixedHeader r.dec.fd.b).1 ∧
    (readFixedHeader r).1.bufs = r.bufs ∧
    (readFixedHeader r).1.frameRecordCount = r.frameRecordCount ∧
    Agree (ReaderIO.readFixedHeader r.dec.fd.b).2 (readFixedHeader r).2
      (fun comp => (readFixedHeader r).1.compression = comp) := by
  rcases hG : readFixedHeader r with ⟨r', e'⟩
  rcases hH : ReaderIO.readFixedHeader r.dec.fd.b with ⟨b', res⟩
  simp only
  unfold Stef.Gen.LoadFlow.readFixedHeader at hG
  unfold ReaderIO.readFixedHeader at hH
  simp only [hdrSignatureBytes_eq] at hG
  have hsl : (mkBytes sigBytes.length).length = 4 := by simp [mkBytes, sigBytes]
  rcases srcReadFull_cases r.dec (mkBytes sigBytes.length) with
    ⟨b1, sg, g1, _, g3⟩ | ⟨b1, buf, e, g1, g3⟩
  · rw [hsl] at g3
    simp only [g1, g3, ne_eq, not_true_eq_false, ↓reduceIte] at hG hH
    by_cases hsg : sg = sigBytes
    · simp only [hsg, not_true_eq_false, ↓reduceIte, srcReadUvarint] at hG hH
      rcases hu : b1.readUvarint with ⟨b2, sz, e2⟩
      simp only [hu] at hG hH
      cases e2 with
      | some e =>
        simp only [reduceCtorEq, ↓reduceIte, ne_eq, not_false_eq_true, Prod.mk.injEq] at hG hH
        obtain ⟨rfl, rfl⟩ := hG
        obtain ⟨rfl, rfl⟩ := hH
        exact ⟨rfl, rfl, rfl, rfl⟩
      | none =>
        simp only [ne_eq, not_true_eq_false, ↓reduceIte] at hG hH
        by_cases hsz : sz < 2 ∨ sz > Stef.Gen.fixedHdrContentSizeLimit
        · simp only [hsz, ↓reduceIte, Prod.mk.injEq] at hG hH
          obtain ⟨rfl, rfl⟩ := hG
          obtain ⟨rfl, rfl⟩ := hH
          exact ⟨rfl, rfl, rfl, rfl⟩
        · simp only [hsz, ↓reduceIte] at hG hH
          rcases srcReadFull_cases
            { r.dec with fd := { r.dec.fd with b := b2 } } (mkBytes sz) with
            ⟨b3, content, k1, _, k3⟩ | ⟨b3, buf, e, k1, k3⟩
          · simp only [mkBytes, List.length_replicate] at k1 k3
            simp only [mkBytes, k1, k3, ne_eq, not_true_eq_false, ↓reduceIte, byteAt] at hG hH
            by_cases hv : (content.getD 0 0#8).toNat &&& Stef.Gen.hdrFormatVersionMask = Stef.Gen.hdrFormatVersion
            · simp only [hv, not_true_eq_false, ↓reduceIte] at hG hH
              split at hH
              · rename_i hcm
                simp only [hcm, ↓reduceIte, Prod.mk.injEq] at hG hH
                obtain ⟨rfl, rfl⟩ := hG
                obtain ⟨rfl, rfl⟩ := hH
                exact ⟨rfl, rfl, rfl, rfl, rfl⟩
              · rename_i hcm
                simp only [hcm, ↓reduceIte, Prod.mk.injEq] at hG hH
                obtain ⟨rfl, rfl⟩ := hG
                obtain ⟨rfl, rfl⟩ := hH
                exact ⟨rfl, rfl, rfl, rfl⟩
            · simp only [hv, not_false_eq_true, ↓reduceIte, Prod.mk.injEq] at hG hH
              obtain ⟨rfl, rfl⟩ := hG
              obtain ⟨rfl, rfl⟩ := hH
              exact ⟨rfl, rfl, rfl, rfl⟩
          · simp only [mkBytes, List.length_replicate] at k1 k3
            simp only [mkBytes, k1, k3, ne_eq, reduceCtorEq, not_false_eq_true, ↓reduceIte, Prod.mk.injEq] at hG hH
            obtain ⟨rfl, rfl⟩ := hG
            obtain ⟨rfl, rfl⟩ := hH
            exact ⟨rfl, rfl, rfl, rfl⟩
    · simp only [hsg, not_false_eq_true, ↓reduceIte, Prod.mk.injEq] at hG hH
      obtain ⟨rfl, rfl⟩ := hG
      obtain ⟨rfl, rfl⟩ := hH
      exact ⟨rfl, rfl, rfl, rfl⟩
  · rw [hsl] at g3
    simp only [g1, g3, ne_eq, reduceCtorEq, not_false_eq_true, ↓reduceIte, Prod.mk.injEq] at hG hH
    obtain ⟨rfl, rfl⟩ := hG
    obtain ⟨rfl, rfl⟩ := hH
    exact ⟨rfl, rfl, rfl, rfl⟩

/-! ### BaseReader.ReadVarHeader (up to the bytes handed to Deserialize) = readVarHeaderBytes -/

/-- **BaseReader.ReadVarHeader**, the part that touches the source = `ReaderIO.readVarHeaderBytes`:
    `FrameDecoder.Next`, the size check against `VarHdrContentSizeLimit`, ONE `io.ReadFull` of the
    whole remaining frame; on success exactly those bytes are handed to `VarHeader.Deserialize`. -/
theorem readVarHeader_eq (r : Rs) (rd : Rd) (h : Rel r rd) :
    Rel (readVarHeader r).1 (readVarHeaderBytes rd).1 ∧
    (readVarHeader r).1.dec = r.dec.withFd (readVarHeaderBytes rd).1.fd ∧
    (match (readVarHeaderBytes rd).2 with
     | .ok bytes => (readVarHeader r).2 = (none, some bytes)
     | .error e => (readVarHeader r).2 = (some e, none)) := by
  obtain ⟨hc, hfd, htree, hcount⟩ := h
  rcases hG : readVarHeader r with ⟨r', e', hb'⟩
  rcases hH : readVarHeaderBytes rd with ⟨rd', res⟩
  simp only
  unfold Stef.Gen.LoadFlow.readVarHeader at hG
  unfold readVarHeaderBytes at hH
  rw [next_eq r.dec hc] at hG
  rw [hfd] at hH
  rcases hn : r.dec.fd.next with ⟨f1, e1⟩
  simp only [hn] at hG hH
  cases e1 with
  | some e =>
    simp only [reduceCtorEq, ↓reduceIte, ne_eq, not_false_eq_true, Prod.mk.injEq] at hG hH
    obtain ⟨rfl, rfl, rfl⟩ := hG
    obtain ⟨rfl, rfl⟩ := hH
    exact ⟨⟨hc, rfl, htree, hcount⟩, rfl, rfl⟩
  | none =>
    simp only [↓reduceIte, ne_eq, not_true_eq_false, withFd_fd] at hG hH
    by_cases hsz : f1.remaining > Stef.Gen.varHdrContentSizeLimit
    · simp only [hsz, ↓reduceIte, Prod.mk.injEq] at hG hH
      obtain ⟨rfl, rfl, rfl⟩ := hG
      obtain ⟨rfl, rfl⟩ := hH
      exact ⟨⟨hc, rfl, htree, hcount⟩, rfl, rfl⟩
    · simp only [hsz, ↓reduceIte] at hG hH
      have hc1 : (r.dec.withFd f1).compression = Stef.Gen.compressionNone := hc
      rcases fdReadFull_cases (r.dec.withFd f1) (mkBytes f1.remaining) hc1 with
        ⟨f2, bytes, g1, _, g3⟩ | ⟨f2, buf, e, g1, g3⟩
      · simp only [mkBytes, List.length_replicate, withFd_fd, withFd_withFd] at g1 g3
        simp only [mkBytes, g1, g3, ne_eq, not_true_eq_false, ↓reduceIte, Prod.mk.injEq] at hG hH
        obtain ⟨rfl, rfl, rfl⟩ := hG
        obtain ⟨rfl, rfl⟩ := hH
        exact ⟨⟨hc, rfl, htree, hcount⟩, rfl, rfl⟩
      · simp only [mkBytes, List.length_replicate, withFd_fd, withFd_withFd] at g1 g3
        simp only [mkBytes, g1, g3, reduceCtorEq, ↓reduceIte, ne_eq, not_false_eq_true, Prod.mk.injEq] at hG hH
        obtain ⟨rfl, rfl, rfl⟩ := hG
        obtain ⟨rfl, rfl⟩ := hH
        exact ⟨⟨hc, rfl, htree, hcount⟩, rfl, rfl⟩

/-- the vocabulary's reading of `r.Source` / `&r.FrameDecoder` / `RemainingSize()` is what the source says. -/
theorem init_wiring : initWiring = true := rfl

end Stef.Proofs.LoadFlowGen
