import Stef.Codec
import Stef.Proofs.Varint
import Stef.Proofs.Bits

namespace Stef.Codec

/-- one step of the delta-of-delta codec: the decoder reproduces the value and ends in the same
    state as the encoder, whatever bytes follow. Wrap-around included (all arithmetic mod 2^64). -/
theorem dod_step (c : Dod) (v : Word) (rest : Bytes) :
    c.decode ((c.encode v).2 ++ rest) = some ((c.encode v).1, v, rest) := by
  simp only [Dod.encode, Dod.decode, Varint.decodeSigned_encodeSigned]
  have h1 : c.lastDelta + (v - c.lastVal - c.lastDelta) = v - c.lastVal := by bv_omega
  have h2 : c.lastVal + (v - c.lastVal) = v := by bv_omega
  simp [h1, h2]

/-- encode a whole column -/
def Dod.encodeAll (c : Dod) : List Word → Dod × Bytes
  | [] => (c, [])
  | v :: vs =>
    let (c1, b1) := c.encode v
    let (c2, b2) := Dod.encodeAll c1 vs
    (c2, b1 ++ b2)

def Dod.decodeAll (c : Dod) : Nat → Bytes → Option (Dod × List Word × Bytes)
  | 0, buf => some (c, [], buf)
  | n + 1, buf =>
    match c.decode buf with
    | none => none
    | some (c1, v, rest) =>
      match Dod.decodeAll c1 n rest with
      | none => none
      | some (c2, vs, rest') => some (c2, v :: vs, rest')

/-- **dod_roundtrip**: any sequence of 64-bit values, from any (synchronised) codec state -
    in particular across frames with or without codec reset. -/
theorem dod_roundtrip (c : Dod) (vs : List Word) (rest : Bytes) :
    Dod.decodeAll c vs.length ((Dod.encodeAll c vs).2 ++ rest) = some ((Dod.encodeAll c vs).1, vs, rest) := by
  induction vs generalizing c with
  | nil => simp [Dod.encodeAll, Dod.decodeAll]
  | cons v vs ih =>
    simp only [Dod.encodeAll, List.length_cons, Dod.decodeAll, List.append_assoc]
    rw [dod_step c v]
    simp only
    rw [ih]

end Stef.Codec

namespace Stef.Codec
open Stef.Spec

theorem lz_tz_le (x : Word) (hx : x ≠ 0#64) : lz x + tz x ≤ 63 := by
  have h1 := BitVec.two_pow_ctz_le_toNat_of_ne_zero hx
  have h2 := BitVec.toNat_lt_two_pow_sub_clz (x := x)
  have h3 : 2 ^ (tz x) < 2 ^ (64 - lz x) := Nat.lt_of_le_of_lt h1 h2
  have h4 := (Nat.pow_lt_pow_iff_right (by omega : 1 < 2)).mp h3
  unfold lz tz at *
  omega

theorem shr_shl_of_le_tz (x : Word) (t : Nat) (ht : t ≤ tz x) : (x >>> t) <<< t = x := by
  apply BitVec.eq_of_getLsbD_eq
  intro j hj
  rw [BitVec.getLsbD_shiftLeft, BitVec.getLsbD_ushiftRight]
  by_cases h : j < t
  · have : x.getLsbD j = false := BitVec.getLsbD_false_of_lt_ctz (by unfold tz at ht; omega)
    simp [h, this]
  · have e : t + (j - t) = j := by omega
    simp [h, hj, e]

theorem shr_lt_of_le_lz (x : Word) (l t : Nat) (hl : l ≤ lz x) (hlt : l + t ≤ 64) :
    (x >>> t).toNat < 2 ^ (64 - l - t) := by
  have h2 := BitVec.toNat_lt_two_pow_sub_clz (x := x)
  have h3 : x.toNat < 2 ^ (64 - l) :=
    Nat.lt_of_lt_of_le h2 (Nat.pow_le_pow_right (by omega) (by unfold lz at hl; omega))
  rw [BitVec.toNat_ushiftRight, Nat.shiftRight_eq_div_pow]
  apply Nat.div_lt_of_lt_mul
  have e : 2 ^ (64 - l) = 2 ^ t * 2 ^ (64 - l - t) := by
    rw [← Nat.pow_add]; congr 1; omega
  rw [← e]; exact h3

end Stef.Codec

namespace Stef.Codec
open Stef.Spec

/-- codec-state invariant of the float encoder: the window is a real window. -/
def F64.Ok (c : F64) : Prop := c.lead ≤ 31 ∧ c.lead + c.trail ≤ 63

theorem f64_ok_init : F64.Ok {} := by simp [F64.Ok]

/-- decoder column state in sync with the encoder state -/
def Sync (cs : ColSt) (c : F64) : Prop :=
  cs.fLast = c.last ∧ cs.fLead = c.lead ∧ cs.fTrail = c.trail

theorem ofNat_toNat_small (n : Nat) (h : n < 2 ^ 64) : (BitVec.ofNat 64 n).toNat = n := by
  simp [BitVec.toNat_ofNat]; omega

/-- **one step of the float codec**: for every previous state and every new bit pattern, the
    specification decoder reads the value back, consumes exactly the appended bits and ends in
    the encoder's new state. -/
theorem f64_step (c : F64) (cs : ColSt) (v : Word) (rest : Bits) (hok : c.Ok) (hs : Sync cs c) :
    f64Decode { cs with bits := (c.encodeBits v).2 ++ rest } =
      some ({ cs with bits := rest, fLast := v, fLead := (c.encodeBits v).1.lead,
                      fTrail := (c.encodeBits v).1.trail }, v)
    ∧ (c.encodeBits v).1.Ok ∧ (c.encodeBits v).1.last = v := by
  obtain ⟨hl, hlt⟩ := hok
  obtain ⟨s1, s2, s3⟩ := hs
  unfold F64.encodeBits
  by_cases hx : v ^^^ c.last = 0#64
  · -- identical value
    have hv : v = c.last := by
      have := BitVec.xor_eq_zero_iff.mp hx; exact this
    simp only [hx, ↓reduceIte, List.cons_append, List.nil_append, f64Decode]
    refine ⟨?_, ⟨hl, hlt⟩, ?_⟩
    · simp [s1, s2, s3, hv]
    · first | rfl | trivial
  · simp only [hx, ↓reduceIte]
    generalize hxd : v ^^^ c.last = x at hx ⊢
    have hlz := lz_tz_le x hx
    by_cases hw : (if lz x ≥ 32 then 31 else lz x) ≥ c.lead ∧ tz x ≥ c.trail ∧
        53 - (c.lead : Int) - (c.trail : Int) ≤ ((64 - (if lz x ≥ 32 then 31 else lz x) - tz x : Nat) : Int)
    · -- previous window
      simp only [hw, and_self, ↓reduceIte, List.cons_append, List.nil_append, f64Decode]
      have hlead : c.lead ≤ lz x := by
        have := hw.1; split at this <;> omega
      have hbound := shr_lt_of_le_lz x c.lead c.trail hlead (by omega)
      rw [s2, s3, readBits_lowBits (x >>> c.trail) (64 - c.lead - c.trail) rest (by omega) hbound]
      simp only
      rw [shr_shl_of_le_tz x c.trail hw.2.1, s1, ← hxd]
      have : v ^^^ c.last ^^^ c.last = v := by
        rw [BitVec.xor_assoc, BitVec.xor_self, BitVec.xor_zero]
      rw [this]
      refine ⟨rfl, ⟨hl, hlt⟩, ?_⟩
      first | rfl | trivial
    · -- new window
      simp only [hw, ↓reduceIte, List.cons_append, List.nil_append, List.append_assoc, f64Decode]
      generalize hL : (if lz x ≥ 32 then 31 else lz x) = L
      have hL31 : L ≤ 31 := by rw [← hL]; split <;> omega
      have hLlz : L ≤ lz x := by rw [← hL]; split <;> omega
      have hsig : 1 ≤ 64 - L - tz x := by omega
      have r5 : readBits 5 (lowBits (BitVec.ofNat 64 L) 5 ++
          (lowBits (BitVec.ofNat 64 (64 - L - tz x - 1)) 6 ++ (lowBits (x >>> tz x) (64 - L - tz x) ++ rest)))
          = some (BitVec.ofNat 64 L, _) :=
        readBits_lowBits _ 5 _ (by omega) (by rw [ofNat_toNat_small L (by omega)]; omega)
      rw [r5]
      simp only
      have r6 : readBits 6 (lowBits (BitVec.ofNat 64 (64 - L - tz x - 1)) 6 ++ (lowBits (x >>> tz x) (64 - L - tz x) ++ rest))
          = some (BitVec.ofNat 64 (64 - L - tz x - 1), _) :=
        readBits_lowBits _ 6 _ (by omega) (by rw [ofNat_toNat_small _ (by omega)]; omega)
      rw [r6]
      simp only
      rw [ofNat_toNat_small L (by omega), ofNat_toNat_small (64 - L - tz x - 1) (by omega)]
      have e1 : 64 - L - tz x - 1 + 1 = 64 - L - tz x := by omega
      rw [e1]
      have hnot : ¬ (L + (64 - L - tz x) > 64) := by omega
      simp only [hnot, ↓reduceIte]
      have hbound := shr_lt_of_le_lz x L (tz x) hLlz (by omega)
      rw [readBits_lowBits (x >>> tz x) (64 - L - tz x) rest (by omega) hbound]
      simp only
      have e2 : 64 - L - (64 - L - tz x) = tz x := by omega
      rw [e2, shr_shl_of_le_tz x (tz x) (Nat.le_refl _), s1, ← hxd]
      have : v ^^^ c.last ^^^ c.last = v := by
        rw [BitVec.xor_assoc, BitVec.xor_self, BitVec.xor_zero]
      rw [this]
      refine ⟨rfl, ?_, ?_⟩
      · simp only [F64.Ok]; rw [hxd]; omega
      · first | rfl | trivial

end Stef.Codec

namespace Stef.Codec
open Stef.Spec

theorem lowBits_two_one : lowBits 0b10#64 2 = [true, false] := by decide
theorem lowBits_hdr (L S : Nat) (hL : L < 32) (hS : S < 64) :
    lowBits (((0b11#64 <<< 5 ||| BitVec.ofNat 64 L) <<< 6) ||| BitVec.ofNat 64 S) 13
      = [true, true] ++ lowBits (BitVec.ofNat 64 L) 5 ++ lowBits (BitVec.ofNat 64 S) 6 := by
  have h1 := lowBits_concat (0b11#64 <<< 5 ||| BitVec.ofNat 64 L) (BitVec.ofNat 64 S) 7 6 (by omega)
    (by rw [ofNat_toNat_small S (by omega)]; omega)
  have h2 := lowBits_concat 0b11#64 (BitVec.ofNat 64 L) 2 5 (by omega)
    (by rw [ofNat_toNat_small L (by omega)]; omega)
  have h3 : lowBits 0b11#64 2 = [true, true] := by decide
  simp only [Nat.reduceAdd] at h1 h2
  rw [h1, h2, h3]

/-- the register-level encoder (`Float64Encoder.Encode` over `BitsWriter`) appends exactly the
    bits of the specification-level encoder, at every alignment, and moves to the same state. -/
theorem f64_encodeW_spec (c : F64) (w : BitsWriter) (v : Word) (hok : c.Ok) (hI : w.Inv) :
    (c.encodeW w v).2.1.toBits = w.toBits ++ (c.encodeBits v).2 ∧
    (c.encodeW w v).1 = (c.encodeBits v).1 ∧ (c.encodeW w v).2.1.Inv := by
  obtain ⟨hl, hlt⟩ := hok
  unfold F64.encodeW F64.encodeBits
  by_cases hx : v ^^^ c.last = 0#64
  · simp only [hx, ↓reduceIte]
    have := BitsWriter.writeBit_spec w 0#64 hI (by decide)
    exact ⟨by simpa using this.1, trivial, this.2⟩
  · simp only [hx, ↓reduceIte]
    generalize hxd : v ^^^ c.last = x at hx ⊢
    have hlz := lz_tz_le x hx
    by_cases hw : (if lz x ≥ 32 then 31 else lz x) ≥ c.lead ∧ tz x ≥ c.trail ∧
        53 - (c.lead : Int) - (c.trail : Int) ≤ ((64 - (if lz x ≥ 32 then 31 else lz x) - tz x : Nat) : Int)
    · simp only [hw, and_self, ↓reduceIte]
      have hlead : c.lead ≤ lz x := by
        have := hw.1; split at this <;> omega
      have hbound := shr_lt_of_le_lz x c.lead c.trail hlead (by omega)
      have s1 := BitsWriter.writeBits_spec w 0b10#64 2 hI (by omega) (by decide)
      have s2 := BitsWriter.writeBits_spec _ (x >>> c.trail) (64 - c.lead - c.trail) s1.2 (by omega) hbound
      refine ⟨?_, trivial, s2.2⟩
      rw [s2.1, s1.1, lowBits_two_one]
      simp [List.append_assoc]
    · simp only [hw, ↓reduceIte]
      generalize hL : (if lz x ≥ 32 then 31 else lz x) = L
      have hL31 : L ≤ 31 := by rw [← hL]; split <;> omega
      have hLlz : L ≤ lz x := by rw [← hL]; split <;> omega
      have hbound := shr_lt_of_le_lz x L (tz x) hLlz (by omega)
      have hhdr := lowBits_hdr L (64 - L - tz x - 1) (by omega) (by omega)
      have hfit : (((0b11#64 <<< 5 ||| BitVec.ofNat 64 L) <<< 6) ||| BitVec.ofNat 64 (64 - L - tz x - 1)).toNat < 2 ^ 13 := by
        have hL' : (BitVec.ofNat 64 L).toNat < 2 ^ 5 := by rw [ofNat_toNat_small L (by omega)]; omega
        have hS' : (BitVec.ofNat 64 (64 - L - tz x - 1)).toNat < 2 ^ 6 := by
          rw [ofNat_toNat_small _ (by omega)]; omega
        have a1 : (0b11#64 <<< 5 ||| BitVec.ofNat 64 L).toNat < 2 ^ 7 := by
          rw [BitVec.toNat_or]
          apply Nat.or_lt_two_pow
          · decide
          · omega
        rw [BitVec.toNat_or]
        apply Nat.or_lt_two_pow
        · rw [BitVec.toNat_shiftLeft, Nat.shiftLeft_eq]
          have : (0b11#64 <<< 5 ||| BitVec.ofNat 64 L).toNat * 2 ^ 6 < 2 ^ 13 := by
            have : (2:Nat) ^ 13 = 2 ^ 7 * 2 ^ 6 := by decide
            rw [this]; exact Nat.mul_lt_mul_of_pos_right a1 (by decide)
          rw [Nat.mod_eq_of_lt (by omega)]
          exact this
        · omega
      have s1 := BitsWriter.writeBits_spec w _ 13 hI (by omega) hfit
      have s2 := BitsWriter.writeBits_spec _ (x >>> tz x) (64 - L - tz x) s1.2 (by omega) hbound
      refine ⟨?_, trivial, s2.2⟩
      rw [s2.1, s1.1, hhdr]
      simp [List.append_assoc]

end Stef.Codec

namespace Stef.Codec

theorem msb_ofNat_small (n : Nat) (h : n < 2 ^ 63) : (BitVec.ofNat 64 n).msb = false := by
  rw [BitVec.msb_eq_decide]
  simp only [BitVec.toNat_ofNat, decide_eq_false_iff_not, Nat.not_le]
  have : n % 2 ^ 64 = n := Nat.mod_eq_of_lt (by omega)
  omega

theorem neg_ref (i : Nat) (h : i < 2 ^ 63) :
    (0#64 - BitVec.ofNat 64 i - 1#64).msb = true ∧
    (0#64 - (0#64 - BitVec.ofNat 64 i - 1#64) - 1#64).toNat = i := by
  constructor
  · rw [BitVec.msb_eq_decide]
    simp only [decide_eq_true_eq]
    have : (0#64 - BitVec.ofNat 64 i - 1#64).toNat = 2 ^ 64 - 1 - i := by
      have hi : (BitVec.ofNat 64 i).toNat = i := ofNat_toNat_small i (by omega)
      bv_omega
    omega
  · have hi : (BitVec.ofNat 64 i).toNat = i := ofNat_toNat_small i (by omega)
    bv_omega

/-- **one step of the dictionary string codec**: with synchronised dictionaries the decoder
    returns the value, consumes exactly the bytes appended and ends with the encoder's
    dictionary - a reference resolves to the same value on both sides, a direct value of
    length ≥ 2 is admitted on both sides at the same RefNum. -/
theorem strDict_step (d : List Bytes) (v rest : Bytes) (hd : d.length < 2 ^ 63) (hv : v.length < 2 ^ 63) :
    strDictDecode d ((strDictEncode d v).2.1 ++ rest) = .ok ((strDictEncode d v).1, v, rest) := by
  unfold strDictEncode
  cases hf : WDict.find d v with
  | some i =>
    simp only
    unfold WDict.find at hf
    obtain ⟨hi, hp, _⟩ := List.findIdx?_eq_some_iff_getElem.mp hf
    have hiv : d[i] = v := by simpa using hp
    have hn := neg_ref i (by omega)
    unfold strDictDecode
    rw [Varint.decodeSigned_encodeSigned]
    simp only [hn.1, ↓reduceIte, hn.2]
    rw [List.getElem?_eq_getElem hi, hiv]
  | none =>
    simp only
    have hm := msb_ofNat_small v.length hv
    have hl : (BitVec.ofNat 64 v.length).toNat = v.length := ofNat_toNat_small _ (by omega)
    by_cases h1 : v.length > 1
    · simp only [h1, ↓reduceIte, strEncode, strDictDecode, List.append_assoc]
      rw [Varint.decodeSigned_encodeSigned]
      have h0 : ¬ v.length = 0 := by omega
      have hlen : ¬ (v ++ rest).length < v.length := by simp
      simp [hm, hl, h0, hlen, h1]
    · simp only [h1, ↓reduceIte, strEncode, strDictDecode, List.append_assoc]
      rw [Varint.decodeSigned_encodeSigned]
      by_cases h0 : v.length = 0
      · have : v = [] := List.eq_nil_of_length_eq_zero h0
        subst this
        simp [hm, hl]
      · have hlen : ¬ (v ++ rest).length < v.length := by simp
        simp [hm, hl, h0, hlen, h1]

/-- plain (non-dictionary) strings -/
theorem str_step (v rest : Bytes) (hv : v.length < 2 ^ 63) :
    strDecode (strEncode v ++ rest) = .ok (v, rest) := by
  have hm := msb_ofNat_small v.length hv
  have hl : (BitVec.ofNat 64 v.length).toNat = v.length := ofNat_toNat_small _ (by omega)
  simp only [strEncode, strDecode, List.append_assoc]
  rw [Varint.decodeSigned_encodeSigned]
  by_cases h0 : v.length = 0
  · have : v = [] := List.eq_nil_of_length_eq_zero h0
    subst this
    simp [hm, hl]
  · have hlen : ¬ (v ++ rest).length < v.length := by simp
    simp [hm, hl, h0, hlen]

/-- a value that is in the dictionary is always written as a reference, never in full. -/
theorem strDict_ref_when_present (d : List Bytes) (v : Bytes) (h : v ∈ d) :
    ∃ i, (strDictEncode d v).2.1 = Varint.encodeSigned (0#64 - BitVec.ofNat 64 i - 1#64) ∧ d[i]? = some v := by
  unfold strDictEncode WDict.find
  have hex : ∃ x, x ∈ d ∧ (decide (x = v)) = true := ⟨v, h, by simp⟩
  cases hf : List.findIdx? (fun x => decide (x = v)) d with
  | none =>
    have := List.findIdx?_eq_none_iff.mp hf v h
    simp at this
  | some i =>
    obtain ⟨hi, hp, _⟩ := List.findIdx?_eq_some_iff_getElem.mp hf
    refine ⟨i, rfl, ?_⟩
    rw [List.getElem?_eq_getElem hi]
    simpa using hp

end Stef.Codec

namespace Stef.Codec
open Stef.Spec

def F64.encodeAllBits (c : F64) : List Word → F64 × Bits
  | [] => (c, [])
  | v :: vs =>
    let (c1, b1) := c.encodeBits v
    let (c2, b2) := F64.encodeAllBits c1 vs
    (c2, b1 ++ b2)

def f64DecodeAll (cs : ColSt) : Nat → Option (ColSt × List Word)
  | 0 => some (cs, [])
  | n + 1 =>
    match f64Decode cs with
    | none => none
    | some (cs1, v) =>
      match f64DecodeAll cs1 n with
      | none => none
      | some (cs2, vs) => some (cs2, v :: vs)

/-- **gorilla_roundtrip**: every sequence of 64-bit patterns (NaN payloads, infinities, signed
    zeros, anything), from any synchronised codec state. -/
theorem f64_roundtrip (c : F64) (cs : ColSt) (vs : List Word) (rest : Bits) (hok : c.Ok) (hs : Sync cs c) :
    ∃ cs', f64DecodeAll { cs with bits := (F64.encodeAllBits c vs).2 ++ rest } vs.length = some (cs', vs) ∧
      cs'.bits = rest ∧ Sync cs' (F64.encodeAllBits c vs).1 := by
  induction vs generalizing c cs with
  | nil => exact ⟨{ cs with bits := rest }, by simp [F64.encodeAllBits, f64DecodeAll], rfl, hs⟩
  | cons v vs ih =>
    obtain ⟨hstep, hok', hlast⟩ := f64_step c cs v ((F64.encodeAllBits (c.encodeBits v).1 vs).2 ++ rest) hok hs
    simp only [F64.encodeAllBits, List.length_cons, f64DecodeAll, List.append_assoc]
    rw [hstep]
    simp only
    have hs' : Sync ({ cs with bits := (F64.encodeAllBits (c.encodeBits v).1 vs).2 ++ rest, fLast := v, fLead := (c.encodeBits v).1.lead, fTrail := (c.encodeBits v).1.trail } : ColSt) (c.encodeBits v).1 := ⟨hlast.symm, rfl, rfl⟩
    obtain ⟨cs', h1, h2, h3⟩ := ih (c.encodeBits v).1 _ hok' hs'
    simp only at h1
    refine ⟨cs', ?_, h2, h3⟩
    rw [h1]

end Stef.Codec
