import Stef.Reader
import Stef.Proofs.Varint

namespace Stef.Reader
open Stef.Varint

theorem readByte_cons (s : Src) (b : Byte) (rest : Bytes) (h : s.data = b :: rest) :
    s.readByte = ({ s with data := rest, accesses := s.accesses + 1 }, .ok b) := by
  simp [Src.readByte, h]

/-- `binary.ReadUvarint` over the source reads back an encoded value and leaves the rest. -/
theorem readUvarintAux_enc (v : Nat) : ∀ (i shift acc fuel : Nat) (s : Src) (rest : Bytes),
    i ≤ 9 → v < 2 ^ (64 - 7 * i) → 10 ≤ fuel + i → s.data = encodeNat v ++ rest →
    ∃ s', Src.readUvarintAux fuel s shift acc i = (s', .ok (acc + v * 2 ^ shift)) ∧
      s'.data = rest ∧ s'.sched = s.sched := by
  induction v using Nat.strongRecOn with
  | _ v ih =>
    intro i shift acc fuel s rest hi hv hfuel hd
    cases fuel with
    | zero => omega
    | succ fuel =>
    by_cases h : v < 128
    · rw [encodeNat_lt v h] at hd
      have hb : (BitVec.ofNat 8 v).toNat = v := by simp [BitVec.toNat_ofNat]; omega
      simp only [Src.readUvarintAux, readByte_cons s _ rest (by simpa using hd), hb, h, ↓reduceIte]
      have h9 : ¬ (i = 9 ∧ v > 1) := by
        intro ⟨h9, hv1⟩
        subst h9
        simp at hv
        omega
      simp only [h9, ↓reduceIte]
      exact ⟨_, rfl, rfl, rfl⟩
    · rw [encodeNat_ge v h] at hd
      have hi8 : i ≤ 8 := by
        rcases Nat.lt_or_ge i 9 with h' | h'
        · omega
        · have : i = 9 := by omega
          subst this
          simp at hv
          omega
      have hb : (BitVec.ofNat 8 (v % 128 + 128)).toNat = v % 128 + 128 := by
        simp [BitVec.toNat_ofNat]; omega
      have hge : ¬ (v % 128 + 128 < 128) := by omega
      simp only [Src.readUvarintAux,
        readByte_cons s _ (encodeNat (v / 128) ++ rest) (by simpa using hd), hb, hge, ↓reduceIte]
      have hlt : v / 128 < v := by omega
      have hv' : v / 128 < 2 ^ (64 - 7 * (i + 1)) := by
        have e : 2 ^ (64 - 7 * i) = 2 ^ (64 - 7 * (i + 1)) * 128 := by
          have : 64 - 7 * i = (64 - 7 * (i + 1)) + 7 := by omega
          rw [this, Nat.pow_add]
        rw [e] at hv
        exact Nat.div_lt_of_lt_mul (by rw [Nat.mul_comm]; exact hv)
      obtain ⟨s', h1, h2, h3⟩ := ih (v / 128) hlt (i + 1) (shift + 7)
        (acc + (v % 128 + 128 - 128) * 2 ^ shift) fuel
        { s with data := encodeNat (v / 128) ++ rest, accesses := s.accesses + 1 } rest
        (by omega) hv' (by omega) rfl
      refine ⟨s', ?_, h2, h3⟩
      rw [h1]
      congr 2
      have e1 : v % 128 + 128 - 128 = v % 128 := by omega
      rw [e1, Nat.pow_add]
      have h128 : (2:Nat) ^ 7 = 128 := rfl
      rw [h128]
      have : (v % 128 + 128 * (v / 128)) * 2 ^ shift
          = v % 128 * 2 ^ shift + v / 128 * (2 ^ shift * 128) := by
        have h2 : 128 * (v / 128) * 2 ^ shift = v / 128 * (2 ^ shift * 128) := by
          rw [Nat.mul_comm 128 (v / 128), Nat.mul_assoc, Nat.mul_comm 128 (2 ^ shift)]
        rw [Nat.add_mul, h2]
      rw [Nat.mod_add_div] at this
      omega

theorem readUvarint_enc (v : Nat) (s : Src) (rest : Bytes) (hv : v < 2 ^ 64)
    (hd : s.data = encodeNat v ++ rest) :
    ∃ s', s.readUvarint = (s', .ok v) ∧ s'.data = rest ∧ s'.sched = s.sched := by
  obtain ⟨s', h1, h2, h3⟩ := readUvarintAux_enc v 0 0 0 10 s rest (by omega) (by simpa using hv) (by omega) hd
  exact ⟨s', by simpa [Src.readUvarint] using h1, h2, h3⟩

end Stef.Reader

namespace Stef.Reader
open Stef.Varint

/-- `binary.ReadUvarint(&FrameDecoder)`: same, with the frame's remaining size going down. -/
theorem fdReadUvarintAux_enc (v : Nat) : ∀ (i shift acc fuel : Nat) (r : Rd) (rest : Bytes),
    i ≤ 9 → v < 2 ^ (64 - 7 * i) → 10 ≤ fuel + i → r.src.data = encodeNat v ++ rest →
    (encodeNat v).length ≤ r.remaining →
    ∃ src', fdReadUvarintAux fuel r shift acc i =
        ({ r with src := src', remaining := r.remaining - (encodeNat v).length }, .ok (acc + v * 2 ^ shift)) ∧
      src'.data = rest ∧ src'.sched = r.src.sched := by
  induction v using Nat.strongRecOn with
  | _ v ih =>
    intro i shift acc fuel r rest hi hv hfuel hd hrem
    cases fuel with
    | zero => omega
    | succ fuel =>
    by_cases h : v < 128
    · rw [encodeNat_lt v h] at hd hrem
      have hb : (BitVec.ofNat 8 v).toNat = v := by simp [BitVec.toNat_ofNat]; omega
      have hr0 : ¬ r.remaining = 0 := by simp at hrem; omega
      simp only [fdReadUvarintAux, hr0, ↓reduceIte,
        readByte_cons r.src _ rest (by simpa using hd), hb, h]
      have h9 : ¬ (i = 9 ∧ v > 1) := by
        intro ⟨h9, hv1⟩
        subst h9
        simp at hv
        omega
      simp only [h9, ↓reduceIte]
      refine ⟨{ r.src with data := rest, accesses := r.src.accesses + 1 }, ?_, rfl, rfl⟩
      rw [encodeNat_lt v h]; simp
    · have henc := encodeNat_ge v h
      rw [henc] at hd hrem
      have hi8 : i ≤ 8 := by
        rcases Nat.lt_or_ge i 9 with h' | h'
        · omega
        · have : i = 9 := by omega
          subst this
          simp at hv
          omega
      have hb : (BitVec.ofNat 8 (v % 128 + 128)).toNat = v % 128 + 128 := by
        simp [BitVec.toNat_ofNat]; omega
      have hge : ¬ (v % 128 + 128 < 128) := by omega
      have hr0 : ¬ r.remaining = 0 := by simp at hrem; omega
      simp only [fdReadUvarintAux, hr0, ↓reduceIte,
        readByte_cons r.src _ (encodeNat (v / 128) ++ rest) (by simpa using hd), hb, hge]
      have hlt : v / 128 < v := by omega
      have hv' : v / 128 < 2 ^ (64 - 7 * (i + 1)) := by
        have e : 2 ^ (64 - 7 * i) = 2 ^ (64 - 7 * (i + 1)) * 128 := by
          have : 64 - 7 * i = (64 - 7 * (i + 1)) + 7 := by omega
          rw [this, Nat.pow_add]
        rw [e] at hv
        exact Nat.div_lt_of_lt_mul (by rw [Nat.mul_comm]; exact hv)
      obtain ⟨src', h1, h2, h3⟩ := ih (v / 128) hlt (i + 1) (shift + 7)
        (acc + (v % 128 + 128 - 128) * 2 ^ shift) fuel
        { r with src := { r.src with data := encodeNat (v / 128) ++ rest, accesses := r.src.accesses + 1 },
                 remaining := r.remaining - 1 } rest
        (by omega) hv' (by omega) rfl
        (by have hrem' : (encodeNat (v / 128)).length + 1 ≤ r.remaining := by simpa using hrem
            show (encodeNat (v / 128)).length ≤ r.remaining - 1
            omega)
      have hnum : acc + (v % 128 + 128 - 128) * 2 ^ shift + v / 128 * 2 ^ (shift + 7) = acc + v * 2 ^ shift := by
        have e1 : v % 128 + 128 - 128 = v % 128 := by omega
        rw [e1, Nat.pow_add]
        have h128 : (2:Nat) ^ 7 = 128 := rfl
        rw [h128]
        have : (v % 128 + 128 * (v / 128)) * 2 ^ shift
            = v % 128 * 2 ^ shift + v / 128 * (2 ^ shift * 128) := by
          have h2 : 128 * (v / 128) * 2 ^ shift = v / 128 * (2 ^ shift * 128) := by
            rw [Nat.mul_comm 128 (v / 128), Nat.mul_assoc, Nat.mul_comm 128 (2 ^ shift)]
          rw [Nat.add_mul, h2]
        rw [Nat.mod_add_div] at this
        omega
      have hremeq : r.remaining - 1 - (encodeNat (v / 128)).length
          = r.remaining - ((encodeNat (v / 128)).length + 1) := by omega
      refine ⟨src', ?_, h2, h3⟩
      rw [h1, henc]
      simp only [List.length_cons, hnum, hremeq]

/-- a frame specification a writer can emit -/
def FrameSpec.Wf (f : FrameSpec) : Prop :=
  f.flags ≤ Gen.frameFlagsMask ∧ f.nrec < 2 ^ 64 ∧
  (encodeNat f.nrec ++ f.body).length ≤ Gen.frameSizeLimit

/-- ... and holds at least one record (the writer never emits an empty data frame). -/
def FrameSpec.Wf1 (f : FrameSpec) : Prop := f.Wf ∧ 1 ≤ f.nrec

theorem readFull_exact (s : Src) (b rest : Bytes) (h : s.data = b ++ rest) :
    ∃ s', s.readFull b.length = (s', .ok b) ∧ s'.data = rest ∧ s'.sched = s.sched := by
  unfold Src.readFull
  by_cases h0 : b.length = 0
  · have : b = [] := List.eq_nil_of_length_eq_zero h0
    subst this
    exact ⟨s, by simp, by simpa using h, rfl⟩
  · have hge : s.data.length ≥ b.length := by rw [h]; simp
    simp only [h0, ↓reduceIte, hge]
    refine ⟨{ s with data := s.data.drop b.length, accesses := s.accesses + 1 }, ?_, ?_, rfl⟩
    · simp [h]
    · simp [h]

/-- **loading a complete frame**: with nothing left of the previous frame, a source that starts
    with a well-formed encoded frame yields exactly that frame and leaves what follows. -/
theorem nextFrame_complete (sites : Sites) (hfull : sites.frameContentFull = true) (r : Rd)
    (f : FrameSpec) (rest : Bytes) (hwf : f.Wf) (hrem : r.remaining = 0)
    (hd : r.src.data = encFrame f ++ rest) :
    ∃ src', nextFrame sites r =
        ({ r with src := src', remaining := 0, frameRecordCount := f.nrec, body := f.body,
                  framesLoaded := r.framesLoaded + 1, nextInFrame := 0 }, .ok f.flags) ∧
      src'.data = rest ∧ src'.sched = r.src.sched := by
  obtain ⟨hfl, hn, hsz⟩ := hwf
  have hflag : (BitVec.ofNat 8 f.flags).toNat = f.flags := by
    simp only [BitVec.toNat_ofNat]
    have : Gen.frameFlagsMask = 7 := rfl
    omega
  unfold encFrame at hd
  simp only [List.cons_append, List.nil_append, List.append_assoc] at hd
  -- fdNext
  unfold nextFrame fdNext
  simp only [hrem, ↓reduceIte]
  rw [readByte_cons r.src _ _ hd]
  have hnot : ¬ (BitVec.ofNat 8 f.flags).toNat > Gen.frameFlagsMask := by rw [hflag]; omega
  simp only [hnot, ↓reduceIte]
  have hlen64 : (encodeNat f.nrec ++ f.body).length < 2 ^ 64 := by
    have : Gen.frameSizeLimit = 67108864 := rfl
    omega
  obtain ⟨s1, h1, h1d, h1s⟩ := readUvarint_enc (encodeNat f.nrec ++ f.body).length
    { r.src with data := encodeNat (encodeNat f.nrec ++ f.body).length ++ (encodeNat f.nrec ++ (f.body ++ rest)),
                 accesses := r.src.accesses + 1 }
    (encodeNat f.nrec ++ (f.body ++ rest)) hlen64 rfl
  rw [h1]
  have hnot2 : ¬ (encodeNat f.nrec ++ f.body).length > Gen.frameSizeLimit := by omega
  simp only [hnot2, ↓reduceIte]
  -- record count
  obtain ⟨s2, h2, h2d, h2s⟩ := fdReadUvarintAux_enc f.nrec 0 0 0 10
    { r with src := s1, remaining := (encodeNat f.nrec ++ f.body).length } (f.body ++ rest)
    (by omega) (by simpa using hn) (by omega) (by simpa using h1d) (by simp)
  rw [h2]
  simp only [Nat.pow_zero, Nat.mul_one, Nat.zero_add, hfull, ↓reduceIte]
  have hremb : (encodeNat f.nrec ++ f.body).length - (encodeNat f.nrec).length = f.body.length := by simp
  simp only [hremb]
  obtain ⟨s3, h3, h3d, h3s⟩ := readFull_exact s2 f.body rest h2d
  rw [h3]
  refine ⟨s3, ?_, h3d, ?_⟩
  · simp [hflag]
  · rw [h3s, h2s, h1s]

end Stef.Reader

namespace Stef.Reader
open Stef.Varint

/-! ### truncated input is an error -/

/-- a strict prefix of an encoded varint (and nothing after it) does not decode. -/
theorem readUvarintAux_prefix_err (v : Nat) : ∀ (i shift acc fuel : Nat) (s : Src) (k : Nat),
    k < (encodeNat v).length → s.data = (encodeNat v).take k →
    ∃ s' e, Src.readUvarintAux fuel s shift acc i = (s', .error e) := by
  induction v using Nat.strongRecOn with
  | _ v ih =>
    intro i shift acc fuel s k hk hd
    cases fuel with
    | zero => exact ⟨s, _, rfl⟩
    | succ fuel =>
    by_cases h : v < 128
    · rw [encodeNat_lt v h] at hk hd
      have hk0 : k = 0 := by simpa using hk
      subst hk0
      have : s.data = [] := by simpa using hd
      simp only [Src.readUvarintAux, Src.readByte, this]
      exact ⟨_, _, rfl⟩
    · rw [encodeNat_ge v h] at hk hd
      cases k with
      | zero =>
        have : s.data = [] := by simpa using hd
        simp only [Src.readUvarintAux, Src.readByte, this]
        exact ⟨_, _, rfl⟩
      | succ k =>
        have hb : (BitVec.ofNat 8 (v % 128 + 128)).toNat = v % 128 + 128 := by
          simp [BitVec.toNat_ofNat]; omega
        have hge : ¬ (v % 128 + 128 < 128) := by omega
        have hd' : s.data = BitVec.ofNat 8 (v % 128 + 128) :: (encodeNat (v / 128)).take k := by
          simpa using hd
        simp only [Src.readUvarintAux, readByte_cons s _ _ hd', hb, hge, ↓reduceIte]
        exact ih (v / 128) (by omega) (i + 1) (shift + 7) _ fuel _ k (by simpa using hk) rfl

theorem fdReadUvarintAux_prefix_err (v : Nat) : ∀ (i shift acc fuel : Nat) (r : Rd) (k : Nat),
    k < (encodeNat v).length → r.src.data = (encodeNat v).take k →
    ∃ r' e, fdReadUvarintAux fuel r shift acc i = (r', .error e) := by
  induction v using Nat.strongRecOn with
  | _ v ih =>
    intro i shift acc fuel r k hk hd
    cases fuel with
    | zero => exact ⟨r, _, rfl⟩
    | succ fuel =>
    by_cases hr0 : r.remaining = 0
    · simp only [fdReadUvarintAux, hr0, ↓reduceIte]; exact ⟨_, _, rfl⟩
    by_cases h : v < 128
    · rw [encodeNat_lt v h] at hk hd
      have hk0 : k = 0 := by simpa using hk
      subst hk0
      have : r.src.data = [] := by simpa using hd
      simp only [fdReadUvarintAux, hr0, ↓reduceIte, Src.readByte, this]
      exact ⟨_, _, rfl⟩
    · rw [encodeNat_ge v h] at hk hd
      cases k with
      | zero =>
        have : r.src.data = [] := by simpa using hd
        simp only [fdReadUvarintAux, hr0, ↓reduceIte, Src.readByte, this]
        exact ⟨_, _, rfl⟩
      | succ k =>
        have hb : (BitVec.ofNat 8 (v % 128 + 128)).toNat = v % 128 + 128 := by
          simp [BitVec.toNat_ofNat]; omega
        have hge : ¬ (v % 128 + 128 < 128) := by omega
        have hd' : r.src.data = BitVec.ofNat 8 (v % 128 + 128) :: (encodeNat (v / 128)).take k := by
          simpa using hd
        simp only [fdReadUvarintAux, hr0, ↓reduceIte, readByte_cons r.src _ _ hd', hb, hge]
        exact ih (v / 128) (by omega) (i + 1) (shift + 7) _ fuel _ k (by simpa using hk) rfl

theorem readFull_short_err (s : Src) (n : Nat) (h : s.data.length < n) :
    ∃ s' e, s.readFull n = (s', .error e) := by
  unfold Src.readFull
  have h0 : ¬ n = 0 := by omega
  have h1 : ¬ s.data.length ≥ n := by omega
  simp only [h0, ↓reduceIte, h1]
  split <;> exact ⟨_, _, rfl⟩

/-- **a truncated frame is never loaded**: if the source holds only a strict prefix of a
    well-formed frame, `nextFrame` returns an error (and therefore no record of that frame
    can ever be returned). -/
theorem nextFrame_truncated (sites : Sites) (hfull : sites.frameContentFull = true) (r : Rd)
    (f : FrameSpec) (hwf : f.Wf) (hrem : r.remaining = 0) (k : Nat)
    (hk : k < (encFrame f).length) (hd : r.src.data = (encFrame f).take k) :
    ∃ r' e, nextFrame sites r = (r', .error e) := by
  obtain ⟨hfl, hn, hsz⟩ := hwf
  have hflag : (BitVec.ofNat 8 f.flags).toNat = f.flags := by
    simp only [BitVec.toNat_ofNat]
    have : Gen.frameFlagsMask = 7 := rfl
    omega
  unfold nextFrame fdNext
  simp only [hrem, ↓reduceIte]
  unfold encFrame at hk hd
  simp only [List.cons_append, List.nil_append, List.append_assoc] at hk hd
  cases k with
  | zero =>
    have : r.src.data = [] := by simpa using hd
    simp only [Src.readByte, this]
    exact ⟨_, _, rfl⟩
  | succ k =>
    simp only [List.take_succ_cons] at hd
    rw [readByte_cons r.src _ _ hd]
    have hnot : ¬ (BitVec.ofNat 8 f.flags).toNat > Gen.frameFlagsMask := by rw [hflag]; omega
    simp only [hnot, ↓reduceIte]
    generalize hC : encodeNat f.nrec ++ f.body = content at hk hd hsz
    have hlen64 : content.length < 2 ^ 64 := by
      have : Gen.frameSizeLimit = 67108864 := rfl
      omega
    -- is the size varint complete?
    by_cases hcut : k < (encodeNat content.length).length
    · -- cut inside the size varint
      have hd2 : ({ r.src with data := (encodeNat content.length ++ content).take k,
                               accesses := r.src.accesses + 1 } : Src).data
          = (encodeNat content.length).take k := by
        simp only [List.take_append]
        have : k - (encodeNat content.length).length = 0 := by omega
        simp [this]
      obtain ⟨s', e, he⟩ := readUvarintAux_prefix_err content.length 0 0 0 10 _ k hcut hd2
      simp only [Src.readUvarint, he]
      exact ⟨_, _, rfl⟩
    · -- size varint complete, content cut
      have hk2 : k - (encodeNat content.length).length < content.length := by
        simp only [List.length_cons, List.length_append] at hk
        omega
      have hd2 : (encodeNat content.length ++ content).take k
          = encodeNat content.length ++ content.take (k - (encodeNat content.length).length) := by
        rw [List.take_append]
        congr 1
        exact List.take_of_length_le (by omega)
      obtain ⟨s1, h1, h1d, h1s⟩ := readUvarint_enc content.length
        { r.src with data := (encodeNat content.length ++ content).take k, accesses := r.src.accesses + 1 }
        (content.take (k - (encodeNat content.length).length)) hlen64 (by simpa using hd2)
      rw [h1]
      have hnot2 : ¬ content.length > Gen.frameSizeLimit := by omega
      simp only [hnot2, ↓reduceIte]
      generalize hj : k - (encodeNat content.length).length = j at hk2 h1d
      -- now the record count varint inside the content
      by_cases hcut2 : j < (encodeNat f.nrec).length
      · have hd3 : s1.data = (encodeNat f.nrec).take j := by
          rw [h1d, ← hC, List.take_append]
          have : j - (encodeNat f.nrec).length = 0 := by omega
          simp [this]
        obtain ⟨r', e, he⟩ := fdReadUvarintAux_prefix_err f.nrec 0 0 0 10
          { r with src := s1, remaining := content.length } j hcut2 hd3
        rw [he]
        exact ⟨_, _, rfl⟩
      · have hd3 : s1.data = encodeNat f.nrec ++ f.body.take (j - (encodeNat f.nrec).length) := by
          rw [h1d, ← hC, List.take_append]
          congr 1
          exact List.take_of_length_le (by omega)
        obtain ⟨s2, h2, h2d, h2s⟩ := fdReadUvarintAux_enc f.nrec 0 0 0 10
          { r with src := s1, remaining := content.length } (f.body.take (j - (encodeNat f.nrec).length))
          (by omega) (by simpa using hn) (by omega) hd3 (by rw [← hC]; simp)
        rw [h2]
        simp only [hfull, ↓reduceIte]
        have hshort : s2.data.length < content.length - (encodeNat f.nrec).length := by
          rw [h2d, ← hC]
          simp only [List.length_take, List.length_append]
          rw [← hC] at hk2
          simp only [List.length_append] at hk2
          omega
        obtain ⟨s3, e, he⟩ := readFull_short_err s2 _ hshort
        rw [he]
        exact ⟨_, _, rfl⟩

end Stef.Reader

namespace Stef.Reader
open Stef.Varint

/-! ### reading whole streams of frames -/

def Rd.AtBoundary (r : Rd) : Prop := r.frameRecordCount = 0 ∧ r.remaining = 0

theorem read_in_frame (sites : Sites) (till : Bool) (fuel : Nat) (r : Rd) (h : r.frameRecordCount ≠ 0) :
    read sites till (fuel + 1) r =
      ({ r with frameRecordCount := r.frameRecordCount - 1, recordCount := r.recordCount + 1,
                nextInFrame := r.nextInFrame + 1 }, .record r.framesLoaded r.nextInFrame) := by
  simp [read, h]

/-- records `j ..` of the current frame, as `readAll` reports them -/
def inFrame (frame start n : Nat) : List (Nat × Nat) := (List.range n).map (fun j => (frame, start + j))

theorem inFrame_succ (frame start n : Nat) :
    inFrame frame start (n + 1) = (frame, start) :: inFrame frame (start + 1) n := by
  simp only [inFrame, List.range_succ_eq_map, List.map_cons, List.map_map, Nat.add_zero]
  congr 1
  apply List.map_congr_left
  intro j _
  simp; omega

/-- draining the loaded frame: `n` reads return its next `n` records without touching the source -/
theorem readAll_drain (sites : Sites) : ∀ (n fuel : Nat) (r : Rd), r.frameRecordCount = n → n ≤ fuel →
    ∃ r', readAll sites fuel r =
        (inFrame r.framesLoaded r.nextInFrame n ++ (readAll sites (fuel - n) r').1,
         (readAll sites (fuel - n) r').2.1, (readAll sites (fuel - n) r').2.2) ∧
      r'.src = r.src ∧ r'.frameRecordCount = 0 ∧ r'.remaining = r.remaining ∧
      r'.framesLoaded = r.framesLoaded := by
  intro n
  induction n with
  | zero =>
    intro fuel r h _
    exact ⟨r, by simp [inFrame], rfl, h, rfl, rfl⟩
  | succ n ih =>
    intro fuel r h hf
    cases fuel with
    | zero => omega
    | succ fuel =>
      have hne : r.frameRecordCount ≠ 0 := by omega
      have hrf : readFuel r = (readFuel r - 1) + 1 := by unfold readFuel; omega
      simp only [readAll]
      rw [hrf, read_in_frame sites false _ r hne]
      simp only
      obtain ⟨r', h1, h2, h3, h4, h5⟩ := ih fuel
        { r with frameRecordCount := r.frameRecordCount - 1, recordCount := r.recordCount + 1,
                 nextInFrame := r.nextInFrame + 1 } (by simp; omega) (by omega)
      refine ⟨r', ?_, h2, h3, h4, h5⟩
      rw [h1]
      simp only [Nat.add_sub_add_right, inFrame_succ, List.cons_append]

theorem read_at_boundary (sites : Sites) (hfull : sites.frameContentFull = true) (r : Rd)
    (f : FrameSpec) (rest : Bytes) (hwf : f.Wf1) (hb : r.AtBoundary)
    (hd : r.src.data = encFrame f ++ rest) (fuel : Nat) :
    ∃ r', read sites false (fuel + 2) r = (r', .record (r.framesLoaded + 1) 0) ∧
      r'.src.data = rest ∧ r'.src.sched = r.src.sched ∧ r'.frameRecordCount = f.nrec - 1 ∧
      r'.remaining = 0 ∧ r'.framesLoaded = r.framesLoaded + 1 ∧ r'.nextInFrame = 1 := by
  obtain ⟨src', h1, h2, h3⟩ := nextFrame_complete sites hfull r f rest hwf.1 hb.2 hd
  have hne : f.nrec ≠ 0 := by have := hwf.2; omega
  simp only [read, hb.1, ↓reduceIte, h1, Bool.false_eq_true]
  simp only [hne, ↓reduceIte]
  exact ⟨_, rfl, h2, h3, rfl, rfl, rfl, rfl⟩

def totalRecs (fs : List FrameSpec) : Nat := (fs.map (·.nrec)).sum

/-- **reading complete frames**: from a frame boundary, a source that starts with the encoding
    of the frames `fs` yields exactly their records, in order, and arrives at a frame boundary
    with the rest of the source untouched. -/
theorem readAll_frames (sites : Sites) (hfull : sites.frameContentFull = true) :
    ∀ (fs : List FrameSpec) (r : Rd) (rest : Bytes) (fuel : Nat),
    (∀ f ∈ fs, f.Wf1) → r.AtBoundary → r.src.data = encFrames fs ++ rest → totalRecs fs ≤ fuel →
    ∃ r', readAll sites fuel r =
        (frameRecords fs r.framesLoaded ++ (readAll sites (fuel - totalRecs fs) r').1,
         (readAll sites (fuel - totalRecs fs) r').2.1, (readAll sites (fuel - totalRecs fs) r').2.2) ∧
      r'.AtBoundary ∧ r'.src.data = rest ∧ r'.src.sched = r.src.sched ∧
      r'.framesLoaded = r.framesLoaded + fs.length := by
  intro fs
  induction fs with
  | nil =>
    intro r rest fuel _ hb hd _
    exact ⟨r, by simp [frameRecords, totalRecs], hb, by simpa [encFrames] using hd, rfl, by simp⟩
  | cons f fs ih =>
    intro r rest fuel hwf hb hd hfuel
    have hwf1 := hwf f (by simp)
    have hn1 : 1 ≤ f.nrec := hwf1.2
    have htot : totalRecs (f :: fs) = f.nrec + totalRecs fs := by simp [totalRecs]
    have hd' : r.src.data = encFrame f ++ (encFrames fs ++ rest) := by
      simpa [encFrames, List.append_assoc] using hd
    cases fuel with
    | zero => omega
    | succ fuel =>
      obtain ⟨r1, h1, h1d, h1s, h1c, h1r, h1f, h1n⟩ :=
        read_at_boundary sites hfull r f (encFrames fs ++ rest) hwf1 hb hd' (readFuel r - 2)
      have hrf : readFuel r = (readFuel r - 2) + 2 := by unfold readFuel; omega
      simp only [readAll]
      rw [hrf, h1]
      simp only
      -- drain the rest of this frame
      obtain ⟨r2, h2, h2s, h2c, h2r, h2f⟩ := readAll_drain sites (f.nrec - 1) fuel r1 h1c (by omega)
      rw [h2]
      -- the remaining frames
      have hb2 : r2.AtBoundary := ⟨h2c, by rw [h2r, h1r]⟩
      obtain ⟨r3, h3, h3b, h3d, h3s, h3f⟩ := ih r2 rest (fuel - (f.nrec - 1))
        (fun g hg => hwf g (by simp [hg])) hb2 (by rw [h2s, h1d]) (by omega)
      rw [h3]
      refine ⟨r3, ?_, h3b, h3d, by rw [h3s, h2s, h1s], by rw [h3f, h2f, h1f]; simp; omega⟩
      have e1 : fuel - (f.nrec - 1) - totalRecs fs = fuel + 1 - totalRecs (f :: fs) := by omega
      rw [e1]
      simp only [frameRecords, h1f, h1n, h2f, List.append_assoc, List.cons_append]
      have hfr : (List.range f.nrec).map (fun i => (r.framesLoaded + 1, i))
          = (r.framesLoaded + 1, 0) :: inFrame (r.framesLoaded + 1) 1 (f.nrec - 1) := by
        obtain ⟨m, hm⟩ : ∃ m, f.nrec = m + 1 := ⟨f.nrec - 1, by omega⟩
        rw [hm]
        have := inFrame_succ (r.framesLoaded + 1) 0 m
        simp only [inFrame, Nat.zero_add] at this
        simp only [Nat.add_sub_cancel]
        rw [this]
        simp [inFrame]
      rw [hfr]
      simp

end Stef.Reader

namespace Stef.Reader

theorem readAll_truncated (sites : Sites) (hfull : sites.frameContentFull = true) (r : Rd)
    (f : FrameSpec) (hwf : f.Wf) (hb : r.AtBoundary) (k : Nat) (hk : k < (encFrame f).length)
    (hd : r.src.data = (encFrame f).take k) (fuel : Nat) :
    ∃ e r', readAll sites (fuel + 1) r = ([], e, r') := by
  obtain ⟨r', e, he⟩ := nextFrame_truncated sites hfull r f hwf hb.2 k hk hd
  have hrf : readFuel r = (readFuel r - 1) + 1 := by unfold readFuel; omega
  simp only [readAll]
  rw [hrf]
  simp only [read, hb.1, ↓reduceIte, Bool.false_eq_true, he]
  exact ⟨_, _, rfl⟩

/-- **C05 core**: the source holds the complete frames `fs1` followed by a strict prefix of one
    more frame: exactly the records of `fs1` are returned, then an error. -/
theorem readAll_cut (sites : Sites) (hfull : sites.frameContentFull = true)
    (fs1 : List FrameSpec) (f : FrameSpec) (k : Nat) (r : Rd) (fuel : Nat)
    (hwf1 : ∀ g ∈ fs1, g.Wf1) (hwf : f.Wf) (hk : k < (encFrame f).length) (hb : r.AtBoundary)
    (hd : r.src.data = encFrames fs1 ++ (encFrame f).take k) (hfuel : totalRecs fs1 < fuel) :
    ∃ e r', readAll sites fuel r = (frameRecords fs1 r.framesLoaded, e, r') := by
  obtain ⟨r1, h1, h1b, h1d, _, _⟩ := readAll_frames sites hfull fs1 r _ fuel hwf1 hb hd (by omega)
  obtain ⟨m, hm⟩ : ∃ m, fuel - totalRecs fs1 = m + 1 := ⟨fuel - totalRecs fs1 - 1, by omega⟩
  obtain ⟨e, r2, h2⟩ := readAll_truncated sites hfull r1 f hwf h1b k hk h1d m
  rw [h1, hm, h2]
  exact ⟨e, r2, by simp⟩

/-- the stream ends exactly at a frame boundary: all records, then `eof`. -/
theorem readAll_exact (sites : Sites) (hfull : sites.frameContentFull = true)
    (fs : List FrameSpec) (r : Rd) (fuel : Nat)
    (hwf : ∀ g ∈ fs, g.Wf1) (hb : r.AtBoundary)
    (hd : r.src.data = encFrames fs) (hfuel : totalRecs fs < fuel) :
    ∃ r', readAll sites fuel r = (frameRecords fs r.framesLoaded, .eof, r') := by
  obtain ⟨r1, h1, h1b, h1d, _, _⟩ := readAll_frames sites hfull fs r [] fuel hwf hb (by simpa using hd) (by omega)
  obtain ⟨m, hm⟩ : ∃ m, fuel - totalRecs fs = m + 1 := ⟨fuel - totalRecs fs - 1, by omega⟩
  rw [h1, hm]
  have hrf : readFuel r1 = (readFuel r1 - 1) + 1 := by unfold readFuel; omega
  simp only [readAll]
  rw [hrf]
  simp only [read, h1b.1, ↓reduceIte, Bool.false_eq_true, nextFrame, fdNext, h1b.2, Src.readByte, h1d]
  simp only [List.append_nil]
  exact ⟨_, rfl⟩

/-- every cut offset of a frame sequence falls either on its end or strictly inside one frame. -/
theorem cut_decompose (fs : List FrameSpec) (k : Nat) (hk : k ≤ (encFrames fs).length) :
    (encFrames fs).take k = encFrames fs ∨
    ∃ fs1 f fs2 j, fs = fs1 ++ f :: fs2 ∧ j < (encFrame f).length ∧
      (encFrames fs).take k = encFrames fs1 ++ (encFrame f).take j := by
  induction fs generalizing k with
  | nil => left; simp [encFrames]
  | cons f fs ih =>
    have he : encFrames (f :: fs) = encFrame f ++ encFrames fs := by simp [encFrames]
    by_cases h : k < (encFrame f).length
    · right
      refine ⟨[], f, fs, k, by simp, h, ?_⟩
      rw [he, List.take_append_of_le_length (by omega)]
      simp [encFrames]
    · rw [he] at hk ⊢
      have hk' : k - (encFrame f).length ≤ (encFrames fs).length := by
        simp only [List.length_append] at hk; omega
      rw [List.take_append, List.take_of_length_le (by omega)]
      rcases ih (k - (encFrame f).length) hk' with h1 | ⟨fs1, g, fs2, j, h1, h2, h3⟩
      · left; rw [h1]
      · right
        refine ⟨f :: fs1, g, fs2, j, by simp [h1], h2, ?_⟩
        rw [h3]; simp [encFrames]

end Stef.Reader
