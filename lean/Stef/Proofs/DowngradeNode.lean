/-
  Stef.Proofs.DowngradeNode: the DOWNGRADE direction of C04 at the node level.

  A writer for the newer schema B that writes in the older schema A walks A's column tree (the tree
  `mkNode B` builds under A's descriptor IS A's tree, `Override.mono_all`). In the model this is
  `SpecEnc.encodeNode B` on A's tree: B's initial values (`altInit B`, `initSt B`), B-shaped previous
  values and struct-dictionary entries. `enc_sim_all`: whenever that encoder produces output, the
  plain A encoder (`encodeNode A`, A's initial values, the A views of the previous values and of
  the dictionary entries) produces THE SAME column events from the same new value and marks, and
  the effective values / states stay related (`Forward.KRel`, `Forward.DSRel`). So a downgraded
  stream is, byte for byte, an ordinary A encoding of the A views.
-/
import Stef.Proofs.ForwardNode
import Stef.SpecEnc

namespace Stef.Proofs.Downgrade
open Stef Stef.Spec Stef.Proofs.Override Stef.Proofs.Forward
open Stef.SpecEnc (Mk Ev Chunk Res encodePrim encodeNode encodeFields encodeElems encodePairsFull encodeValuesOnly
  uvcNat dflt)

/-! ## the two copies of the shape helpers agree -/

theorem sf_eq (s : St) : SpecEnc.structFields s = Forward.structFields s := by cases s <;> rfl
theorem sp_eq (s : St) : SpecEnc.structPres s = Forward.structPres s := by cases s <;> rfl
theorem ae_eq (s : St) : SpecEnc.arrElems s = Forward.arrElems s := by cases s <;> rfl
theorem mp_eq (s : St) : SpecEnc.mmapPairs s = Forward.mmapPairs s := by cases s <;> rfl
theorem op_eq (σ : Schema) (an : Node) (typ : Nat) (s : St) :
    SpecEnc.oneofPrev σ an typ s = Forward.oneofPrev σ an typ s := by
  cases s with
  | oneof ct val => cases val <;> rfl
  | _ => rfl
theorem ep_eq (σ : Schema) (ety : Ty) (l : List St) : SpecEnc.elemPrev σ ety l = Forward.elemPrev σ ety l := by
  cases l <;> rfl
theorem pp_eq (σ : Schema) (k v : Ty) (l : List (St × St)) : SpecEnc.pairPrev σ k v l = Forward.pairPrev σ k v l := by
  cases l <;> rfl

/-! ## primitives do not look at the struct dictionaries -/

theorem encodePrim_withT (col : Nat) (p : Prim) (d : Option String) (v : St) (ds : DS)
    (evs : List Ev) (ds' : DS) (e : St) (h : encodePrim col p d v ds = some (evs, ds', e))
    (t : List (String × List (Option St))) :
    encodePrim col p d v (withT ds t) = some (evs, withT ds' t, e) ∧ ds'.tdict = ds.tdict ∧ Ext e e := by
  unfold encodePrim at h ⊢
  have hsz : (withT ds t).cols.size = ds.cols.size := rfl
  have hcol : (withT ds t).col col = ds.col col := rfl
  have hsd : (withT ds t).sdict = ds.sdict := rfl
  rw [hsz]
  by_cases hc : col < ds.cols.size
  · simp only [hc, if_true, hcol, hsd] at h ⊢
    split at h
    · -- bool
      simp only [Option.some.injEq, Prod.mk.injEq] at h
      obtain ⟨rfl, rfl, rfl⟩ := h
      exact ⟨by first | rfl | trivial, by first | rfl | trivial, Ext.b _⟩
    · simp only [Option.some.injEq, Prod.mk.injEq] at h
      obtain ⟨rfl, rfl, rfl⟩ := h
      exact ⟨by first | rfl | trivial, by first | rfl | trivial, Ext.i _⟩
    · simp only [Option.some.injEq, Prod.mk.injEq] at h
      obtain ⟨rfl, rfl, rfl⟩ := h
      exact ⟨by first | rfl | trivial, by first | rfl | trivial, Ext.i _⟩
    · split at h
      · rename_i hf
        simp only [Option.some.injEq, Prod.mk.injEq] at h
        obtain ⟨rfl, rfl, rfl⟩ := h
        simp only [hf, and_self, if_true]
        exact ⟨by first | rfl | trivial, by first | rfl | trivial, Ext.f _⟩
      · cases h
    · split at h
      · rename_i hl
        simp only [hl, if_true]
        split at h
        · simp only [Option.some.injEq, Prod.mk.injEq] at h
          obtain ⟨rfl, rfl, rfl⟩ := h
          exact ⟨by first | rfl | trivial, by first | rfl | trivial, Ext.s _⟩
        · split at h
          · split at h
            · rename_i hi
              simp only [Option.some.injEq, Prod.mk.injEq] at h
              obtain ⟨rfl, rfl, rfl⟩ := h
              simp only [hi, if_true]
              exact ⟨by first | rfl | trivial, by first | rfl | trivial, Ext.s _⟩
            · cases h
          · split at h
            · rename_i hl2
              simp only [Option.some.injEq, Prod.mk.injEq] at h
              obtain ⟨rfl, rfl, rfl⟩ := h
              simp only [hl2, if_true]
              exact ⟨by first | rfl | trivial, by first | rfl | trivial, Ext.s _⟩
            · rename_i hl2
              simp only [Option.some.injEq, Prod.mk.injEq] at h
              obtain ⟨rfl, rfl, rfl⟩ := h
              simp only [hl2, if_false]
              exact ⟨by first | rfl | trivial, by first | rfl | trivial, Ext.s _⟩
      · cases h
    · split at h
      · rename_i hl
        simp only [hl, if_true]
        split at h
        · simp only [Option.some.injEq, Prod.mk.injEq] at h
          obtain ⟨rfl, rfl, rfl⟩ := h
          exact ⟨by first | rfl | trivial, by first | rfl | trivial, Ext.s _⟩
        · split at h
          · split at h
            · rename_i hi
              simp only [Option.some.injEq, Prod.mk.injEq] at h
              obtain ⟨rfl, rfl, rfl⟩ := h
              simp only [hi, if_true]
              exact ⟨by first | rfl | trivial, by first | rfl | trivial, Ext.s _⟩
            · cases h
          · split at h
            · rename_i hl2
              simp only [Option.some.injEq, Prod.mk.injEq] at h
              obtain ⟨rfl, rfl, rfl⟩ := h
              simp only [hl2, if_true]
              exact ⟨by first | rfl | trivial, by first | rfl | trivial, Ext.s _⟩
            · rename_i hl2
              simp only [Option.some.injEq, Prod.mk.injEq] at h
              obtain ⟨rfl, rfl, rfl⟩ := h
              simp only [hl2, if_false]
              exact ⟨by first | rfl | trivial, by first | rfl | trivial, Ext.s _⟩
      · cases h
    · cases h
  · simp [hc] at h

/-! ## the simulation statements, per fuel: B run (downgrade) ⇒ A run, same events -/

def ENode (A B : Schema) (f : Nat) : Prop :=
  ∀ env key n pa pb new mk dsa dsb evs dsb' eb, EnvOK A env → NK A key n → KRel A key pa pb → DSRel A dsa dsb →
    encodeNode B f env n pb new mk dsb = some (evs, dsb', eb) →
    ∃ dsa' ea, encodeNode A f env n pa new mk dsa = some (evs, dsa', ea) ∧ KRel A key ea eb ∧ DSRel A dsa' dsb'

def EFields (A B : Schema) (f : Nat) : Prop :=
  ∀ env fs fields idx optIdx mask pres prevPres cura curb new subs dsa dsb evs dsb' outb, EnvOK A env →
    NKF A fs fields → CurRel A fs cura curb → DSRel A dsa dsb →
    encodeFields B f env fields idx optIdx mask pres prevPres curb new subs dsb = some (evs, dsb', outb) →
    ∃ dsa' outa, encodeFields A f env fields idx optIdx mask pres prevPres cura new subs dsa = some (evs, dsa', outa) ∧
      CurRel A fs outa outb ∧ DSRel A dsa' dsb'

def EElems (A B : Schema) (f : Nat) : Prop :=
  ∀ env ek elem ety xs olda oldb subs dsa dsb evs dsb' outb, EnvOK A env → NK A ek elem →
    KRel A ek (initSt A initFuel ety) (initSt B initFuel ety) → ListRel A ek olda oldb → DSRel A dsa dsb →
    encodeElems B f env elem ety xs oldb subs dsb = some (evs, dsb', outb) →
    ∃ dsa' outa, encodeElems A f env elem ety xs olda subs dsa = some (evs, dsa', outa) ∧
      ListRel A ek outa outb ∧ DSRel A dsa' dsb'

def EPairs (A B : Schema) (f : Nat) : Prop :=
  ∀ env kk vk k v kty vty ps olda oldb subs dsa dsb evs dsb' outb, EnvOK A env → NK A kk k → NK A vk v →
    KRel A kk (initSt A initFuel kty) (initSt B initFuel kty) →
    KRel A vk (initSt A initFuel vty) (initSt B initFuel vty) → PairRel A kk vk olda oldb → DSRel A dsa dsb →
    encodePairsFull B f env k v kty vty ps oldb subs dsb = some (evs, dsb', outb) →
    ∃ dsa' outa, encodePairsFull A f env k v kty vty ps olda subs dsa = some (evs, dsa', outa) ∧
      PairRel A kk vk outa outb ∧ DSRel A dsa' dsb'

def EVals (A B : Schema) (f : Nat) : Prop :=
  ∀ env kk vk v changed idx olda oldb new subs dsa dsb evs dsb' outb, EnvOK A env → NK A vk v →
    PairRel A kk vk olda oldb → DSRel A dsa dsb →
    encodeValuesOnly B f env v changed idx oldb new subs dsb = some (evs, dsb', outb) →
    ∃ dsa' outa, encodeValuesOnly A f env v changed idx olda new subs dsa = some (evs, dsa', outa) ∧
      PairRel A kk vk outa outb ∧ DSRel A dsa' dsb'

section steps
variable {A B : Schema} (hAB : SchemaLe A B) (hC : Closed A) (hD : DictInj A)
include hAB hC

theorem efields_step (f : Nat) (hn : ENode A B f) (hf : EFields A B f) : EFields A B (f + 1) := by
  intro env fs fields idx optIdx mask pres prevPres cura curb new subs dsa dsb evs dsb' outb henv hnk hcur hds h
  cases fields with
  | nil =>
    simp only [encodeFields, Option.some.injEq, Prod.mk.injEq] at h ⊢
    obtain ⟨rfl, rfl, rfl⟩ := h
    exact ⟨dsa, cura, ⟨rfl, rfl, rfl⟩, hcur, hds⟩
  | cons fdn rest =>
    obtain ⟨opt, n⟩ := fdn
    cases hnk with
    | cons fd fs' _ _ _ ho hn1 hrest =>
      have hp0 : KRel A (tyKey fd.ty) (cura.headD dflt) (curb.headD dflt) ∧ CurRel A fs' cura.tail curb.tail := by
        cases hcur with
        | short => exact ⟨KRel.same _ _ Ext.oneofNone, CurRel.short _⟩
        | cons _ _ a b as bs hab hr => exact ⟨hab, hr⟩
      have hprev : ∀ c : Bool, KRel A (tyKey fd.ty) (if c then altInit A n else cura.headD dflt)
          (if c then altInit B n else curb.headD dflt) := by
        intro c
        cases c with
        | true => exact altInit_rel hAB hC hn1
        | false => exact hp0.1
      simp only [encodeFields] at h ⊢
      split at h
      · simp at h
      · rename_i e1 ds1 v hfirst
        split at h
        · simp at h
        · rename_i e2 ds2 vs hrest'
          simp only [Option.some.injEq, Prod.mk.injEq] at h
          obtain ⟨rfl, rfl, rfl⟩ := h
          by_cases hc : (mask.testBit idx && (!opt || pres.testBit optIdx)) = true
          · simp only [hc, if_true] at hfirst ⊢
            obtain ⟨ds1a, va, ha1, hv, hds1⟩ := hn _ _ _ _ _ _ _ _ _ _ _ _ henv hn1 (hprev _) hds hfirst
            obtain ⟨ds2a, vsa, ha2, hvs, hds2⟩ := hf _ _ _ _ _ _ _ _ _ _ _ _ _ _ _ _ _ henv hrest hp0.2 hds1 hrest'
            refine ⟨ds2a, va :: vsa, ?_, CurRel.cons _ _ _ _ _ _ hv hvs, hds2⟩
            simp only [ha1, ha2]
          · simp only [hc, Bool.false_eq_true, if_false, Option.some.injEq, Prod.mk.injEq] at hfirst ⊢
            obtain ⟨rfl, rfl, rfl⟩ := hfirst
            obtain ⟨ds2a, vsa, ha2, hvs, hds2⟩ := hf _ _ _ _ _ _ _ _ _ _ _ _ _ _ _ _ _ henv hrest hp0.2 hds hrest'
            refine ⟨ds2a, _ :: vsa, ?_, CurRel.cons _ _ _ _ _ _ hp0.1 hvs, hds2⟩
            simp only [ha2, List.nil_append]

omit hAB hC in
theorem eelems_step (f : Nat) (hn : ENode A B f) (he : EElems A B f) : EElems A B (f + 1) := by
  intro env ek elem ety xs olda oldb subs dsa dsb evs dsb' outb henv hnk hinit hold hds h
  cases xs with
  | nil =>
    simp only [encodeElems, Option.some.injEq, Prod.mk.injEq] at h ⊢
    obtain ⟨rfl, rfl, rfl⟩ := h
    exact ⟨dsa, [], ⟨rfl, rfl, rfl⟩, ListRel.nil _, hds⟩
  | cons x xs =>
    have hp : KRel A ek (SpecEnc.elemPrev A ety olda) (SpecEnc.elemPrev B ety oldb) ∧ ListRel A ek olda.tail oldb.tail := by
      cases hold with
      | nil => exact ⟨hinit, ListRel.nil _⟩
      | cons _ a b as bs hab hr => exact ⟨hab, hr⟩
    simp only [encodeElems] at h ⊢
    split at h
    · simp at h
    · rename_i e1 ds1 v hfirst
      split at h
      · simp at h
      · rename_i e2 ds2 vs hrest
        simp only [Option.some.injEq, Prod.mk.injEq] at h
        obtain ⟨rfl, rfl, rfl⟩ := h
        obtain ⟨ds1a, va, ha1, hv, hds1⟩ := hn _ _ _ _ _ _ _ _ _ _ _ _ henv hnk hp.1 hds hfirst
        obtain ⟨ds2a, vsa, ha2, hvs, hds2⟩ := he _ _ _ _ _ _ _ _ _ _ _ _ _ henv hnk hinit hp.2 hds1 hrest
        refine ⟨ds2a, va :: vsa, ?_, ListRel.cons _ _ _ _ _ hv hvs, hds2⟩
        simp only [ha1, ha2]

omit hAB hC in
theorem epairs_step (f : Nat) (hn : ENode A B f) (hp : EPairs A B f) : EPairs A B (f + 1) := by
  intro env kk vk k v kty vty ps olda oldb subs dsa dsb evs dsb' outb henv hnk hnv hik hiv hold hds h
  cases ps with
  | nil =>
    simp only [encodePairsFull, Option.some.injEq, Prod.mk.injEq] at h ⊢
    obtain ⟨rfl, rfl, rfl⟩ := h
    exact ⟨dsa, [], ⟨rfl, rfl, rfl⟩, PairRel.nil _ _, hds⟩
  | cons p ps =>
    have hpp : KRel A kk (SpecEnc.pairPrev A kty vty olda).1 (SpecEnc.pairPrev B kty vty oldb).1 ∧
        KRel A vk (SpecEnc.pairPrev A kty vty olda).2 (SpecEnc.pairPrev B kty vty oldb).2 ∧
        PairRel A kk vk olda.tail oldb.tail := by
      cases hold with
      | nil => exact ⟨hik, hiv, PairRel.nil _ _⟩
      | cons _ _ ka va kb vb as bs h1 h2 hr => exact ⟨h1, h2, hr⟩
    simp only [encodePairsFull] at h ⊢
    split at h
    · simp at h
    · rename_i e1 ds1 kv hk
      split at h
      · simp at h
      · rename_i e2 ds2 vv hv
        split at h
        · simp at h
        · rename_i e3 ds3 rs hrest
          simp only [Option.some.injEq, Prod.mk.injEq] at h
          obtain ⟨rfl, rfl, rfl⟩ := h
          obtain ⟨ds1a, kva, ha1, hkv, hds1⟩ := hn _ _ _ _ _ _ _ _ _ _ _ _ henv hnk hpp.1 hds hk
          obtain ⟨ds2a, vva, ha2, hvv, hds2⟩ := hn _ _ _ _ _ _ _ _ _ _ _ _ henv hnv hpp.2.1 hds1 hv
          obtain ⟨ds3a, rsa, ha3, hrs, hds3⟩ := hp _ _ _ _ _ _ _ _ _ _ _ _ _ _ _ _ henv hnk hnv hik hiv hpp.2.2 hds2 hrest
          refine ⟨ds3a, (kva, vva) :: rsa, ?_, PairRel.cons _ _ _ _ _ _ _ _ hkv hvv hrs, hds3⟩
          simp only [ha1, ha2, ha3]

omit hAB hC in
theorem evals_step (f : Nat) (hn : ENode A B f) (hv : EVals A B f) : EVals A B (f + 1) := by
  intro env kk vk v changed idx olda oldb new subs dsa dsb evs dsb' outb henv hnv hold hds h
  cases hold with
  | nil =>
    simp only [encodeValuesOnly, Option.some.injEq, Prod.mk.injEq] at h ⊢
    obtain ⟨rfl, rfl, rfl⟩ := h
    exact ⟨dsa, [], ⟨rfl, rfl, rfl⟩, PairRel.nil _ _, hds⟩
  | cons _ _ ka va kb vb as bs hk hvv hr =>
    simp only [encodeValuesOnly] at h ⊢
    split at h
    · simp at h
    · rename_i e1 ds1 v1 hfirst
      split at h
      · simp at h
      · rename_i e2 ds2 rs hrest
        simp only [Option.some.injEq, Prod.mk.injEq] at h
        obtain ⟨rfl, rfl, rfl⟩ := h
        by_cases hc : (decide (idx < 64) && changed.testBit idx) = true
        · simp only [hc, if_true] at hfirst ⊢
          obtain ⟨ds1a, v1a, ha1, hv1, hds1⟩ := hn _ _ _ _ _ _ _ _ _ _ _ _ henv hnv hvv hds hfirst
          obtain ⟨ds2a, rsa, ha2, hrs, hds2⟩ := hv _ _ _ _ _ _ _ _ _ _ _ _ _ _ _ henv hnv hr hds1 hrest
          refine ⟨ds2a, (ka, v1a) :: rsa, ?_, PairRel.cons _ _ _ _ _ _ _ _ hk hv1 hrs, hds2⟩
          simp only [ha1, ha2]
        · simp only [hc, Bool.false_eq_true, if_false, Option.some.injEq, Prod.mk.injEq] at hfirst ⊢
          obtain ⟨rfl, rfl, rfl⟩ := hfirst
          obtain ⟨ds2a, rsa, ha2, hrs, hds2⟩ := hv _ _ _ _ _ _ _ _ _ _ _ _ _ _ _ henv hnv hr hds hrest
          refine ⟨ds2a, (ka, va) :: rsa, ?_, PairRel.cons _ _ _ _ _ _ _ _ hk hvv hrs, hds2⟩
          simp only [ha2, List.nil_append]

omit hAB hC in
theorem withT_back (d : DS) (t : List (String × List (Option St))) : withT (withT d t) d.tdict = d := rfl

include hD in
theorem enode_step (f : Nat) (hn : ENode A B f) (hf : EFields A B f) (he : EElems A B f) (hp : EPairs A B f)
    (hv : EVals A B f) : ENode A B (f + 1) := by
  intro env key n pa pb new mk dsa dsb evs dsb' eb henv hnk hcur hds h
  obtain ⟨t, rfl, hdict⟩ := hds
  cases hnk with
  | prim _ col p d =>
    simp only [encodeNode] at h ⊢
    obtain ⟨h1, h2, h3⟩ := encodePrim_withT col p d new (withT dsa t) evs dsb' eb h dsa.tdict
    rw [withT_back] at h1
    refine ⟨withT dsb' dsa.tdict, eb, h1, KRel.same _ _ h3, t, ?_, hdict⟩
    have : dsb'.tdict = t := h2
    subst this
    rfl
  | recur _ hr =>
    simp only [encodeNode] at h ⊢
    cases hfind : env.find? (·.1 = key) with
    | none => simp [hfind] at h
    | some e =>
      obtain ⟨k', n'⟩ := e
      simp only [hfind] at h ⊢
      exact hn _ _ _ _ _ _ _ _ _ _ _ _ henv (henv key _ hfind) hcur ⟨t, rfl, hdict⟩ h
  | struct _ col name d kept oc fields fs hk hfind hnkf =>
    subst hk
    have henv' := envOK_push henv (NK.struct key col key d kept oc fields fs rfl hfind hnkf)
    simp only [encodeNode] at h ⊢
    split at h
    · rename_i hc
      have hc' : col < dsa.cols.size ∧ kept ≤ 64 ∧ oc ≤ 64 := hc
      rw [if_pos hc']
      split at h
      · rename_i r
        split at h
        · simp at h
        · rename_i dn
          split at h
          · rename_i hr
            rw [if_pos hr]
            have htd : (withT dsa t).tdict = t := rfl
            rw [htd] at h
            rcases (lookupDict_rel dn hdict).getElem? r with ⟨ha, hb⟩ | ⟨a, b, ha, hb, hab⟩
            · simp [hb] at h
            · cases b with
              | none => simp [hb] at h
              | some vb =>
                cases a with
                | none => exact absurd hab (by simp [OptRel])
                | some va =>
                  simp only [hb, Option.some.injEq, Prod.mk.injEq] at h
                  obtain ⟨rfl, rfl, rfl⟩ := h
                  simp only [ha]
                  exact ⟨dsa, va, rfl, hab key fs hfind, t, rfl, hdict⟩
          · simp at h
      · rename_i mask subs
        split at h
        · rename_i pres nf
          split at h
          · rename_i hm
            rw [if_pos hm]
            obtain ⟨hpres, hcr⟩ := krel_struct_inv hfind hcur
            rw [sp_eq, sf_eq] at h
            rw [sp_eq, sf_eq, hpres]
            split at h
            · simp at h
            · rename_i evs1 ds1 eff hfl
              obtain ⟨ds1a, effa, ha, heff, hds1⟩ := hf _ _ _ _ _ _ _ _ _ _ _ _ _ _ _ _ _ henv' hnkf hcr ⟨t, rfl, hdict⟩ hfl
              obtain ⟨t1, rfl, hd1⟩ := hds1
              simp only [ha]
              have hv' : KRel A key (St.struct pres effa) (St.struct pres eff) := KRel.struct key d fs _ _ _ hfind heff
              cases d with
              | none =>
                simp only [Option.some.injEq, Prod.mk.injEq] at h ⊢
                obtain ⟨rfl, rfl, rfl⟩ := h
                exact ⟨ds1a, _, ⟨rfl, rfl, rfl⟩, hv', t1, rfl, hd1⟩
              | some dn =>
                simp only [Option.some.injEq, Prod.mk.injEq] at h ⊢
                obtain ⟨rfl, rfl, rfl⟩ := h
                refine ⟨_, _, ⟨rfl, rfl, rfl⟩, hv', setDict t1 dn ((if (lookupDict t1 dn).isEmpty then [none] else lookupDict t1 dn) ++
                  [some (St.struct pres eff)]), rfl, ?_⟩
                have hl := lookupDict_rel dn hd1
                have hcur' : F2 (OptRel A dn) (if (lookupDict ds1a.tdict dn).isEmpty then [none] else lookupDict ds1a.tdict dn)
                    (if (lookupDict t1 dn).isEmpty then [none] else lookupDict t1 dn) := by
                  rw [hl.isEmpty]
                  split
                  · exact F2.cons (by simp [OptRel]) F2.nil
                  · exact hl
                have hnew : OptRel A dn (some (St.struct pres effa)) (some (St.struct pres eff)) := by
                  intro name' fs' hf'
                  have := hD name' key dn fs' fs hf' hfind
                  subst this
                  exact hv'
                exact setDict_rel dn (F2.append hcur' (F2.cons hnew F2.nil)) hd1
          · simp at h
        · simp at h
      · simp at h
    · simp at h
  | oneof _ col name kept alts nodes fs hk hfind halts hnkf =>
    subst hk
    subst halts
    have henv' := envOK_push henv (NK.oneof key col key kept _ nodes fs rfl hfind rfl hnkf)
    simp only [encodeNode] at h ⊢
    split at h
    · rename_i typ val sub
      split at h
      · rename_i hc
        have hc' : col < dsa.cols.size ∧ bitLen (kept + 1) ≤ 64 ∧ typ ≤ kept := hc
        rw [if_pos hc']
        split at h
        · rename_i h0
          simp only [Option.some.injEq, Prod.mk.injEq] at h
          obtain ⟨rfl, rfl, rfl⟩ := h
          simp only [h0, if_true]
          exact ⟨dsa, _, rfl, KRel.same _ _ Ext.oneofNone, t, rfl, hdict⟩
        · rename_i h0
          simp only [h0, if_false]
          split at h
          · rename_i an v halt
            split at h
            · simp at h
            · rename_i e2 ds2 e hsub
              simp only [Option.some.injEq, Prod.mk.injEq] at h
              obtain ⟨rfl, rfl, rfl⟩ := h
              obtain ⟨fd, hfd, hnkan⟩ := nkf_alt fs nodes _ an hnkf halt
              have hprev := krel_oneof_inv (B := B) hfind hfd (altInit_rel hAB hC hnkan) hcur
              rw [op_eq] at hsub
              rw [op_eq]
              obtain ⟨ds2a, ea, ha, hv', hds2⟩ := hn _ _ _ _ _ _ _ _ _ _ _ _ henv' hnkan hprev ⟨t, rfl, hdict⟩ hsub
              simp only [ha]
              exact ⟨ds2a, _, rfl, KRel.oneof key fs _ fd _ _ hfind hfd hv', hds2⟩
          · simp at h
      · simp at h
    · simp at h
  | arr _ col k ety elem hk hk2 hty hne =>
    subst hk2
    subst hk
    have henv' := envOK_push henv (NK.arr _ col _ ety elem rfl rfl hty hne)
    simp only [encodeNode] at h ⊢
    split at h
    · rename_i es subs
      split at h
      · rename_i hc
        have hc' : col < dsa.cols.size ∧ es.length < 2 ^ 48 := hc
        rw [if_pos hc']
        have hold : ListRel A (tyKey ety) (Forward.arrElems pa) (Forward.arrElems pb) := krel_arr_inv hcur
        rw [ae_eq] at h
        rw [ae_eq]
        split at h
        · simp at h
        · rename_i e2 ds2 effs hel
          simp only [Option.some.injEq, Prod.mk.injEq] at h
          obtain ⟨rfl, rfl, rfl⟩ := h
          obtain ⟨ds2a, effa, ha, hes, hds2⟩ := he _ _ _ _ _ _ _ _ _ _ _ _ _ henv' hne (init_rel hAB hC initFuel ety hty) hold
            ⟨t, rfl, hdict⟩ hel
          simp only [ha]
          exact ⟨ds2a, _, rfl, KRel.arr _ (tyKey ety) _ _ rfl hes, hds2⟩
      · simp at h
    · simp at h
  | mmap _ col name k v kn vn hk hfind hnk1 hnk2 =>
    subst hk
    have henv' := envOK_push henv (NK.mmap key col key k v kn vn rfl hfind hnk1 hnk2)
    have hcl : TyClosed A k ∧ TyClosed A v := hC key _ hfind
    have hold := krel_mmap_inv hfind hcur
    simp only [encodeNode] at h ⊢
    rw [mp_eq] at h
    rw [mp_eq]
    split at h
    · rename_i hb
      have hb' : col < dsa.cols.size := hb
      rw [if_pos hb']
      split at h
      · simp only [Option.some.injEq, Prod.mk.injEq] at h
        obtain ⟨rfl, rfl, rfl⟩ := h
        exact ⟨dsa, _, rfl, KRel.mmap key k v _ _ hfind hold, t, rfl, hdict⟩
      · rename_i subs
        split at h
        · rename_i ps
          split at h
          · rename_i hlen
            rw [if_pos hlen]
            split at h
            · simp at h
            · rename_i e2 ds2 effp hpairs
              simp only [Option.some.injEq, Prod.mk.injEq] at h
              obtain ⟨rfl, rfl, rfl⟩ := h
              obtain ⟨ds2a, effa, ha, hps, hds2⟩ := hp _ _ _ _ _ _ _ _ _ _ _ _ _ _ _ _ henv' hnk1 hnk2
                (init_rel hAB hC initFuel k hcl.1) (init_rel hAB hC initFuel v hcl.2) hold ⟨t, rfl, hdict⟩ hpairs
              simp only [ha]
              exact ⟨ds2a, _, rfl, KRel.mmap key k v _ _ hfind hps, hds2⟩
          · simp at h
        · simp at h
      · rename_i changed subs
        split at h
        · rename_i ps
          split at h
          · rename_i hch
            have hch' : 0 < changed ∧ changed < 2 ^ 63 ∧ (Forward.mmapPairs pa).length ≤ 62 :=
              ⟨hch.1, hch.2.1, by rw [Forward.pairRel_length hold]; exact hch.2.2⟩
            rw [if_pos hch']
            split at h
            · simp at h
            · rename_i e2 ds2 effp hvals
              simp only [Option.some.injEq, Prod.mk.injEq] at h
              obtain ⟨rfl, rfl, rfl⟩ := h
              obtain ⟨ds2a, effa, ha, hps, hds2⟩ := hv _ _ _ _ _ _ _ _ _ _ _ _ _ _ _ henv' hnk2 hold ⟨t, rfl, hdict⟩ hvals
              simp only [ha]
              exact ⟨ds2a, _, rfl, KRel.mmap key k v _ _ hfind hps, hds2⟩
          · simp at h
        · simp at h
      · simp at h
    · simp at h

include hD in
/-- **the encoder simulation**, all five encoders, every fuel -/
theorem enc_sim_all : ∀ f, ENode A B f ∧ EFields A B f ∧ EElems A B f ∧ EPairs A B f ∧ EVals A B f := by
  intro f
  induction f with
  | zero =>
    refine ⟨?_, ?_, ?_, ?_, ?_⟩
    · intro env key n pa pb new mk dsa dsb evs dsb' eb _ _ _ _ h
      simp [encodeNode] at h
    · intro env fs fields idx optIdx mask pres prevPres cura curb new subs dsa dsb evs dsb' outb _ _ _ _ h
      simp [encodeFields] at h
    · intro env ek elem ety xs olda oldb subs dsa dsb evs dsb' outb _ _ _ _ _ h
      simp [encodeElems] at h
    · intro env kk vk k v kty vty ps olda oldb subs dsa dsb evs dsb' outb _ _ _ _ _ _ _ h
      simp [encodePairsFull] at h
    · intro env kk vk v changed idx olda oldb new subs dsa dsb evs dsb' outb _ _ _ _ h
      simp [encodeValuesOnly] at h
  | succ f ih =>
    obtain ⟨hn, hf, he, hp, hv⟩ := ih
    exact ⟨enode_step hAB hC hD f hn hf he hp hv, efields_step hAB hC f hn hf, eelems_step f hn he,
      epairs_step f hn hp, evals_step f hn hv⟩

end steps

end Stef.Proofs.Downgrade
