/-
  Stef.Proofs.ForwardWF: executable checks of the two well-formedness conditions of the forward
  theorem (`Closed`, `DictInj`) and their soundness, so that the conditions can be discharged for
  concrete schemas by evaluation.
-/
import Stef.Proofs.ForwardRel

namespace Stef.Proofs.Forward
open Stef Stef.Spec Stef.Proofs.Override

def tyClosedB (A : Schema) : Ty → Bool
  | .prim _ _ => true
  | .arr e => tyClosedB A e
  | .ref n => (A.find n).isSome

def defClosedB (A : Schema) : Def → Bool
  | .struct _ fs => fs.all (fun fd => tyClosedB A fd.ty)
  | .oneof fs => fs.all (fun fd => tyClosedB A fd.ty)
  | .mmap k v => tyClosedB A k && tyClosedB A v

def closedB (A : Schema) : Bool := A.defs.all (fun p => defClosedB A p.2)

def dictInjB (A : Schema) : Bool :=
  A.defs.all (fun p => A.defs.all (fun q =>
    match p.2, q.2 with
    | .struct (some d1) _, .struct (some d2) _ => d1 != d2 || p.1 == q.1
    | _, _ => true))

theorem find_mem (A : Schema) (n : String) (d : Def) (h : A.find n = some d) : (n, d) ∈ A.defs := by
  unfold Schema.find at h
  cases hf : A.defs.find? (·.1 = n) with
  | none => simp [hf] at h
  | some p =>
    simp only [hf, Option.map_some, Option.some.injEq] at h
    have hm := List.mem_of_find?_eq_some hf
    have hp : p.1 = n := by simpa using List.find?_some hf
    obtain ⟨pn, pd⟩ := p
    simp only at h hp
    subst h; subst hp
    exact hm

theorem tyClosed_of_B (A : Schema) : ∀ ty, tyClosedB A ty = true → TyClosed A ty
  | .prim _ _, _ => trivial
  | .arr e, h => tyClosed_of_B A e h
  | .ref n, h => by
    simp only [tyClosedB] at h
    cases hf : A.find n with
    | none => simp [hf] at h
    | some d => exact ⟨d, hf⟩

theorem closed_of_closedB (A : Schema) (h : closedB A = true) : Closed A := by
  intro n d hf
  have hm := find_mem A n d hf
  simp only [closedB, List.all_eq_true] at h
  have hd := h (n, d) hm
  cases d with
  | struct dd fs =>
    simp only [defClosedB, List.all_eq_true] at hd
    intro fd hfd
    exact tyClosed_of_B A _ (hd fd hfd)
  | oneof fs =>
    simp only [defClosedB, List.all_eq_true] at hd
    intro fd hfd
    exact tyClosed_of_B A _ (hd fd hfd)
  | mmap k v =>
    simp only [defClosedB, Bool.and_eq_true] at hd
    exact ⟨tyClosed_of_B A _ hd.1, tyClosed_of_B A _ hd.2⟩

theorem dictInj_of_dictInjB (A : Schema) (h : dictInjB A = true) : DictInj A := by
  intro n1 n2 dn f1 f2 h1 h2
  have m1 := find_mem A _ _ h1
  have m2 := find_mem A _ _ h2
  simp only [dictInjB, List.all_eq_true] at h
  have := h _ m1 _ m2
  simpa using this

end Stef.Proofs.Forward
