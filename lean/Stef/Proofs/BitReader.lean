/-
  Refinement of the 64-bit staging register of `BitsReader` (bitstream.go) to the bit string of
  its buffer: at every position, `PeekBits/Consume/ReadBits/ReadBit` return the bits of
  `bytesBits buf` (followed by zeros), and the reader state stays consistent.
-/
import Stef.BitStream
import Stef.Proofs.BitStream
import Stef.Proofs.Bits

namespace Stef

/-- bit `i` of the buffer (false past its end) -/
def bitAt (buf : Bytes) (i : Nat) : Bool := (buf.getD (i / 8) 0#8).getMsbD (i % 8)

theorem bitAt_past_end (buf : Bytes) (i : Nat) (h : 8 * buf.length ≤ i) : bitAt buf i = false := by
  unfold bitAt
  have : buf.length ≤ i / 8 := by omega
  rw [List.getD_eq_getElem?_getD, List.getElem?_eq_none this]
  simp [BitVec.getMsbD]

/-- the byte placed by `refillSlow`: `uint64(b) << (64 - avail - 8)` -/
theorem byte_shift_getMsbD (b : Byte) (avail i : Nat) (ha : avail + 8 ≤ 64) (hi : i < 64) :
    ((b.setWidth 64) <<< (64 - avail - 8)).getMsbD i =
      (decide (avail ≤ i) && decide (i < avail + 8) && b.getMsbD (i - avail)) := by
  simp only [BitVec.getMsbD, BitVec.getLsbD_shiftLeft, BitVec.getLsbD_setWidth, hi, decide_true,
    Bool.true_and]
  by_cases h1 : avail ≤ i
  · by_cases h2 : i < avail + 8
    · have a1 : 64 - 1 - i < 64 := by omega
      have a2 : ¬ (64 - 1 - i < 64 - avail - 8) := by omega
      have a3 : 64 - 1 - i - (64 - avail - 8) = 8 - 1 - (i - avail) := by omega
      have a4 : i - avail < 8 := by omega
      have a5 : 8 - 1 - (i - avail) < 64 := by omega
      simp [h1, h2, a1, a2, a3, a4, a5]
    · have a2 : ¬ (64 - 1 - i < 64 - avail - 8) ∨ (64 - 1 - i < 64 - avail - 8) := by omega
      have a6 : 64 - 1 - i < 64 - avail - 8 := by omega
      simp [h1, h2, a6]
  · have a3 : 8 ≤ 64 - 1 - i - (64 - avail - 8) := by omega
    have : (b.getLsbD (64 - 1 - i - (64 - avail - 8))) = false := by
      apply BitVec.getLsbD_of_ge; omega
    simp [h1, this]

end Stef

namespace Stef
namespace BitsReader

/-- content part of the invariant: the register agrees with the buffer from position `pos`:
    the `avail` leading bits are exactly the buffer's bits, and no other bit is set that the
    buffer does not have (later refills OR the same bits over them). -/
structure Good (r : BitsReader) (pos : Nat) : Prop where
  a : ∀ i, i < 64 → i < r.availBitCount → r.bitBuf.getMsbD i = bitAt r.buf (pos + i)
  b : ∀ i, i < 64 → r.bitBuf.getMsbD i = true → bitAt r.buf (pos + i) = true

theorem byte_bit (buf : Bytes) (bi k : Nat) (hk : k < 8) :
    (buf.getD bi 0#8).getMsbD k = bitAt buf (8 * bi + k) := by
  unfold bitAt
  have h1 : (8 * bi + k) / 8 = bi := by omega
  have h2 : (8 * bi + k) % 8 = k := by omega
  rw [h1, h2]

/-- one iteration of the `refillSlow` loop -/
theorem refill_byte (r : BitsReader) (pos : Nat) (hg : Good r pos)
    (hp : pos + r.availBitCount = 8 * r.byteIndex) (ha : r.availBitCount < 56) :
    Good { r with bitBuf := r.bitBuf ||| (((r.buf.getD r.byteIndex 0#8).setWidth 64) <<< (64 - r.availBitCount - 8)),
                  byteIndex := r.byteIndex + 1, availBitCount := r.availBitCount + 8 } pos := by
  constructor
  · intro i hi hlt
    simp only at hlt ⊢
    rw [BitVec.getMsbD_or, byte_shift_getMsbD _ _ _ (by omega) hi]
    by_cases h1 : i < r.availBitCount
    · have : ¬ (r.availBitCount ≤ i) := by omega
      simp [this, hg.a i hi h1]
    · have h2 : r.availBitCount ≤ i := by omega
      have h3 : i < r.availBitCount + 8 := hlt
      have hb := byte_bit r.buf r.byteIndex (i - r.availBitCount) (by omega)
      have e : 8 * r.byteIndex + (i - r.availBitCount) = pos + i := by omega
      rw [e] at hb
      simp only [h2, h3, decide_true, Bool.true_and, hb]
      cases hbit : r.bitBuf.getMsbD i with
      | false => simp
      | true => simp [hg.b i hi hbit]
  · intro i hi hset
    simp only at hset ⊢
    rw [BitVec.getMsbD_or, byte_shift_getMsbD _ _ _ (by omega) hi] at hset
    cases hbit : r.bitBuf.getMsbD i with
    | true => exact hg.b i hi hbit
    | false =>
      simp only [hbit, Bool.false_or, Bool.and_eq_true, decide_eq_true_eq] at hset
      obtain ⟨⟨h2, h3⟩, h4⟩ := hset
      have hb := byte_bit r.buf r.byteIndex (i - r.availBitCount) (by omega)
      have e : 8 * r.byteIndex + (i - r.availBitCount) = pos + i := by omega
      rw [e] at hb
      rw [← hb]; exact h4

/-- the whole loop: keeps `Good`, keeps the position relation, and stops only when 56 bits
    are available or the buffer is exhausted (8 iterations always suffice). -/
theorem refillLoop_spec : ∀ (fuel : Nat) (r : BitsReader) (pos : Nat), Good r pos →
    pos + r.availBitCount = 8 * r.byteIndex → r.byteIndex ≤ r.buf.length →
    56 ≤ r.availBitCount + 8 * fuel →
    let r' := refillLoop r fuel
    Good r' pos ∧ pos + r'.availBitCount = 8 * r'.byteIndex ∧ r'.byteIndex ≤ r'.buf.length ∧
    r'.buf = r.buf ∧ r'.eof = r.eof ∧ r'.panicked = r.panicked ∧ r'.eofPadded = r.eofPadded ∧
    r.availBitCount ≤ r'.availBitCount ∧ r'.availBitCount ≤ max r.availBitCount 63 ∧
    (r'.byteIndex = r'.buf.length ∨ 56 ≤ r'.availBitCount) := by
  intro fuel
  induction fuel with
  | zero =>
    intro r pos hg hp hb hf
    simp only [refillLoop]
    refine ⟨hg, hp, hb, trivial, trivial, trivial, trivial, Nat.le_refl _, by omega, Or.inr (by omega)⟩
  | succ fuel ih =>
    intro r pos hg hp hb hf
    simp only [refillLoop]
    by_cases hc : r.byteIndex < r.buf.length ∧ r.availBitCount < 56
    · simp only [hc, and_self, ↓reduceIte]
      have hg' := refill_byte r pos hg hp hc.2
      have := ih _ pos hg' (by simp only; omega) (by simp only; omega) (by simp only; omega)
      simp only at this ⊢
      obtain ⟨h1, h2, h3, h4, h5, h6, h7, h8, h9, h10⟩ := this
      refine ⟨h1, h2, h3, h4, h5, h6, h7, by omega, by omega, h10⟩
    · simp only [hc, ↓reduceIte]
      refine ⟨hg, hp, hb, trivial, trivial, trivial, trivial, Nat.le_refl _, by omega, ?_⟩
      rcases Nat.lt_or_ge r.byteIndex r.buf.length with h | h
      · right
        have : ¬ r.availBitCount < 56 := fun h' => hc ⟨h, h'⟩
        omega
      · left; omega

end BitsReader
end Stef

namespace Stef
namespace BitsReader

def loadN (buf : Bytes) (i n : Nat) : Word :=
  (List.range n).foldl (fun acc k => (acc <<< 8) ||| ((buf.getD (i + k) 0#8).setWidth 64)) 0#64

theorem load64_eq (buf : Bytes) (i : Nat) : load64 buf i = loadN buf i 8 := rfl

theorem loadN_getLsbD (buf : Bytes) (i : Nat) : ∀ (n : Nat), n ≤ 8 → ∀ j, j < 64 →
    (loadN buf i n).getLsbD j =
      (decide (j < 8 * n) && (buf.getD (i + (n - 1 - j / 8)) 0#8).getLsbD (j % 8)) := by
  intro n
  induction n with
  | zero => intro _ j _; simp [loadN]
  | succ n ih =>
    intro hn j hj
    have e : loadN buf i (n + 1) = (loadN buf i n <<< 8) ||| ((buf.getD (i + n) 0#8).setWidth 64) := by
      simp [loadN, List.range_succ, List.foldl_append]
    rw [e, BitVec.getLsbD_or, BitVec.getLsbD_shiftLeft, BitVec.getLsbD_setWidth]
    by_cases h8 : j < 8
    · have h1 : j / 8 = 0 := by omega
      have h2 : j % 8 = j := by omega
      have h3 : j < 8 * (n + 1) := by omega
      simp [h8, hj, h1, h2, h3]
    · have hge : 8 ≤ j := by omega
      rw [ih (by omega) (j - 8) (by omega)]
      have h1 : (j - 8) / 8 = j / 8 - 1 := by omega
      have h2 : (j - 8) % 8 = j % 8 := by omega
      have h4 : (buf.getD (i + n) 0#8).getLsbD j = false := by apply BitVec.getLsbD_of_ge; omega
      have h5 : ¬ j < 8 := h8
      rw [h1, h2, h4]
      simp only [h5, decide_false, Bool.not_false, Bool.and_true, Bool.false_and, Bool.or_false, hj, decide_true,
        Bool.true_and, Nat.add_one_sub_one]
      by_cases hlt : j - 8 < 8 * n
      · have h3 : j < 8 * (n + 1) := by omega
        have hidx' : n - 1 - (j / 8 - 1) = n - j / 8 := by omega
        simp only [hlt, h3, decide_true, Bool.true_and, hidx']
      · have h3 : ¬ j < 8 * (n + 1) := by omega
        simp only [hlt, h3, decide_false, Bool.false_and]

/-- the 8-byte load of the fast refill path holds the next 64 bits of the buffer -/
theorem load64_getMsbD (buf : Bytes) (i k : Nat) (hk : k < 64) :
    (load64 buf i).getMsbD k = bitAt buf (8 * i + k) := by
  rw [load64_eq]
  simp only [BitVec.getMsbD, hk, decide_true, Bool.true_and]
  rw [loadN_getLsbD buf i 8 (by omega) (64 - 1 - k) (by omega)]
  have h1 : 64 - 1 - k < 8 * 8 := by omega
  have h2 : 8 - 1 - (64 - 1 - k) / 8 = k / 8 := by omega
  have h3 : (64 - 1 - k) % 8 = 8 - 1 - k % 8 := by omega
  simp only [h1, decide_true, Bool.true_and, h2, h3]
  unfold bitAt
  have h4 : (8 * i + k) / 8 = i + k / 8 := by omega
  have h5 : (8 * i + k) % 8 = k % 8 := by omega
  rw [h4, h5]
  simp only [BitVec.getMsbD]
  have : k % 8 < 8 := by omega
  simp [this]

end BitsReader
end Stef

namespace Stef
namespace BitsReader

/-- the `n` buffer bits starting at `pos`, as a number -/
def window (buf : Bytes) (pos n : Nat) : Word :=
  wordOfBits ((List.range n).map (fun j => bitAt buf (pos + j))) 0#64

theorem window_getLsbD (buf : Bytes) (pos n j : Nat) (hj : j < 64) :
    (window buf pos n).getLsbD j = (decide (j < n) && bitAt buf (pos + (n - 1 - j))) := by
  unfold window
  rw [wordOfBits_getLsbD _ _ _ hj]
  simp only [List.length_map, List.length_range]
  by_cases h : j < n
  · simp only [h, ↓reduceIte, decide_true, Bool.true_and]
    rw [List.getD_eq_getElem?_getD, List.getElem?_map, List.getElem?_range (by omega)]
    simp
  · simp [h]

structure RInv (r : BitsReader) (pos : Nat) : Prop where
  good : Good r pos
  noeof : r.eof = false
  nopanic : r.panicked = false
  posn : (r.eofPadded = false ∧ pos + r.availBitCount = 8 * r.byteIndex ∧ r.byteIndex ≤ r.buf.length ∧
            r.availBitCount ≤ 63 ∧ (r.byteIndex < r.buf.length ∨ r.buf.length = 0)) ∨
         (r.eofPadded = true ∧ r.buf.length ≤ r.byteIndex ∧ pos + r.availBitCount = 8 * r.buf.length + 56 ∧
            8 * r.buf.length ≤ pos + 63)

theorem rinv_init (buf : Bytes) : RInv { buf := buf } 0 := by
  refine ⟨⟨?_, ?_⟩, rfl, rfl, Or.inl ⟨rfl, by simp, by simp, by simp, ?_⟩⟩
  · intro i _ h; simp at h
  · intro i _ h; simp [BitVec.getMsbD] at h
  · simp only; cases buf with
    | nil => right; rfl
    | cons b bs => left; simp

/-- the fast path of PeekBits: the top `n` bits of the register are the window -/
theorem peek_value (r : BitsReader) (pos n : Nat) (hg : Good r pos) (hn : n ≤ r.availBitCount) (h64 : n ≤ 64) :
    r.bitBuf >>> (64 - n) = window r.buf pos n := by
  apply BitVec.eq_of_getLsbD_eq
  intro j hj
  rw [window_getLsbD _ _ _ _ hj, BitVec.getLsbD_ushiftRight]
  by_cases h : j < n
  · have e : 64 - n + j = 64 - 1 - (n - 1 - j) := by omega
    have hi : n - 1 - j < 64 := by omega
    have := hg.a (n - 1 - j) hi (by omega)
    simp only [BitVec.getMsbD, hi, decide_true, Bool.true_and] at this
    simp only [h, decide_true, Bool.true_and, e, this]
  · simp only [h, decide_false, Bool.false_and]
    apply BitVec.getLsbD_of_ge; omega

/-- `Consume(n)` after a successful peek moves the position by `n`. -/
theorem consume_spec (r : BitsReader) (pos n : Nat) (hI : RInv r pos) (hn : n ≤ r.availBitCount) :
    RInv (r.consume n) (pos + n) := by
  obtain ⟨hg, he, hp, hpos⟩ := hI
  have hav : (r.consume n).availBitCount = r.availBitCount - n := by simp [consume, hn]
  refine ⟨⟨?_, ?_⟩, by simpa [consume] using he, by simpa [consume] using hp, ?_⟩
  · intro i hi hlt
    rw [hav] at hlt
    simp only [consume, BitVec.getMsbD_shiftLeft]
    have h1 : i + n < 64 ∨ 64 ≤ i + n := by omega
    rcases h1 with h1 | h1
    · have := hg.a (i + n) h1 (by omega)
      simp only [hi, decide_true, Bool.true_and, this]
      congr 1; omega
    · -- beyond the register: the bit is 0, and so is the buffer (only phantom bits can be there)
      have hz : r.bitBuf.getMsbD (i + n) = false := by simp [BitVec.getMsbD]; omega
      simp only [hi, decide_true, Bool.true_and, hz]
      symm
      rcases hpos with ⟨_, h2, h3, h4⟩ | ⟨_, h3, h4, h5⟩
      · omega
      · apply bitAt_past_end
        -- pos + avail = 8 len + 56 and i + n < avail with i + n ≥ 64 > 56
        omega
  · intro i hi hset
    simp only [consume, BitVec.getMsbD_shiftLeft, hi, decide_true, Bool.true_and] at hset
    have h1 : i + n < 64 := by
      rcases Nat.lt_or_ge (i + n) 64 with h | h
      · exact h
      · have : r.bitBuf.getMsbD (i + n) = false := by simp [BitVec.getMsbD]; omega
        rw [this] at hset; cases hset
    have := hg.b (i + n) h1 hset
    have e : pos + n + i = pos + (i + n) := by omega
    rw [e]; exact this
  · rw [hav]
    rcases hpos with ⟨h1, h2, h3, h4, h6⟩ | ⟨h1, h3, h4, h5⟩
    · left; exact ⟨by simpa [consume] using h1, by simp [consume]; omega, by simpa [consume] using h3, by omega, by simpa [consume] using h6⟩
    · right; exact ⟨by simpa [consume] using h1, by simpa [consume] using h3, by simp [consume]; omega, by simp [consume]; omega⟩

end BitsReader
end Stef

namespace Stef
namespace BitsReader

theorem or56 : ∀ a, a < 56 → a ||| 56 = 56 + a % 8 ∧ (63 - a) >>> 3 = 7 - a / 8 := by decide

theorem ushiftRight_getMsbD (x : Word) (a i : Nat) (hi : i < 64) :
    (x >>> a).getMsbD i = (decide (a ≤ i) && x.getMsbD (i - a)) := by
  simp only [BitVec.getMsbD, BitVec.getLsbD_ushiftRight, hi, decide_true, Bool.true_and]
  by_cases h : a ≤ i
  · have e : a + (64 - 1 - i) = 64 - 1 - (i - a) := by omega
    have h2 : i - a < 64 := by omega
    simp [h, e, h2]
  · have : 64 ≤ a + (64 - 1 - i) := by omega
    have hz : x.getLsbD (a + (64 - 1 - i)) = false := BitVec.getLsbD_of_ge _ _ this
    simp [h, hz]

/-- the fast refill path (at least 9 bytes left): loads 8 bytes, keeps 56..63 bits available. -/
theorem refill_fast (r : BitsReader) (pos : Nat) (hI : RInv r pos) (ha : r.availBitCount < 56)
    (hfast : r.byteIndex + 8 < r.buf.length) :
    RInv { r with bitBuf := r.bitBuf ||| (load64 r.buf r.byteIndex >>> r.availBitCount),
                  byteIndex := r.byteIndex + ((63 - r.availBitCount) >>> 3),
                  availBitCount := r.availBitCount ||| 56 } pos ∧
    56 ≤ (r.availBitCount ||| 56) := by
  obtain ⟨hg, he, hp, hpos⟩ := hI
  obtain ⟨h1, h2⟩ := or56 r.availBitCount ha
  rcases hpos with ⟨hp1, hp2, hp3, hp4⟩ | ⟨_, hq, _, _⟩
  · refine ⟨⟨⟨?_, ?_⟩, he, hp, Or.inl ⟨hp1, ?_, ?_, ?_⟩⟩, by omega⟩
    · intro i hi _
      simp only
      rw [BitVec.getMsbD_or, ushiftRight_getMsbD _ _ _ hi]
      by_cases hlt : i < r.availBitCount
      · have : ¬ r.availBitCount ≤ i := by omega
        simp [this, hg.a i hi hlt]
      · have hle : r.availBitCount ≤ i := by omega
        rw [load64_getMsbD _ _ _ (by omega)]
        have e : 8 * r.byteIndex + (i - r.availBitCount) = pos + i := by omega
        simp only [hle, decide_true, Bool.true_and, e]
        cases hb : r.bitBuf.getMsbD i with
        | false => simp
        | true => simp [hg.b i hi hb]
    · intro i hi hset
      simp only at hset
      rw [BitVec.getMsbD_or, ushiftRight_getMsbD _ _ _ hi] at hset
      cases hb : r.bitBuf.getMsbD i with
      | true => exact hg.b i hi hb
      | false =>
        simp only [hb, Bool.false_or, Bool.and_eq_true, decide_eq_true_eq] at hset
        rw [load64_getMsbD _ _ _ (by omega)] at hset
        have e : 8 * r.byteIndex + (i - r.availBitCount) = pos + i := by omega
        rw [e] at hset; exact hset.2
    · simp only; rw [h1, h2]; omega
    · simp only; rw [h2]; omega
    · simp only; rw [h1]; omega
  · omega

/-- the slow refill path (near the end of the buffer), when at least one byte is left. -/
theorem refill_slow (r : BitsReader) (pos : Nat) (hI : RInv r pos) (ha : r.availBitCount < 56)
    (hmore : r.byteIndex < r.buf.length) :
    RInv (refillSlow r) pos ∧ 56 ≤ (refillSlow r).availBitCount ∧ (refillSlow r).buf = r.buf := by
  obtain ⟨hg, he, hp, hpos⟩ := hI
  rcases hpos with ⟨hp1, hp2, hp3, hp4⟩ | ⟨_, hq, _, _⟩
  · have hnot : ¬ r.byteIndex ≥ r.buf.length := by omega
    simp only [refillSlow, hnot, ↓reduceIte]
    have hl := refillLoop_spec 8 r pos hg hp2 hp3 (by omega)
    simp only at hl
    obtain ⟨l1, l2, l3, l4, l5, l6, l7, l8, l9, l10⟩ := hl
    by_cases hend : (refillLoop r 8).byteIndex ≥ (refillLoop r 8).buf.length
    · simp only [hend, ↓reduceIte]
      refine ⟨⟨⟨?_, ?_⟩, by simpa using (l5.trans he), by simpa using (l6.trans hp), Or.inr ⟨rfl, ?_, ?_, ?_⟩⟩, by omega, l4⟩
      · intro i hi _
        simp only
        by_cases hlt : i < (refillLoop r 8).availBitCount
        · exact l1.a i hi hlt
        · have hpast : bitAt (refillLoop r 8).buf (pos + i) = false := by
            apply bitAt_past_end; omega
          rw [hpast]
          cases hb : (refillLoop r 8).bitBuf.getMsbD i with
          | false => rfl
          | true => have := l1.b i hi hb; rw [hpast] at this; cases this
      · intro i hi hset; exact l1.b i hi hset
      · simpa using hend
      · simp only; omega
      · simp only; omega
    · simp only [hend, ↓reduceIte]
      have h56 : 56 ≤ (refillLoop r 8).availBitCount := by
        rcases l10 with h | h
        · omega
        · exact h
      refine ⟨⟨l1, l5.trans he, l6.trans hp, Or.inl ⟨l7.trans hp1, l2, l3, by omega⟩⟩, h56, l4⟩
  · omega

end BitsReader
end Stef

namespace Stef
namespace BitsReader

/-- PeekBits (n ≤ 56) from a state in which `pos` bits were consumed: either it flags EOF — and
    then the buffer is exhausted and fewer than `n` real-or-padding bits remain — or it returns
    exactly the next `n` bits of the (zero padded) buffer and keeps the invariant. -/
theorem peekBits_spec (r : BitsReader) (pos n : Nat) (hI : RInv r pos) (hn : n ≤ 56) :
    (r.peekBits n).1.buf = r.buf ∧
    ((r.peekBits n).1.eof = false →
        RInv (r.peekBits n).1 pos ∧ n ≤ (r.peekBits n).1.availBitCount ∧
        (r.peekBits n).2 = window r.buf pos n) ∧
    ((r.peekBits n).1.eof = true → r.buf.length ≤ r.byteIndex ∧ r.availBitCount < n) := by
  unfold peekBits
  by_cases hav : n ≤ r.availBitCount
  · simp only [hav, ↓reduceIte, true_and]
    refine ⟨fun _ => ⟨hI, peek_value r pos n hI.good hav (by omega)⟩, fun h => ?_⟩
    rw [hI.noeof] at h; cases h
  · simp only [hav, ↓reduceIte]
    unfold refillAndPeekBits
    have h56 : ¬ n > 56 := by omega
    simp only [h56, ↓reduceIte]
    have ha : r.availBitCount < 56 := by omega
    by_cases hfast : r.byteIndex + 8 < r.buf.length
    · simp only [hfast, ↓reduceIte, true_and]
      obtain ⟨hR, hge⟩ := refill_fast r pos hI ha hfast
      refine ⟨fun _ => ⟨hR, by omega, ?_⟩, fun h => ?_⟩
      · exact peek_value _ pos n hR.good (by simp only; omega) (by omega)
      · rw [hI.noeof] at h; cases h
    · simp only [hfast, ↓reduceIte]
      by_cases hmore : r.byteIndex < r.buf.length
      · obtain ⟨hR, hge, hb⟩ := refill_slow r pos hI ha hmore
        refine ⟨hb, fun _ => ⟨hR, by omega, ?_⟩, fun h => ?_⟩
        · have := peek_value _ pos n hR.good (by omega) (by omega)
          rw [hb] at this; exact this
        · rw [hR.noeof] at h; cases h
      · have hge : r.byteIndex ≥ r.buf.length := by omega
        simp only [refillSlow, hge, ↓reduceIte, true_and]
        exact ⟨fun h => (by cases h), fun _ => by omega⟩

/-- under the invariant, `Error() == nil` exactly when no bit past the end of the buffer was consumed -/
theorem err_iff (r : BitsReader) (pos : Nat) (hI : RInv r pos) :
    r.err = false ↔ pos ≤ 8 * r.buf.length := by
  obtain ⟨_, he, _, hpos⟩ := hI
  unfold err
  rcases hpos with ⟨hp1, hp2, hp3, _⟩ | ⟨hp1, _, hp3, _⟩
  · simp only [he, hp1, Bool.false_and, Bool.or_false, true_iff]; omega
  · simp only [he, hp1, Bool.true_and, Bool.false_or, decide_eq_false_iff_not]; omega

theorem consume_eof (r : BitsReader) (n : Nat) : (r.consume n).eof = r.eof := rfl
theorem consume_buf (r : BitsReader) (n : Nat) : (r.consume n).buf = r.buf := rfl

theorem refillLoop_eof (fuel : Nat) (r : BitsReader) : (refillLoop r fuel).eof = r.eof := by
  induction fuel generalizing r with
  | zero => rfl
  | succ k ih =>
    unfold refillLoop
    split
    · rw [ih]
    · rfl

theorem peekBits_eof_sticky (r : BitsReader) (n : Nat) (h : r.eof = true) : (r.peekBits n).1.eof = true := by
  unfold peekBits
  split
  · exact h
  · unfold refillAndPeekBits
    split
    · exact h
    · simp only
      split
      · exact h
      · unfold refillSlow
        split
        · rfl
        · simp only
          split
          · simp only; rw [refillLoop_eof]; exact h
          · rw [refillLoop_eof]; exact h

theorem peekBits_buf (r : BitsReader) (n : Nat) : (r.peekBits n).1.buf = r.buf := by
  unfold peekBits
  split
  · rfl
  · unfold refillAndPeekBits
    split
    · rfl
    · simp only
      split
      · rfl
      · unfold refillSlow
        split
        · rfl
        · have hb : ∀ (fuel : Nat) (q : BitsReader), (refillLoop q fuel).buf = q.buf := by
            intro fuel
            induction fuel with
            | zero => intro q; rfl
            | succ k ih =>
              intro q; unfold refillLoop
              split
              · rw [ih]
              · rfl
          simp only
          split
          · simp only; exact hb 8 r
          · exact hb 8 r

end BitsReader
end Stef

namespace Stef
namespace BitsReader

theorem window_concat (buf : Bytes) (pos a b : Nat) (hab : a + b ≤ 64) :
    window buf pos (a + b) = (window buf pos a <<< b) ||| window buf (pos + a) b := by
  apply BitVec.eq_of_getLsbD_eq
  intro j hj
  rw [BitVec.getLsbD_or, BitVec.getLsbD_shiftLeft, window_getLsbD _ _ _ _ hj, window_getLsbD _ _ _ _ hj]
  by_cases hjb : j < b
  · have h1 : j < a + b := by omega
    have e : pos + (a + b - 1 - j) = pos + a + (b - 1 - j) := by omega
    simp [hjb, h1, hj, e]
  · have hge : b ≤ j := by omega
    have hjb' : (j - b < 64) := by omega
    rw [window_getLsbD _ _ _ _ hjb']
    by_cases h1 : j < a + b
    · have h2 : j - b < a := by omega
      have e : pos + (a + b - 1 - j) = pos + (a - 1 - (j - b)) := by omega
      simp [hjb, h1, h2, hj, e]
    · have h2 : ¬ j - b < a := by omega
      simp [hjb, h1, h2]

theorem readBits_eof_sticky (r : BitsReader) (n : Nat) (h : r.eof = true) : (r.readBits n).1.eof = true := by
  unfold readBits
  split
  · simp only [consume_eof]; exact peekBits_eof_sticky r n h
  · unfold readBitsMoreThan56
    simp only [consume_eof]
    apply peekBits_eof_sticky
    rw [consume_eof]
    exact peekBits_eof_sticky r 56 h

theorem readBits_buf (r : BitsReader) (n : Nat) : (r.readBits n).1.buf = r.buf := by
  unfold readBits
  split
  · simp only [consume_buf, peekBits_buf]
  · unfold readBitsMoreThan56
    simp only [consume_buf, peekBits_buf]

/-- under the invariant, a PeekBits that flags EOF asked for bits beyond the end of the buffer -/
theorem peek_eof_past_end (r : BitsReader) (pos n : Nat) (hI : RInv r pos) (hn : n ≤ 56)
    (h : (r.peekBits n).1.eof = true) : 8 * r.buf.length < pos + n := by
  obtain ⟨hlen, hav⟩ := (peekBits_spec r pos n hI hn).2.2 h
  rcases hI.posn with ⟨_, hp2, hp3, _⟩ | ⟨_, _, hp3, _⟩ <;> omega

/-- **ReadBits**, any width up to 64, from a state in which `pos` bits were consumed: if EOF is not
    flagged the value is exactly the next `n` bits of the zero-padded buffer and `pos + n` bits are
    consumed; if it is flagged, the read went beyond the end of the buffer. -/
theorem readBits_spec (r : BitsReader) (pos n : Nat) (hI : RInv r pos) (hn : n ≤ 64) :
    ((r.readBits n).1.eof = false → RInv (r.readBits n).1 (pos + n) ∧ (r.readBits n).2 = window r.buf pos n) ∧
    ((r.readBits n).1.eof = true → 8 * r.buf.length < pos + n) := by
  unfold readBits
  by_cases h56 : n ≤ 56
  · simp only [h56, ↓reduceIte, consume_eof]
    obtain ⟨hb, hok, _⟩ := peekBits_spec r pos n hI h56
    refine ⟨fun he => ?_, fun he => peek_eof_past_end r pos n hI h56 he⟩
    obtain ⟨hR, hav, hv⟩ := hok he
    exact ⟨consume_spec _ pos n hR hav, hv⟩
  · simp only [h56, ↓reduceIte]
    unfold readBitsMoreThan56
    simp only [consume_eof]
    obtain ⟨hb1, hok1, _⟩ := peekBits_spec r pos 56 hI (Nat.le_refl _)
    by_cases he1 : (r.peekBits 56).1.eof = true
    · -- the first peek already ran out: EOF is sticky
      have hpast := peek_eof_past_end r pos 56 hI (Nat.le_refl _) he1
      have hst : ((((r.peekBits 56).1.consume (if (r.peekBits 56).1.availBitCount > 56 then 56 else (r.peekBits 56).1.availBitCount)).peekBits
          (n - (if (r.peekBits 56).1.availBitCount > 56 then 56 else (r.peekBits 56).1.availBitCount))).1.eof = true) := by
        apply peekBits_eof_sticky; rw [consume_eof]; exact he1
      refine ⟨fun he => ?_, fun _ => by omega⟩
      rw [hst] at he; cases he
    · have he1' : (r.peekBits 56).1.eof = false := by
        cases h : (r.peekBits 56).1.eof with
        | true => exact absurd h he1
        | false => rfl
      obtain ⟨hR1, hav1, hv1⟩ := hok1 he1'
      have htc : (if (r.peekBits 56).1.availBitCount > 56 then 56 else (r.peekBits 56).1.availBitCount) = 56 := by
        split <;> omega
      rw [htc]
      have hR2 := consume_spec _ pos 56 hR1 hav1
      have hn2 : n - 56 ≤ 56 := by omega
      obtain ⟨hb3, hok3, _⟩ := peekBits_spec _ (pos + 56) (n - 56) hR2 hn2
      refine ⟨fun he => ?_, fun he => ?_⟩
      · obtain ⟨hR3, hav3, hv3⟩ := hok3 he
        have hc := consume_spec _ (pos + 56) (n - 56) hR3 hav3
        have e : pos + 56 + (n - 56) = pos + n := by omega
        rw [e] at hc
        refine ⟨hc, ?_⟩
        simp only [consume_buf] at hv3
        rw [hb1] at hv3
        rw [hv1, hv3]
        have := window_concat r.buf pos 56 (n - 56) (by omega)
        have e2 : 56 + (n - 56) = n := by omega
        rw [e2] at this
        exact this.symm
      · have := peek_eof_past_end _ (pos + 56) (n - 56) hR2 hn2 he
        simp only [consume_buf] at this
        rw [hb1] at this
        omega

end BitsReader
end Stef

namespace Stef
namespace BitsReader

/-- ReadBit is ReadBits(1) (its fast path is the inlined fast path of PeekBits + Consume). -/
theorem readBit_eq_readBits (r : BitsReader) : r.readBit = r.readBits 1 := by
  unfold readBit readBits
  simp only [show (1 : Nat) ≤ 56 by omega, ↓reduceIte]
  by_cases h : r.availBitCount > 0
  · have h1 : 1 ≤ r.availBitCount := h
    simp only [h, ↓reduceIte, peekBits, h1, consume]
  · simp only [h, ↓reduceIte]

/-- a sequence of ReadBits calls -/
def readMany : BitsReader → List Nat → BitsReader × List Word
  | r, [] => (r, [])
  | r, n :: ns =>
    let (r1, v) := r.readBits n
    let (r2, vs) := readMany r1 ns
    (r2, v :: vs)

/-- the values a correct reader returns for the widths `ns` starting at bit `pos` -/
def windows (buf : Bytes) : Nat → List Nat → List Word
  | _, [] => []
  | pos, n :: ns => window buf pos n :: windows buf (pos + n) ns

theorem readMany_eof_sticky (ns : List Nat) (r : BitsReader) (h : r.eof = true) :
    (readMany r ns).1.eof = true := by
  induction ns generalizing r with
  | nil => exact h
  | cons n ns ih =>
    simp only [readMany]
    exact ih _ (readBits_eof_sticky r n h)

theorem readMany_buf (ns : List Nat) (r : BitsReader) : (readMany r ns).1.buf = r.buf := by
  induction ns generalizing r with
  | nil => rfl
  | cons n ns ih => simp only [readMany]; rw [ih, readBits_buf]

theorem readMany_spec (ns : List Nat) (r : BitsReader) (pos : Nat) (hI : RInv r pos) (hns : ∀ n ∈ ns, n ≤ 64) :
    (pos + ns.sum ≤ 8 * r.buf.length →
        (readMany r ns).1.err = false ∧ (readMany r ns).2 = windows r.buf pos ns ∧
        RInv (readMany r ns).1 (pos + ns.sum)) ∧
    (8 * r.buf.length < pos + ns.sum → (readMany r ns).1.err = true) := by
  induction ns generalizing r pos with
  | nil =>
    simp only [readMany, List.sum_nil, Nat.add_zero, windows]
    refine ⟨fun h => ⟨(err_iff r pos hI).2 h, trivial, hI⟩, fun h => ?_⟩
    cases he : r.err with
    | true => rfl
    | false => have := (err_iff r pos hI).1 he; omega
  | cons n ns ih =>
    have hn : n ≤ 64 := hns n (by simp)
    have hns' : ∀ m ∈ ns, m ≤ 64 := fun m hm => hns m (by simp [hm])
    obtain ⟨hok, heof⟩ := readBits_spec r pos n hI hn
    simp only [readMany, List.sum_cons, windows]
    by_cases he : (r.readBits n).1.eof = true
    · have hpast := heof he
      have hst := readMany_eof_sticky ns _ he
      refine ⟨fun h => by omega, fun _ => ?_⟩
      unfold err; rw [hst]; rfl
    · have he' : (r.readBits n).1.eof = false := by
        cases h : (r.readBits n).1.eof with
        | true => exact absurd h he
        | false => rfl
      obtain ⟨hR, hv⟩ := hok he'
      have hb := readBits_buf r n
      obtain ⟨ih1, ih2⟩ := ih (r.readBits n).1 (pos + n) hR hns'
      rw [hb] at ih1 ih2
      refine ⟨fun h => ?_, fun h => ?_⟩
      · obtain ⟨a, b, c⟩ := ih1 (by omega)
        refine ⟨a, by rw [b, hv], ?_⟩
        have e : pos + n + ns.sum = pos + (n + ns.sum) := by omega
        rw [e] at c; exact c
      · exact ih2 (by omega)

end BitsReader
end Stef

namespace Stef
namespace BitsReader
open Stef.Spec

theorem byteBits_getD (b : Byte) (k : Nat) (hk : k < 8) : (byteBits b).getD k false = b.getMsbD k := by
  unfold byteBits
  rw [List.getD_eq_getElem?_getD, List.getElem?_map, List.getElem?_range hk]
  rfl

theorem getD_append_left' (l l' : Bits) (k : Nat) (h : k < l.length) : (l ++ l').getD k false = l.getD k false := by
  simp [List.getD_eq_getElem?_getD, List.getElem?_append_left h]

theorem getD_append_right' (l l' : Bits) (k : Nat) (h : l.length ≤ k) :
    (l ++ l').getD k false = l'.getD (k - l.length) false := by
  simp [List.getD_eq_getElem?_getD, List.getElem?_append_right h]

theorem bitAt_eq_bytesBits (buf : Bytes) (k : Nat) : bitAt buf k = (bytesBits buf).getD k false := by
  induction buf generalizing k with
  | nil => simp [bitAt, bytesBits, BitVec.getMsbD]
  | cons b bs ih =>
    have hl : (byteBits b).length = 8 := by simp [byteBits]
    by_cases hk : k < 8
    · have e1 : k / 8 = 0 := by omega
      have e2 : k % 8 = k := by omega
      have hR : (bytesBits (b :: bs)).getD k false = b.getMsbD k := by
        show (byteBits b ++ bytesBits bs).getD k false = _
        rw [getD_append_left' _ _ _ (by omega), byteBits_getD b k hk]
      rw [hR]
      unfold bitAt
      rw [e1, e2]
      rfl
    · have e1 : k / 8 = (k - 8) / 8 + 1 := by omega
      have e2 : k % 8 = (k - 8) % 8 := by omega
      have hR : (bytesBits (b :: bs)).getD k false = (bytesBits bs).getD (k - 8) false := by
        show (byteBits b ++ bytesBits bs).getD k false = _
        rw [getD_append_right' _ _ _ (by omega), hl]
      rw [hR, ← ih (k - 8)]
      unfold bitAt
      rw [e1, e2]
      rfl

theorem window_eq_take_drop (buf : Bytes) (pos n : Nat) (h : pos + n ≤ 8 * buf.length) :
    window buf pos n = wordOfBits (((bytesBits buf).drop pos).take n) 0#64 := by
  unfold window
  congr 1
  apply List.ext_getElem
  · simp [bytesBits_length]; omega
  · intro i h1 h2
    simp only [List.getElem_map, List.getElem_range, List.getElem_take, List.getElem_drop]
    rw [bitAt_eq_bytesBits, List.getD_eq_getElem?_getD, List.getElem?_eq_getElem]
    rfl

theorem spec_readBits_take (n : Nat) (bs : Bits) (h : n ≤ bs.length) :
    Spec.readBits n bs = some (wordOfBits (bs.take n) 0#64, bs.drop n) := by
  have := readBitsAux_append (bs.take n) (bs.drop n) 0#64
  rw [List.take_append_drop, List.length_take, Nat.min_eq_left h] at this
  exact this

/-- **refinement**: on every buffer and at every bit position, the register-level Go reader
    (`ReadBits`, any width up to 64, with its fast and slow refill paths and the 56 padding bits)
    returns what the specification's bit reader returns on the buffer's bit list, as long as the
    read stays inside the buffer. -/
theorem readBits_refines_spec (r : BitsReader) (pos n : Nat) (hI : RInv r pos) (hn : n ≤ 64)
    (hin : pos + n ≤ 8 * r.buf.length) :
    Spec.readBits n ((bytesBits r.buf).drop pos) =
      some ((r.readBits n).2, (bytesBits r.buf).drop (pos + n)) ∧
    RInv (r.readBits n).1 (pos + n) ∧ (r.readBits n).1.err = false := by
  obtain ⟨hok, heof⟩ := readBits_spec r pos n hI hn
  have he : (r.readBits n).1.eof = false := by
    cases h : (r.readBits n).1.eof with
    | false => rfl
    | true => have := heof h; omega
  obtain ⟨hR, hv⟩ := hok he
  refine ⟨?_, hR, ?_⟩
  · rw [spec_readBits_take n _ (by simp [bytesBits_length]; omega), hv, window_eq_take_drop _ _ _ hin,
      List.drop_drop]
  · apply (err_iff _ _ hR).2
    rw [readBits_buf]; exact hin

end BitsReader
end Stef
