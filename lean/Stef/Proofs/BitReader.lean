/-
  Refinement of the 64-bit staging register of `BitsReader` (bitstream.go) to the bit string of
  its buffer: at every position, `PeekBits/Consume/ReadBits/ReadBit` return the bits of
  `bytesBits buf` (followed by zeros), and the reader state stays consistent.
-/
import Stef.BitStream
import Stef.Proofs.BitStream

namespace Stef

/-- bit `i` of the buffer (false past its end) -/
def bitAt (buf : Bytes) (i : Nat) : Bool := (buf.getD (i / 8) 0#8).getMsbD (i % 8)

theorem bitAt_past_end (buf : Bytes) (i : Nat) (h : 8 * buf.length ≤ i) : bitAt buf i = false := by
  unfold bitAt
  have : buf.length ≤ i / 8 := by omega
  rw [List.getD_eq_getElem?_getD, List.getElem?_eq_none this]
  simp [BitVec.getMsbD]

/-- the byte placed by `refillSlow`: `uint64(b) << (64 - avail - 8)` -/
theorem byte_shift_getMsbD (b : Byte) (avail i : Nat) (ha : avail + 8 ≤ 64) (hi : i < 64) :
    ((b.setWidth 64) <<< (64 - avail - 8)).getMsbD i =
      (decide (avail ≤ i) && decide (i < avail + 8) && b.getMsbD (i - avail)) := by
  simp only [BitVec.getMsbD, BitVec.getLsbD_shiftLeft, BitVec.getLsbD_setWidth, hi, decide_true,
    Bool.true_and]
  by_cases h1 : avail ≤ i
  · by_cases h2 : i < avail + 8
    · have a1 : 64 - 1 - i < 64 := by omega
      have a2 : ¬ (64 - 1 - i < 64 - avail - 8) := by omega
      have a3 : 64 - 1 - i - (64 - avail - 8) = 8 - 1 - (i - avail) := by omega
      have a4 : i - avail < 8 := by omega
      have a5 : 8 - 1 - (i - avail) < 64 := by omega
      simp [h1, h2, a1, a2, a3, a4, a5]
    · have a2 : ¬ (64 - 1 - i < 64 - avail - 8) ∨ (64 - 1 - i < 64 - avail - 8) := by omega
      have a6 : 64 - 1 - i < 64 - avail - 8 := by omega
      simp [h1, h2, a6]
  · have a3 : 8 ≤ 64 - 1 - i - (64 - avail - 8) := by omega
    have : (b.getLsbD (64 - 1 - i - (64 - avail - 8))) = false := by
      apply BitVec.getLsbD_of_ge; omega
    simp [h1, this]

end Stef

namespace Stef
namespace BitsReader

/-- content part of the invariant: the register agrees with the buffer from position `pos`:
    the `avail` leading bits are exactly the buffer's bits, and no other bit is set that the
    buffer does not have (later refills OR the same bits over them). -/
structure Good (r : BitsReader) (pos : Nat) : Prop where
  a : ∀ i, i < 64 → i < r.availBitCount → r.bitBuf.getMsbD i = bitAt r.buf (pos + i)
  b : ∀ i, i < 64 → r.bitBuf.getMsbD i = true → bitAt r.buf (pos + i) = true

theorem byte_bit (buf : Bytes) (bi k : Nat) (hk : k < 8) :
    (buf.getD bi 0#8).getMsbD k = bitAt buf (8 * bi + k) := by
  unfold bitAt
  have h1 : (8 * bi + k) / 8 = bi := by omega
  have h2 : (8 * bi + k) % 8 = k := by omega
  rw [h1, h2]

/-- one iteration of the `refillSlow` loop -/
theorem refill_byte (r : BitsReader) (pos : Nat) (hg : Good r pos)
    (hp : pos + r.availBitCount = 8 * r.byteIndex) (ha : r.availBitCount < 56) :
    Good { r with bitBuf := r.bitBuf ||| (((r.buf.getD r.byteIndex 0#8).setWidth 64) <<< (64 - r.availBitCount - 8)),
                  byteIndex := r.byteIndex + 1, availBitCount := r.availBitCount + 8 } pos := by
  constructor
  · intro i hi hlt
    simp only at hlt ⊢
    rw [BitVec.getMsbD_or, byte_shift_getMsbD _ _ _ (by omega) hi]
    by_cases h1 : i < r.availBitCount
    · have : ¬ (r.availBitCount ≤ i) := by omega
      simp [this, hg.a i hi h1]
    · have h2 : r.availBitCount ≤ i := by omega
      have h3 : i < r.availBitCount + 8 := hlt
      have hb := byte_bit r.buf r.byteIndex (i - r.availBitCount) (by omega)
      have e : 8 * r.byteIndex + (i - r.availBitCount) = pos + i := by omega
      rw [e] at hb
      simp only [h2, h3, decide_true, Bool.true_and, hb]
      cases hbit : r.bitBuf.getMsbD i with
      | false => simp
      | true => simp [hg.b i hi hbit]
  · intro i hi hset
    simp only at hset ⊢
    rw [BitVec.getMsbD_or, byte_shift_getMsbD _ _ _ (by omega) hi] at hset
    cases hbit : r.bitBuf.getMsbD i with
    | true => exact hg.b i hi hbit
    | false =>
      simp only [hbit, Bool.false_or, Bool.and_eq_true, decide_eq_true_eq] at hset
      obtain ⟨⟨h2, h3⟩, h4⟩ := hset
      have hb := byte_bit r.buf r.byteIndex (i - r.availBitCount) (by omega)
      have e : 8 * r.byteIndex + (i - r.availBitCount) = pos + i := by omega
      rw [e] at hb
      rw [← hb]; exact h4

/-- the whole loop: keeps `Good`, keeps the position relation, and stops only when 56 bits
    are available or the buffer is exhausted (8 iterations always suffice). -/
theorem refillLoop_spec : ∀ (fuel : Nat) (r : BitsReader) (pos : Nat), Good r pos →
    pos + r.availBitCount = 8 * r.byteIndex → r.byteIndex ≤ r.buf.length →
    56 ≤ r.availBitCount + 8 * fuel →
    let r' := refillLoop r fuel
    Good r' pos ∧ pos + r'.availBitCount = 8 * r'.byteIndex ∧ r'.byteIndex ≤ r'.buf.length ∧
    r'.buf = r.buf ∧ r'.eof = r.eof ∧ r'.panicked = r.panicked ∧ r'.eofPadded = r.eofPadded ∧
    r.availBitCount ≤ r'.availBitCount ∧ r'.availBitCount ≤ max r.availBitCount 63 ∧
    (r'.byteIndex = r'.buf.length ∨ 56 ≤ r'.availBitCount) := by
  intro fuel
  induction fuel with
  | zero =>
    intro r pos hg hp hb hf
    simp only [refillLoop]
    refine ⟨hg, hp, hb, trivial, trivial, trivial, trivial, Nat.le_refl _, by omega, Or.inr (by omega)⟩
  | succ fuel ih =>
    intro r pos hg hp hb hf
    simp only [refillLoop]
    by_cases hc : r.byteIndex < r.buf.length ∧ r.availBitCount < 56
    · simp only [hc, and_self, ↓reduceIte]
      have hg' := refill_byte r pos hg hp hc.2
      have := ih _ pos hg' (by simp only; omega) (by simp only; omega) (by simp only; omega)
      simp only at this ⊢
      obtain ⟨h1, h2, h3, h4, h5, h6, h7, h8, h9, h10⟩ := this
      refine ⟨h1, h2, h3, h4, h5, h6, h7, by omega, by omega, h10⟩
    · simp only [hc, ↓reduceIte]
      refine ⟨hg, hp, hb, trivial, trivial, trivial, trivial, Nat.le_refl _, by omega, ?_⟩
      rcases Nat.lt_or_ge r.byteIndex r.buf.length with h | h
      · right
        have : ¬ r.availBitCount < 56 := fun h' => hc ⟨h, h'⟩
        omega
      · left; omega

end BitsReader
end Stef

namespace Stef
namespace BitsReader

def loadN (buf : Bytes) (i n : Nat) : Word :=
  (List.range n).foldl (fun acc k => (acc <<< 8) ||| ((buf.getD (i + k) 0#8).setWidth 64)) 0#64

theorem load64_eq (buf : Bytes) (i : Nat) : load64 buf i = loadN buf i 8 := rfl

theorem loadN_getLsbD (buf : Bytes) (i : Nat) : ∀ (n : Nat), n ≤ 8 → ∀ j, j < 64 →
    (loadN buf i n).getLsbD j =
      (decide (j < 8 * n) && (buf.getD (i + (n - 1 - j / 8)) 0#8).getLsbD (j % 8)) := by
  intro n
  induction n with
  | zero => intro _ j _; simp [loadN]
  | succ n ih =>
    intro hn j hj
    have e : loadN buf i (n + 1) = (loadN buf i n <<< 8) ||| ((buf.getD (i + n) 0#8).setWidth 64) := by
      simp [loadN, List.range_succ, List.foldl_append]
    rw [e, BitVec.getLsbD_or, BitVec.getLsbD_shiftLeft, BitVec.getLsbD_setWidth]
    by_cases h8 : j < 8
    · have h1 : j / 8 = 0 := by omega
      have h2 : j % 8 = j := by omega
      have h3 : j < 8 * (n + 1) := by omega
      simp [h8, hj, h1, h2, h3]
    · have hge : 8 ≤ j := by omega
      rw [ih (by omega) (j - 8) (by omega)]
      have h1 : (j - 8) / 8 = j / 8 - 1 := by omega
      have h2 : (j - 8) % 8 = j % 8 := by omega
      have h4 : (buf.getD (i + n) 0#8).getLsbD j = false := by apply BitVec.getLsbD_of_ge; omega
      have hidx : n - 1 - (j / 8 - 1) = n + 1 - 1 - j / 8 ∨ ¬ (j - 8 < 8 * n) := by omega
      by_cases hlt : j - 8 < 8 * n
      · have h3 : j < 8 * (n + 1) := by omega
        have hidx' : n - 1 - (j / 8 - 1) = n + 1 - 1 - j / 8 := by omega
        simp [h8, hj, h1, h2, h3, h4, hlt, hidx']
      · have h3 : ¬ j < 8 * (n + 1) := by omega
        simp [h8, hj, h3, h4, hlt]

/-- the 8-byte load of the fast refill path holds the next 64 bits of the buffer -/
theorem load64_getMsbD (buf : Bytes) (i k : Nat) (hk : k < 64) :
    (load64 buf i).getMsbD k = bitAt buf (8 * i + k) := by
  rw [load64_eq]
  simp only [BitVec.getMsbD, hk, decide_true, Bool.true_and]
  rw [loadN_getLsbD buf i 8 (by omega) (64 - 1 - k) (by omega)]
  have h1 : 64 - 1 - k < 8 * 8 := by omega
  have h2 : 8 - 1 - (64 - 1 - k) / 8 = k / 8 := by omega
  have h3 : (64 - 1 - k) % 8 = 8 - 1 - k % 8 := by omega
  simp only [h1, decide_true, Bool.true_and, h2, h3]
  unfold bitAt
  have h4 : (8 * i + k) / 8 = i + k / 8 := by omega
  have h5 : (8 * i + k) % 8 = k % 8 := by omega
  rw [h4, h5]
  simp only [BitVec.getMsbD]
  have : k % 8 < 8 := by omega
  simp [this]

end BitsReader
end Stef
