/-
  Stef.Proofs.ForwardTree: initial values of the two schemas are related (`init_rel`), the typing
  of column trees by A's definitions (`NK`), `mkNode` builds typed trees (`mkNode_NK`), and the
  inversion lemmas of `KRel` the decoder simulation needs.
-/
import Stef.Proofs.ForwardRel

namespace Stef.Proofs.Forward
open Stef Stef.Spec Stef.Proofs.Override

/-! ## the parts of the previous value the decoder looks at -/

def structFields : St → List St
  | .struct _ fs => fs
  | _ => []

def structPres : St → Nat
  | .struct p _ => p
  | _ => 0

def arrElems : St → List St
  | .arr es => es
  | _ => []

def mmapPairs : St → List (St × St)
  | .mmap ps => ps
  | _ => []

def oneofPrev (σ : Schema) (an : Node) (typ : Nat) : St → St
  | .oneof ct (some pv) => if ct = typ then pv else altInit σ an
  | _ => altInit σ an

/-! ## inversion of Ext -/

theorem ext_struct_inv {p q : Nat} {a b : List St} (h : Ext (.struct p a) (.struct q b)) :
    p = q ∧ ∃ fb extra, b = fb ++ extra ∧ ExtL a fb := by
  cases h with
  | struct _ _ fb extra hl => exact ⟨rfl, fb, extra, rfl, hl⟩

theorem ext_struct_self {p : Nat} {l : List St} (h : Ext (.struct p l) (.struct p l)) : ExtL l l := by
  obtain ⟨_, fb, extra, he, hl⟩ := ext_struct_inv h
  have hlen := extL_length hl
  have h0 : extra = [] := by
    have := congrArg List.length he
    simp at this
    have : extra.length = 0 := by omega
    simpa using this
  subst h0
  simp at he
  subst he
  exact hl

theorem ext_oneof_inv {t u : Nat} {a b : St} (h : Ext (.oneof t (some a)) (.oneof u (some b))) : Ext a b := by
  cases h with
  | oneof _ _ _ h => exact h

theorem ext_arr_inv {a b : List St} (h : Ext (.arr a) (.arr b)) : ExtL a b := by
  cases h with
  | arr _ _ h => exact h

theorem ext_mmap_inv {a b : List (St × St)} (h : Ext (.mmap a) (.mmap b)) : ExtP a b := by
  cases h with
  | mmap _ _ h => exact h

theorem ext_initPrim (p : Prim) : Ext (initPrim p) (initPrim p) := by
  cases p <;> simp only [initPrim] <;> constructor

/-! ## inversion of KRel at the four composite node kinds -/

theorem krel_struct_inv {A : Schema} {key : String} {d : Option String} {fs : List Field} {ca cb : St}
    (hf : A.find key = some (.struct d fs)) (h : KRel A key ca cb) :
    structPres ca = structPres cb ∧ CurRel A fs (structFields ca) (structFields cb) := by
  cases h with
  | same _ _ hs =>
    refine ⟨rfl, ?_⟩
    cases ca with
    | struct p l => exact curRel_same fs (ext_struct_self hs)
    | _ => exact CurRel.short fs
  | struct _ d' fs' p xa xb hf' hc =>
    rw [hf] at hf'
    injection hf' with hf'
    injection hf' with _ hf'
    subst hf'
    exact ⟨rfl, hc⟩
  | oneof => exact ⟨rfl, CurRel.short fs⟩
  | mmap => exact ⟨rfl, CurRel.short fs⟩
  | arr => exact ⟨rfl, CurRel.short fs⟩

theorem krel_oneof_inv {A B : Schema} {key : String} {fs : List Field} {fd : Field} {typ : Nat} {an : Node} {ca cb : St}
    (hf : A.find key = some (.oneof fs)) (hfd : fs[typ - 1]? = some fd)
    (hinit : KRel A (tyKey fd.ty) (altInit A an) (altInit B an)) (h : KRel A key ca cb) :
    KRel A (tyKey fd.ty) (oneofPrev A an typ ca) (oneofPrev B an typ cb) := by
  cases h with
  | same _ _ hs =>
    cases ca with
    | oneof ct val =>
      cases val with
      | none => exact hinit
      | some v =>
        simp only [oneofPrev]
        by_cases hc : ct = typ
        · simp only [hc, if_true]
          exact KRel.same _ _ (ext_oneof_inv hs)
        · simp only [hc, if_false]
          exact hinit
    | _ => exact hinit
  | oneof _ fs' t fd' va vb hf' hfd' hv =>
    rw [hf] at hf'
    injection hf' with hf'
    injection hf' with hf'
    subst hf'
    simp only [oneofPrev]
    by_cases hc : t = typ
    · subst hc
      simp only [if_true]
      rw [hfd] at hfd'
      injection hfd' with hfd'
      subst hfd'
      exact hv
    · simp only [hc, if_false]
      exact hinit
  | struct => exact hinit
  | mmap => exact hinit
  | arr => exact hinit

theorem krel_arr_inv {A : Schema} {ek : String} {ca cb : St} (h : KRel A ("[]" ++ ek) ca cb) :
    ListRel A ek (arrElems ca) (arrElems cb) := by
  generalize hk : "[]" ++ ek = key at h
  cases h with
  | same _ _ hs =>
    cases ca with
    | arr l => exact listRel_same ek (ext_arr_inv hs)
    | _ => exact ListRel.nil ek
  | arr _ ek' ea eb he hl =>
    rw [he] at hk
    have := (String.append_right_inj "[]").mp hk
    subst this
    exact hl
  | struct => exact ListRel.nil ek
  | oneof => exact ListRel.nil ek
  | mmap => exact ListRel.nil ek

theorem krel_mmap_inv {A : Schema} {key : String} {k v : Ty} {ca cb : St}
    (hf : A.find key = some (.mmap k v)) (h : KRel A key ca cb) :
    PairRel A (tyKey k) (tyKey v) (mmapPairs ca) (mmapPairs cb) := by
  cases h with
  | same _ _ hs =>
    cases ca with
    | mmap l => exact pairRel_same _ _ (ext_mmap_inv hs)
    | _ => exact PairRel.nil _ _
  | mmap _ k' v' pa pb hf' hp =>
    rw [hf] at hf'
    injection hf' with hf'
    injection hf' with h1 h2
    subst h1; subst h2
    exact hp
  | struct => exact PairRel.nil _ _
  | oneof => exact PairRel.nil _ _
  | arr => exact PairRel.nil _ _

/-! ## initial values -/

/-- the slot of a field in a new struct -/
def fieldInit (σ : Schema) (fuel : Nat) (fd : Field) : St :=
  match fd.optional, fd.ty with
  | true, .ref _ => .oneof 0 none
  | true, .arr _ => .arr []
  | _, _ => initSt σ fuel fd.ty

theorem initSt_zero (σ : Schema) (ty : Ty) : initSt σ 0 ty = .oneof 0 none := by
  cases ty <;> rfl

theorem initSt_prim (σ : Schema) (f : Nat) (p : Prim) (d : Option String) : initSt σ (f + 1) (.prim p d) = initPrim p := rfl

theorem initSt_arr (σ : Schema) (f : Nat) (e : Ty) : initSt σ (f + 1) (.arr e) = .arr [] := rfl

theorem initSt_ref (σ : Schema) (f : Nat) (n : String) : initSt σ (f + 1) (.ref n) =
    match σ.find n with
    | some (.struct _ fs) => .struct 0 (fs.map (fieldInit σ f))
    | some (.oneof _) => .oneof 0 none
    | some (.mmap _ _) => .mmap []
    | none => .oneof 0 none := by
  rw [initSt]
  rfl

theorem curRel_init {A B : Schema} (f : Nat)
    (ih : ∀ ty, TyClosed A ty → KRel A (tyKey ty) (initSt A f ty) (initSt B f ty)) :
    ∀ (fs : List Field) (ex : List St), (∀ fd ∈ fs, TyClosed A fd.ty) →
      CurRel A fs (fs.map (fieldInit A f)) (fs.map (fieldInit B f) ++ ex)
  | [], ex, _ => CurRel.done [] [] ex _ (by simp) ExtL.nil
  | fd :: fs, ex, h => by
    simp only [List.map_cons, List.cons_append]
    refine CurRel.cons fd fs _ _ _ _ ?_ (curRel_init f ih fs ex (fun x hx => h x (List.mem_cons_of_mem _ hx)))
    have hfd := h fd (List.mem_cons_self)
    obtain ⟨nm, opt, ty⟩ := fd
    simp only [fieldInit]
    cases opt with
    | false => exact ih ty hfd
    | true =>
      cases ty with
      | prim p d => exact ih _ hfd
      | arr e => exact KRel.same _ _ (Ext.arr _ _ ExtL.nil)
      | ref m => exact KRel.same _ _ Ext.oneofNone

theorem init_rel {A B : Schema} (hAB : SchemaLe A B) (hC : Closed A) :
    ∀ (f : Nat) (ty : Ty), TyClosed A ty → KRel A (tyKey ty) (initSt A f ty) (initSt B f ty) := by
  intro f
  induction f with
  | zero =>
    intro ty _
    rw [initSt_zero, initSt_zero]
    exact KRel.same _ _ Ext.oneofNone
  | succ f ih =>
    intro ty hty
    cases ty with
    | prim p d =>
      rw [initSt_prim, initSt_prim]
      exact KRel.same _ _ (ext_initPrim p)
    | arr e =>
      rw [initSt_arr, initSt_arr]
      exact KRel.same _ _ (Ext.arr _ _ ExtL.nil)
    | ref n =>
      obtain ⟨dA, hfA⟩ := hty
      obtain ⟨dB, hfB, hle⟩ := hAB n dA hfA
      rw [initSt_ref, initSt_ref, hfA, hfB]
      cases dA with
      | struct d fa =>
        cases dB with
        | struct d' fb =>
          obtain ⟨_, ex, hex⟩ := hle
          subst hex
          simp only [List.map_append]
          exact KRel.struct n d fa 0 _ _ hfA (curRel_init f ih fa _ (hC n _ hfA))
        | oneof _ => exact absurd hle (by simp [DefLe])
        | mmap _ _ => exact absurd hle (by simp [DefLe])
      | oneof fa =>
        cases dB with
        | oneof fb => exact KRel.same _ _ Ext.oneofNone
        | struct _ _ => exact absurd hle (by simp [DefLe])
        | mmap _ _ => exact absurd hle (by simp [DefLe])
      | mmap k v =>
        cases dB with
        | mmap k' v' => exact KRel.same _ _ (Ext.mmap _ _ ExtP.nil)
        | struct _ _ => exact absurd hle (by simp [DefLe])
        | oneof _ => exact absurd hle (by simp [DefLe])

/-! ## typed column trees -/

/-- a recursion cut is resolved by key: either an array key, or a name A defines -/
def RecurOK (A : Schema) (key : String) : Prop := key.startsWith "[]" = true ∨ ∃ d, A.find key = some d

mutual
/-- `NK A key n`: the column tree `n` decodes values of the type with key `key` (as A defines it) -/
inductive NK (A : Schema) : String → Node → Prop
  | prim (key : String) (col : Nat) (p : Prim) (d : Option String) : NK A key (.prim col p d)
  | recur (key : String) : RecurOK A key → NK A key (.recur key)
  | struct (key : String) (col : Nat) (name : String) (d : Option String) (kept oc : Nat) (fields : List (Bool × Node))
      (fs : List Field) : key = name → A.find name = some (.struct d fs) → NKF A fs fields →
      NK A key (.struct col name d kept oc fields)
  | oneof (key : String) (col : Nat) (name : String) (kept : Nat) (alts : List Node) (nodes : List (Bool × Node))
      (fs : List Field) : key = name → A.find name = some (.oneof fs) → alts = nodes.map (·.2) → NKF A fs nodes →
      NK A key (.oneof col name kept alts)
  | arr (key : String) (col : Nat) (k : String) (ety : Ty) (elem : Node) : key = tyKey (.arr ety) → k = key →
      TyClosed A ety → NK A (tyKey ety) elem → NK A key (.arr col k ety elem)
  | mmap (key : String) (col : Nat) (name : String) (k v : Ty) (kn vn : Node) : key = name →
      A.find name = some (.mmap k v) → NK A (tyKey k) kn → NK A (tyKey v) vn → NK A key (.mmap col name k v kn vn)
/-- the kept fields of a struct / oneof against (a prefix of) the definition's field list -/
inductive NKF (A : Schema) : List Field → List (Bool × Node) → Prop
  | nil (fs : List Field) : NKF A fs []
  | cons (fd : Field) (fs : List Field) (o : Bool) (n : Node) (ns : List (Bool × Node)) :
      o = fd.optional → NK A (tyKey fd.ty) n → NKF A fs ns → NKF A (fd :: fs) ((o, n) :: ns)
end

theorem nkf_take {A : Schema} : ∀ (fs : List Field) (c : Nat) (ns : List (Bool × Node)), NKF A (fs.take c) ns → NKF A fs ns
  | _, _, [], _ => NKF.nil _
  | [], c, _ :: _, h => by simp at h; cases h
  | fd :: fs, 0, _ :: _, h => by simp at h; cases h
  | fd :: fs, c + 1, _ :: ns, h => by
    simp only [List.take_succ_cons] at h
    cases h with
    | cons _ _ o n _ ho hn hr => exact NKF.cons fd fs o n ns ho hn (nkf_take fs c ns hr)

theorem nkf_alt {A : Schema} : ∀ (fs : List Field) (ns : List (Bool × Node)) (i : Nat) (an : Node),
    NKF A fs ns → (ns.map (·.2))[i]? = some an → ∃ fd, fs[i]? = some fd ∧ NK A (tyKey fd.ty) an
  | _, [], _, _, _, h => by simp at h
  | _, _ :: ns, i, an, hk, h => by
    cases hk with
    | cons fd fs o n _ ho hn hr =>
      cases i with
      | zero =>
        simp at h
        subst h
        exact ⟨fd, by simp, hn⟩
      | succ i =>
        simp only [List.map_cons, List.getElem?_cons_succ] at h ⊢
        exact nkf_alt fs ns i an hr h

/-- the initial value of an alternative / an absent optional field -/
theorem altInit_rel {A B : Schema} (hAB : SchemaLe A B) (hC : Closed A) {key : String} {n : Node} (h : NK A key n) :
    KRel A key (altInit A n) (altInit B n) := by
  cases h with
  | prim _ col p d => exact KRel.same _ _ (ext_initPrim p)
  | recur _ hr =>
    simp only [altInit]
    by_cases hs : key.startsWith "[]" = true
    · simp only [hs, if_true]
      exact KRel.same _ _ (Ext.arr _ _ ExtL.nil)
    · simp only [hs]
      cases hr with
      | inl h => exact absurd h hs
      | inr h => exact init_rel hAB hC initFuel (.ref key) h
  | struct _ col name d kept oc fields fs hk hf _ =>
    subst hk
    exact init_rel hAB hC initFuel (.ref key) ⟨_, hf⟩
  | oneof => exact KRel.same _ _ Ext.oneofNone
  | arr => exact KRel.same _ _ (Ext.arr _ _ ExtL.nil)
  | mmap => exact KRel.same _ _ (Ext.mmap _ _ ExtP.nil)

/-! ## mkNode builds typed trees -/

theorem bracket_startsWith (s : String) : ("[]" ++ s).startsWith "[]" = true := by simp

def NKAt (A : Schema) (fuel : Nat) : Prop :=
  (∀ stack ty b r, TyClosed A ty → mkNode A fuel stack ty b = .ok r → NK A (tyKey ty) r.1) ∧
  (∀ stack fs b r, (∀ fd ∈ fs, TyClosed A fd.ty) → mkFields A fuel stack fs b = .ok r → NKF A fs r.1)

theorem mkNode_NK (A : Schema) (hC : Closed A) : ∀ fuel, NKAt A fuel := by
  intro fuel
  induction fuel with
  | zero =>
    constructor
    · intro stack ty b r _ h
      rw [mkNode] at h
      cases h
    · intro stack fs b r _ h
      rw [mkFields] at h
      cases h
  | succ fuel ih =>
    obtain ⟨ihN, ihF⟩ := ih
    constructor
    · intro stack ty b r hty h
      cases ty with
      | prim p d =>
        rw [mkNode] at h
        injection h with h
        subst h
        exact NK.prim _ _ _ _
      | arr e =>
        rw [mkNode] at h
        simp only at h
        by_cases hc : stack.contains (tyKey (.arr e)) = true
        · simp only [hc, if_true] at h
          injection h with h
          subst h
          exact NK.recur _ (Or.inl (bracket_startsWith _))
        · simp only [hc] at h
          obtain ⟨⟨en, b1⟩, h1, h2⟩ := bind_ok _ _ _ h
          simp only at h2
          injection h2 with h2
          subst h2
          have hty' : TyClosed A e := hty
          exact NK.arr _ _ _ _ _ rfl rfl hty' (ihN _ e _ (en, b1) hty' h1)
      | ref n =>
        rw [mkNode] at h
        by_cases hc : stack.contains n = true
        · simp only [hc, if_true] at h
          injection h with h
          subst h
          exact NK.recur _ (Or.inr hty)
        · simp only [hc] at h
          cases hfA : A.find n with
          | none => simp [hfA] at h
          | some dA =>
            have hcl := hC n dA hfA
            cases dA with
            | struct d fa =>
              simp only [hfA] at h
              obtain ⟨⟨cnt, b1⟩, h1, h2⟩ := bind_ok _ _ _ h
              simp only at h2
              obtain ⟨⟨nodes, b2⟩, h3, h4⟩ := bind_ok _ _ _ h2
              simp only at h4
              injection h4 with h4
              subst h4
              have := ihF _ _ _ _ (fun fd hfd => hcl fd (List.mem_of_mem_take hfd)) h3
              exact NK.struct _ _ _ _ _ _ _ fa rfl hfA (nkf_take fa cnt nodes this)
            | oneof fa =>
              simp only [hfA] at h
              obtain ⟨⟨cnt, b1⟩, h1, h2⟩ := bind_ok _ _ _ h
              simp only at h2
              obtain ⟨⟨nodes, b2⟩, h3, h4⟩ := bind_ok _ _ _ h2
              simp only at h4
              injection h4 with h4
              subst h4
              have := ihF _ _ _ _ (fun fd hfd => hcl fd (List.mem_of_mem_take hfd)) h3
              exact NK.oneof _ _ _ _ _ nodes fa rfl hfA rfl (nkf_take fa cnt nodes this)
            | mmap k v =>
              simp only [hfA] at h
              obtain ⟨⟨kn, b1⟩, h1, h2⟩ := bind_ok _ _ _ h
              simp only at h2
              obtain ⟨⟨vn, b2⟩, h3, h4⟩ := bind_ok _ _ _ h2
              simp only at h4
              injection h4 with h4
              subst h4
              exact NK.mmap _ _ _ _ _ _ _ rfl hfA (ihN _ _ _ _ hcl.1 h1) (ihN _ _ _ _ hcl.2 h3)
    · intro stack fs b r hfs h
      cases fs with
      | nil =>
        rw [mkFields] at h
        injection h with h
        subst h
        exact NKF.nil _
      | cons fd rest =>
        rw [mkFields] at h
        obtain ⟨⟨n1, b1⟩, h1, h2⟩ := bind_ok _ _ _ h
        simp only at h2
        obtain ⟨⟨ns, b2⟩, h3, h4⟩ := bind_ok _ _ _ h2
        simp only at h4
        injection h4 with h4
        subst h4
        exact NKF.cons fd rest _ _ _ rfl (ihN _ _ _ _ (hfs fd List.mem_cons_self) h1)
          (ihF _ _ _ _ (fun x hx => hfs x (List.mem_cons_of_mem _ hx)) h3)

end Stef.Proofs.Forward
