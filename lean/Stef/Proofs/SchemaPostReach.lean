/-
  Stef.Proofs.SchemaPostReach: the regenerated reachability walk (`markReachableFromStruct` / `...Multimap` /
  `...FieldType`) and `PruneUnused` of Stef/Gen/SchemaPost.lean compute what the hand model of Stef/Idl.lean
  (`mrBase`, `mrFields`, `mrRoots`, `pruneUnused`) computes, whenever the hand model does not run out of fuel.
  Core Lean only.
-/
import Stef.Gen.SchemaPost
import Stef.Proofs.SortNorm

namespace Stef.Proofs.SchemaPostReach
open Stef Stef.Idl Stef.PrintFlowSem Stef.SchemaPostSem

theorem ok_bind {ε α β : Type} (a : α) (f : α → Except ε β) : (Except.ok a >>= f) = f a := rfl

theorem setTrue_new {l : List Name} {a : Name} (h : l.contains a = false) : setTrue l a = a :: l := by
  have : a ∉ l := by simpa using h
  simp [setTrue, this]

theorem mem_setTrue (l : List Name) (a x : Name) : x ∈ setTrue l a ↔ x = a ∨ x ∈ l := by
  unfold setTrue
  by_cases h : l.contains a = true
  · simp only [h, if_true]
    have : a ∈ l := by simpa using h
    constructor
    · exact Or.inr
    · rintro (rfl | h) <;> assumption
  · have : a ∉ l := by simpa using h
    simp [this]

/-! ## the walk -/

/-- the three `map[string]bool` in/out parameters of the regenerated functions. -/
abbrev G := List Name × List Name × List Name

/-- the regenerated state against the hand model's: the struct and multimap sets are the same lists, the enum sets
    have the same members (the hand model conses an enum name every time it meets it). -/
def Rel (g : G) (r : Reach) : Prop := g.1 = r.structs ∧ g.2.1 = r.multimaps ∧ ∀ x, x ∈ g.2.2 ↔ x ∈ r.enums

/-- the struct case of `mrBase σ (n + 1)`. -/
def mrStruct (σ : Schema) (n : Nat) (name : Name) (r : Reach) : Option Reach :=
  if r.structs.contains name then some r
  else match σ.findStruct name with
    | none => some r
    | some s => mrFields (mrBase σ n) s.types { r with structs := name :: r.structs }

/-- the multimap case of `mrBase σ (n + 1)`. -/
def mrMultimap (σ : Schema) (n : Nat) (name : Name) (r : Reach) : Option Reach :=
  if r.multimaps.contains name then some r
  else match σ.findMultimap name with
    | none => some r
    | some m => mrFields (mrBase σ n) m.types { r with multimaps := name :: r.multimaps }

theorem mrBase_struct (σ : Schema) (n : Nat) (b : BaseType) (r : Reach) (h : b.struct ≠ []) :
    mrBase σ (n + 1) b r = mrStruct σ n b.struct r := by
  simp only [mrBase, mrStruct, h, ne_eq, not_false_eq_true, if_true]
  rfl

theorem mrBase_multimap (σ : Schema) (n : Nat) (b : BaseType) (r : Reach) (hs : b.struct = []) (h : b.multimap ≠ []) :
    mrBase σ (n + 1) b r = mrMultimap σ n b.multimap r := by
  simp only [mrBase, mrMultimap, hs, h, ne_eq, not_true, not_false_eq_true, if_true, if_false]
  rfl

/-- what one call of the regenerated `markReachableFromFieldType` does when the hand model's `mrBase` succeeds. -/
def SimT (σ : Schema) (n F : Nat) (ty : FType) : Prop :=
  ∀ (g : G) (r r' : Reach), Rel g r → mrBase σ n ty.inner r = some r' →
    ∃ g', Gen.SchemaPost.markReachableFromFieldType σ F ty g.1 g.2.1 g.2.2 = .ok g' ∧ Rel g' r'

theorem fieldRefs_map_val (o : Name) : ∀ (i : Nat) (fs : List Field), (fieldRefs o i fs).map (·.val) = fs
  | _, [] => rfl
  | i, f :: fs => by simp [fieldRefs, fieldRefs_map_val o (i + 1) fs]

theorem goFields_types (s : Struct) : s.goFields.map (·.val.ty) = s.types := by
  have := fieldRefs_map_val s.name 0 s.fields
  simp only [Struct.goFields, Struct.types]
  conv => rhs; rw [← this]
  simp

/-- the loop over the fields of a struct. -/
theorem fields_loop (σ : Schema) (n F : Nat) (IH : ∀ ty, SimT σ n F ty) :
    ∀ (l : List FieldRef) (g : G) (r r' : Reach), Rel g r →
      mrFields (mrBase σ n) (l.map (·.val.ty)) r = some r' →
      ∃ g', forIn l g (fun field (s : G) => do
                let x ← Gen.SchemaPost.markReachableFromFieldType σ F field.val.ty s.fst s.snd.fst s.snd.snd
                pure (ForInStep.yield (x.fst, x.2.fst, x.2.snd)))
            = (.ok g' : Except PErr G) ∧ Rel g' r'
  | [], g, r, r', hr, h => by
    simp only [List.map_nil, mrFields, Option.some.injEq] at h
    subst h
    exact ⟨g, rfl, hr⟩
  | fd :: rest, g, r, r', hr, h => by
    simp only [List.map_cons, mrFields] at h
    cases h1 : mrBase σ n fd.val.ty.inner r with
    | none => simp [h1] at h
    | some r1 =>
      simp only [h1] at h
      obtain ⟨g1, hg, hr1⟩ := IH fd.val.ty g r r1 hr h1
      obtain ⟨g', hl, hr'⟩ := fields_loop σ n F IH rest g1 r1 r' hr1 h
      refine ⟨g', ?_, hr'⟩
      rw [List.forIn_cons, hg]
      exact hl

/-- one call of `markReachableFromStruct`. -/
theorem struct_sim (σ : Schema) (n F : Nat) (IH : ∀ ty, SimT σ n F ty) (name : Name) (g : G) (r r' : Reach)
    (hr : Rel g r) (h : mrStruct σ n name r = some r') :
    ∃ g', Gen.SchemaPost.markReachableFromStruct σ (F + 1) name g.1 g.2.1 g.2.2 = .ok g' ∧ Rel g' r' := by
  obtain ⟨gs, gm, ge⟩ := g
  obtain ⟨h1, h2, h3⟩ := hr
  simp only at h1 h2 h3
  subst h1 h2
  simp only [Gen.SchemaPost.markReachableFromStruct]
  unfold mrStruct at h
  by_cases hc : r.structs.contains name = true
  · simp only [hc, if_true, Option.some.injEq] at h
    subst h
    exact ⟨_, by simp only [setGet, hc, if_true]; rfl, rfl, rfl, h3⟩
  · have hc' : r.structs.contains name = false := by simpa using hc
    simp only [hc', Bool.false_eq_true, if_false] at h
    cases hf : σ.findStruct name with
    | none =>
      simp only [hf, Option.some.injEq] at h
      subst h
      have hg : mapGet σ.structs name = none := hf
      exact ⟨_, by simp only [setGet, hc', hg, Bool.false_eq_true, if_false, if_true]; rfl, rfl, rfl, h3⟩
    | some s =>
      simp only [hf] at h
      have hg : mapGet σ.structs name = some s := hf
      rw [← goFields_types] at h
      obtain ⟨g', hl, hr'⟩ := fields_loop σ n F IH s.goFields (name :: r.structs, r.multimaps, ge)
        { r with structs := name :: r.structs } r' ⟨rfl, rfl, h3⟩ h
      refine ⟨g', ?_, hr'⟩
      simp only [setGet, hc', hg, Bool.false_eq_true, if_false, setTrue_new hc', SchemaPostSem.deref, ok_bind]
      rw [hl]
      rfl

/-- one call of `markReachableFromMultimap`. -/
theorem multimap_sim (σ : Schema) (n F : Nat) (IH : ∀ ty, SimT σ n F ty) (name : Name) (g : G) (r r' : Reach)
    (hr : Rel g r) (h : mrMultimap σ n name r = some r') :
    ∃ g', Gen.SchemaPost.markReachableFromMultimap σ (F + 1) name g.1 g.2.1 g.2.2 = .ok g' ∧ Rel g' r' := by
  obtain ⟨gs, gm, ge⟩ := g
  obtain ⟨h1, h2, h3⟩ := hr
  simp only at h1 h2 h3
  subst h1 h2
  simp only [Gen.SchemaPost.markReachableFromMultimap]
  unfold mrMultimap at h
  by_cases hc : r.multimaps.contains name = true
  · simp only [hc, if_true, Option.some.injEq] at h
    subst h
    exact ⟨_, by simp only [setGet, hc, if_true]; rfl, rfl, rfl, h3⟩
  · have hc' : r.multimaps.contains name = false := by simpa using hc
    simp only [hc', Bool.false_eq_true, if_false] at h
    cases hf : σ.findMultimap name with
    | none =>
      simp only [hf, Option.some.injEq] at h
      subst h
      have hg : mapGet σ.multimaps name = none := hf
      exact ⟨_, by simp only [setGet, hc', hg, Bool.false_eq_true, if_false, if_true]; rfl, rfl, rfl, h3⟩
    | some m =>
      simp only [hf, Multimap.types, mrFields] at h
      have hg : mapGet σ.multimaps name = some m := hf
      cases hk : mrBase σ n m.key.inner { r with multimaps := name :: r.multimaps } with
      | none => simp [hk] at h
      | some r1 =>
        simp only [hk] at h
        cases hv : mrBase σ n m.value.inner r1 with
        | none => simp [hv] at h
        | some r2 =>
          simp only [hv, Option.some.injEq] at h
          subst h
          obtain ⟨g1, hg1, hr1⟩ := IH m.key (r.structs, name :: r.multimaps, ge)
            { r with multimaps := name :: r.multimaps } r1 ⟨rfl, rfl, h3⟩ hk
          obtain ⟨g2, hg2, hr2⟩ := IH m.value g1 r1 r2 hr1 hv
          refine ⟨g2, ?_, hr2⟩
          simp only [setGet, hc', hg, Bool.false_eq_true, if_false, setTrue_new hc', SchemaPostSem.deref, ok_bind,
            Multimap.goKey, Multimap.goValue]
          rw [hg1]
          simp only [ok_bind]
          rw [hg2]
          rfl

/-- an array forwards to its element type (one more unit of fuel). -/
theorem sim_step (σ : Schema) (n F : Nat) (hb : ∀ b F', 3 * n ≤ F' → SimT σ n F' (.base b)) (hF : 3 * n + 1 ≤ F) :
    ∀ ty, SimT σ n F ty
  | .base b => hb b F (by omega)
  | .array e d rc => by
    intro g r r' hr h
    obtain ⟨j, rfl⟩ : ∃ j, F = j + 1 := ⟨F - 1, by omega⟩
    obtain ⟨g', hg, hr'⟩ := hb e j (by omega) g r r' hr h
    refine ⟨g', ?_, hr'⟩
    simp only [Gen.SchemaPost.markReachableFromFieldType]
    simp only [FType.goStruct, FType.goMultiMap, FType.goEnum, FType.goArray, ne_eq, not_true, if_false]
    rw [hg]
    rfl

theorem sim_base (σ : Schema) : ∀ (n F : Nat) (b : BaseType), 3 * n ≤ F → SimT σ n F (.base b)
  | 0, _, _, _ => by intro g r r' _ h; simp [mrBase] at h
  | n + 1, F, b, hF => by
    obtain ⟨j, rfl⟩ : ∃ j, F = j + 2 := ⟨F - 2, by omega⟩
    have IH := sim_step σ n j (fun b F' h => sim_base σ n F' b h) (by omega)
    intro g r r' hr h
    simp only [FType.inner] at h
    simp only [Gen.SchemaPost.markReachableFromFieldType]
    by_cases hs : b.struct = []
    · by_cases hm : b.multimap = []
      · by_cases he : b.enum = []
        · simp only [mrBase, hs, hm, he, ne_eq, not_true, if_false, Option.some.injEq] at h
          subst h
          exact ⟨g, by simp [FType.goStruct, FType.goMultiMap, FType.goEnum, FType.goArray, hs, hm, he]; rfl, hr⟩
        · simp only [mrBase, hs, hm, he, ne_eq, not_true, not_false_eq_true, if_true, if_false,
            Option.some.injEq] at h
          subst h
          refine ⟨(g.1, g.2.1, setTrue g.2.2 b.enum), ?_, hr.1, hr.2.1, ?_⟩
          · simp [FType.goStruct, FType.goMultiMap, FType.goEnum, hs, hm, he]; rfl
          · intro x
            simp only [mem_setTrue, List.mem_cons, hr.2.2 x]
      · rw [mrBase_multimap σ n b r hs hm] at h
        obtain ⟨g', hg, hr'⟩ := multimap_sim σ n j IH b.multimap g r r' hr h
        refine ⟨g', ?_, hr'⟩
        simp only [FType.goStruct, FType.goMultiMap, hs, hm, ne_eq, not_true, not_false_eq_true, if_true, if_false]
        rw [hg]
        rfl
    · rw [mrBase_struct σ n b r hs] at h
      obtain ⟨g', hg, hr'⟩ := struct_sim σ n j IH b.struct g r r' hr h
      refine ⟨g', ?_, hr'⟩
      simp only [FType.goStruct, hs, ne_eq, not_false_eq_true, if_true]
      rw [hg]
      rfl

/-- every field type at the fuel below the one `PruneUnused` passes, against the hand model's fuel. -/
theorem sim_top (σ : Schema) (ty : FType) : SimT σ (crFuel σ) (3 * crFuel σ + 4) ty :=
  sim_step σ (crFuel σ) _ (fun b F' h => sim_base σ _ F' b h) (by omega) ty

theorem postFuel_eq (σ : Schema) : postFuel σ = (3 * crFuel σ + 4) + 1 := by
  simp only [postFuel, crFuel]; omega

/-! ## `PruneUnused` -/

/-- the first loop of `PruneUnused`: the walk from every root. -/
theorem roots_loop (σ : Schema) : ∀ (l : List Struct), (∀ s ∈ l, s.isRoot = true → s.name ≠ []) →
    ∀ (g : G) (r r' : Reach), Rel g r → mrRoots σ l r = some r' →
      ∃ g', forIn l g (fun struc (s : G) =>
              if struc.isRoot = true then do
                let x ← Gen.SchemaPost.markReachableFromStruct σ (postFuel σ) (Keyed.key struc) s.fst s.snd.fst s.snd.snd
                pure (ForInStep.yield (x.fst, x.2.fst, x.2.snd))
              else pure (ForInStep.yield (s.fst, s.snd.fst, s.snd.snd)))
            = (.ok g' : Except PErr G) ∧ Rel g' r'
  | [], _, g, r, r', hr, h => by
    simp only [mrRoots, Option.some.injEq] at h
    subst h
    exact ⟨g, rfl, hr⟩
  | s :: ss, hn, g, r, r', hr, h => by
    have hn' : ∀ x ∈ ss, x.isRoot = true → x.name ≠ [] := fun x hx => hn x (by simp [hx])
    simp only [mrRoots] at h
    rw [List.forIn_cons]
    by_cases hroot : s.isRoot = true
    · simp only [hroot, if_true] at h ⊢
      cases h1 : mrBase σ (crFuel σ + 1) { struct := s.name } r with
      | none => simp [h1] at h
      | some r1 =>
        simp only [h1] at h
        rw [mrBase_struct σ _ _ r (hn s (by simp) hroot)] at h1
        obtain ⟨g1, hg, hr1⟩ := struct_sim σ (crFuel σ) _ (sim_top σ) s.name g r r1 hr h1
        obtain ⟨g', hl, hr'⟩ := roots_loop σ ss hn' g1 r1 r' hr1 h
        refine ⟨g', ?_, hr'⟩
        rw [postFuel_eq]
        have hk : Keyed.key s = s.name := rfl
        rw [hk, hg]
        rw [postFuel_eq] at hl
        exact hl
    · simp only [hroot, if_false, Bool.false_eq_true] at h ⊢
      obtain ⟨g', hl, hr'⟩ := roots_loop σ ss hn' g r r' hr h
      exact ⟨g', hl, hr'⟩

/-- the three collecting loops. -/
theorem collect_structs (gs : List Name) : ∀ (l : List Struct) (u : UnusedTypes),
    forIn l u (fun struc (s : UnusedTypes) =>
      if ¬setGet gs (Keyed.key struc) = true then
        pure (ForInStep.yield
          ({ structs := s.structs ++ [struc], multimaps := s.multimaps, enums := s.enums } : UnusedTypes))
      else pure (ForInStep.yield s))
    = (.ok { structs := u.structs ++ l.filter (fun x => !gs.contains x.name), multimaps := u.multimaps,
             enums := u.enums } : Except PErr UnusedTypes)
  | [], u => by simp; rfl
  | x :: l, u => by
    rw [List.forIn_cons]
    by_cases hc : setGet gs (Keyed.key x) = true
    · rw [if_neg (not_not_intro hc)]
      have hc' : x.name ∈ gs := List.contains_iff_mem.1 hc
      exact (collect_structs gs l u).trans (by simp [hc'])
    · rw [if_pos hc]
      have hc' : x.name ∉ gs := fun hm => hc (List.contains_iff_mem.2 hm)
      exact (collect_structs gs l _).trans (by simp [hc'])

theorem collect_multimaps (gm : List Name) : ∀ (l : List Multimap) (u : UnusedTypes),
    forIn l u (fun multimap (s : UnusedTypes) =>
      if ¬setGet gm (Keyed.key multimap) = true then
        pure (ForInStep.yield
          ({ structs := s.structs, multimaps := s.multimaps ++ [multimap], enums := s.enums } : UnusedTypes))
      else pure (ForInStep.yield s))
    = (.ok { structs := u.structs, multimaps := u.multimaps ++ l.filter (fun x => !gm.contains x.name),
             enums := u.enums } : Except PErr UnusedTypes)
  | [], u => by simp; rfl
  | x :: l, u => by
    rw [List.forIn_cons]
    by_cases hc : setGet gm (Keyed.key x) = true
    · rw [if_neg (not_not_intro hc)]
      have hc' : x.name ∈ gm := List.contains_iff_mem.1 hc
      exact (collect_multimaps gm l u).trans (by simp [hc'])
    · rw [if_pos hc]
      have hc' : x.name ∉ gm := fun hm => hc (List.contains_iff_mem.2 hm)
      exact (collect_multimaps gm l _).trans (by simp [hc'])

theorem collect_enums (ge : List Name) : ∀ (l : List Enum) (u : UnusedTypes),
    forIn l u (fun enum (s : UnusedTypes) =>
      if ¬setGet ge (Keyed.key enum) = true then
        pure (ForInStep.yield
          ({ structs := s.structs, multimaps := s.multimaps, enums := s.enums ++ [enum] } : UnusedTypes))
      else pure (ForInStep.yield s))
    = (.ok { structs := u.structs, multimaps := u.multimaps,
             enums := u.enums ++ l.filter (fun x => !ge.contains x.name) } : Except PErr UnusedTypes)
  | [], u => by simp; rfl
  | x :: l, u => by
    rw [List.forIn_cons]
    by_cases hc : setGet ge (Keyed.key x) = true
    · rw [if_neg (not_not_intro hc)]
      have hc' : x.name ∈ ge := List.contains_iff_mem.1 hc
      exact (collect_enums ge l u).trans (by simp [hc'])
    · rw [if_pos hc]
      have hc' : x.name ∉ ge := fun hm => hc (List.contains_iff_mem.2 hm)
      exact (collect_enums ge l _).trans (by simp [hc'])

/-- deleting the keys of `L` one by one. -/
theorem mapDelete_filter {α : Type} [Keyed α] (m : List α) (k : Name) (ks : List Name) :
    (mapDelete m k).filter (fun y => !ks.contains (Keyed.key y)) =
      m.filter (fun y => !(k :: ks).contains (Keyed.key y)) := by
  simp only [mapDelete, List.filter_filter]
  apply List.filter_congr
  intro y _
  simp only [List.contains_cons, Bool.not_or, bne, Bool.and_comm]

theorem filter_const_true {α : Type} : ∀ (l : List α), l.filter (fun _ => true) = l
  | [] => rfl
  | a :: l => by simp [filter_const_true l]

/-- the three deleting loops. -/
theorem delete_structs : ∀ (L : List Struct) (d : Schema),
    forIn L d (fun struc (s : Schema) =>
      (pure (ForInStep.yield ({ s with structs := mapDelete s.structs struc.name } : Schema)) : Except PErr _))
    = .ok { pkg := d.pkg, structs := d.structs.filter (fun y => !(L.map (·.name)).contains y.name),
            multimaps := d.multimaps, enums := d.enums }
  | [], d => by cases d; simp [pure, Except.pure, filter_const_true]
  | x :: L, d => by
    rw [List.forIn_cons]
    refine (delete_structs L _).trans ?_
    have h := mapDelete_filter d.structs x.name (L.map (·.name))
    simp only [Keyed.key] at h
    simp only [List.map_cons, h]

theorem delete_multimaps : ∀ (L : List Multimap) (d : Schema),
    forIn L d (fun multimap (s : Schema) =>
      (pure (ForInStep.yield ({ s with multimaps := mapDelete s.multimaps multimap.name } : Schema)) : Except PErr _))
    = .ok { pkg := d.pkg, structs := d.structs,
            multimaps := d.multimaps.filter (fun y => !(L.map (·.name)).contains y.name), enums := d.enums }
  | [], d => by cases d; simp [pure, Except.pure, filter_const_true]
  | x :: L, d => by
    rw [List.forIn_cons]
    refine (delete_multimaps L _).trans ?_
    have h := mapDelete_filter d.multimaps x.name (L.map (·.name))
    simp only [Keyed.key] at h
    simp only [List.map_cons, h]

theorem delete_enums : ∀ (L : List Enum) (d : Schema),
    forIn L d (fun enum (s : Schema) =>
      (pure (ForInStep.yield ({ s with enums := mapDelete s.enums enum.name } : Schema)) : Except PErr _))
    = .ok { pkg := d.pkg, structs := d.structs, multimaps := d.multimaps,
            enums := d.enums.filter (fun y => !(L.map (·.name)).contains y.name) }
  | [], d => by cases d; simp [pure, Except.pure, filter_const_true]
  | x :: L, d => by
    rw [List.forIn_cons]
    refine (delete_enums L _).trans ?_
    have h := mapDelete_filter d.enums x.name (L.map (·.name))
    simp only [Keyed.key] at h
    simp only [List.map_cons, h]

/-- deleting the sorted list of the entries whose key is not in `g` leaves the entries whose key is in `g`. -/
theorem prune_filter {α : Type} [Keyed α] (m : List α) (g : List Name) :
    m.filter (fun y =>
        !((sortByName (m.filter (fun x => !g.contains (Keyed.key x)))).map Keyed.key).contains (Keyed.key y))
      = m.filter (fun y => g.contains (Keyed.key y)) := by
  apply List.filter_congr
  intro y hy
  by_cases hc : g.contains (Keyed.key y) = true
  · rw [hc, Bool.not_eq_true']
    apply Bool.eq_false_iff.2
    intro hm
    obtain ⟨x, hx, hxy⟩ := List.mem_map.1 (List.contains_iff_mem.1 hm)
    have hx' := (sortBy_perm _ _).mem_iff.1 hx
    simp only [List.mem_filter, Bool.not_eq_true'] at hx'
    rw [hxy, hc] at hx'
    exact Bool.noConfusion hx'.2
  · have hc' : g.contains (Keyed.key y) = false := by simpa using hc
    rw [hc', Bool.not_eq_false']
    apply List.contains_iff_mem.2
    apply List.mem_map.2
    refine ⟨y, (sortBy_perm _ _).mem_iff.2 ?_, rfl⟩
    simp only [List.mem_filter, Bool.not_eq_true']
    exact ⟨hy, hc'⟩

theorem contains_congr {l l' : List Name} (h : ∀ x, x ∈ l ↔ x ∈ l') (a : Name) : l.contains a = l'.contains a := by
  apply Bool.eq_iff_iff.2
  simp only [List.contains_iff_mem, h a]

/-- **Gen.pruneUnused = Idl.pruneUnused**, with the walk's result and the list of unused types spelled out. -/
theorem pruneUnused_eq_full (σ σ3 : Schema) (hn : ∀ s ∈ σ.structs, s.isRoot = true → s.name ≠ [])
    (h : Idl.pruneUnused σ = some σ3) :
    ∃ r, mrRoots σ σ.structs {} = some r ∧
      Gen.SchemaPost.pruneUnused σ = .ok
        ({ structs := sortByName (σ.structs.filter (fun s => !r.structs.contains s.name)),
           multimaps := sortByName (σ.multimaps.filter (fun m => !r.multimaps.contains m.name)),
           enums := sortByName (σ.enums.filter (fun e => !r.enums.contains e.name)) }, σ3) := by
  unfold Idl.pruneUnused at h
  cases hr : mrRoots σ σ.structs {} with
  | none => simp [hr] at h
  | some r =>
    simp only [hr, Option.some.injEq] at h
    subst h
    refine ⟨r, rfl, ?_⟩
    obtain ⟨⟨gs, gm, ge⟩, hl, h1, h2, h3⟩ := roots_loop σ σ.structs hn ([], [], []) {} r
      ⟨rfl, rfl, fun _ => Iff.rfl⟩ hr
    simp only at h1 h2 h3
    subst h1 h2
    have he : ∀ a, ge.contains a = r.enums.contains a := contains_congr h3
    simp only [Gen.SchemaPost.pruneUnused]
    rw [hl]
    simp only [ok_bind]
    rw [collect_structs]
    simp only [ok_bind]
    rw [collect_multimaps]
    simp only [ok_bind]
    rw [collect_enums]
    simp only [ok_bind]
    simp only [he, List.nil_append]
    rw [delete_structs]
    simp only [ok_bind]
    rw [delete_multimaps]
    simp only [ok_bind]
    rw [delete_enums]
    have p1 := prune_filter σ.structs r.structs
    have p2 := prune_filter σ.multimaps r.multimaps
    have p3 := prune_filter σ.enums r.enums
    simp only [Keyed.key] at p1 p2 p3
    simp only [ok_bind, p1, p2, p3]
    rfl

/-- **Gen.pruneUnused = Idl.pruneUnused** whenever the hand model succeeds (does not run out of fuel) and no root
    struct has the empty name (`PruneUnused` passes the root's name to `markReachableFromStruct`, which looks it up
    whatever it is; the hand model's `mrRoots` goes through `mrBase`, where an empty `struct` slot means "not a
    struct reference"). The parser never builds an empty name. -/
theorem pruneUnused_eq (σ σ3 : Schema) (hn : ∀ s ∈ σ.structs, s.isRoot = true → s.name ≠ [])
    (h : Idl.pruneUnused σ = some σ3) :
    ∃ u, Gen.SchemaPost.pruneUnused σ = .ok (u, σ3) := by
  obtain ⟨r, _, hg⟩ := pruneUnused_eq_full σ σ3 hn h
  exact ⟨_, hg⟩

/-- the side condition of `pruneUnused_eq` cannot be dropped. -/
example : Idl.pruneUnused { structs := [{ name := [], isRoot := true }] } = some {} ∧
    Gen.SchemaPost.pruneUnused { structs := [{ name := [], isRoot := true }] } =
      .ok ({}, { structs := [{ name := [], isRoot := true }] }) := by
  exact ⟨by decide, rfl⟩

end Stef.Proofs.SchemaPostReach
