/-
  The lexer on printed text (C13, print -> parse round trip):
    part 1: generic facts about `lex` in continuation style (`Lexes`), one per token class;
    part 2: `prettyPrint σ` lexes to `tkSchema σ`.
-/
import Stef.Proofs.PrintDefs
import Stef.Proofs.IdlNames
import Stef.Proofs.WireEquiv

set_option linter.unusedSimpArgs false

namespace Stef.Idl

/-! ## character classes -/

theorem char_eq_iff (c d : Char) : c = d ↔ c.toNat = d.toNat := Char.toNat_inj.symm

/-- turn a goal about the character classes of one character into linear arithmetic on its code. -/
macro "char_arith" : tactic =>
  `(tactic| (
    simp only [isPunct, isSpace, isIdentChar, isLetter, isDigit, isNumCont, char_eq_iff,
      Bool.or_eq_true, Bool.and_eq_true, decide_eq_true_eq, Bool.or_eq_false_iff,
      Bool.and_eq_false_iff, decide_eq_false_iff_not, ne_eq, Char.reduceToNat] at *
    omega))

theorem punct_facts {c : Char} (h : isPunct c = true) :
    isSpace c = false ∧ c ≠ '/' ∧ isIdentChar c = false := by char_arith

theorem letter_facts {c : Char} (h : isLetter c = true) :
    isSpace c = false ∧ c ≠ '/' ∧ isPunct c = false ∧ isIdentChar c = true := by char_arith

theorem digit_facts {c : Char} (h : isDigit c = true) :
    isSpace c = false ∧ c ≠ '/' ∧ isPunct c = false ∧ isLetter c = false ∧ isNumCont c = true := by
  char_arith

theorem space_not_ident {c : Char} (h : isSpace c = true) : isIdentChar c = false := by char_arith

theorem numCont_ident {c : Char} (h : isNumCont c = true) : isIdentChar c = true := by char_arith

/-! ## the lexer state as a view of the unread input -/

theorem view_nil_iff {s : LexSt} : s.view = [] ↔ s.isEOF = true := by
  unfold LexSt.view; cases s.isEOF <;> simp

theorem view_cons_iff {s : LexSt} {c : Char} {r : List Char} :
    s.view = c :: r ↔ s.isEOF = false ∧ s.next = c ∧ s.rest = r := by
  unfold LexSt.view; cases s.isEOF <;> simp

theorem adv_view {s : LexSt} (h : s.isEOF = false) : s.adv.view = s.rest := by
  unfold LexSt.adv
  cases hr : s.rest with
  | nil => simp [LexSt.view]
  | cons c r =>
    simp only
    split
    · simp [LexSt.view, h]
    · split
      · split
        · simp [LexSt.view, h]
        · simp [LexSt.view, h]
      · simp [LexSt.view, h]

theorem adv_view_of {s : LexSt} {c : Char} {k : List Char} (h : s.view = c :: k) : s.adv.view = k := by
  obtain ⟨he, _, hr⟩ := view_cons_iff.1 h
  rw [adv_view he, hr]

/-! ## one token, positions aside -/

/-- the body of `nextTok` after the white space has been skipped, without the position. -/
def tokK (s : LexSt) : Tok × LexSt :=
  if s.isEOF then (.eof, s)
  else if isPunct s.next then (.punct s.next, s.adv)
  else if isLetter s.next then
    (wordTok (readIdentChars (s.rest.length + 1) s []).1, (readIdentChars (s.rest.length + 1) s []).2)
  else if isDigit s.next then
    ((match parseUint (readNumChars (s.rest.length + 1) s []).1 with
      | some v => Tok.num v
      | none => Tok.error), (readNumChars (s.rest.length + 1) s []).2)
  else (.error, s.adv)

/-- token kind and next state of `nextTok`. -/
def lexK (s : LexSt) : Tok × LexSt := tokK (skipWs (s.rest.length + 1) s)

theorem nextTok_eq (s : LexSt) : nextTok s = (⟨(lexK s).1, s.cur⟩, (lexK s).2) := by
  unfold nextTok lexK tokK wordTok
  simp only
  split
  · rfl
  · split
    · rfl
    · split
      · split <;> simp_all
      · split
        · split <;> simp_all
        · rfl

theorem lexLoop_succ_map (f : Nat) (s : LexSt) :
    (lexLoop (f + 1) s).map (·.tok) =
      if (lexK s).1 = .eof then [.eof] else (lexK s).1 :: (lexLoop f (lexK s).2).map (·.tok) := by
  simp only [lexLoop, nextTok_eq]
  split <;> simp_all

/-! ### white space -/

theorem skipWs_eof {s : LexSt} (h : s.isEOF = true) (f : Nat) : skipWs f s = s := by
  cases f <;> simp [skipWs, h]

theorem skipWs_stop {s : LexSt} (he : s.isEOF = false) (hs : isSpace s.next = false)
    (hc : s.next ≠ '/') (f : Nat) : skipWs f s = s := by
  cases f <;> simp [skipWs, he, hs, hc]

theorem skipWs_space {s : LexSt} (he : s.isEOF = false) (hs : isSpace s.next = true) (f : Nat) :
    skipWs (f + 1) s = skipWs f s.adv := by
  simp [skipWs, he, hs]

theorem lexK_eof {s : LexSt} (h : s.view = []) : lexK s = (.eof, s) := by
  have he := view_nil_iff.1 h
  simp [lexK, skipWs_eof he, tokK, he]

theorem lexK_space {s : LexSt} {c : Char} {k : List Char} (h : s.view = c :: k)
    (hc : isSpace c = true) : lexK s = lexK s.adv := by
  obtain ⟨he, hn, hr⟩ := view_cons_iff.1 h
  have hv := adv_view_of h
  unfold lexK
  rw [skipWs_space he (by rw [hn]; exact hc)]
  cases k with
  | nil =>
    have he' := view_nil_iff.1 hv
    rw [skipWs_eof he', skipWs_eof he']
  | cons d k' =>
    obtain ⟨_, _, hr'⟩ := view_cons_iff.1 hv
    rw [hr, hr']; rfl

theorem lexK_punct {s : LexSt} {c : Char} {k : List Char} (h : s.view = c :: k)
    (hc : isPunct c = true) : lexK s = (.punct c, s.adv) := by
  obtain ⟨he, hn, hr⟩ := view_cons_iff.1 h
  subst hn
  obtain ⟨h1, h2, _⟩ := punct_facts hc
  simp [lexK, skipWs_stop he h1 h2, tokK, he, hc]

/-! ### words -/

theorem readIdentChars_stop {s : LexSt} (hc : isIdentChar s.next = false) (f : Nat) (acc : List Char) :
    readIdentChars f s acc = (acc.reverse, s) := by
  cases f <;> simp [readIdentChars, hc]

theorem readIdentChars_word : ∀ (w : List Char) (f : Nat) (s : LexSt) (acc k : List Char) (c : Char),
    s.view = c :: w ++ k → isIdentChar c = true → (∀ x ∈ w, isIdentChar x = true) → Delim k →
    w.length + 1 ≤ f →
    (readIdentChars f s acc).1 = acc.reverse ++ c :: w ∧ (readIdentChars f s acc).2.view = k
  | w, 0, s, acc, k, c, _, _, _, _, hf => by omega
  | w, f + 1, s, acc, k, c, hv, hc, hw, hk, hf => by
    obtain ⟨he, hn, hr⟩ := view_cons_iff.1 hv
    subst hn
    have hv' : s.adv.view = w ++ k := adv_view_of hv
    unfold readIdentChars
    rw [if_pos hc]
    simp only
    split
    · rename_i he'
      have hnil := view_nil_iff.2 he'
      rw [hv'] at hnil
      have hw0 : w = [] := (List.append_eq_nil_iff.1 hnil).1
      have hk0 : k = [] := (List.append_eq_nil_iff.1 hnil).2
      subst hw0 hk0
      exact ⟨by simp, view_nil_iff.2 he'⟩
    · rename_i he'
      cases w with
      | nil =>
        simp only [List.nil_append] at hv'
        have hstop : isIdentChar s.adv.next = false := by
          cases k with
          | nil => exact absurd (view_nil_iff.1 hv') he'
          | cons d k' =>
            obtain ⟨_, hn', _⟩ := view_cons_iff.1 hv'
            rw [hn']; exact hk d k' rfl
        rw [readIdentChars_stop hstop]
        exact ⟨by simp, hv'⟩
      | cons c' w' =>
        have ih := readIdentChars_word w' f s.adv (s.next :: acc) k c' hv'
          (hw c' (by simp)) (fun x hx => hw x (by simp [hx])) hk (by simp at hf; omega)
        refine ⟨?_, ih.2⟩
        rw [ih.1]; simp

theorem lexK_word {s : LexSt} {w k : List Char} (h : s.view = w ++ k) (hw : IsWord w) (hk : Delim k) :
    (lexK s).1 = wordTok w ∧ (lexK s).2.view = k := by
  cases w with
  | nil => exact hw.elim
  | cons c r =>
    obtain ⟨hl, hr⟩ := hw
    obtain ⟨he, hn, hrest⟩ := view_cons_iff.1 h
    subst hn
    obtain ⟨h1, h2, h3, h4⟩ := letter_facts hl
    have hrd := readIdentChars_word r (s.rest.length + 1) s [] k s.next h h4 hr hk
      (by rw [hrest]; simp)
    simp only [List.reverse_nil, List.nil_append] at hrd
    simp only [lexK, skipWs_stop he h1 h2, tokK, he, h3, hl, Bool.false_eq_true, ↓reduceIte]
    exact ⟨by rw [hrd.1], hrd.2⟩

/-! ### numbers -/

theorem readNumChars_num : ∀ (w : List Char) (f : Nat) (s : LexSt) (acc k : List Char) (c : Char),
    s.view = c :: w ++ k → (∀ x ∈ w, isNumCont x = true) → Delim k → w.length + 1 ≤ f →
    (readNumChars f s acc).1 = acc.reverse ++ c :: w ∧ (readNumChars f s acc).2.view = k
  | w, 0, s, acc, k, c, _, _, _, hf => by omega
  | w, f + 1, s, acc, k, c, hv, hw, hk, hf => by
    obtain ⟨he, hn, hr⟩ := view_cons_iff.1 hv
    subst hn
    have hv' : s.adv.view = w ++ k := adv_view_of hv
    unfold readNumChars
    simp only
    cases w with
    | nil =>
      simp only [List.nil_append] at hv'
      have hstop : (s.adv.isEOF || !isNumCont s.adv.next) = true := by
        cases k with
        | nil => simp [view_nil_iff.1 hv']
        | cons d k' =>
          obtain ⟨_, hn', _⟩ := view_cons_iff.1 hv'
          have hd := hk d k' rfl
          have : isNumCont d = false := by
            cases hnc : isNumCont d with
            | false => rfl
            | true => rw [numCont_ident hnc] at hd; cases hd
          simp [hn', this]
      rw [if_pos hstop]
      exact ⟨by simp, hv'⟩
    | cons c' w' =>
      obtain ⟨he', hn', _⟩ := view_cons_iff.1 hv'
      have hgo : ¬ (s.adv.isEOF || !isNumCont s.adv.next) = true := by
        simp [he', hn', hw c' (by simp)]
      rw [if_neg hgo]
      have ih := readNumChars_num w' f s.adv (s.next :: acc) k c' hv'
        (fun x hx => hw x (by simp [hx])) hk (by simp at hf; omega)
      refine ⟨?_, ih.2⟩
      rw [ih.1]; simp

/-! ### `%d` and `ParseUint` -/

theorem digit_char_facts : ∀ d, d < 10 →
    digitVal (Char.ofNat (48 + d)) = some d ∧ Char.ofNat (48 + d) ≠ '_' ∧
    isDigit (Char.ofNat (48 + d)) = true ∧ (1 ≤ d → Char.ofNat (48 + d) ≠ '0') := by decide

theorem parseDigits_digit {d m : Nat} (hd : d < 10) (hm : m * 10 + d ≤ maxU64) (cs : List Char) (u : Bool) :
    parseDigits 10 (Char.ofNat (48 + d) :: cs) m u = parseDigits 10 cs (m * 10 + d) u := by
  obtain ⟨h1, h2, _, _⟩ := digit_char_facts d hd
  conv => lhs; unfold parseDigits
  rw [if_neg h2]
  simp only [h1]
  have e : maxU64 / 10 + 1 = 1844674407370955162 := by decide
  rw [if_neg (by omega), if_neg (by rw [e]; unfold maxU64 at hm; omega), if_neg (by omega)]

theorem parseDigits_decDigits : ∀ (f n : Nat) (acc : List Char), n < 10 ^ f →
    ∃ k, ∀ a u, a * 10 ^ k + n ≤ maxU64 →
      parseDigits 10 (decDigits f n acc) a u = parseDigits 10 acc (a * 10 ^ k + n) u
  | 0, n, acc, h => by
    simp at h; subst h
    exact ⟨0, fun a u _ => by simp [decDigits]⟩
  | f + 1, n, acc, h => by
    unfold decDigits
    simp only
    have hd : n % 10 < 10 := Nat.mod_lt _ (by omega)
    split
    · rename_i h0
      refine ⟨1, fun a u hle => ?_⟩
      have : n % 10 = n := by omega
      rw [this] at hd ⊢
      simp only [Nat.pow_one] at hle ⊢
      exact parseDigits_digit hd hle acc u
    · obtain ⟨k, ih⟩ := parseDigits_decDigits f (n / 10) (Char.ofNat (48 + n % 10) :: acc)
        (by rw [Nat.pow_succ] at h; omega)
      refine ⟨k + 1, fun a u hle => ?_⟩
      have e : a * 10 ^ (k + 1) + n = (a * 10 ^ k + n / 10) * 10 + n % 10 := by
        rw [Nat.pow_succ, ← Nat.mul_assoc, Nat.add_mul]; omega
      rw [e] at hle ⊢
      rw [ih a u (by omega), parseDigits_digit hd hle]

theorem decDigits_head : ∀ (f n : Nat) (acc : List Char), 0 < n → n < 10 ^ f →
    ∃ d tl, decDigits f n acc = Char.ofNat (48 + d) :: tl ∧ 1 ≤ d ∧ d < 10
  | 0, n, acc, h0, h => by simp at h; omega
  | f + 1, n, acc, h0, h => by
    unfold decDigits
    simp only
    split
    · exact ⟨n % 10, acc, rfl, by omega, by omega⟩
    · exact decDigits_head f (n / 10) _ (by omega) (by rw [Nat.pow_succ] at h; omega)

theorem decDigits_digits : ∀ (f n : Nat) (acc : List Char), (∀ x ∈ acc, isDigit x = true) →
    ∀ x ∈ decDigits f n acc, isDigit x = true
  | 0, n, acc, h => by simpa [decDigits] using h
  | f + 1, n, acc, h => by
    have hd : n % 10 < 10 := Nat.mod_lt _ (by omega)
    have hacc : ∀ x ∈ Char.ofNat (48 + n % 10) :: acc, isDigit x = true := by
      intro x hx
      rcases List.mem_cons.1 hx with rfl | hx
      · exact (digit_char_facts _ hd).2.2.1
      · exact h x hx
    unfold decDigits
    simp only
    split
    · exact hacc
    · exact decDigits_digits f _ _ hacc

theorem decDigits_ne_nil (f n : Nat) (acc : List Char) : decDigits (f + 1) n acc ≠ [] := by
  induction f generalizing n acc with
  | zero => unfold decDigits; simp only; split <;> simp [decDigits]
  | succ f ih => unfold decDigits; simp only; split; simp; exact ih _ _

theorem maxU64_lt : maxU64 < 10 ^ 20 := by decide

theorem natToDec_shape (v : Nat) :
    ∃ c w, natToDec v = c :: w ∧ isDigit c = true ∧ ∀ x ∈ w, isDigit x = true := by
  have hne := decDigits_ne_nil 19 v []
  have hd := decDigits_digits 20 v [] (by simp)
  unfold natToDec
  cases h : decDigits 20 v [] with
  | nil => exact absurd h hne
  | cons c w =>
    rw [h] at hd
    exact ⟨c, w, rfl, hd c (by simp), fun x hx => hd x (by simp [hx])⟩

theorem parseUint_natToDec {v : Nat} (hv : v ≤ maxU64) : parseUint (natToDec v) = some v := by
  by_cases h0 : v = 0
  · subst h0; decide
  · have hlt : v < 10 ^ 20 := Nat.lt_of_le_of_lt hv maxU64_lt
    obtain ⟨d, tl, hhd, hd1, hd10⟩ := decDigits_head 20 v [] (by omega) hlt
    obtain ⟨k, hk⟩ := parseDigits_decDigits 20 v [] hlt
    have hpd := hk 0 false (by simpa using hv)
    have hc0 := (digit_char_facts d hd10).2.2.2 hd1
    unfold natToDec
    rw [hhd] at hpd ⊢
    unfold parseUint
    simp only [if_neg hc0, hpd]
    simp [parseDigits]

/-! ## part 1: the generic lexer lemmas -/

theorem lexes_eof : Lexes [] [.eof] := by
  intro s f hv hf
  obtain ⟨f, rfl⟩ : ∃ g, f = g + 1 := ⟨f - 1, by simp at hf; omega⟩
  rw [lexLoop_succ_map, lexK_eof hv]
  simp

theorem lexes_space {c : Char} {k : List Char} {L : List Tok} (hc : isSpace c = true)
    (h : Lexes k L) : Lexes (c :: k) L := by
  intro s f hv hf
  obtain ⟨f, rfl⟩ : ∃ g, f = g + 1 := ⟨f - 1, by simp at hf; omega⟩
  have h' := h s.adv (f + 1) (adv_view_of hv) (by simp at hf; omega)
  rw [lexLoop_succ_map] at h' ⊢
  rw [lexK_space hv hc]
  exact h'

theorem lexes_punct {c : Char} {k : List Char} {L : List Tok} (hc : isPunct c = true)
    (h : Lexes k L) : Lexes (c :: k) (.punct c :: L) := by
  intro s f hv hf
  obtain ⟨f, rfl⟩ : ∃ g, f = g + 1 := ⟨f - 1, by simp at hf; omega⟩
  rw [lexLoop_succ_map, lexK_punct hv hc]
  simp only [reduceCtorEq, ↓reduceIte]
  rw [h s.adv f (adv_view_of hv) (by simp at hf; omega)]

theorem wordTok_ne_eof (w : Name) : wordTok w ≠ .eof := by
  unfold wordTok; split <;> simp

theorem lexes_word {w : Name} {k : List Char} {L : List Tok} (hw : IsWord w) (hk : Delim k)
    (h : Lexes k L) : Lexes (w ++ k) (wordTok w :: L) := by
  intro s f hv hf
  obtain ⟨f, rfl⟩ : ∃ g, f = g + 1 := ⟨f - 1, by omega⟩
  have hne : w ≠ [] := by intro h0; subst h0; exact hw
  have hlen : 0 < w.length := List.length_pos_iff.2 hne
  obtain ⟨h1, h2⟩ := lexK_word hv hw hk
  rw [lexLoop_succ_map, h1, if_neg (wordTok_ne_eof w)]
  rw [h _ f h2 (by simp at hf; omega)]

theorem lexes_num {v : Nat} {k : List Char} {L : List Tok} (hv : v ≤ maxU64) (hk : Delim k)
    (h : Lexes k L) : Lexes (natToDec v ++ k) (.num v :: L) := by
  intro s f hview hf
  obtain ⟨f, rfl⟩ : ∃ g, f = g + 1 := ⟨f - 1, by omega⟩
  obtain ⟨c, w, hcw, hc, hw⟩ := natToDec_shape v
  have hpu := parseUint_natToDec hv
  rw [hcw] at hview hf hpu
  obtain ⟨he, hn, hrest⟩ := view_cons_iff.1 hview
  subst hn
  obtain ⟨h1, h2, h3, h4, _⟩ := digit_facts hc
  have hrd := readNumChars_num w (s.rest.length + 1) s [] k s.next hview
    (fun x hx => (digit_facts (hw x hx)).2.2.2.2) hk (by rw [hrest]; simp)
  simp only [List.reverse_nil, List.nil_append] at hrd
  have hK : (lexK s).1 = .num v ∧ (lexK s).2.view = k := by
    simp only [lexK, skipWs_stop he h1 h2, tokK, he, h3, h4, hc, Bool.false_eq_true, ↓reduceIte]
    exact ⟨by rw [hrd.1, hpu], hrd.2⟩
  rw [lexLoop_succ_map, hK.1]
  simp only [reduceCtorEq, ↓reduceIte]
  rw [h _ f hK.2 (by simp at hf; omega)]

theorem lex_of_lexes {input : List Char} {L : List Tok} (h : Lexes input L) :
    (lex input).map (·.tok) = L := by
  unfold lex
  refine h _ _ ?_ (by omega)
  cases input with
  | nil => simp [LexSt.adv, LexSt.view]
  | cons c r => exact adv_view (s := { rest := c :: r }) rfl

/-! ### identifier and number tokens of any input -/

theorem readIdentChars_all : ∀ (f : Nat) (s : LexSt) (acc : List Char),
    (∀ x ∈ acc, isIdentChar x = true) → ∀ x ∈ (readIdentChars f s acc).1, isIdentChar x = true
  | 0, s, acc, h => by simpa [readIdentChars] using h
  | f + 1, s, acc, h => by
    unfold readIdentChars
    split
    · rename_i hc
      have hacc : ∀ x ∈ s.next :: acc, isIdentChar x = true := by
        intro x hx
        rcases List.mem_cons.1 hx with rfl | hx
        · exact hc
        · exact h x hx
      simp only
      split
      · intro x hx
        exact hacc x (by simpa using List.mem_reverse.1 hx)
      · exact readIdentChars_all f _ _ hacc
    · simpa using h

theorem wordTok_ident {w n : Name} (h : wordTok w = .ident n) : n = w ∧ kwOfName w = none := by
  unfold wordTok at h
  split at h
  · cases h
  · rename_i hk; cases h; exact ⟨rfl, hk⟩

theorem lexK_ident (s : LexSt) (n : Name) (h : (lexK s).1 = .ident n) : IsIdent n := by
  unfold lexK tokK at h
  split at h
  · cases h
  · split at h
    · cases h
    · split at h
      · rename_i hl
        obtain ⟨rfl, hkw⟩ := wordTok_ident h
        refine ⟨?_, hkw⟩
        obtain ⟨r, hr⟩ := readIdentChars_first (skipWs (s.rest.length + 1) s).rest.length _ hl
        have hall := readIdentChars_all ((skipWs (s.rest.length + 1) s).rest.length + 1)
          (skipWs (s.rest.length + 1) s) [] (by simp)
        rw [hr] at hall ⊢
        exact ⟨hl, fun x hx => hall x (by simp [hx])⟩
      · split at h
        · simp only at h
          split at h <;> cases h
        · cases h

theorem parseDigits_le (base : Nat) : ∀ (cs : List Char) (n : Nat) (u : Bool) (m : Nat) (u' : Bool),
    parseDigits base cs n u = some (m, u') → n ≤ maxU64 → m ≤ maxU64
  | [], n, u, m, u', h, hn => by
    simp [parseDigits] at h; omega
  | c :: cs, n, u, m, u', h, hn => by
    unfold parseDigits at h
    split at h
    · exact parseDigits_le base cs n true m u' h hn
    · split at h
      · cases h
      · split at h
        · cases h
        · split at h
          · cases h
          · split at h
            · cases h
            · exact parseDigits_le base cs _ u m u' h (by omega)

theorem parseUint_le {cs : List Char} {v : Nat} (h : parseUint cs = some v) : v ≤ maxU64 := by
  unfold parseUint at h
  split at h
  · cases h
  · simp only at h
    split at h
    · cases h
    · rename_i n u hpd
      split at h
      · cases h
      · cases h
        exact parseDigits_le _ _ 0 false _ u hpd (by decide)

theorem lexK_num (s : LexSt) (v : Nat) (h : (lexK s).1 = .num v) : v ≤ maxU64 := by
  unfold lexK tokK at h
  split at h
  · cases h
  · split at h
    · cases h
    · split at h
      · unfold wordTok at h; simp only at h; split at h <;> cases h
      · split at h
        · simp only at h
          split at h
          · rename_i hp; cases h; exact parseUint_le hp
          · cases h
        · cases h

theorem lexLoop_all (P : Tok → Prop) (heof : P .eof) (h : ∀ s, P (lexK s).1) :
    ∀ (f : Nat) (s : LexSt), ∀ t ∈ lexLoop f s, P t.tok
  | 0, s => by intro t ht; simp [lexLoop] at ht; subst ht; exact heof
  | f + 1, s => by
    intro t ht
    simp only [lexLoop, nextTok_eq] at ht
    split at ht
    · simp at ht; subst ht; exact h s
    · simp at ht
      rcases ht with rfl | ht
      · exact h s
      · exact lexLoop_all P heof h f _ t ht

theorem lex_ident_ok (input : List Char) : ∀ t ∈ lex input, ∀ n, t.tok = .ident n → IsIdent n :=
  lexLoop_all (fun t => ∀ n, t = .ident n → IsIdent n) (by intro n hn; cases hn)
    (fun s n hn => lexK_ident s n hn) _ _

theorem lex_num_ok (input : List Char) : ∀ t ∈ lex input, ∀ v, t.tok = .num v → v ≤ maxU64 :=
  lexLoop_all (fun t => ∀ v, t = .num v → v ≤ maxU64) (by intro n hn; cases hn)
    (fun s n hn => lexK_num s n hn) _ _

/-! ## part 2: the printed text -/

/-- a piece of text starting with a word or number: followed by any delimited continuation, it
    lexes to `T` followed by the continuation's tokens. -/
def WPiece (p : List Char) (T : List Tok) : Prop :=
  ∀ k L, Delim k → Lexes k L → Lexes (p ++ k) (T ++ L)

/-- a piece of text that is empty or starts with a delimiter. -/
def Piece (p : List Char) (T : List Tok) : Prop :=
  ∀ k L, Delim k → Lexes k L → Lexes (p ++ k) (T ++ L) ∧ Delim (p ++ k)

theorem Piece.toW {p : List Char} {T : List Tok} (h : Piece p T) : WPiece p T :=
  fun k L hk hl => (h k L hk hl).1

theorem Piece.nil : Piece [] [] := fun _ _ hk hl => ⟨hl, hk⟩

theorem delim_cons {c : Char} (h : isIdentChar c = false) (k : List Char) : Delim (c :: k) := by
  intro d r e; cases e; exact h

theorem delim_nil : Delim [] := by intro d r e; cases e

theorem WPiece.space {c : Char} {p : List Char} {T : List Tok} (hc : isSpace c = true)
    (h : WPiece p T) : Piece (c :: p) T :=
  fun k L hk hl => ⟨lexes_space hc (h k L hk hl), delim_cons (space_not_ident hc) _⟩

theorem WPiece.punct {c : Char} {p : List Char} {T : List Tok} (hc : isPunct c = true)
    (h : WPiece p T) : Piece (c :: p) (.punct c :: T) :=
  fun k L hk hl => ⟨lexes_punct hc (h k L hk hl), delim_cons (punct_facts hc).2.2 _⟩

theorem Piece.word {w p : List Char} {T : List Tok} (hw : IsWord w) (h : Piece p T) :
    WPiece (w ++ p) (wordTok w :: T) := by
  intro k L hk hl
  obtain ⟨h1, h2⟩ := h k L hk hl
  rw [List.append_assoc]
  exact lexes_word hw h2 h1

theorem Piece.num {v : Nat} {p : List Char} {T : List Tok} (hv : v ≤ maxU64) (h : Piece p T) :
    WPiece (natToDec v ++ p) (.num v :: T) := by
  intro k L hk hl
  obtain ⟨h1, h2⟩ := h k L hk hl
  rw [List.append_assoc]
  exact lexes_num hv h2 h1

theorem Piece.append {p q : List Char} {T U : List Tok} (h1 : Piece p T) (h2 : Piece q U) :
    Piece (p ++ q) (T ++ U) := by
  intro k L hk hl
  obtain ⟨a, b⟩ := h2 k L hk hl
  rw [List.append_assoc, List.append_assoc]
  exact h1 _ _ b a

theorem WPiece.append {p q : List Char} {T U : List Tok} (h1 : WPiece p T) (h2 : Piece q U) :
    WPiece (p ++ q) (T ++ U) := by
  intro k L hk hl
  obtain ⟨a, b⟩ := h2 k L hk hl
  rw [List.append_assoc, List.append_assoc]
  exact h1 _ _ b a

theorem wordTok_of_ident {n : Name} (h : IsIdent n) : wordTok n = .ident n := by
  unfold wordTok; rw [h.2]

theorem Piece.ident {n p : List Char} {T : List Tok} (hn : IsIdent n) (h : Piece p T) :
    WPiece (n ++ p) (.ident n :: T) := by
  rw [← wordTok_of_ident hn]; exact h.word hn.1

/-- a keyword followed by something. -/
theorem Piece.kw {w p : List Char} {T : List Tok} (k : Kw) (hw : IsWord w) (hk : wordTok w = .kw k)
    (h : Piece p T) : WPiece (w ++ p) (.kw k :: T) := by
  rw [← hk]; exact h.word hw

theorem sp : isSpace ' ' = true := by decide
theorem nl : isSpace '\n' = true := by decide

/-! ### types -/

theorem piece_dict {d : Name} (h : d = [] ∨ IsIdent d) : Piece (ppDict d) (tkDict d) := by
  unfold ppDict tkDict
  by_cases hd : d = []
  · simp only [hd, ne_eq, not_true_eq_false, ↓reduceIte]; exact Piece.nil
  · have hi : IsIdent d := h.resolve_left hd
    simp only [ne_eq, hd, not_false_eq_true, ↓reduceIte]
    have e : sDictOpen ++ d ++ [')'] = ' ' :: (['d','i','c','t'] ++ ('(' :: (d ++ (')' :: [])))) := by
      simp [sDictOpen]
    rw [e]
    exact WPiece.space sp (Piece.kw .dict (by decide) (by decide)
      (WPiece.punct (by decide) (Piece.ident hi (WPiece.punct (by decide) Piece.nil.toW))))

theorem prim_word (p : Prim) : IsWord p.text ∧ wordTok p.text = .kw p.kw := by
  cases p <;> decide

theorem base_word {b : BaseType} (hr : RefsIdent b) (hne : b.isEmpty = false) :
    IsWord (ppBase b) ∧ wordTok (ppBase b) = tkRaw (rawBase b) := by
  obtain ⟨hs, hm, he⟩ := hr
  unfold ppBase rawBase
  by_cases h1 : b.enum = []
  · simp only [h1, ne_eq, not_true_eq_false, ↓reduceIte]
    cases hp : b.prim with
    | some p => simpa [tkRaw] using prim_word p
    | none =>
      simp only
      by_cases h2 : b.struct = []
      · simp only [h2, ne_eq, not_true_eq_false, ↓reduceIte]
        by_cases h3 : b.multimap = []
        · simp [BaseType.isEmpty, h1, h2, h3, hp] at hne
        · simp only [ne_eq, h3, not_false_eq_true, ↓reduceIte, tkRaw]
          exact ⟨(hm h3).1, wordTok_of_ident (hm h3)⟩
      · simp only [ne_eq, h2, not_false_eq_true, ↓reduceIte, tkRaw]
        exact ⟨(hs h2).1, wordTok_of_ident (hs h2)⟩
  · simp only [ne_eq, h1, not_false_eq_true, ↓reduceIte, tkRaw]
    exact ⟨(he h1).1, wordTok_of_ident (he h1)⟩

theorem DictOk.dict {b : BaseType} (h : DictOk b) : b.dict = [] ∨ IsIdent b.dict :=
  h.elim Or.inl (fun h => Or.inr h.1)

/-- a field type with its dictionary modifier(s), followed by something. -/
theorem wpiece_ftype {ty : FType} {st : Bool} (hp : FTypeP st ty) (hne : ty.inner.isEmpty = false)
    {p : List Char} {T : List Tok} (h : Piece p T) :
    WPiece (ppFType ty ++ ppDict ty.dictName ++ p) (tkFType ty ++ T) := by
  cases ty with
  | base b =>
    obtain ⟨hr, hd⟩ := hp
    obtain ⟨hw, ht⟩ := base_word hr hne
    simp only [ppFType, FType.dictName, tkFType, List.cons_append, List.append_assoc]
    rw [← ht]
    exact ((piece_dict hd.dict).append h).word hw
  | array e d r =>
    obtain ⟨⟨hr, hd⟩, hdd⟩ := hp
    obtain ⟨hw, ht⟩ := base_word hr hne
    have hd2 : d = [] ∨ IsIdent d := hdd.elim Or.inl (fun h => Or.inr h.2.1)
    simp only [ppFType, FType.dictName, tkFType, List.cons_append, List.append_assoc]
    rw [← ht]
    exact (WPiece.punct (c := '[') (by decide) (WPiece.punct (c := ']') (by decide)
      (((piece_dict hd.dict).append ((piece_dict hd2).append h)).word hw)).toW).toW

theorem Piece.space {c : Char} {p : List Char} {T : List Tok} (hc : isSpace c = true)
    (h : Piece p T) : Piece (c :: p) T := WPiece.space hc h.toW

theorem Piece.punct {c : Char} {p : List Char} {T : List Tok} (hc : isPunct c = true)
    (h : Piece p T) : Piece (c :: p) (.punct c :: T) := WPiece.punct hc h.toW

/-! ### fields, structs -/

theorem piece_optional (o : Bool) :
    Piece (if o then sOptional else []) (if o then [.kw .optional] else []) := by
  cases o
  · exact Piece.nil
  · exact WPiece.space (p := ['o','p','t','i','o','n','a','l']) sp
      (by simpa using Piece.kw .optional (w := ['o','p','t','i','o','n','a','l']) (by decide) (by decide) Piece.nil)

theorem wpiece_field {f : Field} (hn : IsIdent f.name) (hp : FTypeP true f.ty)
    (hne : f.ty.inner.isEmpty = false) {p : List Char} {T : List Tok} (h : Piece p T) :
    WPiece (ppField f ++ p) (tkField f ++ T) := by
  have e1 : ppField f ++ p = f.name ++ (' ' :: (ppFType f.ty ++ ppDict f.ty.dictName ++
      ((if f.optional then sOptional else []) ++ p))) := by simp [ppField]
  have e2 : tkField f ++ T = .ident f.name :: (tkFType f.ty ++
      ((if f.optional then [.kw .optional] else []) ++ T)) := by simp [tkField]
  rw [e1, e2]
  exact Piece.ident hn (WPiece.space sp (wpiece_ftype hp hne ((piece_optional f.optional).append h)))

theorem piece_fields : ∀ (fs : List Field),
    (∀ f ∈ fs, IsIdent f.name ∧ FTypeP true f.ty ∧ f.ty.inner.isEmpty = false) →
    Piece (ppFields fs) (tkFields fs)
  | [], _ => Piece.nil
  | f :: fs, h => by
    have ih := piece_fields fs (fun x hx => h x (by simp [hx]))
    obtain ⟨h1, h2, h3⟩ := h f (by simp)
    have e : ppFields (f :: fs) = '\n' :: ' ' :: ' ' :: (ppField f ++ ppFields fs) := by
      simp [ppFields, sNlIndent]
    rw [e]
    exact Piece.space nl (Piece.space sp (WPiece.space sp (wpiece_field h1 h2 h3 ih)))

theorem piece_close : Piece sNlClose [.punct '}'] :=
  Piece.space nl (Piece.punct (by decide) Piece.nil)

theorem piece_body {p : List Char} {T : List Tok} (h : Piece p T) :
    Piece (sOpen ++ p ++ sNlClose) (.punct '{' :: (T ++ [.punct '}'])) := by
  have e : sOpen ++ p ++ sNlClose = ' ' :: '{' :: (p ++ sNlClose) := by simp [sOpen]
  rw [e]
  exact Piece.space sp (Piece.punct (by decide) (h.append piece_close))

theorem piece_root (o : Bool) : Piece (if o then sRoot else []) (if o then [.kw .root] else []) := by
  cases o
  · exact Piece.nil
  · exact WPiece.space (p := ['r','o','o','t']) sp
      (by simpa using Piece.kw .root (w := ['r','o','o','t']) (by decide) (by decide) Piece.nil)

theorem wpiece_struct {s : Struct} (hp : StructP s)
    (hne : ∀ f ∈ s.fields, f.ty.inner.isEmpty = false) : WPiece (ppStruct s) (tkStruct s) := by
  have hf := piece_body (piece_fields s.fields (fun f hf => ⟨(hp.fields f hf).1, (hp.fields f hf).2, hne f hf⟩))
  unfold ppStruct tkStruct tkStructHead
  cases ho : s.oneOf
  · simp only [Bool.false_eq_true, ↓reduceIte]
    have e1 : sStruct ++ s.name ++ ppDict s.dict ++ (if s.isRoot then sRoot else []) ++ sOpen ++
        ppFields s.fields ++ sNlClose = ['s','t','r','u','c','t'] ++ (' ' :: (s.name ++ (ppDict s.dict ++
          ((if s.isRoot then sRoot else []) ++ (sOpen ++ ppFields s.fields ++ sNlClose))))) := by
      simp [sStruct]
    have e2 : Tok.kw .struct :: Tok.ident s.name :: (tkDict s.dict ++
        (if s.isRoot then [Tok.kw .root] else []) ++ [Tok.punct '{']) ++ tkFields s.fields ++ [Tok.punct '}'] =
        .kw .struct :: .ident s.name :: (tkDict s.dict ++ ((if s.isRoot then [Tok.kw .root] else []) ++
          (.punct '{' :: (tkFields s.fields ++ [.punct '}'])))) := by simp
    rw [e1, e2]
    exact Piece.kw .struct (by decide) (by decide) (WPiece.space sp (Piece.ident hp.name
      ((piece_dict hp.dict).append ((piece_root s.isRoot).append hf))))
  · simp only [↓reduceIte]
    have e1 : sOneof ++ s.name ++ sOpen ++ ppFields s.fields ++ sNlClose =
        ['o','n','e','o','f'] ++ (' ' :: (s.name ++ (sOpen ++ ppFields s.fields ++ sNlClose))) := by
      simp [sOneof]
    have e2 : [Tok.kw .oneof, Tok.ident s.name, Tok.punct '{'] ++ tkFields s.fields ++ [Tok.punct '}'] =
        .kw .oneof :: .ident s.name :: .punct '{' :: (tkFields s.fields ++ [.punct '}']) := by simp
    rw [e1, e2]
    exact Piece.kw .oneof (by decide) (by decide) (WPiece.space sp (Piece.ident hp.name hf))

/-! ### multimaps -/

theorem wpiece_multimap {m : Multimap} (hp : MultimapP m) (hk : m.key.inner.isEmpty = false)
    (hv : m.value.inner.isEmpty = false) : WPiece (ppMultimap m) (tkMultimap m) := by
  have e1 : ppMultimap m = ['m','u','l','t','i','m','a','p'] ++ (' ' :: (m.name ++ (' ' :: '{' :: '\n' ::
      ' ' :: ' ' :: (['k','e','y'] ++ (' ' :: (ppFType m.key ++ ppDict m.key.dictName ++ ('\n' ::
      ' ' :: ' ' :: (['v','a','l','u','e'] ++ (' ' :: (ppFType m.value ++ ppDict m.value.dictName ++
      sNlClose)))))))))) := by
    simp [ppMultimap, sMultimap, sOpen, sKey, sValue]
  have e2 : tkMultimap m = .kw .multimap :: .ident m.name :: .punct '{' :: .kw .key ::
      (tkFType m.key ++ (.kw .value :: (tkFType m.value ++ [.punct '}']))) := rfl
  rw [e1, e2]
  have hval := Piece.space nl (Piece.space sp (WPiece.space sp (Piece.kw .value
    (w := ['v','a','l','u','e']) (by decide) (by decide)
    (WPiece.space sp (wpiece_ftype hp.value hv piece_close)))))
  have hkey := Piece.space nl (Piece.space sp (WPiece.space sp (Piece.kw .key
    (w := ['k','e','y']) (by decide) (by decide) (WPiece.space sp (wpiece_ftype hp.key hk hval)))))
  exact Piece.kw .multimap (by decide) (by decide) (WPiece.space sp (Piece.ident hp.name
    (Piece.space sp (Piece.punct (by decide) hkey))))

/-! ### enums -/

theorem piece_enumFields : ∀ (fs : List EnumField),
    (∀ f ∈ fs, IsIdent f.name ∧ f.value ≤ maxU64) → Piece (ppEnumFields fs) (tkEnumFields fs)
  | [], _ => Piece.nil
  | f :: fs, h => by
    have ih := piece_enumFields fs (fun x hx => h x (by simp [hx]))
    obtain ⟨h1, h2⟩ := h f (by simp)
    have e : ppEnumFields (f :: fs) = '\n' :: ' ' :: ' ' :: (f.name ++ (' ' :: '=' :: ' ' ::
        (natToDec f.value ++ ppEnumFields fs))) := by
      simp [ppEnumFields, sNlIndent, sEq]
    rw [e]
    exact Piece.space nl (Piece.space sp (WPiece.space sp (Piece.ident h1
      (Piece.space sp (Piece.punct (by decide) (WPiece.space sp (Piece.num h2 ih)))))))

theorem wpiece_enum {e : Enum} (hp : EnumP e) : WPiece (ppEnum e) (tkEnum e) := by
  have e1 : ppEnum e = ['e','n','u','m'] ++ (' ' :: (e.name ++
      (sOpen ++ ppEnumFields e.fields ++ sNlClose))) := by simp [ppEnum, sEnum]
  have e2 : tkEnum e = .kw .enum :: .ident e.name :: .punct '{' ::
      (tkEnumFields e.fields ++ [.punct '}']) := rfl
  rw [e1, e2]
  exact Piece.kw .enum (by decide) (by decide) (WPiece.space sp (Piece.ident hp.name
    (piece_body (piece_enumFields e.fields hp.fields))))

/-! ### the package line and the separators -/

theorem wpiece_pkgPath : ∀ (pkg : List Name), pkg ≠ [] → (∀ n ∈ pkg, IsIdent n) →
    ∀ {p : List Char} {T : List Tok}, Piece p T →
    WPiece (joinWith ['.'] pkg ++ p) (tkPkgPath pkg ++ T)
  | [], h, _, _, _, _ => absurd rfl h
  | [a], _, hi, p, T, h => by
    simpa [joinWith, tkPkgPath] using Piece.ident (hi a (by simp)) h
  | a :: b :: r, _, hi, p, T, h => by
    have ih := wpiece_pkgPath (b :: r) (by simp) (fun n hn => hi n (by simp [hn])) h
    have e1 : joinWith ['.'] (a :: b :: r) ++ p = a ++ ('.' :: (joinWith ['.'] (b :: r) ++ p)) := by
      simp [joinWith]
    have e2 : tkPkgPath (a :: b :: r) ++ T = .ident a :: .punct '.' :: (tkPkgPath (b :: r) ++ T) := by
      simp [tkPkgPath]
    rw [e1, e2]
    exact Piece.ident (hi a (by simp)) (WPiece.punct (by decide) ih)

/-- every piece preceded by the blank line that separates definitions. -/
def sepAll : List Name → Name
  | [] => []
  | a :: r => sSep ++ a ++ sepAll r

theorem joinWith_sepAll : ∀ (a : Name) (r : List Name), joinWith sSep (a :: r) = a ++ sepAll r
  | a, [] => by simp [joinWith, sepAll]
  | a, b :: r => by
    have ih := joinWith_sepAll b r
    simp only [joinWith, sepAll, ih, List.append_assoc]

theorem sepAll_append : ∀ (l1 l2 : List Name), sepAll (l1 ++ l2) = sepAll l1 ++ sepAll l2
  | [], l2 => by simp [sepAll]
  | a :: l1, l2 => by simp [sepAll, sepAll_append l1 l2]

theorem piece_sepAll {α : Type} (pp : α → Name) (tk : α → List Tok) : ∀ (xs : List α),
    (∀ x ∈ xs, WPiece (pp x) (tk x)) → Piece (sepAll (xs.map pp)) ((xs.map tk).flatten)
  | [], _ => Piece.nil
  | x :: xs, h => by
    have ih := piece_sepAll pp tk xs (fun y hy => h y (by simp [hy]))
    have e : sepAll ((x :: xs).map pp) = '\n' :: '\n' :: (pp x ++ sepAll (xs.map pp)) := by
      simp [sepAll, sSep]
    rw [e]
    simp only [List.map_cons, List.flatten_cons]
    exact Piece.space nl (WPiece.space nl ((h x (by simp)).append ih))

theorem tkEnums_eq : ∀ es, tkEnums es = (es.map tkEnum).flatten
  | [] => rfl
  | e :: es => by simp [tkEnums, tkEnums_eq es]

theorem tkMultimaps_eq : ∀ ms, tkMultimaps ms = (ms.map tkMultimap).flatten
  | [] => rfl
  | m :: ms => by simp [tkMultimaps, tkMultimaps_eq ms]

theorem tkStructs_eq : ∀ ss, tkStructs ss = (ss.map tkStruct).flatten
  | [] => rfl
  | s :: ss => by simp [tkStructs, tkStructs_eq ss]

/-- **the printed text lexes to `tkSchema σ`.** -/
theorem lexes_prettyPrint {σ : Schema} (hp : PP σ) (hne : σ.NoEmptyType) :
    Lexes (prettyPrint σ) (tkSchema σ) := by
  have hE : Piece (sepAll ((sortBy (·.name) σ.enums).map ppEnum)) (tkEnums (sortBy (·.name) σ.enums)) := by
    rw [tkEnums_eq]
    exact piece_sepAll _ _ _ (fun e he => wpiece_enum (hp.enums e ((sortBy_perm _ _).mem_iff.1 he)))
  have hM : Piece (sepAll ((sortBy (·.name) σ.multimaps).map ppMultimap))
      (tkMultimaps (sortBy (·.name) σ.multimaps)) := by
    rw [tkMultimaps_eq]
    refine piece_sepAll _ _ _ (fun m hm => ?_)
    have hm' := (sortBy_perm _ _).mem_iff.1 hm
    exact wpiece_multimap (hp.multimaps m hm')
      (hne _ (mem_allTypes.2 (Or.inr ⟨m, hm', by simp [Multimap.types]⟩)))
      (hne _ (mem_allTypes.2 (Or.inr ⟨m, hm', by simp [Multimap.types]⟩)))
  have hS : Piece (sepAll ((sortBy (·.name) σ.structs).map ppStruct))
      (tkStructs (sortBy (·.name) σ.structs)) := by
    rw [tkStructs_eq]
    refine piece_sepAll _ _ _ (fun s hs => ?_)
    have hs' := (sortBy_perm _ _).mem_iff.1 hs
    exact wpiece_struct (hp.structs s hs') (fun f hf =>
      hne _ (mem_allTypes.2 (Or.inl ⟨s, hs', List.mem_map.2 ⟨f, hf, rfl⟩⟩)))
  have hall := wpiece_pkgPath σ.pkg hp.pkg_ne hp.pkg (hE.append (hM.append hS))
  have hw := Piece.kw .package (w := ['p','a','c','k','a','g','e']) (by decide) (by decide)
    (WPiece.space sp hall)
  have h := hw [] [.eof] delim_nil lexes_eof
  have e1 : prettyPrint σ = ['p','a','c','k','a','g','e'] ++ (' ' :: (joinWith ['.'] σ.pkg ++
      (sepAll ((sortBy (·.name) σ.enums).map ppEnum) ++
        (sepAll ((sortBy (·.name) σ.multimaps).map ppMultimap) ++
          sepAll ((sortBy (·.name) σ.structs).map ppStruct))))) ++ [] := by
    unfold prettyPrint
    rw [List.singleton_append, List.cons_append, List.cons_append, joinWith_sepAll, sepAll_append,
      sepAll_append]
    simp [sPackage]
  have e2 : tkSchema σ = Tok.kw .package :: (tkPkgPath σ.pkg ++ (tkEnums (sortBy (·.name) σ.enums) ++
      (tkMultimaps (sortBy (·.name) σ.multimaps) ++ tkStructs (sortBy (·.name) σ.structs)))) ++ [.eof] := by
    simp [tkSchema, tkDefs]
  rw [e1, e2]
  exact h

end Stef.Idl
