/-
  Stef.Proofs.LexFlowGen: the IDL lexer REGENERATED from go/pkg/idl/lexer.go (Stef/Gen/LexFlow.lean, by
  extract/lexflow.go) computes exactly what the hand lexer of Stef/Idl.lean says, on every lexer object
  without pending read error: readNextRune = LexSt.adv, skipComment, skipWhiteSpaceOrComment = skipWs,
  readIdentOrKeyword = readIdentChars + kwOfName, readUint64Number = readNumChars + parseUint,
  Next = nextTok, NewLexer + Next until EOF = lex; hence `genParse` (the hand parser on the regenerated
  lexer's tokens) = `parse`. These proofs are the tie of the hand lexer to the source text: a change of
  lexer.go either still proves equal here, or breaks this file (or makes the generator fail).
  The loop lemmas quantify over the condition and the body of the loop (taken from the goal by
  unification, characterised by behaviour), conditions are compared by cases on their atoms.
-/
import Stef.Gen.LexFlow
import Stef.Proofs.IdlFuel

set_option linter.unusedSimpArgs false

namespace Stef.Proofs.LexFlowGen
open Stef.LexFlowSem Stef.Idl

/-! ### the monad -/

theorem bind_run {ρ α β : Type} (m : M ρ α) (f : α → M ρ β) (l : L) :
    (m >>= f).run l = match m.run l with
      | .next a l' => (f a).run l'
      | .ret r l' => .ret r l'
      | .brk l' => .brk l'
      | .stuck => .stuck := rfl

theorem pure_run {ρ α : Type} (a : α) (l : L) : (pure a : M ρ α).run l = .next a l := rfl
theorem rd_run {ρ : Type} (l : L) : (rd : M ρ L).run l = .next l l := rfl
theorem upd_run {ρ : Type} (f : L → L) (l : L) : (upd f : M ρ Unit).run l = .next () (f l) := rfl
theorem ret_run {ρ α : Type} (r : ρ) (l : L) : (ret r : M ρ α).run l = .ret r l := rfl
theorem brk_run {ρ α : Type} (l : L) : (brk : M ρ α).run l = .brk l := rfl
theorem newObj_run {ρ : Type} (o l : L) : (newObj o : M ρ Unit).run l = .next () o := rfl
theorem ite_run {ρ α : Type} (c : Prop) [Decidable c] (a b : M ρ α) (l : L) :
    (if c then a else b).run l = if c then a.run l else b.run l := by split <;> rfl

theorem beq_dec {α : Type} [DecidableEq α] (a b : α) : (a == b) = decide (a = b) := by
  by_cases h : a = b <;> simp [h]

/-- the part of the Go lexer object that the hand model `Stef.Idl.LexSt` keeps -/
def abs (l : L) : LexSt :=
  { rest := l.input, next := l.nextRune, isEOF := l.isEOF, cur := l.curPos, prevWasCR := l.prevWasCR }

/-- the lexer object with the hand model's part replaced -/
def put (l : L) (s : LexSt) : L :=
  { l with input := s.rest, nextRune := s.next, isEOF := s.isEOF, curPos := s.cur, prevWasCR := s.prevWasCR }

@[simp] theorem abs_put (l : L) (s : LexSt) : abs (put l s) = s := rfl
@[simp] theorem put_abs (l : L) : put l (abs l) = l := rfl
@[simp] theorem put_put (l : L) (s t : LexSt) : put (put l s) t = put l t := rfl
@[simp] theorem put_isError (l : L) (s : LexSt) : (put l s).isError = l.isError := rfl

/-- **readNextRune = LexSt.adv** -/
theorem readNextRune_run {ρ : Type} (l : L) :
    (call Gen.LexFlow.readNextRune : M ρ Unit).run l = .next () (put l (abs l).adv) := by
  obtain ⟨input, token, nextRune, prevWasCR, isEOF, isError, errMsg, curPos, prevPos, tokenRunes, ident, uintNumber⟩ := l
  cases input with
  | nil =>
    simp [Gen.LexFlow.readNextRune, call, Out.ofCall, bind_run, readRune, ite_run, upd_run, ret_run, errorsIs, ioEOF, put, abs, LexSt.adv]
  | cons c r =>
    by_cases h1 : c = '\r' <;> by_cases h2 : c = '\n' <;> cases prevWasCR <;>
      simp [Gen.LexFlow.readNextRune, call, Out.ofCall, bind_run, readRune, ite_run, upd_run, ret_run, rd_run, errorsIs, ioEOF,
        put, abs, LexSt.adv, uintOf, h1, h2]


theorem call_run {ρ ρ' : Type} (f : M ρ' ρ') (l : L) : (call f : M ρ ρ').run l = (f.run l).ofCall := rfl
@[simp] theorem ofCall_next {ρ ρ' : Type} (a : ρ') (l : L) : (Out.next a l : Out ρ' ρ').ofCall = (.next a l : Out ρ ρ') := rfl
@[simp] theorem ofCall_ret {ρ ρ' : Type} (a : ρ') (l : L) : (Out.ret a l : Out ρ' ρ').ofCall = (.next a l : Out ρ ρ') := rfl

theorem whileLoop_run {ρ : Type} (cond : L → Bool) (body : M ρ Unit) (l : L) :
    (whileLoop cond body).run l = loopRun cond body (l.input.length + 1) l := rfl

theorem mu_abs_le (l : L) : mu (abs l) ≤ l.input.length + 1 := by
  simp only [mu, abs]; by_cases h : l.isEOF = true <;> simp [h]

/-! ### skipComment -/

/-- a loop whose condition is that of the hand model's `skipLine` and whose body is `readNextRune`. -/
theorem skipLine_loop {ρ : Type} (cond : L → Bool) (body : M ρ Unit)
    (hc : ∀ l, l.isError = false → cond l = (!l.isEOF && l.nextRune ≠ '\r' && l.nextRune ≠ '\n'))
    (hb : ∀ l, body.run l = .next () (put l (abs l).adv)) :
    ∀ (n : Nat) (l : L), l.isError = false → mu (abs l) ≤ n →
      loopRun cond body n l = .next () (put l (skipLine n (abs l)))
  | 0, l, he, hn => by
    have h0 : l.isEOF = true := by
      simp only [mu, abs] at hn
      cases h : l.isEOF <;> simp [h] at hn ⊢
    simp [loopRun, hc l he, h0, skipLine]
  | n + 1, l, he, hn => by
    simp only [loopRun, hc l he, skipLine]
    by_cases hcond : (!l.isEOF && decide (l.nextRune ≠ '\r') && decide (l.nextRune ≠ '\n')) = true
    · have hcond' : (!(abs l).isEOF && decide ((abs l).next ≠ '\r') && decide ((abs l).next ≠ '\n')) = true := hcond
      rw [if_pos hcond, if_pos hcond', hb]
      have heof : (abs l).isEOF = false := by
        simp only [Bool.and_eq_true, Bool.not_eq_true'] at hcond
        exact hcond.1.1
      have hlt := LexSt.adv_mu_lt heof
      have := skipLine_loop cond body hc hb n (put l (abs l).adv) (by simpa using he) (by simp; omega)
      simpa using this
    · have hcond' : ¬ (!(abs l).isEOF && decide ((abs l).next ≠ '\r') && decide ((abs l).next ≠ '\n')) = true := hcond
      rw [if_neg hcond, if_neg hcond']
      simp

/-- **skipComment = Idl.skipComment** (on a lexer without pending read error; `token` and `errMsg`
    may be written, the hand model does not keep them). -/
theorem skipComment_run {ρ : Type} (l : L) (he : l.isError = false) :
    ∃ l', (call Gen.LexFlow.skipComment : M ρ Unit).run l = .next () l' ∧
      abs l' = Idl.skipComment (abs l) ∧ l'.isError = false ∧ l'.prevPos = l.prevPos := by
  rw [call_run]
  simp only [Gen.LexFlow.skipComment, bind_run, readNextRune_run, rd_run, ite_run, upd_run, ret_run, whileLoop_run]
  have he1 : (put l (abs l).adv).isError = false := by simpa using he
  rw [skipLine_loop _ _ (fun l' h' => by
      cases h1 : l'.isEOF <;> by_cases h2 : l'.nextRune = '\r' <;> by_cases h3 : l'.nextRune = '\n' <;>
        simp [h', h1, h2, h3])
    (fun l' => readNextRune_run l') _ _ he1 (mu_abs_le _)]
  -- whatever the order of the operands of the condition: it is the hand model's
  have key : ∀ (c : Bool) (X Y : L),
      c = ((abs l).adv.isEOF || decide ((abs l).adv.next ≠ '/')) →
      abs X = (abs l).adv → X.isError = false → X.prevPos = l.prevPos →
      abs Y = skipLine ((abs l).adv.rest.length + 1) (abs l).adv → Y.isError = false → Y.prevPos = l.prevPos →
      ∃ l', ((if c = true then Out.ret () X else Out.next () Y : Out Unit Unit).ofCall : Out ρ Unit) = .next () l' ∧
        abs l' = Idl.skipComment (abs l) ∧ l'.isError = false ∧ l'.prevPos = l.prevPos := by
    intro c X Y hc hX1 hX2 hX3 hY1 hY2 hY3
    cases hcv : c
    · refine ⟨Y, by simp, ?_, hY2, hY3⟩
      rw [hcv] at hc
      simp only [Idl.skipComment, ← hc, Bool.false_eq_true, if_false, hY1]
    · refine ⟨X, by simp, ?_, hX2, hX3⟩
      rw [hcv] at hc
      simp only [Idl.skipComment, ← hc, if_true, hX1]
  refine key _ _ _ ?_ rfl (by simpa using he) rfl (by simp [put, abs]) (by simpa using he) rfl
  have e1 : (put l (abs l).adv).isEOF = (abs l).adv.isEOF := rfl
  have e2 : (put l (abs l).adv).nextRune = (abs l).adv.next := rfl
  rw [e1, e2, he1]
  cases h1 : (abs l).adv.isEOF <;> by_cases h2 : (abs l).adv.next = '/' <;> simp [h1, h2]

/-! ### skipWhiteSpaceOrComment -/

theorem skipComment_mu_lt {s : LexSt} (h : s.isEOF = false) : mu (Idl.skipComment s) < mu s := by
  have h1 := LexSt.adv_mu_lt h
  unfold Idl.skipComment
  simp only
  split
  · exact h1
  · exact Nat.lt_of_le_of_lt (skipLine_mu _ _) h1

/-- a loop with the condition and the body of the hand model's `skipWs`. -/
theorem skipWs_loop {ρ : Type} (cond : L → Bool) (body : M ρ Unit)
    (hc : ∀ l, l.isError = false → cond l = !l.isEOF)
    (hb : ∀ l, l.isError = false → ∃ l', l'.isError = false ∧ l'.prevPos = l.prevPos ∧
      abs l' = Idl.skipComment (abs l) ∧
      body.run l = (if isSpace l.nextRune = true then .next () (put l (abs l).adv)
                    else if l.nextRune = '/' then .next () l' else .brk l)) :
    ∀ (n : Nat) (l : L), l.isError = false → mu (abs l) ≤ n →
      ∃ l', loopRun cond body n l = .next () l' ∧ abs l' = skipWs n (abs l) ∧ l'.isError = false ∧
        l'.prevPos = l.prevPos
  | 0, l, he, hn => by
    have h0 : l.isEOF = true := by
      simp only [mu, abs] at hn
      cases h : l.isEOF <;> simp [h] at hn ⊢
    exact ⟨l, by simp [loopRun, hc l he, h0], by simp [skipWs], he, rfl⟩
  | n + 1, l, he, hn => by
    simp only [loopRun, hc l he, skipWs]
    by_cases h0 : l.isEOF = true
    · have h0' : (abs l).isEOF = true := h0
      exact ⟨l, by simp [h0], by simp [h0'], he, rfl⟩
    · have h0f : l.isEOF = false := by simpa using h0
      have h0' : (abs l).isEOF = false := h0f
      obtain ⟨lc, hce, hcp, hca, hrun⟩ := hb l he
      simp only [h0f, h0', Bool.not_false, if_true, hrun, Bool.false_eq_true, if_false]
      have hnext : (abs l).next = l.nextRune := rfl
      rw [hnext]
      by_cases hs : isSpace l.nextRune = true
      · simp only [hs, if_true]
        have hlt := LexSt.adv_mu_lt h0'
        obtain ⟨l', h1, h2, h3, h4⟩ := skipWs_loop cond body hc hb n (put l (abs l).adv) (by simpa using he)
          (by simp; omega)
        exact ⟨l', h1, by simpa using h2, h3, h4⟩
      · simp only [hs, Bool.false_eq_true, if_false]
        by_cases hsl : l.nextRune = '/'
        · simp only [hsl, if_true]
          have hlt := skipComment_mu_lt h0'
          obtain ⟨l', h1, h2, h3, h4⟩ := skipWs_loop cond body hc hb n lc hce (by rw [hca]; omega)
          exact ⟨l', h1, by rw [h2, hca], h3, by rw [h4, hcp]⟩
        · simp only [hsl, if_false]
          exact ⟨l, rfl, rfl, he, rfl⟩

/-- **skipWhiteSpaceOrComment = Idl.skipWs** (with the fuel the hand model's `nextTok` gives it). -/
theorem skipWs_run {ρ : Type} (l : L) (he : l.isError = false) :
    ∃ l', (call Gen.LexFlow.skipWhiteSpaceOrComment : M ρ Unit).run l = .next () l' ∧
      abs l' = skipWs (l.input.length + 1) (abs l) ∧ l'.isError = false ∧ l'.prevPos = l.prevPos := by
  rw [call_run]
  simp only [Gen.LexFlow.skipWhiteSpaceOrComment, whileLoop_run]
  have key : ∀ (cond : L → Bool) (body : M Unit Unit),
      (∀ l, l.isError = false → cond l = !l.isEOF) →
      (∀ l, l.isError = false → ∃ l', l'.isError = false ∧ l'.prevPos = l.prevPos ∧
        abs l' = Idl.skipComment (abs l) ∧
        body.run l = (if isSpace l.nextRune = true then .next () (put l (abs l).adv)
                      else if l.nextRune = '/' then .next () l' else .brk l)) →
      ∃ l', ((loopRun cond body (l.input.length + 1) l).ofCall : Out ρ Unit) = .next () l' ∧
        abs l' = skipWs (l.input.length + 1) (abs l) ∧ l'.isError = false ∧ l'.prevPos = l.prevPos := by
    intro cond body hc hb
    obtain ⟨l', h1, h2, h3, h4⟩ := skipWs_loop cond body hc hb (l.input.length + 1) l he (mu_abs_le l)
    exact ⟨l', by rw [h1]; rfl, h2, h3, h4⟩
  refine key _ _ ?_ ?_
  · intro l' h'
    cases h1 : l'.isEOF <;> simp [h', h1]
  · intro l' h'
    obtain ⟨lc, h1, h2, h3, h4⟩ := skipComment_run (ρ := Unit) l' h'
    refine ⟨lc, h3, h4, h2, ?_⟩
    simp only [bind_run, rd_run, ite_run, readNextRune_run, h1, brk_run, unicodeIsSpace, beq_iff_eq]

/-! ### character classes, keywords, token codes -/

theorem isDigit_eq (c : Char) : Gen.LexFlow.isDigit c = Idl.isDigit c := by
  simp [Gen.LexFlow.isDigit, Idl.isDigit]

theorem isNumCont_eq (c : Char) : Gen.LexFlow.isNumberContinuation c = Idl.isNumCont c := by
  simp [Gen.LexFlow.isNumberContinuation, Idl.isNumCont, isDigit_eq, beq_dec]

/-- the `Token` constant of a keyword -/
def kwCode : Kw → Nat
  | .package => Gen.LexFlow.c_tPackage | .struct => Gen.LexFlow.c_tStruct | .oneof => Gen.LexFlow.c_tOneof
  | .multimap => Gen.LexFlow.c_tMultimap | .enum => Gen.LexFlow.c_tEnum | .optional => Gen.LexFlow.c_tOptional
  | .root => Gen.LexFlow.c_tRoot | .dict => Gen.LexFlow.c_tDict | .key => Gen.LexFlow.c_tKey
  | .value => Gen.LexFlow.c_tValue | .bool => Gen.LexFlow.c_tBool | .int64 => Gen.LexFlow.c_tInt64
  | .uint64 => Gen.LexFlow.c_tUint64 | .float64 => Gen.LexFlow.c_tFloat64 | .string => Gen.LexFlow.c_tString
  | .bytes => Gen.LexFlow.c_tBytes

def kwOfCode (t : Nat) : Option Kw := Kw.all.find? (fun k => kwCode k == t)

/-- How parser.go reads the lexer: it compares `Token()` with the constants `tError`, `tEOF`,
    `tIdent` (then `Ident()` is the name), `tIntNumber` (then `Uint64Number()` is the value), the
    keyword constants and the punctuation constants (whose value is the character). This is the
    hand model's `Tok` of a token code and the two payload fields. -/
def tokOf (t : Nat) (ident : List Char) (num : Nat) : Tok :=
  if t = Gen.LexFlow.c_tError then .error
  else if t = Gen.LexFlow.c_tEOF then .eof
  else if t = Gen.LexFlow.c_tIdent then .ident ident
  else if t = Gen.LexFlow.c_tIntNumber then .num num
  else match kwOfCode t with
    | some k => .kw k
    | none => .punct (Char.ofNat t)

theorem tokOf_kw (k : Kw) (i : List Char) (n : Nat) : tokOf (kwCode k) i n = .kw k := by
  cases k <;> rfl

theorem mapIndex_kw (k : Kw) : mapIndex Gen.LexFlow.keywords k.name = (kwCode k, true) := by
  cases k <;> rfl

theorem keywords_are_kw : ∀ e ∈ Gen.LexFlow.keywords, (kwOfName e.1).isSome = true := by decide

theorem kwOfName_some {n : Name} {k : Kw} (h : kwOfName n = some k) : k.name = n := by
  have := List.find?_some h
  simpa using this

/-- **keywords[ident] = kwOfName**: the regenerated table (whatever the order of its entries) and
    the hand model's keyword list name the same keywords, with the codes of `kwCode`. -/
theorem mapIndex_keywords (n : Name) :
    mapIndex Gen.LexFlow.keywords n = match kwOfName n with
      | some k => (kwCode k, true)
      | none => (0, false) := by
  cases h : kwOfName n with
  | some k =>
    have := kwOfName_some h
    subst this
    exact mapIndex_kw k
  | none =>
    simp only [mapIndex]
    cases hf : Gen.LexFlow.keywords.find? (fun e => e.1 == n) with
    | none => rfl
    | some e =>
      have hm := List.mem_of_find?_eq_some hf
      have he : e.1 = n := by simpa using List.find?_some hf
      have := keywords_are_kw e hm
      rw [he, h] at this
      simp at this

/-! ### readIdentOrKeyword -/

theorem adv_rest_of_not_eof {s : LexSt} (h : s.adv.isEOF = false) :
    s.adv.rest.length + 1 = s.rest.length := by
  unfold LexSt.adv at h ⊢
  cases hr : s.rest with
  | nil => simp [hr] at h
  | cons c r =>
    simp only
    split
    · simp
    · split
      · split <;> simp
      · simp

/-- `l.tokenRunes = append(l.tokenRunes, l.nextRune)` -/
def pushRune (l : L) : L := { l with tokenRunes := l.tokenRunes ++ [l.nextRune] }

/-- a loop with the condition and the body of the hand model's `readIdentChars`. -/
theorem ident_loop {ρ : Type} (cond : L → Bool) (body : M ρ Unit)
    (hc : ∀ l, l.isError = false → cond l = isIdentChar l.nextRune)
    (hb : ∀ l, l.isError = false → body.run l =
      if (abs l).adv.isEOF = true then .brk (put (pushRune l) (abs l).adv)
      else .next () (put (pushRune l) (abs l).adv)) :
    ∀ (n : Nat) (l : L) (acc : List Char), l.isError = false → l.tokenRunes = acc.reverse →
      l.input.length < n →
      ∃ l', loopRun cond body n l = .next () l' ∧ l'.tokenRunes = (readIdentChars n (abs l) acc).1 ∧
        abs l' = (readIdentChars n (abs l) acc).2 ∧ l'.isError = false ∧ l'.prevPos = l.prevPos
  | 0, l, acc, _, _, hn => by omega
  | n + 1, l, acc, he, hacc, hn => by
    simp only [loopRun, hc l he, readIdentChars]
    have hnext : (abs l).next = l.nextRune := rfl
    rw [hnext]
    by_cases hi : isIdentChar l.nextRune = true
    · simp only [hi, if_true, hb l he]
      by_cases heof : (abs l).adv.isEOF = true
      · simp only [heof, if_true]
        exact ⟨_, rfl, by simp [put, pushRune, hacc], rfl, by simpa [put, pushRune] using he, rfl⟩
      · simp only [heof, if_false, Bool.false_eq_true]
        have heof' : (abs l).adv.isEOF = false := by simpa using heof
        have hlen := adv_rest_of_not_eof heof'
        have hlen' : (abs l).rest.length = l.input.length := rfl
        obtain ⟨l', h1, h2, h3, h4, h5⟩ := ident_loop cond body hc hb n (put (pushRune l) (abs l).adv)
          (l.nextRune :: acc) (by simpa [put, pushRune] using he) (by simp [put, pushRune, hacc])
          (by show (abs l).adv.rest.length < n; omega)
        exact ⟨l', h1, by simpa using h2, by simpa using h3, h4, h5⟩
    · simp only [hi, if_false, Bool.false_eq_true]
      exact ⟨l, rfl, hacc, rfl, he, rfl⟩


/-- **readIdentOrKeyword = readIdentChars + kwOfName** -/
theorem readIdent_run {ρ : Type} (l : L) (he : l.isError = false) :
    ∃ l' t, (call Gen.LexFlow.readIdentOrKeyword : M ρ Nat).run l = .next t l' ∧
      abs l' = (readIdentChars (l.input.length + 1) (abs l) []).2 ∧ l'.isError = false ∧
      l'.prevPos = l.prevPos ∧
      tokOf l'.token l'.ident l'.uintNumber =
        (match kwOfName (readIdentChars (l.input.length + 1) (abs l) []).1 with
          | some k => .kw k
          | none => .ident (readIdentChars (l.input.length + 1) (abs l) []).1) := by
  rw [call_run, Gen.LexFlow.readIdentOrKeyword, bind_run, upd_run]
  simp only [sliceTo, List.take_zero]
  have key : ∀ (cond : L → Bool) (body : M Nat Unit) (rest : Unit → M Nat Nat) (P : Out Nat Nat → Prop),
      (∀ l, l.isError = false → cond l = isIdentChar l.nextRune) →
      (∀ l, l.isError = false → body.run l =
        if (abs l).adv.isEOF = true then .brk (put (pushRune l) (abs l).adv)
        else .next () (put (pushRune l) (abs l).adv)) →
      (∀ l1, l1.tokenRunes = (readIdentChars (l.input.length + 1) (abs l) []).1 →
        abs l1 = (readIdentChars (l.input.length + 1) (abs l) []).2 → l1.isError = false →
        l1.prevPos = l.prevPos → P ((rest ()).run l1)) →
      P ((whileLoop cond body >>= rest).run { l with tokenRunes := [] }) := by
    intro cond body rest P hc hb hrest
    obtain ⟨l1, h1, h2, h3, h4, h5⟩ := ident_loop cond body hc hb (l.input.length + 1)
      { l with tokenRunes := [] } [] he rfl (Nat.lt_succ_self _)
    rw [bind_run, whileLoop_run]
    simp only [h1]
    exact hrest l1 h2 h3 h4 h5
  refine key _ _ _ (fun o => ∃ l' t, (o.ofCall : Out ρ Nat) = .next t l' ∧
      abs l' = (readIdentChars (l.input.length + 1) (abs l) []).2 ∧ l'.isError = false ∧
      l'.prevPos = l.prevPos ∧
      tokOf l'.token l'.ident l'.uintNumber =
        (match kwOfName (readIdentChars (l.input.length + 1) (abs l) []).1 with
          | some k => .kw k
          | none => .ident (readIdentChars (l.input.length + 1) (abs l) []).1)) ?_ ?_ ?_
  · intro l' h'
    cases h1 : isLetter l'.nextRune <;> cases h2 : Idl.isDigit l'.nextRune <;> by_cases h3 : l'.nextRune = '_' <;>
      simp [h', isIdentChar, unicodeIsLetter, unicodeIsDigit, h1, h2, h3]
  · intro l' h'
    simp only [bind_run, upd_run, readNextRune_run, rd_run, ite_run, brk_run, pure_run, appendRune]
    have e1 : abs { l' with tokenRunes := l'.tokenRunes ++ [l'.nextRune] } = abs l' := rfl
    have e2 : ({ l' with tokenRunes := l'.tokenRunes ++ [l'.nextRune] } : L) = pushRune l' := rfl
    rw [e1, e2]
    have e3 : (put (pushRune l') (abs l').adv).isEOF = (abs l').adv.isEOF := rfl
    have e4 : (put (pushRune l') (abs l').adv).isError = false := by simpa [put, pushRune] using h'
    rw [e3, e4]
    by_cases hh : (abs l').adv.isEOF = true <;> simp [hh]
  · intro l1 h2 h3 h4 h5
    simp only [bind_run, upd_run, rd_run, stringOfRunes, mapIndex_keywords, h2]
    cases hk : kwOfName (readIdentChars (l.input.length + 1) (abs l) []).1 with
    | some k =>
      simp only [ite_run, bind_run, upd_run, ret_run, if_true, ofCall_ret]
      exact ⟨_, _, rfl, h3, h4, h5, tokOf_kw k _ _⟩
    | none =>
      simp only [ite_run, bind_run, upd_run, ret_run, Bool.false_eq_true, if_false, pure_run, ofCall_ret]
      exact ⟨_, _, rfl, h3, h4, h5, rfl⟩


/-! ### readUint64Number -/

/-- a loop with the body of the hand model's `readNumChars` (`for { .. break }`). -/
theorem num_loop {ρ : Type} (cond : L → Bool) (body : M ρ Unit)
    (hc : ∀ l, cond l = true)
    (hb : ∀ l, l.isError = false → body.run l =
      if ((abs l).adv.isEOF || !isNumCont (abs l).adv.next) = true then .brk (put (pushRune l) (abs l).adv)
      else .next () (put (pushRune l) (abs l).adv)) :
    ∀ (n : Nat) (l : L) (acc : List Char), l.isError = false → l.tokenRunes = acc.reverse →
      l.input.length < n →
      ∃ l', loopRun cond body n l = .next () l' ∧ l'.tokenRunes = (readNumChars n (abs l) acc).1 ∧
        abs l' = (readNumChars n (abs l) acc).2 ∧ l'.isError = false ∧ l'.prevPos = l.prevPos
  | 0, l, acc, _, _, hn => by omega
  | n + 1, l, acc, he, hacc, hn => by
    simp only [loopRun, hc l, readNumChars, if_true, hb l he]
    have hnext : (abs l).next = l.nextRune := rfl
    rw [hnext]
    by_cases hbr : ((abs l).adv.isEOF || !isNumCont (abs l).adv.next) = true
    · simp only [hbr, if_true]
      exact ⟨_, rfl, by simp [put, pushRune, hacc], rfl, by simpa [put, pushRune] using he, rfl⟩
    · simp only [hbr, if_false, Bool.false_eq_true]
      have heof' : (abs l).adv.isEOF = false := by
        cases h : (abs l).adv.isEOF
        · rfl
        · simp [h] at hbr
      have hlen := adv_rest_of_not_eof heof'
      have hlen' : (abs l).rest.length = l.input.length := rfl
      obtain ⟨l', h1, h2, h3, h4, h5⟩ := num_loop cond body hc hb n (put (pushRune l) (abs l).adv)
        (l.nextRune :: acc) (by simpa [put, pushRune] using he) (by simp [put, pushRune, hacc])
        (by show (abs l).adv.rest.length < n; omega)
      exact ⟨l', h1, by simpa using h2, by simpa using h3, h4, h5⟩

theorem tokOf_num (i : List Char) (n : Nat) : tokOf Gen.LexFlow.c_tIntNumber i n = .num n := rfl
theorem tokOf_error (i : List Char) (n : Nat) : tokOf Gen.LexFlow.c_tError i n = .error := rfl
theorem tokOf_eof (i : List Char) (n : Nat) : tokOf Gen.LexFlow.c_tEOF i n = .eof := rfl

/-- **readUint64Number = readNumChars + parseUint** -/
theorem readNum_run {ρ : Type} (l : L) (he : l.isError = false) :
    ∃ l', (call Gen.LexFlow.readUint64Number : M ρ Unit).run l = .next () l' ∧
      abs l' = (readNumChars (l.input.length + 1) (abs l) []).2 ∧ l'.isError = false ∧
      l'.prevPos = l.prevPos ∧
      tokOf l'.token l'.ident l'.uintNumber =
        (match parseUint (readNumChars (l.input.length + 1) (abs l) []).1 with
          | some v => .num v
          | none => .error) := by
  rw [call_run, Gen.LexFlow.readUint64Number, bind_run, upd_run]
  simp only [sliceTo, List.take_zero]
  have key : ∀ (cond : L → Bool) (body : M Unit Unit) (rest : Unit → M Unit Unit) (P : Out Unit Unit → Prop),
      (∀ l, cond l = true) →
      (∀ l, l.isError = false → body.run l =
        if ((abs l).adv.isEOF || !isNumCont (abs l).adv.next) = true then .brk (put (pushRune l) (abs l).adv)
        else .next () (put (pushRune l) (abs l).adv)) →
      (∀ l1, l1.tokenRunes = (readNumChars (l.input.length + 1) (abs l) []).1 →
        abs l1 = (readNumChars (l.input.length + 1) (abs l) []).2 → l1.isError = false →
        l1.prevPos = l.prevPos → P ((rest ()).run l1)) →
      P ((whileLoop cond body >>= rest).run { l with tokenRunes := [] }) := by
    intro cond body rest P hc hb hrest
    obtain ⟨l1, h1, h2, h3, h4, h5⟩ := num_loop cond body hc hb (l.input.length + 1)
      { l with tokenRunes := [] } [] he rfl (Nat.lt_succ_self _)
    rw [bind_run, whileLoop_run]
    simp only [h1]
    exact hrest l1 h2 h3 h4 h5
  refine key _ _ _ (fun o => ∃ l', (o.ofCall : Out ρ Unit) = .next () l' ∧
      abs l' = (readNumChars (l.input.length + 1) (abs l) []).2 ∧ l'.isError = false ∧
      l'.prevPos = l.prevPos ∧
      tokOf l'.token l'.ident l'.uintNumber =
        (match parseUint (readNumChars (l.input.length + 1) (abs l) []).1 with
          | some v => .num v
          | none => .error)) ?_ ?_ ?_
  · intro l'
    rfl
  · intro l' h'
    simp only [bind_run, upd_run, readNextRune_run, rd_run, ite_run, brk_run, pure_run, appendRune, h',
      Bool.false_eq_true, if_false, isNumCont_eq]
    cases hh1 : (abs l').adv.isEOF <;> cases hh2 : isNumCont (abs l').adv.next <;>
      (have hh1' := hh1
       have hh2' := hh2
       simp only [abs] at hh1' hh2'
       simp [hh1, hh2, hh1', hh2', put, pushRune, abs, h'])
  · intro l1 h2 h3 h4 h5
    simp only [bind_run, upd_run, rd_run, stringOfRunes, strconvParseUint0_64, h2]
    cases hk : parseUint (readNumChars (l.input.length + 1) (abs l) []).1 with
    | some v =>
      simp only [ite_run, bind_run, upd_run, ret_run, pure_run, bne_self_eq_false, Bool.false_eq_true, if_false,
        ofCall_next]
      exact ⟨_, rfl, h3, h4, h5, rfl⟩
    | none =>
      have hne : ((some GoErr.other : Err) != none) = true := by decide
      simp only [ite_run, bind_run, upd_run, ret_run, pure_run, ofCall_ret, hne, if_true]
      exact ⟨_, rfl, h3, h4, h5, rfl⟩


/-! ### Next -/

/-- what the parser sees after `Next()`: `Token()` (with `Ident()` / `Uint64Number()`) and
    `TokenStartPos()`. -/
def observe (l : L) : Token := ⟨tokOf l.token l.ident l.uintNumber, l.prevPos⟩

/-- the getters return the fields `observe` reads -/
theorem getters (l : L) :
    Gen.LexFlow.curToken.run l = .ret l.token l ∧ Gen.LexFlow.curIdent.run l = .ret l.ident l ∧
    Gen.LexFlow.curUint64Number.run l = .ret l.uintNumber l ∧
    Gen.LexFlow.tokenStartPos.run l = .ret l.prevPos l := ⟨rfl, rfl, rfl, rfl⟩

theorem isPunct_cases {c : Char} (h : isPunct c = true) :
    c = '.' ∨ c = '=' ∨ c = '(' ∨ c = ')' ∨ c = '[' ∨ c = ']' ∨ c = '{' ∨ c = '}' := by
  simpa [isPunct, or_assoc] using h

/-- **Next = nextTok**: on a lexer without pending read error, `Next()` moves the hand model's
    part of the object as `Stef.Idl.nextTok` does, and what the parser then reads from the object
    is `nextTok`'s token. -/
theorem next_run {ρ : Type} (l : L) (he : l.isError = false) :
    ∃ l', (call Gen.LexFlow.next : M ρ Unit).run l = .next () l' ∧
      abs l' = (nextTok (abs l)).2 ∧ l'.isError = false ∧ observe l' = (nextTok (abs l)).1 := by
  obtain ⟨l1, h1, h2, h3, h4⟩ := skipWs_run (ρ := Unit) { l with prevPos := l.curPos } he
  have h2' : skipWs ((abs l).rest.length + 1) (abs l) = abs l1 := h2.symm
  have h4' : l1.prevPos = (abs l).cur := h4
  rw [call_run, Gen.LexFlow.next, bind_run, upd_run]
  simp only []
  rw [bind_run, h1]
  simp only [nextTok, h2']
  have hE : (abs l1).isEOF = l1.isEOF := rfl
  have hN : (abs l1).next = l1.nextRune := rfl
  have hR : (abs l1).rest = l1.input := rfl
  rw [hE, hN, hR]
  by_cases heof : l1.isEOF = true
  · simp only [bind_run, rd_run, ite_run, heof, if_true, upd_run, ret_run, ofCall_ret]
    exact ⟨_, rfl, by simp [abs, heof], h3, by simp [observe, tokOf_eof, h4']⟩
  · have heof' : l1.isEOF = false := by simpa using heof
    simp only [bind_run, rd_run, ite_run, heof', h3, Bool.false_eq_true, if_false, pure_run]
    by_cases hp : isPunct l1.nextRune = true
    · simp only [hp, if_true]
      rcases isPunct_cases hp with hc | hc | hc | hc | hc | hc | hc | hc <;>
        (simp only [hc, ite_run, bind_run, upd_run, readNextRune_run, ofCall_next]
         refine ⟨_, rfl, ?_, by simpa using h3, ?_⟩
         · rw [abs_put]; simp [abs, hc]
         · simp [observe, put, h4']; rfl)
    · simp only [hp, Bool.false_eq_true, if_false]
      have hnp : isPunct l1.nextRune = false := by simpa using hp
      simp only [isPunct, Bool.or_eq_false_iff, decide_eq_false_iff_not] at hnp
      obtain ⟨⟨⟨⟨⟨⟨⟨n1, n2⟩, n3⟩, n4⟩, n5⟩, n6⟩, n7⟩, n8⟩ := hnp
      have e1 : (l1.nextRune == Char.ofNat Gen.LexFlow.c_tDot) = false := by
        have k : Char.ofNat Gen.LexFlow.c_tDot = '.' := rfl
        simpa [k] using n1
      have e2 : (l1.nextRune == Char.ofNat Gen.LexFlow.c_tAssign) = false := by
        have k : Char.ofNat Gen.LexFlow.c_tAssign = '=' := rfl
        simpa [k] using n2
      have e3 : (l1.nextRune == Char.ofNat Gen.LexFlow.c_tLParen) = false := by
        have k : Char.ofNat Gen.LexFlow.c_tLParen = '(' := rfl
        simpa [k] using n3
      have e4 : (l1.nextRune == Char.ofNat Gen.LexFlow.c_tRParen) = false := by
        have k : Char.ofNat Gen.LexFlow.c_tRParen = ')' := rfl
        simpa [k] using n4
      have e5 : (l1.nextRune == Char.ofNat Gen.LexFlow.c_tLBracket) = false := by
        have k : Char.ofNat Gen.LexFlow.c_tLBracket = '[' := rfl
        simpa [k] using n5
      have e6 : (l1.nextRune == Char.ofNat Gen.LexFlow.c_tRBracket) = false := by
        have k : Char.ofNat Gen.LexFlow.c_tRBracket = ']' := rfl
        simpa [k] using n6
      have e7 : (l1.nextRune == Char.ofNat Gen.LexFlow.c_tLBrace) = false := by
        have k : Char.ofNat Gen.LexFlow.c_tLBrace = '{' := rfl
        simpa [k] using n7
      have e8 : (l1.nextRune == Char.ofNat Gen.LexFlow.c_tRBrace) = false := by
        have k : Char.ofNat Gen.LexFlow.c_tRBrace = '}' := rfl
        simpa [k] using n8
      simp only [e1, e2, e3, e4, e5, e6, e7, e8, ite_run, Bool.false_eq_true, if_false, bind_run, rd_run,
        unicodeIsLetter, isDigit_eq]
      by_cases hl : isLetter l1.nextRune = true
      · simp only [hl, if_true, bind_run]
        obtain ⟨l2, t, g1, g2, g3, g4, g5⟩ := readIdent_run (ρ := Unit) l1 h3
        simp only [g1, ret_run, ofCall_ret]
        generalize readIdentChars (l1.input.length + 1) (abs l1) [] = p at g2 g5 ⊢
        obtain ⟨cs, s'⟩ := p
        simp only at g2 g5 ⊢
        refine ⟨l2, rfl, ?_, g3, ?_⟩
        · rw [g2]; cases kwOfName cs <;> rfl
        · simp only [observe, g5, g4, h4']
          cases kwOfName cs <;> rfl
      · simp only [hl, Bool.false_eq_true, if_false]
        by_cases hd : Idl.isDigit l1.nextRune = true
        · simp only [hd, if_true, bind_run]
          obtain ⟨l2, g1, g2, g3, g4, g5⟩ := readNum_run (ρ := Unit) l1 h3
          simp only [g1, ret_run, ofCall_ret]
          generalize readNumChars (l1.input.length + 1) (abs l1) [] = p at g2 g5 ⊢
          obtain ⟨cs, s'⟩ := p
          simp only at g2 g5 ⊢
          refine ⟨l2, rfl, ?_, g3, ?_⟩
          · rw [g2]; cases parseUint cs <;> rfl
          · simp only [observe, g5, g4, h4']
            cases parseUint cs <;> rfl
        · simp only [hd, Bool.false_eq_true, if_false, pure_run, upd_run, readNextRune_run, ofCall_next]
          refine ⟨_, rfl, ?_, by simpa using h3, ?_⟩
          · rw [abs_put]; rfl
          · simp [observe, put, h4']; rfl


/-! ### NewLexer and the token sequence the parser reads -/

/-- **NewLexer = adv + nextTok**: whatever object it is run on, the lexer `NewLexer(input)` makes
    has read the first rune and the first token, as the hand model's `lex` starts. -/
theorem newLexer_run {ρ : Type} (input : List Char) (l0 : L) :
    ∃ l', (call (Gen.LexFlow.newLexer input) : M ρ Unit).run l0 = .next () l' ∧
      abs l' = (nextTok (LexSt.adv { rest := input })).2 ∧ l'.isError = false ∧
      observe l' = (nextTok (LexSt.adv { rest := input })).1 := by
  rw [call_run, Gen.LexFlow.newLexer, bind_run, newObj_run]
  simp only [bufioNewReader]
  rw [bind_run, readNextRune_run]
  simp only []
  obtain ⟨l', h1, h2, h3, h4⟩ := next_run (ρ := Unit)
    (put ({ input := input, curPos := { ofs := 0, line := 1, col := 1 } } : L)
      (abs ({ input := input, curPos := { ofs := 0, line := 1, col := 1 } } : L)).adv) rfl
  rw [bind_run, h1]
  exact ⟨l', rfl, h2, h3, h4⟩

/-- The tokens the parser reads from a lexer object by calling `Next()` again and again, up to
    and including the first EOF token (the hand model's `lexLoop`, with the regenerated `Next`).
    `none`: a call got `stuck`, or the `n` calls granted did not reach EOF. -/
def genLexLoop : Nat → L → Option (List Token)
  | 0, _ => none
  | n + 1, l =>
    match (call Gen.LexFlow.next : M Unit Unit).run l with
    | .next _ l' =>
      if (observe l').tok = .eof then some [observe l']
      else (genLexLoop n l').map (observe l' :: ·)
    | _ => none

/-- `NewLexer(input)`, then `Next()` until EOF: the token sequence of an input as the regenerated
    lexer delivers it (`input.length + 2` calls of `Next` are granted, as in `Stef.Idl.lex`). -/
def genLex (input : List Char) : Option (List Token) :=
  match (call (Gen.LexFlow.newLexer input) : M Unit Unit).run {} with
  | .next _ l1 =>
    if (observe l1).tok = .eof then some [observe l1]
    else (genLexLoop (input.length + 1) l1).map (observe l1 :: ·)
  | _ => none

theorem genLexLoop_eq : ∀ (n : Nat) (l : L), l.isError = false → mu (abs l) < n →
    genLexLoop n l = some (lexLoop n (abs l))
  | 0, _, _, hn => by omega
  | n + 1, l, he, hn => by
    obtain ⟨l', h1, h2, h3, h4⟩ := next_run (ρ := Unit) l he
    simp only [genLexLoop, h1, lexLoop, h4]
    by_cases hq : (nextTok (abs l)).1.tok = .eof
    · simp [hq]
    · have hlt := nextTok_mu_lt (abs l) hq
      simp only [hq, if_false]
      rw [genLexLoop_eq n l' h3 (by rw [h2]; omega), h2]
      rfl

/-- **the regenerated lexer delivers the hand model's token sequence, on every input**; in
    particular no loop of the translated lexer ever runs out of the rounds `whileLoop` grants. -/
theorem genLex_eq (input : List Char) : genLex input = some (lex input) := by
  obtain ⟨l1, h1, h2, h3, h4⟩ := newLexer_run (ρ := Unit) input {}
  simp only [genLex, h1, h4, lex]
  have hs0 := LexSt.adv_mu_le { rest := input }
  have hm : mu ({ rest := input } : LexSt) = input.length + 1 := by simp [mu]
  show _ = some (lexLoop (input.length + 1 + 1) _)
  simp only [lexLoop]
  by_cases hq : (nextTok (LexSt.adv { rest := input })).1.tok = .eof
  · simp [hq]
  · have hlt := nextTok_mu_lt _ hq
    simp only [hq, if_false]
    rw [genLexLoop_eq _ l1 h3 (by rw [h2]; omega), h2]
    rfl

/-- `idl.Parse` with the regenerated lexer as the token source of the hand model's parser. -/
def genParse (input : List Char) : Outcome :=
  match genLex input with
  | some ts => parseTokens ts
  | none => .panic .outOfFuel

/-- **genParse = parse** on every input. -/
theorem genParse_eq (input : List Char) : genParse input = parse input := by
  simp [genParse, genLex_eq, parse]

end Stef.Proofs.LexFlowGen
