/-
  Progress: every frame the reader loads consumes input, and never more than FrameSizeLimit
  bytes are loaded for one frame.
-/
import Stef.Reader

namespace Stef.Reader

theorem readByte_len (s : Src) :
    (s.readByte).1.data.length ≤ s.data.length ∧
    (∀ b, (s.readByte).2 = .ok b → (s.readByte).1.data.length + 1 = s.data.length) := by
  unfold Src.readByte
  cases h : s.data with
  | nil => simp
  | cons b rest => simp

theorem readFull_len (s : Src) (n : Nat) : (s.readFull n).1.data.length ≤ s.data.length := by
  unfold Src.readFull
  by_cases h0 : n = 0
  · simp [h0]
  · by_cases h1 : s.data.length ≥ n
    · simp [h0, h1]
    · by_cases h2 : s.data.isEmpty = true <;> simp [h0, h1, h2]

theorem readFull_ok_len (s : Src) (n : Nat) (b : Bytes) (h : (s.readFull n).2 = .ok b) : b.length = n := by
  unfold Src.readFull at h
  by_cases h0 : n = 0
  · simp [h0] at h; subst h; simp [h0]
  · by_cases h1 : s.data.length ≥ n
    · simp [h0, h1] at h; subst h; simp; omega
    · by_cases h2 : s.data.isEmpty = true <;> simp [h0, h1, h2] at h

theorem readOnce_len (s : Src) (n : Nat) : (s.readOnce n).1.data.length ≤ s.data.length := by
  unfold Src.readOnce
  by_cases h0 : n = 0
  · simp [h0]
  · by_cases h2 : s.data.isEmpty = true
    · simp [h0, h2]
    · simp only [h0, ↓reduceIte, h2, Bool.false_eq_true]
      cases s.sched <;> simp

theorem readOnce_ok_len (s : Src) (n : Nat) (b : Bytes) (h : (s.readOnce n).2 = .ok b) : b.length ≤ n := by
  unfold Src.readOnce at h
  by_cases h0 : n = 0
  · simp [h0] at h; subst h; simp
  · by_cases he : s.data.isEmpty = true
    · simp [h0, he] at h
    · simp only [h0, ↓reduceIte, he, Bool.false_eq_true] at h
      cases hs : s.sched with
      | nil => simp [hs] at h; subst h; simp; omega
      | cons c rest => simp [hs] at h; subst h; simp; omega

theorem readUvarintAux_len (fuel : Nat) : ∀ (s : Src) (shift acc i : Nat),
    (Src.readUvarintAux fuel s shift acc i).1.data.length ≤ s.data.length ∧
    (∀ v, (Src.readUvarintAux fuel s shift acc i).2 = .ok v →
        (Src.readUvarintAux fuel s shift acc i).1.data.length + 1 ≤ s.data.length) := by
  induction fuel with
  | zero => intro s shift acc i; simp [Src.readUvarintAux]
  | succ fuel ih =>
    intro s shift acc i
    simp only [Src.readUvarintAux]
    have hb := readByte_len s
    cases hr : s.readByte with
    | mk s' res =>
      rw [hr] at hb; simp only at hb
      cases res with
      | error e => simp; exact hb.1
      | ok b =>
        have h1 := hb.2 b rfl
        simp only at h1 ⊢
        by_cases hlt : b.toNat < 128
        · by_cases h9 : i = 9 ∧ b.toNat > 1
          · simp [hlt, h9]; omega
          · simp [hlt, h9]; omega
        · simp only [hlt, ↓reduceIte]
          have := ih s' (shift + 7) (acc + (b.toNat - 128) * 2 ^ shift) (i + 1)
          constructor
          · omega
          · intro v hv; have := this.2 v hv; omega

theorem fdReadUvarintAux_len (fuel : Nat) : ∀ (r : Rd) (shift acc i : Nat),
    (fdReadUvarintAux fuel r shift acc i).1.src.data.length ≤ r.src.data.length ∧
    (∀ v, (fdReadUvarintAux fuel r shift acc i).2 = .ok v →
        (fdReadUvarintAux fuel r shift acc i).1.src.data.length + 1 ≤ r.src.data.length) ∧
    (fdReadUvarintAux fuel r shift acc i).1.remaining ≤ r.remaining := by
  induction fuel with
  | zero => intro r shift acc i; simp [fdReadUvarintAux]
  | succ fuel ih =>
    intro r shift acc i
    simp only [fdReadUvarintAux]
    by_cases h0 : r.remaining = 0
    · simp [h0]
    · simp only [h0, ↓reduceIte]
      have hb := readByte_len r.src
      cases hr : r.src.readByte with
      | mk s' res =>
        rw [hr] at hb; simp only at hb
        cases res with
        | error e => simp; omega
        | ok b =>
          have h1 := hb.2 b rfl
          simp only at h1 ⊢
          by_cases hlt : b.toNat < 128
          · by_cases h9 : i = 9 ∧ b.toNat > 1
            · simp [hlt, h9]; omega
            · simp [hlt, h9]; omega
          · simp only [hlt, ↓reduceIte]
            have := ih { r with src := s', remaining := r.remaining - 1 } (shift + 7)
              (acc + (b.toNat - 128) * 2 ^ shift) (i + 1)
            simp only at this
            refine ⟨by omega, ?_, by omega⟩
            intro v hv; have := this.2.1 v hv; omega

theorem fdNext_progress (r : Rd) :
    (fdNext r).1.src.data.length ≤ r.src.data.length ∧
    (∀ fl, (fdNext r).2 = .ok fl →
        (fdNext r).1.src.data.length + 2 ≤ r.src.data.length ∧ (fdNext r).1.remaining ≤ Gen.frameSizeLimit) := by
  unfold fdNext
  by_cases h0 : r.remaining = 0
  · simp only [h0, ↓reduceIte]
    have hb := readByte_len r.src
    cases hr : r.src.readByte with
    | mk s' res =>
      rw [hr] at hb; simp only at hb
      cases res with
      | error e => simp; exact hb.1
      | ok fb =>
        have h1 := hb.2 fb rfl
        simp only at h1 ⊢
        by_cases hf : fb.toNat > Gen.frameFlagsMask
        · simp [hf]; omega
        · simp only [hf, ↓reduceIte]
          have hu := readUvarintAux_len 10 s' 0 0 0
          unfold Src.readUvarint
          cases hq : Src.readUvarintAux 10 s' 0 0 0 with
          | mk s2 res2 =>
            rw [hq] at hu; simp only at hu
            cases res2 with
            | error e => simp; omega
            | ok sz =>
              have h2 := hu.2 sz rfl
              simp only at h2 ⊢
              by_cases hz : sz > Gen.frameSizeLimit
              · simp [hz]; omega
              · simp [hz]; omega
  · simp only [h0, ↓reduceIte]
    have hfl := readFull_len r.src r.remaining
    cases hr0 : r.src.readFull r.remaining with
    | mk s0 res0 =>
      rw [hr0] at hfl; simp only at hfl
      cases res0 with
      | error e => simp; exact hfl
      | ok _ =>
        simp only at hfl ⊢
        have hb := readByte_len s0
        cases hr : s0.readByte with
        | mk s' res =>
          rw [hr] at hb; simp only at hb
          cases res with
          | error e => simp; omega
          | ok fb =>
            have h1 := hb.2 fb rfl
            simp only at h1 ⊢
            by_cases hf : fb.toNat > Gen.frameFlagsMask
            · simp [hf]; omega
            · simp only [hf, ↓reduceIte]
              have hu := readUvarintAux_len 10 s' 0 0 0
              unfold Src.readUvarint
              cases hq : Src.readUvarintAux 10 s' 0 0 0 with
              | mk s2 res2 =>
                rw [hq] at hu; simp only at hu
                cases res2 with
                | error e => simp; omega
                | ok sz =>
                  have h2 := hu.2 sz rfl
                  simp only at h2 ⊢
                  by_cases hz : sz > Gen.frameSizeLimit
                  · simp [hz]; omega
                  · simp [hz]; omega

end Stef.Reader

namespace Stef.Reader

/-- **progress + frame size bound**: a successfully loaded frame consumed at least three bytes
    of input and its loaded content is at most FrameSizeLimit bytes. -/
theorem nextFrame_progress (sites : Sites) (r : Rd) (fl : Nat) (h : (nextFrame sites r).2 = .ok fl) :
    (nextFrame sites r).1.src.data.length + 3 ≤ r.src.data.length ∧
    (nextFrame sites r).1.body.length ≤ Gen.frameSizeLimit := by
  unfold nextFrame at h ⊢
  have h1 := fdNext_progress r
  cases hq : fdNext r with
  | mk r1 res =>
    rw [hq] at h1 h; simp only at h1 h ⊢
    cases res with
    | error e => simp at h
    | ok flags =>
      obtain ⟨h1a, h1b⟩ := h1.2 flags rfl
      simp only at h ⊢
      have h2 := fdReadUvarintAux_len 10 r1 0 0 0
      cases hq2 : fdReadUvarintAux 10 r1 0 0 0 with
      | mk r2 res2 =>
        rw [hq2] at h2 h; simp only at h2 h ⊢
        cases res2 with
        | error e => simp at h
        | ok nrec =>
          have h2a := h2.2.1 nrec rfl
          have h2b := h2.2.2
          simp only at h ⊢
          by_cases hf : sites.frameContentFull = true
          · simp only [hf, ↓reduceIte] at h ⊢
            have h3 := readFull_len r2.src r2.remaining
            cases hq3 : r2.src.readFull r2.remaining with
            | mk s3 res3 =>
              rw [hq3] at h3 h; simp only at h3 h ⊢
              cases res3 with
              | error e => simp at h
              | ok b =>
                have hb := readFull_ok_len r2.src r2.remaining b (by rw [hq3])
                simp only
                constructor <;> omega
          · simp only [hf, Bool.false_eq_true, ↓reduceIte] at h ⊢
            have h3 := readOnce_len r2.src r2.remaining
            cases hq3 : r2.src.readOnce r2.remaining with
            | mk s3 res3 =>
              rw [hq3] at h3 h; simp only at h3 h ⊢
              cases res3 with
              | error e => simp at h
              | ok b =>
                simp only at h ⊢
                by_cases hl : b.length < r2.remaining
                · simp [hl] at h
                · simp only [hl, ↓reduceIte]
                  have hb : b.length ≤ r2.remaining := readOnce_ok_len r2.src r2.remaining b (by rw [hq3])
                  constructor <;> omega

end Stef.Reader
