/-
  `ResolveRefs` run on the schema the grammar phase rebuilds from a printed schema gives the
  printed schema back (sorted by name, recursion flags cleared).
-/
import Stef.Proofs.PrintParse

namespace Stef.Idl

theorem any_name_perm {α : Type} {l l' : List α} (key : α → Name) (hp : l'.Perm l) (n : Name) :
    l'.any (fun x => decide (key x = n)) = l.any (fun x => decide (key x = n)) := by
  rw [Bool.eq_iff_iff]
  simp only [List.any_eq_true, decide_eq_true_eq]
  constructor
  · rintro ⟨x, hx, h⟩; exact ⟨x, hp.mem_iff.1 hx, h⟩
  · rintro ⟨x, hx, h⟩; exact ⟨x, hp.mem_iff.2 hx, h⟩

theorem hasStruct_raw (σ : Schema) (n : Name) : (rawSchema σ).hasStruct n = σ.hasStruct n := by
  simp only [Schema.hasStruct, rawSchema, List.any_map]
  exact any_name_perm (fun x : Struct => x.name) (sortBy_perm _ _) n

theorem hasMultimap_raw (σ : Schema) (n : Name) : (rawSchema σ).hasMultimap n = σ.hasMultimap n := by
  simp only [Schema.hasMultimap, rawSchema, List.any_map]
  exact any_name_perm (fun x : Multimap => x.name) (sortBy_perm _ _) n

theorem hasEnum_raw (σ : Schema) (n : Name) : (rawSchema σ).hasEnum n = σ.hasEnum n := by
  simp only [Schema.hasEnum, rawSchema]
  exact any_name_perm (fun x : Enum => x.name) (sortBy_perm _ _) n

/-- a name defined exactly once at top level is of one kind only. -/
theorem kinds_of_count_one {σ : Schema} {n : Name} (h : σ.topNames.count n = 1) :
    ((σ.hasStruct n = true → σ.hasMultimap n = false ∧ σ.hasEnum n = false) ∧
     (σ.hasMultimap n = true → σ.hasStruct n = false ∧ σ.hasEnum n = false) ∧
     (σ.hasEnum n = true → σ.hasStruct n = false ∧ σ.hasMultimap n = false)) := by
  simp only [Schema.topNames, List.count_append] at h
  have f : ∀ (l : List Name), l.count n = 0 → n ∉ l := fun l h => List.count_eq_zero.1 h
  have g : ∀ (l : List Name), n ∈ l → 0 < l.count n := fun l h => List.count_pos_iff.2 h
  have hs : σ.hasStruct n = false ↔ n ∉ σ.structs.map (·.name) := by
    rw [← hasStruct_iff]; simp
  have hm : σ.hasMultimap n = false ↔ n ∉ σ.multimaps.map (·.name) := by
    rw [← hasMultimap_iff]; simp
  have he : σ.hasEnum n = false ↔ n ∉ σ.enums.map (·.name) := by
    rw [← hasEnum_iff]; simp
  refine ⟨fun h1 => ?_, fun h1 => ?_, fun h1 => ?_⟩
  · have := g _ (hasStruct_iff.1 h1)
    exact ⟨hm.2 (f _ (by omega)), he.2 (f _ (by omega))⟩
  · have := g _ (hasMultimap_iff.1 h1)
    exact ⟨hs.2 (f _ (by omega)), he.2 (f _ (by omega))⟩
  · have := g _ (hasEnum_iff.1 h1)
    exact ⟨hs.2 (f _ (by omega)), hm.2 (f _ (by omega))⟩

theorem resolveBase_raw {σ : Schema} {b : BaseType} (hres : b.Resolved σ)
    (hne : b.isEmpty = false) : resolveBase (rawSchema σ) (rawBase b) = .ok b := by
  obtain ⟨h1, h2, h3⟩ := hres
  cases b with
  | mk prim struct multimap enum dict =>
    simp only at h1 h2 h3
    unfold rawBase resolveBase
    simp only [hasStruct_raw, hasMultimap_raw, hasEnum_raw]
    by_cases he : enum = []
    · subst he
      cases prim with
      | some p =>
        have hs : struct = [] := by
          apply Classical.byContradiction; intro hs
          have := (h1 hs).2.2.1; simp at this
        have hm : multimap = [] := by
          apply Classical.byContradiction; intro hm
          have := (h2 hm).2.2.1; simp at this
        subst hs hm
        simp
      | none =>
        by_cases hs : struct = []
        · subst hs
          have hm : multimap ≠ [] := by
            intro hm; subst hm; simp [BaseType.isEmpty] at hne
          obtain ⟨_, _, _, hh, hc⟩ := h2 hm
          obtain ⟨k1, k2⟩ := (kinds_of_count_one hc).2.1 hh
          simp [hm, hh, k1, k2]
        · obtain ⟨hm, _, _, hh, hc⟩ := h1 hs
          subst hm
          obtain ⟨k1, k2⟩ := (kinds_of_count_one hc).1 hh
          simp [hs, hh, k1, k2]
    · obtain ⟨hs, hm, hp, hh, hc⟩ := h3 he
      subst hs hm hp
      obtain ⟨k1, k2⟩ := (kinds_of_count_one hc).2.2 hh
      simp [he, hh, k1, k2]

theorem resolveFType_raw {σ : Schema} {ty : FType} (hres : ty.inner.Resolved σ)
    (hne : ty.inner.isEmpty = false) :
    resolveFType (rawSchema σ) (rawFType ty) = .ok (unmarkFType ty) := by
  cases ty with
  | base b =>
    have h := resolveBase_raw hres hne
    simp only [FType.inner] at h
    simp [rawFType, resolveFType, h, Except.map, unmarkFType]
  | array e d r =>
    have h := resolveBase_raw hres hne
    simp only [FType.inner] at h
    simp [rawFType, resolveFType, h, Except.map, unmarkFType]

theorem resolveFields_raw {σ : Schema} : ∀ (fs : List Field),
    (∀ f ∈ fs, f.ty.inner.Resolved σ ∧ f.ty.inner.isEmpty = false) →
    resolveFields (rawSchema σ) (fs.map rawField) = .ok (fs.map unmarkField)
  | [], _ => rfl
  | f :: fs, h => by
    have h1 := resolveFType_raw (h f (by simp)).1 (h f (by simp)).2
    have h2 := resolveFields_raw fs (fun g hg => h g (by simp [hg]))
    simp only [List.map_cons, resolveFields, rawField, h1, h2, unmarkField]

theorem resolveStructs_raw {σ : Schema} : ∀ (ss : List Struct),
    (∀ s ∈ ss, ∀ f ∈ s.fields, f.ty.inner.Resolved σ ∧ f.ty.inner.isEmpty = false) →
    resolveStructs (rawSchema σ) (ss.map rawStruct) = .ok (ss.map unmarkStruct)
  | [], _ => rfl
  | s :: ss, h => by
    have h1 := resolveFields_raw s.fields (h s (by simp))
    have h2 := resolveStructs_raw ss (fun x hx => h x (by simp [hx]))
    simp only [List.map_cons, resolveStructs, rawStruct, h1, h2, unmarkStruct]

theorem resolveMultimaps_raw {σ : Schema} : ∀ (ms : List Multimap),
    (∀ m ∈ ms, ∀ ty ∈ m.types, ty.inner.Resolved σ ∧ ty.inner.isEmpty = false) →
    resolveMultimaps (rawSchema σ) (ms.map rawMultimap) = .ok (ms.map unmarkMultimap)
  | [], _ => rfl
  | m :: ms, h => by
    have hk := h m (by simp) m.key (by simp [Multimap.types])
    have hv := h m (by simp) m.value (by simp [Multimap.types])
    have h1 := resolveFType_raw hk.1 hk.2
    have h2 := resolveFType_raw hv.1 hv.2
    have h3 := resolveMultimaps_raw ms (fun x hx => h x (by simp [hx]))
    simp only [List.map_cons, resolveMultimaps, rawMultimap, h1, h2, h3, unmarkMultimap]

/-- `ResolveRefs` undoes `rawSchema` up to the recursion flags. -/
theorem resolveRefs_raw {σ : Schema} (hwf : σ.WF) :
    resolveRefs (rawSchema σ) = .ok (unmark σ.norm) := by
  have hs := resolveStructs_raw (σ := σ) (sortBy (·.name) σ.structs) (by
    intro s hs f hf
    have hs' := (sortBy_perm _ _).mem_iff.1 hs
    have hmem : f.ty ∈ σ.allTypes := mem_allTypes.2 (Or.inl ⟨s, hs', by
      simp only [Struct.types, List.mem_map]; exact ⟨f, hf, rfl⟩⟩)
    exact ⟨hwf.refs_resolve _ hmem, hwf.no_empty_type _ hmem⟩)
  have hm := resolveMultimaps_raw (σ := σ) (sortBy (·.name) σ.multimaps) (by
    intro m hm ty hty
    have hm' := (sortBy_perm _ _).mem_iff.1 hm
    have hmem : ty ∈ σ.allTypes := mem_allTypes.2 (Or.inr ⟨m, hm', hty⟩)
    exact ⟨hwf.refs_resolve _ hmem, hwf.no_empty_type _ hmem⟩)
  unfold resolveRefs
  have e1 : (rawSchema σ).structs = (sortBy (·.name) σ.structs).map rawStruct := rfl
  have e2 : (rawSchema σ).multimaps = (sortBy (·.name) σ.multimaps).map rawMultimap := rfl
  rw [e1, e2, hs, hm]
  rfl

end Stef.Idl
