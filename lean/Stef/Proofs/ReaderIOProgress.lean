/-
  Fuel adequacy of the model's `read` loop (Stef.ReaderIO): a `NextFrame` that succeeds consumed
  at least the frame's flags byte, so `readFuel` rounds always suffice - more fuel never changes
  the result. (The inner loops - io.ReadFull, the skip loop of Next, bufio's ReadByte - are covered
  by their specifications in Proofs/ReaderIO*.lean: their results never are the model's fuel error.)
-/
import Stef.Proofs.ReaderIOSim

namespace Stef.ReaderIO

def Fd.len (d : Fd) : Nat := d.b.rest.length

theorem readUvarintLoop_inv {S : Type} (rb : S → S × Except Err Byte) (P : S → Prop) (m : S → Nat)
    (h : ∀ s, P s → P (rb s).1 ∧ m (rb s).1 ≤ m s) :
    ∀ (fuel : Nat) (s : S) (x sh i : Nat), P s →
      P (readUvarintLoop rb fuel s x sh i).1 ∧ m (readUvarintLoop rb fuel s x sh i).1 ≤ m s := by
  intro fuel
  induction fuel with
  | zero => intro s x sh i hp; exact ⟨hp, Nat.le_refl _⟩
  | succ fuel ih =>
    intro s x sh i hp
    unfold readUvarintLoop
    obtain ⟨h1, h2⟩ := h s hp
    rcases hr : rb s with ⟨s', r⟩
    rw [hr] at h1 h2
    simp only at h1 h2
    cases r with
    | error e => exact ⟨h1, h2⟩
    | ok b =>
      simp only
      split
      · split
        · exact ⟨h1, h2⟩
        · exact ⟨h1, h2⟩
      · obtain ⟨i1, i2⟩ := ih s' (x ||| ((b.toNat % 128) <<< sh)) (sh + 7) (i + 1) h1
        exact ⟨i1, Nat.le_trans i2 h2⟩

theorem Bufio.readByte_len (b : Bufio) (h : b.WF) :
    (b.readByte).1.WF ∧ (b.readByte).1.size = b.size ∧ (b.readByte).1.rest.length ≤ b.rest.length ∧
    (∀ c, (b.readByte).2 = .ok c → (b.readByte).1.rest.length < b.rest.length) := by
  obtain ⟨a1, a2, _, _, a5, a6⟩ := Bufio.readByte_spec b h
  refine ⟨a1, a2, by rw [a5]; simp, ?_⟩
  intro c hc
  rw [a6] at hc
  rw [a5]
  cases hb : b.rest with
  | nil => rw [hb] at hc; cases hc
  | cons x t => simp

theorem Bufio.readUvarint_len (b : Bufio) (h : b.WF) (hbig : Fd.skipChunk < b.size) :
    (b.readUvarint).1.WF ∧ Fd.skipChunk < (b.readUvarint).1.size ∧
    (b.readUvarint).1.rest.length ≤ b.rest.length := by
  have := readUvarintLoop_inv Bufio.readByte (fun x => x.WF ∧ Fd.skipChunk < x.size) (fun x => x.rest.length)
    (by
      intro s ⟨hw, hs⟩
      obtain ⟨a1, a2, a3, _⟩ := Bufio.readByte_len s hw
      exact ⟨⟨a1, by rw [a2]; exact hs⟩, a3⟩) 10 b 0 0 0 ⟨h, hbig⟩
  exact ⟨this.1.1, this.1.2, this.2⟩

theorem Fd.nextFrameHdr_len (d : Fd) (h : d.WF) :
    (d.nextFrameHdr).2 = none → (d.nextFrameHdr).1.WF ∧ (d.nextFrameHdr).1.len < d.len := by
  unfold Fd.nextFrameHdr
  obtain ⟨a1, a2, a3, a4⟩ := Bufio.readByte_len d.b h.b
  rcases hr : d.b.readByte with ⟨b', r⟩
  rw [hr] at a1 a2 a3 a4
  simp only at a1 a2 a3 a4
  cases r with
  | error e => intro hc; cases hc
  | ok hb =>
    simp only
    have hlt := a4 hb rfl
    split
    · intro hc; cases hc
    · obtain ⟨c1, c2, c3⟩ := Bufio.readUvarint_len b' a1 (by rw [a2]; exact h.big)
      rcases hu : b'.readUvarint with ⟨b'', x, e⟩
      rw [hu] at c1 c2 c3
      simp only at c1 c2 c3
      cases e with
      | some e => intro hc; cases hc
      | none =>
        simp only
        split
        · intro hc; cases hc
        · intro _
          exact ⟨⟨c1, c2, rfl⟩, by simp only [Fd.len]; omega⟩

theorem Fd.next_len (d : Fd) (h : d.WF) :
    (d.next).2 = none → (d.next).1.WF ∧ (d.next).1.len < d.len := by
  unfold Fd.next
  obtain ⟨a1, _, _, _, _, _, _, a8, _⟩ :=
    Fd.skipLoop_spec (d.remaining + d.b.src.sched.length + 1) d h (by omega)
  rcases hr : Fd.skipLoop (d.remaining + d.b.src.sched.length + 1) d with ⟨d', e⟩
  rw [hr] at a1 a8
  simp only at a1 a8
  cases e with
  | some e => intro hc; cases hc
  | none =>
    simp only
    intro hn
    obtain ⟨b1, b2⟩ := Fd.nextFrameHdr_len d' a1 hn
    refine ⟨b1, Nat.lt_of_lt_of_le b2 ?_⟩
    simp only [Fd.len, a8, List.length_drop]; omega

theorem Fd.readByte_len (d : Fd) (h : d.WF) : (d.readByte).1.WF ∧ (d.readByte).1.len ≤ d.len := by
  obtain ⟨a1, _, _, _, _, _, _, _, _, a10, _⟩ := Fd.readByte_spec d h
  refine ⟨a1, ?_⟩
  simp only [Fd.len, a10]
  split
  · exact Nat.le_refl _
  · simp

theorem Fd.readUvarint_len (d : Fd) (h : d.WF) : (d.readUvarint).1.WF ∧ (d.readUvarint).1.len ≤ d.len :=
  readUvarintLoop_inv Fd.readByte Fd.WF Fd.len (fun s hs => Fd.readByte_len s hs) 10 d 0 0 0 h

theorem Fd.readFull_len (d : Fd) (h : d.WF) (n : Nat) (col : Bytes) (hok : (d.readFull n).2 = .ok col) :
    (d.readFull n).1.WF ∧ (d.readFull n).1.len ≤ d.len := by
  by_cases hn : n ≤ d.remaining
  · obtain ⟨_, a2, _, a4, _⟩ := Fd.readFullN_spec d h n hn
    unfold Fd.readFull
    rw [toExcept_fst]
    exact ⟨a4, by simp only [Fd.len, a2, List.length_drop]; omega⟩
  · exfalso
    obtain ⟨a1, _⟩ := Fd.readFullN_overrun d h.b n (by omega)
    obtain ⟨e, he⟩ := toExcept_err _ a1
    unfold Fd.readFull at hok
    rw [he] at hok
    cases hok

theorem readCols_len : ∀ (ns : List Nat) (d : Fd) (acc : List Bytes) (cols : List Bytes), d.WF →
    (readCols ns d acc).2 = .ok cols → (readCols ns d acc).1.WF ∧ (readCols ns d acc).1.len ≤ d.len := by
  intro ns
  induction ns with
  | nil => intro d acc cols h _; exact ⟨h, Nat.le_refl _⟩
  | cons n ns ih =>
    intro d acc cols h hok
    unfold readCols at hok ⊢
    rcases hr : d.readFull n with ⟨d', r⟩
    rw [hr] at hok
    cases r with
    | error e => simp only at hok; cases hok
    | ok col =>
      simp only at hok ⊢
      have := Fd.readFull_len d h n col (by rw [hr])
      rw [hr] at this
      obtain ⟨i1, i2⟩ := ih d' (col :: acc) cols this.1 hok
      exact ⟨i1, Nat.le_trans i2 this.2⟩

theorem readFrom_len (t : Sizes.ColTree) (d : Fd) (h : d.WF) (lim : Nat) (cols : List Bytes)
    (hok : (readFrom t d lim).2 = .ok cols) :
    (readFrom t d lim).1.WF ∧ (readFrom t d lim).1.len ≤ d.len := by
  unfold readFrom at hok ⊢
  obtain ⟨a1, a2⟩ := Fd.readUvarint_len d h
  rcases hu : d.readUvarint with ⟨d', x, e⟩
  rw [hu] at hok a1 a2
  simp only at a1 a2
  cases e with
  | some e => simp only at hok; cases hok
  | none =>
    simp only at hok ⊢
    by_cases hz : x > lim
    · simp only [hz, ↓reduceIte] at hok; cases hok
    · simp only [hz, ↓reduceIte] at hok ⊢
      rcases hr : d'.readFull x with ⟨d'', r⟩
      rw [hr] at hok
      cases r with
      | error e => simp only at hok; cases hok
      | ok table =>
        simp only at hok ⊢
        have hf := Fd.readFull_len d' a1 x table (by rw [hr])
        rw [hr] at hf
        rcases hs : Sizes.readSizes t { rd := { buf := table }, limit := lim - x } with ⟨st, ok⟩
        rw [hs] at hok
        cases ok with
        | false => simp only at hok; cases hok
        | true =>
          simp only at hok ⊢
          obtain ⟨i1, i2⟩ := readCols_len _ d'' [] cols hf.1 hok
          exact ⟨i1, Nat.le_trans i2 (Nat.le_trans hf.2 a2)⟩

/-- **progress**: a `NextFrame` that succeeds leaves strictly fewer undelivered bytes. -/
theorem nextFrame_progress (r : Rd) (h : r.fd.WF) (fl : Nat) (hok : (nextFrame r).2 = .ok fl) :
    (nextFrame r).1.fd.WF ∧ (nextFrame r).1.fd.len < r.fd.len := by
  unfold nextFrame at hok ⊢
  have hn := Fd.next_len r.fd h
  rcases h1 : r.fd.next with ⟨d, e⟩
  rw [h1] at hok hn
  cases e with
  | some e => simp only at hok; cases hok
  | none =>
    simp only at hok hn ⊢
    obtain ⟨n1, n2⟩ := hn trivial
    obtain ⟨a1, a2⟩ := Fd.readUvarint_len d n1
    rcases hu : d.readUvarint with ⟨d', x, e⟩
    rw [hu] at hok a1 a2
    simp only at a1 a2
    cases e with
    | some e => simp only at hok; cases hok
    | none =>
      simp only at hok ⊢
      rcases hf : readFrom r.tree d' d'.remaining with ⟨d'', u⟩
      rw [hf] at hok
      cases u with
      | error e => simp only at hok; cases hok
      | ok cols =>
        simp only at hok ⊢
        have := readFrom_len r.tree d' a1 d'.remaining cols (by rw [hf])
        rw [hf] at this
        obtain ⟨t1, t2⟩ := this
        simp only at t1 t2
        exact ⟨t1, by omega⟩

/-- **the fuel of `read` suffices**: with `readFuel r` rounds or more the result is the same. -/
theorem read_fuel_sufficient (till : Bool) : ∀ (f₁ f₂ : Nat) (r : Rd), r.fd.WF →
    r.fd.len + 2 ≤ f₁ → r.fd.len + 2 ≤ f₂ → read till f₁ r = read till f₂ r := by
  intro f₁
  induction f₁ with
  | zero => intro f₂ r _ h1 _; omega
  | succ f₁ ih =>
    intro f₂ r hw h1 h2
    cases f₂ with
    | zero => omega
    | succ f₂ =>
      unfold read
      by_cases h0 : r.frameRecordCount = 0
      · simp only [h0, ↓reduceIte]
        cases till with
        | true => rfl
        | false =>
          simp only [Bool.false_eq_true, ↓reduceIte]
          have hp := nextFrame_progress r hw
          rcases hn : nextFrame r with ⟨r', u⟩
          rw [hn] at hp
          cases u with
          | error e => rfl
          | ok fl =>
            simp only at hp ⊢
            obtain ⟨p1, p2⟩ := hp fl rfl
            exact ih f₂ r' p1 (by omega) (by omega)
      · simp only [h0, ↓reduceIte]

theorem read_fuel_enough (till : Bool) (r : Rd) (h : r.fd.WF) (fuel : Nat) (hf : readFuel r ≤ fuel) :
    read till fuel r = read till (readFuel r) r :=
  read_fuel_sufficient till fuel (readFuel r) r h hf (Nat.le_refl _)

/-- a `Read` that returns a record leaves a well-formed frame decoder (so the next `Read` has
    enough fuel again) -/
theorem read_record_wf (till : Bool) : ∀ (fuel : Nat) (r : Rd), r.fd.WF → ∀ f i,
    (read till fuel r).2 = .record f i → (read till fuel r).1.fd.WF := by
  intro fuel
  induction fuel with
  | zero => intro r _ f i h; unfold read at h; cases h
  | succ fuel ih =>
    intro r hw f i h
    unfold read at h ⊢
    by_cases h0 : r.frameRecordCount = 0
    · simp only [h0, ↓reduceIte] at h ⊢
      cases till with
      | true => simp only [↓reduceIte] at h; cases h
      | false =>
        simp only [Bool.false_eq_true, ↓reduceIte] at h ⊢
        have hp := nextFrame_progress r hw
        rcases hn : nextFrame r with ⟨r', u⟩
        rw [hn] at hp h
        cases u with
        | error e => simp only at h; cases h
        | ok fl =>
          simp only at hp h ⊢
          exact ih r' (hp fl rfl).1 f i h
    · simp only [h0, ↓reduceIte] at h ⊢
      exact hw

/-- the state a successful (or failed) constructor leaves is well formed -/
theorem open_wf (t : Sizes.ColTree) (data : Bytes) (fail : Bool) (σ : List Beh) (B : Nat)
    (c : Contract σ) (hB : Fd.skipChunk < B) :
    (open_ B t { data := data, fail := fail, sched := σ }).1.fd.WF :=
  (open_sim t data fail σ σ B B c c hB hB).2.fd.w₁

end Stef.ReaderIO
