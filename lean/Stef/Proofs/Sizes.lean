import Stef.Sizes

namespace Stef.Sizes

mutual
/-- conservation: whatever the size table says, and on the error path too, what was handed to
    `EnsureLen` plus what is left of the budget is what the caller passed in. -/
theorem readSizes_conserve : ∀ (t : ColTree) (s : St),
    (readSizes t s).1.alloc.sum + (readSizes t s).1.limit = s.alloc.sum + s.limit
  | .node kids, s => by
    unfold readSizes
    simp only
    split
    · rfl
    · rename_i hle
      split
      · rename_i h0; simp only [List.sum_cons, h0]; omega
      · rw [readSizesList_conserve kids]
        simp only [List.sum_cons]; omega
theorem readSizesList_conserve : ∀ (ts : List ColTree) (s : St),
    (readSizesList ts s).1.alloc.sum + (readSizesList ts s).1.limit = s.alloc.sum + s.limit
  | [], s => by unfold readSizesList; rfl
  | k :: ks, s => by
    unfold readSizesList
    have h := readSizes_conserve k s
    split
    · rename_i s' heq
      rw [heq] at h
      rw [readSizesList_conserve ks s']; exact h
    · rename_i s' heq
      rw [heq] at h; exact h
end

theorem readSizes_alloc_le (t : ColTree) (s : St) :
    (readSizes t s).1.alloc.sum ≤ s.alloc.sum + s.limit := by
  have := readSizes_conserve t s; omega

/-- **the allocation of one frame's columns is bounded by the frame budget**: for every column
    tree, every input and every limit, the size-table buffer plus all column buffers that
    `ReadFrom` allocates (also when it ends in an error) is at most `readLimit`. -/
theorem readFrom_alloc_bounded (t : ColTree) (input : Bytes) (readLimit : Nat) :
    (readFrom t input readLimit).temp + (readFrom t input readLimit).alloc.sum ≤ readLimit := by
  unfold readFrom
  split
  · simp
  · rename_i bs rest _
    simp only
    split
    · simp
    · rename_i hle
      split
      · simp; omega
      · have h := readSizes_alloc_le t { rd := { buf := rest.take bs.toNat }, limit := readLimit - bs.toNat }
        simp only [List.sum_nil, Nat.zero_add] at h
        split <;> (try split) <;> simp only [List.sum_reverse] <;> omega

end Stef.Sizes
