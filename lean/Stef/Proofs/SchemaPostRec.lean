/-
  Stef.Proofs.SchemaPostRec: the regenerated recursion marking (`Gen.SchemaPost.computeRecursive` with
  `computeRecursiveStruct` / `computeRecursiveMultimap` / `computeRecursiveType`, `markRecursive`, `findLast`,
  translated statement by statement from go/pkg/schema/schema.go) computes what the hand model of Stef/Idl.lean
  (`Idl.computeRecursive`: `crRoots`, `crEnter`, `crFields`, `crType`, `markRecursive`, `findLast`) computes,
  whenever the hand model succeeds - for every schema, no side condition.

    findLast_eq           Gen.findLast l n = ok (index of the last occurrence, -1 when there is none)   (all lists)
    markRecursive_eq      Gen.markRecursive against Idl.markRecursive on related states
    SimT / sim_base       one call of Gen.computeRecursiveType with fuel F ≥ 3 * n (+ 1 for an array) against
                          `crType σ n`; the translated stack comes back EXACTLY as it went in
    computeRecursive_eq   the main theorem

  State relation: `R stk marks` is the hand state of a translated stack (`fields` through `Recursable.frame`);
  `Inv stk`: the set `asMap` holds exactly the names on `asStack` (the hand model tests the stack, the translated
  code the set). Core Lean only. (The helper lemmas `ok_bind`, `setTrue_new`, `dropLastE_concat` are restated here
  instead of imported from Stef.Proofs.PrintFlowGen: that file's are about `PrintFlowSem.dropLastE` / `contains`.)
-/
import Stef.Gen.SchemaPost
namespace Stef.Proofs.SchemaPostRec
open Stef Stef.Idl Stef.PrintFlowSem Stef.SchemaPostSem

theorem ok_bind {ε α β : Type} (a : α) (f : α → Except ε β) : (Except.ok a >>= f) = f a := rfl

/-! ### findLast -/

theorem findLastGo_snoc (n : Name) (x : Name) : ∀ (l : List Name) (i : Nat) (acc : Option Nat),
    findLastGo n (l ++ [x]) i acc = if x = n then some (i + l.length) else findLastGo n l i acc
  | [], i, acc => by simp [findLastGo]
  | y :: ys, i, acc => by
    simp only [List.cons_append, findLastGo, List.length_cons]
    rw [findLastGo_snoc n x ys]
    have : i + 1 + ys.length = i + (ys.length + 1) := by omega
    rw [this]

theorem findLast_snoc (n x : Name) (l : List Name) :
    Idl.findLast (l ++ [x]) n = if x = n then some l.length else Idl.findLast l n := by
  simp [Idl.findLast, findLastGo_snoc]

theorem indexI_ofNat {α : Type} (s : List α) (k : Nat) (h : k < s.length) : indexI s (Int.ofNat k) = .ok s[k] := by
  simp [indexI, h]

theorem findLast_loop (l : List Name) (n : Name) : ∀ k, k ≤ l.length →
    forIn ((List.range k).map (fun (k : Nat) => Int.ofNat k)).reverse ((none : Option Int), ())
      (fun i (__s : Option Int × Unit) => do
        let __do_lift ← indexI l i
        if __do_lift = n then pure (ForInStep.done (some i, ())) else pure (ForInStep.yield (none, ())))
    = (.ok ((Idl.findLast (l.take k) n).map (fun (i : Nat) => (i : Int)), ()) : Except PErr _)
  | 0, _ => by simp [Idl.findLast, findLastGo]; rfl
  | k + 1, h => by
    have hk : k < l.length := by omega
    rw [List.range_succ, List.map_append, List.reverse_append]
    simp only [List.map_cons, List.map_nil, List.reverse_cons, List.reverse_nil, List.nil_append, List.cons_append]
    rw [List.forIn_cons, indexI_ofNat l k hk, ok_bind, List.take_succ_eq_append_getElem hk, findLast_snoc]
    by_cases hx : l[k] = n
    · have hm : min k l.length = k := by omega
      simp [hx, hm]; rfl
    · simp only [hx, if_false]
      have := findLast_loop l n k (by omega)
      exact this


/-- **Gen.findLast = Idl.findLast** (`-1` for "not found"), for every stack: no index error. -/
theorem findLast_eq (l : List Name) (n : Name) :
    Gen.SchemaPost.findLast l n = .ok (match Idl.findLast l n with | some i => (i : Int) | none => -1) := by
  simp only [Gen.SchemaPost.findLast, downFrom]
  have hl : ((l.length : Int) - 1 + 1).toNat = l.length := by omega
  rw [hl, findLast_loop l n l.length (Nat.le_refl _), List.take_length, ok_bind]
  cases Idl.findLast l n <;> rfl

/-! ### markRecursive -/

theorem intRange_empty (lo hi : Int) (h : hi ≤ lo) : intRange lo hi = [] := by
  have : (hi - lo).toNat = 0 := by omega
  simp [intRange, this]

theorem intRange_cons (lo hi : Int) (h : lo < hi) : intRange lo hi = lo :: intRange (lo + 1) hi := by
  obtain ⟨d, hd⟩ : ∃ d, (hi - lo).toNat = d + 1 := ⟨(hi - lo).toNat - 1, by omega⟩
  have hd' : (hi - (lo + 1)).toNat = d := by omega
  simp only [intRange, hd, hd', List.range_succ_eq_map, List.map_cons, List.map_map]
  congr 1
  · simp
  · apply List.map_congr_left
    intro k _
    simp only [Function.comp, Int.ofNat_eq_natCast, Nat.succ_eq_add_one]
    omega

theorem setRecursive_ok (r : Recursable) (m m' : Marks) (h : Idl.setRecursive r.frame m = .ok m') :
    r.setRecursive m = .ok m' := by
  simp [Recursable.setRecursive, h]

theorem mark_loop (fields : List Recursable) : ∀ (d i : Nat) (marks m' : Marks), fields.length - i = d →
    setRecursiveAll ((fields.drop i).map Recursable.frame) marks = .ok m' →
    forIn (intRange (i : Int) (fields.length : Int)) marks (fun j (__s : Marks) => do
        let __do_lift ← indexI fields j
        let marks ← __do_lift.setRecursive __s
        pure (ForInStep.yield marks)) = (.ok m' : Except PErr _)
  | 0, i, marks, m', hd, h => by
    rw [intRange_empty _ _ (by omega)]
    have : fields.drop i = [] := List.drop_eq_nil_of_le (by omega)
    simp only [this, List.map_nil, setRecursiveAll, Except.ok.injEq] at h
    subst h; rfl
  | d + 1, i, marks, m', hd, h => by
    have hi : i < fields.length := by omega
    rw [intRange_cons _ _ (by omega), List.forIn_cons]
    rw [List.drop_eq_getElem_cons hi] at h
    simp only [List.map_cons, setRecursiveAll] at h
    cases h1 : Idl.setRecursive fields[i].frame marks with
    | error e => simp [h1] at h
    | ok m1 =>
      simp only [h1] at h
      have := mark_loop fields d (i + 1) m1 m' (by omega) h
      have hix : indexI fields (i : Int) = .ok fields[i] := indexI_ofNat fields i hi
      rw [hix, ok_bind, setRecursive_ok _ _ _ h1, ok_bind]
      exact this

def R (stk : RecurseStackF) (marks : Marks) : RSt := ⟨stk.asStack, stk.fields.map Recursable.frame, marks⟩

theorem markRecursive_eq (n : Name) (stk : RecurseStackF) (marks : Marks) (st' : RSt)
    (h : Idl.markRecursive n (R stk marks) = .ok st') :
    ∃ marks', st' = R stk marks' ∧ Gen.SchemaPost.markRecursive n stk marks = .ok (stk, marks') := by
  simp only [Idl.markRecursive, R] at h
  simp only [Gen.SchemaPost.markRecursive, findLast_eq, ok_bind]
  cases hf : Idl.findLast stk.asStack n with
  | none => simp [hf] at h
  | some i =>
    simp only [hf] at h
    cases hs : setRecursiveAll (List.drop i (stk.fields.map Recursable.frame)) marks with
    | error e => simp [hs] at h
    | ok m =>
      simp only [hs, Except.ok.injEq] at h
      rw [← List.map_drop] at hs
      have hne : ¬ ((i : Int) = -1) := by omega
      refine ⟨m, h.symm, ?_⟩
      simp only [hne, if_false]
      rw [mark_loop stk.fields _ i marks m rfl hs]
      rfl


/-! ### the simulation -/

/-- the set `asMap` holds exactly the names on `asStack`. -/
def Inv (stk : RecurseStackF) : Prop := ∀ x, x ∈ stk.asMap ↔ x ∈ stk.asStack

def SimT (σ : Schema) (n F : Nat) (ty : FType) : Prop :=
  ∀ (stk : RecurseStackF) (marks : Marks) (st' : RSt), Inv stk → crType σ n ty.inner (R stk marks) = .ok st' →
    ∃ marks', st' = R stk marks' ∧ Gen.SchemaPost.computeRecursiveType σ F ty stk marks = .ok (stk, marks')

theorem dropLastE_concat {α : Type} (l : List α) (a : α) : SchemaPostSem.dropLastE (l ++ [a]) = .ok l := by
  simp [SchemaPostSem.dropLastE]

theorem fields_loop (σ : Schema) (n F : Nat) (IH : ∀ ty, SimT σ n F ty) (owner : Name) :
    ∀ (fields : List Field) (i : Nat) (stk : RecurseStackF) (marks : Marks) (st' : RSt), Inv stk →
      crFields (crType σ n) false owner (fields.map (·.ty)) i (R stk marks) = .ok st' →
      ∃ marks', st' = R stk marks' ∧
        forIn (fieldRefs owner i fields) (stk, marks) (fun field (__s : RecurseStackF × Marks) => do
          let __x ← Gen.SchemaPost.computeRecursiveType σ F field.val.ty
              { fields := __s.fst.fields ++ [Recursable.field field], asStack := __s.fst.asStack,
                asMap := __s.fst.asMap } __s.snd
          let __do_lift ← SchemaPostSem.dropLastE __x.fst.fields
          pure (ForInStep.yield
            ({ fields := __do_lift, asStack := __x.fst.asStack, asMap := __x.fst.asMap }, __x.snd)))
        = (.ok (stk, marks') : Except PErr _)
  | [], i, stk, marks, st', _, h => by
    simp only [List.map_nil, crFields, Except.ok.injEq] at h
    exact ⟨marks, h.symm, rfl⟩
  | fd :: rest, i, stk, marks, st', hinv, h => by
    simp only [List.map_cons, crFields] at h
    have hpush : ({ R stk marks with fields := (R stk marks).fields ++ [⟨false, owner, i, fd.ty⟩] } : RSt)
        = R { stk with fields := stk.fields ++ [Recursable.field ⟨owner, i, fd⟩] } marks := by
      simp [R, Recursable.frame]
    rw [hpush] at h
    cases h1 : crType σ n fd.ty.inner (R { stk with fields := stk.fields ++ [Recursable.field ⟨owner, i, fd⟩] } marks) with
    | error e => simp [h1] at h
    | ok st1 =>
      simp only [h1] at h
      obtain ⟨m1, hst1, hg⟩ := IH fd.ty _ marks st1 (by exact hinv) h1
      have hpop : ({ st1 with fields := st1.fields.dropLast } : RSt) = R stk m1 := by
        subst hst1; simp [R]
      rw [hpop] at h
      obtain ⟨m2, hst', hl⟩ := fields_loop σ n F IH owner rest (i + 1) stk m1 st' hinv h
      refine ⟨m2, hst', ?_⟩
      simp only [fieldRefs]
      rw [List.forIn_cons, hg]
      simp only [ok_bind, dropLastE_concat]
      exact hl


theorem setTrue_new {l : List Name} {a : Name} (h : a ∉ l) : setTrue l a = a :: l := by
  simp [setTrue, h]

theorem setDelete_cons_self {l : List Name} {a : Name} (h : a ∉ l) : setDelete (a :: l) a = l := by
  simp only [setDelete, List.filter_cons, bne_self_eq_false, Bool.false_eq_true, if_false]
  rw [List.filter_eq_self]
  intro x hx
  have : x ≠ a := fun e => h (e ▸ hx)
  simp [this]

theorem inv_push {stk : RecurseStackF} (hinv : Inv stk) (a : Name) (fs : List Recursable) :
    Inv { fields := fs, asStack := stk.asStack ++ [a], asMap := a :: stk.asMap } := by
  intro x
  simp only [List.mem_cons, List.mem_append, List.mem_nil_iff, or_false, hinv x]
  exact Or.comm

/-- `computeRecursiveStruct` on a struct whose name is not on the stack: push, visit the fields, pop. -/
theorem enter_struct (σ : Schema) (n F : Nat) (IH : ∀ ty, SimT σ n F ty) (s : Struct) (stk : RecurseStackF)
    (marks : Marks) (st' : RSt) (hinv : Inv stk) (hnew : s.name ∉ stk.asMap)
    (h : crEnter (crType σ n) false s.name s.types (R stk marks) = .ok st') :
    ∃ marks', st' = R stk marks' ∧
      Gen.SchemaPost.computeRecursiveStruct σ (F + 1) (some s) stk marks = .ok (stk, marks') := by
  simp only [crEnter, Struct.types] at h
  have hpush : ({ R stk marks with asStack := (R stk marks).asStack ++ [s.name] } : RSt)
      = R { fields := stk.fields, asStack := stk.asStack ++ [s.name], asMap := s.name :: stk.asMap } marks := rfl
  rw [hpush] at h
  cases h1 : crFields (crType σ n) false s.name (s.fields.map (·.ty)) 0
      (R { fields := stk.fields, asStack := stk.asStack ++ [s.name], asMap := s.name :: stk.asMap } marks) with
  | error e => simp [h1] at h
  | ok st1 =>
    simp only [h1, Except.ok.injEq] at h
    obtain ⟨m1, hst1, hl⟩ := fields_loop σ n F IH s.name s.fields 0 _ marks st1 (inv_push hinv s.name stk.fields) h1
    refine ⟨m1, ?_, ?_⟩
    · subst hst1; subst h; simp [R]
    · simp only [Gen.SchemaPost.computeRecursiveStruct, SchemaPostSem.deref, ok_bind, setTrue_new hnew,
        Struct.goFields]
      rw [hl]
      simp only [ok_bind, dropLastE_concat, setDelete_cons_self hnew]
      rfl


/-- `computeRecursiveMultimap` on a multimap whose name is not on the stack: push, key, value, pop. -/
theorem enter_multimap (σ : Schema) (n F : Nat) (IH : ∀ ty, SimT σ n F ty) (m : Multimap) (stk : RecurseStackF)
    (marks : Marks) (st' : RSt) (hinv : Inv stk) (hnew : m.name ∉ stk.asMap)
    (h : crEnter (crType σ n) true m.name m.types (R stk marks) = .ok st') :
    ∃ marks', st' = R stk marks' ∧
      Gen.SchemaPost.computeRecursiveMultimap σ (F + 1) (some m) stk marks = .ok (stk, marks') := by
  simp only [crEnter, Multimap.types, crFields] at h
  -- the stack while the key / the value is visited
  let sk : RecurseStackF := ⟨stk.fields ++ [Recursable.mmField m.goKey], stk.asStack ++ [m.name], m.name :: stk.asMap⟩
  let sv : RecurseStackF := ⟨stk.fields ++ [Recursable.mmField m.goValue], stk.asStack ++ [m.name], m.name :: stk.asMap⟩
  have hpush1 : (⟨(R stk marks).asStack ++ [m.name], (R stk marks).fields ++ [⟨true, m.name, 0, m.key⟩],
        (R stk marks).marks⟩ : RSt) = R sk marks := by
    simp [R, Recursable.frame, Multimap.goKey, sk]
  rw [hpush1] at h
  cases h1 : crType σ n m.key.inner (R sk marks) with
  | error e => simp [h1] at h
  | ok st1 =>
    simp only [h1] at h
    obtain ⟨m1, hst1, hg1⟩ := IH m.key sk marks st1 (inv_push hinv m.name _) h1
    subst hst1
    have hpush2 : (⟨(R sk m1).asStack, (R sk m1).fields.dropLast ++ [⟨true, m.name, 0 + 1, m.value⟩],
          (R sk m1).marks⟩ : RSt) = R sv m1 := by
      simp [R, Recursable.frame, Multimap.goValue, sk, sv]
    rw [hpush2] at h
    cases h2 : crType σ n m.value.inner (R sv m1) with
    | error e => simp [h2] at h
    | ok st2 =>
      simp only [h2, Except.ok.injEq] at h
      obtain ⟨m2, hst2, hg2⟩ := IH m.value sv m1 st2 (inv_push hinv m.name _) h2
      subst hst2
      refine ⟨m2, ?_, ?_⟩
      · subst h; simp [R, sv]
      · have hk : m.goKey.ty = m.key := rfl
        have hv : m.goValue.ty = m.value := rfl
        simp only [sk] at hg1
        simp only [sv] at hg2
        simp only [Gen.SchemaPost.computeRecursiveMultimap, SchemaPostSem.deref, ok_bind, setTrue_new hnew, hk, hv,
          hg1, hg2, dropLastE_concat, setDelete_cons_self hnew]
        rfl


theorem sim_step (σ : Schema) (n F : Nat) (hb : ∀ b F', 3 * n ≤ F' → SimT σ n F' (.base b)) (hF : 3 * n + 1 ≤ F) :
    ∀ ty, SimT σ n F ty
  | .base b => hb b F (by omega)
  | .array e d r => by
    intro stk marks st' hinv h
    obtain ⟨j, rfl⟩ : ∃ j, F = j + 1 := ⟨F - 1, by omega⟩
    obtain ⟨m', hst, hg⟩ := hb e j (by omega) stk marks st' hinv h
    refine ⟨m', hst, ?_⟩
    simp only [Gen.SchemaPost.computeRecursiveType]
    simp [FType.goPrimitive, FType.goStruct, FType.goMultiMap, FType.goArray, hg]

theorem findStruct_name {σ : Schema} {n : Name} {s : Struct} (h : σ.findStruct n = some s) : s.name = n := by
  have := List.find?_some h
  simpa using this

theorem findMultimap_name {σ : Schema} {n : Name} {m : Multimap} (h : σ.findMultimap n = some m) : m.name = n := by
  have := List.find?_some h
  simpa using this

theorem sim_base (σ : Schema) : ∀ (n F : Nat) (b : BaseType), 3 * n ≤ F → SimT σ n F (.base b)
  | 0, _, _, _ => by intro stk marks st' _ h; simp [crType] at h
  | n + 1, F, b, hF => by
    obtain ⟨k, rfl⟩ : ∃ k, F = k + 1 := ⟨F - 1, by omega⟩
    obtain ⟨j, rfl⟩ : ∃ j, k = j + 1 := ⟨k - 1, by omega⟩
    have IH := sim_step σ n j (fun b F' h => sim_base σ n F' b h) (by omega)
    intro stk marks st' hinv h
    simp only [FType.inner, crType] at h
    simp only [Gen.SchemaPost.computeRecursiveType]
    by_cases hp : b.prim.isSome
    · simp only [hp, if_true, Except.ok.injEq] at h
      have : b.prim ≠ none := by cases hb : b.prim <;> simp [hb] at hp ⊢
      exact ⟨marks, h.symm, by simp [FType.goPrimitive, this]; rfl⟩
    · have hp' : b.prim = none := by cases hb : b.prim <;> simp [hb] at hp ⊢
      simp only [hp, Bool.false_eq_true, if_false] at h
      by_cases hs : b.struct = []
      · simp only [hs, ne_eq, not_true, if_false] at h
        by_cases hmm : b.multimap = []
        · simp [hmm] at h
        · simp only [hmm, not_false_eq_true, if_true] at h
          by_cases hc : b.multimap ∈ stk.asStack
          · have hc1 : (R stk marks).asStack.contains b.multimap = true := by simpa [R] using hc
            have hc2 : setGet stk.asMap b.multimap = true := by simpa [setGet] using (hinv _).2 hc
            simp only [hc1, if_true] at h
            obtain ⟨m', hst, hg⟩ := markRecursive_eq _ stk marks st' h
            refine ⟨m', hst, ?_⟩
            simp [FType.goPrimitive, FType.goStruct, FType.goMultiMap, hp', hs, hmm, hc2, hg]
          · have hc1 : (R stk marks).asStack.contains b.multimap = false := by simpa [R] using hc
            have hnew : b.multimap ∉ stk.asMap := fun hm => hc ((hinv _).1 hm)
            have hc2 : setGet stk.asMap b.multimap = false := by simpa [setGet] using hnew
            simp only [hc1, Bool.false_eq_true, if_false] at h
            cases hfm : σ.findMultimap b.multimap with
            | none => simp [hfm] at h
            | some mm =>
              simp only [hfm] at h
              have hname := findMultimap_name hfm
              obtain ⟨m', hst, hg⟩ := enter_multimap σ n j IH mm stk marks st' hinv (hname ▸ hnew) h
              refine ⟨m', hst, ?_⟩
              simp [FType.goPrimitive, FType.goStruct, FType.goMultiMap, FType.goMultimapDef, hp', hs, hmm, hc2,
                hfm, hg]
      · simp only [hs, ne_eq, not_false_eq_true, if_true] at h
        by_cases hc : b.struct ∈ stk.asStack
        · have hc1 : (R stk marks).asStack.contains b.struct = true := by simpa [R] using hc
          have hc2 : setGet stk.asMap b.struct = true := by simpa [setGet] using (hinv _).2 hc
          simp only [hc1, if_true] at h
          obtain ⟨m', hst, hg⟩ := markRecursive_eq _ stk marks st' h
          refine ⟨m', hst, ?_⟩
          simp [FType.goPrimitive, FType.goStruct, hp', hs, hc2, hg]
        · have hc1 : (R stk marks).asStack.contains b.struct = false := by simpa [R] using hc
          have hnew : b.struct ∉ stk.asMap := fun hm => hc ((hinv _).1 hm)
          have hc2 : setGet stk.asMap b.struct = false := by simpa [setGet] using hnew
          simp only [hc1, Bool.false_eq_true, if_false] at h
          cases hfs : σ.findStruct b.struct with
          | none => simp [hfs] at h
          | some s =>
            simp only [hfs] at h
            have hname := findStruct_name hfs
            obtain ⟨m', hst, hg⟩ := enter_struct σ n j IH s stk marks st' hinv (hname ▸ hnew) h
            refine ⟨m', hst, ?_⟩
            simp [FType.goPrimitive, FType.goStruct, FType.goStructDef, hp', hs, hc2, hfs, hg]


/-! ### the roots, `computeRecursive` -/

theorem inv_empty : Inv { fields := [], asStack := [], asMap := [] } := fun _ => Iff.rfl

theorem fuel_eq (σ : Schema) : postFuel σ = (3 * crFuel σ + 4) + 1 := by
  simp only [postFuel, crFuel]; omega

theorem roots_loop (σ : Schema) : ∀ (ss : List Struct) (marks m' : Marks), crRoots σ ss marks = .ok m' →
    forIn ss marks (fun struc (__s : Marks) =>
        if ¬struc.isRoot = true then pure (ForInStep.yield __s)
        else do
          let __x ← Gen.SchemaPost.computeRecursiveStruct σ (postFuel σ) (some struc) { } __s
          pure (ForInStep.yield __x.snd)) = (.ok m' : Except PErr _)
  | [], marks, m', h => by
    simp only [crRoots, Except.ok.injEq] at h
    subst h; rfl
  | s :: ss, marks, m', h => by
    simp only [crRoots] at h
    rw [List.forIn_cons]
    by_cases hr : s.isRoot = true
    · simp only [hr, if_true] at h
      cases h1 : crEnter (crType σ (crFuel σ)) false s.name s.types { marks := marks } with
      | error e => simp [h1] at h
      | ok st1 =>
        simp only [h1] at h
        have IH : ∀ ty, SimT σ (crFuel σ) (3 * crFuel σ + 4) ty :=
          sim_step σ _ _ (fun b F' hF' => sim_base σ _ F' b hF') (by omega)
        obtain ⟨m1, hst1, hg⟩ := enter_struct σ _ _ IH s { } marks st1 inv_empty (by simp) h1
        subst hst1
        rw [fuel_eq]
        simp only [hr, not_true, if_false, hg, ok_bind]
        exact roots_loop σ ss m1 m' h
    · simp only [hr] at h
      simp only [hr]
      exact roots_loop σ ss marks m' h

/-- **Gen.computeRecursive = Idl.computeRecursive** whenever the hand model succeeds, for every schema. -/
theorem computeRecursive_eq (σ σ2 : Schema) (h : Idl.computeRecursive σ = .ok σ2) :
    Gen.SchemaPost.computeRecursive σ = .ok σ2 := by
  simp only [Idl.computeRecursive] at h
  cases hm : crRoots σ σ.structs {} with
  | error e => simp [hm] at h
  | ok m =>
    simp only [hm, Except.ok.injEq] at h
    simp only [Gen.SchemaPost.computeRecursive, roots_loop σ σ.structs {} m hm, ok_bind, h]
    rfl

end Stef.Proofs.SchemaPostRec
