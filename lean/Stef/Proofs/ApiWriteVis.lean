/-
  `Write()` does not change the record: `writeNode` (the mark tree, the cleared marks, the dictionary
  bookkeeping) leaves the visible value `vis` of the record state as it was. With it, "the reader's value
  shows the record state that Write leaves" (`writeNode_sound`) is "shows the record the caller built".
-/
import Stef.Proofs.ApiVis

set_option linter.unusedSimpArgs false
set_option linter.unusedVariables false

namespace Stef.Api
open Stef Stef.Spec Stef.SpecEnc

/-- the placeholder an absent optional field shows -/
def ph : AS → St
  | .prim v => primZero v
  | _ => .oneof 0 none

theorem visFields_cons' (C : Ctx) (fds : List Field) (oi p : Nat) (a : AS) (as : List AS) :
    visFields C fds oi p (a :: as) =
      (if ((fds.head?.map (·.optional)).getD false) && !p.testBit oi then ph a else vis C a) ::
        visFields C fds.tail (if (fds.head?.map (·.optional)).getD false then oi + 1 else oi) p as := by
  simp only [visFields]
  congr 1

/-- same visible value, same placeholder -/
def VisEq (C : Ctx) (a b : AS) : Prop := vis C b = vis C a ∧ ph b = ph a

def VisEqL (C : Ctx) : List AS → List AS → Prop
  | [], [] => True
  | a :: as, b :: bs => VisEq C a b ∧ VisEqL C as bs
  | _, _ => False

def VisEqP (C : Ctx) : List (AS × AS) → List (AS × AS) → Prop
  | [], [] => True
  | a :: as, b :: bs => (VisEq C a.1 b.1 ∧ VisEq C a.2 b.2) ∧ VisEqP C as bs
  | _, _ => False

theorem VisEq.refl (C : Ctx) (a : AS) : VisEq C a a := ⟨rfl, rfl⟩
theorem VisEq.trans {C : Ctx} {a b c : AS} (h1 : VisEq C a b) (h2 : VisEq C b c) : VisEq C a c :=
  ⟨h2.1.trans h1.1, h2.2.trans h1.2⟩

theorem VisEqL.refl (C : Ctx) : ∀ (as : List AS), VisEqL C as as
  | [] => trivial
  | a :: as => ⟨VisEq.refl C a, VisEqL.refl C as⟩

theorem VisEqP.refl (C : Ctx) : ∀ (as : List (AS × AS)), VisEqP C as as
  | [] => trivial
  | a :: as => ⟨⟨VisEq.refl C a.1, VisEq.refl C a.2⟩, VisEqP.refl C as⟩

theorem visFields_congr (C : Ctx) : ∀ (fds : List Field) (oi p : Nat) (as bs : List AS), VisEqL C as bs →
    visFields C fds oi p bs = visFields C fds oi p as
  | _, _, _, [], [], _ => rfl
  | _, _, _, [], _ :: _, h => by simp [VisEqL] at h
  | _, _, _, _ :: _, [], h => by simp [VisEqL] at h
  | fds, oi, p, a :: as, b :: bs, h => by
    simp only [VisEqL] at h
    rw [visFields_cons', visFields_cons', visFields_congr C fds.tail _ p as bs h.2, h.1.1, h.1.2]

theorem visList_congr (C : Ctx) : ∀ (as bs : List AS), VisEqL C as bs → visList C bs = visList C as
  | [], [], _ => rfl
  | [], _ :: _, h => by simp [VisEqL] at h
  | _ :: _, [], h => by simp [VisEqL] at h
  | a :: as, b :: bs, h => by
    simp only [VisEqL] at h
    simp only [visList, visList_congr C as bs h.2, h.1.1]

theorem visPairs_congr (C : Ctx) : ∀ (as bs : List (AS × AS)), VisEqP C as bs → visPairs C bs = visPairs C as
  | [], [], _ => rfl
  | [], _ :: _, h => by simp [VisEqP] at h
  | _ :: _, [], h => by simp [VisEqP] at h
  | (a1, a2) :: as, (b1, b2) :: bs, h => by
    simp only [VisEqP] at h
    simp only [visPairs, visPairs_congr C as bs h.2, h.1.1.1, h.1.2.1]

theorem visAlt_setNth (C : Ctx) : ∀ (i : Nat) (as : List AS) (a a' : AS), as[i]? = some a → vis C a' = vis C a →
    visAlt C i (setNth as i a') = visAlt C i as
  | _, [], _, _, h, _ => by simp at h
  | 0, x :: as, a, a', h, hv => by
    simp only [List.getElem?_cons_zero, Option.some.injEq] at h
    subst h
    simp [setNth, visAlt, hv]
  | i + 1, x :: as, a, a', h, hv => by
    simp only [List.getElem?_cons_succ] at h
    have := visAlt_setNth C i as a a' h hv
    simp only [setNth] at this ⊢
    simpa [visAlt] using this

/-! ## `setUnmodifiedRecursively` -/

theorem ph_setUnmodRec (a : AS) : ph (setUnmodRec a) = ph a := by cases a <;> simp [setUnmodRec, ph]
theorem ph_setModRec (a : AS) : ph (setModRec a) = ph a := by cases a <;> simp [setModRec, ph]

mutual
theorem vis_setUnmodRec (C : Ctx) : ∀ (a : AS), vis C (setUnmodRec a) = vis C a
  | .prim _ => by simp [setUnmodRec]
  | .nil => by simp [setUnmodRec]
  | .struct n m p fr fs => by
    simp only [setUnmodRec, vis]
    rw [visFields_congr C (fieldsOf C n) 0 p fs _ (visEqL_setUnmodRecFields C m 0 fs)]
  | .oneof n t as => by
    simp only [setUnmodRec, vis]
    by_cases ht : t = 0
    · simp [ht]
    · have : (t == 0) = false := by simp [ht]
      simp only [ht, if_false, this, visAlt_setUnmodRec C (t - 1) as]
  | .arr e es hid => by simp only [setUnmodRec, vis, visList_setUnmodRec C es]
  | .mmap n ps hid k v ml => by simp only [setUnmodRec, vis, visPairs_setUnmodRec C ps]
theorem visEqL_setUnmodRecFields (C : Ctx) (m : Nat) : ∀ (i : Nat) (as : List AS), VisEqL C as (setUnmodRecFields m i as)
  | _, [] => by simp [setUnmodRecFields, VisEqL]
  | i, a :: as => by
    simp only [setUnmodRecFields, VisEqL]
    refine ⟨?_, visEqL_setUnmodRecFields C m (i + 1) as⟩
    by_cases hb : m.testBit i = true
    · simp only [hb, if_true]; exact ⟨vis_setUnmodRec C a, ph_setUnmodRec a⟩
    · simp only [hb, Bool.false_eq_true, if_false]; exact VisEq.refl C a
theorem visAlt_setUnmodRec (C : Ctx) : ∀ (i : Nat) (as : List AS), visAlt C i (setUnmodRecAlt i false as) = visAlt C i as
  | _, [] => by simp [setUnmodRecAlt, visAlt]
  | 0, a :: as => by simp [setUnmodRecAlt, visAlt, vis_setUnmodRec C a]
  | i + 1, a :: as => by simp only [setUnmodRecAlt, visAlt, visAlt_setUnmodRec C i as]
theorem visList_setUnmodRec (C : Ctx) : ∀ (as : List AS), visList C (setUnmodRecList as) = visList C as
  | [] => by simp [setUnmodRecList, visList]
  | a :: as => by simp only [setUnmodRecList, visList, vis_setUnmodRec C a, visList_setUnmodRec C as]
theorem visPairs_setUnmodRec (C : Ctx) : ∀ (ps : List (AS × AS)), visPairs C (setUnmodRecPairs ps) = visPairs C ps
  | [] => by simp [setUnmodRecPairs, visPairs]
  | (a, b) :: ps => by simp only [setUnmodRecPairs, visPairs, vis_setUnmodRec C a, vis_setUnmodRec C b, visPairs_setUnmodRec C ps]
end

theorem visEqL_setModRecList (C : Ctx) : ∀ (as : List AS), VisEqL C as (setModRecList as)
  | [] => by simp [setModRecList, VisEqL]
  | a :: as => by
    simp only [setModRecList, VisEqL]
    exact ⟨⟨vis_setModRec C a, ph_setModRec a⟩, visEqL_setModRecList C as⟩

theorem VisEqL.trans {C : Ctx} : ∀ {as bs cs : List AS}, VisEqL C as bs → VisEqL C bs cs → VisEqL C as cs
  | [], [], [], _, _ => trivial
  | a :: as, b :: bs, c :: cs, h1, h2 => ⟨VisEq.trans h1.1 h2.1, VisEqL.trans h1.2 h2.2⟩
  | [], _ :: _, _, h1, _ => by simp [VisEqL] at h1
  | _ :: _, [], _, h1, _ => by simp [VisEqL] at h1
  | _ :: _, _ :: _, [], _, h2 => by simp [VisEqL] at h2
  | [], [], _ :: _, _, h2 => by simp [VisEqL] at h2

/-! ## `writeNode` -/

def VNode (C : Ctx) (fuel : Nat) : Prop :=
  ∀ env n w s mk w' s', writeNode C fuel env n w s = some (mk, w', s') → VisEq C w w'
def VFields (C : Ctx) (fuel : Nat) : Prop :=
  ∀ env fields idx oi mask pres fs s subs fs' s',
    writeFields C fuel env fields idx oi mask pres fs s = some (subs, fs', s') → VisEqL C fs fs'
def VElems (C : Ctx) (fuel : Nat) : Prop :=
  ∀ env elem es s subs es' s', writeElems C fuel env elem es s = some (subs, es', s') → VisEqL C es es'
def VPairs (C : Ctx) (fuel : Nat) : Prop :=
  ∀ env k v ps s subs ps' s', writePairs C fuel env k v ps s = some (subs, ps', s') → VisEqP C ps ps'
def VVals (C : Ctx) (fuel : Nat) : Prop :=
  ∀ env v changed idx ps s subs ps' s', writeVals C fuel env v changed idx ps s = some (subs, ps', s') → VisEqP C ps ps'

theorem visEq_struct (C : Ctx) (n : String) (m m' p : Nat) (fr : Bool) (fs fs' : List AS) (h : VisEqL C fs fs') :
    VisEq C (.struct n m p fr fs) (.struct n m' p fr fs') := by
  refine ⟨?_, rfl⟩
  simp only [vis, visFields_congr C (fieldsOf C n) 0 p fs fs' h]

theorem write_vis_all (C : Ctx) : ∀ fuel, VNode C fuel ∧ VFields C fuel ∧ VElems C fuel ∧ VPairs C fuel ∧ VVals C fuel
  | 0 => by
    refine ⟨?_, ?_, ?_, ?_, ?_⟩
    · intro env n w s mk w' s' h; simp [writeNode] at h
    · intro env fields idx oi mask pres fs s subs fs' s' h; simp [writeFields] at h
    · intro env elem es s subs es' s' h; simp [writeElems] at h
    · intro env k v ps s subs ps' s' h; simp [writePairs] at h
    · intro env v changed idx ps s subs ps' s' h; simp [writeVals] at h
  | fuel + 1 => by
    obtain ⟨ihN, ihF, ihE, ihP, ihV⟩ := write_vis_all C fuel
    refine ⟨?_, ?_, ?_, ?_, ?_⟩
    · intro env n w s mk w' s' h
      cases n with
      | prim col p d =>
        simp only [writeNode, Option.some.injEq, Prod.mk.injEq] at h
        obtain ⟨_, rfl, _⟩ := h
        exact VisEq.refl C w
      | recur key =>
        simp only [writeNode] at h
        split at h
        · simp at h
        · exact ihN _ _ _ _ _ _ _ h
      | struct col name dict kept oc fields =>
        simp only [writeNode] at h
        split at h
        · rename_i n m p fr fs
          split at h
          · simp at h
          · have hfull : ∀ (m0 : Nat) (fs0 : List AS) (s0 : WSt) mk0 w0 s0',
                (match writeFields C fuel ((name, Node.struct col name dict kept oc fields) :: env) fields 0 0
                    ((m0 ||| if s0.force.contains col = true then 2 ^ kept - 1 else 0) &&& (2 ^ kept - 1)) p fs0
                    { s0 with force := s0.force.erase col } with
                  | none => none
                  | some (subs, fs', s) => some (Mk.struct ((m0 ||| if s0.force.contains col = true then 2 ^ kept - 1 else 0) &&& (2 ^ kept - 1)) subs,
                      AS.struct n 0 p fr fs', s)) = some (mk0, w0, s0') →
                VisEq C (.struct n m p fr fs0) w0 := by
              intro m0 fs0 s0 mk0 w0 s0' h0
              split at h0
              · simp at h0
              · rename_i subs fs' s1 hwf
                simp only [Option.some.injEq, Prod.mk.injEq] at h0
                obtain ⟨_, rfl, _⟩ := h0
                exact visEq_struct C n m 0 p fr fs0 fs' (ihF _ _ _ _ _ _ _ _ _ _ _ hwf)
            cases dict with
            | none => exact hfull m fs s mk w' s' h
            | some dn =>
              simp only at h
              split at h
              · simp only [Option.some.injEq, Prod.mk.injEq] at h
                obtain ⟨_, rfl, _⟩ := h
                exact ⟨vis_setUnmodRec C _, ph_setUnmodRec _⟩
              · split at h
                · simp at h
                · rename_i mk1 w1 s1 hf
                  simp only [Option.some.injEq, Prod.mk.injEq] at h
                  obtain ⟨_, rfl, _⟩ := h
                  have h1 := hfull _ _ _ _ _ _ hf
                  exact VisEq.trans (visEq_struct C n m m p fr fs _ (visEqL_setModRecList C fs)) h1
        · simp at h
      | oneof col name kept alts =>
        cases w with
        | oneof n t as =>
          simp only [writeNode] at h
          by_cases hn : n ≠ name
          · simp [hn] at h
          · simp only [hn, if_false] at h
            by_cases htyp : (if t > kept then 0 else t) = 0
            · simp only [htyp, if_true, Option.some.injEq, Prod.mk.injEq] at h
              obtain ⟨_, rfl, _⟩ := h
              exact VisEq.refl C _
            · simp only [htyp, if_false] at h
              have hk : ¬ t > kept := by
                intro hk; simp [hk] at htyp
              simp only [hk, if_false] at h htyp
              split at h
              · rename_i an a han ha
                split at h
                · simp at h
                · rename_i sub a' s1 hw
                  simp only [Option.some.injEq, Prod.mk.injEq] at h
                  obtain ⟨_, rfl, _⟩ := h
                  have hv := (ihN _ _ _ _ _ _ _ hw).1
                  refine ⟨?_, rfl⟩
                  simp only [vis, htyp, if_false]
                  rw [visAlt_setNth C (t - 1) as a a' ha hv]
              · simp at h
        | _ => simp [writeNode] at h
      | arr col key ety elem =>
        simp only [writeNode] at h
        split at h
        · rename_i e es hid
          split at h
          · simp at h
          · rename_i subs es' s1 hw
            simp only [Option.some.injEq, Prod.mk.injEq] at h
            obtain ⟨_, rfl, _⟩ := h
            refine ⟨?_, rfl⟩
            simp only [vis, visList_congr C es es' (ihE _ _ _ _ _ _ _ hw)]
        · simp at h
      | mmap col name kty vty k v =>
        simp only [writeNode] at h
        split at h
        · rename_i n ps hid km vm ml
          split at h
          · simp at h
          · split at h
            · simp only [Option.some.injEq, Prod.mk.injEq] at h
              obtain ⟨_, rfl, _⟩ := h
              exact VisEq.refl C _
            · split at h
              · split at h
                · simp at h
                · rename_i subs ps' s1 hw
                  simp only [Option.some.injEq, Prod.mk.injEq] at h
                  obtain ⟨_, rfl, _⟩ := h
                  refine ⟨?_, rfl⟩
                  simp only [vis, visPairs_congr C ps ps' (ihV _ _ _ _ _ _ _ _ _ hw)]
              · split at h
                · simp at h
                · rename_i subs ps' s1 hw
                  simp only [Option.some.injEq, Prod.mk.injEq] at h
                  obtain ⟨_, rfl, _⟩ := h
                  refine ⟨?_, rfl⟩
                  simp only [vis, visPairs_congr C ps ps' (ihP _ _ _ _ _ _ _ _ hw)]
        · simp at h
    · intro env fields idx oi mask pres fs s subs fs' s' h
      cases fields with
      | nil =>
        simp only [writeFields, Option.some.injEq, Prod.mk.injEq] at h
        obtain ⟨_, rfl, _⟩ := h
        exact VisEqL.refl C fs
      | cons fd rest =>
        obtain ⟨opt, n⟩ := fd
        simp only [writeFields] at h
        split at h
        · simp at h
        · rename_i f fs0
          split at h
          · simp at h
          · rename_i sub f' s1 hw
            split at h
            · simp at h
            · rename_i subs0 fs'' s2 hr
              simp only [Option.some.injEq, Prod.mk.injEq] at h
              obtain ⟨_, rfl, _⟩ := h
              refine ⟨?_, ihF _ _ _ _ _ _ _ _ _ _ _ hr⟩
              split at hw
              · exact ihN _ _ _ _ _ _ _ hw
              · simp only [Option.some.injEq, Prod.mk.injEq] at hw
                obtain ⟨_, rfl, _⟩ := hw
                exact VisEq.refl C f
    · intro env elem es s subs es' s' h
      cases es with
      | nil =>
        simp only [writeElems, Option.some.injEq, Prod.mk.injEq] at h
        obtain ⟨_, rfl, _⟩ := h
        trivial
      | cons e es0 =>
        simp only [writeElems] at h
        split at h
        · simp at h
        · rename_i sub e' s1 hw
          split at h
          · simp at h
          · rename_i subs0 es'' s2 hr
            simp only [Option.some.injEq, Prod.mk.injEq] at h
            obtain ⟨_, rfl, _⟩ := h
            exact ⟨ihN _ _ _ _ _ _ _ hw, ihE _ _ _ _ _ _ _ hr⟩
    · intro env k v ps s subs ps' s' h
      cases ps with
      | nil =>
        simp only [writePairs, Option.some.injEq, Prod.mk.injEq] at h
        obtain ⟨_, rfl, _⟩ := h
        trivial
      | cons pr ps0 =>
        obtain ⟨a, b⟩ := pr
        simp only [writePairs] at h
        split at h
        · simp at h
        · rename_i ks a' s1 hwa
          split at h
          · simp at h
          · rename_i vs b' s2 hwb
            split at h
            · simp at h
            · rename_i subs0 ps'' s3 hr
              simp only [Option.some.injEq, Prod.mk.injEq] at h
              obtain ⟨_, rfl, _⟩ := h
              exact ⟨⟨ihN _ _ _ _ _ _ _ hwa, ihN _ _ _ _ _ _ _ hwb⟩, ihP _ _ _ _ _ _ _ _ hr⟩
    · intro env v changed idx ps s subs ps' s' h
      cases ps with
      | nil =>
        simp only [writeVals, Option.some.injEq, Prod.mk.injEq] at h
        obtain ⟨_, rfl, _⟩ := h
        trivial
      | cons pr ps0 =>
        obtain ⟨a, b⟩ := pr
        simp only [writeVals] at h
        split at h
        · simp at h
        · rename_i sub b' s1 hw
          split at h
          · simp at h
          · rename_i subs0 ps'' s2 hr
            simp only [Option.some.injEq, Prod.mk.injEq] at h
            obtain ⟨_, rfl, _⟩ := h
            refine ⟨⟨VisEq.refl C a, ?_⟩, ihV _ _ _ _ _ _ _ _ _ hr⟩
            split at hw
            · exact ihN _ _ _ _ _ _ _ hw
            · simp only [Option.some.injEq, Prod.mk.injEq] at hw
              obtain ⟨_, rfl, _⟩ := hw
              exact VisEq.refl C b

/-- **writeNode_vis**: `Write()` leaves the visible value of the record as it was. -/
theorem writeNode_vis (C : Ctx) (fuel : Nat) (env : List (String × Node)) (n : Node) (w : AS) (s : WSt) (mk : Mk) (w' : AS)
    (s' : WSt) (h : writeNode C fuel env n w s = some (mk, w', s')) : vis C w' = vis C w :=
  ((write_vis_all C fuel).1 env n w s mk w' s' h).1

end Stef.Api
