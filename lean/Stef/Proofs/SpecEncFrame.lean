/-
  The encoder does not depend on the input side of the state (`bits`, `bytes`, `size` of the
  columns): `encodeNode` commutes with replacing those fields (`withInputs`). This is the frame
  rule in its strong form and what lets the round trip be lifted from the event list to frames,
  where every column's input is REPLACED by the frame's data for that column.
-/
import Stef.Proofs.SpecEncNode
import Stef.Proofs.SpecEncInv

namespace Stef.SpecEnc
open Stef Stef.Spec

theorem size_withInputs (inp : Nat → Bits × Bytes × Nat) (ds : DS) : (withInputs inp ds).cols.size = ds.cols.size := by
  simp [withInputs]

theorem aux_withInputs (inp : Nat → Bits × Bytes × Nat) (ds : DS) : (withInputs inp ds).aux = ds.aux := rfl

theorem col_withInputs (inp : Nat → Bits × Bytes × Nat) (ds : DS) (i : Nat) (h : i < ds.cols.size) :
    (withInputs inp ds).col i = { ds.col i with bits := (inp i).1, bytes := (inp i).2.1, size := (inp i).2.2 } := by
  simp [withInputs, DS.col, Array.getD_eq_getD_getElem?, h]

theorem codecOf_col_withInputs (inp : Nat → Bits × Bytes × Nat) (ds : DS) (i : Nat) :
    codecOf ((withInputs inp ds).col i) = codecOf (ds.col i) := by
  by_cases h : i < ds.cols.size
  · rw [col_withInputs _ _ _ h]; rfl
  · simp [withInputs, DS.col, Array.getD_eq_getD_getElem?, h]

/-- codec-field updates commute with `withInputs` -/
theorem withInputs_modCol (inp : Nat → Bits × Bytes × Nat) (ds : DS) (i : Nat) (g : ColSt → ColSt)
    (hg : ∀ (c : ColSt) b y s, g { c with bits := b, bytes := y, size := s } = { g c with bits := b, bytes := y, size := s }) :
    withInputs inp (modCol ds i g) = modCol (withInputs inp ds) i g := by
  apply ds_ext
  · simp [size_withInputs, size_modCol]
  · intro j hj
    rw [size_withInputs, size_modCol] at hj
    rw [col_withInputs _ _ _ (by rw [size_modCol]; exact hj), col_modCol, col_modCol, size_withInputs,
      col_withInputs _ _ _ hj]
    split
    · exact (hg _ _ _ _).symm
    · rfl
  · rfl

theorem withInputs_withAux (inp : Nat → Bits × Bytes × Nat) (ds : DS) (a : Aux) :
    withInputs inp (ds.withAux a) = (withInputs inp ds).withAux a := rfl

def mapI {α : Type} (inp : Nat → Bits × Bytes × Nat) (r : Res α) : Res α :=
  r.map (fun r => (r.1, withInputs inp r.2.1, r.2.2))

@[simp] theorem mapI_none {α : Type} (inp : Nat → Bits × Bytes × Nat) : mapI inp (none : Res α) = none := rfl
@[simp] theorem mapI_some {α : Type} (inp : Nat → Bits × Bytes × Nat) (e : List Ev) (ds : DS) (x : α) :
    mapI inp (some (e, ds, x)) = some (e, withInputs inp ds, x) := rfl

theorem prim_withInputs (inp : Nat → Bits × Bytes × Nat) (col : Nat) (p : Prim) (d : Option String) (v : St) (ds : DS) :
    encodePrim col p d v (withInputs inp ds) = mapI inp (encodePrim col p d v ds) := by
  unfold encodePrim
  rw [size_withInputs]
  by_cases hb : col < ds.cols.size
  · simp only [hb, ↓reduceIte]
    have hc := codecOf_col_withInputs inp ds col
    have hlv : ((withInputs inp ds).col col).lastVal = (ds.col col).lastVal := congrArg CodecOf.lastVal hc
    have hld : ((withInputs inp ds).col col).lastDelta = (ds.col col).lastDelta := congrArg CodecOf.lastDelta hc
    have hfl : ((withInputs inp ds).col col).fLast = (ds.col col).fLast := congrArg CodecOf.fLast hc
    have hfe : ((withInputs inp ds).col col).fLead = (ds.col col).fLead := congrArg CodecOf.fLead hc
    have hft : ((withInputs inp ds).col col).fTrail = (ds.col col).fTrail := congrArg CodecOf.fTrail hc
    have hsd : (withInputs inp ds).sdict = ds.sdict := rfl
    cases p <;> cases v <;> simp only [mapI_none, mapI_some]
    case i64.i x =>
      rw [hlv, hld]
      have := withInputs_modCol inp ds col (fun c => { c with lastDelta := x - (ds.col col).lastVal, lastVal := x })
        (by intro c b y s; rfl)
      simp only [modCol] at this
      rw [this]
    case u64.i x =>
      rw [hlv, hld]
      have := withInputs_modCol inp ds col (fun c => { c with lastDelta := x - (ds.col col).lastVal, lastVal := x })
        (by intro c b y s; rfl)
      simp only [modCol] at this
      rw [this]
    case f64.f x =>
      rw [hfl, hfe, hft]
      split
      · generalize Codec.F64.encodeBits
          { last := (ds.col col).fLast, lead := (ds.col col).fLead, trail := (ds.col col).fTrail } x = r
        have := withInputs_modCol inp ds col (fun c => { c with fLast := x, fLead := r.1.lead, fTrail := r.1.trail })
          (by intro c b y s; rfl)
        simp only [modCol] at this
        simp only [mapI_some]
        rw [this]
      · rfl
    case str.s x =>
      split
      · cases d with
        | none => rfl
        | some dn =>
          simp only [hsd]
          split
          · split <;> rfl
          · split <;> rfl
      · rfl
    case byts.s x =>
      split
      · cases d with
        | none => rfl
        | some dn =>
          simp only [hsd]
          split
          · split <;> rfl
          · split <;> rfl
      · rfl
  · simp [hb]

section
variable (inp : Nat → Bits × Bytes × Nat)

def QNode (σ : Schema) (fuel : Nat) : Prop :=
  ∀ env n cur new mk ds,
    encodeNode σ fuel env n cur new mk (withInputs inp ds) = mapI inp (encodeNode σ fuel env n cur new mk ds)

def QFields (σ : Schema) (fuel : Nat) : Prop :=
  ∀ env fields idx optIdx mask pres prevPres cur new subs ds,
    encodeFields σ fuel env fields idx optIdx mask pres prevPres cur new subs (withInputs inp ds) =
      mapI inp (encodeFields σ fuel env fields idx optIdx mask pres prevPres cur new subs ds)

def QElems (σ : Schema) (fuel : Nat) : Prop :=
  ∀ env elem ety xs old subs ds,
    encodeElems σ fuel env elem ety xs old subs (withInputs inp ds) =
      mapI inp (encodeElems σ fuel env elem ety xs old subs ds)

def QPairs (σ : Schema) (fuel : Nat) : Prop :=
  ∀ env k v kty vty ps old subs ds,
    encodePairsFull σ fuel env k v kty vty ps old subs (withInputs inp ds) =
      mapI inp (encodePairsFull σ fuel env k v kty vty ps old subs ds)

def QVals (σ : Schema) (fuel : Nat) : Prop :=
  ∀ env v changed idx old new subs ds,
    encodeValuesOnly σ fuel env v changed idx old new subs (withInputs inp ds) =
      mapI inp (encodeValuesOnly σ fuel env v changed idx old new subs ds)

theorem qfields_step (σ : Schema) (fuel : Nat) (hn : QNode inp σ fuel) (hf : QFields inp σ fuel) :
    QFields inp σ (fuel + 1) := by
  intro env fields idx optIdx mask pres prevPres cur new subs ds
  cases fields with
  | nil => simp only [encodeFields, mapI_some]
  | cons fd rest =>
    obtain ⟨opt, n⟩ := fd
    simp only [encodeFields]
    by_cases hc : (mask.testBit idx && (!opt || pres.testBit optIdx)) = true
    · simp only [hc, ↓reduceIte]
      rw [hn]
      cases encodeNode σ fuel env n
        (if (opt && !isPrimNode n && !prevPres.testBit optIdx) = true then altInit σ n else cur.headD dflt)
        (new.headD dflt) (subs.headD Mk.leaf) ds with
      | none => rfl
      | some r =>
        obtain ⟨e1, ds1, v⟩ := r
        simp only [mapI_some]
        rw [hf]
        cases encodeFields σ fuel env rest (idx + 1) (if opt = true then optIdx + 1 else optIdx) mask pres prevPres
          cur.tail new.tail subs.tail ds1 with
        | none => rfl
        | some r => rfl
    · simp only [hc, Bool.false_eq_true, ↓reduceIte]
      rw [hf]
      cases encodeFields σ fuel env rest (idx + 1) (if opt = true then optIdx + 1 else optIdx) mask pres prevPres
        cur.tail new.tail subs.tail ds with
      | none => rfl
      | some r => rfl

theorem qelems_step (σ : Schema) (fuel : Nat) (hn : QNode inp σ fuel) (he : QElems inp σ fuel) :
    QElems inp σ (fuel + 1) := by
  intro env elem ety xs old subs ds
  cases xs with
  | nil => simp only [encodeElems, mapI_some]
  | cons x xs =>
    simp only [encodeElems]
    rw [hn]
    cases encodeNode σ fuel env elem (elemPrev σ ety old) x (subs.headD Mk.leaf) ds with
    | none => rfl
    | some r =>
      obtain ⟨e1, ds1, v⟩ := r
      simp only [mapI_some]
      rw [he]
      cases encodeElems σ fuel env elem ety xs old.tail subs.tail ds1 with
      | none => rfl
      | some r => rfl

theorem qpairs_step (σ : Schema) (fuel : Nat) (hn : QNode inp σ fuel) (hp : QPairs inp σ fuel) :
    QPairs inp σ (fuel + 1) := by
  intro env k v kty vty ps old subs ds
  cases ps with
  | nil => simp only [encodePairsFull, mapI_some]
  | cons p ps =>
    simp only [encodePairsFull]
    rw [hn]
    cases encodeNode σ fuel env k (pairPrev σ kty vty old).1 p.1 (subs.headD (Mk.leaf, Mk.leaf)).1 ds with
    | none => rfl
    | some r =>
      obtain ⟨e1, ds1, kv⟩ := r
      simp only [mapI_some]
      rw [hn]
      cases encodeNode σ fuel env v (pairPrev σ kty vty old).2 p.2 (subs.headD (Mk.leaf, Mk.leaf)).2 ds1 with
      | none => rfl
      | some r =>
        obtain ⟨e2, ds2, vv⟩ := r
        simp only [mapI_some]
        rw [hp]
        cases encodePairsFull σ fuel env k v kty vty ps old.tail subs.tail ds2 with
        | none => rfl
        | some r => rfl

theorem qvals_step (σ : Schema) (fuel : Nat) (hn : QNode inp σ fuel) (hv : QVals inp σ fuel) :
    QVals inp σ (fuel + 1) := by
  intro env v changed idx old new subs ds
  cases old with
  | nil => simp only [encodeValuesOnly, mapI_some]
  | cons o os =>
    obtain ⟨pk, pv⟩ := o
    simp only [encodeValuesOnly]
    by_cases hc : (decide (idx < 64) && changed.testBit idx) = true
    · simp only [hc, ↓reduceIte]
      rw [hn]
      cases encodeNode σ fuel env v pv (new.headD dflt) (subs.headD Mk.leaf) ds with
      | none => rfl
      | some r =>
        obtain ⟨e1, ds1, vv⟩ := r
        simp only [mapI_some]
        rw [hv]
        cases encodeValuesOnly σ fuel env v changed (idx + 1) os new.tail subs.tail ds1 with
        | none => rfl
        | some r => rfl
    · simp only [hc, Bool.false_eq_true, ↓reduceIte]
      rw [hv]
      cases encodeValuesOnly σ fuel env v changed (idx + 1) os new.tail subs.tail ds with
      | none => rfl
      | some r => rfl

theorem tdict_withInputs (ds : DS) : (withInputs inp ds).tdict = ds.tdict := rfl

theorem qnode_step (σ : Schema) (fuel : Nat) (hn : QNode inp σ fuel) (hf : QFields inp σ fuel)
    (he : QElems inp σ fuel) (hp : QPairs inp σ fuel) (hv : QVals inp σ fuel) : QNode inp σ (fuel + 1) := by
  intro env n cur new mk ds
  cases n with
  | prim col p d =>
    simp only [encodeNode]
    exact prim_withInputs inp col p d new ds
  | recur key =>
    simp only [encodeNode]
    split
    · rfl
    · exact hn _ _ _ _ _ _
  | struct col name dict kept optCount fields =>
    simp only [encodeNode, size_withInputs, tdict_withInputs]
    split
    · cases mk with
      | ref r =>
        cases dict with
        | none => rfl
        | some dn =>
          simp only
          split
          · split <;> rfl
          · rfl
      | struct mask subs =>
        cases new with
        | struct pres newFields =>
          simp only
          split
          · rw [hf]
            cases encodeFields σ fuel ((name, Node.struct col name dict kept optCount fields) :: env) fields 0 0 mask pres
              (structPres cur) (structFields cur) newFields subs ds with
            | none => rfl
            | some r =>
              obtain ⟨e2, ds2, effs⟩ := r
              cases dict <;> rfl
          · rfl
        | _ => rfl
      | _ => rfl
    · rfl
  | oneof col name kept alts =>
    simp only [encodeNode, size_withInputs]
    cases new with
    | oneof typ val =>
      cases mk with
      | oneof sub =>
        simp only
        split
        · split
          · rfl
          · cases hal : alts[typ - 1]? with
            | none => rfl
            | some an =>
              cases val with
              | none => rfl
              | some v =>
                simp only
                rw [hn]
                cases encodeNode σ fuel ((name, Node.oneof col name kept alts) :: env) an (oneofPrev σ an typ cur) v sub ds with
                | none => rfl
                | some r => rfl
        · rfl
      | _ => rfl
    | _ => rfl
  | arr col key ety elem =>
    simp only [encodeNode, size_withInputs]
    cases new with
    | arr es =>
      cases mk with
      | arr subs =>
        simp only
        split
        · rw [he]
          cases encodeElems σ fuel ((key, Node.arr col key ety elem) :: env) elem ety es (arrElems cur) subs ds with
          | none => rfl
          | some r => rfl
        · rfl
      | _ => rfl
    | _ => rfl
  | mmap col name kty vty k v =>
    simp only [encodeNode, size_withInputs]
    split
    · cases mk with
      | mmapSame => rfl
      | mmapFull subs =>
        cases new with
        | mmap ps =>
          simp only
          split
          · rw [hp]
            cases encodePairsFull σ fuel ((name, Node.mmap col name kty vty k v) :: env) k v kty vty ps (mmapPairs cur) subs ds with
            | none => rfl
            | some r => rfl
          · rfl
        | _ => rfl
      | mmapVals changed subs =>
        cases new with
        | mmap ps =>
          simp only
          split
          · rw [hv]
            cases encodeValuesOnly σ fuel ((name, Node.mmap col name kty vty k v) :: env) v changed 0 (mmapPairs cur)
              (List.map (fun x => x.snd) ps) subs ds with
            | none => rfl
            | some r => rfl
          · rfl
        | _ => rfl
      | _ => rfl
    · rfl

theorem encode_withInputs_all (σ : Schema) (fuel : Nat) :
    QNode inp σ fuel ∧ QFields inp σ fuel ∧ QElems inp σ fuel ∧ QPairs inp σ fuel ∧ QVals inp σ fuel := by
  induction fuel with
  | zero =>
    refine ⟨?_, ?_, ?_, ?_, ?_⟩
    · intro env n cur new mk ds; simp [encodeNode]
    · intro env fields idx optIdx mask pres prevPres cur new subs ds; simp [encodeFields]
    · intro env elem ety xs old subs ds; simp [encodeElems]
    · intro env k v kty vty ps old subs ds; simp [encodePairsFull]
    · intro env v changed idx old new subs ds; simp [encodeValuesOnly]
  | succ fuel ih =>
    obtain ⟨hn, hf, he, hp, hv⟩ := ih
    exact ⟨qnode_step inp σ fuel hn hf he hp hv, qfields_step inp σ fuel hn hf, qelems_step inp σ fuel hn he,
      qpairs_step inp σ fuel hn hp, qvals_step inp σ fuel hn hv⟩

theorem encodeRecords_withInputs (σ : Schema) (root : Node) (fuel : Nat) :
    ∀ (recs : List (St × Mk)) (cur : St) (ds : DS),
      encodeRecords σ root fuel recs cur (withInputs inp ds) = mapI inp (encodeRecords σ root fuel recs cur ds) := by
  induction fuel with
  | zero => intro recs cur ds; simp [encodeRecords]
  | succ fuel ih =>
    intro recs cur ds
    cases recs with
    | nil => simp only [encodeRecords, mapI_some]
    | cons r rest =>
      obtain ⟨new, mk⟩ := r
      simp only [encodeRecords]
      rw [(encode_withInputs_all inp σ (fuel * 64 + 100000)).1]
      cases encodeNode σ (fuel * 64 + 100000) [] root cur new mk ds with
      | none => rfl
      | some r =>
        obtain ⟨e1, ds1, v⟩ := r
        simp only [mapI_some]
        rw [ih]
        cases encodeRecords σ root fuel rest v ds1 with
        | none => rfl
        | some r => rfl

end

/-! ### frames at the column level -/

theorem withInputs_withInputs (a b : Nat → Bits × Bytes × Nat) (ds : DS) :
    withInputs a (withInputs b ds) = withInputs a ds := by
  apply ds_ext
  · simp [size_withInputs]
  · intro i hi
    simp only [size_withInputs] at hi
    rw [col_withInputs _ _ _ (by rw [size_withInputs]; exact hi), col_withInputs _ _ _ hi, col_withInputs _ _ _ hi]
  · rfl

theorem resetFor_withInputs (flags : Nat) (a : Nat → Bits × Bytes × Nat) (ds : DS) :
    resetFor flags (withInputs a ds) = withInputs a (resetFor flags ds) := by
  have h1 : ∀ d : DS, (withInputs a d).resetDicts = withInputs a d.resetDicts := fun d => rfl
  have h2 : ∀ d : DS, ({ withInputs a d with cols := (withInputs a d).cols.map ColSt.resetCodec } : DS) =
      withInputs a { d with cols := d.cols.map ColSt.resetCodec } := by
    intro d
    simp only [withInputs]
    congr 1
    apply Array.ext
    · simp
    · intro i h1 h2
      simp [ColSt.resetCodec]
  unfold resetFor
  by_cases hd : flags % 2 = 1 <;> by_cases hc : flags / 4 % 2 = 1 <;> simp only [hd, hc, ↓reduceIte, h1, h2]

theorem size_resetFor (flags : Nat) (ds : DS) : (resetFor flags ds).cols.size = ds.cols.size := by
  unfold resetFor
  by_cases hd : flags % 2 = 1 <;> by_cases hc : flags / 4 % 2 = 1 <;> simp [hd, hc, DS.resetDicts]

/-- the frame hands every column (at least) what the encoder wrote to it: the column's concatenated
    output, followed by anything (the zero padding of bit columns) -/
def Carries (evs : List Ev) (inp : Nat → Bits × Bytes × Nat) (ncols : Nat) : Prop :=
  ∀ c, c < ncols → (colBits evs c <+: (inp c).1) ∧ (colBytes evs c <+: (inp c).2.1)

/-- what is left in the columns after the records were read -/
def leftover (evs : List Ev) (inp : Nat → Bits × Bytes × Nat) : Nat → Bits × Bytes × Nat :=
  fun c => ((inp c).1.drop (colBits evs c).length, (inp c).2.1.drop (colBytes evs c).length, (inp c).2.2)

theorem loaded_eq_feed (evs : List Ev) (inp : Nat → Bits × Bytes × Nat) (ds : DS) (h : Carries evs inp ds.cols.size) :
    withInputs inp ds = feed evs (withInputs (leftover evs inp) ds) := by
  apply ds_ext
  · simp [size_withInputs, size_feed]
  · intro i hi
    rw [size_withInputs] at hi
    rw [col_withInputs _ _ _ hi, col_feed _ _ _ (by rw [size_withInputs]; exact hi), col_withInputs _ _ _ hi]
    obtain ⟨⟨t1, h1⟩, ⟨t2, h2⟩⟩ := h i hi
    simp only [leftover]
    rw [← h1, ← h2]
    simp
  · rw [aux_feed]; rfl

/-- **one frame at the column level** -/
theorem frame_cols_roundtrip (σ : Schema) (root : Node) (rmb : Nat) (flags fuel : Nat) (recs : List (St × Mk))
    (cur : St) (es : DS) (evs : List Ev) (es' : DS) (effs : List St)
    (inp0 inp : Nat → Bits × Bytes × Nat)
    (h : encodeRecords σ root fuel recs cur (resetFor flags es) = some (evs, es', effs))
    (hc : Carries evs inp es.cols.size) :
    ∃ out, decodeRecords σ root rmb fuel recs.length cur (withInputs inp (resetFor flags (withInputs inp0 es))) [] =
        .ok (effs.getLast?.getD cur, withInputs (leftover evs inp) es', out) ∧ out.map (·.2) = effs.reverse := by
  rw [resetFor_withInputs, withInputs_withInputs]
  rw [loaded_eq_feed evs inp (resetFor flags es) (by rw [size_resetFor]; exact hc)]
  have h2 := encodeRecords_withInputs (leftover evs inp) σ root fuel recs cur (resetFor flags es)
  rw [h] at h2
  simp only [mapI_some] at h2
  obtain ⟨out, h3, h4⟩ := records_roundtrip σ root rmb fuel recs cur _ evs _ effs [] [] h2
  refine ⟨out, ?_, by simpa using h4⟩
  simpa using h3

/-- the column-level frames `cols` carry what the encoder produced for the frames `ins` -/
def Matches : List FrameIn → List (List Ev) → List FrameCols → Prop
  | [], [], [] => True
  | i :: is, e :: es, c :: cs =>
    c.flags = i.flags ∧ c.fuel = i.fuel ∧ c.nrec = i.recs.length ∧ (∀ n, Carries e c.inp n) ∧ Matches is es cs
  | _, _, _ => False

/-- **frames with restarts, at the column level**: codec and dictionary state carried from frame to
    frame (or restarted by the flags on both sides), column inputs replaced per frame, leftovers
    (padding) discarded. The decoder's state after the last frame is the encoder's, up to the
    leftover inputs. -/
theorem frames_cols_roundtrip (σ : Schema) (root : Node) (rmb : Nat) :
    ∀ (ins : List FrameIn) (evss : List (List Ev)) (cols : List FrameCols) (cur : St) (es es' : DS)
      (effss : List (List St)) (inp0 : Nat → Bits × Bytes × Nat),
      encodeFrames σ root ins cur es = some (evss, es', effss) → Matches ins evss cols →
      ∃ last inp', decodeFramesCols σ root rmb cols cur (withInputs inp0 es) =
        .ok (last, withInputs inp' es', effss) := by
  intro ins
  induction ins with
  | nil =>
    intro evss cols cur es es' effss inp0 h hm
    simp only [encodeFrames, Option.some.injEq, Prod.mk.injEq] at h
    obtain ⟨rfl, rfl, rfl⟩ := h
    cases cols with
    | nil => exact ⟨cur, inp0, rfl⟩
    | cons c cs => simp [Matches] at hm
  | cons fr rest ih =>
    intro evss cols cur es es' effss inp0 h hm
    simp only [encodeFrames] at h
    split at h
    · simp at h
    · rename_i evs es1 effs hrec
      split at h
      · simp at h
      · rename_i evss' es2 effss' hrest
        simp only [Option.some.injEq, Prod.mk.injEq] at h
        obtain ⟨rfl, rfl, rfl⟩ := h
        cases cols with
        | nil => simp [Matches] at hm
        | cons c cs =>
          obtain ⟨hfl, hfu, hnr, hcar, hm'⟩ := hm
          obtain ⟨out, h1, h2⟩ := frame_cols_roundtrip σ root rmb fr.flags fr.fuel fr.recs cur es evs es1 effs inp0 c.inp hrec (hcar _)
          obtain ⟨last, inp', h3⟩ := ih evss' cs (effs.getLast?.getD cur) es1 es2 effss' (leftover evs c.inp) hrest hm'
          refine ⟨last, inp', ?_⟩
          simp only [decodeFramesCols, hfl, hfu, hnr, h1, h3, h2, List.reverse_reverse]

/-! ### `Spec.loadColumns` only replaces inputs; `Spec.decodeStream.go` over frames -/

def inputsOf (L : DS) : Nat → Bits × Bytes × Nat := fun c => ((L.col c).bits, (L.col c).bytes, (L.col c).size)

/-- a state that differs from `ds` in the input fields of its columns only -/
def InputsOnly (ds L : DS) : Prop :=
  L.cols.size = ds.cols.size ∧ L.aux = ds.aux ∧ ∀ c, codecOf (L.col c) = codecOf (ds.col c)

theorem inputsOnly_eq (ds L : DS) (h : InputsOnly ds L) : L = withInputs (inputsOf L) ds := by
  obtain ⟨h1, h2, h3⟩ := h
  apply ds_ext
  · rw [size_withInputs]; exact h1
  · intro i hi
    rw [col_withInputs _ _ _ (by rw [← h1]; exact hi)]
    have := h3 i
    simp only [inputsOf]
    generalize L.col i = a at this ⊢
    generalize ds.col i = b at this ⊢
    cases a; cases b
    simp only [codecOf, CodecOf.mk.injEq] at this
    obtain ⟨r1, r2, r3, r4, r5⟩ := this
    subst r1 r2 r3 r4 r5
    rfl
  · rw [aux_withInputs]; exact h2

theorem loadColumns_inputsOnly (kinds : List (Nat × Bool)) (sizes : List (Nat × Nat)) :
    ∀ (data : Bytes) (ds L : DS) (rest : Bytes), loadColumns kinds sizes data ds = .ok (L, rest) → InputsOnly ds L := by
  induction kinds with
  | nil =>
    intro data ds L rest h
    simp only [loadColumns, List.foldlM_nil, pure, Except.pure, Except.ok.injEq, Prod.mk.injEq] at h
    obtain ⟨rfl, rfl⟩ := h
    exact ⟨rfl, rfl, fun _ => rfl⟩
  | cons k ks ih =>
    intro data ds L rest h
    obtain ⟨col, isBit⟩ := k
    simp only [loadColumns, List.foldlM_cons, bind, Except.bind] at h
    split at h
    · simp at h
    · rename_i x hx
      split at hx
      · simp at hx
      · rename_i bytes rest' htake
        simp only [Except.ok.injEq] at hx
        subst hx
        have := ih _ _ L rest (by simpa [loadColumns] using h)
        obtain ⟨h1, h2, h3⟩ := this
        refine ⟨by rw [h1, size_setCol], by rw [h2]; rfl, ?_⟩
        intro c
        rw [h3 c]
        by_cases hc : col = c
        · subst hc
          by_cases hb : col < ds.cols.size
          · rw [col_setCol_self _ _ _ hb]
            cases isBit <;> rfl
          · rw [setCol_oob _ _ _ hb]
        · rw [col_setCol_ne _ _ _ _ hc]

/-- the bytes of frame `fr` parse (record count `nrec`, size table, column slicing) and the columns
    it loads carry the events `evs` -/
def FrameCarries (root : Node) (kinds : List (Nat × Bool)) (ncols : Nat) (fr : Frame) (nrec : Nat) (evs : List Ev) : Prop :=
  ∃ c1 sos c2 sizeBytes data rb sizes,
    needVar fr.content = .ok (nrec, c1) ∧ needVar c1 = .ok (sos, c2) ∧ needTake sos c2 = .ok (sizeBytes, data) ∧
    readSizes 100000 root (bytesBits sizeBytes) [] = .ok (rb, sizes) ∧
    ∀ ds : DS, ds.cols.size = ncols →
      ∃ L rest, loadColumns kinds sizes data ds = .ok (L, rest) ∧ Carries evs (inputsOf L) ncols

def StreamMatches (root : Node) (kinds : List (Nat × Bool)) (ncols : Nat) :
    List FrameIn → List (List Ev) → List Frame → Prop
  | [], [], [] => True
  | i :: is, e :: es, f :: fs =>
    f.flags = i.flags ∧ i.fuel = f.content.length * 8 + i.recs.length + 1000 ∧
    FrameCarries root kinds ncols f i.recs.length e ∧ StreamMatches root kinds ncols is es fs
  | _, _, _ => False

theorem go_roundtrip (σ : Schema) (hdr : Header) (root : Node) (kinds : List (Nat × Bool)) (rk ncols : Nat) :
    ∀ (ins : List FrameIn) (evss : List (List Ev)) (frames : List Frame) (cur : St) (es es' : DS)
      (effss : List (List St)) (inp0 : Nat → Bits × Bytes × Nat) (infos : List FrameInfo) (recs : List (Nat × St)),
      encodeFrames σ root ins cur es = some (evss, es', effss) → StreamMatches root kinds ncols ins evss frames →
      es.cols.size = ncols →
      (decodeStream.go σ hdr root kinds rk frames cur (withInputs inp0 es) infos recs).error = none ∧
      (decodeStream.go σ hdr root kinds rk frames cur (withInputs inp0 es) infos recs).records.map (·.2) =
        recs.reverse.map (·.2) ++ effss.flatten ∧
      (decodeStream.go σ hdr root kinds rk frames cur (withInputs inp0 es) infos recs).dictViolations = es'.dictViolations := by
  intro ins
  induction ins with
  | nil =>
    intro evss frames cur es es' effss inp0 infos recs h hm hsz
    simp only [encodeFrames, Option.some.injEq, Prod.mk.injEq] at h
    obtain ⟨rfl, rfl, rfl⟩ := h
    cases frames with
    | nil =>
      simp only [decodeStream.go]
      exact ⟨trivial, by simp, rfl⟩
    | cons c cs => simp [StreamMatches] at hm
  | cons fr rest ih =>
    intro evss frames cur es es' effss inp0 infos recs h hm hsz
    simp only [encodeFrames] at h
    split at h
    · simp at h
    · rename_i evs es1 effs hrec
      split at h
      · simp at h
      · rename_i evss' es2 effss' hrest
        simp only [Option.some.injEq, Prod.mk.injEq] at h
        obtain ⟨rfl, rfl, rfl⟩ := h
        cases frames with
        | nil => simp [StreamMatches] at hm
        | cons f fs =>
          obtain ⟨hfl, hfu, hcar, hm'⟩ := hm
          obtain ⟨c1, sos, c2, sizeBytes, data, rb, sizes, p1, p2, p3, p4, p5⟩ := hcar
          have hsz1 : es1.cols.size = ncols := by
            rw [size_encodeRecords _ _ _ _ _ _ _ _ _ hrec, size_resetFor]; exact hsz
          obtain ⟨L, rest', hL, hcarL⟩ := p5 (resetFor f.flags (withInputs inp0 es))
            (by rw [size_resetFor, size_withInputs]; exact hsz)
          have hio := inputsOnly_eq _ _ (loadColumns_inputsOnly kinds sizes data _ L rest' hL)
          rw [hfl] at hio
          obtain ⟨out, h1, h2⟩ := frame_cols_roundtrip σ root rk fr.flags fr.fuel fr.recs cur es evs es1 effs inp0
            (inputsOf L) hrec (by rw [hsz]; exact hcarL)
          rw [← hio, hfu] at h1
          have hgo : decodeStream.go σ hdr root kinds rk (f :: fs) cur (withInputs inp0 es) infos recs =
              decodeStream.go σ hdr root kinds rk fs (effs.getLast?.getD cur) (withInputs (leftover evs (inputsOf L)) es1)
                ({ flags := f.flags, size := f.content.length, records := fr.recs.length,
                   dictPayloadAfter := (withInputs (leftover evs (inputsOf L)) es1).dictPayload } :: infos)
                (out ++ recs) := by
            rw [decodeStream.go]
            simp only [p1, p2, p3, p4]
            have hres : (if f.flags / 4 % 2 = 1 then
                ({ (if f.flags % 2 = 1 then (withInputs inp0 es).resetDicts else withInputs inp0 es) with
                    cols := Array.map ColSt.resetCodec
                      (if f.flags % 2 = 1 then (withInputs inp0 es).resetDicts else withInputs inp0 es).cols } : DS)
                else if f.flags % 2 = 1 then (withInputs inp0 es).resetDicts else withInputs inp0 es) =
                resetFor f.flags (withInputs inp0 es) := rfl
            rw [hres, hL]
            simp only
            rw [h1]
          rw [hgo]
          obtain ⟨r1, r2, r3⟩ := ih evss' fs (effs.getLast?.getD cur) es1 es2 effss' (leftover evs (inputsOf L)) _ (out ++ recs) hrest hm' hsz1
          refine ⟨r1, ?_, r3⟩
          rw [r2]
          simp [h2]

end Stef.SpecEnc
