import Stef.Alloc

namespace Stef.Alloc

theorem limit_lt : Gen.recordAllocLimit < 2 ^ 64 := by decide

theorem prep_ok (a : Checker) (size : Nat) (ha : a.allocatedSize < 2 ^ 64) (hs : size < 2 ^ 64)
    (h : (a.prepAllocSize size).2 = false) :
    (a.prepAllocSize size).1.allocatedSize = a.allocatedSize + size ∧
    a.allocatedSize + size ≤ Gen.recordAllocLimit := by
  unfold Checker.prepAllocSize add64 at h ⊢
  simp only at h ⊢
  by_cases hc : (a.allocatedSize + size) / 2 ^ 64 ≠ 0
  · simp [hc] at h
  · simp only [hc, ↓reduceIte, Checker.isOverLimit, decide_eq_false_iff_not, Nat.not_lt] at h ⊢
    have hlt : a.allocatedSize + size < 2 ^ 64 := by
      have : (a.allocatedSize + size) / 2 ^ 64 = 0 := by simpa using hc
      exact (Nat.div_eq_zero_iff.mp this).resolve_left (by decide)
    rw [Nat.mod_eq_of_lt hlt] at h ⊢
    exact ⟨rfl, h⟩

theorem prepN_ok (a : Checker) (size count : Nat) (ha : a.allocatedSize < 2 ^ 64)
    (h : (a.prepAllocSizeN size count).2 = false) :
    (a.prepAllocSizeN size count).1.allocatedSize = a.allocatedSize + size * count ∧
    a.allocatedSize + size * count ≤ Gen.recordAllocLimit := by
  unfold Checker.prepAllocSizeN mul64 add64 at h ⊢
  simp only at h ⊢
  by_cases hm : size * count / 2 ^ 64 ≠ 0
  · simp [hm] at h
  · have hmlt : size * count < 2 ^ 64 := by
      have : size * count / 2 ^ 64 = 0 := by simpa using hm
      exact (Nat.div_eq_zero_iff.mp this).resolve_left (by decide)
    simp only [hm, ↓reduceIte, Nat.mod_eq_of_lt hmlt] at h ⊢
    by_cases hc : (a.allocatedSize + size * count) / 2 ^ 64 ≠ 0
    · simp [hc] at h
    · simp only [hc, ↓reduceIte, Checker.isOverLimit, decide_eq_false_iff_not, Nat.not_lt] at h ⊢
      have hlt : a.allocatedSize + size * count < 2 ^ 64 := by
        have : (a.allocatedSize + size * count) / 2 ^ 64 = 0 := by simpa using hc
        exact (Nat.div_eq_zero_iff.mp this).resolve_left (by decide)
      rw [Nat.mod_eq_of_lt hlt] at h ⊢
      exact ⟨rfl, h⟩

/-- the counter never wraps: it only grows (saturating at MaxUint) until reset. -/
theorem add_monotone (a : Checker) (size : Nat) (ha : a.allocatedSize ≤ maxUint) :
    a.allocatedSize ≤ (a.addAllocSize size).allocatedSize ∧ (a.addAllocSize size).allocatedSize ≤ maxUint := by
  unfold Checker.addAllocSize add64
  simp only
  by_cases hc : (a.allocatedSize + size) / 2 ^ 64 ≠ 0
  · rw [if_pos hc]
    exact ⟨ha, Nat.le_refl _⟩
  · rw [if_neg hc]
    have hlt : a.allocatedSize + size < 2 ^ 64 := by
      have : (a.allocatedSize + size) / 2 ^ 64 = 0 := by simpa using hc
      exact (Nat.div_eq_zero_iff.mp this).resolve_left (by decide)
    show a.allocatedSize ≤ (a.allocatedSize + size) % 2 ^ 64 ∧ (a.allocatedSize + size) % 2 ^ 64 ≤ maxUint
    rw [Nat.mod_eq_of_lt hlt]
    unfold maxUint
    omega

/-- a run of allocation requests since the last reset -/
inductive Req | one (size : Nat) | many (size count : Nat)

def Req.bytes : Req → Nat
  | .one s => s
  | .many s c => s * c

def Req.wf : Req → Prop
  | .one s => s < 2 ^ 64
  | .many s c => s < 2 ^ 64 ∧ c < 2 ^ 64

/-- grant requests in order, stopping at the first refusal (as every decoder does) -/
def grant (a : Checker) : List Req → Checker × Bool
  | [] => (a, false)
  | .one s :: rest =>
    let (a', e) := a.prepAllocSize s
    if e then (a', true) else grant a' rest
  | .many s c :: rest =>
    let (a', e) := a.prepAllocSizeN s c
    if e then (a', true) else grant a' rest

/-- **alloc_bound**: if all requests of a record were granted, their total is what the counter
    holds, and it is at most RecordAllocLimit (32 MiB). -/
theorem grant_bound (reqs : List Req) (a : Checker) (ha : a.allocatedSize ≤ Gen.recordAllocLimit)
    (hwf : ∀ r ∈ reqs, r.wf) (h : (grant a reqs).2 = false) :
    (grant a reqs).1.allocatedSize = a.allocatedSize + (reqs.map Req.bytes).sum ∧
    (grant a reqs).1.allocatedSize ≤ Gen.recordAllocLimit := by
  induction reqs generalizing a with
  | nil => simpa [grant] using ha
  | cons r rest ih =>
    have hlim := limit_lt
    cases r with
    | one s =>
      simp only [grant] at h ⊢
      cases hp : (a.prepAllocSize s).2 with
      | true => simp [hp] at h
      | false =>
        simp only [hp, Bool.false_eq_true, ↓reduceIte] at h ⊢
        have hw : s < 2 ^ 64 := hwf (.one s) (by simp)
        obtain ⟨h1, h2⟩ := prep_ok a s (by omega) hw hp
        have := ih (a.prepAllocSize s).1 (by rw [h1]; exact h2) (fun r hr => hwf r (by simp [hr])) h
        refine ⟨?_, this.2⟩
        rw [this.1, h1]
        simp only [List.map_cons, List.sum_cons, Req.bytes]
        omega
    | many s c =>
      simp only [grant] at h ⊢
      cases hp : (a.prepAllocSizeN s c).2 with
      | true => simp [hp] at h
      | false =>
        simp only [hp, Bool.false_eq_true, ↓reduceIte] at h ⊢
        obtain ⟨h1, h2⟩ := prepN_ok a s c (by omega) hp
        have := ih (a.prepAllocSizeN s c).1 (by rw [h1]; exact h2) (fun r hr => hwf r (by simp [hr])) h
        refine ⟨?_, this.2⟩
        rw [this.1, h1]
        simp only [List.map_cons, List.sum_cons, Req.bytes]
        omega

end Stef.Alloc
