import Stef.WireSchema
namespace Stef.Idl

/-! Round-trip of `WireSchema.Serialize` / `WireSchema.Deserialize` (model level). -/

private theorem or_shift_eq (x b s : Nat) (hx : x < 2 ^ s) :
    x ||| (b <<< s) = x + b * 2 ^ s := by
  rw [Nat.or_comm, ← Nat.shiftLeft_add_eq_or_of_lt hx, Nat.shiftLeft_eq, Nat.add_comm]

private theorem go_put (rest : List Nat) :
    ∀ (f i x s v : Nat), f + 1 + i = 10 → s = 7 * i → x < 2 ^ s → v < 2 ^ (64 - s) →
      readUvarintGo (f + 1) i x s (putUvarint (f + 1) v ++ rest) = .ok (x + v * 2 ^ s, rest) := by
  intro f
  induction f with
  | zero =>
    intro i x s v hfi hs hx hv
    have hi : i = 9 := by omega
    subst hi
    subst hs
    have hv2 : v < 2 := by simpa using hv
    have hv128 : v < 128 := by omega
    have hno : ¬ v > 1 := by omega
    simp only [putUvarint, hv128, if_true, List.cons_append, List.nil_append, readUvarintGo]
    simp only [hno, decide_false, Bool.and_false, Bool.false_eq_true, if_false]
    rw [or_shift_eq x v _ hx]
    have : x + v * 2 ^ (7 * 9) < 2 ^ 64 := by
      have h1 : v * 2 ^ (7 * 9) ≤ 1 * 2 ^ (7 * 9) := Nat.mul_le_mul_right _ (by omega)
      have h2 : (2:Nat) ^ 64 = 2 ^ (7 * 9) + 2 ^ (7 * 9) := by decide
      omega
    rw [Nat.mod_eq_of_lt this]
  | succ f ih =>
    intro i x s v hfi hs hx hv
    have hi : i ≤ 8 := by omega
    have hs56 : s ≤ 56 := by omega
    by_cases hv128 : v < 128
    · have hi9 : ¬ i = 9 := by omega
      rw [putUvarint]
      simp only [hv128, if_true, List.cons_append, List.nil_append]
      rw [readUvarintGo]
      simp only [hv128, if_true, hi9, decide_false, Bool.false_and, Bool.false_eq_true, if_false]
      rw [or_shift_eq x v _ hx]
      have : x + v * 2 ^ s < 2 ^ 64 := by
        have h1 : (v + 1) * 2 ^ s ≤ 2 ^ (64 - s) * 2 ^ s := Nat.mul_le_mul_right _ hv
        have h2 : 2 ^ (64 - s) * 2 ^ s = 2 ^ 64 := by
          rw [← Nat.pow_add]; congr 1; omega
        rw [Nat.add_mul] at h1
        omega
      rw [Nat.mod_eq_of_lt this]
    · have hb : ¬ (v % 128 + 128 < 128) := by omega
      have hbm : (v % 128 + 128) % 128 = v % 128 := by omega
      rw [putUvarint]
      simp only [hv128, if_false, List.cons_append]
      rw [readUvarintGo]
      simp only [hb, if_false, hbm]
      rw [or_shift_eq x _ _ hx]
      have hpow : (2:Nat) ^ (s + 7) = 2 ^ s * 128 := by rw [Nat.pow_add]
      have hx' : x + v % 128 * 2 ^ s < 2 ^ (s + 7) := by
        have h1 : v % 128 * 2 ^ s ≤ 127 * 2 ^ s := Nat.mul_le_mul_right _ (by omega)
        omega
      have hv' : v / 128 < 2 ^ (64 - (s + 7)) := by
        have h2 : (2:Nat) ^ (64 - s) = 2 ^ (64 - (s + 7)) * 128 := by
          rw [show 64 - s = (64 - (s + 7)) + 7 by omega, Nat.pow_add]
        rw [h2] at hv
        exact (Nat.div_lt_iff_lt_mul (by decide)).2 hv
      rw [ih (i + 1) _ (s + 7) (v / 128) (by omega) (by omega) hx' hv']
      have : v % 128 * 2 ^ s + v / 128 * 2 ^ (s + 7) = v * 2 ^ s := by
        rw [hpow]
        have hdm : 128 * (v / 128) + v % 128 = v := Nat.div_add_mod v 128
        calc v % 128 * 2 ^ s + v / 128 * (2 ^ s * 128)
            = (128 * (v / 128) + v % 128) * 2 ^ s := by
              rw [Nat.add_mul, Nat.mul_comm (2 ^ s) 128, ← Nat.mul_assoc,
                Nat.mul_comm (v / 128) 128, Nat.add_comm]
          _ = v * 2 ^ s := by rw [hdm]
      rw [Nat.add_assoc, this]

theorem readUvarint_uvarint (v : Nat) (hv : v < 2 ^ 64) (rest : List Nat) :
    readUvarint (uvarint v ++ rest) = .ok (v, rest) := by
  have h := go_put rest 9 0 0 0 v (by omega) (by omega) (by decide) (by simpa using hv)
  simpa [readUvarint, uvarint] using h

private theorem putUvarint_bytes : ∀ (f v : Nat), ∀ b ∈ putUvarint f v, b < 256 := by
  intro f
  induction f with
  | zero => intro v b hb; simp [putUvarint] at hb
  | succ f ih =>
    intro v b hb
    rw [putUvarint] at hb
    by_cases hv : v < 128
    · simp only [hv, if_true, List.mem_singleton] at hb
      omega
    · simp only [hv, if_false, List.mem_cons] at hb
      cases hb with
      | inl h => omega
      | inr h => exact ih _ _ h

theorem uvarint_bytes (v : Nat) : ∀ b ∈ uvarint v, b < 256 :=
  putUvarint_bytes 10 v

theorem readCounts_serialized (w : List Nat) (hw : ∀ c ∈ w, c < 2 ^ 64) (rest : List Nat) :
    readCounts w.length ((w.map uvarint).flatten ++ rest) = .ok w := by
  induction w with
  | nil => simp [readCounts]
  | cons c w ih =>
    have hc : c < 2 ^ 64 := hw c (List.mem_cons_self)
    have hw' : ∀ c ∈ w, c < 2 ^ 64 := fun d hd => hw d (List.mem_cons_of_mem _ hd)
    simp only [List.length_cons, List.map_cons, List.flatten_cons, List.append_assoc]
    rw [readCounts, readUvarint_uvarint c hc]
    simp only [ih hw']

theorem deserialize_serialize (w : List Nat) (hlen : w.length ≤ Stef.Gen.maxStructCount)
    (hw : ∀ c ∈ w, c < 2 ^ 64) : deserialize (serialize w) = .ok w := by
  -- robust against a change of the regenerated constant: only `maxStructCount < 2^64` is used
  have hmax : Stef.Gen.maxStructCount < 2 ^ 64 := by decide
  have h64 : w.length < 2 ^ 64 := by omega
  have hno : ¬ w.length > Stef.Gen.maxStructCount := by omega
  rw [deserialize, serialize, readUvarint_uvarint _ h64]
  simp only [hno, if_false]
  have := readCounts_serialized w hw []
  simpa using this

theorem deserialize_serialize_limit (w : List Nat) (hlen : Stef.Gen.maxStructCount < w.length)
    (h64 : w.length < 2 ^ 64) : deserialize (serialize w) = .error .limit := by
  have hyes : w.length > Stef.Gen.maxStructCount := hlen
  rw [deserialize, serialize, readUvarint_uvarint _ h64]
  simp only [hyes, if_true]

/-! Non-vacuity. -/

example : deserialize (serialize [6, 1, 8, 300, 2 ^ 64 - 1]) = .ok [6, 1, 8, 300, 2 ^ 64 - 1] :=
  deserialize_serialize _ (by decide) (by decide)

example : serialize [6, 1, 300] = [3, 6, 1, 172, 2] := by decide

example : deserialize (serialize (List.replicate 1025 0)) = .error .limit :=
  deserialize_serialize_limit _
    (by rw [List.length_replicate]; show 1024 < 1025; omega)
    (by rw [List.length_replicate]; omega)

end Stef.Idl
