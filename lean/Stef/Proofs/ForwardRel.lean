/-
  Stef.Proofs.ForwardRel: the simulation relation of the record-level forward-compatibility proof
  (Props/C04, `forward_records`).

  A reader for schema B that is given the descriptor of a stream written in schema A (A ≼ B) builds
  A's column tree (`Override.mono_all`), so both readers walk the SAME tree over the SAME column
  data. The schema enters `decodeNode` only through initial values (`initSt`, `altInit`); the
  states of the two runs therefore differ only by the B-only trailing fields of struct values.

  `KRel A key sA sB` is the invariant: "sA / sB are the values the A run / B run hold at a position
  whose type has key `key`". It is indexed by the type KEY (`tyKey`), not by the type, because the
  decoder resolves recursion cuts (`Node.recur key`) by key. It implies `Override.Ext`.
-/
import Stef.Proofs.Override

namespace Stef.Proofs.Forward
open Stef Stef.Spec Stef.Proofs.Override

/-! ## the two well-formedness conditions on A that the record-level statement needs -/

/-- every type name mentioned in `ty` is defined in A -/
def TyClosed (A : Schema) : Ty → Prop
  | .prim _ _ => True
  | .arr e => TyClosed A e
  | .ref n => ∃ d, A.find n = some d

def DefClosed (A : Schema) : Def → Prop
  | .struct _ fs => ∀ fd ∈ fs, TyClosed A fd.ty
  | .oneof fs => ∀ fd ∈ fs, TyClosed A fd.ty
  | .mmap k v => TyClosed A k ∧ TyClosed A v

/-- **Closed A**: no definition of A refers to a type name that A does not define. -/
def Closed (A : Schema) : Prop := ∀ n d, A.find n = some d → DefClosed A d

/-- **DictInj A**: no two struct definitions of A share a struct-dictionary name. -/
def DictInj (A : Schema) : Prop :=
  ∀ n1 n2 dn f1 f2, A.find n1 = some (.struct (some dn) f1) → A.find n2 = some (.struct (some dn) f2) → n1 = n2

/-! ## a generic pointwise list relation (core Lean has none) -/

inductive F2 {α β} (R : α → β → Prop) : List α → List β → Prop
  | nil : F2 R [] []
  | cons {a b as bs} : R a b → F2 R as bs → F2 R (a :: as) (b :: bs)

theorem F2.length {α β} {R : α → β → Prop} {l1 : List α} {l2 : List β} (h : F2 R l1 l2) : l1.length = l2.length := by
  induction h with
  | nil => rfl
  | cons _ _ ih => simp [ih]

theorem F2.append {α β} {R : α → β → Prop} {l1 l1' : List α} {l2 l2' : List β} (h : F2 R l1 l2) (h' : F2 R l1' l2') :
    F2 R (l1 ++ l1') (l2 ++ l2') := by
  induction h with
  | nil => simpa using h'
  | cons hab _ ih => exact F2.cons hab ih

theorem F2.reverse {α β} {R : α → β → Prop} {l1 : List α} {l2 : List β} (h : F2 R l1 l2) :
    F2 R l1.reverse l2.reverse := by
  induction h with
  | nil => exact F2.nil
  | cons hab _ ih =>
    simp only [List.reverse_cons]
    exact F2.append ih (F2.cons hab F2.nil)

theorem F2.getElem? {α β} {R : α → β → Prop} {l1 : List α} {l2 : List β} (h : F2 R l1 l2) (i : Nat) :
    (l1[i]? = none ∧ l2[i]? = none) ∨ (∃ a b, l1[i]? = some a ∧ l2[i]? = some b ∧ R a b) := by
  induction h generalizing i with
  | nil => left; simp
  | cons hab _ ih =>
    cases i with
    | zero => right; exact ⟨_, _, by simp, by simp, hab⟩
    | succ i => simpa using ih i

/-! ## the relation -/

mutual
/-- `KRel A key sA sB`: admissible pair of values (A run, B run) at a position of type key `key`. -/
inductive KRel (A : Schema) : String → St → St → Prop
  | same (key : String) (s : St) : Ext s s → KRel A key s s
  | struct (key : String) (d : Option String) (fs : List Field) (p : Nat) (xa xb : List St) :
      A.find key = some (.struct d fs) → CurRel A fs xa xb → KRel A key (.struct p xa) (.struct p xb)
  | oneof (key : String) (fs : List Field) (t : Nat) (fd : Field) (va vb : St) :
      A.find key = some (.oneof fs) → fs[t - 1]? = some fd → KRel A (tyKey fd.ty) va vb →
      KRel A key (.oneof t (some va)) (.oneof t (some vb))
  | mmap (key : String) (k v : Ty) (pa pb : List (St × St)) :
      A.find key = some (.mmap k v) → PairRel A (tyKey k) (tyKey v) pa pb → KRel A key (.mmap pa) (.mmap pb)
  | arr (key ek : String) (ea eb : List St) : key = "[]" ++ ek → ListRel A ek ea eb → KRel A key (.arr ea) (.arr eb)
/-- the field lists of two struct values against the field list of the struct's definition in A:
    pointwise related as far as both go; when the definition's fields are exhausted the B side
    may carry more (the B-only fields); both sides may stop early TOGETHER. -/
inductive CurRel (A : Schema) : List Field → List St → List St → Prop
  | done (ra rb extra xb : List St) : xb = rb ++ extra → ExtL ra rb → CurRel A [] ra xb
  | short (fs : List Field) : CurRel A fs [] []
  | cons (fd : Field) (fs : List Field) (a b : St) (as bs : List St) :
      KRel A (tyKey fd.ty) a b → CurRel A fs as bs → CurRel A (fd :: fs) (a :: as) (b :: bs)
inductive ListRel (A : Schema) : String → List St → List St → Prop
  | nil (k : String) : ListRel A k [] []
  | cons (k : String) (a b : St) (as bs : List St) : KRel A k a b → ListRel A k as bs → ListRel A k (a :: as) (b :: bs)
inductive PairRel (A : Schema) : String → String → List (St × St) → List (St × St) → Prop
  | nil (kk vk : String) : PairRel A kk vk [] []
  | cons (kk vk : String) (ka va kb vb : St) (as bs : List (St × St)) :
      KRel A kk ka kb → KRel A vk va vb → PairRel A kk vk as bs → PairRel A kk vk ((ka, va) :: as) ((kb, vb) :: bs)
end

/-! ### KRel implies Ext -/

theorem extL_append {a b c d : List St} (h1 : ExtL a b) (h2 : ExtL c d) : ExtL (a ++ c) (b ++ d) := by
  induction a generalizing b with
  | nil => cases h1; simpa using h2
  | cons x xs ih =>
    cases h1 with
    | cons _ y _ ys hxy hr => exact ExtL.cons _ _ _ _ hxy (ih hr)

mutual
theorem KRel.toExt {A : Schema} : ∀ {key : String} {a b : St}, KRel A key a b → Ext a b
  | _, _, _, .same _ _ h => h
  | _, _, _, .struct _ _ _ p _ _ _ hc => by
    obtain ⟨fb, extra, rfl, h⟩ := CurRel.toExt hc
    exact Ext.struct p _ fb extra h
  | _, _, _, .oneof _ _ t _ _ _ _ _ h => Ext.oneof t _ _ (KRel.toExt h)
  | _, _, _, .mmap _ _ _ _ _ _ h => Ext.mmap _ _ (PairRel.toExt h)
  | _, _, _, .arr _ _ _ _ _ h => Ext.arr _ _ (ListRel.toExt h)
theorem CurRel.toExt {A : Schema} : ∀ {fs : List Field} {xa xb : List St}, CurRel A fs xa xb →
    ∃ fb extra, xb = fb ++ extra ∧ ExtL xa fb
  | _, _, _, .done _ rb extra _ he h => ⟨rb, extra, he, h⟩
  | _, _, _, .short _ => ⟨[], [], rfl, ExtL.nil⟩
  | _, _, _, .cons _ _ a b _ _ h hr => by
    obtain ⟨fb, extra, he, hl⟩ := CurRel.toExt hr
    exact ⟨b :: fb, extra, by simp [he], ExtL.cons _ _ _ _ (KRel.toExt h) hl⟩
theorem ListRel.toExt {A : Schema} : ∀ {k : String} {xa xb : List St}, ListRel A k xa xb → ExtL xa xb
  | _, _, _, .nil _ => ExtL.nil
  | _, _, _, .cons _ _ _ _ _ h hr => ExtL.cons _ _ _ _ (KRel.toExt h) (ListRel.toExt hr)
theorem PairRel.toExt {A : Schema} : ∀ {kk vk : String} {xa xb : List (St × St)}, PairRel A kk vk xa xb → ExtP xa xb
  | _, _, _, _, .nil _ _ => ExtP.nil
  | _, _, _, _, .cons _ _ _ _ _ _ _ _ h1 h2 hr => ExtP.cons _ _ _ _ _ _ (KRel.toExt h1) (KRel.toExt h2) (PairRel.toExt hr)
end

/-! ### reflexive pairs -/

theorem extL_length : ∀ {a b : List St}, ExtL a b → a.length = b.length
  | [], _, h => by cases h; rfl
  | _ :: xs, _, h => by
    cases h with
    | cons _ _ _ ys _ hr => simp [extL_length hr]

theorem listRel_same {A : Schema} (k : String) : ∀ {l : List St}, ExtL l l → ListRel A k l l
  | [], _ => ListRel.nil k
  | _ :: _, h => by
    cases h with
    | cons _ _ _ _ hx hr => exact ListRel.cons k _ _ _ _ (KRel.same k _ hx) (listRel_same k hr)

theorem pairRel_same {A : Schema} (kk vk : String) : ∀ {l : List (St × St)}, ExtP l l → PairRel A kk vk l l
  | [], _ => PairRel.nil kk vk
  | _ :: _, h => by
    cases h with
    | cons _ _ _ _ _ _ hk hv hr =>
      exact PairRel.cons kk vk _ _ _ _ _ _ (KRel.same kk _ hk) (KRel.same vk _ hv) (pairRel_same kk vk hr)

theorem curRel_same {A : Schema} : ∀ (fs : List Field) {l : List St}, ExtL l l → CurRel A fs l l
  | [], l, h => CurRel.done l l [] l (by simp) h
  | _ :: _, [], _ => CurRel.short _
  | fd :: fs, _ :: _, h => by
    cases h with
    | cons _ _ _ _ hx hr => exact CurRel.cons fd fs _ _ _ _ (KRel.same _ _ hx) (curRel_same fs hr)

end Stef.Proofs.Forward
