/-
  Stef.Proofs.SchemaPostGen: the schema post-processing REGENERATED from go/pkg/schema/schema.go
  (Stef/Gen/SchemaPost.lean, by extract/schemapost.go; vocabulary Stef/SchemaPostSem.lean) computes what the hand
  model of Stef/Idl.lean says, on EVERY schema the grammar phase of the parser can produce:

    Proofs/SchemaPostResolve  resolveFieldType_ok / _err, resolveRefs_ok / _err
        Gen.resolveRefs σ = Gen.computeRecursive σ1 when Idl.resolveRefs σ = .ok σ1 (distinct struct / multimap
        names), and a Go error "unknown type: N" / "ambiguous type: N" exactly when the hand model reports the class;
    Proofs/SchemaPostRec      findLast_eq, markRecursive_eq, computeRecursive_eq
        Gen.computeRecursive σ = .ok σ2 whenever Idl.computeRecursive σ = .ok σ2;
    Proofs/SchemaPostReach    pruneUnused_eq(_full)
        Gen.pruneUnused σ = .ok (sorted unreachable definitions, σ3) whenever Idl.pruneUnused σ = some σ3 (root names
        not empty).

  Here they are put together: `genParseTokens` = the hand model's grammar phase followed by the regenerated
  `ResolveRefs` and `PruneUnused`, with the outcomes read as `Parser.Parse` reads them, is `Idl.parseTokens` on every
  token sequence the lexer can deliver (`genParseTokens_eq`). The hypotheses of the three parts are discharged by what
  is proved about the grammar phase (names are distinct identifiers: `grammar_inv`, `grammar_names`; no field without a
  type: `grammar_noEmpty`) and by `parseTokens_no_panic` (the hand model succeeds, with the fuel it has).
  These proofs are the tie of the hand model to the source text: a change of the Go functions either still proves
  equal here, or breaks one of these files (or makes the generator fail).
-/
import Stef.Proofs.SchemaPostResolve
import Stef.Proofs.SchemaPostRec
import Stef.Proofs.SchemaPostReach
import Stef.Proofs.IdlNames

namespace Stef.Proofs.SchemaPostGen
open Stef Stef.Idl Stef.SchemaPostSem
open Stef.Proofs.SchemaPostResolve (ErrRel)

/-- the class of the message of an error `ResolveRefs` returned (`Parser.Parse` reports it at the current token). -/
def errClass (msg : Name) : ErrClass :=
  if "unknown type: ".toList.isPrefixOf msg then .unknownType else .ambiguousType

/-- a failure of the regenerated code that is not a Go `error` value, as a panic site of the hand model. -/
def panicSite : PErr → PanicSite
  | .panic msg =>
    if msg = "unknown type".toList then .unknownType
    else if msg = "invalid state".toList then .invalidState
    else if msg = sSetRecPrimitive then .setRecursiveOnPrimitive
    else .invalidFieldType
  | .nilDeref => .nilDef
  | _ => .outOfFuel

/-- `Parser.Parse` after the grammar phase: the regenerated `ResolveRefs`, then the regenerated `PruneUnused`;
    `p` is the position of the current (EOF) token. -/
def genPost (σ : Schema) (p : Pos) : Outcome :=
  match Gen.SchemaPost.resolveRefs σ with
  | .error (.error msg) => .error p (errClass msg)
  | .error e => .panic (panicSite e)
  | .ok σ2 =>
    match Gen.SchemaPost.pruneUnused σ2 with
    | .error (.error msg) => .error p (errClass msg)
    | .error e => .panic (panicSite e)
    | .ok (_, σ3) => .ok σ3

/-- `Parser.Parse` on the token sequence, with the regenerated post-processing. -/
def genParseTokens (ts : List Token) : Outcome :=
  match grammar ts with
  | .err p c => .error p c
  | .ok σ ts' => genPost σ (cur ts').pos

/-- `idl.Parse` with the regenerated post-processing. -/
def genPostParse (input : List Char) : Outcome := genParseTokens (lex input)

theorem errClass_of_rel {e : PErr} {c : ErrClass} (h : ErrRel e c) : ∃ msg, e = .error msg ∧ errClass msg = c := by
  obtain ⟨n, h | h⟩ := h
  · refine ⟨_, h.1, ?_⟩
    rw [h.2]
    simp [errClass]
  · refine ⟨_, h.1, ?_⟩
    rw [h.2]
    simp [errClass]

theorem nodup_of_top {σ : Schema} (h : σ.topNames.Nodup) :
    (σ.structs.map (·.name)).Nodup ∧ (σ.multimaps.map (·.name)).Nodup := by
  unfold Schema.topNames at h
  have h1 := (List.nodup_append.1 h).1
  exact ⟨(List.nodup_append.1 h1).1, (List.nodup_append.1 h1).2.1⟩

/-- the post-processing on a schema the grammar phase produced. -/
theorem genPost_eq {ts ts' : List Token} {σ : Schema} (ht : TsOk PIdent ts) (hg : grammar ts = .ok σ ts') (p : Pos) :
    genPost σ p =
      match resolveRefs σ with
      | .error c => .error p c
      | .ok σ1 =>
        match computeRecursive σ1 with
        | .error site => .panic site
        | .ok σ2 =>
          match pruneUnused σ2 with
          | none => .panic .outOfFuel
          | some σ3 => .ok σ3 := by
  have hinv := grammar_inv hg
  obtain ⟨hs, hm⟩ := nodup_of_top hinv.top
  unfold genPost
  cases hr : resolveRefs σ with
  | error c =>
    obtain ⟨e, he, hrel⟩ := SchemaPostResolve.resolveRefs_err σ c hs hm hr
    obtain ⟨msg, rfl, hc⟩ := errClass_of_rel hrel
    simp [he, hc]
  | ok σ1 =>
    simp only
    rw [SchemaPostResolve.resolveRefs_ok σ σ1 hs hm hr]
    have hrinv := resolveRefs_inv hinv hr
    have hne1 := resolveRefs_noEmpty hr (grammar_noEmpty ht hg)
    have hall : ∀ ty ∈ σ1.allTypes, GoodType σ1 ty.inner := fun ty hty => ⟨hrinv.res ty hty, hne1 ty hty⟩
    obtain ⟨σ2, h2⟩ := computeRecursive_ok hall
    rw [h2, SchemaPostRec.computeRecursive_eq σ1 σ2 h2]
    simp only
    obtain ⟨σ3, h3⟩ := pruneUnused_ok σ2
    have hnames : NamesOk σ2 := by
      have h0 := grammar_names ht hg
      have h1 : NamesOk σ1 := by
        intro n hn; rw [(resolveRefs_sameNames hinv hr).defNames] at hn; exact h0 n hn
      unfold computeRecursive at h2
      split at h2
      · cases h2
      · cases h2
        intro n hn; rw [(applyMarks_sameNames σ1 _).defNames] at hn; exact h1 n hn
    have hn : ∀ s ∈ σ2.structs, s.isRoot = true → s.name ≠ [] := by
      intro s hs _
      exact (hnames s.name (by simp only [Schema.defNames, List.mem_append, List.mem_map]; exact Or.inl ⟨s, hs, rfl⟩)).ne_nil
    obtain ⟨u, hu⟩ := SchemaPostReach.pruneUnused_eq σ2 σ3 hn h3
    rw [h3, hu]

/-- **`Parser.Parse` with the regenerated ResolveRefs / computeRecursive / PruneUnused is the hand model's
    `parseTokens`**, on every token sequence whose identifiers are identifiers (every output of the lexer). -/
theorem genParseTokens_eq {ts : List Token} (ht : TsOk PIdent ts) : genParseTokens ts = parseTokens ts := by
  unfold genParseTokens parseTokens
  cases hg : grammar ts with
  | err p c => rfl
  | ok σ ts' => simp only; exact genPost_eq ht hg _

/-- **`idl.Parse` with the regenerated post-processing is the hand model's `parse`** - for EVERY input. -/
theorem genPostParse_eq (t : List Char) : genPostParse t = parse t := genParseTokens_eq (lex_tsOk t)

end Stef.Proofs.SchemaPostGen
