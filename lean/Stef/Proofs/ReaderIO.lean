/-
  Lemma level of Stef.ReaderIO: what one call of each layer does to the bytes that are still to
  be delivered (`rest`), for every behaviour schedule that keeps the io.Reader contract.
-/
import Stef.ReaderIO

namespace Stef.ReaderIO

/-! ### schedules -/

theorem contract_cons {b : Beh} {σ : List Beh} (h : Contract (b :: σ)) :
    leadingZeros (b :: σ) < maxEmptyReads ∧ Contract σ := by
  unfold Contract contractB at h
  simp only [Bool.and_eq_true, decide_eq_true_eq] at h
  exact h

theorem contract_tail {σ : List Beh} (h : Contract σ) : Contract σ.tail := by
  cases σ with
  | nil => exact h
  | cons b σ => exact (contract_cons h).2

theorem contract_lz {σ : List Beh} (h : Contract σ) : leadingZeros σ < maxEmptyReads := by
  cases σ with
  | nil => simp [leadingZeros, maxEmptyReads]
  | cons b σ => exact (contract_cons h).1

theorem contract_nil : Contract [] := rfl

/-! ### the caller's reader -/

namespace Src

theorem read_fail (s : Src) (n : Nat) : (s.read n).1.fail = s.fail := by
  unfold Src.read; simp only; split <;> (try split) <;> rfl

theorem read_sched (s : Src) (n : Nat) : (s.read n).1.sched = s.sched.tail := by
  unfold Src.read; simp only; split <;> (try split) <;> rfl

theorem read_term (s : Src) (n : Nat) : (s.read n).1.term = s.term := by
  unfold Src.term; rw [read_fail]

theorem read_data (s : Src) (n : Nat) : (s.read n).2.1 ++ (s.read n).1.data = s.data := by
  unfold Src.read; simp only
  split
  · simp
  · split
    · simp
    · simp [List.take_append_drop]

theorem read_len (s : Src) (n : Nat) : (s.read n).2.1.length ≤ n := by
  unfold Src.read; simp only
  split
  · simp
  · split
    · simp
    · simp only [List.length_take]; omega

theorem read_err (s : Src) (n : Nat) :
    (s.read n).2.2 = none ∨ ((s.read n).2.2 = some s.term ∧ (s.read n).1.data = []) := by
  unfold Src.read; simp only
  split
  · left; rfl
  · split
    · rename_i h; right; exact ⟨rfl, by simpa using h⟩
    · split
      · rename_i h
        simp only [Bool.and_eq_true, List.isEmpty_iff] at h
        right; exact ⟨rfl, h.2⟩
      · left; rfl

/-- a call that returns `0, nil` for a non-empty buffer used up a `want = 0` entry of the schedule -/
theorem read_zero (s : Src) (n : Nat) (hn : 0 < n) (hg : (s.read n).2.1 = [])
    (he : (s.read n).2.2 = none) : ∃ z rest, s.sched = z :: rest ∧ z.want = 0 := by
  by_cases hw : (s.sched.headD { want := n }).want = 0
  · cases hs : s.sched with
    | nil => rw [hs] at hw; simp at hw; omega
    | cons z rest => rw [hs] at hw; exact ⟨z, rest, rfl, by simpa using hw⟩
  · exfalso
    unfold Src.read at hg he; simp only [hw, ↓reduceIte] at hg he
    by_cases hd : s.data.isEmpty = true
    · simp [hd] at he
    · simp only [hd] at hg
      have hne : s.data ≠ [] := by simpa using hd
      simp only [Bool.false_eq_true, ↓reduceIte, List.take_eq_nil_iff] at hg
      rcases hg with hg | hg
      · omega
      · exact hne hg

theorem read_sched_len (s : Src) (n : Nat) : (s.read n).1.sched.length ≤ s.sched.length := by
  rw [read_sched]; simp

end Src


/-! ### io.ReadFull over any reader whose single reads deliver a prefix of a `view` -/

section Generic
variable {S : Type} (rd : S → Nat → S × Bytes × Option Err)
  (Inv : S → Nat → Prop) (view : S → Bytes) (budget : S → Nat) (T : Err)

/-- what a single `Read` has to satisfy: `Inv s k` is the invariant of the reader when `k` more
    bytes are wanted; `budget` bounds the `0, nil` results that are still possible. -/
def StepOK : Prop :=
  ∀ s k, 0 < k → Inv s k →
    Inv (rd s k).1 (k - (rd s k).2.1.length) ∧
    (rd s k).2.1 ++ view (rd s k).1 = view s ∧
    (rd s k).2.1.length ≤ k ∧
    budget (rd s k).1 ≤ budget s ∧
    ((rd s k).2.1 = [] → (rd s k).2.2 = none → budget (rd s k).1 < budget s) ∧
    (∀ x, (rd s k).2.2 = some x → view (rd s k).1 = [] ∧ x = T)

theorem readAtLeastLoop_spec (step : StepOK rd Inv view budget T) :
    ∀ (fuel : Nat) (s : S) (N n : Nat) (acc : Bytes), n = acc.length → n ≤ N → Inv s (N - n) →
      (N - n) + budget s < fuel →
      (readAtLeastLoop rd fuel s N N n acc).2.1 = (readAtLeastLoop rd fuel s N N n acc).2.2.1.length ∧
      (∃ got, (readAtLeastLoop rd fuel s N N n acc).2.2.1 = acc.reverse ++ got ∧
              got ++ view (readAtLeastLoop rd fuel s N N n acc).1 = view s) ∧
      Inv (readAtLeastLoop rd fuel s N N n acc).1 (N - (readAtLeastLoop rd fuel s N N n acc).2.1) ∧
      budget (readAtLeastLoop rd fuel s N N n acc).1 ≤ budget s ∧
      (readAtLeastLoop rd fuel s N N n acc).2.1 ≤ N ∧
      ((readAtLeastLoop rd fuel s N N n acc).2.2.2 = none → (readAtLeastLoop rd fuel s N N n acc).2.1 = N) ∧
      (∀ x, (readAtLeastLoop rd fuel s N N n acc).2.2.2 = some x →
        view (readAtLeastLoop rd fuel s N N n acc).1 = [] ∧ x = T) := by
  intro fuel
  induction fuel with
  | zero => intro s N n acc _ _ _ hf; omega
  | succ fuel ih =>
    intro s N n acc hn hle hinv hf
    unfold readAtLeastLoop
    by_cases hlt : n < N
    · simp only [hlt, ↓reduceIte]
      obtain ⟨s1, s2, s3, s4, s5, s6⟩ := step s (N - n) (by omega) hinv
      rcases hr : rd s (N - n) with ⟨s', got, e⟩
      rw [hr] at s1 s2 s3 s4 s5 s6
      simp only at s1 s2 s3 s4 s5 s6
      have hinv' : Inv s' (N - (n + got.length)) := by
        have : N - (n + got.length) = N - n - got.length := by omega
        rw [this]; exact s1
      cases e with
      | some x =>
        simp only
        refine ⟨by simp [hn], ⟨got, by simp, s2⟩, hinv', s4, by omega, (by intro h; cases h), ?_⟩
        intro y hy; cases hy; exact s6 x rfl
      | none =>
        simp only
        have hf' : (N - (n + got.length)) + budget s' < fuel := by
          by_cases hg : got = []
          · have := s5 hg rfl; subst hg; simp; omega
          · have : 0 < got.length := List.length_pos_iff.mpr hg
            omega
        obtain ⟨r1, ⟨got', r2, r2'⟩, r3, r4, r5, r6, r7⟩ :=
          ih s' N (n + got.length) (got.reverse ++ acc) (by simp [hn]; omega) (by omega) hinv' hf'
        refine ⟨r1, ⟨got ++ got', ?_, ?_⟩, r3, Nat.le_trans r4 s4, r5, r6, r7⟩
        · rw [r2]; simp
        · rw [List.append_assoc, r2', s2]
    · simp only [hlt, ↓reduceIte]
      have : n = N := by omega
      subst this
      refine ⟨by simp [hn], ⟨[], by simp, by simp⟩, hinv, Nat.le_refl _, Nat.le_refl _, (fun _ => rfl), ?_⟩
      intro x hx; cases hx

/-- **io.ReadFull**, for every reader whose `Read` satisfies `StepOK`: exactly the next `N` bytes of
    the view when there are that many; otherwise everything that was left, and the error is the
    terminal error if nothing was read, io.ErrUnexpectedEOF if something was read and the terminal
    error is io.EOF, the terminal error itself otherwise. The fuel of the model's loop suffices. -/
theorem readFullG_spec (step : StepOK rd Inv view budget T) (fuel : Nat) (s : S) (N : Nat)
    (hinv : Inv s N) (hf : N + budget s < fuel) :
    Inv (readFullG rd fuel s N).1 (N - (readFullG rd fuel s N).2.1.length) ∧
    (readFullG rd fuel s N).2.1 ++ view (readFullG rd fuel s N).1 = view s ∧
    budget (readFullG rd fuel s N).1 ≤ budget s ∧
    (N ≤ (view s).length → (readFullG rd fuel s N).2.1.length = N ∧ (readFullG rd fuel s N).2.2 = none) ∧
    ((view s).length < N → view (readFullG rd fuel s N).1 = [] ∧
      (readFullG rd fuel s N).2.2 =
        some (if view s = [] then T else if T = .eof then .unexpectedEof else T)) := by
  obtain ⟨r1, ⟨got, r2, r2'⟩, r3, r4, r5, r6, r7⟩ :=
    readAtLeastLoop_spec rd Inv view budget T step fuel s N 0 [] rfl (Nat.zero_le _) hinv (by omega)
  unfold readFullG readAtLeast
  simp only [Nat.lt_irrefl, ↓reduceIte]
  rcases hr : readAtLeastLoop rd fuel s N N 0 [] with ⟨s', n, bytes, e⟩
  rw [hr] at r1 r2 r2' r3 r4 r5 r6 r7
  simp only [List.reverse_nil, List.nil_append] at r1 r2 r2' r3 r4 r5 r6 r7
  subst r2
  have hlen : (view s).length = bytes.length + (view s').length := by rw [← r2']; simp
  by_cases hge : n ≥ N
  · have hnN : n = N := by omega
    simp only [hge, ↓reduceIte]
    refine ⟨by rw [← r1]; exact r3, r2', r4, fun _ => ⟨by omega, trivial⟩, ?_⟩
    intro hlt; omega
  · simp only [hge, ↓reduceIte]
    cases e with
    | none => exact absurd (r6 rfl) (by omega)
    | some x =>
      obtain ⟨hv, hx⟩ := r7 x rfl
      subst hx
      have hb : bytes = view s := by rw [← r2', hv]; simp
      have hres : (if n > 0 ∧ some x = some Err.eof then (s', bytes, some Err.unexpectedEof) else (s', bytes, some x))
          = (s', bytes, some (if view s = [] then x else if x = .eof then .unexpectedEof else x)) := by
        by_cases hvs : view s = []
        · have : n = 0 := by rw [r1, hb, hvs]; rfl
          simp [hvs, this]
        · have : n > 0 := by
            rw [r1, hb]; exact List.length_pos_iff.mpr hvs
          by_cases hxe : x = .eof
          · simp [hvs, this, hxe]
          · simp [hvs, this, hxe]
      rw [hres]
      refine ⟨by rw [← r1]; exact r3, r2', r4, ?_, fun _ => ⟨hv, rfl⟩⟩
      intro hle
      rw [hv] at hlen
      simp at hlen
      omega

end Generic

theorem append_take_drop {α : Type} {a b l : List α} {n : Nat} (h : a ++ b = l) (hl : a.length = n) :
    a = l.take n ∧ b = l.drop n := by
  subst h; subst hl; simp

/-- the documented error of a short `io.ReadFull` -/
def shortErr (rest : Bytes) (T : Err) : Err :=
  if rest = [] then T else if T = .eof then .unexpectedEof else T

/-- canonical form of `readFullG_spec`: the bytes, the state's view and the error as functions of
    the view before the call. -/
theorem readFullG_canon {S : Type} (rd : S → Nat → S × Bytes × Option Err)
    (Inv : S → Nat → Prop) (view : S → Bytes) (budget : S → Nat) (T : Err)
    (step : StepOK rd Inv view budget T) (fuel : Nat) (s : S) (N : Nat)
    (hinv : Inv s N) (hf : N + budget s < fuel) :
    (readFullG rd fuel s N).2.1 = (view s).take N ∧
    view (readFullG rd fuel s N).1 = (view s).drop N ∧
    (readFullG rd fuel s N).2.2 = (if N ≤ (view s).length then none else some (shortErr (view s) T)) ∧
    Inv (readFullG rd fuel s N).1 (N - (readFullG rd fuel s N).2.1.length) ∧
    budget (readFullG rd fuel s N).1 ≤ budget s := by
  obtain ⟨h1, h2, h3, h4, h5⟩ := readFullG_spec rd Inv view budget T step fuel s N hinv hf
  by_cases hle : N ≤ (view s).length
  · obtain ⟨hl, he⟩ := h4 hle
    obtain ⟨ha, hb⟩ := append_take_drop h2 hl
    exact ⟨ha, hb, by simp [hle, he], h1, h3⟩
  · obtain ⟨hv, he⟩ := h5 (by omega)
    rw [hv] at h2
    simp only [List.append_nil] at h2
    refine ⟨?_, ?_, by simp [hle, he, shortErr], h1, h3⟩
    · rw [h2]; exact (List.take_of_length_le (by omega)).symm
    · rw [hv]; exact (List.drop_eq_nil_of_le (by omega)).symm

namespace Src

/-- `io.ReadFull(source, buf)` directly on the caller's reader -/
def readFullN (s : Src) (n : Nat) : Src × Bytes × Option Err :=
  readFullG Src.read (n + s.sched.length + 1) s n

theorem read_stepOK (F : Bool) :
    StepOK Src.read (fun s _ => s.fail = F) (fun s => s.data) (fun s => s.sched.length)
      (if F then .srcFail else .eof) := by
  intro s k hk hinv
  refine ⟨by show (s.read k).1.fail = F; rw [read_fail]; exact hinv, read_data s k, read_len s k, read_sched_len s k, ?_, ?_⟩
  · intro hg he
    obtain ⟨z, rest, hz, _⟩ := read_zero s k hk hg he
    show (s.read k).1.sched.length < s.sched.length
    rw [read_sched, hz]; simp
  · intro x hx
    rcases read_err s k with h | ⟨h1, h2⟩
    · rw [h] at hx; cases hx
    · rw [h1] at hx; cases hx
      exact ⟨h2, by simp [Src.term, hinv]⟩

/-- **readFull_spec**: `io.ReadFull` over a source with ANY behaviour schedule (zero-byte reads,
    short reads, the error with or after the last byte) returns exactly the next `n` bytes, or -
    when the data ends first - everything that was left together with io.EOF (nothing read),
    io.ErrUnexpectedEOF (something read, the source ends with io.EOF) or the source's own error. -/
theorem readFull_spec (s : Src) (n : Nat) :
    (s.readFullN n).2.1 = s.data.take n ∧
    (s.readFullN n).1.data = s.data.drop n ∧
    (s.readFullN n).2.2 = (if n ≤ s.data.length then none else some (shortErr s.data s.term)) ∧
    (s.readFullN n).1.fail = s.fail := by
  obtain ⟨h1, h2, h3, h4, _⟩ := readFullG_canon Src.read (fun x _ => x.fail = s.fail) (fun x => x.data)
    (fun x => x.sched.length) _ (read_stepOK s.fail) (n + s.sched.length + 1) s n rfl (by omega)
  exact ⟨h1, h2, h3, h4⟩

end Src

/-! ### bufio.Reader -/

namespace Bufio

def term (b : Bufio) : Err := b.src.term

/-- invariant of the bufio layer: a stored error is the source's terminal error and the source has
    nothing left; the rest of the schedule keeps the contract. -/
structure WF (b : Bufio) : Prop where
  size_pos : 0 < b.size
  err_end : ∀ e, b.err = some e → e = b.src.term ∧ b.src.data = []
  contract : Contract b.src.sched

theorem fillLoop_spec : ∀ (i : Nat) (b : Bufio), b.buf = [] → b.err = none → 0 < b.size →
    Contract b.src.sched → leadingZeros b.src.sched < i →
    (fillLoop i b).size = b.size ∧ (fillLoop i b).src.fail = b.src.fail ∧
    (fillLoop i b).buf ++ (fillLoop i b).src.data = b.src.data ∧
    Contract (fillLoop i b).src.sched ∧ (fillLoop i b).src.sched.length ≤ b.src.sched.length ∧
    (((fillLoop i b).err = none ∧ (fillLoop i b).buf ≠ []) ∨
     ((fillLoop i b).err = some b.src.term ∧ (fillLoop i b).src.data = [])) := by
  intro i
  induction i with
  | zero => intro b _ _ _ _ hz; omega
  | succ i ih =>
    intro b hb he hs hc hz
    have hsz : b.size - b.buf.length = b.size := by simp [hb]
    unfold fillLoop
    rw [hsz]
    have hdat := Src.read_data b.src b.size
    have herr := Src.read_err b.src b.size
    have hfl := Src.read_fail b.src b.size
    have hsc := Src.read_sched b.src b.size
    have hzero := Src.read_zero b.src b.size hs
    rcases hr : b.src.read b.size with ⟨s', got, e⟩
    rw [hr] at hdat herr hfl hsc hzero
    simp only at hdat herr hfl hsc hzero
    have hc' : Contract s'.sched := by rw [hsc]; exact contract_tail hc
    have hl' : s'.sched.length ≤ b.src.sched.length := by rw [hsc]; simp
    cases e with
    | some e =>
      simp only [hb, List.nil_append]
      rcases herr with h | ⟨h1, h2⟩
      · cases h
      · refine ⟨trivial, hfl, hdat, hc', hl', Or.inr ⟨?_, h2⟩⟩
        simpa using h1
    | none =>
      simp only [hb, List.nil_append]
      by_cases hg : got.length > 0
      · simp only [hg, ↓reduceIte]
        refine ⟨trivial, hfl, hdat, hc', hl', Or.inl ⟨he, ?_⟩⟩
        intro h; simp [h] at hg
      · simp only [hg, ↓reduceIte]
        have hg0 : got = [] := by
          cases got with
          | nil => rfl
          | cons _ _ => simp at hg
        obtain ⟨z, rest, hzs, hzw⟩ := hzero hg0 rfl
        subst hg0
        simp only [List.nil_append] at hdat
        have hz' : leadingZeros s'.sched < i := by
          rw [hsc, hzs]; rw [hzs] at hz
          simp only [leadingZeros, hzw, ↓reduceIte, List.tail_cons] at hz ⊢
          omega
        have := ih { src := s', size := b.size, buf := [], err := b.err } rfl he hs hc' hz'
        simp only at this
        obtain ⟨a1, a2, a3, a4, a5, a6⟩ := this
        refine ⟨a1, by rw [a2, hfl], by rw [a3, hdat], a4, Nat.le_trans a5 hl', ?_⟩
        have ht : s'.term = b.src.term := by unfold Src.term; rw [hfl]
        rw [ht] at a6; exact a6

theorem rest_nil_buf {b : Bufio} (h : b.buf = []) : b.rest = b.src.data := by
  simp [Bufio.rest, h]

/-- **bufio ReadByte**: the next undelivered byte of the source, whatever the schedule; the
    terminal error exactly when nothing is left. -/
theorem readByte_spec (b : Bufio) (h : b.WF) :
    (b.readByte).1.WF ∧ (b.readByte).1.size = b.size ∧ (b.readByte).1.src.fail = b.src.fail ∧
    (b.readByte).1.src.sched.length ≤ b.src.sched.length ∧
    (b.readByte).1.rest = b.rest.tail ∧
    (b.readByte).2 = (match b.rest with | [] => .error b.term | c :: _ => .ok c) := by
  cases hb : b.buf with
  | cons c rest =>
    have hrb : b.readByte = ({ b with buf := rest }, .ok c) := by unfold Bufio.readByte; rw [hb]
    rw [hrb]
    refine ⟨⟨h.size_pos, h.err_end, h.contract⟩, rfl, rfl, Nat.le_refl _, ?_, ?_⟩
    · simp [Bufio.rest, hb]
    · simp [Bufio.rest, hb]
  | nil =>
    cases he : b.err with
    | some e =>
      obtain ⟨h1, h2⟩ := h.err_end e he
      have hrb : b.readByte = ({ b with err := none }, .error e) := by
        unfold Bufio.readByte; rw [hb]; simp only [he]
      rw [hrb]
      refine ⟨⟨h.size_pos, (by intro e h; cases h), h.contract⟩, rfl, rfl, Nat.le_refl _, ?_, ?_⟩
      · simp [Bufio.rest, hb, h2]
      · simp [Bufio.rest, hb, h2, h1, Bufio.term]
    | none =>
      obtain ⟨a1, a2, a3, a4, a5, a6⟩ :=
        fillLoop_spec maxEmptyReads b hb he h.size_pos h.contract (contract_lz h.contract)
      have hrest : b.rest = (fillLoop maxEmptyReads b).buf ++ (fillLoop maxEmptyReads b).src.data := by
        rw [rest_nil_buf hb, a3]
      have ht : (fillLoop maxEmptyReads b).src.term = b.src.term := by unfold Src.term; rw [a2]
      cases hb' : (fillLoop maxEmptyReads b).buf with
      | cons c rest =>
        have hrb : b.readByte = ({ fillLoop maxEmptyReads b with buf := rest }, .ok c) := by
          unfold Bufio.readByte; rw [hb]; simp only [he, Bufio.fill, hb']
        rw [hrb, hrest, hb']
        refine ⟨⟨(by show 0 < (fillLoop maxEmptyReads b).size; rw [a1]; exact h.size_pos), ?_, a4⟩, a1, a2, a5, ?_, ?_⟩
        · intro e hee
          rcases a6 with ⟨h1, _⟩ | ⟨h1, h2⟩
          · simp only [h1] at hee; cases hee
          · simp only [h1] at hee; cases hee; exact ⟨ht.symm, h2⟩
        · simp [Bufio.rest]
        · simp
      | nil =>
        rcases a6 with ⟨_, h2⟩ | ⟨h1, h2⟩
        · exact absurd hb' h2
        · have hrb : b.readByte = ({ fillLoop maxEmptyReads b with err := none }, .error b.src.term) := by
            unfold Bufio.readByte; rw [hb]; simp only [he, Bufio.fill, hb', h1]
          rw [hrb, hrest, hb', h2]
          refine ⟨⟨(by show 0 < (fillLoop maxEmptyReads b).size; rw [a1]; exact h.size_pos), (by intro e h; cases h), a4⟩, a1, a2, a5, ?_, ?_⟩
          · simp [Bufio.rest, hb', h2]
          · simp [Bufio.term]

theorem take_ne_nil {α : Type} {l : List α} {n : Nat} (hn : 0 < n) (hl : l ≠ []) : l.take n ≠ [] := by
  intro h
  rw [List.take_eq_nil_iff] at h
  rcases h with h | h
  · omega
  · exact hl h

/-- **bufio Read**: one call delivers a prefix of the undelivered bytes (at most `n`), in order,
    whatever the schedule; an error is reported only once everything has been delivered, and
    together with bytes only by the large-read bypass; a `0, nil` uses up a schedule entry. -/
theorem read_spec (b : Bufio) (h : b.WF) (n : Nat) (hn : 0 < n) :
    (b.read n).1.WF ∧ (b.read n).1.size = b.size ∧ (b.read n).1.src.fail = b.src.fail ∧
    (b.read n).1.src.sched.length ≤ b.src.sched.length ∧
    (b.read n).2.1 ++ (b.read n).1.rest = b.rest ∧
    (b.read n).2.1.length ≤ n ∧
    ((b.read n).2.2 = none ∨ ((b.read n).2.2 = some b.term ∧ (b.read n).1.rest = [])) ∧
    ((b.read n).2.1 = [] → (b.read n).2.2 = none →
      (b.read n).1.src.sched.length < b.src.sched.length) ∧
    ((b.read n).2.2 ≠ none → (b.read n).2.1 ≠ [] → b.size ≤ n) := by
  have hn0 : ¬ n = 0 := by omega
  cases hb : b.buf with
  | cons c t =>
    have hr : b.read n = ({ b with buf := b.buf.drop n }, b.buf.take n, none) := by
      unfold Bufio.read; simp only [hn0, ↓reduceIte]; rw [hb]
    rw [hr]
    refine ⟨⟨h.size_pos, h.err_end, h.contract⟩, rfl, rfl, Nat.le_refl _, ?_, ?_, Or.inl rfl, ?_, ?_⟩
    · simp only [Bufio.rest]; rw [← List.append_assoc, List.take_append_drop]
    · simp only [List.length_take]; omega
    · intro hg; exact absurd hg (take_ne_nil hn (by rw [hb]; simp))
    · intro hne; exact absurd rfl hne
  | nil =>
    cases he : b.err with
    | some e =>
      obtain ⟨h1, h2⟩ := h.err_end e he
      have hr : b.read n = ({ b with err := none }, [], some e) := by
        unfold Bufio.read; simp only [hn0, ↓reduceIte]; rw [hb]; simp only [he]
      rw [hr]
      refine ⟨⟨h.size_pos, (by intro e h; cases h), h.contract⟩, rfl, rfl, Nat.le_refl _, ?_, ?_, Or.inr ⟨?_, ?_⟩, ?_, ?_⟩
      · simp [Bufio.rest]
      · simp
      · simp [h1, Bufio.term]
      · simp [Bufio.rest, hb, h2]
      · intro _ hne; cases hne
      · intro _ hne; exact absurd rfl hne
    | none =>
      by_cases hbig : n ≥ b.size
      · have hr : b.read n = ({ b with src := (b.src.read n).1, err := none }, (b.src.read n).2.1, (b.src.read n).2.2) := by
          unfold Bufio.read; simp only [hn0, ↓reduceIte]; rw [hb]; simp only [he, hbig, ↓reduceIte]
        rw [hr]
        have hdat := Src.read_data b.src n
        have herr := Src.read_err b.src n
        refine ⟨⟨h.size_pos, (by intro e h; cases h), ?_⟩, rfl, Src.read_fail _ _, Src.read_sched_len _ _, ?_, Src.read_len _ _, ?_, ?_, ?_⟩
        · show Contract (b.src.read n).1.sched
          rw [Src.read_sched]; exact contract_tail h.contract
        · simp only [Bufio.rest, hb, List.nil_append]; exact hdat
        · rcases herr with h1 | ⟨h1, h2⟩
          · exact Or.inl h1
          · exact Or.inr ⟨h1, by simp [Bufio.rest, hb, h2]⟩
        · intro hg hee
          obtain ⟨z, rest, hz, _⟩ := Src.read_zero b.src n hn hg hee
          show (b.src.read n).1.sched.length < _
          rw [Src.read_sched, hz]; simp
        · intro _ _; exact hbig
      · by_cases hg : (b.src.read b.size).2.1.isEmpty = true
        · have hr : b.read n = ({ b with src := (b.src.read b.size).1, err := none }, [], (b.src.read b.size).2.2) := by
            unfold Bufio.read; simp only [hn0, ↓reduceIte]; rw [hb]; simp only [he, hbig, ↓reduceIte, hg]
          rw [hr]
          have hg' : (b.src.read b.size).2.1 = [] := by simpa using hg
          have hdat := Src.read_data b.src b.size
          rw [hg'] at hdat
          have herr := Src.read_err b.src b.size
          refine ⟨⟨h.size_pos, (by intro e h; cases h), ?_⟩, rfl, Src.read_fail _ _, Src.read_sched_len _ _, ?_, by simp, ?_, ?_, ?_⟩
          · show Contract (b.src.read b.size).1.sched
            rw [Src.read_sched]; exact contract_tail h.contract
          · simp only [Bufio.rest, hb, List.nil_append]; exact hdat
          · rcases herr with h1 | ⟨h1, h2⟩
            · exact Or.inl h1
            · exact Or.inr ⟨h1, by simp [Bufio.rest, hb, h2]⟩
          · intro _ hee
            obtain ⟨z, rest, hz, _⟩ := Src.read_zero b.src b.size h.size_pos hg' hee
            show (b.src.read b.size).1.sched.length < _
            rw [Src.read_sched, hz]; simp
          · intro _ hne; exact absurd rfl hne
        · have hr : b.read n = ({ b with src := (b.src.read b.size).1, err := (b.src.read b.size).2.2,
                                         buf := (b.src.read b.size).2.1.drop n },
                                 (b.src.read b.size).2.1.take n, none) := by
            unfold Bufio.read; simp only [hn0, ↓reduceIte]; rw [hb]; simp only [he, hbig, ↓reduceIte, hg]
            rfl
          rw [hr]
          have hg' : (b.src.read b.size).2.1 ≠ [] := by simpa using hg
          have hdat := Src.read_data b.src b.size
          have herr := Src.read_err b.src b.size
          refine ⟨⟨h.size_pos, ?_, ?_⟩, rfl, Src.read_fail _ _, Src.read_sched_len _ _, ?_, ?_, Or.inl rfl, ?_, ?_⟩
          · intro e hee
            simp only at hee
            rcases herr with h1 | ⟨h1, h2⟩
            · rw [h1] at hee; cases hee
            · rw [h1] at hee; cases hee
              exact ⟨(Src.read_term _ _).symm, h2⟩
          · show Contract (b.src.read b.size).1.sched
            rw [Src.read_sched]; exact contract_tail h.contract
          · simp only [Bufio.rest, hb, List.nil_append]
            rw [← List.append_assoc, List.take_append_drop]; exact hdat
          · simp only [List.length_take]; omega
          · intro hgg; exact absurd hgg (take_ne_nil hn hg')
          · intro hne; exact absurd rfl hne

theorem read_stepOK (B : Nat) (F : Bool) :
    StepOK Bufio.read (fun b _ => b.WF ∧ b.size = B ∧ b.src.fail = F) Bufio.rest
      (fun b => b.src.sched.length) (if F then .srcFail else .eof) := by
  intro b k hk ⟨hw, hs, hf⟩
  obtain ⟨a1, a2, a3, a4, a5, a6, a7, a8, _⟩ := read_spec b hw k hk
  refine ⟨⟨a1, by rw [a2, hs], by rw [a3, hf]⟩, a5, a6, a4, a8, ?_⟩
  intro x hx
  rcases a7 with h | ⟨h1, h2⟩
  · rw [h] at hx; cases hx
  · rw [h1] at hx; cases hx
    exact ⟨h2, by simp [Bufio.term, Src.term, hf]⟩

/-- **io.ReadFull over bufio**: the next `n` undelivered bytes of the source, or the documented
    short result; the same for every contract-abiding schedule. -/
theorem readFullN_spec (b : Bufio) (h : b.WF) (n : Nat) :
    (b.readFullN n).2.1 = b.rest.take n ∧
    (b.readFullN n).1.rest = b.rest.drop n ∧
    (b.readFullN n).2.2 = (if n ≤ b.rest.length then none else some (shortErr b.rest b.term)) ∧
    (b.readFullN n).1.WF ∧ (b.readFullN n).1.size = b.size ∧ (b.readFullN n).1.src.fail = b.src.fail ∧
    (b.readFullN n).1.src.sched.length ≤ b.src.sched.length := by
  obtain ⟨h1, h2, h3, ⟨h4, h5, h6⟩, h7⟩ := readFullG_canon Bufio.read
    (fun x _ => x.WF ∧ x.size = b.size ∧ x.src.fail = b.src.fail) Bufio.rest
    (fun x => x.src.sched.length) _ (read_stepOK b.size b.src.fail) (n + b.src.sched.length + 1) b n
    ⟨h, rfl, rfl⟩ (by omega)
  exact ⟨h1, h2, h3, h4, h5, h6, h7⟩

theorem readFull_spec (b : Bufio) (h : b.WF) (n : Nat) :
    (b.readFull n).2 = (if n ≤ b.rest.length then .ok (b.rest.take n) else .error (shortErr b.rest b.term)) ∧
    (b.readFull n).1.rest = b.rest.drop n ∧
    (b.readFull n).1.WF ∧ (b.readFull n).1.size = b.size ∧ (b.readFull n).1.src.fail = b.src.fail ∧
    (b.readFull n).1.src.sched.length ≤ b.src.sched.length := by
  obtain ⟨h1, h2, h3, h4, h5, h6, h7⟩ := readFullN_spec b h n
  unfold Bufio.readFull
  rcases hr : b.readFullN n with ⟨b', got, e⟩
  rw [hr] at h1 h2 h3 h4 h5 h6 h7
  simp only at h1 h2 h3 h4 h5 h6 h7
  by_cases hle : n ≤ b.rest.length
  · simp only [hle, ↓reduceIte] at h3 ⊢
    subst h3
    exact ⟨by simp [toExcept, h1], h2, h4, h5, h6, h7⟩
  · simp only [hle, ↓reduceIte] at h3 ⊢
    subst h3
    exact ⟨by simp [toExcept], h2, h4, h5, h6, h7⟩

end Bufio

end Stef.ReaderIO
