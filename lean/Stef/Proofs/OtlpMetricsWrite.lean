/-
  The unsorted OTLP -> STEF converter writes, for every data point of a clean batch, a record that
  reads back as that data point (Stef/Otlp/Metrics.lean). The only state invariant that matters is
  that the (possibly stale) aggregation temporality of the re-used Metric stays a valid one.
-/
import Stef.Proofs.OtlpMetrics

namespace Stef.Otlp

/-- invariant of the writer's state: the temporality held by the re-used record is a valid one
    (a gauge or summary does not rewrite it, and the reader converts it whatever the type) -/
def WState.inv (st : WState) : Prop := st.cur.metric.temp ≤ 2

/-! ### exemplars -/

/-- an exemplar as it comes back: filtered attributes in key order -/
def sortExAttrs (e : Exemplar) : Exemplar := { e with attrs := e.attrs.sortByKey }

/-- value an exemplar ends up with in the (re-used) destination -/
def exValueInto (e : Exemplar) (d : SExemplar) : ExValue :=
  match e.vt with
  | 0 => .none
  | 1 => .int e.v
  | _ => (match d.value with | .dbl o => .dbl (setF o e.v) | _ => .dbl e.v)

def exInto (e : Exemplar) (tmp : SAttrs) (d : SExemplar) : SExemplar :=
  { ts := e.ts, value := exValueInto e d, spanID := e.spanID, traceID := e.traceID,
    attrs := SAttrs.copyFrom (SAttrs.mapSorted e.attrs tmp).visible d.attrs }

theorem convExemplar_eq (e : Exemplar) (tmp : SAttrs) (d : SExemplar) (hvt : e.vt ≤ 2) :
    convExemplar e tmp d = .ok (SAttrs.mapSorted e.attrs tmp, exInto e tmp d) := by
  have hvt' : e.vt = 0 ∨ e.vt = 1 ∨ e.vt = 2 := by omega
  rcases hvt' with h0 | h0 | h0
  · simp [convExemplar, exInto, exValueInto, h0]
  · simp [convExemplar, exInto, exValueInto, h0]
  · simp only [convExemplar, exInto, exValueInto, h0]
    rfl

theorem exValueInto_spec (e : Exemplar) (d : SExemplar) (hvt : e.vt ≤ 2) : exValueInto e d = exValueOf e := by
  have hvt' : e.vt = 0 ∨ e.vt = 1 ∨ e.vt = 2 := by omega
  rcases hvt' with h0 | h0 | h0
  · simp [exValueInto, exValueOf, h0]
  · simp [exValueInto, exValueOf, h0]
  · cases hdv : d.value <;> simp [exValueInto, exValueOf, h0, hdv, setF_eq]

/-- BaseSTEFToOTLP.ConvertExemplar when the ids have the right size -/
def exemplarBack (d : SExemplar) : Exemplar :=
  { ts := d.ts, vt := (match d.value with | .none => 0 | .int _ => 1 | .dbl _ => 2),
    v := (match d.value with | .none => 0 | .int v => v | .dbl v => v),
    traceID := d.traceID, spanID := d.spanID, attrs := d.attrs.toOtlp }

theorem exemplarToOtlp_ok (d : SExemplar) (h1 : d.traceID.length = 16) (h2 : d.spanID.length = 8) :
    exemplarToOtlp d = .ok (exemplarBack d) := by
  cases hv : d.value <;> simp [exemplarToOtlp, exemplarBack, h1, h2, hv]

theorem dExemplar_back (d : SExemplar) :
    dExemplar (exemplarBack d) = { ts := d.ts, value := d.value, traceID := d.traceID, spanID := d.spanID, attrs := d.attrs.toOtlp } := by
  cases hv : d.value <;> simp [dExemplar, exemplarBack, exValueOf, hv]

theorem exInto_spec (e : Exemplar) (tmp : SAttrs) (d : SExemplar) (hc : e.clean = true) :
    exemplarToOtlp (exInto e tmp d) = .ok (exemplarBack (exInto e tmp d)) ∧
    dExemplar (exemplarBack (exInto e tmp d)) = dExemplar (sortExAttrs e) := by
  simp only [Exemplar.clean, Bool.and_eq_true, decide_eq_true_eq] at hc
  obtain ⟨⟨hvt, hid⟩, ha⟩ := hc
  have hsc := KVs.sortByKey_clean e.attrs ha
  have hto : (SAttrs.copyFrom (SAttrs.mapSorted e.attrs tmp).visible d.attrs).toOtlp = e.attrs.sortByKey :=
    toOtlp_of_visible _ _ (by rw [copyFrom_spec, mapSorted_spec]) hsc
  simp only [validIds, Bool.and_eq_true, beq_iff_eq] at hid
  refine ⟨exemplarToOtlp_ok _ hid.1 hid.2, ?_⟩
  rw [dExemplar_back]
  simp [exInto, dExemplar, sortExAttrs, hto, exValueInto_spec e d hvt, exValueOf]

/-- what ConvertExemplars leaves in the temp attributes and in the store -/
def exsInto : List Exemplar → SAttrs → List SExemplar → SAttrs × List SExemplar
  | [], tmp, st => (tmp, st)
  | e :: es, tmp, d :: ds =>
    ((exsInto es (SAttrs.mapSorted e.attrs tmp) ds).1, exInto e tmp d :: (exsInto es (SAttrs.mapSorted e.attrs tmp) ds).2)
  | e :: es, tmp, [] =>
    ((exsInto es (SAttrs.mapSorted e.attrs tmp) []).1, exInto e tmp {} :: (exsInto es (SAttrs.mapSorted e.attrs tmp) []).2)

theorem convExemplarsLoop_eq : ∀ (es : List Exemplar) (tmp : SAttrs) (st : List SExemplar),
    (∀ e ∈ es, e.vt ≤ 2) → convExemplarsLoop es tmp st = .ok (exsInto es tmp st)
  | [], tmp, st, _ => rfl
  | e :: es, tmp, d :: ds, h => by
    simp only [convExemplarsLoop, convExemplar_eq e tmp d (h e (by simp)),
      convExemplarsLoop_eq es _ ds (fun x hx => h x (by simp [hx])), exsInto]
  | e :: es, tmp, [], h => by
    simp only [convExemplarsLoop, convExemplar_eq e tmp {} (h e (by simp)),
      convExemplarsLoop_eq es _ [] (fun x hx => h x (by simp [hx])), exsInto]

theorem exsInto_spec : ∀ (es : List Exemplar) (tmp : SAttrs) (st : List SExemplar),
    es.all Exemplar.clean = true →
    exemplarsToOtlp ((exsInto es tmp st).2.take es.length)
      = .ok (((exsInto es tmp st).2.take es.length).map exemplarBack) ∧
    (((exsInto es tmp st).2.take es.length).map exemplarBack).map dExemplar = es.map (fun e => dExemplar (sortExAttrs e))
  | [], tmp, st, _ => by simp [exsInto, exemplarsToOtlp]
  | e :: es, tmp, d :: ds, hc => by
    simp only [List.all_cons, Bool.and_eq_true] at hc
    have h1 := exInto_spec e tmp d hc.1
    have h2 := exsInto_spec es (SAttrs.mapSorted e.attrs tmp) ds hc.2
    simp only [exsInto, List.length_cons, List.take_succ_cons, List.map_cons, exemplarsToOtlp,
      h1.1, h1.2, h2.1, h2.2, and_self]
  | e :: es, tmp, [], hc => by
    simp only [List.all_cons, Bool.and_eq_true] at hc
    have h1 := exInto_spec e tmp {} hc.1
    have h2 := exsInto_spec es (SAttrs.mapSorted e.attrs tmp) [] hc.2
    simp only [exsInto, List.length_cons, List.take_succ_cons, List.map_cons, exemplarsToOtlp,
      h1.1, h1.2, h2.1, h2.2, and_self]

/-- the point after ConvertExemplars -/
def pointWithEx (es : List Exemplar) (tmp : SAttrs) (p : SPoint) : SPoint :=
  { p with exStore := (exsInto es tmp (exEnsureLen p.exStore p.exLen es.length)).2, exLen := es.length }

def tmpAfterEx (es : List Exemplar) (tmp : SAttrs) (p : SPoint) : SAttrs :=
  (exsInto es tmp (exEnsureLen p.exStore p.exLen es.length)).1

@[simp] theorem pointWithEx_value (es : List Exemplar) (tmp : SAttrs) (p : SPoint) : (pointWithEx es tmp p).value = p.value := rfl
@[simp] theorem pointWithEx_start (es : List Exemplar) (tmp : SAttrs) (p : SPoint) : (pointWithEx es tmp p).start = p.start := rfl
@[simp] theorem pointWithEx_ts (es : List Exemplar) (tmp : SAttrs) (p : SPoint) : (pointWithEx es tmp p).ts = p.ts := rfl

theorem convExemplars_eq (es : List Exemplar) (tmp : SAttrs) (p : SPoint) (h : ∀ e ∈ es, e.vt ≤ 2) :
    convExemplars es tmp p = .ok (tmpAfterEx es tmp p, pointWithEx es tmp p) := by
  simp only [convExemplars, convExemplarsLoop_eq es tmp _ h, tmpAfterEx, pointWithEx]

theorem clean_vt {es : List Exemplar} (h : es.all Exemplar.clean = true) : ∀ e ∈ es, e.vt ≤ 2 := by
  intro e he
  have := (List.all_eq_true.mp h) e he
  simp only [Exemplar.clean, Bool.and_eq_true, decide_eq_true_eq] at this
  exact this.1.1

theorem pointWithEx_spec (es : List Exemplar) (tmp : SAttrs) (p : SPoint) (hc : es.all Exemplar.clean = true) :
    exemplarsToOtlp (pointWithEx es tmp p).exemplars = .ok ((pointWithEx es tmp p).exemplars.map exemplarBack) ∧
    ((pointWithEx es tmp p).exemplars.map exemplarBack).map dExemplar = es.map (fun e => dExemplar (sortExAttrs e)) := by
  have h := exsInto_spec es tmp (exEnsureLen p.exStore p.exLen es.length) hc
  refine ⟨?_, ?_⟩
  · simpa [SPoint.exemplars, pointWithEx] using h.1
  · simpa [SPoint.exemplars, pointWithEx] using h.2

/-! ### what a reader makes of the written record -/

def DExemplar.sortAttrs (e : DExemplar) : DExemplar := { e with attrs := e.attrs.sortByKey }

/-- a data point as the unsorted round trip returns it: exemplar filtered attributes come back in
    key order (ConvertExemplars goes through MapSorted), everything else is unchanged -/
def DataPoint.sortExAttrs (d : DataPoint) : DataPoint := { d with exemplars := d.exemplars.map DExemplar.sortAttrs }

theorem dExemplar_sortExAttrs (e : Exemplar) : dExemplar (sortExAttrs e) = (dExemplar e).sortAttrs := rfl

/-- the writer's record shows resource `rid`, scope `sid` and the identity of metric `m` -/
def Shows (rec : SRecord) (rid : ResId) (sid : ScopeId) (m : Metric) : Prop :=
  rec.resource.id = rid ∧ rec.scope.id = sid ∧
  ∃ h, metricToOtlp rec.metric = .ok h ∧ metricId h = metricId m ∧ h.type = m.type

theorem dataPoint_eq (rid : ResId) (sid : ScopeId) (h m : Metric) (q p : Point) (hid : metricId h = metricId m)
    (ht : h.type = m.type) (ha : q.attrs = p.attrs) (hs : q.start = p.start) (hts : q.ts = p.ts) (hf : q.flags = p.flags)
    (hv : pointValue m.type q = pointValue m.type p)
    (he : m.type ≠ .summary → q.exemplars.map dExemplar = p.exemplars.map (fun e => dExemplar (sortExAttrs e))) :
    dataPoint rid sid h q = (dataPoint rid sid m p).sortExAttrs := by
  simp only [dataPoint, DataPoint.sortExAttrs, hid, ht, ha, hs, hts, hf, hv]
  cases hmt : m.type with
  | summary => simp
  | gauge => simp [he (by simp [hmt]), dExemplar_sortExAttrs]
  | sum => simp [he (by simp [hmt]), dExemplar_sortExAttrs]
  | hist => simp [he (by simp [hmt]), dExemplar_sortExAttrs]
  | exp => simp [he (by simp [hmt]), dExemplar_sortExAttrs]

/-- pointOfRecord when the record shows `(rid, sid, m)` -/
theorem pointOfRecord_of_shows (rec : SRecord) (rid : ResId) (sid : ScopeId) (m : Metric) (p q : Point)
    (hs : Shows rec rid sid m) (hq : pointToOtlp m.type rec.metric rec.attrs rec.point = .ok q)
    (ha : q.attrs = p.attrs) (hst : q.start = p.start) (hts : q.ts = p.ts) (hf : q.flags = p.flags)
    (hv : pointValue m.type q = pointValue m.type p)
    (he : m.type ≠ .summary → q.exemplars.map dExemplar = p.exemplars.map (fun e => dExemplar (sortExAttrs e))) :
    pointOfRecord rec = .ok (dataPoint rid sid m p).sortExAttrs := by
  obtain ⟨h1, h2, h, hm, hid, ht⟩ := hs
  simp only [pointOfRecord, hm, ht, hq, h1, h2]
  rw [dataPoint_eq rid sid h m q p hid ht ha hst hts hf hv he]

theorem flags_of_clean {p : Point} (hf : p.flags ≤ 1) : (flagged p = true → p.flags = 1) ∧ (flagged p = false → p.flags = 0) := by
  simp only [flagged, beq_iff_eq]
  constructor
  · intro h; omega
  · intro h; simp at h; omega

theorem exs_of_exOk {p : Point} (h : p.exOk = true) : p.exemplars.all Exemplar.clean = true := h

theorem attrs_of_base {p : Point} (hc : p.base = true) : p.attrs.clean = true ∧ p.flags ≤ 1 := by
  simp only [Point.base, Bool.and_eq_true, decide_eq_true_eq] at hc
  exact hc

theorem nrv_value (t : MType) (q : Point) (hq : q.flags = 1) : pointValue t q = .nrv := by
  simp [pointValue, flagged, hq]

/-- data points of the points of metric `m`, as they come back -/
def backPoints (rid : ResId) (sid : ScopeId) (m : Metric) (ps : List Point) : List (Except String DataPoint) :=
  ps.map fun p => .ok (dataPoint rid sid m p).sortExAttrs

/-! ### number points -/

def numValueInto (p : Point) (old : SPValue) : SPValue :=
  if flagged p then .none else
  match p.vt with
  | 1 => .int p.v
  | 2 => (match old with | .dbl o => .dbl (setF o p.v) | _ => .dbl p.v)
  | _ => .none

theorem convNumber_eq (p : Point) (pt : SPoint) (h : p.vt ≤ 2) :
    convNumber p pt = .ok { pt with ts := p.ts, start := p.start, value := numValueInto p pt.value } := by
  have hvt : p.vt = 0 ∨ p.vt = 1 ∨ p.vt = 2 := by omega
  simp only [convNumber, numValueInto]
  split
  · rfl
  · rcases hvt with h0 | h0 | h0
    · simp [h0]
    · simp [h0]
    · simp only [h0]; rfl

theorem numValueInto_spec (p : Point) (old : SPValue) (hval : p.vt = 1 ∨ p.vt = 2 ∨ flagged p = true) :
    numValueInto p old = (if flagged p then .none else if p.vt = 1 then .int p.v else .dbl p.v) := by
  simp only [numValueInto]
  by_cases hf : flagged p = true
  · simp [hf]
  · simp only [hf]
    rcases hval with h1 | h2 | h3
    · simp [h1]
    · cases old <;> simp [h2, setF_eq]
    · exact absurd h3 hf

theorem cleanNum_val {p : Point} (h : (p.vt == 1 || p.vt == 2 || (p.vt == 0 && flagged p)) = true) :
    (p.vt = 1 ∨ p.vt = 2 ∨ flagged p = true) ∧ p.vt ≤ 2 := by
  simp only [Bool.or_eq_true, Bool.and_eq_true, beq_iff_eq] at h
  rcases h with (h | h) | h
  · exact ⟨Or.inl h, by omega⟩
  · exact ⟨Or.inr (Or.inl h), by omega⟩
  · exact ⟨Or.inr (Or.inr h.2), by omega⟩

/-- the record written for a number point -/
def numRecord (p : Point) (st : WState) : SRecord :=
  { st.cur with
    point := pointWithEx p.exemplars st.tmp
      { st.cur.point with ts := p.ts, start := p.start, value := numValueInto p st.cur.point.value },
    attrs := SAttrs.mapUnsorted p.attrs st.cur.attrs }

def numTmp (p : Point) (st : WState) : SAttrs :=
  tmpAfterEx p.exemplars st.tmp { st.cur.point with ts := p.ts, start := p.start, value := numValueInto p st.cur.point.value }

theorem writeNumeric_cons (p : Point) (ps : List Point) (st : WState) (h1 : p.vt ≤ 2) (h2 : ∀ e ∈ p.exemplars, e.vt ≤ 2) :
    writeNumeric (p :: ps) st = writeNumeric ps ({ st with cur := numRecord p st, tmp := numTmp p st }).write := by
  simp only [writeNumeric, convNumber_eq p st.cur.point h1, convExemplars_eq p.exemplars st.tmp _ h2, numRecord, numTmp]

theorem numRecord_spec (p : Point) (st : WState) (rid : ResId) (sid : ScopeId)
    (m : Metric) (ht : m.type = .gauge ∨ m.type = .sum) (hc : p.cleanNum = true) (hs : Shows st.cur rid sid m) :
    pointOfRecord (numRecord p st) = .ok (dataPoint rid sid m p).sortExAttrs := by
  simp only [Point.cleanNum, Bool.and_eq_true] at hc
  obtain ⟨⟨hbase, hexok⟩, hval0⟩ := hc
  have hval := (cleanNum_val hval0).1
  have hex := exs_of_exOk hexok
  have hat := attrs_of_base hbase
  have hnv := numValueInto_spec p st.cur.point.value hval
  let pt1 : SPoint := { st.cur.point with ts := p.ts, start := p.start, value := numValueInto p st.cur.point.value }
  have hx := pointWithEx_spec p.exemplars st.tmp pt1 hex
  have ha := attrs_roundtrip p.attrs st.cur.attrs hat.1
  have hfl := flags_of_clean hat.2
  have hsh : Shows (numRecord p st) rid sid m := hs
  by_cases hf : flagged p = true
  · have hv0 : (numRecord p st).point.value = .none := by
      simp only [numRecord, pointWithEx_value, hnv, hf, if_true]
    have he : exemplarsToOtlp (numRecord p st).point.exemplars = .ok ((numRecord p st).point.exemplars.map exemplarBack) := by
      simpa [numRecord] using hx.1
    have hq : pointToOtlp m.type (numRecord p st).metric (numRecord p st).attrs (numRecord p st).point
        = .ok { attrs := (numRecord p st).attrs.toOtlp, start := (numRecord p st).point.start,
                ts := (numRecord p st).point.ts, flags := 1,
                exemplars := (numRecord p st).point.exemplars.map exemplarBack } := by
      rcases ht with h | h <;> simp [pointToOtlp, h, hv0, he, Except.map]
    refine pointOfRecord_of_shows _ rid sid m p _ hsh hq ?_ ?_ ?_ ?_ ?_ ?_
    · simpa [numRecord] using ha
    · simp [numRecord]
    · simp [numRecord]
    · simp [hfl.1 hf]
    · rw [nrv_value _ _ rfl]; simp [pointValue, hf]
    · intro _; simpa [numRecord] using hx.2
  · have hf' : flagged p = false := by simpa using hf
    have he : exemplarsToOtlp (numRecord p st).point.exemplars = .ok ((numRecord p st).point.exemplars.map exemplarBack) := by
      simpa [numRecord] using hx.1
    have hval' : p.vt = 1 ∨ p.vt = 2 := by
      rcases hval with h | h | h
      · exact Or.inl h
      · exact Or.inr h
      · exact absurd h hf
    rcases hval' with h1 | h2
    · have hv0 : (numRecord p st).point.value = .int p.v := by
        simp only [numRecord, pointWithEx_value, hnv, hf, h1, if_true]; simp
      have hq : pointToOtlp m.type (numRecord p st).metric (numRecord p st).attrs (numRecord p st).point
          = .ok { attrs := (numRecord p st).attrs.toOtlp, start := (numRecord p st).point.start,
                  ts := (numRecord p st).point.ts, vt := 1, v := p.v,
                  exemplars := (numRecord p st).point.exemplars.map exemplarBack } := by
        rcases ht with h | h <;> simp [pointToOtlp, h, hv0, he, Except.map]
      refine pointOfRecord_of_shows _ rid sid m p _ hsh hq ?_ ?_ ?_ ?_ ?_ ?_
      · simpa [numRecord] using ha
      · simp [numRecord]
      · simp [numRecord]
      · simp [hfl.2 hf']
      · have e2 : pointValue m.type p = .int p.v := by
          rcases ht with h | h <;> simp [pointValue, hf', h, h1]
        rw [e2]
        rcases ht with h | h <;> simp [pointValue, flagged, h]
      · intro _; simpa [numRecord] using hx.2
    · have hv0 : (numRecord p st).point.value = .dbl p.v := by
        simp only [numRecord, pointWithEx_value, hnv, hf, h2]; simp
      have hq : pointToOtlp m.type (numRecord p st).metric (numRecord p st).attrs (numRecord p st).point
          = .ok { attrs := (numRecord p st).attrs.toOtlp, start := (numRecord p st).point.start,
                  ts := (numRecord p st).point.ts, vt := 2, v := p.v,
                  exemplars := (numRecord p st).point.exemplars.map exemplarBack } := by
        rcases ht with h | h <;> simp [pointToOtlp, h, hv0, he, Except.map]
      refine pointOfRecord_of_shows _ rid sid m p _ hsh hq ?_ ?_ ?_ ?_ ?_ ?_
      · simpa [numRecord] using ha
      · simp [numRecord]
      · simp [numRecord]
      · simp [hfl.2 hf']
      · have e2 : pointValue m.type p = .dbl p.v := by
          rcases ht with h | h <;> simp [pointValue, hf', h, h2]
        rw [e2]
        rcases ht with h | h <;> simp [pointValue, flagged, h]
      · intro _; simpa [numRecord] using hx.2

theorem cleanNum_vt {p : Point} (h : p.cleanNum = true) : p.vt ≤ 2 ∧ ∀ e ∈ p.exemplars, e.vt ≤ 2 := by
  simp only [Point.cleanNum, Bool.and_eq_true] at h
  exact ⟨(cleanNum_val h.2).2, clean_vt (exs_of_exOk h.1.2)⟩

theorem writeNumeric_spec (rid : ResId) (sid : ScopeId) (m : Metric) (ht : m.type = .gauge ∨ m.type = .sum) :
    ∀ (ps : List Point) (st : WState), (∀ p ∈ ps, p.cleanNum = true) → st.inv → Shows st.cur rid sid m →
    ∃ st', writeNumeric ps st = .ok st' ∧ st'.inv ∧ Shows st'.cur rid sid m ∧
      st'.out.map pointOfRecord = (backPoints rid sid m ps).reverse ++ st.out.map pointOfRecord
  | [], st, _, hi, hs => ⟨st, rfl, hi, hs, by simp [backPoints]⟩
  | p :: ps, st, hc, hi, hs => by
    have hp := hc p (by simp)
    have hv := cleanNum_vt hp
    have h1 := numRecord_spec p st rid sid m ht hp hs
    obtain ⟨st', h2, h3, h4, h5⟩ := writeNumeric_spec rid sid m ht ps
      ({ st with cur := numRecord p st, tmp := numTmp p st }).write (fun q hq => hc q (by simp [hq]))
      (by simpa [WState.write, WState.inv, numRecord] using hi) (show Shows (numRecord p st) rid sid m from hs)
    refine ⟨st', ?_, h3, h4, ?_⟩
    · rw [writeNumeric_cons p ps st hv.1 hv.2]; exact h2
    · rw [h5]
      simp [WState.write, backPoints, h1]

/-! ### option helpers -/

theorem setOptF_eq (old new : Option Nat) : setOptF old new = new := by
  cases new with
  | none => cases old <;> rfl
  | some v => cases old <;> simp [setOptF, setF_eq]

theorem optOf_isSome_getD (x : Option Nat) : optOf x.isSome (x.getD 0) = x := by
  cases x <;> rfl

theorem setQuantiles_eq : ∀ (new old : List (Nat × Nat)), setQuantiles new old = new
  | [], _ => rfl
  | (q, v) :: t, [] => by simp [setQuantiles, setQuantiles_eq t [], setF_eq]
  | (q, v) :: t, (oq, ov) :: ot => by simp [setQuantiles, setQuantiles_eq t ot, setF_eq]

theorem trunc_sext (x : Nat) (h : int32ok x = true) : trunc32 (sext32 x) = x := by
  simp only [int32ok, decide_eq_true_eq] at h
  unfold trunc32 sext32 two64
  split <;> omega

/-! ### histogram points -/

/-- the histogram value an unflagged point is stored as -/
def histOf (p : Point) : SHist :=
  { count := p.count, sum := optOf p.hasSum p.sum, min := optOf p.hasMin p.min, max := optOf p.hasMax p.max,
    buckets := p.buckets }

def histValueInto (p : Point) (old : SPValue) : SPValue :=
  if flagged p then .none else
  .hist { count := p.count,
          sum := setOptF (match old with | .hist h => h.sum | _ => none) (optOf p.hasSum p.sum),
          min := setOptF (match old with | .hist h => h.min | _ => none) (optOf p.hasMin p.min),
          max := setOptF (match old with | .hist h => h.max | _ => none) (optOf p.hasMax p.max),
          buckets := p.buckets }

theorem convHistogram_eq (p : Point) (pt : SPoint) (hl : p.histLenOk = true) :
    convHistogram p pt = .ok { pt with ts := p.ts, start := p.start, value := histValueInto p pt.value } := by
  simp only [convHistogram, histValueInto]
  by_cases hf : flagged p = true
  · simp [hf]
  · have hcond : (!(p.buckets.isEmpty && p.bounds.isEmpty) && p.buckets.length != p.bounds.length + 1) = false := by
      simp only [Point.histLenOk, hf, Bool.false_or, Bool.or_eq_true, beq_iff_eq] at hl
      rcases hl with h | h
      · simp [h]
      · simp [h]
    simp only [hf, hcond]
    cases pt.value <;> simp

theorem histValueInto_spec (p : Point) (old : SPValue) :
    histValueInto p old = (if flagged p then .none else .hist (histOf p)) := by
  simp only [histValueInto, setOptF_eq, histOf]

/-- the point an unflagged histogram point is read back as -/
def histBack (p : Point) (rec : SRecord) : Point :=
  { attrs := rec.attrs.toOtlp, start := rec.point.start, ts := rec.point.ts, count := p.count, buckets := p.buckets,
    bounds := rec.metric.bounds,
    hasSum := (optOf p.hasSum p.sum).isSome, sum := (optOf p.hasSum p.sum).getD 0,
    hasMin := (optOf p.hasMin p.min).isSome, min := (optOf p.hasMin p.min).getD 0,
    hasMax := (optOf p.hasMax p.max).isSome, max := (optOf p.hasMax p.max).getD 0,
    exemplars := rec.point.exemplars.map exemplarBack }

def histRecord (p : Point) (st : WState) : SRecord :=
  { st.cur with
    point := pointWithEx p.exemplars st.tmp
      { st.cur.point with ts := p.ts, start := p.start, value := histValueInto p st.cur.point.value },
    attrs := SAttrs.mapUnsorted p.attrs st.cur.attrs,
    metric := { st.cur.metric with bounds := setFSlice st.cur.metric.bounds p.bounds } }

def histTmp (p : Point) (st : WState) : SAttrs :=
  tmpAfterEx p.exemplars st.tmp { st.cur.point with ts := p.ts, start := p.start, value := histValueInto p st.cur.point.value }

theorem writeHistogram_cons (p : Point) (ps : List Point) (st : WState)
    (h1 : p.histLenOk = true) (h2 : ∀ e ∈ p.exemplars, e.vt ≤ 2) :
    writeHistogram (p :: ps) st = writeHistogram ps ({ st with cur := histRecord p st, tmp := histTmp p st }).write := by
  simp only [writeHistogram, convHistogram_eq p st.cur.point h1, convExemplars_eq p.exemplars st.tmp _ h2, histRecord, histTmp]

theorem shows_bounds {rec : SRecord} {rid : ResId} {sid : ScopeId} {m : Metric} (hs : Shows rec rid sid m)
    (b : List Nat) (a : SAttrs) (pt : SPoint) :
    Shows { rec with point := pt, attrs := a, metric := { rec.metric with bounds := b } } rid sid m := by
  obtain ⟨h1, h2, h, hm, hid, ht⟩ := hs
  exact ⟨h1, h2, h, by simpa [metricToOtlp] using hm, hid, ht⟩

theorem histRecord_spec (p : Point) (st : WState) (rid : ResId) (sid : ScopeId) (m : Metric) (ht : m.type = .hist)
    (hc : p.cleanHist = true) (hs : Shows st.cur rid sid m) :
    pointOfRecord (histRecord p st) = .ok (dataPoint rid sid m p).sortExAttrs ∧ Shows (histRecord p st) rid sid m := by
  simp only [Point.cleanHist, Bool.and_eq_true] at hc
  obtain ⟨⟨hbase, hexok⟩, _hlen⟩ := hc
  have hex := exs_of_exOk hexok
  have hat := attrs_of_base hbase
  have hnv := histValueInto_spec p st.cur.point.value
  let pt1 : SPoint := { st.cur.point with ts := p.ts, start := p.start, value := histValueInto p st.cur.point.value }
  have hx := pointWithEx_spec p.exemplars st.tmp pt1 hex
  have ha := attrs_roundtrip p.attrs st.cur.attrs hat.1
  have hfl := flags_of_clean hat.2
  have hb := setFSlice_eq st.cur.metric.bounds p.bounds
  have hsh : Shows (histRecord p st) rid sid m := shows_bounds hs _ _ _
  refine ⟨?_, hsh⟩
  by_cases hf : flagged p = true
  · have hv0 : (histRecord p st).point.value = .none := by
      simp only [histRecord, pointWithEx_value, hnv, hf, if_true]
    have he : exemplarsToOtlp (histRecord p st).point.exemplars = .ok ((histRecord p st).point.exemplars.map exemplarBack) := by
      simpa [histRecord] using hx.1
    have hq : pointToOtlp m.type (histRecord p st).metric (histRecord p st).attrs (histRecord p st).point
        = .ok { attrs := (histRecord p st).attrs.toOtlp, start := (histRecord p st).point.start,
                ts := (histRecord p st).point.ts, flags := 1,
                exemplars := (histRecord p st).point.exemplars.map exemplarBack } := by
      simp [pointToOtlp, ht, hv0, he, Except.map]
    refine pointOfRecord_of_shows _ rid sid m p _ hsh hq ?_ ?_ ?_ ?_ ?_ ?_
    · simpa [histRecord] using ha
    · simp [histRecord]
    · simp [histRecord]
    · simp [hfl.1 hf]
    · rw [nrv_value _ _ rfl]; simp [pointValue, hf]
    · intro _; simpa [histRecord] using hx.2
  · have hf' : flagged p = false := by simpa using hf
    have hv0 : (histRecord p st).point.value = .hist (histOf p) := by
      simp only [histRecord, pointWithEx_value, hnv, hf]; simp
    have he : exemplarsToOtlp (histRecord p st).point.exemplars = .ok ((histRecord p st).point.exemplars.map exemplarBack) := by
      simpa [histRecord] using hx.1
    have hq : pointToOtlp m.type (histRecord p st).metric (histRecord p st).attrs (histRecord p st).point
        = .ok (histBack p (histRecord p st)) := by
      simp [pointToOtlp, ht, hv0, he, Except.map, histBack, histOf]
    refine pointOfRecord_of_shows _ rid sid m p _ hsh hq ?_ ?_ ?_ ?_ ?_ ?_
    · simpa [histRecord, histBack] using ha
    · simp [histRecord, histBack]
    · simp [histRecord, histBack]
    · simp [hfl.2 hf', histBack]
    · have e2 : pointValue m.type p = .hist p.count (optOf p.hasSum p.sum) (optOf p.hasMin p.min) (optOf p.hasMax p.max)
          p.buckets p.bounds := by simp [pointValue, hf', ht]
      rw [e2]
      simp [pointValue, flagged, ht, optOf_isSome_getD, histRecord, histBack, hb]
    · intro _; simpa [histRecord, histBack] using hx.2

theorem cleanHist_ok {p : Point} (h : p.cleanHist = true) :
    p.histLenOk = true ∧ ∀ e ∈ p.exemplars, e.vt ≤ 2 := by
  simp only [Point.cleanHist, Bool.and_eq_true] at h
  exact ⟨h.2, clean_vt (exs_of_exOk h.1.2)⟩

theorem writeHistogram_spec (rid : ResId) (sid : ScopeId) (m : Metric) (ht : m.type = .hist) :
    ∀ (ps : List Point) (st : WState), (∀ p ∈ ps, p.cleanHist = true) → st.inv → Shows st.cur rid sid m →
    ∃ st', writeHistogram ps st = .ok st' ∧ st'.inv ∧ Shows st'.cur rid sid m ∧
      st'.out.map pointOfRecord = (backPoints rid sid m ps).reverse ++ st.out.map pointOfRecord
  | [], st, _, hi, hs => ⟨st, rfl, hi, hs, by simp [backPoints]⟩
  | p :: ps, st, hc, hi, hs => by
    have hp := hc p (by simp)
    have hv := cleanHist_ok hp
    have h1 := histRecord_spec p st rid sid m ht hp hs
    obtain ⟨st', h2, h3, h4, h5⟩ := writeHistogram_spec rid sid m ht ps
      ({ st with cur := histRecord p st, tmp := histTmp p st }).write (fun q hq => hc q (by simp [hq]))
      (by simpa [WState.write, WState.inv, histRecord] using hi) (by simpa [WState.write] using h1.2)
    refine ⟨st', ?_, h3, h4, ?_⟩
    · rw [writeHistogram_cons p ps st hv.1 hv.2]; exact h2
    · rw [h5]
      simp [WState.write, backPoints, h1.1]

/-! ### exponential histogram points -/

def expOld (old : SPValue) : SExp := match old with | .exp e => e | _ => {}

def expInto (p : Point) (e : SExp) : SExp :=
  { count := p.count,
    sum := setOptF e.sum (optOf p.hasSum p.sum),
    min := setOptF e.min (optOf p.hasMin p.min),
    max := setOptF e.max (optOf p.hasMax p.max),
    scale := sext32 p.scale, zeroCount := p.zeroCount,
    zeroThreshold := setF e.zeroThreshold p.zeroThreshold,
    pos := { offset := sext32 p.posOff, counts := p.pos },
    neg := { offset := sext32 p.negOff, counts := p.neg } }

def expValueInto (p : Point) (old : SPValue) : SPValue :=
  if flagged p then .none else .exp (expInto p (expOld old))

theorem convExpHistogram_eq (p : Point) (pt : SPoint) :
    convExpHistogram p pt = .ok { pt with ts := p.ts, start := p.start, value := expValueInto p pt.value } := by
  simp only [convExpHistogram, expValueInto, expInto, expOld]
  by_cases hf : flagged p = true
  · simp [hf]
  · simp only [hf]
    rfl

/-- the value an unflagged point is stored as -/
def expOf (p : Point) : SExp :=
  { count := p.count, sum := optOf p.hasSum p.sum, min := optOf p.hasMin p.min, max := optOf p.hasMax p.max,
    scale := sext32 p.scale, zeroCount := p.zeroCount, zeroThreshold := p.zeroThreshold,
    pos := { offset := sext32 p.posOff, counts := p.pos }, neg := { offset := sext32 p.negOff, counts := p.neg } }

theorem expInto_eq (p : Point) (e : SExp) : expInto p e = expOf p := by
  simp only [expInto, expOf, setOptF_eq, setF_eq]

def expBack (p : Point) (rec : SRecord) : Point :=
  { attrs := rec.attrs.toOtlp, start := rec.point.start, ts := rec.point.ts, count := p.count,
    hasSum := (optOf p.hasSum p.sum).isSome, sum := (optOf p.hasSum p.sum).getD 0,
    hasMin := (optOf p.hasMin p.min).isSome, min := (optOf p.hasMin p.min).getD 0,
    hasMax := (optOf p.hasMax p.max).isSome, max := (optOf p.hasMax p.max).getD 0,
    scale := trunc32 (sext32 p.scale), zeroCount := p.zeroCount, zeroThreshold := p.zeroThreshold,
    posOff := trunc32 (sext32 p.posOff), pos := p.pos, negOff := trunc32 (sext32 p.negOff), neg := p.neg,
    exemplars := rec.point.exemplars.map exemplarBack }

def expRecord (p : Point) (st : WState) : SRecord :=
  { st.cur with
    point := pointWithEx p.exemplars st.tmp
      { st.cur.point with ts := p.ts, start := p.start, value := expValueInto p st.cur.point.value },
    attrs := SAttrs.mapUnsorted p.attrs st.cur.attrs }

def expTmp (p : Point) (st : WState) : SAttrs :=
  tmpAfterEx p.exemplars st.tmp { st.cur.point with ts := p.ts, start := p.start, value := expValueInto p st.cur.point.value }

theorem writeExpHistogram_cons (p : Point) (ps : List Point) (st : WState) (h2 : ∀ e ∈ p.exemplars, e.vt ≤ 2) :
    writeExpHistogram (p :: ps) st = writeExpHistogram ps ({ st with cur := expRecord p st, tmp := expTmp p st }).write := by
  simp only [writeExpHistogram, convExpHistogram_eq p st.cur.point, convExemplars_eq p.exemplars st.tmp _ h2, expRecord, expTmp]

theorem expRecord_spec (p : Point) (st : WState) (rid : ResId) (sid : ScopeId) (m : Metric) (ht : m.type = .exp)
    (hc : p.cleanExp = true) (hs : Shows st.cur rid sid m) :
    pointOfRecord (expRecord p st) = .ok (dataPoint rid sid m p).sortExAttrs := by
  simp only [Point.cleanExp, Bool.and_eq_true] at hc
  obtain ⟨⟨⟨⟨hbase, hexok⟩, hsc⟩, hpo⟩, hno⟩ := hc
  have hex := exs_of_exOk hexok
  have hat := attrs_of_base hbase
  have hnv : expValueInto p st.cur.point.value = (if flagged p then .none else .exp (expOf p)) := by
    simp only [expValueInto, expInto_eq]
  let pt1 : SPoint := { st.cur.point with ts := p.ts, start := p.start, value := expValueInto p st.cur.point.value }
  have hx := pointWithEx_spec p.exemplars st.tmp pt1 hex
  have ha := attrs_roundtrip p.attrs st.cur.attrs hat.1
  have hfl := flags_of_clean hat.2
  have hsh : Shows (expRecord p st) rid sid m := hs
  by_cases hf : flagged p = true
  · have hv0 : (expRecord p st).point.value = .none := by
      simp only [expRecord, pointWithEx_value, hnv, hf, if_true]
    have he : exemplarsToOtlp (expRecord p st).point.exemplars = .ok ((expRecord p st).point.exemplars.map exemplarBack) := by
      simpa [expRecord] using hx.1
    have hq : pointToOtlp m.type (expRecord p st).metric (expRecord p st).attrs (expRecord p st).point
        = .ok { attrs := (expRecord p st).attrs.toOtlp, start := (expRecord p st).point.start,
                ts := (expRecord p st).point.ts, flags := 1,
                exemplars := (expRecord p st).point.exemplars.map exemplarBack } := by
      simp [pointToOtlp, ht, hv0, he, Except.map]
    refine pointOfRecord_of_shows _ rid sid m p _ hsh hq ?_ ?_ ?_ ?_ ?_ ?_
    · simpa [expRecord] using ha
    · simp [expRecord]
    · simp [expRecord]
    · simp [hfl.1 hf]
    · rw [nrv_value _ _ rfl]; simp [pointValue, hf]
    · intro _; simpa [expRecord] using hx.2
  · have hf' : flagged p = false := by simpa using hf
    have hv0 : (expRecord p st).point.value = .exp (expOf p) := by
      simp only [expRecord, pointWithEx_value, hnv, hf]; simp
    have he : exemplarsToOtlp (expRecord p st).point.exemplars = .ok ((expRecord p st).point.exemplars.map exemplarBack) := by
      simpa [expRecord] using hx.1
    have hq : pointToOtlp m.type (expRecord p st).metric (expRecord p st).attrs (expRecord p st).point
        = .ok (expBack p (expRecord p st)) := by
      simp [pointToOtlp, ht, hv0, he, Except.map, expBack, expOf]
    refine pointOfRecord_of_shows _ rid sid m p _ hsh hq ?_ ?_ ?_ ?_ ?_ ?_
    · simpa [expRecord, expBack] using ha
    · simp [expRecord, expBack]
    · simp [expRecord, expBack]
    · simp [hfl.2 hf', expBack]
    · have e2 : pointValue m.type p = .exp p.count (optOf p.hasSum p.sum) (optOf p.hasMin p.min) (optOf p.hasMax p.max)
          p.scale p.zeroCount p.zeroThreshold p.posOff p.pos p.negOff p.neg := by simp [pointValue, hf', ht]
      rw [e2]
      simp [pointValue, flagged, ht, optOf_isSome_getD, expBack, trunc_sext _ hsc, trunc_sext _ hpo, trunc_sext _ hno]
    · intro _; simpa [expRecord, expBack] using hx.2

theorem cleanExp_ok {p : Point} (h : p.cleanExp = true) : ∀ e ∈ p.exemplars, e.vt ≤ 2 := by
  simp only [Point.cleanExp, Bool.and_eq_true] at h
  exact clean_vt (exs_of_exOk h.1.1.1.2)

theorem writeExpHistogram_spec (rid : ResId) (sid : ScopeId) (m : Metric) (ht : m.type = .exp) :
    ∀ (ps : List Point) (st : WState), (∀ p ∈ ps, p.cleanExp = true) → st.inv → Shows st.cur rid sid m →
    ∃ st', writeExpHistogram ps st = .ok st' ∧ st'.inv ∧ Shows st'.cur rid sid m ∧
      st'.out.map pointOfRecord = (backPoints rid sid m ps).reverse ++ st.out.map pointOfRecord
  | [], st, _, hi, hs => ⟨st, rfl, hi, hs, by simp [backPoints]⟩
  | p :: ps, st, hc, hi, hs => by
    have hp := hc p (by simp)
    have hv := cleanExp_ok hp
    have h1 := expRecord_spec p st rid sid m ht hp hs
    obtain ⟨st', h2, h3, h4, h5⟩ := writeExpHistogram_spec rid sid m ht ps
      ({ st with cur := expRecord p st, tmp := expTmp p st }).write (fun q hq => hc q (by simp [hq]))
      (by simpa [WState.write, WState.inv, expRecord] using hi) (show Shows (expRecord p st) rid sid m from hs)
    refine ⟨st', ?_, h3, h4, ?_⟩
    · rw [writeExpHistogram_cons p ps st hv]; exact h2
    · rw [h5]
      simp [WState.write, backPoints, h1]

/-! ### summary points -/

def summaryOld (old : SPValue) : SSummary := match old with | .summary s => s | _ => {}

def summaryInto (p : Point) (s : SSummary) : SSummary :=
  { count := p.count, sum := setF s.sum p.sum, quantiles := setQuantiles p.quantiles s.quantiles }

theorem convSummary_eq (p : Point) (pt : SPoint) :
    convSummary p pt = { pt with ts := p.ts, start := p.start,
                                 value := if flagged p then .none else .summary (summaryInto p (summaryOld pt.value)) } := by
  simp only [convSummary, summaryOld, summaryInto]
  split <;> rfl

def summaryRecord (p : Point) (st : WState) : SRecord :=
  { st.cur with point := convSummary p st.cur.point, attrs := SAttrs.mapUnsorted p.attrs st.cur.attrs }

def summaryBack (p : Point) (rec : SRecord) : Point :=
  { attrs := rec.attrs.toOtlp, start := rec.point.start, ts := rec.point.ts, count := p.count, sum := p.sum,
    quantiles := p.quantiles }

theorem writeSummary_cons (p : Point) (ps : List Point) (st : WState) :
    writeSummary (p :: ps) st = writeSummary ps ({ st with cur := summaryRecord p st }).write := by
  simp only [writeSummary, summaryRecord]

theorem summaryRecord_spec (p : Point) (st : WState) (rid : ResId) (sid : ScopeId) (m : Metric) (ht : m.type = .summary)
    (hc : p.cleanSummary = true) (hs : Shows st.cur rid sid m) :
    pointOfRecord (summaryRecord p st) = .ok (dataPoint rid sid m p).sortExAttrs := by
  have hat := attrs_of_base (show p.base = true from hc)
  have hfl := flags_of_clean hat.2
  have hval : (convSummary p st.cur.point).value
      = if flagged p then .none else .summary { count := p.count, sum := p.sum, quantiles := p.quantiles } := by
    rw [convSummary_eq]
    simp only [summaryInto, setF_eq, setQuantiles_eq]
  have ha := attrs_roundtrip p.attrs st.cur.attrs hat.1
  have hsh : Shows (summaryRecord p st) rid sid m := hs
  by_cases hf : flagged p = true
  · have hqq : pointToOtlp m.type (summaryRecord p st).metric (summaryRecord p st).attrs (summaryRecord p st).point
        = .ok { attrs := (summaryRecord p st).attrs.toOtlp, start := (summaryRecord p st).point.start,
                ts := (summaryRecord p st).point.ts, flags := 1 } := by
      simp [pointToOtlp, ht, summaryRecord, hval, hf]
    refine pointOfRecord_of_shows _ rid sid m p _ hsh hqq ?_ ?_ ?_ ?_ ?_ ?_
    · simpa [summaryRecord] using ha
    · simp [summaryRecord, convSummary_eq]
    · simp [summaryRecord, convSummary_eq]
    · simp [hfl.1 hf]
    · rw [nrv_value _ _ rfl]; simp [pointValue, hf]
    · intro h; exact absurd ht h
  · have hf' : flagged p = false := by simpa using hf
    have hqq : pointToOtlp m.type (summaryRecord p st).metric (summaryRecord p st).attrs (summaryRecord p st).point
        = .ok (summaryBack p (summaryRecord p st)) := by
      simp [pointToOtlp, ht, summaryRecord, hval, hf, summaryBack]
    refine pointOfRecord_of_shows _ rid sid m p _ hsh hqq ?_ ?_ ?_ ?_ ?_ ?_
    · simpa [summaryRecord, summaryBack] using ha
    · simp [summaryRecord, summaryBack, convSummary_eq]
    · simp [summaryRecord, summaryBack, convSummary_eq]
    · simp [summaryBack, hfl.2 hf']
    · have e1 : pointValue m.type p = .summary p.count p.sum p.quantiles := by
        simp [pointValue, ht, hf']
      rw [e1]
      simp [pointValue, ht, flagged, summaryBack]
    · intro h; exact absurd ht h

theorem writeSummary_spec (rid : ResId) (sid : ScopeId) (m : Metric) (ht : m.type = .summary) :
    ∀ (ps : List Point) (st : WState), (∀ p ∈ ps, p.cleanSummary = true) → st.inv → Shows st.cur rid sid m →
    ∃ st', writeSummary ps st = .ok st' ∧ st'.inv ∧ Shows st'.cur rid sid m ∧
      st'.out.map pointOfRecord = (backPoints rid sid m ps).reverse ++ st.out.map pointOfRecord
  | [], st, _, hi, hs => ⟨st, rfl, hi, hs, by simp [backPoints]⟩
  | p :: ps, st, hc, hi, hs => by
    have hp := hc p (by simp)
    have h1 := summaryRecord_spec p st rid sid m ht hp hs
    obtain ⟨st', h2, h3, h4, h5⟩ := writeSummary_spec rid sid m ht ps
      ({ st with cur := summaryRecord p st }).write (fun q hq => hc q (by simp [hq]))
      (by simpa [WState.write, WState.inv, summaryRecord] using hi) (show Shows (summaryRecord p st) rid sid m from hs)
    refine ⟨st', ?_, h3, h4, ?_⟩
    · rw [writeSummary_cons p ps st]; exact h2
    · rw [h5]
      simp [WState.write, backPoints, h1]

/-! ### metrics, scopes, resources -/

def ShowsRS (rec : SRecord) (rid : ResId) (sid : ScopeId) : Prop := rec.resource.id = rid ∧ rec.scope.id = sid

theorem tempOk_le {t : Nat} (h : tempOk t = true) : t ≤ 2 := by simpa [tempOk] using h

def metricBase (m : Metric) (dst : SMetric) : SMetric :=
  { dst with mdata := SAttrs.mapUnsorted m.mdata dst.mdata, name := m.name, desc := m.desc, unit := m.unit,
             type := m.type.toNat }

/-- metric2metric and the per-type fields, when the temporality is a valid one -/
def metricInto (m : Metric) (dst : SMetric) : SMetric :=
  match m.type with
  | .gauge => metricBase m dst
  | .summary => metricBase m dst
  | .sum => { metricBase m dst with temp := m.temp, mono := m.mono }
  | .hist => { metricBase m dst with temp := m.temp }
  | .exp => { metricBase m dst with temp := m.temp }

theorem convMetricUnsorted_eq (m : Metric) (dst : SMetric) (h : tempOk m.temp = true) :
    convMetricUnsorted m dst = .ok (metricInto m dst) := by
  cases hmt : m.type <;> simp [convMetricUnsorted, metricInto, metricBase, hmt, h]

/-- the metric part of the record after metric2metric, for a clean metric -/
theorem convMetric_spec (m : Metric) (st : WState) (rid : ResId) (sid : ScopeId) (hc : m.clean = true)
    (hi : st.inv) (hs : ShowsRS st.cur rid sid) :
    ({ st with cur := { st.cur with metric := metricInto m st.cur.metric } } : WState).inv ∧
      Shows { st.cur with metric := metricInto m st.cur.metric } rid sid m := by
  simp only [Metric.clean, Bool.and_eq_true] at hc
  obtain ⟨⟨hmdc, htok⟩, _⟩ := hc
  have htmp : st.cur.metric.temp ≤ 2 := hi
  have ha := attrs_roundtrip m.mdata st.cur.metric.mdata hmdc
  have ht2 := tempOk_le htok
  have hagg : ∀ t, t ≤ 2 → aggTempToOtlp t = .ok t := by intro t h; simp [aggTempToOtlp, h]
  cases hmt : m.type with
  | gauge =>
    refine ⟨?_, hs.1, hs.2, ?_⟩
    · simpa [WState.inv, metricInto, metricBase, hmt] using htmp
    · refine ⟨_, by simp [metricToOtlp, metricInto, metricBase, hmt, MType.toNat, MType.ofNat?, hagg _ htmp]; rfl, ?_, ?_⟩
      · simp [metricId, hmt, ha]
      · simp [hmt]
  | summary =>
    refine ⟨?_, hs.1, hs.2, ?_⟩
    · simpa [WState.inv, metricInto, metricBase, hmt] using htmp
    · refine ⟨_, by simp [metricToOtlp, metricInto, metricBase, hmt, MType.toNat, MType.ofNat?, hagg _ htmp]; rfl, ?_, ?_⟩
      · simp [metricId, hmt, ha]
      · simp [hmt]
  | sum =>
    refine ⟨?_, hs.1, hs.2, ?_⟩
    · simpa [WState.inv, metricInto, metricBase, hmt] using ht2
    · refine ⟨_, by simp [metricToOtlp, metricInto, metricBase, hmt, MType.toNat, MType.ofNat?, hagg _ ht2]; rfl, ?_, ?_⟩
      · simp [metricId, hmt, ha]
      · simp [hmt]
  | hist =>
    refine ⟨?_, hs.1, hs.2, ?_⟩
    · simpa [WState.inv, metricInto, metricBase, hmt] using ht2
    · refine ⟨_, by simp [metricToOtlp, metricInto, metricBase, hmt, MType.toNat, MType.ofNat?, hagg _ ht2]; rfl, ?_, ?_⟩
      · simp [metricId, hmt, ha]
      · simp [hmt]
  | exp =>
    refine ⟨?_, hs.1, hs.2, ?_⟩
    · simpa [WState.inv, metricInto, metricBase, hmt] using ht2
    · refine ⟨_, by simp [metricToOtlp, metricInto, metricBase, hmt, MType.toNat, MType.ofNat?, hagg _ ht2]; rfl, ?_, ?_⟩
      · simp [metricId, hmt, ha]
      · simp [hmt]

theorem shows_rs {rec : SRecord} {rid : ResId} {sid : ScopeId} {m : Metric} (h : Shows rec rid sid m) : ShowsRS rec rid sid :=
  ⟨h.1, h.2.1⟩

theorem clean_points {m : Metric} (hc : m.clean = true) : ∀ p ∈ m.points, Point.clean m.type p = true := by
  simp only [Metric.clean, Bool.and_eq_true] at hc
  exact List.all_eq_true.mp hc.2

theorem writeMetric_spec (m : Metric) (st : WState) (rid : ResId) (sid : ScopeId) (hc : m.clean = true)
    (hi : st.inv) (hs : ShowsRS st.cur rid sid) :
    ∃ st', writeMetric m st = .ok st' ∧ st'.inv ∧ ShowsRS st'.cur rid sid ∧
      st'.out.map pointOfRecord = (backPoints rid sid m m.points).reverse ++ st.out.map pointOfRecord := by
  have htok : tempOk m.temp = true := by
    simp only [Metric.clean, Bool.and_eq_true] at hc; exact hc.1.2
  have h1 := convMetric_spec m st rid sid hc hi hs
  have hp := clean_points hc
  simp only [writeMetric, convMetricUnsorted_eq m st.cur.metric htok]
  cases hmt : m.type with
  | gauge =>
    obtain ⟨st', h2, h3, h4, h5⟩ := writeNumeric_spec rid sid m (Or.inl hmt) m.points _
      (fun p hpm => by simpa [hmt, Point.clean] using hp p hpm) h1.1 h1.2
    exact ⟨st', h2, h3, shows_rs h4, h5⟩
  | sum =>
    obtain ⟨st', h2, h3, h4, h5⟩ := writeNumeric_spec rid sid m (Or.inr hmt) m.points _
      (fun p hpm => by simpa [hmt, Point.clean] using hp p hpm) h1.1 h1.2
    exact ⟨st', h2, h3, shows_rs h4, h5⟩
  | hist =>
    obtain ⟨st', h2, h3, h4, h5⟩ := writeHistogram_spec rid sid m hmt m.points _
      (fun p hpm => by simpa [hmt, Point.clean] using hp p hpm) h1.1 h1.2
    exact ⟨st', h2, h3, shows_rs h4, h5⟩
  | exp =>
    obtain ⟨st', h2, h3, h4, h5⟩ := writeExpHistogram_spec rid sid m hmt m.points _
      (fun p hpm => by simpa [hmt, Point.clean] using hp p hpm) h1.1 h1.2
    exact ⟨st', h2, h3, shows_rs h4, h5⟩
  | summary =>
    obtain ⟨st', h2, h3, h4, h5⟩ := writeSummary_spec rid sid m hmt m.points _
      (fun p hpm => by simpa [hmt, Point.clean] using hp p hpm) h1.1 h1.2
    exact ⟨st', h2, h3, shows_rs h4, h5⟩

/-- the data points of a list, as they come back, wrapped in `ok` -/
def okBack (l : List DataPoint) : List (Except String DataPoint) := l.map fun d => .ok d.sortExAttrs

theorem backPoints_eq (rid : ResId) (sid : ScopeId) (m : Metric) : backPoints rid sid m m.points = okBack (flattenMetric rid sid m) := by
  simp [backPoints, okBack, flattenMetric]

theorem writeMetrics_spec (rid : ResId) (sid : ScopeId) : ∀ (ms : List Metric) (st : WState),
    (∀ m ∈ ms, m.clean = true) → st.inv → ShowsRS st.cur rid sid →
    ∃ st', writeMetrics ms st = .ok st' ∧ st'.inv ∧ ShowsRS st'.cur rid sid ∧
      st'.out.map pointOfRecord = (okBack (ms.map (flattenMetric rid sid)).flatten).reverse ++ st.out.map pointOfRecord
  | [], st, _, hi, hs => ⟨st, rfl, hi, hs, by simp [okBack]⟩
  | m :: ms, st, hc, hi, hs => by
    obtain ⟨st1, h1, h2, h3, h4⟩ := writeMetric_spec m st rid sid (hc m (by simp)) hi hs
    obtain ⟨st2, k1, k2, k3, k4⟩ := writeMetrics_spec rid sid ms st1 (fun x hx => hc x (by simp [hx])) h2 h3
    refine ⟨st2, by simp [writeMetrics, h1, k1], k2, k3, ?_⟩
    rw [k4, h4, backPoints_eq]
    simp [okBack, List.map_append, List.reverse_append]

theorem writeScopes_spec (rid : ResId) : ∀ (ss : List ScopeMetrics) (st : WState),
    (∀ s ∈ ss, s.clean = true) → st.inv → st.cur.resource.id = rid →
    ∃ st', writeScopes ss st = .ok st' ∧ st'.inv ∧ st'.cur.resource.id = rid ∧
      st'.out.map pointOfRecord = (okBack (ss.map (flattenScope rid)).flatten).reverse ++ st.out.map pointOfRecord
  | [], st, _, hi, hs => ⟨st, rfl, hi, hs, by simp [okBack]⟩
  | s :: ss, st, hc, hi, hs => by
    have hsc := hc s (by simp)
    simp only [ScopeMetrics.clean, Bool.and_eq_true] at hsc
    have ha := attrs_roundtrip s.attrs st.cur.scope.attrs hsc.1
    let st0 : WState := { st with cur := { st.cur with scope := convScopeUnsorted s st.cur.scope } }
    have hi0 : st0.inv := hi
    have hs0 : ShowsRS st0.cur rid (scopeId s) := by
      refine ⟨hs, ?_⟩
      simp [st0, SScope.id, scopeId, convScopeUnsorted, ha]
    obtain ⟨st1, h1, h2, h3, h4⟩ := writeMetrics_spec rid (scopeId s) s.metrics st0 (List.all_eq_true.mp hsc.2) hi0 hs0
    obtain ⟨st2, k1, k2, k3, k4⟩ := writeScopes_spec rid ss st1 (fun x hx => hc x (by simp [hx])) h2 h3.1
    refine ⟨st2, ?_, k2, k3, ?_⟩
    · simp only [writeScopes]
      have : writeMetrics s.metrics { st with cur := { st.cur with scope := convScopeUnsorted s st.cur.scope } } = .ok st1 := h1
      simp [this, k1]
    · rw [k4, h4]
      simp [okBack, flattenScope, List.map_append, List.reverse_append, st0]

theorem writeResources_spec : ∀ (rs : List ResourceMetrics) (st : WState),
    (∀ r ∈ rs, r.clean = true) → st.inv →
    ∃ st', writeResources rs st = .ok st' ∧ st'.inv ∧
      st'.out.map pointOfRecord = (okBack (rs.map flattenResource).flatten).reverse ++ st.out.map pointOfRecord
  | [], st, _, hi => ⟨st, rfl, hi, by simp [okBack]⟩
  | r :: rs, st, hc, hi => by
    have hrc := hc r (by simp)
    simp only [ResourceMetrics.clean, Bool.and_eq_true] at hrc
    have ha := attrs_roundtrip r.attrs st.cur.resource.attrs hrc.1
    let st0 : WState := { st with cur := { st.cur with resource := convResourceUnsorted r st.cur.resource } }
    have hi0 : st0.inv := hi
    have hs0 : st0.cur.resource.id = resId r := by
      simp [st0, SResource.id, resId, convResourceUnsorted, ha]
    obtain ⟨st1, h1, h2, _, h4⟩ := writeScopes_spec (resId r) r.scopes st0 (List.all_eq_true.mp hrc.2) hi0 hs0
    obtain ⟨st2, k1, k2, k4⟩ := writeResources_spec rs st1 (fun x hx => hc x (by simp [hx])) h2
    refine ⟨st2, ?_, k2, ?_⟩
    · simp only [writeResources]
      have : writeScopes r.scopes { st with cur := { st.cur with resource := convResourceUnsorted r st.cur.resource } } = .ok st1 := h1
      simp [this, k1]
    · rw [k4, h4]
      simp [okBack, flattenResource, List.map_append, List.reverse_append, st0]

theorem init_inv : ({} : WState).inv := by simp [WState.inv]

/-- the unsorted writer on a clean batch: it succeeds and every record reads back as its data point -/
theorem otlpToStefUnsorted_spec (m : Metrics) (hc : m.clean = true) :
    ∃ recs, otlpToStefUnsorted m = .ok recs ∧ recs.map pointOfRecord = okBack (flatten m) := by
  obtain ⟨st, h1, _, h3⟩ := writeResources_spec m.rms {} (List.all_eq_true.mp hc) init_inv
  refine ⟨st.out.reverse, by simp [otlpToStefUnsorted, h1], ?_⟩
  rw [List.map_reverse, h3]
  simp [flatten]

end Stef.Otlp
