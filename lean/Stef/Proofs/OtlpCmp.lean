/-
  The comparison functions decide equality (on 64-bit patterns): otlptools.CmpVal / CmpAttrs
  (Stef/Otlp/Traces.lean) and otelstef.CmpAnyValue / CmpAttributes (Stef/Otlp/Value.lean).
-/
import Stef.Otlp.Clean

namespace Stef.Otlp

theorem firstNonZero_eq_zero {a b : Int} (h : firstNonZero a b = 0) : a = 0 ∧ b = 0 := by
  unfold firstNonZero at h
  split at h
  · rename_i ha; simp at ha; exact absurd h ha
  · rename_i ha; simp at ha; exact ⟨ha, h⟩

theorem strCompare_eq : ∀ (a b : Str), strCompare a b = 0 → a = b
  | [], [], _ => rfl
  | [], _ :: _, h => by simp [strCompare] at h
  | _ :: _, [], h => by simp [strCompare] at h
  | x :: a, y :: b, h => by
    simp only [strCompare] at h
    split at h
    · simp at h
    · split at h
      · simp at h
      · have : x = y := by omega
        rw [this, strCompare_eq a b h]

theorem natCompare_eq {a b : Nat} (h : natCompare a b = 0) : a = b := by
  unfold natCompare at h
  split at h
  · simp at h
  · split at h
    · simp at h
    · omega

theorem boolCompare_eq {a b : Bool} (h : boolCompare a b = 0) : a = b := by
  cases a <;> cases b <;> simp [boolCompare] at h ⊢

theorem int64Compare_eq {a b : Nat} (ha : a < two64) (hb : b < two64) (h : int64Compare a b = 0) : a = b := by
  unfold int64Compare at h
  split at h
  · simp at h
  · split at h
    · simp at h
    · rename_i h1 h2
      unfold toInt64 two63 two64 at h1 h2
      unfold two64 at ha hb
      split at h1 <;> split at h1 <;> omega

theorem float64Compare_eq {a b : Nat} (ha : a < two64) (hb : b < two64) (h : float64Compare a b = 0) : a = b := by
  have hk := natCompare_eq h
  unfold fOrderKey two63 two64 at hk
  unfold two64 at ha hb
  split at hk <;> split at hk <;> omega

theorem lenDiff_eq {a b : Nat} {x : Int} (h : (if a != b then (a : Int) - (b : Int) else x) = 0) : a = b ∧ x = 0 := by
  split at h
  · rename_i hne
    have : a ≠ b := by simpa using hne
    omega
  · rename_i he
    have : a = b := by simpa using he
    exact ⟨this, h⟩

theorem cmpKeyPrefix_eq : ∀ (a b : List Str), a.length = b.length → cmpKeyPrefix a b = 0 → a = b
  | [], [], _, _ => rfl
  | [], _ :: _, hl, _ => by simp at hl
  | _ :: _, [], hl, _ => by simp at hl
  | x :: a, y :: b, hl, h => by
    simp only [cmpKeyPrefix] at h
    have h' := firstNonZero_eq_zero h
    rw [strCompare_eq x y h'.1, cmpKeyPrefix_eq a b (by simpa using hl) h'.2]

theorem KVs.keys_length : ∀ (l : KVs), l.keys.length = l.length
  | .nil => rfl
  | .cons _ _ t => by simp [KVs.keys, KVs.length, KVs.keys_length t]

theorem floatArray_eq : ∀ (a b : List Nat), (∀ x ∈ a, x < two64) → (∀ x ∈ b, x < two64) → a.length = b.length →
    (List.zipWith float64Compare a b).foldr firstNonZero 0 = 0 → a = b
  | [], [], _, _, _, _ => rfl
  | [], _ :: _, _, _, hl, _ => by simp at hl
  | _ :: _, [], _, _, hl, _ => by simp at hl
  | x :: a, y :: b, ha, hb, hl, h => by
    simp only [List.zipWith_cons_cons, List.foldr_cons] at h
    have h' := firstNonZero_eq_zero h
    rw [float64Compare_eq (ha x (by simp)) (hb y (by simp)) h'.1,
      floatArray_eq a b (fun z hz => ha z (by simp [hz])) (fun z hz => hb z (by simp [hz])) (by simpa using hl) h'.2]

theorem cmpFloatArray_eq (a b : List Nat) (ha : ∀ x ∈ a, x < two64) (hb : ∀ x ∈ b, x < two64)
    (h : cmpFloatArray a b = 0) : a = b := by
  unfold cmpFloatArray at h
  have h' := lenDiff_eq h
  exact floatArray_eq a b ha hb h'.1 h'.2

/-! ### otlptools.CmpVal -/

mutual
  theorem cmpVal_eq : ∀ (a b : AnyValue), a.b64 = true → b.b64 = true → cmpVal a b = 0 → a = b
    | .empty, b, _, _, h => by cases b <;> simp [cmpVal, pdataTypeTag] at h ⊢
    | .str x, b, _, _, h => by
      cases b with
      | str y => simp only [cmpVal] at h; rw [strCompare_eq x y h]
      | _ => simp [cmpVal, pdataTypeTag] at h
    | .bool x, b, _, _, h => by
      cases b with
      | bool y => simp only [cmpVal] at h; rw [boolCompare_eq h]
      | _ => simp [cmpVal, pdataTypeTag] at h
    | .int x, b, ha, hb, h => by
      cases b with
      | int y =>
        simp only [cmpVal] at h
        simp only [AnyValue.b64, decide_eq_true_eq] at ha hb
        rw [int64Compare_eq ha hb h]
      | _ => simp [cmpVal, pdataTypeTag] at h
    | .dbl x, b, ha, hb, h => by
      cases b with
      | dbl y =>
        simp only [cmpVal] at h
        simp only [AnyValue.b64, decide_eq_true_eq] at ha hb
        rw [float64Compare_eq ha hb h]
      | _ => simp [cmpVal, pdataTypeTag] at h
    | .bytes x, b, _, _, h => by
      cases b with
      | bytes y => simp only [cmpVal] at h; rw [strCompare_eq x y h]
      | _ => simp [cmpVal, pdataTypeTag] at h
    | .slice xs, b, ha, hb, h => by
      cases b with
      | slice ys =>
        simp only [cmpVal] at h
        have h' := lenDiff_eq h
        simp only [AnyValue.b64] at ha hb
        rw [cmpValSlice_eq xs ys h'.1 ha hb h'.2]
      | _ => simp [cmpVal, pdataTypeTag] at h
    | .map xs, b, ha, hb, h => by
      cases b with
      | map ys =>
        simp only [cmpVal] at h
        have h1 := firstNonZero_eq_zero h
        have h2 := lenDiff_eq h1.2
        simp only [AnyValue.b64] at ha hb
        have hk := cmpKeyPrefix_eq xs.keys ys.keys (by rw [KVs.keys_length, KVs.keys_length]; exact h2.1) h1.1
        rw [cmpAttrValues_eq xs ys hk ha hb h2.2]
      | _ => simp [cmpVal, pdataTypeTag] at h
  theorem cmpValSlice_eq : ∀ (xs ys : Values), xs.length = ys.length → xs.b64 = true → ys.b64 = true →
      cmpValSlice xs ys = 0 → xs = ys
    | .nil, .nil, _, _, _, _ => rfl
    | .nil, .cons _ _, hl, _, _, _ => by simp [Values.length] at hl
    | .cons _ _, .nil, hl, _, _, _ => by simp [Values.length] at hl
    | .cons x xs, .cons y ys, hl, ha, hb, h => by
      simp only [cmpValSlice] at h
      have h' := firstNonZero_eq_zero h
      simp only [Values.b64, Bool.and_eq_true] at ha hb
      rw [cmpVal_eq x y ha.1 hb.1 h'.1, cmpValSlice_eq xs ys (by simpa [Values.length] using hl) ha.2 hb.2 h'.2]
  theorem cmpAttrValues_eq : ∀ (xs ys : KVs), xs.keys = ys.keys → xs.b64 = true → ys.b64 = true →
      cmpAttrValues xs ys = 0 → xs = ys
    | .nil, .nil, _, _, _, _ => rfl
    | .nil, .cons _ _ _, hk, _, _, _ => by simp [KVs.keys] at hk
    | .cons _ _ _, .nil, hk, _, _, _ => by simp [KVs.keys] at hk
    | .cons k x xs, .cons l y ys, hk, ha, hb, h => by
      simp only [cmpAttrValues] at h
      have h' := firstNonZero_eq_zero h
      simp only [KVs.b64, Bool.and_eq_true] at ha hb
      simp only [KVs.keys, List.cons.injEq] at hk
      rw [hk.1, cmpVal_eq x y ha.1 hb.1 h'.1, cmpAttrValues_eq xs ys hk.2 ha.2 hb.2 h'.2]
end

/-- otlptools.CmpAttrs returns 0 only for identical attribute lists -/
theorem cmpAttrs_eq (a b : KVs) (ha : a.b64 = true) (hb : b.b64 = true) (h : cmpAttrs a b = 0) : a = b := by
  unfold cmpAttrs at h
  have h1 := firstNonZero_eq_zero h
  have h2 := lenDiff_eq h1.2
  have hk := cmpKeyPrefix_eq a.keys b.keys (by rw [KVs.keys_length, KVs.keys_length]; exact h2.1) h1.1
  exact cmpAttrValues_eq a b hk ha hb h2.2

/-! ### otelstef.CmpAnyValue -/

mutual
  theorem cmpAnyValue_eq : ∀ (a b : AnyValue), a.b64 = true → b.b64 = true → cmpAnyValue a b = 0 → a = b
    | .empty, b, _, _, h => by cases b <;> simp [cmpAnyValue, typeTag, natCompare] at h ⊢
    | .str x, b, _, _, h => by
      cases b with
      | str y => simp only [cmpAnyValue] at h; rw [strCompare_eq x y h]
      | _ => simp [cmpAnyValue, typeTag, natCompare] at h
    | .bool x, b, _, _, h => by
      cases b with
      | bool y => simp only [cmpAnyValue] at h; rw [boolCompare_eq h]
      | _ => simp [cmpAnyValue, typeTag, natCompare] at h
    | .int x, b, ha, hb, h => by
      cases b with
      | int y =>
        simp only [cmpAnyValue] at h
        simp only [AnyValue.b64, decide_eq_true_eq] at ha hb
        rw [int64Compare_eq ha hb h]
      | _ => simp [cmpAnyValue, typeTag, natCompare] at h
    | .dbl x, b, ha, hb, h => by
      cases b with
      | dbl y =>
        simp only [cmpAnyValue] at h
        simp only [AnyValue.b64, decide_eq_true_eq] at ha hb
        rw [float64Compare_eq ha hb h]
      | _ => simp [cmpAnyValue, typeTag, natCompare] at h
    | .bytes x, b, _, _, h => by
      cases b with
      | bytes y => simp only [cmpAnyValue] at h; rw [strCompare_eq x y h]
      | _ => simp [cmpAnyValue, typeTag, natCompare] at h
    | .slice xs, b, ha, hb, h => by
      cases b with
      | slice ys =>
        simp only [cmpAnyValue] at h
        have h' := lenDiff_eq h
        simp only [AnyValue.b64] at ha hb
        rw [cmpValues_eq xs ys h'.1 ha hb h'.2]
      | _ => simp [cmpAnyValue, typeTag, natCompare] at h
    | .map xs, b, ha, hb, h => by
      cases b with
      | map ys =>
        simp only [cmpAnyValue] at h
        have h1 := firstNonZero_eq_zero h
        have h2 := lenDiff_eq h1.2
        simp only [AnyValue.b64] at ha hb
        have hk := cmpKeyPrefix_eq xs.keys ys.keys (by rw [KVs.keys_length, KVs.keys_length]; exact h2.1) h1.1
        rw [cmpKVValues_eq xs ys hk ha hb h2.2]
      | _ => simp [cmpAnyValue, typeTag, natCompare] at h
  theorem cmpValues_eq : ∀ (xs ys : Values), xs.length = ys.length → xs.b64 = true → ys.b64 = true →
      cmpValues xs ys = 0 → xs = ys
    | .nil, .nil, _, _, _, _ => rfl
    | .nil, .cons _ _, hl, _, _, _ => by simp [Values.length] at hl
    | .cons _ _, .nil, hl, _, _, _ => by simp [Values.length] at hl
    | .cons x xs, .cons y ys, hl, ha, hb, h => by
      simp only [cmpValues] at h
      have h' := firstNonZero_eq_zero h
      simp only [Values.b64, Bool.and_eq_true] at ha hb
      rw [cmpAnyValue_eq x y ha.1 hb.1 h'.1, cmpValues_eq xs ys (by simpa [Values.length] using hl) ha.2 hb.2 h'.2]
  theorem cmpKVValues_eq : ∀ (xs ys : KVs), xs.keys = ys.keys → xs.b64 = true → ys.b64 = true →
      cmpKVValues xs ys = 0 → xs = ys
    | .nil, .nil, _, _, _, _ => rfl
    | .nil, .cons _ _ _, hk, _, _, _ => by simp [KVs.keys] at hk
    | .cons _ _ _, .nil, hk, _, _, _ => by simp [KVs.keys] at hk
    | .cons k x xs, .cons l y ys, hk, ha, hb, h => by
      simp only [cmpKVValues] at h
      have h' := firstNonZero_eq_zero h
      simp only [KVs.b64, Bool.and_eq_true] at ha hb
      simp only [KVs.keys, List.cons.injEq] at hk
      rw [hk.1, cmpAnyValue_eq x y ha.1 hb.1 h'.1, cmpKVValues_eq xs ys hk.2 ha.2 hb.2 h'.2]
end

/-- otelstef.CmpAttributes returns 0 only for identical attribute lists -/
theorem cmpKVs_eq (a b : KVs) (ha : a.b64 = true) (hb : b.b64 = true) (h : cmpKVs a b = 0) : a = b := by
  unfold cmpKVs at h
  have h1 := firstNonZero_eq_zero h
  have h2 := lenDiff_eq h1.2
  have hk := cmpKeyPrefix_eq a.keys b.keys (by rw [KVs.keys_length, KVs.keys_length]; exact h2.1) h1.1
  exact cmpKVValues_eq a b hk ha hb h2.2

end Stef.Otlp
