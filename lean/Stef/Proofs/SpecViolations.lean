/-
  Stef.Proofs.SpecViolations: the violation counter `DS.dictViolations` of the specification decoder
  (`Stef/Spec.lean`) never decreases - for `decodePrim`, `decodeNode` and the four list decoders,
  every schema, node, environment, previous value, state and fuel (`dv_mono_all`).

  The counter counts the specification violations that do not stop decoding: direct string
  encodings of a value that is already in its dictionary (`decodePrim`) and values-only multimap
  encodings against a previous value of more than 62 pairs (`decodeNode`, case `.mmap`). Used by
  Stef/Props/C02.lean (`values_only_over_62_is_violation`).
-/
import Stef.Proofs.ForwardNode

namespace Stef.Proofs.SpecViolations
open Stef Stef.Spec Stef.Proofs.Override Stef.Proofs.Forward

theorem decodePrim_dv (col : Nat) (p : Prim) (d : Option String) (ds : DS) (v : St) (ds' : DS)
    (h : decodePrim col p d ds = .ok (v, ds')) : ds.dictViolations ≤ ds'.dictViolations := by
  cases p with
  | bool =>
    simp only [decodePrim] at h
    split at h
    · cases h
    · injection h with h; injection h with h1 h2; subst h2
      exact Nat.le_refl _
  | i64 =>
    simp only [decodePrim] at h
    obtain ⟨x, hx, h2⟩ := bind_ok _ _ _ h
    injection h2 with h2; injection h2 with h1 h2; subst h2
    exact Nat.le_refl _
  | u64 =>
    simp only [decodePrim] at h
    obtain ⟨x, hx, h2⟩ := bind_ok _ _ _ h
    injection h2 with h2; injection h2 with h1 h2; subst h2
    exact Nat.le_refl _
  | f64 =>
    simp only [decodePrim] at h
    obtain ⟨x, hx, h2⟩ := bind_ok _ _ _ h
    injection h2 with h2; injection h2 with h1 h2; subst h2
    exact Nat.le_refl _
  | str =>
    simp only [decodePrim] at h
    obtain ⟨x, hx, h2⟩ := bind_ok _ _ _ h
    try simp only at h2
    by_cases hm : x.1.msb = true
    · simp only [hm, if_true] at h2
      cases d with
      | none => cases h2
      | some dn =>
        try simp only at h2
        split at h2
        · cases h2
        · injection h2 with h2; injection h2 with h1 h2; subst h2
          exact Nat.le_refl _
    · simp only [hm] at h2
      obtain ⟨y, hy, h3⟩ := bind_ok _ _ _ h2
      try simp only at h3
      cases d with
      | none =>
        try simp only at h3
        injection h3 with h3; injection h3 with h1 h3; subst h3
        exact Nat.le_refl _
      | some dn =>
        try simp only at h3
        by_cases hl : y.1.length ≥ 2
        · simp only [hl, if_true] at h3
          injection h3 with h3; injection h3 with h1 h3; subst h3
          exact Nat.le_add_right _ _
        · simp only [hl, if_false] at h3
          injection h3 with h3; injection h3 with h1 h3; subst h3
          exact Nat.le_add_right _ _
  | byts =>
    simp only [decodePrim] at h
    obtain ⟨x, hx, h2⟩ := bind_ok _ _ _ h
    try simp only at h2
    by_cases hm : x.1.msb = true
    · simp only [hm, if_true] at h2
      cases d with
      | none => cases h2
      | some dn =>
        try simp only at h2
        split at h2
        · cases h2
        · injection h2 with h2; injection h2 with h1 h2; subst h2
          exact Nat.le_refl _
    · simp only [hm] at h2
      obtain ⟨y, hy, h3⟩ := bind_ok _ _ _ h2
      try simp only at h3
      cases d with
      | none =>
        try simp only at h3
        injection h3 with h3; injection h3 with h1 h3; subst h3
        exact Nat.le_refl _
      | some dn =>
        try simp only at h3
        by_cases hl : y.1.length ≥ 2
        · simp only [hl, if_true] at h3
          injection h3 with h3; injection h3 with h1 h3; subst h3
          exact Nat.le_add_right _ _
        · simp only [hl, if_false] at h3
          injection h3 with h3; injection h3 with h1 h3; subst h3
          exact Nat.le_add_right _ _

/-! ## the statements, per fuel -/

def MNode (σ : Schema) (f : Nat) : Prop :=
  ∀ env n cur ds v ds', decodeNode σ f env n cur ds = .ok (v, ds') → ds.dictViolations ≤ ds'.dictViolations

def MFields (σ : Schema) (f : Nat) : Prop :=
  ∀ env fields idx optIdx mask pres prevPres cur ds out ds',
    decodeFields σ f env fields idx optIdx mask pres prevPres cur ds = .ok (out, ds') →
    ds.dictViolations ≤ ds'.dictViolations

def MElems (σ : Schema) (f : Nat) : Prop :=
  ∀ env elem ety n old ds out ds', decodeElems σ f env elem ety n old ds = .ok (out, ds') →
    ds.dictViolations ≤ ds'.dictViolations

def MPairs (σ : Schema) (f : Nat) : Prop :=
  ∀ env k v kty vty n old ds out ds', decodePairsFull σ f env k v kty vty n old ds = .ok (out, ds') →
    ds.dictViolations ≤ ds'.dictViolations

def MVals (σ : Schema) (f : Nat) : Prop :=
  ∀ env v changed idx old ds out ds', decodeValuesOnly σ f env v changed idx old ds = .ok (out, ds') →
    ds.dictViolations ≤ ds'.dictViolations

variable {σ : Schema}

theorem fields_step (f : Nat) (hn : MNode σ f) (hf : MFields σ f) : MFields σ (f + 1) := by
  intro env fields idx optIdx mask pres prevPres cur ds out ds' h
  cases fields with
  | nil =>
    simp only [decodeFields] at h
    injection h with h; injection h with h1 h2; subst h2
    exact Nat.le_refl _
  | cons fdn rest =>
    obtain ⟨opt, n⟩ := fdn
    rw [decodeFields_cons] at h
    by_cases hc : (mask.testBit idx && (!opt || pres.testBit optIdx)) = true
    · simp only [hc, if_true] at h
      obtain ⟨⟨v, ds1⟩, h1, h2⟩ := bind_ok _ _ _ h
      simp only at h2
      obtain ⟨⟨vs, ds2⟩, h3, h4⟩ := bind_ok _ _ _ h2
      simp only at h4
      injection h4 with h4; injection h4 with h5 h6; subst h6
      exact Nat.le_trans (hn _ _ _ _ _ _ h1) (hf _ _ _ _ _ _ _ _ _ _ _ h3)
    · simp only [hc, Bool.false_eq_true, if_false, pure, Except.pure] at h
      obtain ⟨⟨v, ds1⟩, h1, h2⟩ := bind_ok _ _ _ h
      injection h1 with h1; injection h1 with h1a h1b; subst h1b
      simp only at h2
      obtain ⟨⟨vs, ds2⟩, h3, h4⟩ := bind_ok _ _ _ h2
      simp only at h4
      injection h4 with h4; injection h4 with h5 h6; subst h6
      exact hf _ _ _ _ _ _ _ _ _ _ _ h3

theorem elems_step (f : Nat) (hn : MNode σ f) (he : MElems σ f) : MElems σ (f + 1) := by
  intro env elem ety n old ds out ds' h
  cases n with
  | zero =>
    simp only [decodeElems] at h
    injection h with h; injection h with h1 h2; subst h2
    exact Nat.le_refl _
  | succ n =>
    rw [decodeElems_succ] at h
    obtain ⟨⟨v, ds1⟩, h1, h2⟩ := bind_ok _ _ _ h
    simp only at h2
    obtain ⟨⟨vs, ds2⟩, h3, h4⟩ := bind_ok _ _ _ h2
    simp only at h4
    injection h4 with h4; injection h4 with h5 h6; subst h6
    exact Nat.le_trans (hn _ _ _ _ _ _ h1) (he _ _ _ _ _ _ _ _ h3)

theorem pairs_step (f : Nat) (hn : MNode σ f) (hp : MPairs σ f) : MPairs σ (f + 1) := by
  intro env k v kty vty n old ds out ds' h
  cases n with
  | zero =>
    simp only [decodePairsFull] at h
    injection h with h; injection h with h1 h2; subst h2
    exact Nat.le_refl _
  | succ n =>
    rw [decodePairsFull_succ] at h
    simp only at h
    obtain ⟨⟨kv, ds1⟩, h1, h2⟩ := bind_ok _ _ _ h
    simp only at h2
    obtain ⟨⟨vv, ds2⟩, h3, h4⟩ := bind_ok _ _ _ h2
    simp only at h4
    obtain ⟨⟨rs, ds3⟩, h5, h6⟩ := bind_ok _ _ _ h4
    simp only at h6
    injection h6 with h6; injection h6 with h7 h8; subst h8
    exact Nat.le_trans (hn _ _ _ _ _ _ h1) (Nat.le_trans (hn _ _ _ _ _ _ h3) (hp _ _ _ _ _ _ _ _ _ _ h5))

theorem vals_step (f : Nat) (hn : MNode σ f) (hv : MVals σ f) : MVals σ (f + 1) := by
  intro env v changed idx old ds out ds' h
  cases old with
  | nil =>
    simp only [decodeValuesOnly] at h
    injection h with h; injection h with h1 h2; subst h2
    exact Nat.le_refl _
  | cons o os =>
    obtain ⟨pk, pv⟩ := o
    simp only [decodeValuesOnly] at h
    by_cases hc : (decide (idx < 64) && changed.testBit idx) = true
    · simp only [hc, if_true] at h
      obtain ⟨⟨v1, ds1⟩, h1, h2⟩ := bind_ok _ _ _ h
      simp only at h2
      obtain ⟨⟨rs, ds2⟩, h3, h4⟩ := bind_ok _ _ _ h2
      simp only at h4
      injection h4 with h4; injection h4 with h5 h6; subst h6
      exact Nat.le_trans (hn _ _ _ _ _ _ h1) (hv _ _ _ _ _ _ _ _ h3)
    · simp only [hc, Bool.false_eq_true, if_false, pure, Except.pure] at h
      obtain ⟨⟨v1, ds1⟩, h1, h2⟩ := bind_ok _ _ _ h
      injection h1 with h1; injection h1 with h1a h1b; subst h1b
      simp only at h2
      obtain ⟨⟨rs, ds2⟩, h3, h4⟩ := bind_ok _ _ _ h2
      simp only at h4
      injection h4 with h4; injection h4 with h5 h6; subst h6
      exact hv _ _ _ _ _ _ _ _ h3

/-- the header-consumed state of the values-only branch: one violation more iff the previous
    value has more than 62 pairs -/
def bump (n : Nat) (ds : DS) : DS :=
  if n > 62 then { ds with dictViolations := ds.dictViolations + 1 } else ds

theorem dv_bump (n : Nat) (ds : DS) :
    (bump n ds).dictViolations = ds.dictViolations + (if n > 62 then 1 else 0) := by
  unfold bump
  by_cases hn : n > 62
  · rw [if_pos hn, if_pos hn]
  · rw [if_neg hn, if_neg hn]; rfl

theorem node_step (f : Nat) (hn : MNode σ f) (hf : MFields σ f) (he : MElems σ f) (hp : MPairs σ f)
    (hv : MVals σ f) : MNode σ (f + 1) := by
  intro env n cur ds v ds' h
  cases n with
  | prim col p d =>
    simp only [decodeNode] at h
    exact decodePrim_dv _ _ _ _ _ _ h
  | recur key =>
    simp only [decodeNode] at h
    cases hfind : env.find? (·.1 = key) with
    | none => simp [hfind] at h
    | some e =>
      obtain ⟨k', n'⟩ := e
      simp only [hfind] at h
      exact hn _ _ _ _ _ _ h
  | struct col name d kept oc fields =>
    rw [decodeNode_struct'] at h
    obtain ⟨⟨isRef, c⟩, h1, h2⟩ := bind_ok _ _ _ h
    simp only at h2
    cases isRef with
    | true =>
      simp only [if_true] at h2
      unfold structRef at h2
      obtain ⟨⟨r, rest⟩, h3, h4⟩ := bind_ok _ _ _ h2
      simp only at h4
      split at h4
      · injection h4 with h4; injection h4 with h5 h6; subst h6
        exact Nat.le_refl _
      · cases h4
    | false =>
      simp only [Bool.false_eq_true, if_false] at h2
      unfold structFull at h2
      obtain ⟨⟨mask, rest⟩, h3, h4⟩ := bind_ok _ _ _ h2
      simp only at h4
      obtain ⟨⟨pres, rest2⟩, h5, h6⟩ := bind_ok _ _ _ h4
      simp only at h6
      obtain ⟨⟨nf, ds2⟩, h7, h8⟩ := bind_ok _ _ _ h6
      simp only at h8
      injection h8 with h8
      have hm := hf _ _ _ _ _ _ _ _ _ _ _ h7
      cases d with
      | none =>
        simp only [structStore] at h8
        injection h8 with h9 h10; subst h10
        exact hm
      | some dn =>
        simp only [structStore] at h8
        injection h8 with h9 h10; subst h10
        exact hm
  | oneof col name kept alts =>
    rw [decodeNode_oneof] at h
    obtain ⟨⟨tt, rest⟩, h1, h2⟩ := bind_ok _ _ _ h
    simp only at h2
    by_cases hgt : tt.toNat > kept
    · simp [hgt] at h2
    · simp only [hgt, if_false] at h2
      by_cases h0 : tt.toNat = 0
      · simp only [h0, if_true] at h2
        injection h2 with h2; injection h2 with h3 h4; subst h4
        exact Nat.le_refl _
      · simp only [h0, if_false] at h2
        cases halt : alts[tt.toNat - 1]? with
        | none => simp [halt] at h2
        | some an =>
          simp only [halt] at h2
          obtain ⟨⟨v1, ds1⟩, h3, h4⟩ := bind_ok _ _ _ h2
          simp only at h4
          injection h4 with h4; injection h4 with h5 h6; subst h6
          have hm := hn _ _ _ _ _ _ h3
          exact hm
  | arr col key ety elem =>
    rw [decodeNode_arr] at h
    obtain ⟨⟨len, rest⟩, h1, h2⟩ := bind_ok _ _ _ h
    simp only at h2
    obtain ⟨⟨es, ds1⟩, h3, h4⟩ := bind_ok _ _ _ h2
    simp only at h4
    injection h4 with h4; injection h4 with h5 h6; subst h6
    have hm := he _ _ _ _ _ _ _ _ h3
    exact hm
  | mmap col name kty vty k v =>
    rw [decodeNode_mmap] at h
    obtain ⟨⟨x, rest⟩, h1, h2⟩ := bind_ok _ _ _ h
    simp only at h2
    by_cases hx0 : x = 0#64
    · simp only [hx0, if_true] at h2
      injection h2 with h2; injection h2 with h3 h4; subst h4
      exact Nat.le_refl _
    · simp only [hx0, if_false] at h2
      by_cases hl : x.getLsbD 0 = true
      · simp only [hl, if_true] at h2
        by_cases hcnt : (x >>> 1).toNat ≥ 1024
        · rw [if_pos hcnt] at h2
          cases h2
        · rw [if_neg hcnt] at h2
          obtain ⟨⟨ps, ds1⟩, h3, h4⟩ := bind_ok _ _ _ h2
          simp only at h4
          injection h4 with h4; injection h4 with h5 h6; subst h6
          have hm := hp _ _ _ _ _ _ _ _ _ _ h3
          exact hm
      · simp only [hl, Bool.false_eq_true, if_false] at h2
        obtain ⟨⟨ps, ds1⟩, h3, h4⟩ := bind_ok _ _ _ h2
        simp only at h4
        injection h4 with h4; injection h4 with h5 h6; subst h6
        have hm := hv _ _ _ _ _ _ _ _ h3
        have hb := dv_bump (mmapPairs cur).length (ds.setCol col { ds.col col with bytes := rest })
        unfold bump at hb
        rw [hb] at hm
        exact Nat.le_trans (Nat.le_add_right _ _) hm

/-- **the violation counter never decreases**: all five decoders, every fuel -/
theorem dv_mono_all (σ : Schema) : ∀ f, MNode σ f ∧ MFields σ f ∧ MElems σ f ∧ MPairs σ f ∧ MVals σ f := by
  intro f
  induction f with
  | zero =>
    refine ⟨?_, ?_, ?_, ?_, ?_⟩
    · intro env n cur ds v ds' h
      rw [decodeNode] at h
      cases h
    · intro env fields idx optIdx mask pres prevPres cur ds out ds' h
      rw [decodeFields] at h
      cases h
    · intro env elem ety n old ds out ds' h
      rw [decodeElems] at h
      cases h
    · intro env k v kty vty n old ds out ds' h
      rw [decodePairsFull] at h
      cases h
    · intro env v changed idx old ds out ds' h
      rw [decodeValuesOnly] at h
      cases h
  | succ f ih =>
    obtain ⟨hn, hf, he, hp, hv⟩ := ih
    exact ⟨node_step f hn hf he hp hv, fields_step f hn hf, elems_step f hn he, pairs_step f hn hp,
      vals_step f hn hv⟩

theorem decodeNode_dv_mono (σ : Schema) (fuel : Nat) (env : List (String × Node)) (n : Node) (cur : St) (ds : DS)
    (v : St) (ds' : DS) (h : decodeNode σ fuel env n cur ds = .ok (v, ds')) :
    ds.dictViolations ≤ ds'.dictViolations :=
  (dv_mono_all σ fuel).1 env n cur ds v ds' h

theorem decodeValuesOnly_dv_mono (σ : Schema) (fuel : Nat) (env : List (String × Node)) (v : Node) (changed idx : Nat)
    (old : List (St × St)) (ds : DS) (out : List (St × St)) (ds' : DS)
    (h : decodeValuesOnly σ fuel env v changed idx old ds = .ok (out, ds')) :
    ds.dictViolations ≤ ds'.dictViolations :=
  (dv_mono_all σ fuel).2.2.2.2 env v changed idx old ds out ds' h

end Stef.Proofs.SpecViolations
