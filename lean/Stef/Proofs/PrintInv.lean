/-
  Every schema accepted by `idl.Parse` satisfies the printability invariant `PP`:
  all names are lexer identifiers, dictionary modifiers sit where the parser accepts them,
  enum values are uint64, the package path is not empty.
-/
import Stef.Proofs.PrintLex
import Stef.Proofs.IdlNames

namespace Stef.Idl

/-- the token predicate: identifier tokens are identifiers, numbers are uint64. -/
def PTok (t : Token) : Prop :=
  (∀ n, t.tok = .ident n → IsIdent n) ∧ (∀ v, t.tok = .num v → v ≤ maxU64)

theorem lex_tsOkP (input : List Char) : TsOk PTok (lex input) :=
  ⟨⟨by intro n hn; simp [dfltTok] at hn, by intro v hv; simp [dfltTok] at hv⟩,
   fun t ht => ⟨lex_ident_ok input t ht, lex_num_ok input t ht⟩⟩

theorem IsIdent.ne_nil {n : Name} (h : IsIdent n) : n ≠ [] := by
  intro hn; subst hn; exact h.1

/-! ### grammar phase -/

theorem parseDictModifier_ident {ts ts' : List Token} {d : Name} (ht : TsOk PTok ts)
    (h : parseDictModifier ts = .ok d ts') : IsIdent d := by
  unfold parseDictModifier at h
  have h1 := eat_good (P := PTok) (.punct '(') (adv_ok ht)
  split at h
  · cases h
  · rename_i u ts1 heq
    have k1 := h1.ok_of heq
    split at h
    · rename_i n hn
      split at h
      · cases h
      · cases h
        exact (cur_P k1).1 _ hn
    · cases h

/-- the shape of a type right after `parseFieldType`. -/
def FTypeP0 : FType → Prop
  | .base b => BaseP b
  | .array e d _ => BaseP e ∧ d = []

theorem FTypeP0.toP {ty : FType} (h : FTypeP0 ty) (ins : Bool) : FTypeP ins ty := by
  cases ty with
  | base b => exact h
  | array e d r => exact ⟨h.1, Or.inl h.2⟩

theorem typeOfTok_baseP {t : Tok} {b : BaseType} (h : typeOfTok t = some b)
    (hid : ∀ n, t = .ident n → IsIdent n) : RefsIdent b ∧ b.dict = [] ∧ b.enum = [] := by
  unfold typeOfTok at h
  split at h <;> simp at h <;> subst h
  · rename_i n
    refine ⟨⟨fun _ => hid n rfl, by simp, by simp⟩, rfl, rfl⟩
  all_goals exact ⟨⟨by simp, by simp, by simp⟩, rfl, rfl⟩

theorem parseFieldType_P {ts ts' : List Token} {ty : FType} (ht : TsOk PTok ts)
    (h : parseFieldType ts = .ok ty ts') :
    FTypeP0 ty ∧ ((cur ts').tok = .kw .dict → ty.inner.dict ≠ []) := by
  unfold parseFieldType at h
  simp only at h
  have hr : (if (cur ts).tok = .punct '[' then eat (.punct ']') (adv ts) else PR.ok () ts).Good PTok := by
    split
    · exact eat_good _ (adv_ok ht)
    · exact ht
  split at h
  · cases h
  · rename_i u ts1 h1
    have k1 := hr.ok_of h1
    split at h
    · split at h <;> cases h
    · rename_i ft hft
      obtain ⟨hri, hd0, he0⟩ := typeOfTok_baseP hft (cur_P k1).1
      split at h
      · split at h
        · cases h
        · rename_i hda
          split at h
          · cases h
          · rename_i d ts2 hdm
            have hid := parseDictModifier_ident (adv_ok k1) hdm
            have hbp : BaseP { ft with dict := d } :=
              ⟨hri, Or.inr ⟨hid, Or.inr (by simpa [dictAllowed] using hda)⟩⟩
            split at h <;> cases h
            · exact ⟨⟨hbp, rfl⟩, fun _ => hid.ne_nil⟩
            · exact ⟨hbp, fun _ => hid.ne_nil⟩
      · rename_i hnd
        have hbp : BaseP ft := ⟨hri, Or.inl hd0⟩
        split at h <;> cases h
        · exact ⟨⟨hbp, rfl⟩, fun hc => absurd hc hnd⟩
        · exact ⟨hbp, fun hc => absurd hc hnd⟩

theorem parseMultimapField_P {ts ts' : List Token} {ty : FType} (ht : TsOk PTok ts)
    (h : parseMultimapField ts = .ok ty ts') : FTypeP false ty := by
  unfold parseMultimapField at h
  split at h
  · cases h
  · rename_i ty0 ts0 h0
    obtain ⟨hp0, hdict⟩ := parseFieldType_P ht h0
    have k0 := (parseFieldType_good ht).ok_of h0
    split at h
    · rename_i hcur
      split at h
      · cases h
      · rename_i d ts2 hdm
        cases h
        have hid := parseDictModifier_ident k0 hdm
        have hne := hdict hcur
        cases ty0 with
        | base b =>
          simp only [FTypeP0] at hp0
          simp only [FType.inner] at hne
          refine ⟨hp0.1, Or.inr ⟨hid, ?_⟩⟩
          rcases hp0.2 with h | ⟨_, h⟩
          · exact absurd h hne
          · exact h
        | array e d0 r =>
          simp only [FTypeP0] at hp0
          simp only [FType.inner] at hne
          exact ⟨hp0.1, Or.inr ⟨rfl, hid, hne⟩⟩
    · cases h; exact hp0.toP false

theorem parseStructFields_P : ∀ (f : Nat) (fs : List Field) (ts : List Token)
    (fs' : List Field) (ts' : List Token), TsOk PTok ts → parseStructFields f fs ts = .ok fs' ts' →
    (∀ x ∈ fs, IsIdent x.name ∧ FTypeP true x.ty) → ∀ x ∈ fs', IsIdent x.name ∧ FTypeP true x.ty
  | 0, fs, ts, fs', ts', _, h, _ => by simp [parseStructFields] at h
  | f + 1, fs, ts, fs', ts', ht, h, hr => by
    unfold parseStructFields at h
    split at h
    · rename_i fname hname
      split at h
      · cases h
      · split at h
        · cases h
        · rename_i ty ts1 hty
          simp only at h
          have k1 := (parseFieldType_good (adv_ok ht)).ok_of hty
          refine parseStructFields_P f _ _ _ _ (skipOptionals_ok _ _ k1) h ?_
          intro x hx
          simp only [List.mem_append, List.mem_singleton] at hx
          rcases hx with hx | hx
          · exact hr x hx
          · subst hx
            exact ⟨(cur_P ht).1 fname hname, (parseFieldType_P (adv_ok ht) hty).1.toP true⟩
    · cases h; exact hr

theorem parseEnumFields_P : ∀ (f : Nat) (fs : List EnumField) (ts : List Token)
    (fs' : List EnumField) (ts' : List Token), TsOk PTok ts → parseEnumFields f fs ts = .ok fs' ts' →
    (∀ x ∈ fs, IsIdent x.name ∧ x.value ≤ maxU64) → ∀ x ∈ fs', IsIdent x.name ∧ x.value ≤ maxU64
  | 0, fs, ts, fs', ts', _, h, _ => by simp [parseEnumFields] at h
  | f + 1, fs, ts, fs', ts', ht, h, hr => by
    unfold parseEnumFields at h
    split at h
    · rename_i fname hname
      split at h
      · cases h
      · split at h
        · cases h
        · rename_i u ts1 h1
          have k1 := (eat_good (P := PTok) _ (adv_ok ht)).ok_of h1
          split at h
          · rename_i v hv
            refine parseEnumFields_P f _ _ _ _ (adv_ok k1) h ?_
            intro x hx
            simp only [List.mem_append, List.mem_singleton] at hx
            rcases hx with hx | hx
            · exact hr x hx
            · subst hx
              exact ⟨(cur_P ht).1 fname hname, (cur_P k1).2 v hv⟩
          · cases h
    · cases h; exact hr

theorem parsePackageLoop_P : ∀ (f : Nat) (acc : List Name) (ts : List Token) (pkg : List Name)
    (ts' : List Token), TsOk PTok ts → parsePackageLoop f acc ts = .ok pkg ts' →
    (∀ n ∈ acc, IsIdent n) → pkg ≠ [] ∧ ∀ n ∈ pkg, IsIdent n
  | 0, acc, ts, pkg, ts', _, h, _ => by simp [parsePackageLoop] at h
  | f + 1, acc, ts, pkg, ts', ht, h, hr => by
    unfold parsePackageLoop at h
    split at h
    · rename_i c hc
      have hacc : ∀ n ∈ acc ++ [c], IsIdent n := by
        intro n hn
        simp only [List.mem_append, List.mem_singleton] at hn
        rcases hn with hn | rfl
        · exact hr n hn
        · exact (cur_P ht).1 _ hc
      simp only at h
      split at h
      · exact parsePackageLoop_P f _ _ _ _ (adv_ok (adv_ok ht)) h hacc
      · cases h
        exact ⟨by simp, hacc⟩
    · cases h

/-! ### the invariant through the definition loop -/

theorem PP.addStruct {σ : Schema} (h : PP σ) (s : Struct) (hs : StructP s) :
    PP { σ with structs := σ.structs ++ [s] } :=
  ⟨h.pkg_ne, h.pkg, by
    intro x hx
    simp only [List.mem_append, List.mem_singleton] at hx
    rcases hx with hx | rfl
    · exact h.structs x hx
    · exact hs, h.multimaps, h.enums⟩

theorem PP.addMultimap {σ : Schema} (h : PP σ) (m : Multimap) (hm : MultimapP m) :
    PP { σ with multimaps := σ.multimaps ++ [m] } :=
  ⟨h.pkg_ne, h.pkg, h.structs, by
    intro x hx
    simp only [List.mem_append, List.mem_singleton] at hx
    rcases hx with hx | rfl
    · exact h.multimaps x hx
    · exact hm, h.enums⟩

theorem PP.addEnum {σ : Schema} (h : PP σ) (e : Enum) (he : EnumP e) :
    PP { σ with enums := σ.enums ++ [e] } :=
  ⟨h.pkg_ne, h.pkg, h.structs, h.multimaps, by
    intro x hx
    simp only [List.mem_append, List.mem_singleton] at hx
    rcases hx with hx | rfl
    · exact h.enums x hx
    · exact he⟩

theorem parseStruct_P {σ σ' : Schema} {ts ts' : List Token} {o : Bool} (ht : TsOk PTok ts)
    (hg : PP σ) (h : parseStruct o σ ts = .ok σ' ts') : PP σ' := by
  unfold parseStruct at h
  simp only at h
  split at h
  · rename_i sname hname
    have hsn : IsIdent sname := (cur_P (adv_ok ht)).1 sname hname
    split at h
    · cases h
    · have haa := adv_ok (adv_ok ht)
      split at h
      · cases h
      · rename_i dict isRoot ts1 hmods
        -- facts about the modifiers
        have hm : TsOk PTok ts1 ∧ (dict = [] ∨ IsIdent dict) ∧ (o = true → dict = [] ∧ isRoot = false) ∧
            (dict ≠ [] → isRoot = false) := by
          split at hmods
          · split at hmods
            · cases hmods
            · rename_i ho
              split at hmods
              · cases hmods
              · rename_i d ts3 h3
                cases hmods
                refine ⟨(parseDictModifier_good haa).ok_of h3, Or.inr (parseDictModifier_ident haa h3), ?_, fun _ => rfl⟩
                intro ho'; exact absurd ho' ho
          · split at hmods
            · cases hmods
            · rename_i ho
              cases hmods
              refine ⟨adv_ok haa, Or.inl rfl, ?_, fun hd => absurd rfl hd⟩
              intro ho'; exact absurd ho' ho
          · cases hmods
            exact ⟨haa, Or.inl rfl, fun _ => ⟨rfl, rfl⟩, fun _ => rfl⟩
        obtain ⟨k1, hd1, ho1, hdr1⟩ := hm
        split at h
        · cases h
        · rename_i u ts2 heat
          have k2 := (eat_good (P := PTok) _ k1).ok_of heat
          split at h
          · cases h
          · rename_i fs ts3 hfs
            split at h
            · cases h
            · split at h
              · cases h
              · cases h
                refine hg.addStruct _ ⟨hsn, hd1, ho1, hdr1, ?_⟩
                exact parseStructFields_P _ _ _ _ _ k2 hfs (by simp)
  · cases h

theorem parseMultimap_P {σ σ' : Schema} {ts ts' : List Token} (ht : TsOk PTok ts)
    (hg : PP σ) (h : parseMultimap σ ts = .ok σ' ts') : PP σ' := by
  unfold parseMultimap at h
  simp only at h
  repeat' (split at h)
  all_goals first
    | (cases h; done)
    | skip
  rename_i _ mname hname hfresh _ _ ts1 h1 _ _ ts2 h2 _ kt ts3 hk _ _ ts4 h4 _ vt _ hv _ _ _ _
  cases h
  have k1 : TsOk PTok ts1 := (eat_good _ (adv_ok (adv_ok ht))).ok_of h1
  have k2 : TsOk PTok ts2 := (eat_good _ k1).ok_of h2
  have k3 : TsOk PTok ts3 := (parseMultimapField_good k2).ok_of hk
  have k4 : TsOk PTok ts4 := (eat_good _ k3).ok_of h4
  exact hg.addMultimap _ ⟨(cur_P (adv_ok ht)).1 mname hname, parseMultimapField_P k2 hk,
    parseMultimapField_P k4 hv⟩

theorem parseEnum_P {σ σ' : Schema} {ts ts' : List Token} (ht : TsOk PTok ts)
    (hg : PP σ) (h : parseEnum σ ts = .ok σ' ts') : PP σ' := by
  unfold parseEnum at h
  simp only at h
  split at h
  · rename_i ename hname
    split at h
    · cases h
    · split at h
      · cases h
      · rename_i u ts1 h1
        have k1 : TsOk PTok ts1 := (eat_good _ (adv_ok (adv_ok ht))).ok_of h1
        split at h
        · cases h
        · rename_i fs ts2 hfs
          split at h
          · cases h
          · cases h
            exact hg.addEnum _ ⟨(cur_P (adv_ok ht)).1 ename hname,
              parseEnumFields_P _ _ _ _ _ k1 hfs (by simp)⟩
  · cases h

theorem parseDefs_P : ∀ (f : Nat) (σ σ' : Schema) (ts ts' : List Token), TsOk PTok ts →
    PP σ → parseDefs f σ ts = .ok σ' ts' → PP σ'
  | 0, σ, σ', ts, ts', _, _, h => by simp [parseDefs] at h
  | f + 1, σ, σ', ts, ts', ht, hg, h => by
    unfold parseDefs at h
    simp only at h
    split at h
    · cases h
    · rename_i σ1 ts1 h1
      have hboth : PP σ1 ∧ TsOk PTok ts1 := by
        split at h1
        · exact ⟨parseStruct_P ht hg h1, (parseStruct_good _ _ ht).ok_of h1⟩
        · exact ⟨parseStruct_P ht hg h1, (parseStruct_good _ _ ht).ok_of h1⟩
        · exact ⟨parseMultimap_P ht hg h1, (parseMultimap_good _ ht).ok_of h1⟩
        · exact ⟨parseEnum_P ht hg h1, (parseEnum_good _ ht).ok_of h1⟩
        · cases h1
      split at h
      · cases h; exact hboth.1
      · exact parseDefs_P f _ _ _ _ hboth.2 hboth.1 h

theorem grammar_P {σ : Schema} {ts ts' : List Token} (ht : TsOk PTok ts)
    (h : grammar ts = .ok σ ts') : PP σ := by
  unfold grammar at h
  split at h
  · cases h
  · rename_i pkg ts1 h1
    have k1 := (parsePackage_good ht).ok_of h1
    have hpkg : pkg ≠ [] ∧ ∀ n ∈ pkg, IsIdent n := by
      unfold parsePackage at h1
      split at h1
      · cases h1
      · rename_i u ts0 h0
        exact parsePackageLoop_P _ _ _ _ _ ((eat_good (P := PTok) _ ht).ok_of h0) h1 (by simp)
    split at h
    · cases h; exact ⟨hpkg.1, hpkg.2, by simp, by simp, by simp⟩
    · exact parseDefs_P _ _ _ _ _ k1 ⟨hpkg.1, hpkg.2, by simp, by simp, by simp⟩ h

/-! ### ResolveRefs keeps the invariant -/

theorem resolveBase_P {σ : Schema} {b b' : BaseType} (h : resolveBase σ b = .ok b') (hb : BaseP b) :
    BaseP b' ∧ b'.dict = b.dict := by
  obtain ⟨⟨hs, hm, he⟩, hd⟩ := hb
  unfold resolveBase at h
  simp only at h
  generalize htn : (if b.struct ≠ [] then b.struct else if b.multimap ≠ [] then b.multimap else b.enum) = tn at h
  by_cases hn : tn = []
  · simp only [hn, ne_eq, not_true_eq_false, ↓reduceIte] at h
    cases h
    exact ⟨⟨⟨hs, hm, he⟩, hd⟩, rfl⟩
  · have hid : IsIdent tn := by
      subst htn
      by_cases h1 : b.struct = []
      · by_cases h2 : b.multimap = []
        · simp only [h1, h2, ne_eq, not_true_eq_false, ↓reduceIte] at hn ⊢
          exact he hn
        · simp only [h1, h2, ne_eq, not_true_eq_false, not_false_eq_true, ↓reduceIte]
          exact hm h2
      · simp only [h1, ne_eq, not_false_eq_true, ↓reduceIte]
        exact hs h1
    simp only [hn, ne_eq, not_false_eq_true, ↓reduceIte] at h
    cases h1 : σ.hasStruct tn <;> cases h2 : σ.hasMultimap tn <;> cases h3 : σ.hasEnum tn <;>
      simp [h1, h2, h3] at h
    · cases h
      refine ⟨⟨⟨by simp, by simpa using hm, fun _ => hid⟩, ?_⟩, rfl⟩
      rcases hd with h | ⟨h, _⟩
      · exact Or.inl h
      · exact Or.inr ⟨h, Or.inl hn⟩
    · cases h
      refine ⟨⟨⟨by simp, fun _ => hid, by simpa using he⟩, ?_⟩, rfl⟩
      rcases hd with h | ⟨h, h'⟩
      · exact Or.inl h
      · exact Or.inr ⟨h, h'⟩
    · cases h
      exact ⟨⟨⟨hs, hm, he⟩, hd⟩, rfl⟩

theorem resolveFType_P {σ : Schema} {ty ty' : FType} {ins : Bool} (h : resolveFType σ ty = .ok ty')
    (hp : FTypeP ins ty) : FTypeP ins ty' := by
  cases ty with
  | base b =>
    simp only [resolveFType] at h
    cases hb : resolveBase σ b with
    | error e => simp [hb, Except.map] at h
    | ok b' =>
      simp [hb, Except.map] at h
      subst h
      exact (resolveBase_P hb hp).1
  | array e d r =>
    simp only [resolveFType] at h
    cases hb : resolveBase σ e with
    | error e => simp [hb, Except.map] at h
    | ok b' =>
      simp [hb, Except.map] at h
      subst h
      obtain ⟨h1, h2⟩ := resolveBase_P hb hp.1
      refine ⟨h1, ?_⟩
      rcases hp.2 with h | ⟨ha, hb', hc⟩
      · exact Or.inl h
      · exact Or.inr ⟨ha, hb', by rw [h2]; exact hc⟩

theorem resolveFields_P {σ : Schema} : ∀ (fs fs' : List Field), resolveFields σ fs = .ok fs' →
    (∀ f ∈ fs, IsIdent f.name ∧ FTypeP true f.ty) → ∀ f ∈ fs', IsIdent f.name ∧ FTypeP true f.ty
  | [], fs', h, _ => by simp [resolveFields] at h; subst h; simp
  | f :: fs, fs', h, hp => by
    unfold resolveFields at h
    split at h
    · cases h
    · rename_i ty hty
      split at h
      · cases h
      · rename_i fs1 hfs
        cases h
        intro x hx
        simp only [List.mem_cons] at hx
        rcases hx with rfl | hx
        · exact ⟨(hp f (by simp)).1, resolveFType_P hty (hp f (by simp)).2⟩
        · exact resolveFields_P fs fs1 hfs (fun g hg => hp g (by simp [hg])) x hx

theorem resolveStructs_P {σ : Schema} : ∀ (ss ss' : List Struct), resolveStructs σ ss = .ok ss' →
    (∀ s ∈ ss, StructP s) → ∀ s ∈ ss', StructP s
  | [], ss', h, _ => by simp [resolveStructs] at h; subst h; simp
  | s :: ss, ss', h, hp => by
    unfold resolveStructs at h
    split at h
    · cases h
    · rename_i fs hfs
      split at h
      · cases h
      · rename_i ss1 hss
        cases h
        intro x hx
        simp only [List.mem_cons] at hx
        rcases hx with rfl | hx
        · have h0 := hp s (by simp)
          exact ⟨h0.name, h0.dict, h0.oneof, h0.dictRoot, resolveFields_P _ _ hfs h0.fields⟩
        · exact resolveStructs_P ss ss1 hss (fun g hg => hp g (by simp [hg])) x hx

theorem resolveMultimaps_P {σ : Schema} : ∀ (ms ms' : List Multimap),
    resolveMultimaps σ ms = .ok ms' → (∀ m ∈ ms, MultimapP m) → ∀ m ∈ ms', MultimapP m
  | [], ms', h, _ => by simp [resolveMultimaps] at h; subst h; simp
  | m :: ms, ms', h, hp => by
    unfold resolveMultimaps at h
    split at h
    · cases h
    · rename_i k hk
      split at h
      · cases h
      · rename_i v hv
        split at h
        · cases h
        · rename_i ms1 hms
          cases h
          intro x hx
          simp only [List.mem_cons] at hx
          rcases hx with rfl | hx
          · have h0 := hp m (by simp)
            exact ⟨h0.name, resolveFType_P hk h0.key, resolveFType_P hv h0.value⟩
          · exact resolveMultimaps_P ms ms1 hms (fun g hg => hp g (by simp [hg])) x hx

theorem resolveRefs_P {σ σ1 : Schema} (h : resolveRefs σ = .ok σ1) (hp : PP σ) : PP σ1 := by
  unfold resolveRefs at h
  split at h
  · cases h
  · rename_i ss hss
    split at h
    · cases h
    · rename_i ms hms
      cases h
      exact ⟨hp.pkg_ne, hp.pkg, resolveStructs_P _ _ hss hp.structs,
        resolveMultimaps_P _ _ hms hp.multimaps, hp.enums⟩

/-! ### the recursion marks only touch flags -/

theorem FTypeP_unmark {ins : Bool} {ty ty' : FType} (h : unmarkFType ty' = unmarkFType ty)
    (hp : FTypeP ins ty) : FTypeP ins ty' := by
  cases ty <;> cases ty' <;> simp [unmarkFType] at h
  · subst h; exact hp
  · obtain ⟨rfl, rfl⟩ := h; exact hp

theorem zip_applyMarks_unmark (m : Marks) (b : Bool) (o : Name) : ∀ (fs : List Field) (i : Nat),
    (zipFieldTypes fs (applyMarksFields m b o (fs.map (·.ty)) i)).map unmarkField = fs.map unmarkField
  | [], i => by simp [zipFieldTypes]
  | f :: fs, i => by
    simp only [List.map_cons, applyMarksFields, zipFieldTypes, zip_applyMarks_unmark m b o fs (i + 1),
      List.cons.injEq, and_true]
    cases hty : f.ty <;> simp [unmarkField, unmarkFType, hty]

theorem markStruct_P {m : Marks} {s : Struct} (h : StructP s) : StructP (markStruct m s) := by
  refine ⟨h.name, h.dict, h.oneof, h.dictRoot, ?_⟩
  intro f' hf'
  have hz := zip_applyMarks_unmark m false s.name s.fields 0
  have : unmarkField f' ∈ (markStruct m s).fields.map unmarkField := List.mem_map_of_mem hf'
  simp only [markStruct, Struct.types] at this
  rw [hz] at this
  simp only [List.mem_map] at this
  obtain ⟨f, hf, he⟩ := this
  have h1 : f'.name = f.name := by
    have := congrArg Field.name he; simpa [unmarkField] using this.symm
  have h2 : unmarkFType f'.ty = unmarkFType f.ty := by
    have := congrArg Field.ty he; simpa [unmarkField] using this.symm
  exact ⟨h1 ▸ (h.fields f hf).1, FTypeP_unmark h2 (h.fields f hf).2⟩

theorem markMultimap_P {m : Marks} {mm : Multimap} (h : MultimapP mm) : MultimapP (markMultimap m mm) := by
  unfold markMultimap
  simp only [Multimap.types, applyMarksFields]
  refine ⟨h.name, ?_, ?_⟩
  · refine FTypeP_unmark ?_ h.key
    cases mm.key <;> rfl
  · refine FTypeP_unmark ?_ h.value
    cases mm.value <;> rfl

theorem applyMarks_P {σ : Schema} (m : Marks) (hp : PP σ) : PP (applyMarks σ m) := by
  rw [applyMarks_eq]
  refine ⟨hp.pkg_ne, hp.pkg, ?_, ?_, hp.enums⟩
  · intro s hs
    simp only [List.mem_map] at hs
    obtain ⟨s0, hs0, rfl⟩ := hs
    exact markStruct_P (hp.structs s0 hs0)
  · intro mm hmm
    simp only [List.mem_map] at hmm
    obtain ⟨m0, hm0, rfl⟩ := hmm
    exact markMultimap_P (hp.multimaps m0 hm0)

/-- every schema `parseTokens` accepts is printable. -/
theorem parseTokens_pp {ts : List Token} {σ : Schema} (ht : TsOk PTok ts)
    (h : parseTokens ts = .ok σ) : PP σ := by
  unfold parseTokens at h
  split at h
  · cases h
  · rename_i σ0 ts0 hg
    split at h
    · cases h
    · rename_i σ1 hres
      split at h
      · cases h
      · rename_i σ2 hcr
        split at h
        · cases h
        · rename_i σ3 hp
          cases h
          have h1 := resolveRefs_P hres (grammar_P ht hg)
          have h2 : PP σ2 := by
            unfold computeRecursive at hcr
            split at hcr
            · cases hcr
            · cases hcr; exact applyMarks_P _ h1
          unfold pruneUnused at hp
          split at hp
          · cases hp
          · cases hp
            exact ⟨h2.pkg_ne, h2.pkg,
              fun s hs => h2.structs s (List.mem_filter.1 hs).1,
              fun m hm => h2.multimaps m (List.mem_filter.1 hm).1,
              fun e he => h2.enums e (List.mem_filter.1 he).1⟩

/-- every schema `idl.Parse` accepts is printable. -/
theorem parse_pp {t : List Char} {σ : Schema} (h : parse t = .ok σ) : PP σ :=
  parseTokens_pp (lex_tsOkP t) h

end Stef.Idl
