/-
  Helper lemmas for property C09, copy part: IsEqual decides equality of the visible data, and
  copyToNew / Clone / CopyFrom (Stef/Cmp.lean) reproduce the data of their source. Core Lean only.
-/
import Stef.Proofs.Cmp

namespace Stef.Cmp
open Stef
variable {α : Type}

/-! ### IsEqual <-> same data -/

mutual
theorem isEqual_iff_data {P : α → Prop} {o : LeafOps α}
    (he : ∀ a b, P a → P b → (o.eq a b = true ↔ a = b)) :
    ∀ a b : Value α, a.All P → b.All P → (isEqual o a b = true ↔ data a = data b) := by
  intro a b ha hb
  cases a with
  | leaf x => cases b with
    | leaf y => simp only [isEqual, data, Value.leaf.injEq]; exact he x y ha hb
    | _ => simp [isEqual, data]
  | null => cases b <;> simp [isEqual, data]
  | struct fs => cases b with
    | struct gs =>
      simp only [isEqual, data, Value.struct.injEq]; exact isEqualFields_iff_data he fs gs ha hb
    | _ => simp [isEqual, data]
  | none => cases b <;> simp [isEqual, data]
  | choice k v => cases b with
    | choice j w =>
      simp only [isEqual, data, Value.choice.injEq, Bool.and_eq_true, beq_iff_eq]
      rw [isEqual_iff_data he v w ha hb]
    | _ => simp [isEqual, data]
  | arr es => cases b with
    | arr fs =>
      simp only [isEqual, data, Value.arr.injEq]; exact isEqualValues_iff_data he es fs ha hb
    | _ => simp [isEqual, data]
  | mmap ps => cases b with
    | mmap qs =>
      simp only [isEqual, data, Value.mmap.injEq]; exact isEqualPairs_iff_data he ps qs ha hb
    | _ => simp [isEqual, data]
theorem isEqualFields_iff_data {P : α → Prop} {o : LeafOps α}
    (he : ∀ a b, P a → P b → (o.eq a b = true ↔ a = b)) :
    ∀ a b : Fields α, a.All P → b.All P → (isEqualFields o a b = true ↔ dataFields a = dataFields b) := by
  intro a b ha hb
  cases a with
  | nil => cases b with
    | nil => simp [isEqualFields, dataFields]
    | cons q w s => cases q <;> simp [isEqualFields, dataFields]
  | cons p v r => cases b with
    | nil => cases p <;> simp [isEqualFields, dataFields]
    | cons q w s =>
      have ih := isEqualFields_iff_data he r s ha.2 hb.2
      have iv := isEqual_iff_data he v w ha.1 hb.1
      cases p <;> cases q <;>
        simp [isEqualFields, dataFields, ih, iv]
theorem isEqualValues_iff_data {P : α → Prop} {o : LeafOps α}
    (he : ∀ a b, P a → P b → (o.eq a b = true ↔ a = b)) :
    ∀ a b : Values α, a.All P → b.All P → (isEqualValues o a b = true ↔ dataValues a = dataValues b) := by
  intro a b ha hb
  cases a with
  | nil => cases b <;> simp [isEqualValues, dataValues]
  | cons v r => cases b with
    | nil => simp [isEqualValues, dataValues]
    | cons w s =>
      simp only [isEqualValues, dataValues, Values.cons.injEq, Bool.and_eq_true]
      rw [isEqual_iff_data he v w ha.1 hb.1, isEqualValues_iff_data he r s ha.2 hb.2]
theorem isEqualPairs_iff_data {P : α → Prop} {o : LeafOps α}
    (he : ∀ a b, P a → P b → (o.eq a b = true ↔ a = b)) :
    ∀ a b : Pairs α, a.All P → b.All P → (isEqualPairs o a b = true ↔ dataPairs a = dataPairs b) := by
  intro a b ha hb
  cases a with
  | nil => cases b <;> simp [isEqualPairs, dataPairs]
  | cons k v r => cases b with
    | nil => simp [isEqualPairs, dataPairs]
    | cons j w s =>
      simp only [isEqualPairs, dataPairs, Pairs.cons.injEq, Bool.and_eq_true]
      rw [isEqual_iff_data he k j ha.1 hb.1, isEqual_iff_data he v w ha.2.1 hb.2.1,
        isEqualPairs_iff_data he r s ha.2.2 hb.2.2, and_assoc]
end

/-- pkg.<T>Equal is exact: what every generated setter (`if !Equal(dst, v) { dst = v }`) needs -/
structure LeafEq (o : LeafOps α) : Prop where
  eq_iff : ∀ a b, o.eq a b = true ↔ a = b

theorem LeafEq.set_eq {o : LeafOps α} (h : LeafEq o) {d s : α} : o.set d s = s := by
  unfold LeafOps.set
  by_cases e : o.eq d s = true
  · simp [(h.eq_iff d s).mp e]
  · simp [e]

mutual
theorem data_copyNew {o : LeafOps α} (h : LeafEq o) :
    ∀ v : Value α, data (copyNew o v) = data v := by
  intro v
  cases v with
  | leaf a => simp [copyNew]
  | null => simp [copyNew]
  | struct fs => simp only [copyNew, data]; rw [data_copyNewFields h fs]
  | none => simp [copyNew]
  | choice k w => cases w with
    | leaf a => simp only [copyNew, data]; rw [h.set_eq]
    | null => simp [copyNew]
    | struct fs => simp only [copyNew, data]; rw [data_copyNewFields h fs]
    | none => simp [copyNew]
    | choice j u =>
      have := data_copyNew h (.choice j u)
      simp only [copyNew] at this ⊢
      simp only [data] at this ⊢
      rw [this]
    | arr es => simp only [copyNew, data]; rw [data_copyNewValues h es]
    | mmap ps => simp only [copyNew, data]; rw [data_copyNewPairs h ps]
  | arr es => simp only [copyNew, data]; rw [data_copyNewValues h es]
  | mmap ps => simp only [copyNew, data]; rw [data_copyNewPairs h ps]
theorem data_copyNewFields {o : LeafOps α} (h : LeafEq o) :
    ∀ v : Fields α, dataFields (copyNewFields o v) = dataFields v := by
  intro v
  cases v with
  | nil => simp [copyNewFields]
  | cons p w r =>
    have ir := data_copyNewFields h r
    cases w with
    | leaf a =>
      cases p
      · simp [copyNewFields, dataFields, ir]
      · simp [copyNewFields, dataFields, ir]
      · simp only [copyNewFields, dataFields, data, ir]
        rw [h.set_eq]
    | _ =>
      cases p <;> simp [copyNewFields, dataFields, ir, data_copyNew h]
theorem data_copyNewValues {o : LeafOps α} (h : LeafEq o) :
    ∀ v : Values α, dataValues (copyNewValues o v) = dataValues v := by
  intro v
  cases v with
  | nil => simp [copyNewValues]
  | cons w r =>
    simp only [copyNewValues, dataValues]
    rw [data_copyNew h w, data_copyNewValues h r]
theorem data_copyNewPairs {o : LeafOps α} (h : LeafEq o) :
    ∀ v : Pairs α, dataPairs (copyNewPairs o v) = dataPairs v := by
  intro v
  cases v with
  | nil => simp [copyNewPairs]
  | cons k w r =>
    simp only [copyNewPairs, dataPairs]
    rw [data_copyNew h k, data_copyNew h w, data_copyNewPairs h r]
end

theorem data_choice (j : BitVec 8) {x y : Value α} (h : data x = data y) :
    data (.choice j x) = data (.choice j y) := by simp [data, h]

theorem isEqual_data {o : LeafOps α} (h : LeafEq o) {x y : Value α} (e : isEqual o x y = true) :
    data x = data y :=
  (isEqual_iff_data (P := fun _ => True) (fun a b _ _ => h.eq_iff a b) x y (all_true x) (all_true y)).mp e

mutual
theorem data_copyFrom {o : LeafOps α} (h : LeafEq o) :
    ∀ s d : Value α, data (copyFrom o d s) = data s := by
  intro s d
  cases s with
  | leaf x => cases d with
    | leaf y => simp only [copyFrom, data]; rw [h.set_eq]
    | _ => simp [copyFrom, copyNew]
  | null => cases d <;> simp [copyFrom, copyNew]
  | struct ss => cases d with
    | struct ds => simp only [copyFrom, data]; rw [data_copyFromFields h ss ds]
    | _ => simp only [copyFrom]; exact data_copyNew h _
  | none => cases d <;> simp [copyFrom]
  | choice j w => cases w with
    | leaf x => cases d with
      | choice k dd => cases dd with
        | leaf y =>
          simp only [copyFrom, data]
          by_cases e : k = j
          · simp only [e, if_true]; rw [h.set_eq]
          · simp only [e, if_false]
        | _ => simp [copyFrom]
      | _ => simp [copyFrom]
    | null => cases d <;> simp [copyFrom, copyNew, zero]
    | struct ss =>
      have i0 := data_copyFrom h (.struct ss) (zero o (.struct ss))
      cases d with
      | choice k dd =>
        have i1 := data_copyFrom h (.struct ss) dd
        simp only [copyFrom]
        by_cases e : k = j <;> simp only [e, if_true, if_false] <;> apply data_choice <;> assumption
      | _ => simp only [copyFrom]; exact data_choice _ i0
    | none => cases d with
      | choice k dd => simp [copyFrom]
      | _ => simp [copyFrom]
    | choice i u =>
      have i0 := data_copyFrom h (.choice i u) (zero o (.choice i u))
      cases d with
      | choice k dd =>
        have i1 := data_copyFrom h (.choice i u) dd
        simp only [copyFrom]
        by_cases e : k = j <;> simp only [e, if_true, if_false] <;> apply data_choice <;> assumption
      | _ => simp only [copyFrom]; exact data_choice _ i0
    | arr es =>
      have i0 := data_copyFrom h (.arr es) (zero o (.arr es))
      cases d with
      | choice k dd =>
        have i1 := data_copyFrom h (.arr es) dd
        simp only [copyFrom]
        by_cases e : k = j <;> simp only [e, if_true, if_false] <;> apply data_choice <;> assumption
      | _ => simp only [copyFrom]; exact data_choice _ i0
    | mmap ps =>
      have i0 := data_copyFrom h (.mmap ps) (zero o (.mmap ps))
      cases d with
      | choice k dd =>
        have i1 := data_copyFrom h (.mmap ps) dd
        simp only [copyFrom]
        by_cases e : k = j <;> simp only [e, if_true, if_false] <;> apply data_choice <;> assumption
      | _ => simp only [copyFrom]; exact data_choice _ i0
  | arr ss => cases d with
    | arr ds => simp only [copyFrom, data]; rw [data_copyFromValues h ss ds]
    | _ => simp only [copyFrom]; exact data_copyNew h _
  | mmap ss => cases d with
    | mmap ds => simp only [copyFrom, data]; rw [data_copyFromPairs h ss ds]
    | _ => simp only [copyFrom]; exact data_copyNew h _
theorem data_copyFromFields {o : LeafOps α} (h : LeafEq o) :
    ∀ s d : Fields α, dataFields (copyFromFields o d s) = dataFields s := by
  intro s d
  cases s with
  | nil => cases d <;> simp [copyFromFields]
  | cons sp sv sr =>
    cases d with
    | nil =>
      have ir := data_copyFromFields h sr .nil
      have iv := data_copyNew h sv
      cases sp <;> simp [copyFromFields, dataFields, ir, iv]
    | cons dp dv dr =>
      have ir := data_copyFromFields h sr dr
      have iv := data_copyFrom h sv dv
      cases sp with
      | absent =>
        cases sv <;> cases dv <;> cases dp <;> simp [copyFromFields, dataFields, ir]
      | present =>
        cases sv with
        | leaf x => cases dv with
          | leaf y =>
            simp only [copyFromFields, dataFields, data, ir]
            by_cases e : dp = .present
            · simp only [e, if_true]; rw [h.set_eq]
            · simp only [e, if_false]
          | _ => simp only [copyFromFields, dataFields, ir, iv]
        | _ => simp only [copyFromFields, dataFields, ir, iv]
      | req => simp only [copyFromFields, dataFields, ir, iv]
theorem data_copyFromValues {o : LeafOps α} (h : LeafEq o) :
    ∀ s d : Values α, dataValues (copyFromValues o d s) = dataValues s := by
  intro s d
  cases s with
  | nil => cases d <;> simp [copyFromValues]
  | cons sv sr =>
    cases d with
    | nil =>
      simp only [copyFromValues, dataValues]
      rw [data_copyFromValues h sr .nil, data_copyFrom h sv _]
    | cons dv dr =>
      simp only [copyFromValues, dataValues]
      rw [data_copyFromValues h sr dr, data_copyFrom h sv dv]
theorem data_copyFromPairs {o : LeafOps α} (h : LeafEq o) :
    ∀ s d : Pairs α, dataPairs (copyFromPairs o d s) = dataPairs s := by
  intro s d
  cases s with
  | nil => cases d <;> simp [copyFromPairs]
  | cons sk sv sr =>
    -- when copy<Multimap> keeps the destination's key/value, it already holds the source's data
    have guarded : ∀ (x y : Value α), data (copyFrom o x y) = data y →
        data (if keepElem o x y = true then x else copyFrom o x y) = data y := by
      intro x y ih
      by_cases e : keepElem o x y = true
      · simp only [e, if_true]; exact isEqual_data h e
      · simp only [e]; exact ih
    cases d with
    | nil =>
      simp only [copyFromPairs, dataPairs]
      rw [data_copyFromPairs h sr .nil, guarded _ sk (data_copyFrom h sk _),
        guarded _ sv (data_copyFrom h sv _)]
    | cons dk dv dr =>
      simp only [copyFromPairs, dataPairs]
      rw [data_copyFromPairs h sr dr, guarded dk sk (data_copyFrom h sk dk),
        guarded dv sv (data_copyFrom h sv dv)]
end

/-! ### same data -> IsEqual, needing the leaf law on one side only -/

mutual
theorem isEqual_of_data {P : α → Prop} {o : LeafOps α} (hr : ∀ a, P a → o.eq a a = true) :
    ∀ b a : Value α, b.All P → data a = data b → isEqual o a b = true := by
  intro b a hb e
  cases b with
  | leaf y => cases a <;> simp [data] at e; subst e; simp only [isEqual]; exact hr _ hb
  | null => cases a <;> simp [data] at e; simp [isEqual]
  | struct gs => cases a <;> simp [data] at e; simp only [isEqual]; exact isEqualFields_of_data hr gs _ hb e
  | none => cases a <;> simp [data] at e; simp [isEqual]
  | choice j w =>
    cases a <;> simp [data] at e
    simp only [isEqual, e.1, beq_self_eq_true, Bool.true_and]
    exact isEqual_of_data hr w _ hb e.2
  | arr gs => cases a <;> simp [data] at e; simp only [isEqual]; exact isEqualValues_of_data hr gs _ hb e
  | mmap qs => cases a <;> simp [data] at e; simp only [isEqual]; exact isEqualPairs_of_data hr qs _ hb e
theorem isEqualFields_of_data {P : α → Prop} {o : LeafOps α} (hr : ∀ a, P a → o.eq a a = true) :
    ∀ b a : Fields α, b.All P → dataFields a = dataFields b → isEqualFields o a b = true := by
  intro b a hb e
  cases b with
  | nil => cases a with
    | nil => simp [isEqualFields]
    | cons p v r => cases p <;> simp [dataFields] at e
  | cons q w s => cases a with
    | nil => cases q <;> simp [dataFields] at e
    | cons p v r =>
      cases q with
      | absent =>
        cases p <;> simp [dataFields] at e
        simp [isEqualFields, isEqualFields_of_data hr s r hb.2 e]
      | present =>
        cases p <;> simp [dataFields] at e
        simp [isEqualFields, isEqualFields_of_data hr s r hb.2 e.2, isEqual_of_data hr w v hb.1 e.1]
      | req =>
        cases p <;> simp [dataFields] at e
        simp [isEqualFields, isEqualFields_of_data hr s r hb.2 e.2, isEqual_of_data hr w v hb.1 e.1]
theorem isEqualValues_of_data {P : α → Prop} {o : LeafOps α} (hr : ∀ a, P a → o.eq a a = true) :
    ∀ b a : Values α, b.All P → dataValues a = dataValues b → isEqualValues o a b = true := by
  intro b a hb e
  cases b with
  | nil => cases a <;> simp [dataValues] at e; simp [isEqualValues]
  | cons w s =>
    cases a <;> simp [dataValues] at e
    simp [isEqualValues, isEqual_of_data hr w _ hb.1 e.1, isEqualValues_of_data hr s _ hb.2 e.2]
theorem isEqualPairs_of_data {P : α → Prop} {o : LeafOps α} (hr : ∀ a, P a → o.eq a a = true) :
    ∀ b a : Pairs α, b.All P → dataPairs a = dataPairs b → isEqualPairs o a b = true := by
  intro b a hb e
  cases b with
  | nil => cases a <;> simp [dataPairs] at e; simp [isEqualPairs]
  | cons j w s =>
    cases a <;> simp [dataPairs] at e
    simp [isEqualPairs, isEqual_of_data hr j _ hb.1 e.1, isEqual_of_data hr w _ hb.2.1 e.2.1,
      isEqualPairs_of_data hr s _ hb.2.2 e.2.2]
end

/-! ### Clone (keeps the presence of every field since /repo 82431a4) -/

theorem data_cloneFields {o : LeafOps α} (h : LeafEq o) :
    ∀ fs : Fields α, dataFields (cloneFields o fs) = dataFields fs := by
  intro fs
  cases fs with
  | nil => simp [cloneFields]
  | cons p w r =>
    have ir := data_cloneFields h r
    cases w with
    | leaf a => cases p <;> simp [cloneFields, dataFields, ir]
    | _ => cases p <;> simp [cloneFields, dataFields, ir, data_copyNew h]

theorem data_clone {o : LeafOps α} (h : LeafEq o) :
    ∀ v : Value α, data (clone o v) = data v := by
  intro v
  cases v with
  | struct fs => simp only [clone, data]; rw [data_cloneFields h fs]
  | choice k w => cases w with
    | leaf a => simp [clone]
    | _ => simp only [clone]; exact data_copyNew h _
  | _ => simp only [clone]; exact data_copyNew h _

/-! ### identical STATE of a fresh copy: absent optional primitives must hold their zero value
  (copyToNew does not carry the stored value of an absent optional primitive along; that value is
  not data, and since /repo 82431a4 Cmp does not read it, so this is no longer needed for
  `Cmp(copy, source) = 0`) -/

mutual
/-- every absent optional primitive field stores the zero value (true after init/reset and any
    number of Set calls; false after Set followed by Unset) -/
def Value.Clean (o : LeafOps α) : Value α → Prop
  | .struct fs => fs.Clean o
  | .choice _ v => v.Clean o
  | .arr es => es.Clean o
  | .mmap ps => ps.Clean o
  | _ => True
def Fields.Clean (o : LeafOps α) : Fields α → Prop
  | .nil => True
  | .cons .absent (.leaf a) r => a = o.zero a ∧ r.Clean o
  | .cons _ v r => v.Clean o ∧ r.Clean o
def Values.Clean (o : LeafOps α) : Values α → Prop
  | .nil => True
  | .cons v r => v.Clean o ∧ r.Clean o
def Pairs.Clean (o : LeafOps α) : Pairs α → Prop
  | .nil => True
  | .cons k v r => k.Clean o ∧ v.Clean o ∧ r.Clean o
end

mutual
theorem copyNew_clean {o : LeafOps α} (h : LeafEq o) :
    ∀ v : Value α, v.Clean o → copyNew o v = v := by
  intro v hc
  cases v with
  | leaf a => simp [copyNew]
  | null => simp [copyNew]
  | struct fs => simp only [copyNew]; rw [copyNewFields_clean h fs hc]
  | none => simp [copyNew]
  | choice k w => cases w with
    | leaf a => simp only [copyNew]; rw [h.set_eq]
    | null => simp [copyNew]
    | struct fs => simp only [copyNew]; rw [copyNewFields_clean h fs hc]
    | none => simp [copyNew]
    | choice j u =>
      have := copyNew_clean h (.choice j u) hc
      simp only [copyNew] at this ⊢
      rw [this]
    | arr es => simp only [copyNew]; rw [copyNewValues_clean h es hc]
    | mmap ps => simp only [copyNew]; rw [copyNewPairs_clean h ps hc]
  | arr es => simp only [copyNew]; rw [copyNewValues_clean h es hc]
  | mmap ps => simp only [copyNew]; rw [copyNewPairs_clean h ps hc]
theorem copyNewFields_clean {o : LeafOps α} (h : LeafEq o) :
    ∀ v : Fields α, v.Clean o → copyNewFields o v = v := by
  intro v hc
  cases v with
  | nil => simp [copyNewFields]
  | cons p w r =>
    cases w with
    | leaf a =>
      cases p
      · simp only [Fields.Clean] at hc
        simp only [copyNewFields]; rw [copyNewFields_clean h r hc.2, ← hc.1]
      · simp only [Fields.Clean] at hc
        simp only [copyNewFields]; rw [copyNewFields_clean h r hc.2]
      · simp only [Fields.Clean] at hc
        simp only [copyNewFields]
        rw [copyNewFields_clean h r hc.2, h.set_eq]
    | _ =>
      cases p <;> simp only [Fields.Clean] at hc <;> simp only [copyNewFields] <;>
        rw [copyNewFields_clean h r hc.2, copyNew_clean h _ hc.1]
theorem copyNewValues_clean {o : LeafOps α} (h : LeafEq o) :
    ∀ v : Values α, v.Clean o → copyNewValues o v = v := by
  intro v hc
  cases v with
  | nil => simp [copyNewValues]
  | cons w r =>
    simp only [copyNewValues]
    rw [copyNew_clean h w hc.1, copyNewValues_clean h r hc.2]
theorem copyNewPairs_clean {o : LeafOps α} (h : LeafEq o) :
    ∀ v : Pairs α, v.Clean o → copyNewPairs o v = v := by
  intro v hc
  cases v with
  | nil => simp [copyNewPairs]
  | cons k w r =>
    simp only [copyNewPairs]
    rw [copyNew_clean h k hc.1, copyNew_clean h w hc.2.1, copyNewPairs_clean h r hc.2.2]
end

theorem cloneFields_clean {o : LeafOps α} (h : LeafEq o) :
    ∀ fs : Fields α, fs.Clean o → cloneFields o fs = fs := by
  intro fs hc
  cases fs with
  | nil => simp [cloneFields]
  | cons p w r =>
    cases w with
    | leaf a =>
      cases p <;> simp only [Fields.Clean] at hc <;> simp only [cloneFields] <;>
        rw [cloneFields_clean h r hc.2]
    | _ =>
      cases p <;> simp only [Fields.Clean] at hc <;> simp only [cloneFields] <;>
        rw [cloneFields_clean h r hc.2, copyNew_clean h _ hc.1]

theorem clone_clean {o : LeafOps α} (h : LeafEq o) :
    ∀ v : Value α, v.Clean o → clone o v = v := by
  intro v hc
  cases v with
  | struct fs => simp only [clone]; rw [cloneFields_clean h fs hc]
  | choice k w => cases w with
    | leaf a => simp [clone]
    | _ => simp only [clone]; exact copyNew_clean h _ hc
  | _ => simp only [clone]; exact copyNew_clean h _ hc

/-! ### leaf facts for the primitives -/

theorem primEqual_iff (a b : PrimVal) : primEqual a b = true ↔ a = b := by
  cases a <;> cases b <;>
    simp [primEqual, Gen.uint64Equal, Gen.int64Equal, Gen.boolEqual, Gen.float64Equal, strEqual]

/-- pkg.*Equal is exact on all primitives (Float64Equal: bit patterns) -/
theorem primEq : LeafEq primOps := ⟨primEqual_iff⟩

end Stef.Cmp
