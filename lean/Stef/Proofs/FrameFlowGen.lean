/-
  Stef.Proofs.FrameFlowGen: the frame decoder REGENERATED from the Go source
  (Stef/Gen/FrameFlow.lean, by extract/frameflow.go) computes, on every state, exactly what the
  hand model `Stef.ReaderIO.Fd` says (limitedReader.ReadByte/Read, FrameDecoder.Read/ReadByte,
  nextFrame, the skip loop, Next) - for CompressionNone, which is as far as the hand model goes.
  These equations are the tie of the hand model to the source text: a change of one of the six
  functions either still proves equal here, or breaks this file (or makes the generator fail).
  The compressed branch of `nextFrame`, which the hand model does not have, is characterised
  directly (`nextFrame_zstd`).
-/
import Stef.Gen.FrameFlow

namespace Stef.Proofs.FrameFlowGen
open Stef.ReaderIO Stef.FrameFlowSem
open Stef.Gen.FrameFlow (lrReadByte lrRead nextLoop1 initWiring)

local notation "G.read" => Stef.Gen.FrameFlow.read
local notation "G.readByte" => Stef.Gen.FrameFlow.readByte
local notation "G.nextFrame" => Stef.Gen.FrameFlow.nextFrame
local notation "G.next" => Stef.Gen.FrameFlow.next

theorem withFd_fd (d : St) (fd : Fd) : (d.withFd fd).fd = fd := rfl
theorem withFd_compression (d : St) (fd : Fd) : (d.withFd fd).compression = d.compression := rfl
theorem withFd_withFd (d : St) (a b : Fd) : (d.withFd a).withFd b = d.withFd b := rfl
theorem withFd_self (d : St) : d.withFd d.fd = d := rfl

/-- **limitedReader.ReadByte** = `Fd.lrReadByte` -/
theorem lrReadByte_eq (d : St) :
    lrReadByte d = (d.withFd d.fd.lrReadByte.1, unpackByte d.fd.lrReadByte.2) := by
  unfold lrReadByte Fd.lrReadByte srcReadByte
  by_cases h : d.fd.limit = 0
  · simp [h, unpackByte, St.withFd]
  · have h' : ¬ d.fd.limit ≤ 0 := by omega
    simp only [h, h', ↓reduceIte]
    rcases d.fd.b.readByte with ⟨b, r⟩
    rfl

/-- **limitedReader.Read** = `Fd.lrRead` -/
theorem lrRead_eq (d : St) (n : Nat) :
    lrRead d n = (d.withFd (d.fd.lrRead n).1, (d.fd.lrRead n).2) := by
  unfold lrRead Fd.lrRead srcRead
  by_cases h : d.fd.limit = 0
  · simp [h, St.withFd]
  · have h' : ¬ d.fd.limit ≤ 0 := by omega
    simp only [h, h', ↓reduceIte]
    by_cases h2 : n > d.fd.limit
    · simp only [h2, ↓reduceIte]
      rcases d.fd.b.read d.fd.limit with ⟨b, got, e⟩
      rfl
    · simp only [h2, ↓reduceIte]
      rcases d.fd.b.read n with ⟨b, got, e⟩
      rfl

/-- **FrameDecoder.Read** = `Fd.read` (uncompressed stream) -/
theorem read_eq (d : St) (n : Nat) (hc : d.compression = Stef.Gen.compressionNone) :
    G.read d n = (d.withFd (d.fd.read n).1, (d.fd.read n).2) := by
  simp only [Stef.Gen.FrameFlow.read, Fd.read, contentRead, hc, lrRead_eq, St.withFd, ↓reduceIte]
  split
  · rfl
  · split <;> rfl

/-- **FrameDecoder.ReadByte** = `Fd.readByte` (uncompressed stream) -/
theorem readByte_eq (d : St) (hc : d.compression = Stef.Gen.compressionNone) :
    G.readByte d = (d.withFd d.fd.readByte.1, unpackByte d.fd.readByte.2) := by
  simp only [Stef.Gen.FrameFlow.readByte, Fd.readByte, contentReadByte, hc, lrReadByte_eq, St.withFd, ↓reduceIte]
  split <;> rfl

/-- **FrameDecoder.nextFrame** = `Fd.nextFrameHdr` (uncompressed stream): the flags byte, the flag
    mask check, the size varint, the frame size limit, `limit = uncompressedSize`, `frameLoaded`,
    `ofs`; nothing else of the state changes (no decompressor call in particular). -/
theorem nextFrame_eq (d : St) (hc : d.compression = Stef.Gen.compressionNone) :
    G.nextFrame d = (d.withFd d.fd.nextFrameHdr.1, d.fd.nextFrameHdr.2) := by
  simp only [Stef.Gen.FrameFlow.nextFrame, Fd.nextFrameHdr, srcReadByte, srcReadUvarint, hc, St.withFd]
  rcases d.fd.b.readByte with ⟨b, r⟩
  cases r with
  | error e => simp [unpackByte]
  | ok hb =>
    simp only [unpackByte, ne_eq, not_true_eq_false, ↓reduceIte]
    split
    · rfl
    · rcases b.readUvarint with ⟨b2, sz, e⟩
      cases e with
      | some e => simp
      | none =>
        simp only [not_true_eq_false, ↓reduceIte]
        split <;> rfl

/-- **the skip loop of Next** = `Fd.skipLoop`, for every fuel -/
theorem nextLoop1_eq : ∀ (fuel : Nat) (d : St), d.compression = Stef.Gen.compressionNone →
    nextLoop1 fuel d =
      (d.withFd (Fd.skipLoop fuel d.fd).1, (Fd.skipLoop fuel d.fd).2.map (fun e => (0, some e))) := by
  intro fuel
  induction fuel with
  | zero => intro d _; rfl
  | succ fuel ih =>
    intro d hc
    by_cases h : d.fd.remaining > 0
    · by_cases h2 : d.fd.remaining > 4096
      · have h2' : 4096 < d.fd.remaining := h2
        simp only [nextLoop1, Fd.skipLoop, contentRead, hc, lrRead_eq, Fd.skipChunk, h, h2, ↓reduceIte]
        rcases d.fd.lrRead 4096 with ⟨f, got, e⟩
        cases e with
        | some e => simp [St.withFd]
        | none =>
          simp only [ne_eq, not_true_eq_false, ↓reduceIte]
          exact ih _ (by exact hc)
      · have h2' : ¬ 4096 < d.fd.remaining := h2
        simp only [nextLoop1, Fd.skipLoop, contentRead, hc, lrRead_eq, Fd.skipChunk, h, h2, ↓reduceIte]
        rcases d.fd.lrRead d.fd.remaining with ⟨f, got, e⟩
        cases e with
        | some e => simp [St.withFd]
        | none =>
          simp only [ne_eq, not_true_eq_false, ↓reduceIte]
          exact ih _ (by exact hc)
    · simp only [nextLoop1, Fd.skipLoop, h, ↓reduceIte]
      rfl

/-- **FrameDecoder.Next** = `Fd.next` (uncompressed stream); the returned flags are `d.flags` of
    the new frame, 0 next to an error. -/
theorem next_eq (d : St) (hc : d.compression = Stef.Gen.compressionNone) :
    G.next d = (d.withFd d.fd.next.1, (if d.fd.next.2 = none then d.fd.next.1.flags else 0), d.fd.next.2) := by
  rcases hs : Fd.skipLoop (d.fd.remaining + d.fd.b.src.sched.length + 1) d.fd with ⟨f, e⟩
  simp only [Stef.Gen.FrameFlow.next, Fd.next, loopFuel, nextLoop1_eq _ d hc, hs]
  cases e with
  | some e => simp
  | none =>
    have hc' : (d.withFd f).compression = Stef.Gen.compressionNone := hc
    rcases hn : f.nextFrameHdr with ⟨f2, e2⟩
    simp only [Option.map_none, nextFrame_eq _ hc', withFd_fd, hn]
    cases e2 <;> simp [St.withFd]

/-- the vocabulary's reading of `d.src` / `d.frameContentSrc` is what `Init` sets up. -/
theorem init_wiring : initWiring = true := rfl

/-! ### the compressed branch of `nextFrame` (not in the hand model) -/

/-- **nextFrame on a compressed stream**: when it succeeds, both announced sizes are within
    `FrameSizeLimit`, the limited reader is limited to the COMPRESSED size, and the zstd decoder was
    reset - onto the limited reader, after the limit was set (the recorded limit is the new one) -
    exactly when this is the first frame or the frame carries `RestartCompression`; the buffered
    reader over the decoder was re-attached once. -/
theorem nextFrame_zstd (d : St) (hc : d.compression ≠ Stef.Gen.compressionNone)
    (hok : (G.nextFrame d).2 = none) :
    (G.nextFrame d).1.fd.remaining ≤ Stef.Gen.frameSizeLimit ∧
    (G.nextFrame d).1.fd.limit ≤ Stef.Gen.frameSizeLimit ∧
    (G.nextFrame d).1.fd.flags ||| Stef.Gen.frameFlagsMask = Stef.Gen.frameFlagsMask ∧
    (G.nextFrame d).1.notFirstFrame = true ∧
    (G.nextFrame d).1.zAttached = d.zAttached + 1 ∧
    (G.nextFrame d).1.zResets =
      (if d.notFirstFrame = false ∨ (G.nextFrame d).1.fd.flags &&& Stef.Gen.restartCompression ≠ 0
       then (G.nextFrame d).1.fd.limit :: d.zResets else d.zResets) := by
  revert hok
  rcases hrb : d.fd.b.readByte with ⟨b, r⟩
  rcases hu1 : b.readUvarint with ⟨b2, sz, e1⟩
  rcases hu2 : b2.readUvarint with ⟨b3, csz, e2⟩
  simp only [Stef.Gen.FrameFlow.nextFrame, srcReadByte, srcReadUvarint, zReset, zAttach, hrb, hu1, hu2]
  cases r with
  | error e => simp [unpackByte]
  | ok hb =>
    simp only [unpackByte, ne_eq, not_true_eq_false, ↓reduceIte]
    split
    · simp
    · rename_i hfl
      simp only [Decidable.not_not] at hfl
      cases e1 with
      | some e => simp
      | none =>
        simp only [not_true_eq_false, ↓reduceIte]
        split
        · simp
        · rename_i h3
          cases e2 with
          | some e => simp
          | none =>
            simp only [not_true_eq_false, ↓reduceIte]
            split
            · simp
            · rename_i h4
              cases hn : d.notFirstFrame <;>
                by_cases h5 : hb.toNat &&& Stef.Gen.restartCompression = 0 <;>
                simp [h5, hfl] <;> omega

end Stef.Proofs.FrameFlowGen
