/-
  The generic round trip: `Spec.decodeNode` inverts `SpecEnc.encodeNode` for every node kind, by
  induction on the fuel that both spend in the same way.
-/
import Stef.Proofs.SpecEncPrim

namespace Stef.SpecEnc
open Stef Stef.Spec

def PNode (σ : Schema) (fuel : Nat) : Prop :=
  ∀ env n cur new mk ds evs ds' eff tail,
    encodeNode σ fuel env n cur new mk ds = some (evs, ds', eff) →
    decodeNode σ fuel env n cur (feed (evs ++ tail) ds) = .ok (eff, feed tail ds')

def PFields (σ : Schema) (fuel : Nat) : Prop :=
  ∀ env fields idx optIdx mask pres prevPres cur new subs ds evs ds' effs tail,
    encodeFields σ fuel env fields idx optIdx mask pres prevPres cur new subs ds = some (evs, ds', effs) →
    decodeFields σ fuel env fields idx optIdx mask pres prevPres cur (feed (evs ++ tail) ds) = .ok (effs, feed tail ds')

def PElems (σ : Schema) (fuel : Nat) : Prop :=
  ∀ env elem ety xs old subs ds evs ds' effs tail,
    encodeElems σ fuel env elem ety xs old subs ds = some (evs, ds', effs) →
    decodeElems σ fuel env elem ety xs.length old (feed (evs ++ tail) ds) = .ok (effs, feed tail ds')

def PPairs (σ : Schema) (fuel : Nat) : Prop :=
  ∀ env k v kty vty ps old subs ds evs ds' effs tail,
    encodePairsFull σ fuel env k v kty vty ps old subs ds = some (evs, ds', effs) →
    decodePairsFull σ fuel env k v kty vty ps.length old (feed (evs ++ tail) ds) = .ok (effs, feed tail ds')

def PVals (σ : Schema) (fuel : Nat) : Prop :=
  ∀ env v changed idx old new subs ds evs ds' effs tail,
    encodeValuesOnly σ fuel env v changed idx old new subs ds = some (evs, ds', effs) →
    decodeValuesOnly σ fuel env v changed idx old (feed (evs ++ tail) ds) = .ok (effs, feed tail ds')

/-! ### unfolding lemmas for the list decoders (the `isPrim` match of `decodeFields` is named) -/

theorem decodeFields_cons (σ : Schema) (fuel : Nat) (env : List (String × Node)) (opt : Bool) (n : Node)
    (rest : List (Bool × Node)) (idx optIdx mask pres prevPres : Nat) (cur : List St) (ds : DS) :
    decodeFields σ (fuel+1) env ((opt,n)::rest) idx optIdx mask pres prevPres cur ds =
    (do
      let prev0 := cur.headD (.oneof 0 none)
      let prev := if opt && !isPrimNode n && !(prevPres.testBit optIdx) then altInit σ n else prev0
      let (v, ds) ← if mask.testBit idx && (!opt || pres.testBit optIdx) then decodeNode σ fuel env n prev ds else pure (prev0, ds)
      let (vs, ds) ← decodeFields σ fuel env rest (idx + 1) (if opt then optIdx + 1 else optIdx) mask pres prevPres cur.tail ds
      .ok (v :: vs, ds)) := by
  cases n <;> (simp only [decodeFields, isPrimNode]; try rfl)

theorem decodeElems_succ (σ : Schema) (fuel : Nat) (env : List (String × Node)) (elem : Node) (ety : Ty)
    (n : Nat) (old : List St) (ds : DS) :
    decodeElems σ (fuel + 1) env elem ety (n + 1) old ds =
    (do
      let (v, ds) ← decodeNode σ fuel env elem (elemPrev σ ety old) ds
      let (vs, ds) ← decodeElems σ fuel env elem ety n old.tail ds
      .ok (v :: vs, ds)) := by
  cases old <;> (simp only [decodeElems, elemPrev]; try rfl)

theorem decodePairsFull_succ (σ : Schema) (fuel : Nat) (env : List (String × Node)) (k v : Node) (kty vty : Ty)
    (n : Nat) (old : List (St × St)) (ds : DS) :
    decodePairsFull σ (fuel + 1) env k v kty vty (n + 1) old ds =
    (do
      let pp := pairPrev σ kty vty old
      let (kv, ds) ← decodeNode σ fuel env k pp.1 ds
      let (vv, ds) ← decodeNode σ fuel env v pp.2 ds
      let (rest, ds) ← decodePairsFull σ fuel env k v kty vty n old.tail ds
      .ok ((kv, vv) :: rest, ds)) := by
  cases old with
  | nil => simp only [decodePairsFull, pairPrev]; try rfl
  | cons o os => obtain ⟨a, b⟩ := o; simp only [decodePairsFull, pairPrev]; try rfl

theorem fields_step (σ : Schema) (fuel : Nat) (hn : PNode σ fuel) (hf : PFields σ fuel) :
    PFields σ (fuel + 1) := by
  intro env fields idx optIdx mask pres prevPres cur new subs ds evs ds' effs tail h
  cases fields with
  | nil =>
    simp only [encodeFields, Option.some.injEq, Prod.mk.injEq] at h
    obtain ⟨rfl, rfl, rfl⟩ := h
    simp [decodeFields]
  | cons fd rest =>
    obtain ⟨opt, n⟩ := fd
    simp only [encodeFields] at h
    split at h
    · simp at h
    · rename_i e1 ds1 v hfirst
      split at h
      · simp at h
      · rename_i e2 ds2 vs hrest
        simp only [Option.some.injEq, Prod.mk.injEq] at h
        obtain ⟨rfl, rfl, rfl⟩ := h
        have hr := hf _ _ _ _ _ _ _ _ _ _ _ _ _ _ tail hrest
        rw [decodeFields_cons]
        simp only [dflt] at hfirst
        by_cases hc : (mask.testBit idx && (!opt || pres.testBit optIdx)) = true
        · simp only [hc, ↓reduceIte] at hfirst ⊢
          have h1 := hn _ _ _ _ _ _ _ _ _ (e2 ++ tail) hfirst
          rw [List.append_assoc, h1]
          simp only [bind, Except.bind]
          rw [hr]
        · simp only [hc, Bool.false_eq_true, ↓reduceIte, Option.some.injEq, Prod.mk.injEq] at hfirst ⊢
          obtain ⟨rfl, rfl, rfl⟩ := hfirst
          simp only [List.nil_append, bind, Except.bind, pure, Except.pure]
          rw [hr]

theorem elems_step (σ : Schema) (fuel : Nat) (hn : PNode σ fuel) (he : PElems σ fuel) :
    PElems σ (fuel + 1) := by
  intro env elem ety xs old subs ds evs ds' effs tail h
  cases xs with
  | nil =>
    simp only [encodeElems, Option.some.injEq, Prod.mk.injEq] at h
    obtain ⟨rfl, rfl, rfl⟩ := h
    simp [decodeElems]
  | cons x xs =>
    simp only [encodeElems] at h
    split at h
    · simp at h
    · rename_i e1 ds1 v hfirst
      split at h
      · simp at h
      · rename_i e2 ds2 vs hrest
        simp only [Option.some.injEq, Prod.mk.injEq] at h
        obtain ⟨rfl, rfl, rfl⟩ := h
        have hr := he _ _ _ _ _ _ _ _ _ _ tail hrest
        have h1 := hn _ _ _ _ _ _ _ _ _ (e2 ++ tail) hfirst
        simp only [List.length_cons, decodeElems_succ, List.append_assoc] at h1 hr ⊢
        rw [h1]
        simp only [bind, Except.bind]
        rw [hr]

theorem pairs_step (σ : Schema) (fuel : Nat) (hn : PNode σ fuel) (hp : PPairs σ fuel) :
    PPairs σ (fuel + 1) := by
  intro env k v kty vty ps old subs ds evs ds' effs tail h
  cases ps with
  | nil =>
    simp only [encodePairsFull, Option.some.injEq, Prod.mk.injEq] at h
    obtain ⟨rfl, rfl, rfl⟩ := h
    simp [decodePairsFull]
  | cons p ps =>
    simp only [encodePairsFull] at h
    split at h
    · simp at h
    · rename_i e1 ds1 kv hk
      split at h
      · simp at h
      · rename_i e2 ds2 vv hv
        split at h
        · simp at h
        · rename_i e3 ds3 rest hrest
          simp only [Option.some.injEq, Prod.mk.injEq] at h
          obtain ⟨rfl, rfl, rfl⟩ := h
          have hr := hp _ _ _ _ _ _ _ _ _ _ _ _ tail hrest
          have h2 := hn _ _ _ _ _ _ _ _ _ (e3 ++ tail) hv
          have h1 := hn _ _ _ _ _ _ _ _ _ (e2 ++ (e3 ++ tail)) hk
          simp only [List.length_cons, decodePairsFull_succ, List.append_assoc] at h1 h2 hr ⊢
          rw [h1]
          simp only [bind, Except.bind]
          rw [h2]
          simp only
          rw [hr]

theorem vals_step (σ : Schema) (fuel : Nat) (hn : PNode σ fuel) (hv : PVals σ fuel) :
    PVals σ (fuel + 1) := by
  intro env v changed idx old new subs ds evs ds' effs tail h
  cases old with
  | nil =>
    simp only [encodeValuesOnly, Option.some.injEq, Prod.mk.injEq] at h
    obtain ⟨rfl, rfl, rfl⟩ := h
    simp [decodeValuesOnly]
  | cons o os =>
    obtain ⟨pk, pv⟩ := o
    simp only [encodeValuesOnly] at h
    split at h
    · simp at h
    · rename_i e1 ds1 vv hfirst
      split at h
      · simp at h
      · rename_i e2 ds2 rs hrest
        simp only [Option.some.injEq, Prod.mk.injEq] at h
        obtain ⟨rfl, rfl, rfl⟩ := h
        have hr := hv _ _ _ _ _ _ _ _ _ _ _ tail hrest
        simp only [decodeValuesOnly]
        by_cases hc : (decide (idx < 64) && changed.testBit idx) = true
        · simp only [hc, ↓reduceIte] at hfirst ⊢
          have h1 := hn _ _ _ _ _ _ _ _ _ (e2 ++ tail) hfirst
          rw [List.append_assoc, h1]
          simp only [bind, Except.bind]
          rw [hr]
        · simp only [hc, Bool.false_eq_true, ↓reduceIte, Option.some.injEq, Prod.mk.injEq] at hfirst ⊢
          obtain ⟨rfl, rfl, rfl⟩ := hfirst
          simp only [List.nil_append, bind, Except.bind, pure, Except.pure]
          rw [hr]

/-! ### unfolding lemmas for `decodeNode` per node kind -/

theorem decodeNode_arr (σ : Schema) (fuel : Nat) (env : List (String × Node)) (col : Nat) (key : String) (ety : Ty)
    (elem : Node) (cur : St) (ds : DS) :
    decodeNode σ (fuel + 1) env (.arr col key ety elem) cur ds =
    (do
      let env := (key, Node.arr col key ety elem) :: env
      let c := ds.col col
      let (len, rest) ← needBits (readUvc c.bits)
      let ds := ds.setCol col { c with bits := rest }
      let (es, ds) ← decodeElems σ fuel env elem ety len.toNat (arrElems cur) ds
      .ok (.arr es, ds)) := by
  cases cur <;> (simp only [decodeNode, arrElems]; try rfl)

theorem decodeNode_oneof (σ : Schema) (fuel : Nat) (env : List (String × Node)) (col : Nat) (name : String) (kept : Nat)
    (alts : List Node) (cur : St) (ds : DS) :
    decodeNode σ (fuel + 1) env (.oneof col name kept alts) cur ds =
    (do
      let env := (name, Node.oneof col name kept alts) :: env
      let c := ds.col col
      let (t, rest) ← needBits (readBits (bitLen (kept + 1)) c.bits)
      let ds := ds.setCol col { c with bits := rest }
      let typ := t.toNat
      if typ > kept then .error "invalid-oneof-type"
      else if typ = 0 then .ok (.oneof 0 none, ds)
      else
        match alts[typ - 1]? with
        | none => .error "invalid-oneof-type"
        | some an =>
          let (v, ds) ← decodeNode σ fuel env an (oneofPrev σ an typ cur) ds
          .ok (.oneof typ (some v), ds)) := by
  cases cur with
  | oneof ct val => cases val <;> (simp only [decodeNode, oneofPrev]; try rfl)
  | _ => (simp only [decodeNode, oneofPrev]; try rfl)

theorem decodeNode_mmap (σ : Schema) (fuel : Nat) (env : List (String × Node)) (col : Nat) (name : String) (kty vty : Ty)
    (k v : Node) (cur : St) (ds : DS) :
    decodeNode σ (fuel + 1) env (.mmap col name kty vty k v) cur ds =
    (do
      let env := (name, Node.mmap col name kty vty k v) :: env
      let c := ds.col col
      let (x, rest) ← needBytes (Varint.decode c.bytes)
      let ds := ds.setCol col { c with bytes := rest }
      let old := mmapPairs cur
      if x = 0#64 then .ok (.mmap old, ds)
      else if x.getLsbD 0 then
        let count := (x >>> 1).toNat
        if count ≥ 1024 then .error "multimap-count-limit"
        else do
          let (ps, ds) ← decodePairsFull σ fuel env k v kty vty count old ds
          .ok (.mmap ps, ds)
      else do
        let ds := if old.length > 62 then { ds with dictViolations := ds.dictViolations + 1 } else ds
        let (ps, ds) ← decodeValuesOnly σ fuel env v (x >>> 1).toNat 0 old ds
        .ok (.mmap ps, ds)) := by
  cases cur <;> (simp only [decodeNode, mmapPairs]; try rfl)

theorem decodeNode_struct (σ : Schema) (fuel : Nat) (env : List (String × Node)) (col : Nat) (name : String)
    (dict : Option String) (kept optCount : Nat) (fields : List (Bool × Node)) (cur : St) (ds : DS) :
    decodeNode σ (fuel + 1) env (.struct col name dict kept optCount fields) cur ds =
    (do
      let env := (name, Node.struct col name dict kept optCount fields) :: env
      let c := ds.col col
      let (isRef, c) ← match dict with
        | none => pure (false, c)
        | some _ =>
          match c.bits with
          | [] => throw "eof-bits"
          | b :: rest => pure (!b, { c with bits := rest })
      if isRef then
        let (r, rest) ← needBits (readUvc c.bits)
        let ds := ds.setCol col { c with bits := rest }
        match (lookupDict ds.tdict (dict.getD ""))[r.toNat]? with
        | some (some v) => .ok (v, ds)
        | _ => .error "invalid-refnum"
      else
        let (mask, rest) ← needBits (readBits kept c.bits)
        let (pres, rest) ← needBits (readBits optCount rest)
        let ds := ds.setCol col { c with bits := rest }
        let (newFields, ds) ← decodeFields σ fuel env fields 0 0 mask.toNat pres.toNat (structPres cur) (structFields cur) ds
        let v := St.struct pres.toNat newFields
        match dict with
        | none => .ok (v, ds)
        | some dn =>
          let curD := lookupDict ds.tdict dn
          let curD := if curD.isEmpty then [none] else curD
          .ok (v, { ds with tdict := setDict ds.tdict dn (curD ++ [some v]) })) := by
  cases cur <;> cases dict <;> (simp only [decodeNode, structPres, structFields]; try rfl)

/-! ### reading the header chunk of a composite node back -/

theorem restore_bits (D : DS) (col : Nat) (b : Bits) :
    (feed1 (col, .bits b) D).setCol col { D.col col with bits := (D.col col).bits } = D := by
  rw [setCol_feed1_self]; exact setCol_col_self D col

theorem restore_bytes (D : DS) (col : Nat) (b : Bytes) :
    (feed1 (col, .bytes b) D).setCol col { D.col col with bytes := (D.col col).bytes } = D := by
  rw [setCol_feed1_self]; exact setCol_col_self D col

theorem feed_hdr (col : Nat) (ch : Chunk) (evs tail : List Ev) (ds : DS) :
    feed ((col, ch) :: evs ++ tail) ds = feed1 (col, ch) (feed (evs ++ tail) ds) := rfl

theorem lt_two_pow_bitLen (n : Nat) : n < 2 ^ bitLen (n + 1) := by
  unfold bitLen
  simp only [Nat.add_one_ne_zero, ↓reduceIte]
  have := @Nat.lt_log2_self (n + 1)
  omega

theorem odd_word (n : Nat) (h : 2 * n + 1 < 2 ^ 64) :
    BitVec.ofNat 64 (2 * n + 1) ≠ 0#64 ∧ (BitVec.ofNat 64 (2 * n + 1)).getLsbD 0 = true ∧
    (BitVec.ofNat 64 (2 * n + 1) >>> 1).toNat = n := by
  have ht : (BitVec.ofNat 64 (2 * n + 1)).toNat = 2 * n + 1 := ofNat_toNat_of_lt _ h
  refine ⟨?_, ?_, ?_⟩
  · intro h0
    have := congrArg BitVec.toNat h0
    rw [ht] at this
    simp at this
  · rw [BitVec.getLsbD, ht, Nat.testBit_zero]
    simp
  · rw [BitVec.toNat_ushiftRight, ht, Nat.shiftRight_eq_div_pow]
    omega

theorem even_word (n : Nat) (h0 : 0 < n) (h : 2 * n < 2 ^ 64) :
    BitVec.ofNat 64 (2 * n) ≠ 0#64 ∧ (BitVec.ofNat 64 (2 * n)).getLsbD 0 = false ∧
    (BitVec.ofNat 64 (2 * n) >>> 1).toNat = n := by
  have ht : (BitVec.ofNat 64 (2 * n)).toNat = 2 * n := ofNat_toNat_of_lt _ h
  refine ⟨?_, ?_, ?_⟩
  · intro h0'
    have := congrArg BitVec.toNat h0'
    rw [ht] at this
    simp at this
    omega
  · rw [BitVec.getLsbD, ht, Nat.testBit_zero]
    simp
  · rw [BitVec.toNat_ushiftRight, ht, Nat.shiftRight_eq_div_pow]
    omega

theorem node_step (σ : Schema) (fuel : Nat) (hn : PNode σ fuel) (hf : PFields σ fuel) (he : PElems σ fuel)
    (hp : PPairs σ fuel) (hv : PVals σ fuel) : PNode σ (fuel + 1) := by
  intro env n cur new mk ds evs ds' eff tail h
  cases n with
  | prim col p d =>
    simp only [encodeNode] at h
    simp only [decodeNode]
    exact prim_roundtrip _ _ _ _ _ _ _ _ _ h
  | recur key =>
    simp only [encodeNode] at h
    simp only [decodeNode]
    split at h
    · simp at h
    · rename_i k n' hfind
      simp only [hfind]
      exact hn _ _ _ _ _ _ _ _ _ tail h
  | arr col key ety elem =>
    simp only [encodeNode] at h
    split at h
    · rename_i es subs
      split at h
      · rename_i hc
        obtain ⟨hb, hlen⟩ := hc
        split at h
        · simp at h
        · rename_i e2 ds2 effs hel
          simp only [Option.some.injEq, Prod.mk.injEq] at h
          obtain ⟨rfl, rfl, rfl⟩ := h
          have hr := he _ _ _ _ _ _ _ _ _ _ tail hel
          rw [feed_hdr]
          have hbD : col < (feed (e2 ++ tail) ds).cols.size := by rw [size_feed]; exact hb
          generalize feed (e2 ++ tail) ds = D at hr hbD
          simp only [decodeNode_arr, col_feed1_self _ _ _ hbD, pre, readUvc_uvcNat _ _ hlen, needBits, bind,
            Except.bind, restore_bits, ofNat_toNat_of_lt _ (show es.length < 2 ^ 64 by omega)]
          rw [hr]
      · simp at h
    · simp at h
  | oneof col name kept alts =>
    simp only [encodeNode] at h
    split at h
    · rename_i typ val sub
      split at h
      · rename_i hc
        obtain ⟨hb, hw, htyp⟩ := hc
        have hlt : typ < 2 ^ bitLen (kept + 1) := Nat.lt_of_le_of_lt htyp (lt_two_pow_bitLen kept)
        have h64 : typ < 2 ^ 64 := Nat.lt_of_lt_of_le hlt (Nat.pow_le_pow_right (by omega) hw)
        have htn : (BitVec.ofNat 64 typ).toNat = typ := ofNat_toNat_of_lt _ h64
        have hread : ∀ rest, readBits (bitLen (kept + 1)) (lowBits (BitVec.ofNat 64 typ) (bitLen (kept + 1)) ++ rest) =
            some (BitVec.ofNat 64 typ, rest) := fun rest => readBits_lowBits _ _ rest hw (by rw [htn]; exact hlt)
        split at h
        · rename_i h0
          simp only [Option.some.injEq, Prod.mk.injEq] at h
          obtain ⟨rfl, rfl, rfl⟩ := h
          subst h0
          have hbD : col < (feed tail ds).cols.size := by rw [size_feed]; exact hb
          rw [feed_single_append]
          generalize feed tail ds = D at hbD
          simp only [decodeNode_oneof, col_feed1_self _ _ _ hbD, pre, hread, needBits, bind, Except.bind,
            restore_bits, htn, Nat.not_lt_zero, gt_iff_lt, ↓reduceIte]
        · rename_i h0
          split at h
          · rename_i an v halt
            split at h
            · simp at h
            · rename_i e2 ds2 e hsub
              simp only [Option.some.injEq, Prod.mk.injEq] at h
              obtain ⟨rfl, rfl, rfl⟩ := h
              have hr := hn _ _ _ _ _ _ _ _ _ tail hsub
              rw [feed_hdr]
              have hbD : col < (feed (e2 ++ tail) ds).cols.size := by rw [size_feed]; exact hb
              generalize feed (e2 ++ tail) ds = D at hr hbD
              have hgt : ¬ typ > kept := by omega
              simp only [decodeNode_oneof, col_feed1_self _ _ _ hbD, pre, hread, needBits, bind, Except.bind,
                restore_bits, htn, hgt, h0, ↓reduceIte, halt]
              rw [hr]
          · simp at h
      · simp at h
    · simp at h
  | mmap col name kty vty k v =>
    simp only [encodeNode] at h
    split at h
    · rename_i hb
      have hfeed : ∀ (b : Bytes) (evs : List Ev), ∃ D, feed ((col, Chunk.bytes b) :: evs ++ tail) ds = feed1 (col, .bytes b) D ∧
          D = feed (evs ++ tail) ds ∧ col < D.cols.size :=
        fun b evs => ⟨feed (evs ++ tail) ds, rfl, rfl, by rw [size_feed]; exact hb⟩
      split at h
      · -- unchanged
        simp only [Option.some.injEq, Prod.mk.injEq] at h
        obtain ⟨rfl, rfl, rfl⟩ := h
        have hbD : col < (feed tail ds).cols.size := by rw [size_feed]; exact hb
        rw [feed_single_append]
        generalize feed tail ds = D at hbD
        simp only [decodeNode_mmap, col_feed1_self _ _ _ hbD, pre, Varint.decode_encode, needBytes, bind, Except.bind,
          restore_bytes, ↓reduceIte]
      · -- full form
        rename_i subs
        split at h
        · rename_i ps
          split at h
          · rename_i hlen
            split at h
            · simp at h
            · rename_i e2 ds2 effp hpairs
              simp only [Option.some.injEq, Prod.mk.injEq] at h
              obtain ⟨rfl, rfl, rfl⟩ := h
              have hr := hp _ _ _ _ _ _ _ _ _ _ _ _ tail hpairs
              obtain ⟨D, hD1, hD2, hbD⟩ := hfeed (Varint.encode (BitVec.ofNat 64 (2 * ps.length + 1))) e2
              rw [hD1]
              rw [← hD2] at hr
              obtain ⟨w1, w2, w3⟩ := odd_word ps.length (by omega)
              have hnl : ¬ ps.length ≥ 1024 := by omega
              simp only [decodeNode_mmap, col_feed1_self _ _ _ hbD, pre, Varint.decode_encode, needBytes, bind,
                Except.bind, restore_bytes, w1, w2, w3, hnl, ↓reduceIte]
              rw [hr]
          · simp at h
        · simp at h
      · -- values only
        rename_i changed subs
        split at h
        · rename_i ps
          split at h
          · rename_i hch
            split at h
            · simp at h
            · rename_i e2 ds2 effp hvals
              simp only [Option.some.injEq, Prod.mk.injEq] at h
              obtain ⟨rfl, rfl, rfl⟩ := h
              have hr := hv _ _ _ _ _ _ _ _ _ _ _ tail hvals
              obtain ⟨D, hD1, hD2, hbD⟩ := hfeed (Varint.encode (BitVec.ofNat 64 (2 * changed))) e2
              rw [hD1]
              rw [← hD2] at hr
              obtain ⟨w1, w2, w3⟩ := even_word changed hch.1 (by omega)
              have h62 : ¬ (mmapPairs cur).length > 62 := by omega
              simp only [decodeNode_mmap, col_feed1_self _ _ _ hbD, pre, Varint.decode_encode, needBytes, bind,
                Except.bind, restore_bytes, w1, w2, w3, h62, Bool.false_eq_true, ↓reduceIte]
              rw [hr]
          · simp at h
        · simp at h
      · simp at h
    · simp at h
  | struct col name dict kept optCount fields =>
    simp only [encodeNode] at h
    split at h
    · rename_i hc
      obtain ⟨hb, hk, ho⟩ := hc
      split at h
      · -- RefNum
        rename_i r
        split at h
        · simp at h
        · rename_i dn
          split at h
          · rename_i hr48
            split at h
            · rename_i v hlook
              simp only [Option.some.injEq, Prod.mk.injEq] at h
              obtain ⟨rfl, rfl, rfl⟩ := h
              have hbD : col < (feed tail ds).cols.size := by rw [size_feed]; exact hb
              have htd : (feed tail ds).tdict = ds.tdict := tdict_feed tail ds
              have htn : (BitVec.ofNat 64 r).toNat = r := ofNat_toNat_of_lt _ (by omega)
              rw [feed_single_append]
              generalize feed tail ds = D at hbD htd
              simp only [decodeNode_struct, col_feed1_self _ _ _ hbD, pre, List.cons_append, readUvc_uvcNat _ _ hr48,
                needBits, bind, Except.bind, pure, Except.pure, restore_bits, Option.getD, htn, htd, hlook,
                Bool.not_false, ↓reduceIte]
            · simp at h
          · simp at h
      · -- full encoding
        rename_i mask subs
        split at h
        · rename_i pres newFields
          split at h
          · rename_i hmp
            obtain ⟨hmask, hpres⟩ := hmp
            have hm64 : mask < 2 ^ 64 := Nat.lt_of_lt_of_le hmask (Nat.pow_le_pow_right (by omega) hk)
            have hp64 : pres < 2 ^ 64 := Nat.lt_of_lt_of_le hpres (Nat.pow_le_pow_right (by omega) ho)
            have hmn : (BitVec.ofNat 64 mask).toNat = mask := ofNat_toNat_of_lt _ hm64
            have hpn : (BitVec.ofNat 64 pres).toNat = pres := ofNat_toNat_of_lt _ hp64
            have hrm : ∀ rest, readBits kept (lowBits (BitVec.ofNat 64 mask) kept ++ rest) = some (BitVec.ofNat 64 mask, rest) :=
              fun rest => readBits_lowBits _ _ rest hk (by rw [hmn]; exact hmask)
            have hrp : ∀ rest, readBits optCount (lowBits (BitVec.ofNat 64 pres) optCount ++ rest) = some (BitVec.ofNat 64 pres, rest) :=
              fun rest => readBits_lowBits _ _ rest ho (by rw [hpn]; exact hpres)
            split at h
            · simp at h
            · rename_i e2 ds2 effFields hfields
              have hr := hf _ _ _ _ _ _ _ _ _ _ _ _ _ _ tail hfields
              have hbD : col < (feed (e2 ++ tail) ds).cols.size := by rw [size_feed]; exact hb
              cases dict with
              | none =>
                simp only [Option.some.injEq, Prod.mk.injEq] at h
                obtain ⟨rfl, rfl, rfl⟩ := h
                rw [feed_hdr]
                generalize feed (e2 ++ tail) ds = D at hr hbD
                simp only [decodeNode_struct, col_feed1_self _ _ _ hbD, pre, List.nil_append, List.append_assoc, hrm, hrp,
                  needBits, bind, Except.bind, pure, Except.pure, restore_bits, hmn, hpn, Bool.false_eq_true, ↓reduceIte]
                rw [hr]
              | some dn =>
                simp only [Option.some.injEq, Prod.mk.injEq] at h
                obtain ⟨rfl, rfl, rfl⟩ := h
                rw [feed_hdr]
                generalize feed (e2 ++ tail) ds = D at hr hbD
                simp only [decodeNode_struct, col_feed1_self _ _ _ hbD, pre, List.cons_append, List.nil_append,
                  List.append_assoc, hrm, hrp, needBits, bind, Except.bind, pure, Except.pure, restore_bits, hmn, hpn,
                  Bool.not_true, Bool.false_eq_true, ↓reduceIte]
                rw [hr]
                simp only [tdict_feed]
                have hA := aux_feed tail ds2
                have := feed_withAux tail ds2 ⟨ds2.sdict, setDict ds2.tdict dn
                  ((if (lookupDict ds2.tdict dn).isEmpty = true then [none] else lookupDict ds2.tdict dn) ++
                    [some (St.struct pres effFields)]), ds2.dictViolations, ds2.dictPayload, ds2.maxDictPayload⟩
                simp only [DS.withAux] at this
                refine congrArg (fun x => Except.ok (St.struct pres effFields, x)) ?_
                refine Eq.trans ?_ this.symm
                have h1 : (feed tail ds2).sdict = ds2.sdict := congrArg Aux.sdict hA
                have h3 : (feed tail ds2).dictViolations = ds2.dictViolations := congrArg Aux.dictViolations hA
                have h4 : (feed tail ds2).dictPayload = ds2.dictPayload := congrArg Aux.dictPayload hA
                have h5 : (feed tail ds2).maxDictPayload = ds2.maxDictPayload := congrArg Aux.maxDictPayload hA
                rw [← h1, ← h3, ← h4, ← h5]
          · simp at h
        · simp at h
      · simp at h
    · simp at h

/-- all five statements, by induction on the fuel -/
theorem roundtrip_all (σ : Schema) (fuel : Nat) :
    PNode σ fuel ∧ PFields σ fuel ∧ PElems σ fuel ∧ PPairs σ fuel ∧ PVals σ fuel := by
  induction fuel with
  | zero =>
    refine ⟨?_, ?_, ?_, ?_, ?_⟩
    · intro env n cur new mk ds evs ds' eff tail h; simp [encodeNode] at h
    · intro env fields idx optIdx mask pres prevPres cur new subs ds evs ds' effs tail h; simp [encodeFields] at h
    · intro env elem ety xs old subs ds evs ds' effs tail h; simp [encodeElems] at h
    · intro env k v kty vty ps old subs ds evs ds' effs tail h; simp [encodePairsFull] at h
    · intro env v changed idx old new subs ds evs ds' effs tail h; simp [encodeValuesOnly] at h
  | succ fuel ih =>
    obtain ⟨hn, hf, he, hp, hv⟩ := ih
    exact ⟨node_step σ fuel hn hf he hp hv, fields_step σ fuel hn hf, elems_step σ fuel hn he,
      pairs_step σ fuel hn hp, vals_step σ fuel hn hv⟩

/-! ### records of a frame -/

theorem records_roundtrip (σ : Schema) (root : Node) (rmb : Nat) (fuel : Nat) :
    ∀ (recs : List (St × Mk)) (cur : St) (ds : DS) (evs : List Ev) (ds' : DS) (effs : List St) (tail : List Ev)
      (acc : List (Nat × St)),
      encodeRecords σ root fuel recs cur ds = some (evs, ds', effs) →
      ∃ out, decodeRecords σ root rmb fuel recs.length cur (feed (evs ++ tail) ds) acc =
          .ok (effs.getLast?.getD cur, feed tail ds', out) ∧
        out.map (·.2) = effs.reverse ++ acc.map (·.2) := by
  induction fuel with
  | zero => intro recs cur ds evs ds' effs tail acc h; simp [encodeRecords] at h
  | succ fuel ih =>
    intro recs cur ds evs ds' effs tail acc h
    cases recs with
    | nil =>
      simp only [encodeRecords, Option.some.injEq, Prod.mk.injEq] at h
      obtain ⟨rfl, rfl, rfl⟩ := h
      exact ⟨acc, by simp [decodeRecords], by simp⟩
    | cons r rest =>
      obtain ⟨new, mk⟩ := r
      simp only [encodeRecords] at h
      split at h
      · simp at h
      · rename_i e1 ds1 v hfirst
        split at h
        · simp at h
        · rename_i e2 ds2 vs hrest
          simp only [Option.some.injEq, Prod.mk.injEq] at h
          obtain ⟨rfl, rfl, rfl⟩ := h
          have h1 := (roundtrip_all σ (fuel * 64 + 100000)).1 _ _ _ _ _ _ _ _ _ (e2 ++ tail) hfirst
          simp only [List.length_cons, decodeRecords, List.append_assoc]
          rw [h1]
          simp only [bind, Except.bind]
          obtain ⟨out, ho1, ho2⟩ := ih rest v ds1 e2 ds2 vs tail (_ :: acc) hrest
          refine ⟨out, ?_, ?_⟩
          · rw [ho1]
            cases vs with
            | nil => simp
            | cons a l =>
              simp only [List.getLast?_cons_cons]
              rw [List.getLast?_eq_some_getLast (List.cons_ne_nil a l)]; rfl
          · rw [ho2]; simp

end Stef.SpecEnc
