/-
  Stef.Proofs.ResponderGen: the Responder REGENERATED from responder.go (Gen/ResponderFlow.lean: the
  bodies of Run, sendBadDataResponse, composeBadDataResponse, ScheduleAck, ScheduleBadDataResponse, Stop
  as data, run by the machine of ResponderFlowSem.lean) makes exactly the Responder transitions of the
  hand-written LTS of Stef/Receiver.lean.
-/
import Stef.Gen.ResponderFlow
import Stef.Proofs.Receiver

namespace Stef.Proofs.ResponderGen
open Stef.Receiver Stef.ResponderFlowSem Stef.Gen.ResponderFlow

/-! ### where the goroutine of Run waits: continuations cut out of the regenerated data -/

/-- the body of the `for` loop that ends a sequence -/
def tailLoop : Stmt → Stmt
  | .seq _ b => tailLoop b
  | .loop b => b
  | _ => .skip

/-- the continuation at the first `select` of a sequence -/
def fromSel : Stmt → List Stmt
  | .seq (.sel a) b => [.sel a, b]
  | .seq _ b => fromSel b
  | s => [s]

/-- the continuation at the first `SendDataResponse` of a sequence -/
def fromSend : Stmt → List Stmt
  | .seq (.sendResp r e) b => [.sendResp r e, b]
  | .seq _ b => fromSend b
  | s => [s]

def selArms : Stmt → Arms
  | .sel a => a
  | _ => .nil

def thenOf : Stmt → Stmt
  | .ite _ t _ => t
  | _ => .skip

def restOf : Stmt → List Stmt
  | .seq _ b => [b]
  | _ => []

/-- `select { .. }` of Run's loop -/
def runL : Stmt := tailLoop runDecl.body
/-- Run waits in its outer select -/
def kIdle : List Stmt := [runL, .loop runL]
/-- Run waits in the inner select of the tick arm -/
def kLoaded : List Stmt := fromSel ((selArms runL).findTick.getD .skip) ++ [.loop runL]
/-- Run's frame while sendBadDataResponse runs, called from the outer select / from the tick arm -/
def kAfterCall : Option Nat → List Stmt
  | none => [.loop runL]
  | some _ => kLoaded.tail
/-- Run waits in the SendDataResponse of the tick arm's acknowledgement -/
def kSendAck : List Stmt := fromSend (thenOf (kLoaded.getD 1 .skip)) ++ [.loop runL]
/-- sendBadDataResponse while composeBadDataResponse runs -/
def kSbRest : List Stmt := restOf sendBadDataResponseDecl.body
/-- sendBadDataResponse waits in SendDataResponse -/
def kSendBad : List Stmt := fromSend ((kSbRest.getD 0 .skip))
/-- composeBadDataResponse waits in its select -/
def composeL : Stmt := tailLoop composeBadDataResponseDecl.body
def kCompose : List Stmt := [composeL, .loop composeL]

def runFrame (la x : Nat) (b0 b1 : Range) (k : List Stmt) : Frame := ⟨[la, x], [b0, b1], [0, 1], k⟩

/-- the value of `readRecordID` in Run's frame -/
def rdOf (k : Option Nat) (x : Nat) : Nat := k.getD x

/-- `RelQ c q la`: configuration `c` of the goroutine running the regenerated `Run` is at program
    counter `q` of the hand LTS with `lastAckedID = la`. Everything not named by `q` / `la` (dead
    locals, stale fields of the two preallocated responses) is arbitrary. -/
inductive RelQ : Cfg → QPc → Nat → Prop
  | idle (la x : Nat) (b0 b1 : Range) (a0 : Nat) (r0 : Range) (rs0 : List Range) (a1 : Nat) :
      RelQ ⟨runFrame la x b0 b1 kIdle, [], [⟨a0, r0 :: rs0⟩, ⟨a1, []⟩], false⟩ .idle la
  | loaded (la rd : Nat) (b0 b1 : Range) (a0 : Nat) (r0 : Range) (rs0 : List Range) (a1 : Nat) :
      RelQ ⟨runFrame la rd b0 b1 kLoaded, [], [⟨a0, r0 :: rs0⟩, ⟨a1, []⟩], false⟩ (.loaded rd) la
  | composing (la x : Nat) (b0 b1 : Range) (a : Nat) (r0 : Range) (rs0 : List Range) (a1 : Nat)
      (k : Option Nat) (cb0 cb1 sb : Range) :
      RelQ ⟨⟨[], [cb0, cb1], [0], kCompose⟩,
            [(⟨[la], [sb], [0], kSbRest⟩, none), (runFrame la (rdOf k x) b0 b1 (kAfterCall k), some 0)],
            [⟨a, r0 :: rs0⟩, ⟨a1, []⟩], false⟩ (.composing a (r0 :: rs0) k) la
  | sendingBad (la x : Nat) (b0 b1 : Range) (a : Nat) (r0 : Range) (rs0 : List Range) (a1 : Nat)
      (k : Option Nat) (sb : Range) :
      RelQ ⟨⟨[la], [sb], [0], kSendBad⟩, [(runFrame la (rdOf k x) b0 b1 (kAfterCall k), some 0)],
            [⟨a, r0 :: rs0⟩, ⟨a1, []⟩], false⟩ (.sending a (r0 :: rs0) true k) la
  | sendingAck (la x : Nat) (b0 b1 : Range) (a0 : Nat) (r0 : Range) (rs0 : List Range) (a : Nat)
      (k : Option Nat) :
      RelQ ⟨runFrame la x b0 b1 kSendAck, [], [⟨a0, r0 :: rs0⟩, ⟨a, []⟩], false⟩ (.sending a [] false k) la
  | stopped (la x : Nat) (b0 b1 : Range) (a0 : Nat) (r0 : Range) (rs0 : List Range) (a1 : Nat) :
      RelQ ⟨runFrame la x b0 b1 [], [], [⟨a0, r0 :: rs0⟩, ⟨a1, []⟩], false⟩ .stopped la

def Rel (c : Cfg) (s : State) : Prop := RelQ c s.qpc s.lastAcked

/-! ### the hand LTS seen at the machine's granularity -/

/-- the LTS event that outcome `ge` of a blocking operation is at program counter `q` -/
def lift : QPc → GEv → Option Event
  | .idle, .tick => some .tick
  | .idle, .recvBad => some .badRecv
  | .idle, .stopRecv => some .stop
  | .loaded _, .recvBad => some .badRecv
  | .loaded _, .dflt => some .tickNoBad
  | .composing _ _ _, .recvBad => some .badMore
  | .composing _ _ _, .dflt => some .badDone
  | .sending _ _ _ _, .sendOk => some .sendOk
  | .sending _ _ _ _, .sendFail => some .sendFail
  | _, _ => none

/-- `acking rd` is not a blocking point of the code: the comparison `readRecordID > lastAckedID` that
    follows the inner select is local and is evaluated in the same step. -/
def norm (s : State) : Option State :=
  match s.qpc with
  | .acking _ => step s .tickAck
  | _ => some s

/-- one Responder step of the hand LTS at the machine's granularity -/
def gstepL (s : State) (ge : GEv) : Option State :=
  match lift s.qpc ge with
  | some e => (step s e).bind norm
  | none => none

/-- the result of a machine step against the result of the LTS step: both disabled, or both enabled
    with the same effect on the shared state and related successors. (The machine leaves the ghost
    fields `qpc` / `lastAcked` of the state it is given alone.) -/
def SimRes (s : State) : Option (Cfg × State) → Option State → Prop
  | some (c', s1), some s' => s1 = { s' with qpc := s.qpc, lastAcked := s.lastAcked } ∧ Rel c' s'
  | none, none => True
  | _, _ => False

theorem cap_eq : badDataChanCap = badDataCap := rfl


/-! ### the machine's steps from each waiting point, computed on the regenerated data -/

section steps
attribute [local simp] rstep settle fuel sstep Cfg.withK Cfg.setObj Cfg.obj NExpr.eval Cond.eval mkFrame
  prog runDecl sendBadDataResponseDecl composeBadDataResponseDecl badDataChanCap
  Arms.findRecvBad Arms.findTick Arms.findStop Arms.findDflt Arms.findSendBad Arms.ready
  tailLoop fromSel fromSend selArms thenOf restOf runL kIdle kLoaded kAfterCall kSendAck kSbRest kSendBad
  composeL kCompose runFrame rdOf

variable (s : State) (la x rd a a0 a1 : Nat) (b0 b1 r0 cb0 cb1 sb h : Range) (rs0 tl : List Range) (k : Option Nat)

abbrev cIdle (la x : Nat) (b0 b1 : Range) (a0 : Nat) (r0 : Range) (rs0 : List Range) (a1 : Nat) : Cfg :=
  ⟨runFrame la x b0 b1 kIdle, [], [⟨a0, r0 :: rs0⟩, ⟨a1, []⟩], false⟩
abbrev cLoaded (la rd : Nat) (b0 b1 : Range) (a0 : Nat) (r0 : Range) (rs0 : List Range) (a1 : Nat) : Cfg :=
  ⟨runFrame la rd b0 b1 kLoaded, [], [⟨a0, r0 :: rs0⟩, ⟨a1, []⟩], false⟩
abbrev cComposing (la x : Nat) (b0 b1 : Range) (a : Nat) (r0 : Range) (rs0 : List Range) (a1 : Nat)
    (k : Option Nat) (cb0 cb1 sb : Range) : Cfg :=
  ⟨⟨[], [cb0, cb1], [0], kCompose⟩,
   [(⟨[la], [sb], [0], kSbRest⟩, none), (runFrame la (rdOf k x) b0 b1 (kAfterCall k), some 0)],
   [⟨a, r0 :: rs0⟩, ⟨a1, []⟩], false⟩
abbrev cSendingBad (la x : Nat) (b0 b1 : Range) (a : Nat) (r0 : Range) (rs0 : List Range) (a1 : Nat)
    (k : Option Nat) (sb : Range) : Cfg :=
  ⟨⟨[la], [sb], [0], kSendBad⟩, [(runFrame la (rdOf k x) b0 b1 (kAfterCall k), some 0)],
   [⟨a, r0 :: rs0⟩, ⟨a1, []⟩], false⟩
abbrev cSendingAck (la x : Nat) (b0 b1 : Range) (a0 : Nat) (r0 : Range) (rs0 : List Range) (a : Nat) : Cfg :=
  ⟨runFrame la x b0 b1 kSendAck, [], [⟨a0, r0 :: rs0⟩, ⟨a, []⟩], false⟩
abbrev cStopped (la x : Nat) (b0 b1 : Range) (a0 : Nat) (r0 : Range) (rs0 : List Range) (a1 : Nat) : Cfg :=
  ⟨runFrame la x b0 b1 [], [], [⟨a0, r0 :: rs0⟩, ⟨a1, []⟩], false⟩

/-- Run goes from its declarations to the outer select without a blocking operation. -/
theorem start_run (s : State) :
    start prog runDecl [] [] s = (cIdle 0 0 (0, 0) (0, 0) 0 (0, 0) [] 0, s) := by
  simp [start]

theorem idle_tick :
    rstep prog badDataChanCap (cIdle la x b0 b1 a0 r0 rs0 a1) s .tick
      = some (cLoaded la s.nextAck b0 b1 a0 r0 rs0 a1, s) := by
  simp

theorem idle_recvBad (hq : s.queue = h :: tl) :
    rstep prog badDataChanCap (cIdle la x b0 b1 a0 r0 rs0 a1) s .recvBad
      = some (cComposing la x h b1 h.2 h [] a1 none h (0, 0) h, { s with queue := tl }) := by
  simp [hq]

theorem idle_recvBad_empty (hq : s.queue = []) :
    rstep prog badDataChanCap (cIdle la x b0 b1 a0 r0 rs0 a1) s .recvBad = none := by
  simp [hq]

theorem idle_stop :
    rstep prog badDataChanCap (cIdle la x b0 b1 a0 r0 rs0 a1) s .stopRecv
      = if s.stopReq then some (cStopped la x b0 b1 a0 r0 rs0 a1, s) else none := by
  by_cases hs : s.stopReq <;> simp [hs]

theorem idle_other (ge : GEv) (h1 : ge ≠ .tick) (h2 : ge ≠ .recvBad) (h3 : ge ≠ .stopRecv) :
    rstep prog badDataChanCap (cIdle la x b0 b1 a0 r0 rs0 a1) s ge = none := by
  cases ge <;> simp_all

theorem loaded_recvBad (hq : s.queue = h :: tl) :
    rstep prog badDataChanCap (cLoaded la rd b0 b1 a0 r0 rs0 a1) s .recvBad
      = some (cComposing la rd b0 h h.2 h [] a1 (some rd) h (0, 0) h, { s with queue := tl }) := by
  simp [hq]

theorem loaded_recvBad_empty (hq : s.queue = []) :
    rstep prog badDataChanCap (cLoaded la rd b0 b1 a0 r0 rs0 a1) s .recvBad = none := by
  simp [hq]

theorem loaded_dflt_gt (hq : s.queue = []) (hgt : la < rd) :
    rstep prog badDataChanCap (cLoaded la rd b0 b1 a0 r0 rs0 a1) s .dflt
      = some (cSendingAck rd rd b0 b1 a0 r0 rs0 rd, s) := by
  simp [hq, hgt]

theorem loaded_dflt_le (hq : s.queue = []) (hgt : ¬ la < rd) :
    rstep prog badDataChanCap (cLoaded la rd b0 b1 a0 r0 rs0 a1) s .dflt
      = some (cIdle la rd b0 b1 a0 r0 rs0 a1, s) := by
  simp [hq, hgt]

theorem loaded_dflt_nonempty (hq : s.queue = h :: tl) :
    rstep prog badDataChanCap (cLoaded la rd b0 b1 a0 r0 rs0 a1) s .dflt = none := by
  simp [hq]

theorem loaded_other (ge : GEv) (h1 : ge ≠ .recvBad) (h2 : ge ≠ .dflt) :
    rstep prog badDataChanCap (cLoaded la rd b0 b1 a0 r0 rs0 a1) s ge = none := by
  cases ge <;> simp_all

theorem composing_recvBad (hq : s.queue = h :: tl) :
    rstep prog badDataChanCap (cComposing la x b0 b1 a r0 rs0 a1 k cb0 cb1 sb) s .recvBad
      = some (cComposing la x b0 b1 (if a < h.2 then h.2 else a) r0 (rs0 ++ [h]) a1 k cb0 h sb,
              { s with queue := tl }) := by
  by_cases hlt : a < h.2 <;> simp [hq, hlt]

theorem composing_recvBad_empty (hq : s.queue = []) :
    rstep prog badDataChanCap (cComposing la x b0 b1 a r0 rs0 a1 k cb0 cb1 sb) s .recvBad = none := by
  simp [hq]

theorem composing_dflt (hq : s.queue = []) :
    rstep prog badDataChanCap (cComposing la x b0 b1 a r0 rs0 a1 k cb0 cb1 sb) s .dflt
      = some (cSendingBad la x b0 b1 (if a < la then la else a) r0 rs0 a1 k sb, s) := by
  by_cases hlt : a < la <;> simp [hq, hlt]

theorem composing_dflt_nonempty (hq : s.queue = h :: tl) :
    rstep prog badDataChanCap (cComposing la x b0 b1 a r0 rs0 a1 k cb0 cb1 sb) s .dflt = none := by
  simp [hq]

theorem composing_other (ge : GEv) (h1 : ge ≠ .recvBad) (h2 : ge ≠ .dflt) :
    rstep prog badDataChanCap (cComposing la x b0 b1 a r0 rs0 a1 k cb0 cb1 sb) s ge = none := by
  cases ge <;> simp_all

theorem sendingBad_ok_none (hb : s.broken = false) :
    rstep prog badDataChanCap (cSendingBad la x b0 b1 a r0 rs0 a1 none sb) s .sendOk
      = some (cIdle a x b0 b1 a r0 rs0 a1, { s with resps := ⟨a, r0 :: rs0, true⟩ :: s.resps }) := by
  simp [hb]

theorem sendingBad_ok_some_gt (hb : s.broken = false) (hgt : a < rd) :
    rstep prog badDataChanCap (cSendingBad la x b0 b1 a r0 rs0 a1 (some rd) sb) s .sendOk
      = some (cSendingAck rd rd b0 b1 a r0 rs0 rd, { s with resps := ⟨a, r0 :: rs0, true⟩ :: s.resps }) := by
  simp [hb, hgt]

theorem sendingBad_ok_some_le (hb : s.broken = false) (hgt : ¬ a < rd) :
    rstep prog badDataChanCap (cSendingBad la x b0 b1 a r0 rs0 a1 (some rd) sb) s .sendOk
      = some (cIdle a rd b0 b1 a r0 rs0 a1, { s with resps := ⟨a, r0 :: rs0, true⟩ :: s.resps }) := by
  simp [hb, hgt]

theorem sending_ok_broken (c : Cfg) (r : Nat) (e : Stmt) (rest : List Stmt) (hk : c.top.k = .sendResp r e :: rest)
    (hp : c.panicked = false) (hb : s.broken = true) :
    rstep prog badDataChanCap c s .sendOk = none := by
  simp [rstep, hk, hp, hb]

theorem sendingBad_fail_none :
    rstep prog badDataChanCap (cSendingBad la x b0 b1 a r0 rs0 a1 none sb) s .sendFail
      = some (cIdle la x b0 b1 a r0 rs0 a1,
              { s with resps := ⟨a, r0 :: rs0, false⟩ :: s.resps, broken := true, lastError := true }) := by
  simp

theorem sendingBad_fail_some_gt (hgt : la < rd) :
    rstep prog badDataChanCap (cSendingBad la x b0 b1 a r0 rs0 a1 (some rd) sb) s .sendFail
      = some (cSendingAck rd rd b0 b1 a r0 rs0 rd,
              { s with resps := ⟨a, r0 :: rs0, false⟩ :: s.resps, broken := true, lastError := true }) := by
  simp [hgt]

theorem sendingBad_fail_some_le (hgt : ¬ la < rd) :
    rstep prog badDataChanCap (cSendingBad la x b0 b1 a r0 rs0 a1 (some rd) sb) s .sendFail
      = some (cIdle la rd b0 b1 a r0 rs0 a1,
              { s with resps := ⟨a, r0 :: rs0, false⟩ :: s.resps, broken := true, lastError := true }) := by
  simp [hgt]

theorem sendingBad_other (ge : GEv) (h1 : ge ≠ .sendOk) (h2 : ge ≠ .sendFail) :
    rstep prog badDataChanCap (cSendingBad la x b0 b1 a r0 rs0 a1 k sb) s ge = none := by
  cases ge <;> simp_all

theorem sendingAck_ok (hb : s.broken = false) :
    rstep prog badDataChanCap (cSendingAck la x b0 b1 a0 r0 rs0 a) s .sendOk
      = some (cIdle la x b0 b1 a0 r0 rs0 a, { s with resps := ⟨a, [], true⟩ :: s.resps }) := by
  simp [hb]

theorem sendingAck_fail :
    rstep prog badDataChanCap (cSendingAck la x b0 b1 a0 r0 rs0 a) s .sendFail
      = some (cIdle la x b0 b1 a0 r0 rs0 a,
              { s with resps := ⟨a, [], false⟩ :: s.resps, broken := true, lastError := true }) := by
  simp

theorem sendingAck_other (ge : GEv) (h1 : ge ≠ .sendOk) (h2 : ge ≠ .sendFail) :
    rstep prog badDataChanCap (cSendingAck la x b0 b1 a0 r0 rs0 a) s ge = none := by
  cases ge <;> simp_all

theorem stopped_any (ge : GEv) :
    rstep prog badDataChanCap (cStopped la x b0 b1 a0 r0 rs0 a1) s ge = none := by
  simp

end steps


/-! ### the machine on the regenerated data makes exactly the Responder steps of the hand LTS -/

/-- MAIN THEOREM. In related states, every outcome of the blocking operation the regenerated `Run`
    waits in is enabled in the machine iff the corresponding Responder event is enabled in the hand
    LTS, with the same effect on the shared state (channel, responses sent, lastError, ...) and related
    successors (same program counter, same `lastAckedID`, same response being composed / sent). -/
theorem sim (c : Cfg) (s : State) (ge : GEv) (h : Rel c s) :
    SimRes s (rstep prog badDataChanCap c s ge) (gstepL s ge) := by
  unfold Rel at h
  generalize hq : s.qpc = q at h
  generalize hl : s.lastAcked = la at h
  cases h with
  | idle la x b0 b1 a0 r0 rs0 a1 =>
    subst hl
    cases ge with
    | tick =>
      rw [idle_tick]
      simp [gstepL, lift, hq, step, norm, SimRes, Rel]
      refine ⟨?_, RelQ.loaded ..⟩
      cases s; simp_all
    | recvBad =>
      cases hqu : s.queue with
      | nil => rw [idle_recvBad_empty (hq := hqu)]; simp [gstepL, lift, hq, step, hqu, SimRes]
      | cons h tl =>
        rw [idle_recvBad (hq := hqu)]
        simp [gstepL, lift, hq, step, norm, SimRes, Rel, hqu]
        exact RelQ.composing ..
    | stopRecv =>
      rw [idle_stop]
      by_cases hs : s.stopReq = true
      · simp [gstepL, lift, hq, step, SimRes, Rel, hs]
        refine ⟨?_, RelQ.stopped ..⟩
        cases s; simp_all
      · simp [gstepL, lift, hq, step, SimRes, hs]
    | dflt => rw [idle_other (ge := .dflt) (h1 := by simp) (h2 := by simp) (h3 := by simp)]; simp [gstepL, lift, hq, SimRes]
    | chanSend => rw [idle_other (ge := .chanSend) (h1 := by simp) (h2 := by simp) (h3 := by simp)]; simp [gstepL, lift, hq, SimRes]
    | sendOk => rw [idle_other (ge := .sendOk) (h1 := by simp) (h2 := by simp) (h3 := by simp)]; simp [gstepL, lift, hq, SimRes]
    | sendFail => rw [idle_other (ge := .sendFail) (h1 := by simp) (h2 := by simp) (h3 := by simp)]; simp [gstepL, lift, hq, SimRes]
  | loaded la rd b0 b1 a0 r0 rs0 a1 =>
    subst hl
    cases ge with
    | recvBad =>
      cases hqu : s.queue with
      | nil => rw [loaded_recvBad_empty (hq := hqu)]; simp [gstepL, lift, hq, step, hqu, SimRes]
      | cons h tl =>
        rw [loaded_recvBad (hq := hqu)]
        simp [gstepL, lift, hq, step, norm, SimRes, Rel, hqu]
        exact RelQ.composing _ rd _ _ _ _ _ _ (some rd) _ _ _
    | dflt =>
      cases hqu : s.queue with
      | cons h tl => rw [loaded_dflt_nonempty (hq := hqu)]; simp [gstepL, lift, hq, step, hqu, SimRes]
      | nil =>
        by_cases hgt : s.lastAcked < rd
        · rw [loaded_dflt_gt (hq := hqu) (hgt := hgt)]
          simp [gstepL, lift, hq, step, norm, SimRes, Rel, hqu, hgt]
          refine ⟨?_, RelQ.sendingAck ..⟩
          cases s; simp_all
        · rw [loaded_dflt_le (hq := hqu) (hgt := hgt)]
          simp [gstepL, lift, hq, step, norm, SimRes, Rel, hqu, hgt]
          refine ⟨?_, RelQ.idle ..⟩
          cases s; simp_all
    | tick => rw [loaded_other (ge := .tick) (h1 := by simp) (h2 := by simp)]; simp [gstepL, lift, hq, SimRes]
    | stopRecv => rw [loaded_other (ge := .stopRecv) (h1 := by simp) (h2 := by simp)]; simp [gstepL, lift, hq, SimRes]
    | chanSend => rw [loaded_other (ge := .chanSend) (h1 := by simp) (h2 := by simp)]; simp [gstepL, lift, hq, SimRes]
    | sendOk => rw [loaded_other (ge := .sendOk) (h1 := by simp) (h2 := by simp)]; simp [gstepL, lift, hq, SimRes]
    | sendFail => rw [loaded_other (ge := .sendFail) (h1 := by simp) (h2 := by simp)]; simp [gstepL, lift, hq, SimRes]
  | composing la x b0 b1 a r0 rs0 a1 k cb0 cb1 sb =>
    subst hl
    cases ge with
    | recvBad =>
      cases hqu : s.queue with
      | nil => rw [composing_recvBad_empty (hq := hqu)]; simp [gstepL, lift, hq, step, hqu, SimRes]
      | cons h tl =>
        rw [composing_recvBad (hq := hqu)]
        simp [gstepL, lift, hq, step, norm, SimRes, Rel, hqu]
        exact RelQ.composing ..
    | dflt =>
      cases hqu : s.queue with
      | cons h tl => rw [composing_dflt_nonempty (hq := hqu)]; simp [gstepL, lift, hq, step, hqu, SimRes]
      | nil =>
        rw [composing_dflt (hq := hqu)]
        simp [gstepL, lift, hq, step, norm, SimRes, Rel, hqu]
        refine ⟨?_, RelQ.sendingBad ..⟩
        cases s; simp_all
    | tick => rw [composing_other (ge := .tick) (h1 := by simp) (h2 := by simp)]; simp [gstepL, lift, hq, SimRes]
    | stopRecv => rw [composing_other (ge := .stopRecv) (h1 := by simp) (h2 := by simp)]; simp [gstepL, lift, hq, SimRes]
    | chanSend => rw [composing_other (ge := .chanSend) (h1 := by simp) (h2 := by simp)]; simp [gstepL, lift, hq, SimRes]
    | sendOk => rw [composing_other (ge := .sendOk) (h1 := by simp) (h2 := by simp)]; simp [gstepL, lift, hq, SimRes]
    | sendFail => rw [composing_other (ge := .sendFail) (h1 := by simp) (h2 := by simp)]; simp [gstepL, lift, hq, SimRes]
  | sendingBad la x b0 b1 a r0 rs0 a1 k sb =>
    subst hl
    cases ge with
    | sendOk =>
      cases hb : s.broken with
      | true =>
        rw [sending_ok_broken s _ 0 _ _ rfl rfl hb]
        simp [gstepL, lift, hq, step, hb, SimRes]
      | false =>
        cases k with
        | none =>
          rw [sendingBad_ok_none (hb := hb)]
          simp [gstepL, lift, hq, step, norm, SimRes, Rel, hb, QPc.afterSend]
          exact RelQ.idle ..
        | some rd =>
          by_cases hgt : a < rd
          · rw [sendingBad_ok_some_gt (hb := hb) (hgt := hgt)]
            simp [gstepL, lift, hq, step, norm, SimRes, Rel, hb, QPc.afterSend, hgt]
            exact RelQ.sendingAck ..
          · rw [sendingBad_ok_some_le (hb := hb) (hgt := hgt)]
            simp [gstepL, lift, hq, step, norm, SimRes, Rel, hb, QPc.afterSend, hgt]
            exact RelQ.idle ..
    | sendFail =>
      cases k with
      | none =>
        rw [sendingBad_fail_none]
        simp [gstepL, lift, hq, step, norm, SimRes, Rel, QPc.afterSend]
        exact RelQ.idle ..
      | some rd =>
        by_cases hgt : s.lastAcked < rd
        · rw [sendingBad_fail_some_gt (hgt := hgt)]
          simp [gstepL, lift, hq, step, norm, SimRes, Rel, QPc.afterSend, hgt]
          exact RelQ.sendingAck ..
        · rw [sendingBad_fail_some_le (hgt := hgt)]
          simp [gstepL, lift, hq, step, norm, SimRes, Rel, QPc.afterSend, hgt]
          exact RelQ.idle ..
    | tick => rw [sendingBad_other (ge := .tick) (h1 := by simp) (h2 := by simp)]; simp [gstepL, lift, hq, SimRes]
    | stopRecv => rw [sendingBad_other (ge := .stopRecv) (h1 := by simp) (h2 := by simp)]; simp [gstepL, lift, hq, SimRes]
    | chanSend => rw [sendingBad_other (ge := .chanSend) (h1 := by simp) (h2 := by simp)]; simp [gstepL, lift, hq, SimRes]
    | recvBad => rw [sendingBad_other (ge := .recvBad) (h1 := by simp) (h2 := by simp)]; simp [gstepL, lift, hq, SimRes]
    | dflt => rw [sendingBad_other (ge := .dflt) (h1 := by simp) (h2 := by simp)]; simp [gstepL, lift, hq, SimRes]
  | sendingAck la x b0 b1 a0 r0 rs0 a k =>
    subst hl
    cases ge with
    | sendOk =>
      cases hb : s.broken with
      | true =>
        rw [sending_ok_broken s _ 1 _ _ rfl rfl hb]
        simp [gstepL, lift, hq, step, hb, SimRes]
      | false =>
        rw [sendingAck_ok (hb := hb)]
        simp [gstepL, lift, hq, step, norm, SimRes, Rel, hb, QPc.afterSend]
        exact RelQ.idle ..
    | sendFail =>
      rw [sendingAck_fail]
      simp [gstepL, lift, hq, step, norm, SimRes, Rel, QPc.afterSend]
      exact RelQ.idle ..
    | tick => rw [sendingAck_other (ge := .tick) (h1 := by simp) (h2 := by simp)]; simp [gstepL, lift, hq, SimRes]
    | stopRecv => rw [sendingAck_other (ge := .stopRecv) (h1 := by simp) (h2 := by simp)]; simp [gstepL, lift, hq, SimRes]
    | chanSend => rw [sendingAck_other (ge := .chanSend) (h1 := by simp) (h2 := by simp)]; simp [gstepL, lift, hq, SimRes]
    | recvBad => rw [sendingAck_other (ge := .recvBad) (h1 := by simp) (h2 := by simp)]; simp [gstepL, lift, hq, SimRes]
    | dflt => rw [sendingAck_other (ge := .dflt) (h1 := by simp) (h2 := by simp)]; simp [gstepL, lift, hq, SimRes]
  | stopped la x b0 b1 a0 r0 rs0 a1 =>
    rw [stopped_any]
    cases ge <;> simp [gstepL, lift, hq, SimRes]


/-! ### the whole receiver with the regenerated Responder: runs -/

/-- overwrite the two fields of the LTS state that belong to Run's goroutine (`qpc`, `lastAcked`):
    the machine keeps them in its configuration and never looks at these fields -/
def ghost (q : QPc) (la : Nat) (s : State) : State := { s with qpc := q, lastAcked := la }

def gh (q : QPc) (la : Nat) (x : Cfg × State) : Cfg × State := (x.1, ghost q la x.2)

theorem sstep_ghost (p : Prog) (c : Cfg) (s : State) (q : QPc) (la : Nat) :
    sstep p c (ghost q la s) = (sstep p c s).map (gh q la) := by
  unfold sstep
  split
  · rfl
  · split
    · split <;> rfl
    · rename_i st rest _
      cases st <;> (try rfl) <;> (try (simp only []; split <;> rfl))
      simp only []; split
      · rfl
      · split <;> rfl

theorem settle_ghost (p : Prog) (n : Nat) (x : Cfg × State) (q : QPc) (la : Nat) :
    settle p n (gh q la x) = gh q la (settle p n x) := by
  induction n generalizing x with
  | zero => rfl
  | succ n ih =>
    simp only [settle, gh, sstep_ghost]
    cases h : sstep p x.1 x.2 with
    | none => rfl
    | some y => simp only [Option.map]; exact ih y

theorem ready_ghost (cap : Nat) (s : State) (q : QPc) (la : Nat) :
    (a : Arms) → a.ready cap (ghost q la s) = a.ready cap s
  | .nil => rfl
  | .recvBad _ _ r => by simp only [Arms.ready, ready_ghost cap s q la r]; rfl
  | .recvTick _ r => by simp only [Arms.ready, ready_ghost cap s q la r]
  | .recvStop _ r => by simp only [Arms.ready, ready_ghost cap s q la r]; rfl
  | .sendBad _ _ r => by simp only [Arms.ready, ready_ghost cap s q la r]; rfl
  | .dflt _ r => by simp only [Arms.ready, ready_ghost cap s q la r]

theorem rpre_ghost (cap : Nat) (c : Cfg) (s : State) (ge : GEv) (q : QPc) (la : Nat) :
    rpre cap c (ghost q la s) ge = (rpre cap c s ge).map (gh q la) := by
  unfold rpre
  simp only [ready_ghost]
  simp only [ghost]
  repeat' (first | rfl | split)
  all_goals simp_all [gh, ghost]

/-- `rstep` is "the blocking operation proceeds" followed by `settle` -/
theorem rstep_eq_rpre (p : Prog) (cap : Nat) (c : Cfg) (s : State) (ge : GEv) :
    rstep p cap c s ge = (rpre cap c s ge).map (settle p fuel) := by
  unfold rstep rpre
  repeat' (first | rfl | split)

/-- the machine neither reads nor writes the fields `qpc` / `lastAcked` of the state it is given -/
theorem rstep_ghost (p : Prog) (cap : Nat) (c : Cfg) (s : State) (ge : GEv) (q : QPc) (la : Nat) :
    rstep p cap c (ghost q la s) ge = (rstep p cap c s ge).map (gh q la) := by
  rw [rstep_eq_rpre, rstep_eq_rpre, rpre_ghost]
  cases rpre cap c s ge with
  | none => rfl
  | some x => simp only [Option.map]; exact congrArg some (settle_ghost p fuel x q la)

/-- the events of the decoding loop (onStream's goroutine) -/
def isLoopEv : Event → Bool
  | .checkErr | .decode _ | .readFail | .consume _ | .schedAck | .schedBad => true
  | _ => false

/-- the decoding loop neither reads nor writes `qpc` / `lastAcked` -/
theorem step_loop_ghost (s : State) (e : Event) (hl : isLoopEv e = true) (q : QPc) (la : Nat) :
    step (ghost q la s) e = (step s e).map (ghost q la) := by
  cases e <;> simp [isLoopEv] at hl <;> (cases hr : s.rpc <;> simp [step, ghost, hr])
  all_goals (repeat' split) <;> (first | rfl | simp_all)

theorem step_loop_keeps {s s' : State} {e : Event} (hl : isLoopEv e = true) (h : step s e = some s') :
    s'.qpc = s.qpc ∧ s'.lastAcked = s.lastAcked := by
  have hs := step_sound h
  cases hs <;> simp [isLoopEv] at hl <;> exact ⟨rfl, rfl⟩

inductive GEvent where
  | loop (e : Event)      -- an event of the decoding loop (hand model)
  | resp (ge : GEv)       -- a blocking operation of the regenerated Responder proceeds
deriving Repr

/-- the receiver with the regenerated Responder: the shared state and the decoding loop as in the
    hand LTS (`sh`; its fields `qpc` / `lastAcked` are not used), Run's goroutine as configuration of
    the machine -/
structure G where
  sh : State
  c : Cfg

/-- Run has been started (`go resp.Run()`) and has reached its select -/
def G.init : G := ⟨(start prog runDecl [] [] Receiver.init).2, (start prog runDecl [] [] Receiver.init).1⟩

def G.step (g : G) : GEvent → Option G
  | .loop e => if isLoopEv e then (Receiver.step g.sh e).map (fun s' => ⟨s', g.c⟩) else none
  | .resp ge => (rstep prog badDataChanCap g.c g.sh ge).map (fun x => ⟨x.2, x.1⟩)

def G.run : G → List GEvent → Option G
  | g, [] => some g
  | g, e :: es =>
    match g.step e with
    | some g' => G.run g' es
    | none => none

/-- `g` and the LTS state `s` agree on everything shared, and Run's configuration is at `s.qpc` with
    `lastAckedID = s.lastAcked` -/
def Inv (g : G) (s : State) : Prop := g.sh = ghost g.sh.qpc g.sh.lastAcked s ∧ Rel g.c s

theorem run_append' (s : State) (a b : List Event) :
    run s (a ++ b) = (run s a).bind (fun s' => run s' b) := by
  induction a generalizing s with
  | nil => rfl
  | cons e es ih =>
    simp only [List.cons_append, run]
    cases step s e with
    | none => rfl
    | some s' => exact ih s'

/-- a step at the machine's granularity is one or two steps of the hand LTS -/
theorem gstepL_run {s s' : State} {ge : GEv} (h : gstepL s ge = some s') :
    ∃ e, lift s.qpc ge = some e ∧ (run s [e] = some s' ∨ run s [e, .tickAck] = some s') := by
  unfold gstepL at h
  cases hl : lift s.qpc ge with
  | none => simp [hl] at h
  | some e =>
    simp only [hl] at h
    cases hs : step s e with
    | none => simp [hs] at h
    | some s1 =>
      simp only [hs, Option.bind] at h
      refine ⟨e, rfl, ?_⟩
      unfold norm at h
      split at h
      · right; simp [run, hs, h]
      · left; cases h; simp [run, hs]

theorem inv_init : Inv G.init Receiver.init := by
  refine ⟨?_, ?_⟩
  · simp [G.init, start_run, ghost, Receiver.init]
  · simp only [G.init, start_run]; exact RelQ.idle ..

theorem ghost_ghost (q q' : QPc) (la la' : Nat) (s : State) : ghost q la (ghost q' la' s) = ghost q la s := rfl

theorem ghost_self (s : State) : ghost s.qpc s.lastAcked s = s := rfl

/-- one step of the receiver with the regenerated Responder is one or two steps of the hand LTS -/
theorem gstep_sound {g g' : G} {s : State} {ev : GEvent} (hi : Inv g s) (h : g.step ev = some g') :
    ∃ es s', run s es = some s' ∧ Inv g' s' := by
  obtain ⟨hsh, hrel⟩ := hi
  cases ev with
  | loop e =>
    simp only [G.step] at h
    split at h
    · rename_i hl
      rw [hsh, step_loop_ghost _ _ hl] at h
      cases hs : step s e with
      | none => simp [hs] at h
      | some s' =>
        simp only [hs, Option.map] at h
        cases h
        obtain ⟨hq, hla⟩ := step_loop_keeps hl hs
        refine ⟨[e], s', by simp [run, hs], rfl, ?_⟩
        unfold Rel at hrel ⊢
        rw [hq, hla]; exact hrel
    · cases h
  | resp ge =>
    simp only [G.step] at h
    rw [hsh, rstep_ghost] at h
    have hsim := sim g.c s ge hrel
    cases hr : rstep prog badDataChanCap g.c s ge with
    | none => simp [hr] at h
    | some x =>
      obtain ⟨c', s1⟩ := x
      simp only [hr, Option.map] at h
      cases h
      cases hl : gstepL s ge with
      | none => simp [hr, hl, SimRes] at hsim
      | some s' =>
        simp only [hr, hl, SimRes] at hsim
        obtain ⟨h1, hrel'⟩ := hsim
        obtain ⟨e, _, hrun⟩ := gstepL_run hl
        have hinv : Inv ⟨ghost g.sh.qpc g.sh.lastAcked s1, c'⟩ s' := by
          refine ⟨?_, hrel'⟩
          rw [h1]; rfl
        rcases hrun with hrun | hrun
        · exact ⟨_, s', hrun, hinv⟩
        · exact ⟨_, s', hrun, hinv⟩

/-- SOUNDNESS OF THE HAND LTS FOR THE REGENERATED RESPONDER. Every run of the receiver with the
    regenerated Responder (any interleaving of the decoding loop's events with the outcomes of Run's
    blocking operations) is a run of the hand LTS ending in a related state: same shared state, Run at
    the LTS's program counter with the LTS's `lastAckedID`. -/
theorem grun_sound (gevs : List GEvent) (g0 g : G) (s0 : State) (hi : Inv g0 s0) (h : G.run g0 gevs = some g) :
    ∃ es s, run s0 es = some s ∧ Inv g s := by
  induction gevs generalizing g0 s0 with
  | nil => cases h; exact ⟨[], s0, rfl, hi⟩
  | cons ev rest ih =>
    simp only [G.run] at h
    cases hs : g0.step ev with
    | none => simp [hs] at h
    | some g1 =>
      simp only [hs] at h
      obtain ⟨es1, s1, hr1, hi1⟩ := gstep_sound hi hs
      obtain ⟨es2, s2, hr2, hi2⟩ := ih g1 s1 hi1 h
      exact ⟨es1 ++ es2, s2, by simp [run_append', hr1, hr2], hi2⟩

theorem grun_sound_init (gevs : List GEvent) (g : G) (h : G.run G.init gevs = some g) :
    ∃ es s, run Receiver.init es = some s ∧ Inv g s :=
  grun_sound gevs G.init g Receiver.init inv_init h


/-! ### completeness, step by step: the hand LTS has no Responder transition the code does not have -/

theorem norm_isSome (s : State) : ∃ s', norm s = some s' := by
  unfold norm
  split
  · rename_i rd h
    by_cases hgt : rd > s.lastAcked <;> simp [step, h, hgt]
  · exact ⟨s, rfl⟩

/-- every Responder event of the LTS other than the local `tickAck` is the outcome of the blocking
    operation Run waits in -/
theorem lift_complete {s s1 : State} {e : Event} (h : step s e = some s1) (hl : isLoopEv e = false)
    (ht : e ≠ .tickAck) : ∃ ge, lift s.qpc ge = some e := by
  have hs := step_sound h
  cases hs <;> simp [isLoopEv] at hl ht
  all_goals first
    | (refine ⟨.tick, ?_⟩; simp [lift, *]; done)
    | (refine ⟨.recvBad, ?_⟩; simp [lift, *]; done)
    | (refine ⟨.dflt, ?_⟩; simp [lift, *]; done)
    | (refine ⟨.sendOk, ?_⟩; simp [lift, *]; done)
    | (refine ⟨.sendFail, ?_⟩; simp [lift, *]; done)
    | (refine ⟨.stopRecv, ?_⟩; simp [lift, *]; done)

/-- COMPLETENESS, one step: a Responder transition of the hand LTS from a state related to a
    configuration of the regenerated Run is a step of the machine (followed, in the LTS, by the local
    `tickAck` when it ends in `acking`). -/
theorem lts_step_is_machine_step {g : G} {s s1 : State} {e : Event} {ge : GEv} (hi : Inv g s)
    (hl : lift s.qpc ge = some e) (h : step s e = some s1) :
    ∃ g' s', g.step (.resp ge) = some g' ∧ norm s1 = some s' ∧ Inv g' s' := by
  obtain ⟨hsh, hrel⟩ := hi
  obtain ⟨s', hn⟩ := norm_isSome s1
  have hg : gstepL s ge = some s' := by simp [gstepL, hl, h, hn]
  have hsim := sim g.c s ge hrel
  rw [hg] at hsim
  cases hr : rstep prog badDataChanCap g.c s ge with
  | none => simp [hr, SimRes] at hsim
  | some x =>
    obtain ⟨c', s2⟩ := x
    simp only [hr, SimRes] at hsim
    obtain ⟨h1, hrel'⟩ := hsim
    refine ⟨⟨ghost g.sh.qpc g.sh.lastAcked s2, c'⟩, s', ?_, hn, ?_, hrel'⟩
    · simp only [G.step]; rw [hsh, rstep_ghost, hr]; rfl
    · rw [h1]; rfl

/-! ### facts about the regenerated data -/

/-- the capacity of `badDataCh` (`make(chan BadData, badDataMaxBatchSize)` in NewResponder) is the
    hand model's -/
theorem chan_cap : badDataChanCap = badDataCap := rfl

/-- the `<-r.stopCh` arm of Run's select neither sends a response nor calls anything ... -/
theorem stop_arm_sends_nothing :
    ((selArms runL).findStop.map Stmt.sendsOrCalls) = some false := by decide

/-- ... and taking it ends Run without a response and without touching the shared state. -/
theorem stop_arm_effect (g : G) (s : State) (hi : Inv g s) (hq : s.qpc = .idle) (hs : s.stopReq = true) :
    ∃ g', g.step (.resp .stopRecv) = some g' ∧ g'.sh = g.sh ∧ g'.c.finished = true := by
  obtain ⟨hsh, hrel⟩ := hi
  unfold Rel at hrel
  rw [hq] at hrel
  generalize hla : s.lastAcked = la at hrel
  cases hc : g.c
  rw [hc] at hrel
  cases hrel with
  | idle la x b0 b1 a0 r0 rs0 a1 =>
    have hs' : g.sh.stopReq = true := by rw [hsh]; exact hs
    refine ⟨⟨g.sh, cStopped la x b0 b1 a0 r0 rs0 a1⟩, ?_, rfl, ?_⟩
    · simp only [G.step, hc]; rw [idle_stop]; simp [hs']
    · simp [Cfg.finished, runFrame]

/-- `ScheduleBadDataResponse` is one BLOCKING send of its argument into `badDataCh` (not a `select`
    with a `default:`) ... -/
theorem scheduleBad_is_blocking_send : scheduleBadDataResponseDecl.body.isBlockingSendOfParam = true := by decide

/-- ... so a call waits at the send, which proceeds exactly when the channel has room and then appends
    the range: the `schedBad` transition of the hand LTS (`needBad f t`, enabled iff
    `queue.length < badDataCap`). -/
theorem scheduleBad_effect (s : State) (bd : Range) :
    ∃ c, start prog scheduleBadDataResponseDecl [bd] [] s = (c, s) ∧
      (s.queue.length < badDataCap → rstep prog badDataChanCap c s .chanSend =
          some ({ c with top := { c.top with k := [] } }, { s with queue := s.queue ++ [bd] })) ∧
      (¬ s.queue.length < badDataCap → rstep prog badDataChanCap c s .chanSend = none) ∧
      ∀ ge, ge ≠ .chanSend → rstep prog badDataChanCap c s ge = none := by
  refine ⟨⟨⟨[], [bd], [], [.chanSendBad 0]⟩, [], [], false⟩,
    by simp [start, settle, fuel, sstep, mkFrame, scheduleBadDataResponseDecl], ?_, ?_, ?_⟩
  · intro h
    have h' : s.queue.length < 10 := h
    simp [rstep, settle, fuel, sstep, Cfg.withK, badDataChanCap, h']
  · intro h
    have h' : ¬ s.queue.length < 10 := h
    simp only [rstep, badDataChanCap]
    simp [h']
  · intro ge hge
    cases ge <;> simp_all [rstep]

/-- `ScheduleAck(id)` is the atomic store `nextAckID.Store(id)` and nothing else: the `schedAck`
    transition of the hand LTS. -/
theorem scheduleAck_effect (s : State) (t : Nat) :
    ∃ c, start prog scheduleAckDecl [] [t] s = (c, { s with nextAck := t }) ∧ c.finished = true := by
  refine ⟨⟨⟨[t], [], [], []⟩, [], [], false⟩, by simp [start, settle, fuel, sstep, mkFrame, scheduleAckDecl, Cfg.withK, NExpr.eval], ?_⟩
  simp [Cfg.finished]

/-- `Stop()` closes `stopCh` and nothing else. -/
theorem stop_effect (s : State) :
    ∃ c, start prog stopDecl [] [] s = (c, { s with stopReq := true }) ∧ c.finished = true := by
  refine ⟨⟨⟨[], [], [], []⟩, [], [], false⟩, by simp [start, settle, fuel, sstep, mkFrame, stopDecl, Cfg.withK], ?_⟩
  simp [Cfg.finished]

/-- the body of the `<-t.C` arm: the acknowledgement id is loaded BEFORE the inner select looks at the
    bad-data channel (position of the first `nextAckID.Load()` < position of the first `select`) -/
def tickArm : List Stmt := ((selArms runL).findTick.getD .skip).flatten

theorem tick_loads_before_drain :
    ∃ i j, i < j ∧ (tickArm.getD i .skip).isLoadAck = true ∧ (tickArm.getD j .skip).isSel = true ∧
      ∀ k, k < j → (tickArm.getD k .skip).isSel = false := by
  refine ⟨0, 1, by decide, by decide, by decide, ?_⟩
  intro k hk
  have : k = 0 := by omega
  subst this; decide

/-- a reachable configuration of Run has not panicked (no slice index / re-slice out of range) -/
theorem run_never_panics (gevs : List GEvent) (g : G) (h : G.run G.init gevs = some g) : g.c.panicked = false := by
  obtain ⟨_, s, _, _, hrel⟩ := grun_sound_init gevs g h
  unfold Rel at hrel
  generalize g.c = c at hrel ⊢
  generalize s.qpc = q at hrel
  generalize s.lastAcked = la at hrel
  cases hrel <;> rfl


/-! ### transfer of observations between a run of the regenerated receiver and the LTS run -/

/-- a Responder step of the regenerated receiver, spelled out on the LTS side -/
theorem gstep_resp {g g' : G} {s : State} {ge : GEv} (hi : Inv g s) (h : g.step (.resp ge) = some g') :
    ∃ e s1 s', lift s.qpc ge = some e ∧ step s e = some s1 ∧ norm s1 = some s' ∧ Inv g' s' := by
  obtain ⟨hsh, hrel⟩ := hi
  simp only [G.step] at h
  rw [hsh, rstep_ghost] at h
  have hsim := sim g.c s ge hrel
  cases hr : rstep prog badDataChanCap g.c s ge with
  | none => simp [hr] at h
  | some x =>
    obtain ⟨c', s2⟩ := x
    simp only [hr, Option.map] at h
    cases h
    cases hl : gstepL s ge with
    | none => simp [hr, hl, SimRes] at hsim
    | some s' =>
      simp only [hr, hl, SimRes] at hsim
      obtain ⟨h1, hrel'⟩ := hsim
      unfold gstepL at hl
      cases hlift : lift s.qpc ge with
      | none => simp [hlift] at hl
      | some e =>
        simp only [hlift] at hl
        cases hs : step s e with
        | none => simp [hs] at hl
        | some s1 =>
          simp only [hs, Option.bind] at hl
          refine ⟨e, s1, s', rfl, hs, hl, ?_, hrel'⟩
          show ghost g.sh.qpc g.sh.lastAcked s2 = _
          rw [h1]; rfl

/-- what the C16 statements observe: the records decoded, the batches, the responses sent -/
def ObsEq (a b : State) : Prop := a.decoded = b.decoded ∧ a.batches = b.batches ∧ a.resps = b.resps

theorem inv_obs {g : G} {s : State} (hi : Inv g s) : ObsEq g.sh s := by
  obtain ⟨hsh, _⟩ := hi
  rw [hsh]; exact ⟨rfl, rfl, rfl⟩

theorem inv_shared {g : G} {s : State} (hi : Inv g s) : ∃ q la, g.sh = ghost q la s := ⟨_, _, hi.1⟩

theorem norm_obs {s s' : State} (h : norm s = some s') : ObsEq s' s := by
  unfold norm at h
  split at h
  · have hs := step_sound h
    cases hs <;> exact ⟨rfl, rfl, rfl⟩
  · cases h; exact ⟨rfl, rfl, rfl⟩

theorem lift_sendOk {q : QPc} {e : Event} (h : lift q .sendOk = some e) : e = .sendOk := by
  cases q <;> simp [lift] at h <;> exact h.symm

theorem covered_obs {a b : State} (h : ObsEq a b) (k : Nat) : Covered a k ↔ Covered b k := by
  obtain ⟨h1, h2, h3⟩ := h
  simp only [Covered, reportedOk, h1, h2, h3]

/-- the ranges Run has received from the channel and not yet handed to SendDataResponse: the ranges of
    the bad-data response while sendBadDataResponse / composeBadDataResponse run -/
def inflightC (c : Cfg) : List Range :=
  match c.stack with
  | [] => []
  | _ :: _ => (c.objs.getD 0 ⟨0, []⟩).ranges

theorem rel_inflight {c : Cfg} {s : State} (h : Rel c s) : inflight s = inflightC c := by
  unfold Rel at h
  unfold inflight
  generalize s.qpc = q at h
  generalize s.lastAcked = la at h
  cases h <;> rfl

/-! ### the decoding loop of onStream -/

/-- what one iteration of the loop does according to the hand LTS: check `LastError`, convert one
    frame (`decoded` = RecordCount() before), hand it to the consumer, then `ScheduleAck(to)` /
    `ScheduleBadDataResponse{from+1, to}` / leave on a transient error -/
def handIter (d : Nat) (o : Oracle) : List LAct :=
  if o.lastErr then [.checkErr true, .exit]
  else .checkErr false ::
    match o.conv with
    | none => [.readFail, .exit]
    | some n => .decode n :: .consume o.out ::
      match o.out with
      | .accept => [.schedAck (d + n)]
      | .perm => [.schedBad (d + 1) (d + n)]
      | _ => [.exit]

/-- the regenerated loop body does exactly that, for every answer of LastError / Convert / consumer -/
theorem loopIter_eq (d : Nat) (o : Oracle) :
    loopIter onStreamLoopBody onStreamLoopLocals d o = handIter d o := by
  obtain ⟨le, cv, out⟩ := o
  cases le <;> cases cv <;> cases out <;>
    simp [loopIter, onStreamLoopBody, onStreamLoopLocals, handIter, lexec, LExpr.eval, List.replicate]

/-- the LTS event of an action (`exit` is part of the event before it) -/
def LAct.event : LAct → Option Event
  | .checkErr _ => some .checkErr
  | .decode n => some (.decode n)
  | .readFail => some .readFail
  | .consume o => some (.consume o)
  | .schedAck _ => some .schedAck
  | .schedBad _ _ => some .schedBad
  | .exit => none

/-- ... and these actions are a pass of the hand LTS through `top -> await -> decoded -> needAck /
    needBad -> top` (or to `exited`), with the SAME data: the acknowledged id, the reported range. -/
theorem iter_is_lts (s : State) (o : Oracle) (hr : s.rpc = .top) (hle : s.lastError = o.lastErr)
    (hn : ∀ n, o.conv = some n → n ≠ 0) (ho : o.out ≠ .pending) (hroom : s.queue.length < badDataCap) :
    ∃ s', run s ((handIter s.decoded o).filterMap LAct.event) = some s' ∧
      (s'.rpc = if LAct.exit ∈ handIter s.decoded o then .exited else .top) ∧
      (s'.stopReq = true ↔ (LAct.exit ∈ handIter s.decoded o ∨ s.stopReq = true)) ∧
      (∀ t, LAct.schedAck t ∈ handIter s.decoded o → s'.nextAck = t) ∧
      (∀ f t, LAct.schedBad f t ∈ handIter s.decoded o → s'.queue = s.queue ++ [(f, t)]) := by
  obtain ⟨le, cv, out⟩ := o
  simp only at hle hn ho
  cases le
  · cases cv with
    | none => simp [handIter, LAct.event, List.filterMap, run, step, hr, hle]
    | some n =>
      have hn' : n ≠ 0 := hn n rfl
      cases out
      · exact absurd rfl ho
      · simp [handIter, LAct.event, List.filterMap, run, step, hr, hle, hn']
      · simp [handIter, LAct.event, List.filterMap, run, step, hr, hle, hn', hroom]
      · simp [handIter, LAct.event, List.filterMap, run, step, hr, hle, hn']
  · simp [handIter, LAct.event, List.filterMap, run, step, hr, hle]

end Stef.Proofs.ResponderGen
