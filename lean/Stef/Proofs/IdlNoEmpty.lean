/-
  An accepted schema has no empty field type: `computeRecursive` visits every definition that
  `PruneUnused` keeps, and it panics on an empty type - so if `Parse` returned a schema, none of
  the kept definitions has one.
-/
import Stef.Proofs.IdlNoPanic

namespace Stef.Idl

/-- the reference of `b` is a primitive, or a struct/multimap that is visited (`V`) or on the
    stack (`S`). In particular `b` is not empty. -/
def RefIn (b : BaseType) (V S : List Name) : Prop :=
  b.prim.isSome = true ∨
  (b.struct ≠ [] ∧ (b.struct ∈ V ∨ b.struct ∈ S)) ∨
  (b.struct = [] ∧ b.multimap ≠ [] ∧ (b.multimap ∈ V ∨ b.multimap ∈ S))

theorem RefIn.nonempty {b : BaseType} {V S : List Name} (h : RefIn b V S) : b.isEmpty = false := by
  rcases h with h | ⟨h, _⟩ | ⟨_, h, _⟩
  · cases hp : b.prim with
    | none => simp [hp] at h
    | some p => simp [BaseType.isEmpty, hp]
  · cases hs : b.struct with
    | nil => exact absurd hs h
    | cons c r => simp [BaseType.isEmpty, hs]
  · cases hs : b.multimap with
    | nil => exact absurd hs h
    | cons c r => simp [BaseType.isEmpty, hs]

theorem RefIn.mono {b : BaseType} {V S V' S' : List Name} (h : RefIn b V S)
    (hsub : ∀ x, x ∈ V ∨ x ∈ S → x ∈ V' ∨ x ∈ S') : RefIn b V' S' := by
  rcases h with h | ⟨h1, h2⟩ | ⟨h1, h2, h3⟩
  · exact Or.inl h
  · exact Or.inr (Or.inl ⟨h1, hsub _ h2⟩)
  · exact Or.inr (Or.inr ⟨h1, h2, hsub _ h3⟩)

/-- all references of the definition(s) named `n` are visited or on the stack. -/
def NodeOk (σ : Schema) (n : Name) (V S : List Name) : Prop :=
  (∀ s, σ.findStruct n = some s → ∀ ty ∈ s.types, RefIn ty.inner V S) ∧
  (∀ m, σ.findMultimap n = some m → ∀ ty ∈ m.types, RefIn ty.inner V S)

theorem NodeOk.mono {σ : Schema} {n : Name} {V S V' S' : List Name} (h : NodeOk σ n V S)
    (hsub : ∀ x, x ∈ V ∨ x ∈ S → x ∈ V' ∨ x ∈ S') : NodeOk σ n V' S' :=
  ⟨fun s hs ty hty => (h.1 s hs ty hty).mono hsub, fun m hm ty hty => (h.2 m hm ty hty).mono hsub⟩

theorem sub_l {V W S : List Name} : ∀ x, x ∈ V ∨ x ∈ S → x ∈ V ++ W ∨ x ∈ S := by
  intro x hx
  rcases hx with h | h
  · exact Or.inl (List.mem_append_left _ h)
  · exact Or.inr h

theorem sub_r {V W S : List Name} : ∀ x, x ∈ W ∨ x ∈ S → x ∈ V ++ W ∨ x ∈ S := by
  intro x hx
  rcases hx with h | h
  · exact Or.inl (List.mem_append_right _ h)
  · exact Or.inr h

def CrV (σ : Schema) (rec : BaseType → RSt → Except PanicSite RSt) : Prop :=
  ∀ (b : BaseType) (st st' : RSt), rec b st = .ok st' →
    st'.asStack = st.asStack ∧
    ∃ V, RefIn b V st.asStack ∧ ∀ n ∈ V, NodeOk σ n V st.asStack

theorem crFields_V {σ : Schema} {rec : BaseType → RSt → Except PanicSite RSt} (hrec : CrV σ rec)
    (isMM : Bool) (owner : Name) :
    ∀ (tys : List FType) (i : Nat) (st st' : RSt), crFields rec isMM owner tys i st = .ok st' →
      st'.asStack = st.asStack ∧
      ∃ V, (∀ ty ∈ tys, RefIn ty.inner V st.asStack) ∧ ∀ n ∈ V, NodeOk σ n V st.asStack
  | [], i, st, st', h => by
    simp [crFields] at h; subst h
    exact ⟨rfl, [], by simp, by simp⟩
  | ty :: rest, i, st, st', h => by
    unfold crFields at h
    split at h
    · cases h
    · rename_i st2 h2
      obtain ⟨a1, V1, a2, a3⟩ := hrec _ _ _ h2
      simp only at a1 a2 a3
      obtain ⟨b1, V2, b2, b3⟩ := crFields_V hrec isMM owner rest (i + 1) _ st' h
      simp only at b1 b2 b3
      rw [a1] at b2 b3
      refine ⟨by rw [b1, a1], V1 ++ V2, ?_, ?_⟩
      · intro x hx
        simp only [List.mem_cons] at hx
        rcases hx with rfl | hx
        · exact a2.mono sub_l
        · exact (b2 x hx).mono sub_r
      · intro n hn
        simp only [List.mem_append] at hn
        rcases hn with hn | hn
        · exact (a3 n hn).mono sub_l
        · exact (b3 n hn).mono sub_r

theorem crEnter_V {σ : Schema} {rec : BaseType → RSt → Except PanicSite RSt} (hrec : CrV σ rec)
    (isMM : Bool) (name : Name) (tys : List FType) (st st' : RSt)
    (h : crEnter rec isMM name tys st = .ok st') :
    st'.asStack = st.asStack ∧
    ∃ V, (∀ ty ∈ tys, RefIn ty.inner V (st.asStack ++ [name])) ∧
      ∀ n ∈ V, NodeOk σ n V (st.asStack ++ [name]) := by
  unfold crEnter at h
  split at h
  · cases h
  · rename_i st2 h2
    cases h
    obtain ⟨a1, V, a2, a3⟩ := crFields_V hrec isMM name tys 0 _ _ h2
    simp only at a1 a2 a3
    exact ⟨by simp [a1], V, a2, a3⟩

theorem markRecursive_stack {n : Name} {st st' : RSt} (h : markRecursive n st = .ok st') :
    st'.asStack = st.asStack := by
  unfold markRecursive at h
  split at h
  · cases h
  · split at h
    · cases h
    · cases h; rfl

/-- a name is not both a struct and a multimap. -/
def Disjoint (σ : Schema) : Prop :=
  ∀ n s m, σ.findStruct n = some s → σ.findMultimap n = some m → False

/-- closing a freshly visited definition: `name` joins the visited set. -/
theorem close_node {σ : Schema} {name : Name} {V S : List Name} {tys : List FType}
    (hty : ∀ ty ∈ tys, RefIn ty.inner V (S ++ [name]))
    (hV : ∀ n ∈ V, NodeOk σ n V (S ++ [name]))
    (hname : NodeOk σ name V (S ++ [name])) :
    ∀ n ∈ name :: V, NodeOk σ n (name :: V) S := by
  have hsub : ∀ x, x ∈ V ∨ x ∈ S ++ [name] → x ∈ name :: V ∨ x ∈ S := by
    intro x hx
    simp only [List.mem_append, List.mem_cons, List.mem_nil_iff, or_false] at hx ⊢
    rcases hx with h | h | h
    · exact Or.inl (Or.inr h)
    · exact Or.inr h
    · exact Or.inl (Or.inl h)
  intro n hn
  simp only [List.mem_cons] at hn
  rcases hn with rfl | hn
  · exact hname.mono hsub
  · exact (hV n hn).mono hsub

theorem crType_V {σ : Schema} (hd : Disjoint σ) : ∀ fuel, CrV σ (crType σ fuel)
  | 0 => by intro b st st' h; simp [crType] at h
  | fuel + 1 => by
    intro b st st' h
    have ih := crType_V hd fuel
    unfold crType at h
    split at h
    · rename_i hp
      cases h
      exact ⟨rfl, [], Or.inl hp, by simp⟩
    · split at h
      · rename_i hs
        split at h
        · rename_i hc
          refine ⟨markRecursive_stack h, [], Or.inr (Or.inl ⟨hs, Or.inr (by simpa using hc)⟩), by simp⟩
        · split at h
          · cases h
          · rename_i s hf
            have hsm := findStruct_spec hf
            obtain ⟨a1, V, a2, a3⟩ := crEnter_V ih false s.name s.types st st' h
            rw [hsm.2] at a2 a3
            have hname : NodeOk σ b.struct V (st.asStack ++ [b.struct]) := by
              refine ⟨?_, fun m hm => absurd hm (fun hm => hd _ _ _ hf hm)⟩
              intro s' hs'
              rw [hf] at hs'; cases hs'
              exact a2
            refine ⟨a1, b.struct :: V, Or.inr (Or.inl ⟨hs, Or.inl (by simp)⟩), ?_⟩
            exact close_node a2 a3 hname
      · rename_i hs
        simp only [ne_eq, Decidable.not_not] at hs
        split at h
        · rename_i hm
          split at h
          · rename_i hc
            refine ⟨markRecursive_stack h, [],
              Or.inr (Or.inr ⟨hs, hm, Or.inr (by simpa using hc)⟩), by simp⟩
          · split at h
            · cases h
            · rename_i m hf
              have hsm := findMultimap_spec hf
              obtain ⟨a1, V, a2, a3⟩ := crEnter_V ih true m.name m.types st st' h
              rw [hsm.2] at a2 a3
              have hname : NodeOk σ b.multimap V (st.asStack ++ [b.multimap]) := by
                refine ⟨fun s' hs' => absurd hf (fun hf => hd _ _ _ hs' hf), ?_⟩
                intro m' hm'
                rw [hf] at hm'; cases hm'
                exact a2
              refine ⟨a1, b.multimap :: V, Or.inr (Or.inr ⟨hs, hm, Or.inl (by simp)⟩), ?_⟩
              exact close_node a2 a3 hname
        · cases h

/-- a set of names closed under references (nothing left on a stack). -/
def ClosedV (σ : Schema) (V : List Name) : Prop := ∀ n ∈ V, NodeOk σ n V []

theorem ClosedV.append {σ : Schema} {V W : List Name} (h1 : ClosedV σ V) (h2 : ClosedV σ W) :
    ClosedV σ (V ++ W) := by
  intro n hn
  simp only [List.mem_append] at hn
  rcases hn with hn | hn
  · exact (h1 n hn).mono sub_l
  · exact (h2 n hn).mono sub_r

theorem crRoots_V {σ : Schema} (hd : Disjoint σ) (hn : (σ.structs.map (·.name)).Nodup) :
    ∀ (ss : List Struct) (m m' : Marks), (∀ s ∈ ss, s ∈ σ.structs) → crRoots σ ss m = .ok m' →
      ∃ V, (∀ s ∈ ss, s.isRoot = true → s.name ∈ V) ∧ ClosedV σ V
  | [], m, m', _, _ => ⟨[], by simp, by intro n hn; simp at hn⟩
  | s :: ss, m, m', hmem, h => by
    unfold crRoots at h
    split at h
    · rename_i hroot
      split at h
      · cases h
      · rename_i st2 h2
        obtain ⟨_, V, a2, a3⟩ := crEnter_V (crType_V hd _) false s.name s.types _ _ h2
        simp only [List.nil_append] at a2 a3
        have hfind : σ.findStruct s.name = some s := find?_of_nodup_struct _ s hn (hmem s (by simp))
        have hname : NodeOk σ s.name V ([] ++ [s.name]) := by
          refine ⟨?_, fun m' hm' => absurd hm' (fun hm' => hd _ _ _ hfind hm')⟩
          intro s' hs'
          rw [hfind] at hs'; cases hs'
          simpa using a2
        have hcl : ClosedV σ (s.name :: V) :=
          close_node (S := []) (by simpa using a2) (by simpa using a3) hname
        obtain ⟨W, b1, b2⟩ := crRoots_V hd hn ss _ m' (fun x hx => hmem x (by simp [hx])) h
        refine ⟨(s.name :: V) ++ W, ?_, hcl.append b2⟩
        intro x hx hxr
        simp only [List.mem_cons] at hx
        rcases hx with rfl | hx
        · simp
        · simp only [List.mem_append]; exact Or.inr (b1 x hx hxr)
    · rename_i hroot
      obtain ⟨W, b1, b2⟩ := crRoots_V hd hn ss _ m' (fun x hx => hmem x (by simp [hx])) h
      refine ⟨W, ?_, b2⟩
      intro x hx hxr
      simp only [List.mem_cons] at hx
      rcases hx with rfl | hx
      · exact absurd hxr hroot
      · exact b1 x hx hxr


/-! ### the marked schema has the same lookups up to the marks -/

theorem findStruct_applyMarks (σ : Schema) (m : Marks) (n : Name) :
    (applyMarks σ m).findStruct n = (σ.findStruct n).map (markStruct m) := by
  rw [applyMarks_eq]
  simp only [Schema.findStruct, List.find?_map]
  congr 1

theorem findMultimap_applyMarks (σ : Schema) (m : Marks) (n : Name) :
    (applyMarks σ m).findMultimap n = (σ.findMultimap n).map (markMultimap m) := by
  rw [applyMarks_eq]
  simp only [Schema.findMultimap, List.find?_map]
  congr 1
  first
    | done
    | (funext mm; simp [Function.comp, (markMultimap_spec m mm).1])

theorem ClosedV.applyMarks {σ : Schema} {V : List Name} (h : ClosedV σ V) (m : Marks) :
    ClosedV (applyMarks σ m) V := by
  intro n hn
  have hno := h n hn
  refine ⟨?_, ?_⟩
  · intro s2 hs2 ty2 hty2
    rw [findStruct_applyMarks] at hs2
    cases hf : σ.findStruct n with
    | none => simp [hf] at hs2
    | some s1 =>
      simp only [hf, Option.map_some, Option.some.injEq] at hs2
      subst hs2
      obtain ⟨ty1, h1, h2⟩ := mem_of_map_inner_eq (markStruct_spec m s1).2.2.2.2.2.1 hty2
      rw [← h2]
      exact hno.1 s1 hf ty1 h1
  · intro m2 hm2 ty2 hty2
    rw [findMultimap_applyMarks] at hm2
    cases hf : σ.findMultimap n with
    | none => simp [hf] at hm2
    | some m1 =>
      simp only [hf, Option.map_some, Option.some.injEq] at hm2
      subst hm2
      obtain ⟨ty1, h1, h2⟩ := mem_of_map_inner_eq (markMultimap_spec m m1).2 hty2
      rw [← h2]
      exact hno.2 m1 hf ty1 h1

/-! ### PruneUnused marks only visited definitions -/

def ShapeOk (b : BaseType) : Prop := b.prim.isSome = true → b.struct = [] ∧ b.multimap = []

theorem res3_shape {σ : Schema} {b : BaseType} (h : b.Res3 σ) : ShapeOk b := by
  intro hp
  refine ⟨?_, ?_⟩
  · apply Classical.byContradiction
    intro hs
    have := (h.1 hs).2.2.1
    simp [this] at hp
  · apply Classical.byContradiction
    intro hm
    have := (h.2.1 hm).2.2.1
    simp [this] at hp

def MrSub (V : List Name) (rec : BaseType → Reach → Option Reach) : Prop :=
  ∀ (b : BaseType) (r r' : Reach), rec b r = some r' → ShapeOk b → RefIn b V [] →
    r.structs ⊆ V → r.multimaps ⊆ V → r'.structs ⊆ V ∧ r'.multimaps ⊆ V

theorem mrFields_sub {V : List Name} {rec : BaseType → Reach → Option Reach} (hrec : MrSub V rec) :
    ∀ (tys : List FType) (r r' : Reach), mrFields rec tys r = some r' →
      (∀ ty ∈ tys, ShapeOk ty.inner ∧ RefIn ty.inner V []) →
      r.structs ⊆ V → r.multimaps ⊆ V → r'.structs ⊆ V ∧ r'.multimaps ⊆ V
  | [], r, r', h, _, h1, h2 => by simp [mrFields] at h; subst h; exact ⟨h1, h2⟩
  | ty :: rest, r, r', h, hty, h1, h2 => by
    unfold mrFields at h
    split at h
    · cases h
    · rename_i r1 hr1
      obtain ⟨a1, a2⟩ := hrec _ _ _ hr1 (hty ty (by simp)).1 (hty ty (by simp)).2 h1 h2
      exact mrFields_sub hrec rest r1 r' h (fun x hx => hty x (by simp [hx])) a1 a2

theorem mrBase_sub {σ : Schema} {V : List Name} (hcl : ClosedV σ V)
    (hall : ∀ ty ∈ σ.allTypes, ShapeOk ty.inner) : ∀ fuel, MrSub V (mrBase σ fuel)
  | 0 => by intro b r r' h; simp [mrBase] at h
  | fuel + 1 => by
    intro b r r' h hshape href h1 h2
    have ih := mrBase_sub hcl hall fuel
    unfold mrBase at h
    split at h
    · rename_i hs
      split at h
      · cases h; exact ⟨h1, h2⟩
      · split at h
        · cases h; exact ⟨h1, h2⟩
        · rename_i s hf
          have hsm := findStruct_spec hf
          have hin : b.struct ∈ V := by
            rcases href with hp | ⟨_, hv | hv⟩ | ⟨hs', _⟩
            · exact absurd (hshape hp).1 hs
            · exact hv
            · simp at hv
            · exact absurd hs' hs
          have hno := (hcl b.struct hin).1 s hf
          refine mrFields_sub ih s.types _ r' h ?_ ?_ h2
          · intro ty hty
            exact ⟨hall ty (mem_allTypes.2 (Or.inl ⟨s, hsm.1, hty⟩)), hno ty hty⟩
          · intro x hx
            simp only [List.mem_cons] at hx
            rcases hx with rfl | hx
            · exact hin
            · exact h1 hx
    · rename_i hs
      simp only [ne_eq, Decidable.not_not] at hs
      split at h
      · rename_i hm
        split at h
        · cases h; exact ⟨h1, h2⟩
        · split at h
          · cases h; exact ⟨h1, h2⟩
          · rename_i m hf
            have hsm := findMultimap_spec hf
            have hin : b.multimap ∈ V := by
              rcases href with hp | ⟨hs', _⟩ | ⟨_, _, hv | hv⟩
              · exact absurd (hshape hp).2 hm
              · exact absurd hs hs'
              · exact hv
              · simp at hv
            have hno := (hcl b.multimap hin).2 m hf
            refine mrFields_sub ih m.types _ r' h ?_ h1 ?_
            · intro ty hty
              exact ⟨hall ty (mem_allTypes.2 (Or.inr ⟨m, hsm.1, hty⟩)), hno ty hty⟩
            · intro x hx
              simp only [List.mem_cons] at hx
              rcases hx with rfl | hx
              · exact hin
              · exact h2 hx
      · split at h
        · cases h; exact ⟨h1, h2⟩
        · cases h; exact ⟨h1, h2⟩

theorem mrRoots_sub {σ : Schema} {V : List Name} (hcl : ClosedV σ V)
    (hall : ∀ ty ∈ σ.allTypes, ShapeOk ty.inner) :
    ∀ (ss : List Struct) (r r' : Reach), mrRoots σ ss r = some r' →
      (∀ s ∈ ss, s.isRoot = true → s.name ∈ V) →
      r.structs ⊆ V → r.multimaps ⊆ V → r'.structs ⊆ V ∧ r'.multimaps ⊆ V
  | [], r, r', h, _, h1, h2 => by simp [mrRoots] at h; subst h; exact ⟨h1, h2⟩
  | s :: ss, r, r', h, hroots, h1, h2 => by
    unfold mrRoots at h
    split at h
    · rename_i hroot
      split at h
      · cases h
      · rename_i r1 hr1
        have hstep : r1.structs ⊆ V ∧ r1.multimaps ⊆ V := by
          by_cases hn : s.name = []
          · unfold mrBase at hr1
            simp [hn] at hr1
            subst hr1
            exact ⟨h1, h2⟩
          · exact mrBase_sub hcl hall _ _ _ _ hr1 (by intro hp; simp at hp)
              (Or.inr (Or.inl ⟨hn, Or.inl (hroots s (by simp) hroot)⟩)) h1 h2
        exact mrRoots_sub hcl hall ss r1 r' h (fun x hx => hroots x (by simp [hx])) hstep.1 hstep.2
    · exact mrRoots_sub hcl hall ss r r' h (fun x hx => hroots x (by simp [hx])) h1 h2

theorem structs_names_nodup {σ : Schema} (h : σ.topNames.Nodup) :
    (σ.structs.map (·.name)).Nodup ∧ (σ.multimaps.map (·.name)).Nodup := by
  simp only [Schema.topNames, List.nodup_append] at h
  exact ⟨h.1.1, h.1.2.1⟩

theorem disjoint_of_top {σ : Schema} (h : σ.topNames.Nodup) : Disjoint σ := by
  intro n s m hs hm
  have h1 := findStruct_spec hs
  have h2 := findMultimap_spec hm
  simp only [Schema.topNames, List.nodup_append] at h
  have := h.1.2.2 n (by simp only [List.mem_map]; exact ⟨s, h1.1, h1.2⟩) n
    (by simp only [List.mem_map]; exact ⟨m, h2.1, h2.2⟩)
  exact this rfl

/-- an accepted schema has no empty field type. -/
theorem parseTokens_noEmpty {ts : List Token} {σ : Schema} (h : parseTokens ts = .ok σ) :
    σ.NoEmptyType := by
  unfold parseTokens at h
  split at h
  · cases h
  · rename_i σ0 ts0 hg
    split at h
    · cases h
    · rename_i σ1 hres
      split at h
      · cases h
      · rename_i σ2 hcr
        split at h
        · cases h
        · rename_i σ3 hp
          cases h
          have hi1 := resolveRefs_inv (grammar_inv hg) hres
          have hi2 := computeRecursive_inv hi1 hcr
          obtain ⟨hsn1, _⟩ := structs_names_nodup hi1.top
          unfold computeRecursive at hcr
          split at hcr
          · cases hcr
          · rename_i m hm
            cases hcr
            obtain ⟨V, hroots, hcl1⟩ := crRoots_V (disjoint_of_top hi1.top) hsn1 σ1.structs {} m
              (fun _ h => h) hm
            have hcl2 := hcl1.applyMarks m
            obtain ⟨hsn2, hmn2⟩ := structs_names_nodup hi2.top
            unfold pruneUnused at hp
            split at hp
            · cases hp
            · rename_i r hr
              cases hp
              have hall : ∀ ty ∈ (applyMarks σ1 m).allTypes, ShapeOk ty.inner :=
                fun ty hty => res3_shape (hi2.res ty hty)
              have hroots2 : ∀ s ∈ (applyMarks σ1 m).structs, s.isRoot = true → s.name ∈ V := by
                intro s2 hs2 hr2
                rw [applyMarks_eq] at hs2
                simp only [List.mem_map] at hs2
                obtain ⟨s1, hs1, rfl⟩ := hs2
                exact hroots s1 hs1 hr2
              obtain ⟨hsub1, hsub2⟩ := mrRoots_sub hcl2 hall _ {} r hr hroots2 (by simp) (by simp)
              intro ty hty
              rw [mem_allTypes] at hty
              rcases hty with ⟨s, hs, hty⟩ | ⟨mm, hmm, hty⟩
              · simp only [List.mem_filter, List.contains_iff_mem] at hs
                have hf := find?_of_nodup_struct _ s hsn2 hs.1
                exact ((hcl2 s.name (hsub1 hs.2)).1 s hf ty hty).nonempty
              · simp only [List.mem_filter, List.contains_iff_mem] at hmm
                have hf := find?_of_nodup_multimap _ mm hmn2 hmm.1
                exact ((hcl2 mm.name (hsub2 hmm.2)).2 mm hf ty hty).nonempty

end Stef.Idl
