/-
  The sorted trees of the sorting OTLP -> STEF converter (sortedbymetric): what a tree holds after
  `treeAdd` (a permutation of everything added, when the keys are 64-bit typed so that the generated
  comparison functions decide equality), and what `SortedTree.ToStef` writes (every tree entry
  once, in tree order, leaf points by timestamp).
-/
import Stef.Proofs.OtlpSorted
import Stef.Proofs.OtlpCmp

namespace Stef.Otlp

/-! ### Get-then-Set on an association list kept in comparator order -/

section upsert
variable {K V β : Type}

/-- every (key, item) pair of an association list whose values hold items -/
def flatKV (items : V → List β) (t : List (K × V)) : List (K × β) :=
  (t.map fun e => (items e.2).map fun i => (e.1, i)).flatten

/-- a property of every key and of every value (which may depend on the value's key) -/
def AllKV (P : K → Prop) (Q : K → V → Prop) (t : List (K × V)) : Prop := ∀ e ∈ t, P e.1 ∧ Q e.1 e.2

theorem flatKV_cons (items : V → List β) (k : K) (v : V) (t : List (K × V)) :
    flatKV items ((k, v) :: t) = (items v).map (fun i => (k, i)) ++ flatKV items t := by
  simp [flatKV]

theorem flatKV_nil (items : V → List β) : flatKV items ([] : List (K × V)) = [] := rfl

theorem AllKV_cons {P : K → Prop} {Q : K → V → Prop} {k : K} {v : V} {t : List (K × V)} :
    AllKV P Q ((k, v) :: t) ↔ (P k ∧ Q k v) ∧ AllKV P Q t := by
  simp [AllKV]

theorem AllKV_nil {P : K → Prop} {Q : K → V → Prop} : AllKV P Q ([] : List (K × V)) := by simp [AllKV]

/-- when the comparator decides equality on the keys in use, an upsert that adds item `b` under
    key `k` gives a tree holding `(k, b)` on top of what it held -/
theorem treeUpsert_flat (cmp : K → K → Int) (k : K) (new : Unit → V) (upd : V → V) (items : V → List β) (b : β)
    (P : K → Prop) (Q : K → V → Prop)
    (hfaith : ∀ a c, P a → P c → cmp a c = 0 → a = c)
    (hk : P k) (hnewQ : Q k (new ())) (hnewI : items (new ()) = [])
    (hupd : ∀ v, Q k v → Q k (upd v) ∧ (items (upd v)).Perm (b :: items v)) :
    ∀ t : List (K × V), AllKV P Q t →
      AllKV P Q (treeUpsert cmp k new upd t) ∧ (flatKV items (treeUpsert cmp k new upd t)).Perm ((k, b) :: flatKV items t)
  | [], _ => by
    have h := hupd (new ()) hnewQ
    rw [hnewI] at h
    refine ⟨by simp [treeUpsert, AllKV, hk, h.1], ?_⟩
    simp only [treeUpsert, flatKV_cons, flatKV_nil, List.append_nil]
    exact h.2.map _
  | (k', v') :: t, hall => by
    have hall' := AllKV_cons.mp hall
    simp only [treeUpsert]
    split
    · rename_i hc
      have hc : cmp k k' = 0 := by simpa using hc
      have hkk : k = k' := hfaith k k' hk hall'.1.1 hc
      subst hkk
      have h := hupd v' hall'.1.2
      refine ⟨AllKV_cons.mpr ⟨⟨hall'.1.1, h.1⟩, hall'.2⟩, ?_⟩
      simp only [flatKV_cons]
      have := (h.2.map fun i => (k, i))
      simp only [List.map_cons] at this
      exact (this.append_right _)
    · split
      · have h := hupd (new ()) hnewQ
        rw [hnewI] at h
        refine ⟨AllKV_cons.mpr ⟨⟨hk, h.1⟩, hall⟩, ?_⟩
        rw [flatKV_cons]
        have := (h.2.map fun i => (k, i))
        simp only [List.map_cons, List.map_nil] at this
        exact (this.append_right _)
      · have ih := treeUpsert_flat cmp k new upd items b P Q hfaith hk hnewQ hnewI hupd t hall'.2
        refine ⟨AllKV_cons.mpr ⟨hall'.1, ih.1⟩, ?_⟩
        rw [flatKV_cons, flatKV_cons]
        exact (ih.2.append_left _).trans List.perm_middle

theorem flatKV_perm_items (items items' : V → List β) (h : ∀ v, (items v).Perm (items' v)) :
    ∀ t : List (K × V), (flatKV items t).Perm (flatKV items' t)
  | [] => List.Perm.refl _
  | (k, v) :: t => by
    rw [flatKV_cons, flatKV_cons]
    exact ((h v).map _).append (flatKV_perm_items items items' h t)

end upsert

/-! ### the generated comparison functions decide equality on 64-bit typed keys -/

def MetricKey.b64 (k : MetricKey) : Prop := k.mdata.b64 = true ∧ ∀ x ∈ k.bounds, x < two64
def ResKey.b64 (k : ResKey) : Prop := k.attrs.b64 = true
def ScopeKey.b64 (k : ScopeKey) : Prop := k.attrs.b64 = true

theorem cmpMetric_eq (a b : MetricKey) (ha : a.b64) (hb : b.b64) (h : cmpMetric a b = 0) : a = b := by
  unfold cmpMetric at h
  have h1 := firstNonZero_eq_zero h
  have h2 := firstNonZero_eq_zero h1.2
  have h3 := firstNonZero_eq_zero h2.2
  have h4 := firstNonZero_eq_zero h3.2
  have h5 := firstNonZero_eq_zero h4.2
  have h6 := firstNonZero_eq_zero h5.2
  have h7 := firstNonZero_eq_zero h6.2
  cases a; cases b
  simp only [MetricKey.mk.injEq]
  exact ⟨strCompare_eq _ _ h1.1, strCompare_eq _ _ h2.1, strCompare_eq _ _ h3.1, natCompare_eq h4.1,
    cmpKVs_eq _ _ ha.1 hb.1 h5.1, cmpFloatArray_eq _ _ ha.2 hb.2 h6.1, natCompare_eq h7.1, boolCompare_eq h7.2⟩

theorem cmpResource_eq (a b : ResKey) (ha : a.b64) (hb : b.b64) (h : cmpResource a b = 0) : a = b := by
  unfold cmpResource at h
  have h1 := firstNonZero_eq_zero h
  have h2 := firstNonZero_eq_zero h1.2
  cases a; cases b
  simp only [ResKey.mk.injEq]
  exact ⟨strCompare_eq _ _ h1.1, cmpKVs_eq _ _ ha hb h2.1, natCompare_eq h2.2⟩

theorem cmpScope_eq (a b : ScopeKey) (ha : a.b64) (hb : b.b64) (h : cmpScope a b = 0) : a = b := by
  unfold cmpScope at h
  have h1 := firstNonZero_eq_zero h
  have h2 := firstNonZero_eq_zero h1.2
  have h3 := firstNonZero_eq_zero h2.2
  have h4 := firstNonZero_eq_zero h3.2
  cases a; cases b
  simp only [ScopeKey.mk.injEq]
  exact ⟨strCompare_eq _ _ h1.1, strCompare_eq _ _ h2.1, strCompare_eq _ _ h3.1, cmpKVs_eq _ _ ha hb h4.1,
    natCompare_eq h4.2⟩

/-! ### the tree as a list of entries -/

/-- one point of the tree with the keys it is filed under -/
abbrev Entry := MetricKey × ResKey × ScopeKey × KVs × SPoint

def flatLeaves (al : AttrLeaves) : List (KVs × SPoint) := flatKV id al
def flatScopes (sl : ScopeLevel) : List (ScopeKey × KVs × SPoint) := flatKV flatLeaves sl
def flatRes (rl : ResLevel) : List (ResKey × ScopeKey × KVs × SPoint) := flatKV flatScopes rl
/-- every entry of the tree, in tree order, leaf points in insertion order -/
def flatTree (t : MetricTree) : List Entry := flatKV flatRes t

def leavesOK (al : AttrLeaves) : Prop := AllKV (fun k : KVs => k.b64 = true) (fun _ _ => True) al
def scopesOK (sl : ScopeLevel) : Prop := AllKV ScopeKey.b64 (fun _ => leavesOK) sl
def resOK (rl : ResLevel) : Prop := AllKV ResKey.b64 (fun _ => scopesOK) rl
/-- every key of the tree is 64-bit typed -/
def TreeOK (t : MetricTree) : Prop := AllKV MetricKey.b64 (fun _ => resOK) t

theorem treeAdd_flat (mk : MetricKey) (rk : ResKey) (sk : ScopeKey) (ak : KVs) (p : SPoint) (t : MetricTree)
    (hmk : mk.b64) (hrk : rk.b64) (hsk : sk.b64) (hak : ak.b64 = true) (ht : TreeOK t) :
    TreeOK (treeAdd mk rk sk ak p t) ∧ (flatTree (treeAdd mk rk sk ak p t)).Perm ((mk, rk, sk, ak, p) :: flatTree t) := by
  unfold treeAdd TreeOK flatTree
  refine treeUpsert_flat cmpMetric mk (fun _ => []) _ flatRes (rk, sk, ak, p) MetricKey.b64 (fun _ => resOK) cmpMetric_eq hmk AllKV_nil rfl ?_ t ht
  intro rl hrl
  refine treeUpsert_flat cmpResource rk (fun _ => []) _ flatScopes (sk, ak, p) ResKey.b64 (fun _ => scopesOK) cmpResource_eq hrk AllKV_nil rfl ?_ rl hrl
  intro sl hsl
  refine treeUpsert_flat cmpScope sk (fun _ => []) _ flatLeaves (ak, p) ScopeKey.b64 (fun _ => leavesOK) cmpScope_eq hsk AllKV_nil rfl ?_ sl hsl
  intro al hal
  refine treeUpsert_flat cmpKVs ak (fun _ => []) _ id p (fun k : KVs => k.b64 = true) (fun _ _ => True)
    (fun a c ha hc h => cmpKVs_eq a c ha hc h) hak trivial rfl ?_ al hal
  intro pts _
  exact ⟨trivial, by simpa using List.perm_append_comm⟩

/-! ### leaf points are written in timestamp order -/

theorem insertByTs_perm (p : SPoint) : ∀ l : List SPoint, (insertByTs p l).Perm (p :: l)
  | [] => List.Perm.refl _
  | q :: t => by
    simp only [insertByTs]
    split
    · exact List.Perm.refl _
    · exact ((insertByTs_perm p t).cons q).trans (List.Perm.swap p q t)

theorem sortByTs_perm (l : List SPoint) : (sortByTs l).Perm l := by
  unfold sortByTs
  suffices h : ∀ (l acc : List SPoint), (l.foldl (fun acc p => insertByTs p acc) acc).Perm (l ++ acc) by
    simpa using h l []
  intro l
  induction l with
  | nil => intro acc; exact List.Perm.refl _
  | cons p t ih =>
    intro acc
    simp only [List.foldl_cons, List.cons_append]
    exact (ih _).trans (((insertByTs_perm p acc).append_left t).trans List.perm_middle)

/-- every entry of the tree in the order `ToStef` writes them -/
def emitOrder (t : MetricTree) : List Entry := flatKV (flatKV (flatKV (flatKV sortByTs))) t

theorem emitOrder_perm (t : MetricTree) : (emitOrder t).Perm (flatTree t) := by
  unfold emitOrder flatTree flatRes flatScopes flatLeaves
  apply flatKV_perm_items; intro rl
  apply flatKV_perm_items; intro sl
  apply flatKV_perm_items; intro al
  apply flatKV_perm_items; intro pts
  exact sortByTs_perm pts

/-! ### SortedTree.ToStef -/

/-- the record written for an entry: metric, resource and scope are the tree's structs, the
    attributes and the point are copied into whatever the record held (`oa`, `op`) -/
def recOf (e : Entry) (oa : SAttrs) (op : SPoint) : SRecord :=
  { metric := e.1.toS, resource := e.2.1.toS, scope := e.2.2.1.toS,
    attrs := SAttrs.copyFrom e.2.2.2.1 oa, point := copyPointInto e.2.2.2.2 op }

/-- what a reader makes of the record of an entry written into a fresh record -/
def entryPoint (e : Entry) : Except String DataPoint := pointOfRecord (recOf e {} {})

/-- an observation `F` of the record written for the entry does not depend on what the re-used
    record held before: it is `G` of the entry -/
def StableFG {γ : Type} (F : SRecord → γ) (G : Entry → γ) (e : Entry) : Prop := ∀ oa op, F (recOf e oa op) = G e

/-- the reading of the record does not depend on what the re-used record held before -/
def Stable (e : Entry) : Prop := StableFG pointOfRecord entryPoint e

theorem emitPoints_spec {γ : Type} (F : SRecord → γ) (G : Entry → γ) (mk : MetricKey) (rk : ResKey) (sk : ScopeKey) (ak : KVs) (oa : SAttrs) :
    ∀ (ps : List SPoint) (st : WState),
      st.cur.metric = mk.toS → st.cur.resource = rk.toS → st.cur.scope = sk.toS → st.cur.attrs = SAttrs.copyFrom ak oa →
      (∀ p ∈ ps, StableFG F G (mk, rk, sk, ak, p)) →
      (emitPoints ps st).cur.metric = mk.toS ∧ (emitPoints ps st).cur.resource = rk.toS ∧
      (emitPoints ps st).cur.scope = sk.toS ∧
      (emitPoints ps st).out.map F
        = (ps.map fun p => G (mk, rk, sk, ak, p)).reverse ++ st.out.map F
  | [], st, h1, h2, h3, _, _ => ⟨h1, h2, h3, by simp [emitPoints]⟩
  | p :: ps, st, h1, h2, h3, h4, hst => by
    simp only [emitPoints]
    have hrec : ({ st.cur with point := copyPointInto p st.cur.point } : SRecord) = recOf (mk, rk, sk, ak, p) oa st.cur.point := by
      cases hc : st.cur
      rw [hc] at h1 h2 h3 h4
      simp only at h1 h2 h3 h4
      simp [recOf, h1, h2, h3, h4]
    have ih := emitPoints_spec F G mk rk sk ak oa ps
      ({ st with cur := { st.cur with point := copyPointInto p st.cur.point } }).write
      (by simpa [WState.write] using h1) (by simpa [WState.write] using h2) (by simpa [WState.write] using h3)
      (by simpa [WState.write] using h4) (fun q hq => hst q (by simp [hq]))
    refine ⟨ih.1, ih.2.1, ih.2.2.1, ?_⟩
    rw [ih.2.2.2]
    have e : F ({ st.cur with point := copyPointInto p st.cur.point } : SRecord)
        = G (mk, rk, sk, ak, p) := by rw [hrec]; exact hst p (by simp) oa st.cur.point
    simp [WState.write, e]

theorem emitAttrs_spec {γ : Type} (F : SRecord → γ) (G : Entry → γ) (mk : MetricKey) (rk : ResKey) (sk : ScopeKey) :
    ∀ (al : AttrLeaves) (st : WState),
      st.cur.metric = mk.toS → st.cur.resource = rk.toS → st.cur.scope = sk.toS →
      (∀ x ∈ flatKV sortByTs al, StableFG F G (mk, rk, sk, x)) →
      (emitAttrs al st).cur.metric = mk.toS ∧ (emitAttrs al st).cur.resource = rk.toS ∧
      (emitAttrs al st).cur.scope = sk.toS ∧
      (emitAttrs al st).out.map F
        = ((flatKV sortByTs al).map fun x => G (mk, rk, sk, x)).reverse ++ st.out.map F
  | [], st, h1, h2, h3, _ => ⟨h1, h2, h3, by simp [emitAttrs, flatKV]⟩
  | (ak, pts) :: t, st, h1, h2, h3, hst => by
    simp only [emitAttrs]
    rw [flatKV_cons] at hst
    have hp := emitPoints_spec F G mk rk sk ak st.cur.attrs (sortByTs pts)
      { st with cur := { st.cur with attrs := SAttrs.copyFrom ak st.cur.attrs } } h1 h2 h3 rfl
      (fun p hp => hst (ak, p) (List.mem_append_left _ (List.mem_map_of_mem hp)))
    have ih := emitAttrs_spec F G mk rk sk t _ hp.1 hp.2.1 hp.2.2.1 (fun x hx => hst x (List.mem_append_right _ hx))
    refine ⟨ih.1, ih.2.1, ih.2.2.1, ?_⟩
    rw [ih.2.2.2, hp.2.2.2, flatKV_cons]
    simp [List.map_append, List.reverse_append, List.map_map, Function.comp_def]

theorem emitScopes_spec {γ : Type} (F : SRecord → γ) (G : Entry → γ) (mk : MetricKey) (rk : ResKey) :
    ∀ (sl : ScopeLevel) (st : WState),
      st.cur.metric = mk.toS → st.cur.resource = rk.toS →
      (∀ x ∈ flatKV (flatKV sortByTs) sl, StableFG F G (mk, rk, x)) →
      (emitScopes sl st).cur.metric = mk.toS ∧ (emitScopes sl st).cur.resource = rk.toS ∧
      (emitScopes sl st).out.map F
        = ((flatKV (flatKV sortByTs) sl).map fun x => G (mk, rk, x)).reverse ++ st.out.map F
  | [], st, h1, h2, _ => ⟨h1, h2, by simp [emitScopes, flatKV]⟩
  | (sk, al) :: t, st, h1, h2, hst => by
    simp only [emitScopes]
    rw [flatKV_cons] at hst
    have hp := emitAttrs_spec F G mk rk sk al { st with cur := { st.cur with scope := sk.toS } } h1 h2 rfl
      (fun x hx => hst (sk, x) (List.mem_append_left _ (List.mem_map_of_mem hx)))
    have ih := emitScopes_spec F G mk rk t _ hp.1 hp.2.1 (fun x hx => hst x (List.mem_append_right _ hx))
    refine ⟨ih.1, ih.2.1, ?_⟩
    rw [ih.2.2, hp.2.2.2, flatKV_cons]
    simp [List.map_append, List.reverse_append, List.map_map, Function.comp_def]

theorem emitResources_spec {γ : Type} (F : SRecord → γ) (G : Entry → γ) (mk : MetricKey) :
    ∀ (rl : ResLevel) (st : WState),
      st.cur.metric = mk.toS →
      (∀ x ∈ flatKV (flatKV (flatKV sortByTs)) rl, StableFG F G (mk, x)) →
      (emitResources rl st).cur.metric = mk.toS ∧
      (emitResources rl st).out.map F
        = ((flatKV (flatKV (flatKV sortByTs)) rl).map fun x => G (mk, x)).reverse ++ st.out.map F
  | [], st, h1, _ => ⟨h1, by simp [emitResources, flatKV]⟩
  | (rk, sl) :: t, st, h1, hst => by
    simp only [emitResources]
    rw [flatKV_cons] at hst
    have hp := emitScopes_spec F G mk rk sl { st with cur := { st.cur with resource := rk.toS } } h1 rfl
      (fun x hx => hst (rk, x) (List.mem_append_left _ (List.mem_map_of_mem hx)))
    have ih := emitResources_spec F G mk t _ hp.1 (fun x hx => hst x (List.mem_append_right _ hx))
    refine ⟨ih.1, ?_⟩
    rw [ih.2, hp.2.2, flatKV_cons]
    simp [List.map_append, List.reverse_append, List.map_map, Function.comp_def]

theorem emitMetrics_spec {γ : Type} (F : SRecord → γ) (G : Entry → γ) : ∀ (t : MetricTree) (st : WState), (∀ e ∈ emitOrder t, StableFG F G e) →
    (emitMetrics t st).out.map F = ((emitOrder t).map G).reverse ++ st.out.map F
  | [], st, _ => by simp [emitMetrics, emitOrder, flatKV]
  | (mk, rl) :: t, st, hst => by
    simp only [emitMetrics]
    unfold emitOrder at hst ⊢
    rw [flatKV_cons] at hst
    have hp := emitResources_spec F G mk rl { st with cur := { st.cur with metric := mk.toS } } rfl
      (fun x hx => hst (mk, x) (List.mem_append_left _ (List.mem_map_of_mem hx)))
    have ih := emitMetrics_spec F G t (emitResources rl { st with cur := { st.cur with metric := mk.toS } })
      (fun x hx => hst x (List.mem_append_right _ hx))
    unfold emitOrder at ih
    rw [ih, hp.2, flatKV_cons]
    simp [List.map_append, List.reverse_append, List.map_map, Function.comp_def]

end Stef.Otlp
