/-
  Stef.Proofs.TracesFlowGen: the traces converter REGENERATED from the Go source
  (Stef/Gen/TracesFlow.lean, by extract/tracesflow.go) computes exactly what the hand model
  Stef/Otlp/Traces.lean says, on every input and every state of the re-used record.
-/
import Stef.Gen.TracesFlow
import Stef.Proofs.OtlpTracesSort

set_option linter.unusedSimpArgs false

namespace Stef.Proofs.TracesFlowGen
open Stef.TracesFlowSem Stef.Otlp
open Stef.Gen.TracesFlow

/-! ### the monad -/

theorem bind_run {σ ρ α β : Type} (m : M σ ρ α) (f : α → M σ ρ β) (s : Frame σ) :
    (m >>= f).run s = match m.run s with
      | .next a s' => (f a).run s'
      | .ret r s' => .ret r s'
      | .panic => .panic
      | .diverge => .diverge := rfl

theorem pure_run {σ ρ α : Type} (a : α) (s : Frame σ) : (pure a : M σ ρ α).run s = .next a s := rfl

theorem ite_run {σ ρ α : Type} (c : Prop) [Decidable c] (m₁ m₂ : M σ ρ α) (s : Frame σ) :
    (if c then m₁ else m₂).run s = if c then m₁.run s else m₂.run s := by
  split <;> rfl

theorem comp_get {σ τ α : Type} (r : Ref σ τ) (q : Ref τ α) (s : σ) : (r ⨾ q).get s = (r.get s).bind q.get := rfl

theorem comp_set {σ τ α : Type} (r : Ref σ τ) (q : Ref τ α) (a : α) (s : σ) :
    (r ⨾ q).set a s = match r.get s with
      | some t => r.set (q.set a t) s
      | none => s := rfl

attribute [local simp] comp_get comp_set

-- the vocabulary that only renames (setters, getters, field paths, conversions)
attribute [local simp] Ref.id Ref.fst Ref.snd
  Otelstef.Event.SetName Otelstef.Event.SetTimeUnixNano Otelstef.Event.Attributes
  Otelstef.Event.SetDroppedAttributesCount Ptrace.SpanEvent.Name Ptrace.SpanEvent.Timestamp
  Ptrace.SpanEvent.Attributes Ptrace.SpanEvent.DroppedAttributesCount Conv.uint64_Timestamp
  Conv.uint64_uint32 Conv.uint64_StatusCode Conv.SpanKind_SpanKind Otlptools.Otlp2Stef.MapUnsorted
  Otlptools.Otlp2Stef.MapSorted
  Otelstef.Link.SetFlags Otelstef.Link.SetTraceState Otelstef.Link.Attributes Otelstef.Link.SetTraceID
  Otelstef.Link.SetSpanID Otelstef.Link.SetDroppedAttributesCount Ptrace.SpanLink.Flags
  Ptrace.SpanLink.TraceState Ptrace.SpanLink.TraceID Ptrace.SpanLink.SpanID
  Ptrace.SpanLink.Attributes Ptrace.SpanLink.DroppedAttributesCount
  Pcommon.TraceState.AsRaw Pkg.Bytes Pcommon.TraceID.String Pcommon.SpanID.String
  Pcommon.TraceID.slice Pcommon.SpanID.slice Bytes.Compare
  Otelstef.Resource.SetSchemaURL Otelstef.Resource.Attributes Otelstef.Resource.SetDroppedAttributesCount
  Otelstef.Scope.SetSchemaURL Otelstef.Scope.SetName Otelstef.Scope.SetVersion Otelstef.Scope.Attributes
  Otelstef.Scope.SetDroppedAttributesCount
  Pcommon.Resource.Attributes Pcommon.Resource.DroppedAttributesCount
  Pcommon.InstrumentationScope.Name Pcommon.InstrumentationScope.Version
  Pcommon.InstrumentationScope.Attributes Pcommon.InstrumentationScope.DroppedAttributesCount
  Otelstef.Span.SetTraceID Otelstef.Span.SetSpanID Otelstef.Span.SetParentSpanID Otelstef.Span.SetName
  Otelstef.Span.SetFlags Otelstef.Span.SetStartTimeUnixNano Otelstef.Span.SetEndTimeUnixNano
  Otelstef.Span.SetKind Otelstef.Span.SetTraceState Otelstef.Span.Attributes
  Otelstef.Span.SetDroppedAttributesCount Otelstef.Span.Status Otelstef.SpanStatus.SetCode
  Otelstef.SpanStatus.SetMessage Otelstef.Span.Events Otelstef.Span.Links
  Ptrace.Span.TraceID Ptrace.Span.SpanID Ptrace.Span.ParentSpanID Ptrace.Span.Name Ptrace.Span.Flags
  Ptrace.Span.StartTimestamp Ptrace.Span.EndTimestamp Ptrace.Span.Kind Ptrace.Span.TraceState
  Ptrace.Span.Attributes Ptrace.Span.DroppedAttributesCount Ptrace.Span.Status Ptrace.Status.Code
  Ptrace.Status.Message Ptrace.Span.Events Ptrace.Span.Links
  Ptrace.SpanEventSlice.Len Ptrace.SpanLinkSlice.Len Ptrace.SpanSlice.Len Ptrace.ScopeSpansSlice.Len
  Ptrace.ResourceSpansSlice.Len sliceLen
  Ptrace.Traces.ResourceSpans Ptrace.ResourceSpans.ScopeSpans Ptrace.ResourceSpans.SchemaUrl
  Ptrace.ResourceSpans.Resource Ptrace.ScopeSpans.Spans Ptrace.ScopeSpans.SchemaUrl Ptrace.ScopeSpans.Scope
  Otelstef.SpansWriter.Record Otelstef.SpansWriter.Write Otelstef.Spans.Resource Otelstef.Spans.Scope
  Otelstef.Spans.Span Otlptools.CmpResourceSpans Otlptools.CmpScopeSpans

/-! ### index paths -/

theorem sliceAt_get {α : Type} (j : Nat) (l : List α) : (sliceAt (j : Int)).get l = l[j]? := by
  simp [sliceAt]

theorem sliceAt_set {α : Type} (j : Nat) (a : α) (l : List α) : (sliceAt (j : Int)).set a l = l.set j a := by
  simp [sliceAt]

theorem evAt_get (j : Nat) (a : OEvents) (h : j < a.len) : (Otelstef.EventArray.At (j : Int)).get a = a.store[j]? := by
  simp [Otelstef.EventArray.At, h]

theorem evAt_set (j : Nat) (e : SEvent) (a : OEvents) :
    (Otelstef.EventArray.At (j : Int)).set e a = { a with store := a.store.set j e } := by
  simp [Otelstef.EventArray.At]

theorem lnAt_get (j : Nat) (a : OLinks) (h : j < a.len) : (Otelstef.LinkArray.At (j : Int)).get a = a.store[j]? := by
  simp [Otelstef.LinkArray.At, h]

theorem lnAt_set (j : Nat) (e : SLink) (a : OLinks) :
    (Otelstef.LinkArray.At (j : Int)).set e a = { a with store := a.store.set j e } := by
  simp [Otelstef.LinkArray.At]

/-! ### counting loops -/

/-- a counting loop whose `j`-th round takes the object `S j` to `S (j+1)` and whose bound is `n`
    in all these states ends in `S n`; `R` relates the locals before and after. -/
theorem forUp_steps {σ ρ : Type} (R : (Nat → Int) → (Nat → Int) → Prop) (hrefl : ∀ l, R l l)
    (htrans : ∀ a b c, R a b → R b c → R a c)
    (bound : M σ ρ Int) (body : Int → M σ ρ Unit) (n : Nat) (S : Nat → σ)
    (hbound : ∀ j loc, j ≤ n → bound.run ⟨S j, loc⟩ = .next (n : Int) ⟨S j, loc⟩)
    (hbody : ∀ j loc, j < n → ∃ loc', (body (j : Int)).run ⟨S j, loc⟩ = .next () ⟨S (j + 1), loc'⟩ ∧ R loc loc') :
    ∀ (k j fuel : Nat) (loc : Nat → Int), j + k = n → k < fuel →
      ∃ loc', forUpRun bound body fuel (j : Int) ⟨S j, loc⟩ = .next () ⟨S n, loc'⟩ ∧ R loc loc' := by
  intro k
  induction k with
  | zero =>
    intro j fuel loc hj hf
    obtain ⟨f, rfl⟩ : ∃ f, fuel = f + 1 := ⟨fuel - 1, by omega⟩
    have : j = n := by omega
    subst this
    exact ⟨loc, by simp [forUpRun, hbound j loc (Nat.le_refl _)], hrefl _⟩
  | succ k ih =>
    intro j fuel loc hj hf
    obtain ⟨f, rfl⟩ : ∃ f, fuel = f + 1 := ⟨fuel - 1, by omega⟩
    obtain ⟨loc1, h1, r1⟩ := hbody j loc (by omega)
    obtain ⟨loc2, h2, r2⟩ := ih (j + 1) f loc1 (by omega) (by omega)
    refine ⟨loc2, ?_, htrans _ _ _ r1 r2⟩
    have hlt : (j : Int) < (n : Int) := by omega
    have hc : ((j : Int) + 1) = ((j + 1 : Nat) : Int) := by omega
    simp only [forUpRun, hbound j loc (by omega), hlt, if_true, h1, hc, h2]

/-- the same when the rounds leave the locals alone: an equation -/
theorem forUp_pure {σ ρ : Type} (bound : M σ ρ Int) (body : Int → M σ ρ Unit) (n : Nat) (S : Nat → σ)
    (hbound : ∀ j loc, j ≤ n → bound.run ⟨S j, loc⟩ = .next (n : Int) ⟨S j, loc⟩)
    (hbody : ∀ j loc, j < n → (body (j : Int)).run ⟨S j, loc⟩ = .next () ⟨S (j + 1), loc⟩)
    (fuel : Nat) (hf : n < fuel) (loc : Nat → Int) :
    (forUp fuel 0 bound body).run ⟨S 0, loc⟩ = .next () ⟨S n, loc⟩ := by
  obtain ⟨loc', h, rfl⟩ := forUp_steps (fun a b => a = b) (fun _ => rfl) (fun _ _ _ h1 h2 => h1.trans h2)
    bound body n S hbound (fun j loc hj => ⟨loc, hbody j loc hj, rfl⟩) n 0 fuel loc (by omega) hf
  exact h

/-! ### element-wise conversion into a re-used store -/

theorem convEvents_take_get : ∀ (j : Nat) (es : List Event) (st : List SEvent) (d : SEvent),
    st[j]? = some d → (convEvents (es.take j) st)[j]? = some d
  | 0, es, st, d, h => by simpa [convEvents] using h
  | j + 1, [], st, d, h => by simpa [convEvents] using h
  | j + 1, e :: es, [], d, h => by simp at h
  | j + 1, e :: es, x :: st, d, h => by
    simp only [List.take_succ_cons, convEvents, List.getElem?_cons_succ] at h ⊢
    exact convEvents_take_get j es st d h

theorem convEvents_take_succ : ∀ (j : Nat) (es : List Event) (st : List SEvent) (e : Event) (d : SEvent),
    es[j]? = some e → st[j]? = some d →
    convEvents (es.take (j + 1)) st = (convEvents (es.take j) st).set j (convEvent e d)
  | 0, e' :: es, x :: st, e, d, he, hd => by
    simp at he hd; subst he; subst hd; simp [convEvents]
  | 0, [], _, _, _, he, _ => by simp at he
  | 0, _ :: _, [], _, _, _, hd => by simp at hd
  | j + 1, [], _, _, _, he, _ => by simp at he
  | j + 1, _ :: _, [], _, _, _, hd => by simp at hd
  | j + 1, e' :: es, x :: st, e, d, he, hd => by
    simp only [List.getElem?_cons_succ] at he hd
    simp only [List.take_succ_cons, convEvents, List.set_cons_succ]
    rw [convEvents_take_succ j es st e d he hd]

theorem convLinks_take_get : ∀ (j : Nat) (es : List Link) (st : List SLink) (d : SLink),
    st[j]? = some d → (convLinks (es.take j) st)[j]? = some d
  | 0, es, st, d, h => by simpa [convLinks] using h
  | j + 1, [], st, d, h => by simpa [convLinks] using h
  | j + 1, e :: es, [], d, h => by simp at h
  | j + 1, e :: es, x :: st, d, h => by
    simp only [List.take_succ_cons, convLinks, List.getElem?_cons_succ] at h ⊢
    exact convLinks_take_get j es st d h

theorem convLinks_take_succ : ∀ (j : Nat) (es : List Link) (st : List SLink) (e : Link) (d : SLink),
    es[j]? = some e → st[j]? = some d →
    convLinks (es.take (j + 1)) st = (convLinks (es.take j) st).set j (convLink e d)
  | 0, e' :: es, x :: st, e, d, he, hd => by
    simp at he hd; subst he; subst hd; simp [convLinks]
  | 0, [], _, _, _, he, _ => by simp at he
  | 0, _ :: _, [], _, _, _, hd => by simp at hd
  | j + 1, [], _, _, _, he, _ => by simp at he
  | j + 1, _ :: _, [], _, _, _, hd => by simp at hd
  | j + 1, e' :: es, x :: st, e, d, he, hd => by
    simp only [List.getElem?_cons_succ] at he hd
    simp only [List.take_succ_cons, convLinks, List.set_cons_succ]
    rw [convLinks_take_succ j es st e d he hd]

theorem evEnsure_length : ∀ (n : Nat) (st : List SEvent), n ≤ (evEnsure n st).length
  | 0, _ => Nat.zero_le _
  | n + 1, [] => by simpa [evEnsure] using evEnsure_length n []
  | n + 1, _ :: t => by simpa [evEnsure] using evEnsure_length n t

theorem evResetRange_length : ∀ (lo c : Nat) (st : List SEvent), (evResetRange lo c st).length = st.length
  | _, _, [] => by simp [evResetRange]
  | 0, 0, _ :: _ => by simp [evResetRange]
  | 0, c + 1, _ :: t => by simp [evResetRange, evResetRange_length 0 c t]
  | lo + 1, c, _ :: t => by simp [evResetRange, evResetRange_length lo c t]

theorem evEnsureLen_length (st : List SEvent) (len n : Nat) : n ≤ (evEnsureLen st len n).length := by
  simp [evEnsureLen, evResetRange_length, evEnsure_length]

theorem lnEnsure_length : ∀ (n : Nat) (st : List SLink), n ≤ (lnEnsure n st).length
  | 0, _ => Nat.zero_le _
  | n + 1, [] => by simpa [lnEnsure] using lnEnsure_length n []
  | n + 1, _ :: t => by simpa [lnEnsure] using lnEnsure_length n t

theorem lnResetRange_length : ∀ (lo c : Nat) (st : List SLink), (lnResetRange lo c st).length = st.length
  | _, _, [] => by simp [lnResetRange]
  | 0, 0, _ :: _ => by simp [lnResetRange]
  | 0, c + 1, _ :: t => by simp [lnResetRange, lnResetRange_length 0 c t]
  | lo + 1, c, _ :: t => by simp [lnResetRange, lnResetRange_length lo c t]

theorem lnEnsureLen_length (st : List SLink) (len n : Nat) : n ≤ (lnEnsureLen st len n).length := by
  simp [lnEnsureLen, lnResetRange_length, lnEnsure_length]

/-! ### the leaf converters -/

/-- **event2event = convEvent** on every event and every state of the re-used element -/
theorem event2event_eq (fuel : Nat) (src : Event) (d : SEvent) :
    exec (event2event fuel src) d = .ok () (convEvent src d) := by
  simp [event2event, exec, bind_run, pure_run, mutate, rdV, convEvent]

/-- **link2link = convLink** -/
theorem link2link_eq (fuel : Nat) (src : Link) (d : SLink) :
    exec (link2link fuel src) d = .ok () (convLink src d) := by
  simp [link2link, exec, bind_run, pure_run, mutate, rdV, convLink]

/-- `Otlp2Stef.ResourceUnsorted` -/
theorem resourceUnsorted_eq (fuel : Nat) (src : PResource) (url : Str) (d : STRes) :
    exec (resourceUnsorted fuel src url) d
      = .ok () { url := url, attrs := SAttrs.mapUnsorted src.attrs d.attrs, dropped := src.dropped } := by
  simp [resourceUnsorted, exec, bind_run, pure_run, mutate, rdV]

/-- `Otlp2Stef.ScopeUnsorted` -/
theorem scopeUnsorted_eq (fuel : Nat) (src : PScope) (url : Str) (d : STScope) :
    exec (scopeUnsorted fuel src url) d
      = .ok () { url := url, name := src.name, ver := src.ver, attrs := SAttrs.mapUnsorted src.attrs d.attrs,
                 dropped := src.dropped } := by
  simp [scopeUnsorted, exec, bind_run, pure_run, mutate, rdV]

/-! ### span2span -/

theorem ev_step (fuel : Nat) (src : Span) (sorted : Bool) (d : SSpan) (j : Nat) (e : Event) (x : SEvent)
    (he : src.events[j]? = some e) (hx : d.evStore[j]? = some x) (hl : j < d.evLen) (loc : Nat → Int) :
    (span2span_loop1 fuel src sorted (j : Int)).run ⟨d, loc⟩
      = .next () ⟨{ d with evStore := d.evStore.set j (convEvent e x) }, loc⟩ := by
  simp [span2span_loop1, bind_run, pure_run, rdV, zoom, sliceAt_get, evAt_get, evAt_set, he, hx, hl, event2event_eq,
    Ptrace.SpanEventSlice.At]

theorem ln_step (fuel : Nat) (src : Span) (sorted : Bool) (d : SSpan) (j : Nat) (e : Link) (x : SLink)
    (he : src.links[j]? = some e) (hx : d.lnStore[j]? = some x) (hl : j < d.lnLen) (loc : Nat → Int) :
    (span2span_loop2 fuel src sorted (j : Int)).run ⟨d, loc⟩
      = .next () ⟨{ d with lnStore := d.lnStore.set j (convLink e x) }, loc⟩ := by
  simp [span2span_loop2, bind_run, pure_run, rdV, zoom, sliceAt_get, lnAt_get, lnAt_set, he, hx, hl, link2link_eq,
    Ptrace.SpanLinkSlice.At]

/-- the loop over the events: element `i` of the source goes into element `i` of the store -/
theorem events_loop (fuel : Nat) (src : Span) (sorted : Bool) (bound : M SSpan Unit Int) (d : SSpan) (loc : Nat → Int)
    (hbound : ∀ s, bound.run s = .next (src.events.length : Int) s)
    (hlen : d.evLen = src.events.length) (hst : src.events.length ≤ d.evStore.length)
    (hf : src.events.length < fuel) :
    (forUp fuel 0 bound (span2span_loop1 fuel src sorted)).run ⟨d, loc⟩
      = .next () ⟨{ d with evStore := convEvents src.events d.evStore }, loc⟩ := by
  have h := forUp_pure bound (span2span_loop1 fuel src sorted) src.events.length
     (fun j => { d with evStore := convEvents (src.events.take j) d.evStore }) (fun j loc _ => hbound _) ?_ fuel hf loc
  · simpa [convEvents] using h
  · intro j loc hj
    obtain ⟨e, he⟩ : ∃ e, src.events[j]? = some e := ⟨src.events[j], by simp⟩
    obtain ⟨x, hx⟩ : ∃ x, d.evStore[j]? = some x := ⟨d.evStore[j]'(by omega), by simp⟩
    rw [ev_step fuel src sorted _ j e x he (convEvents_take_get j _ _ x hx) (by simp; omega)]
    simp only [convEvents_take_succ j _ _ e x he hx]

theorem links_loop (fuel : Nat) (src : Span) (sorted : Bool) (bound : M SSpan Unit Int) (d : SSpan) (loc : Nat → Int)
    (hbound : ∀ s, bound.run s = .next (src.links.length : Int) s)
    (hlen : d.lnLen = src.links.length) (hst : src.links.length ≤ d.lnStore.length)
    (hf : src.links.length < fuel) :
    (forUp fuel 0 bound (span2span_loop2 fuel src sorted)).run ⟨d, loc⟩
      = .next () ⟨{ d with lnStore := convLinks src.links d.lnStore }, loc⟩ := by
  have h := forUp_pure bound (span2span_loop2 fuel src sorted) src.links.length
     (fun j => { d with lnStore := convLinks (src.links.take j) d.lnStore }) (fun j loc _ => hbound _) ?_ fuel hf loc
  · simpa [convLinks] using h
  · intro j loc hj
    obtain ⟨e, he⟩ : ∃ e, src.links[j]? = some e := ⟨src.links[j], by simp⟩
    obtain ⟨x, hx⟩ : ∃ x, d.lnStore[j]? = some x := ⟨d.lnStore[j]'(by omega), by simp⟩
    rw [ln_step fuel src sorted _ j e x he (convLinks_take_get j _ _ x hx) (by simp; omega)]
    simp only [convLinks_take_succ j _ _ e x he hx]

/-- **span2span = convSpan**: every span, both modes, every state of the re-used record -/
theorem span2span_eq (fuel : Nat) (src : Span) (sorted : Bool) (d : SSpan)
    (hf : src.events.length < fuel) (hf2 : src.links.length < fuel) :
    exec (span2span fuel src sorted) d = .ok () (convSpan sorted src d) := by
  have hb1 : ∀ s : Frame SSpan, (do
        let l ← ({ run := fun s => Out.next src.events s } : M SSpan Unit (List Event))
        pure (↑l.length : Int) : M SSpan Unit Int).run s = .next (src.events.length : Int) s := fun s => rfl
  have hb2 : ∀ s : Frame SSpan, (do
        let l ← ({ run := fun s => Out.next src.links s } : M SSpan Unit (List Link))
        pure (↑l.length : Int) : M SSpan Unit Int).run s = .next (src.links.length : Int) s := fun s => rfl
  cases sorted <;>
  · simp [span2span, exec, bind_run, pure_run, mutate, rdV]
    rw [events_loop fuel src _ _ _ _ hb1 (by simp [Otelstef.EventArray.EnsureLen])
      (by simpa [Otelstef.EventArray.EnsureLen] using evEnsureLen_length _ _ _) hf]
    simp only []
    rw [links_loop fuel src _ _ _ _ hb2 (by simp [Otelstef.LinkArray.EnsureLen])
      (by simpa [Otelstef.LinkArray.EnsureLen] using lnEnsureLen_length _ _ _) hf2]
    simp [convSpan, Otelstef.EventArray.EnsureLen, Otelstef.LinkArray.EnsureLen]

/-! ### Sort with a translated `less` that only computes -/

def insertP {α : Type} (p : α → α → Bool) (x : α) : List α → List α
  | [] => [x]
  | y :: t => if p y x then y :: insertP p x t else x :: y :: t

def sortP {α : Type} (p : α → α → Bool) : List α → List α
  | [] => []
  | x :: t => insertP p x (sortP p t)

theorem insertSpan_eqP (x : Span) : ∀ l, insertSpan x l = insertP spanLess x l
  | [] => rfl
  | y :: t => by simp [insertSpan, insertP, insertSpan_eqP x t]

theorem sortSpans_eqP : ∀ l, Otlp.sortSpans l = sortP spanLess l
  | [] => rfl
  | x :: t => by simp [Otlp.sortSpans, sortP, sortSpans_eqP t, insertSpan_eqP]

theorem insertStable_eqP {α : Type} (cmp : α → α → Int) (x : α) :
    ∀ l, insertStable cmp x l = insertP (fun a b => decide (cmp a b < 0)) x l
  | [] => rfl
  | y :: t => by simp [insertStable, insertP, insertStable_eqP cmp x t]

theorem sortStable_eqP {α : Type} (cmp : α → α → Int) :
    ∀ l, sortStable cmp l = sortP (fun a b => decide (cmp a b < 0)) l
  | [] => rfl
  | x :: t => by simp [sortStable, sortP, sortStable_eqP cmp t, insertStable_eqP]

/-- the function literal returns `p a b` and leaves the objects alone -/
def PureLess {σ α : Type} (less : α → α → M σ Bool Bool) (p : α → α → Bool) : Prop :=
  ∀ a b o loc, ∃ loc', (less a b).run ⟨o, loc⟩ = .ret (p a b) ⟨o, loc'⟩

theorem insertM_pure {σ ρ α : Type} {less : α → α → M σ Bool Bool} {p : α → α → Bool} (h : PureLess less p) (x : α) :
    ∀ (l : List α) (o : σ) (loc : Nat → Int),
      ∃ loc', (insertM less x l : M σ ρ (List α)).run ⟨o, loc⟩ = .next (insertP p x l) ⟨o, loc'⟩
  | [], o, loc => ⟨loc, rfl⟩
  | y :: t, o, loc => by
    obtain ⟨loc1, h1⟩ := h y x o loc
    cases hp : p y x
    · exact ⟨loc1, by simp [insertM, insertP, bind_run, pure_run, callC, h1, hp]⟩
    · obtain ⟨loc2, h2⟩ := insertM_pure (ρ := ρ) h x t o loc1
      exact ⟨loc2, by simp [insertM, insertP, bind_run, pure_run, callC, h1, hp, h2]⟩

theorem sortM_pure {σ ρ α : Type} {less : α → α → M σ Bool Bool} {p : α → α → Bool} (h : PureLess less p) :
    ∀ (l : List α) (o : σ) (loc : Nat → Int),
      ∃ loc', (sortM less l : M σ ρ (List α)).run ⟨o, loc⟩ = .next (sortP p l) ⟨o, loc'⟩
  | [], o, loc => ⟨loc, rfl⟩
  | x :: t, o, loc => by
    obtain ⟨loc1, h1⟩ := sortM_pure (ρ := ρ) h t o loc
    obtain ⟨loc2, h2⟩ := insertM_pure (ρ := ρ) h x (sortP p t) o loc1
    exact ⟨loc2, by simp [sortM, sortP, bind_run, h1, h2]⟩

theorem sortBy_pure {σ ρ α : Type} {less : α → α → M σ Bool Bool} {p : α → α → Bool} (h : PureLess less p)
    (r : Ref σ (List α)) (o : σ) (l : List α) (hr : r.get o = some l) (loc : Nat → Int) :
    ∃ loc', (sortBy r less : M σ ρ Unit).run ⟨o, loc⟩ = .next () ⟨r.set (sortP p l) o, loc'⟩ := by
  obtain ⟨loc1, h1⟩ := sortM_pure (ρ := ρ) h l o loc
  exact ⟨loc1, by simp [sortBy, bind_run, rdS, hr, h1, mutate]⟩

/-! ### sortSpans -/

theorem sortSpans_fn1_pure (fuel : Nat) : PureLess (sortSpans_fn1 fuel) spanLess := by
  intro a b o loc
  simp only [sortSpans_fn1, spanLess, bind_run, pure_run, setL, getL, ret, ite_run]
  simp
  repeat' split
  all_goals (simp [*] <;> congr)

/-- **sortSpans = the hand model's `sortSpans`** (trace id descending, parent id descending, start time) -/
theorem sortSpans_eq (fuel : Nat) (l : List Span) :
    exec (Gen.TracesFlow.sortSpans fuel) l = .ok () (Otlp.sortSpans l) := by
  obtain ⟨loc', h⟩ := sortBy_pure (ρ := Unit) (sortSpans_fn1_pure fuel) Ref.id l l rfl (fun _ => 0)
  simp only [exec, Gen.TracesFlow.sortSpans]
  rw [h]
  simp [sortSpans_eqP]

/-! ### Convert: the loops that write -/

/-- the objects of `Convert`: the batch and the writer -/
abbrev CS := Traces × TState

/-- the path `r` leads to the `α` inside `T a`, whatever the writer holds -/
def FocusT {α : Type} (r : Ref CS α) (T : α → Traces) : Prop :=
  (∀ a w, r.get (T a, w) = some a) ∧ (∀ a b w, r.set b (T a, w) = (T b, w))

theorem getElem?_mid {α : Type} (A B : List α) (x : α) : (A ++ x :: B)[A.length]? = some x := by simp

theorem set_mid {α : Type} (A B : List α) (x y : α) : (A ++ x :: B).set A.length y = A ++ y :: B := by simp

theorem sliceAt_get_succ {α : Type} (j : Nat) (l : List α) : (sliceAt ((j : Int) + 1)).get l = l[j + 1]? := by
  have h : (j : Int) + 1 = ((j + 1 : Nat) : Int) := by omega
  rw [h, sliceAt_get]

theorem sliceAt_set_succ {α : Type} (j : Nat) (a : α) (l : List α) :
    (sliceAt ((j : Int) + 1)).set a l = l.set (j + 1) a := by
  have h : (j : Int) + 1 = ((j + 1 : Nat) : Int) := by omega
  rw [h, sliceAt_set]

attribute [local simp] sliceAt_get sliceAt_set sliceAt_get_succ sliceAt_set_succ
  Ptrace.ResourceSpansSlice.At Ptrace.ScopeSpansSlice.At Ptrace.SpanSlice.At

/-- one `span2span` + `Write()` -/
def stepSpan (sorted : Bool) (sp : Span) (w : TState) : TState :=
  { cur := { w.cur with span := convSpan sorted sp w.cur.span },
    out := ({ w.cur with span := convSpan sorted sp w.cur.span } : STRecord).visible :: w.out }

theorem writeSpans_append (sorted : Bool) : ∀ (l₁ l₂ : List Span) (st : TState),
    writeSpans sorted (l₁ ++ l₂) st = writeSpans sorted l₂ (writeSpans sorted l₁ st)
  | [], _, _ => rfl
  | x :: l₁, l₂, st => by simp [writeSpans, writeSpans_append sorted l₁ l₂]

theorem writeScopeSpans_append (sorted : Bool) : ∀ (l₁ l₂ : List ScopeSpans) (st : TState),
    writeScopeSpans sorted (l₁ ++ l₂) st = writeScopeSpans sorted l₂ (writeScopeSpans sorted l₁ st)
  | [], _, _ => rfl
  | x :: l₁, l₂, st => by simp [writeScopeSpans, writeScopeSpans_append sorted l₁ l₂]

theorem writeResourceSpans_append (sorted : Bool) : ∀ (l₁ l₂ : List ResourceSpans) (st : TState),
    writeResourceSpans sorted (l₁ ++ l₂) st = writeResourceSpans sorted l₂ (writeResourceSpans sorted l₁ st)
  | [], _, _ => rfl
  | x :: l₁, l₂, st => by simp [writeResourceSpans, writeResourceSpans_append sorted l₁ l₂]

/-- fuel that is enough for one span -/
def SpanFuel (fuel : Nat) (sp : Span) : Prop := sp.events.length < fuel ∧ sp.links.length < fuel

/-- one round of the loop over the spans of a scope -/
theorem span_step (fuel : Nat) (sorted : Bool) (rmm : Ref CS ResourceSpans) (i : Int) (smm : Ref CS ScopeSpans) (j : Int)
    (T : ScopeSpans → Traces) (hs : FocusT smm T) (sc : ScopeSpans) (w : TState) (k : Nat) (sp : Span)
    (hk : sc.spans[k]? = some sp) (hf : SpanFuel fuel sp) (loc : Nat → Int) :
    (convert_loop5 fuel sorted i rmm j smm (k : Int)).run ⟨(T sc, w), loc⟩
      = .next () ⟨(T sc, stepSpan sorted sp w), loc⟩ := by
  simp [convert_loop5, bind_run, pure_run, rdS, zoom, mutRes, hs.1, hk, span2span_eq fuel sp sorted _ hf.1 hf.2,
    stepSpan, ret, ite_run]

theorem spans_loop (fuel : Nat) (sorted : Bool) (rmm : Ref CS ResourceSpans) (i : Int) (smm : Ref CS ScopeSpans) (j : Int)
    (T : ScopeSpans → Traces) (hs : FocusT smm T) (sc : ScopeSpans) (w : TState) (bound : M CS Err Int)
    (hbound : ∀ w loc, bound.run ⟨(T sc, w), loc⟩ = .next (sc.spans.length : Int) ⟨(T sc, w), loc⟩)
    (hfuel : sc.spans.length < fuel) (hsp : ∀ sp ∈ sc.spans, SpanFuel fuel sp)
    (s : Frame CS) (hs0 : s.obj = (T sc, w)) :
    (forUp fuel 0 bound (convert_loop5 fuel sorted i rmm j smm)).run s
      = .next () ⟨(T sc, writeSpans sorted sc.spans w), s.loc⟩ := by
  obtain ⟨o, loc⟩ := s
  simp only at hs0
  subst hs0
  have h := forUp_pure bound (convert_loop5 fuel sorted i rmm j smm) sc.spans.length
    (fun k => (T sc, writeSpans sorted (sc.spans.take k) w)) (fun k loc _ => hbound _ _) ?_ fuel hfuel loc
  · simpa [writeSpans] using h
  · intro k loc hk
    have hk' : sc.spans[k]? = some sc.spans[k] := by simp
    rw [span_step fuel sorted rmm i smm j T hs sc _ k _ hk' (hsp _ (List.getElem_mem _))]
    rw [List.take_add_one, hk', Option.toList_some, writeSpans_append]
    rfl

/-- what the sorting mode does to one scope before its spans are written -/
def fS (sorted : Bool) (sc : ScopeSpans) : ScopeSpans := if sorted then sortScopeSpans sc else sc

theorem fS_spans_perm (sorted : Bool) (sc : ScopeSpans) : (fS sorted sc).spans.Perm sc.spans := by
  cases sorted
  · exact List.Perm.refl _
  · exact sortSpans_perm _

/-- one round of the loop over the scopes of a resource -/
theorem scope_step (fuel : Nat) (sorted : Bool) (rmm : Ref CS ResourceSpans) (i : Int)
    (T : ResourceSpans → Traces) (hr : FocusT rmm T) (r : ResourceSpans) (A B : List ScopeSpans) (sc : ScopeSpans)
    (hsc : r.scopes = A ++ sc :: B) (w : TState)
    (hfuel : sc.spans.length < fuel) (hsp : ∀ sp ∈ sc.spans, SpanFuel fuel sp) (loc : Nat → Int) :
    (convert_loop4 fuel sorted i rmm (A.length : Int)).run ⟨(T r, w), loc⟩
      = .next () ⟨(T { r with scopes := A ++ fS sorted sc :: B }, writeScopeSpans sorted [fS sorted sc] w), loc⟩ := by
  obtain ⟨url, dropped, attrs, scopes⟩ := r
  simp only at hsc
  subst hsc
  have hfoc : FocusT (rmm ⨾ Ptrace.ResourceSpans.ScopeSpans ⨾ Ptrace.ScopeSpansSlice.At (A.length : Int))
      (fun s' => T ⟨url, dropped, attrs, A ++ s' :: B⟩) := by
    constructor
    · intro a w; simp [hr.1]
    · intro a b w; simp [hr.1, hr.2]
  have hlen : (fS sorted sc).spans.length < fuel := by rw [(fS_spans_perm sorted sc).length_eq]; exact hfuel
  have hsp' : ∀ sp ∈ (fS sorted sc).spans, SpanFuel fuel sp := fun sp h => hsp sp ((fS_spans_perm sorted sc).mem_iff.1 h)
  let W : TState := { w with cur := { w.cur with scope := ⟨sc.name, sc.ver, sc.url, SAttrs.mapUnsorted sc.attrs w.cur.scope.attrs, sc.dropped⟩ } }
  cases sorted
  · simp [convert_loop4, bind_run, pure_run, rdS, zoom, hr.1, hr.2, scopeUnsorted_eq, ite_run]
    rw [spans_loop fuel false rmm i _ _ (fun s' => T ⟨url, dropped, attrs, A ++ s' :: B⟩) ?_ (fS false sc) W _ ?_ hlen hsp' _ ?_]
    · simp [writeScopeSpans, fS, W]
    · exact hfoc
    · intro w loc; simp [bind_run, pure_run, hr.1]
    · simp [fS, W]
  · simp [convert_loop4, bind_run, pure_run, rdS, zoom, hr.1, hr.2, scopeUnsorted_eq, ite_run, sortSpans_eq]
    rw [spans_loop fuel true rmm i _ _ (fun s' => T ⟨url, dropped, attrs, A ++ s' :: B⟩) ?_ (fS true sc) W _ ?_ hlen hsp' _ ?_]
    · simp [writeScopeSpans, fS, sortScopeSpans, W]
    · exact hfoc
    · intro w loc; simp [bind_run, pure_run, hr.1]
    · simp [fS, sortScopeSpans, W]

/-- fuel that is enough for one scope -/
def ScopeFuel (fuel : Nat) (sc : ScopeSpans) : Prop := sc.spans.length < fuel ∧ ∀ sp ∈ sc.spans, SpanFuel fuel sp

theorem scopes_loop (fuel : Nat) (sorted : Bool) (rmm : Ref CS ResourceSpans) (i : Int)
    (T : ResourceSpans → Traces) (hr : FocusT rmm T) (r : ResourceSpans) (w : TState) (bound : M CS Err Int)
    (hbound : ∀ l w loc, bound.run ⟨(T { r with scopes := l }, w), loc⟩
      = .next (l.length : Int) ⟨(T { r with scopes := l }, w), loc⟩)
    (hfuel : r.scopes.length < fuel) (hsc : ∀ sc ∈ r.scopes, ScopeFuel fuel sc)
    (s : Frame CS) (hs0 : s.obj = (T r, w)) :
    (forUp fuel 0 bound (convert_loop4 fuel sorted i rmm)).run s
      = .next () ⟨(T { r with scopes := r.scopes.map (fS sorted) },
          writeScopeSpans sorted (r.scopes.map (fS sorted)) w), s.loc⟩ := by
  obtain ⟨o, loc⟩ := s
  simp only at hs0
  subst hs0
  have h := forUp_pure bound (convert_loop4 fuel sorted i rmm) r.scopes.length
    (fun j => (T { r with scopes := (r.scopes.take j).map (fS sorted) ++ r.scopes.drop j },
               writeScopeSpans sorted ((r.scopes.take j).map (fS sorted)) w)) ?_ ?_ fuel hfuel loc
  · simpa [writeScopeSpans] using h
  · intro j loc hj
    rw [hbound]
    simp; omega
  · intro j loc hj
    have hA : ((r.scopes.take j).map (fS sorted)).length = j := by simp; omega
    have h4 := scope_step fuel sorted rmm i T hr
      { r with scopes := (r.scopes.take j).map (fS sorted) ++ r.scopes[j] :: r.scopes.drop (j + 1) }
      ((r.scopes.take j).map (fS sorted)) (r.scopes.drop (j + 1)) r.scopes[j] rfl
      (writeScopeSpans sorted ((r.scopes.take j).map (fS sorted)) w)
      (hsc _ (List.getElem_mem _)).1 (hsc _ (List.getElem_mem _)).2 loc
    rw [hA] at h4
    simp only [List.drop_eq_getElem_cons hj]
    rw [h4]
    have hk' : r.scopes[j]? = some r.scopes[j] := by simp
    rw [List.take_add_one, hk', Option.toList_some, List.map_append, writeScopeSpans_append]
    simp

/-! ### Convert: merging equal neighbours -/

/-- the merge loop `for i := 0; i < P.Len()-1; { if equal { merge; remove } else { i++ } }` over the states
    `S l` (the slice holds `l`), `si` the slot of `i` -/
theorem merge_while {σ ρ α : Type} (cond : M σ ρ Bool) (body : M σ ρ Unit) (cmp : α → α → Int) (merge : α → α → α)
    (si : Nat) (S : List α → σ)
    (hcond : ∀ l loc, cond.run ⟨S l, loc⟩ = .next (decide (loc si < (l.length : Int) - 1)) ⟨S l, loc⟩)
    (hbody : ∀ pre cur y t loc, loc si = (pre.length : Int) →
      ∃ loc', body.run ⟨S (pre ++ cur :: y :: t), loc⟩
          = .next () ⟨S (if cmp cur y == 0 then pre ++ merge cur y :: t else pre ++ cur :: y :: t), loc'⟩
        ∧ loc' si = if cmp cur y == 0 then (pre.length : Int) else (pre.length : Int) + 1) :
    ∀ (rest pre : List α) (cur : α) (fuel : Nat) (loc : Nat → Int), loc si = (pre.length : Int) → rest.length < fuel →
      ∃ loc', whileRun cond body fuel ⟨S (pre ++ cur :: rest), loc⟩
        = .next () ⟨S (pre ++ mergeFrom cmp merge cur rest), loc'⟩ := by
  intro rest
  induction rest with
  | nil =>
    intro pre cur fuel loc hl hf
    obtain ⟨f, rfl⟩ : ∃ f, fuel = f + 1 := ⟨fuel - 1, by omega⟩
    refine ⟨loc, ?_⟩
    have hd : decide (loc si < ((pre ++ [cur]).length : Int) - 1) = false := by simp [hl]
    simp only [whileRun, hcond, hd, mergeFrom]
    rfl
  | cons y t ih =>
    intro pre cur fuel loc hl hf
    obtain ⟨f, rfl⟩ : ∃ f, fuel = f + 1 := ⟨fuel - 1, by omega⟩
    have hc : decide (loc si < ((pre ++ cur :: y :: t).length : Int) - 1) = true := by simp [hl]; omega
    obtain ⟨loc1, h1, hl1⟩ := hbody pre cur y t loc hl
    simp only [List.length_cons] at hf
    by_cases hm : (cmp cur y == 0) = true
    · simp only [hm, if_true] at h1 hl1
      obtain ⟨loc2, h2⟩ := ih pre (merge cur y) f loc1 hl1 (by omega)
      exact ⟨loc2, by simp only [whileRun, hcond, hc, h1, h2, mergeFrom, hm, if_true]⟩
    · simp only [hm] at h1 hl1
      obtain ⟨loc2, h2⟩ := ih (pre ++ [cur]) y f loc1 (by simp [hl1]) (by omega)
      simp only [List.append_assoc, List.singleton_append] at h2
      simp only [Bool.false_eq_true, if_false] at h1
      exact ⟨loc2, by simp only [whileRun, hcond, hc, h1, h2, mergeFrom, hm, if_true, Bool.false_eq_true, if_false]⟩

/-- the same from the start of the loop (`i` = 0) -/
theorem merge_while_all {σ ρ α : Type} (cond : M σ ρ Bool) (body : M σ ρ Unit) (cmp : α → α → Int) (merge : α → α → α)
    (si : Nat) (S : List α → σ)
    (hcond : ∀ l loc, cond.run ⟨S l, loc⟩ = .next (decide (loc si < (l.length : Int) - 1)) ⟨S l, loc⟩)
    (hbody : ∀ pre cur y t loc, loc si = (pre.length : Int) →
      ∃ loc', body.run ⟨S (pre ++ cur :: y :: t), loc⟩
          = .next () ⟨S (if cmp cur y == 0 then pre ++ merge cur y :: t else pre ++ cur :: y :: t), loc'⟩
        ∧ loc' si = if cmp cur y == 0 then (pre.length : Int) else (pre.length : Int) + 1)
    (l : List α) (fuel : Nat) (loc : Nat → Int) (hl : loc si = 0) (hf : l.length < fuel) :
    ∃ loc', whileRun cond body fuel ⟨S l, loc⟩ = .next () ⟨S (mergeAdjacent cmp merge l), loc'⟩ := by
  cases l with
  | nil =>
    obtain ⟨f, rfl⟩ : ∃ f, fuel = f + 1 := ⟨fuel - 1, by omega⟩
    exact ⟨loc, by simp [whileRun, hcond, hl, mergeAdjacent]⟩
  | cons x t =>
    have := merge_while cond body cmp merge si S hcond hbody t [] x fuel loc (by simpa using hl)
      (by simp at hf; omega)
    simpa [mergeAdjacent] using this

/-- `RemoveIf(func(_) bool { j++; return j == i+2 })`: the element at index `i+1` goes -/
theorem filterOut_counter {σ ρ α : Type} (pred : α → M σ Bool Bool) (sj si : Nat) (hne : sj ≠ si)
    (hp : ∀ x o loc, (pred x).run ⟨o, loc⟩
      = .ret (loc sj + 1 == loc si + 2) ⟨o, fun m => if m = sj then loc sj + 1 else loc m⟩) :
    ∀ (l : List α) (c i : Nat) (o : σ) (loc : Nat → Int), loc sj = (c : Int) → loc si = (i : Int) →
      (filterOutM pred l : M σ ρ (List α)).run ⟨o, loc⟩
          = .next (if c ≤ i + 1 then l.eraseIdx (i + 1 - c) else l)
              ⟨o, fun m => if m = sj then loc sj + (l.length : Int) else loc m⟩ := by
  intro l
  induction l with
  | nil =>
    intro c i o loc _ _
    have : (fun m => if m = sj then loc sj + ((([] : List α).length : Nat) : Int) else loc m) = loc := by
      funext m; by_cases h : m = sj <;> simp [h]
    rw [this]; simp [filterOutM, pure_run]
  | cons x t ih =>
    intro c i o loc hc hi
    have h2 := ih (c + 1) i o (fun m => if m = sj then loc sj + 1 else loc m)
      (by simp [hc]) (by simpa [Ne.symm hne] using hi)
    have hloc : (fun m => if m = sj then (fun m => if m = sj then loc sj + 1 else loc m) sj + (t.length : Int)
          else (fun m => if m = sj then loc sj + 1 else loc m) m)
        = fun m => if m = sj then loc sj + (((x :: t).length : Nat) : Int) else loc m := by
      funext m; by_cases h : m = sj <;> simp [h]; omega
    rw [hloc] at h2
    by_cases h1 : c = i + 1
    · have hb : (loc sj + 1 == loc si + 2) = true := by simp [hc, hi, h1]; omega
      have h6 : ¬ (c + 1 ≤ i + 1) := by omega
      have h7 : c ≤ i + 1 := by omega
      have h8 : i + 1 - c = 0 := by omega
      simp only [h6, if_false] at h2
      simp only [filterOutM, bind_run, pure_run, callC, hp, hb, h2, h7, h8, if_true, List.eraseIdx_cons_zero]
    · have hb : (loc sj + 1 == loc si + 2) = false := by simp [hc, hi]; omega
      by_cases h3 : c ≤ i + 1
      · have h4 : c + 1 ≤ i + 1 := by omega
        have h5 : i + 1 - c = (i + 1 - (c + 1)) + 1 := by omega
        simp only [h4, if_true] at h2
        simp [filterOutM, bind_run, pure_run, callC, hp, hb, h2, h3, h5]
      · have h4 : ¬ (c + 1 ≤ i + 1) := by omega
        simp only [h4, if_false] at h2
        simp [filterOutM, bind_run, pure_run, callC, hp, hb, h2, h3]

theorem removeIf_counter {σ ρ α : Type} (r : Ref σ (List α)) (pred : α → M σ Bool Bool) (sj si : Nat) (hne : sj ≠ si)
    (hp : ∀ x o loc, (pred x).run ⟨o, loc⟩
      = .ret (loc sj + 1 == loc si + 2) ⟨o, fun m => if m = sj then loc sj + 1 else loc m⟩)
    (o : σ) (l : List α) (hr : r.get o = some l) (i : Nat) (loc : Nat → Int) (hj : loc sj = 0) (hi : loc si = (i : Int)) :
    (removeIf r pred : M σ ρ Unit).run ⟨o, loc⟩
      = .next () ⟨r.set (l.eraseIdx (i + 1)) o, fun m => if m = sj then loc sj + (l.length : Int) else loc m⟩ := by
  have h1 := filterOut_counter (ρ := ρ) pred sj si hne hp l 0 i o loc (by simpa using hj) hi
  simp [removeIf, bind_run, rdS, hr, h1, mutate]

/-- a `less` without side effects at all -/
def PureLess0 {σ α : Type} (less : α → α → M σ Bool Bool) (p : α → α → Bool) : Prop :=
  ∀ a b s, (less a b).run s = .ret (p a b) s

theorem insertM_pure0 {σ ρ α : Type} {less : α → α → M σ Bool Bool} {p : α → α → Bool} (h : PureLess0 less p) (x : α) :
    ∀ (l : List α) (s : Frame σ), (insertM less x l : M σ ρ (List α)).run s = .next (insertP p x l) s
  | [], s => rfl
  | y :: t, s => by
    cases hp : p y x
    · simp [insertM, insertP, bind_run, pure_run, callC, h y x s, hp]
    · simp [insertM, insertP, bind_run, pure_run, callC, h y x s, hp, insertM_pure0 (ρ := ρ) h x t s]

theorem sortM_pure0 {σ ρ α : Type} {less : α → α → M σ Bool Bool} {p : α → α → Bool} (h : PureLess0 less p) :
    ∀ (l : List α) (s : Frame σ), (sortM less l : M σ ρ (List α)).run s = .next (sortP p l) s
  | [], s => rfl
  | x :: t, s => by simp [sortM, sortP, bind_run, sortM_pure0 (ρ := ρ) h t s, insertM_pure0 (ρ := ρ) h x]

theorem sortBy_pure0 {σ ρ α : Type} {less : α → α → M σ Bool Bool} {p : α → α → Bool} (h : PureLess0 less p)
    (r : Ref σ (List α)) (o : σ) (l : List α) (hr : r.get o = some l) (loc : Nat → Int) :
    (sortBy r less : M σ ρ Unit).run ⟨o, loc⟩ = .next () ⟨r.set (sortP p l) o, loc⟩ := by
  simp [sortBy, bind_run, rdS, hr, sortM_pure0 (ρ := ρ) h, mutate]

/-! ### Convert: the two merge loops -/

theorem eraseIdx_mid_succ {α : Type} (A B : List α) (x y : α) : (A ++ x :: y :: B).eraseIdx (A.length + 1) = A ++ x :: B := by
  induction A with
  | nil => simp
  | cons a A ih => simpa using ih

theorem getElem?_mid_succ {α : Type} (A B : List α) (x y : α) : (A ++ x :: y :: B)[A.length + 1]? = some y := by
  induction A with
  | nil => simp
  | cons a A ih => simpa using ih

theorem set_mid_succ {α : Type} (A B : List α) (x y z : α) :
    (A ++ x :: y :: B).set (A.length + 1) z = A ++ x :: z :: B := by
  induction A with
  | nil => simp
  | cons a A ih => simpa using ih

theorem fn2_run (fuel : Nat) (d : Bool) (x : ResourceSpans) (o : CS) (loc : Nat → Int) :
    (convert_fn2 fuel d x).run ⟨o, loc⟩
      = .ret (loc 1 + 1 == loc 0 + 2) ⟨o, fun m => if m = 1 then loc 1 + 1 else loc m⟩ := by
  simp [convert_fn2, bind_run, setL, getL, ret]

theorem resmerge_body (fuel : Nat) (d : Bool) (w : TState) (pre : List ResourceSpans) (cur y : ResourceSpans)
    (t : List ResourceSpans) (loc : Nat → Int) (hl : loc 0 = (pre.length : Int)) :
    ∃ loc', (convert_loop1 fuel d).run ⟨(({ rss := pre ++ cur :: y :: t } : Traces), w), loc⟩
        = .next () ⟨(({ rss := if cmpResourceSpans cur y == 0 then pre ++ mergeResources cur y :: t
                              else pre ++ cur :: y :: t } : Traces), w), loc'⟩
      ∧ loc' 0 = if cmpResourceSpans cur y == 0 then (pre.length : Int) else (pre.length : Int) + 1 := by
  by_cases hm : cmpResourceSpans cur y = 0
  · simp [convert_loop1, bind_run, pure_run, rdS, getL, setL, hl, getElem?_mid, getElem?_mid_succ, hm, ite_run,
      moveAndAppendTo, mutate, set_mid, set_mid_succ]
    rw [removeIf_counter (ρ := Err) _ _ 1 0 (by decide) (fn2_run fuel d) _ _ (by simp; rfl) pre.length _ (by simp)
      (by simp [hl])]
    apply Exists.intro
    constructor
    · simp only [eraseIdx_mid_succ, mergeResources]
      rfl
    · simp [hl]
  · simp [convert_loop1, bind_run, pure_run, rdS, getL, setL, hl, getElem?_mid, getElem?_mid_succ, hm, ite_run]

theorem run_next_of_exists {σ ρ α : Type} {X : Out σ ρ α} {a : α} {o1 : σ}
    (h : ∃ loc1, X = .next a ⟨o1, loc1⟩) : X = .next a ⟨o1, Classical.choose h⟩ := Classical.choose_spec h

theorem cond1_run (fuel : Nat) (d : Bool) (l : List ResourceSpans) (w : TState) (loc : Nat → Int) :
    (convert_cond1 fuel d).run ⟨(({ rss := l } : Traces), w), loc⟩
      = .next (decide (loc 0 < (l.length : Int) - 1)) ⟨(({ rss := l } : Traces), w), loc⟩ := by
  simp [convert_cond1, bind_run, pure_run, rdS, getL] <;> congr

/-- the merge loop over the resources = `mergeAdjacent cmpResourceSpans mergeResources` -/
theorem res_merge (fuel : Nat) (d : Bool) (l : List ResourceSpans) (w : TState) (loc : Nat → Int) (hl : loc 0 = 0)
    (hf : l.length < fuel) :
    ∃ loc', whileRun (convert_cond1 fuel d) (convert_loop1 fuel d) fuel ⟨(({ rss := l } : Traces), w), loc⟩
      = .next () ⟨(({ rss := mergeAdjacent cmpResourceSpans mergeResources l } : Traces), w), loc'⟩ :=
  merge_while_all (convert_cond1 fuel d) (convert_loop1 fuel d) cmpResourceSpans mergeResources 0
    (fun l => (({ rss := l } : Traces), w)) (fun l loc => cond1_run fuel d l w loc)
    (fun pre cur y t loc hl => by
      obtain ⟨loc', h, hl'⟩ := resmerge_body fuel d w pre cur y t loc hl
      refine ⟨loc', ?_, hl'⟩
      rw [h])
    l fuel loc hl hf

theorem fn4_run (fuel : Nat) (d : Bool) (rmm : Ref CS ResourceSpans) (i : Int) (x : ScopeSpans) (o : CS) (loc : Nat → Int) :
    (convert_fn4 fuel d i rmm x).run ⟨o, loc⟩
      = .ret (loc 3 + 1 == loc 2 + 2) ⟨o, fun m => if m = 3 then loc 3 + 1 else loc m⟩ := by
  simp [convert_fn4, bind_run, setL, getL, ret]

theorem cond2_run (fuel : Nat) (d : Bool) (rmm : Ref CS ResourceSpans) (i : Int) (T : ResourceSpans → Traces)
    (hr : FocusT rmm T) (r : ResourceSpans) (l : List ScopeSpans) (w : TState) (loc : Nat → Int) :
    (convert_cond2 fuel d i rmm).run ⟨(T { r with scopes := l }, w), loc⟩
      = .next (decide (loc 2 < (l.length : Int) - 1)) ⟨(T { r with scopes := l }, w), loc⟩ := by
  simp [convert_cond2, bind_run, pure_run, rdS, getL, hr.1] <;> congr

theorem scmerge_body (fuel : Nat) (d : Bool) (rmm : Ref CS ResourceSpans) (i : Int) (T : ResourceSpans → Traces)
    (hr : FocusT rmm T) (r : ResourceSpans) (w : TState) (pre : List ScopeSpans) (cur y : ScopeSpans)
    (t : List ScopeSpans) (loc : Nat → Int) (hl : loc 2 = (pre.length : Int)) :
    ∃ loc', (convert_loop3 fuel d i rmm).run ⟨(T { r with scopes := pre ++ cur :: y :: t }, w), loc⟩
        = .next () ⟨(T { r with scopes := if cmpScopeSpans cur y == 0 then pre ++ mergeScopes cur y :: t
                              else pre ++ cur :: y :: t }, w), loc'⟩
      ∧ loc' 2 = if cmpScopeSpans cur y == 0 then (pre.length : Int) else (pre.length : Int) + 1 := by
  by_cases hm : cmpScopeSpans cur y = 0
  · simp [convert_loop3, bind_run, pure_run, rdS, getL, setL, hl, getElem?_mid, getElem?_mid_succ, hm, ite_run,
      moveAndAppendTo, mutate, set_mid, set_mid_succ, hr.1, hr.2]
    rw [removeIf_counter (ρ := Err) _ _ 3 2 (by decide) (fn4_run fuel d rmm i) _ _ (by simp [hr.1]; rfl) pre.length _
      (by simp) (by simp [hl])]
    apply Exists.intro
    constructor
    · simp only [eraseIdx_mid_succ, mergeScopes]
      simp [hr.1, hr.2]
      rfl
    · simp [hl]
  · simp [convert_loop3, bind_run, pure_run, rdS, getL, setL, hl, getElem?_mid, getElem?_mid_succ, hm, ite_run, hr.1]

/-- the merge loop over the scopes of a resource = `mergeAdjacent cmpScopeSpans mergeScopes` -/
theorem scopes_merge (fuel : Nat) (d : Bool) (rmm : Ref CS ResourceSpans) (i : Int) (T : ResourceSpans → Traces)
    (hr : FocusT rmm T) (r : ResourceSpans) (l : List ScopeSpans) (w : TState) (loc : Nat → Int) (hl : loc 2 = 0)
    (hf : l.length < fuel) :
    ∃ loc', whileRun (convert_cond2 fuel d i rmm) (convert_loop3 fuel d i rmm) fuel ⟨(T { r with scopes := l }, w), loc⟩
      = .next () ⟨(T { r with scopes := mergeAdjacent cmpScopeSpans mergeScopes l }, w), loc'⟩ :=
  merge_while_all (convert_cond2 fuel d i rmm) (convert_loop3 fuel d i rmm) cmpScopeSpans mergeScopes 2
    (fun l => (T { r with scopes := l }, w)) (fun l loc => cond2_run fuel d rmm i T hr r l w loc)
    (fun pre cur y t loc hl => by
      obtain ⟨loc', h, hl'⟩ := scmerge_body fuel d rmm i T hr r w pre cur y t loc hl
      refine ⟨loc', ?_, hl'⟩
      rw [h])
    l fuel loc hl hf

theorem fn1_pure (fuel : Nat) (d : Bool) :
    PureLess0 (convert_fn1 fuel d) (fun a b => decide (cmpResourceSpans a b < 0)) := by
  intro a b s
  simp [convert_fn1, ret] <;> congr

theorem fn3_pure (fuel : Nat) (d : Bool) (rmm : Ref CS ResourceSpans) (i : Int) :
    PureLess0 (convert_fn3 fuel d i rmm) (fun a b => decide (cmpScopeSpans a b < 0)) := by
  intro a b s
  simp [convert_fn3, ret] <;> congr

/-- what the sorting mode does to one resource before its scopes are written: the scopes before the
    loop over them (sorted, equal neighbours merged) -/
def preScopes (sorted : Bool) (r : ResourceSpans) : List ScopeSpans :=
  if sorted then mergeAdjacent cmpScopeSpans mergeScopes (sortStable cmpScopeSpans r.scopes) else r.scopes

/-- ... and the resource after it -/
def fR (sorted : Bool) (r : ResourceSpans) : ResourceSpans := if sorted then sortResourceScopes r else r

/-- fuel that is enough for one resource -/
def ResFuel (fuel : Nat) (sorted : Bool) (r : ResourceSpans) : Prop :=
  r.scopes.length < fuel ∧ (preScopes sorted r).length < fuel ∧ ∀ sc ∈ preScopes sorted r, ScopeFuel fuel sc

theorem sortP_length {α : Type} (p : α → α → Bool) (l : List α) : (sortP p l).length = l.length := by
  have : ∀ (x : α) (l : List α), (insertP p x l).length = l.length + 1 := by
    intro x l
    induction l with
    | nil => rfl
    | cons y t ih => simp only [insertP]; split <;> simp [ih]
  induction l with
  | nil => rfl
  | cons x t ih => simp [sortP, this, ih]

theorem fS_true : fS true = sortScopeSpans := by funext sc; rfl

theorem map_fS_false (l : List ScopeSpans) : l.map (fS false) = l := by
  have : fS false = id := by funext sc; rfl
  rw [this, List.map_id]

/-- one round of the loop over the resources -/
theorem res_step (fuel : Nat) (sorted : Bool) (P Q : List ResourceSpans) (r : ResourceSpans) (w : TState)
    (hf : ResFuel fuel sorted r) (loc : Nat → Int) :
    ∃ loc', (convert_loop2 fuel sorted (P.length : Int)).run ⟨(({ rss := P ++ r :: Q } : Traces), w), loc⟩
      = .next () ⟨(({ rss := P ++ fR sorted r :: Q } : Traces), writeResourceSpans sorted [fR sorted r] w), loc'⟩ := by
  have hr : FocusT (Ref.fst ⨾ Ptrace.Traces.ResourceSpans ⨾ Ptrace.ResourceSpansSlice.At (P.length : Int))
      (fun a => ({ rss := P ++ a :: Q } : Traces)) := by
    constructor
    · intro a w; simp
    · intro a b w; simp
  let W : TState := { w with cur := { w.cur with resource := ⟨r.url, SAttrs.mapUnsorted r.attrs w.cur.resource.attrs, r.dropped⟩ } }
  obtain ⟨hf1, hf2, hf3⟩ := hf
  cases sorted
  · refine ⟨loc, ?_⟩
    simp [convert_loop2, bind_run, pure_run, rdS, zoom, resourceUnsorted_eq, ite_run]
    rw [scopes_loop fuel false _ _ (fun a => ({ rss := P ++ a :: Q } : Traces)) ?_ r W _ ?_ hf1 hf3 _ ?_]
    · simp [writeResourceSpans, fR, map_fS_false, W]
    · exact hr
    · intro l w loc; simp [bind_run, pure_run]
    · simp [W]
  · simp [convert_loop2, bind_run, pure_run, rdS, zoom, resourceUnsorted_eq, ite_run]
    rw [sortBy_pure0 (ρ := Err) (fn3_pure fuel true _ _) _ _ r.scopes (by simp)]
    simp [setL, whileLoop]
    rw [run_next_of_exists (scopes_merge fuel true _ _ (fun a => ({ rss := P ++ a :: Q } : Traces)) ?hr r _ W _ ?hl ?hf)]
    case hr => exact hr
    case hl => simp
    case hf => rw [sortP_length]; exact hf1
    simp only []
    rw [scopes_loop fuel true _ _ (fun a => ({ rss := P ++ a :: Q } : Traces)) ?_
      { r with scopes := preScopes true r } W _ ?_ hf2 hf3 _ ?_]
    · apply Exists.intro
      simp only [writeResourceSpans, fR, sortResourceScopes, preScopes, W, fS_true, if_true]
      rfl
    · exact hr
    · intro l w loc; simp [bind_run, pure_run]
    · simp [W, preScopes, sortStable_eqP]

theorem fR_true : fR true = sortResourceScopes := by funext r; rfl

theorem map_fR_false (l : List ResourceSpans) : l.map (fR false) = l := by
  have : fR false = id := by funext r; rfl
  rw [this, List.map_id]

theorem resources_loop (fuel : Nat) (sorted : Bool) (L : List ResourceSpans) (w : TState) (bound : M CS Err Int)
    (hbound : ∀ l w loc, bound.run ⟨(({ rss := l } : Traces), w), loc⟩
      = .next (l.length : Int) ⟨(({ rss := l } : Traces), w), loc⟩)
    (hfuel : L.length < fuel) (hres : ∀ r ∈ L, ResFuel fuel sorted r) (s : Frame CS)
    (hs0 : s.obj = (({ rss := L } : Traces), w)) :
    ∃ loc', (forUp fuel 0 bound (convert_loop2 fuel sorted)).run s
      = .next () ⟨(({ rss := L.map (fR sorted) } : Traces), writeResourceSpans sorted (L.map (fR sorted)) w), loc'⟩ := by
  obtain ⟨o, loc⟩ := s
  simp only at hs0
  subst hs0
  have key := forUp_steps (fun _ _ => True) (fun _ => trivial) (fun _ _ _ _ _ => trivial)
    bound (convert_loop2 fuel sorted) L.length
    (fun j => (({ rss := (L.take j).map (fR sorted) ++ L.drop j } : Traces),
               writeResourceSpans sorted ((L.take j).map (fR sorted)) w)) ?_ ?_ L.length 0 fuel loc (by omega) hfuel
  · obtain ⟨loc', h, -⟩ := key
    exact ⟨loc', by simpa [writeResourceSpans, forUp] using h⟩
  · intro j loc hj
    rw [hbound]
    simp <;> omega
  · intro j loc hj
    have hA : ((L.take j).map (fR sorted)).length = j := by simp; omega
    obtain ⟨loc1, h3⟩ := res_step fuel sorted ((L.take j).map (fR sorted)) (L.drop (j + 1)) L[j]
      (writeResourceSpans sorted ((L.take j).map (fR sorted)) w) (hres _ (List.getElem_mem _)) loc
    rw [hA] at h3
    refine ⟨loc1, ?_, trivial⟩
    simp only [List.drop_eq_getElem_cons hj]
    rw [h3]
    have hk' : L[j]? = some L[j] := by simp
    rw [List.take_add_one, hk', Option.toList_some, List.map_append, writeResourceSpans_append]
    simp

/-- what the sorting mode does to the batch before the loop over the resources -/
def preRes (sorted : Bool) (t : Traces) : List ResourceSpans :=
  if sorted then mergeAdjacent cmpResourceSpans mergeResources (sortStable cmpResourceSpans t.rss) else t.rss

/-- fuel that is enough for a batch: more than the length of every slice a loop runs over -/
def Fuel (fuel : Nat) (sorted : Bool) (t : Traces) : Prop :=
  t.rss.length < fuel ∧ (preRes sorted t).length < fuel ∧ ∀ r ∈ preRes sorted t, ResFuel fuel sorted r

/-- **Convert = the hand model**: with enough fuel, on every batch and every state of the writer's
    record, `Convert` returns nil, leaves the batch as the hand model's `sortTraces` (sorting mode) or
    untouched (plain mode), and has written exactly the records of `writeResourceSpans`, in order. -/
theorem convert_eq (fuel : Nat) (sorted : Bool) (t : Traces) (w : TState) (hf : Fuel fuel sorted t) :
    exec (convert fuel sorted) (t, w)
      = .ok none (if sorted then sortTraces t else t,
                  writeResourceSpans sorted (if sorted then (sortTraces t).rss else t.rss) w) := by
  obtain ⟨rss⟩ := t
  obtain ⟨hf1, hf2, hf3⟩ := hf
  cases sorted
  · simp only [exec, convert, bind_run, ite_run, pure_run, Bool.false_eq_true, if_false]
    rw [run_next_of_exists (resources_loop fuel false rss w _ ?hb hf1 hf3 _ ?hs)]
    case hb => intro l w loc; simp [bind_run, pure_run, rdS]
    case hs => rfl
    simp [ret, map_fR_false]
  · simp [exec, convert, bind_run, ite_run, pure_run]
    rw [sortBy_pure0 (ρ := Err) (fn1_pure fuel true) _ _ rss (by simp)]
    simp [setL, whileLoop]
    rw [run_next_of_exists (res_merge fuel true _ w _ (by simp) (by rw [sortP_length]; exact hf1))]
    simp only []
    rw [run_next_of_exists (resources_loop fuel true (preRes true ⟨rss⟩) w _ ?hb hf2 hf3 _ ?hs)]
    case hb => intro l w loc; simp [bind_run, pure_run, rdS]
    case hs => simp [preRes, sortStable_eqP]
    simp [ret, sortTraces, fR_true, preRes]

/-! ### enough fuel: more than the number of nodes of the batch -/

def wSpan (sp : Span) : Nat := 1 + sp.events.length + sp.links.length
def wScope (sc : ScopeSpans) : Nat := 1 + (sc.spans.map wSpan).sum
def wRes (r : ResourceSpans) : Nat := 1 + (r.scopes.map wScope).sum
/-- the number of resources, scopes, spans, events and links of a batch -/
def weight (t : Traces) : Nat := (t.rss.map wRes).sum

theorem length_le_sum {α : Type} (w : α → Nat) (hw : ∀ a, 1 ≤ w a) : ∀ l : List α, l.length ≤ (l.map w).sum
  | [] => Nat.le_refl _
  | x :: t => by have := length_le_sum w hw t; have := hw x; simp; omega

theorem mem_le_sum {α : Type} (w : α → Nat) : ∀ (l : List α) (x : α), x ∈ l → w x ≤ (l.map w).sum
  | [], _, h => by simp at h
  | y :: t, x, h => by
    simp only [List.mem_cons] at h
    rcases h with rfl | h
    · simp
    · have := mem_le_sum w t x h; simp; omega

theorem perm_sum_map {α : Type} (w : α → Nat) {l₁ l₂ : List α} (h : l₁.Perm l₂) : (l₁.map w).sum = (l₂.map w).sum := by
  induction h with
  | nil => rfl
  | cons x _ ih => simp [ih]
  | swap x y l => simp; omega
  | trans _ _ ih₁ ih₂ => exact ih₁.trans ih₂

theorem mergeFrom_sum {α : Type} (w : α → Nat) (cmp : α → α → Int) (merge : α → α → α)
    (hm : ∀ a b, w (merge a b) ≤ w a + w b) :
    ∀ (l : List α) (cur : α), ((mergeFrom cmp merge cur l).map w).sum ≤ w cur + (l.map w).sum
  | [], cur => by simp [mergeFrom]
  | y :: t, cur => by
    simp only [mergeFrom]
    split
    · have := mergeFrom_sum w cmp merge hm t (merge cur y); have := hm cur y; simp; omega
    · have := mergeFrom_sum w cmp merge hm t y; simp; omega

theorem mergeAdjacent_sum {α : Type} (w : α → Nat) (cmp : α → α → Int) (merge : α → α → α)
    (hm : ∀ a b, w (merge a b) ≤ w a + w b) (l : List α) :
    ((mergeAdjacent cmp merge l).map w).sum ≤ (l.map w).sum := by
  cases l with
  | nil => simp [mergeAdjacent]
  | cons x t => simpa [mergeAdjacent] using mergeFrom_sum w cmp merge hm t x

theorem wSpan_pos (sp : Span) : 1 ≤ wSpan sp := by simp [wSpan]; omega
theorem wScope_pos (sc : ScopeSpans) : 1 ≤ wScope sc := by simp [wScope]
theorem wRes_pos (r : ResourceSpans) : 1 ≤ wRes r := by simp [wRes]

theorem spanFuel_of_w {fuel : Nat} {sp : Span} (h : wSpan sp < fuel) : SpanFuel fuel sp := by
  simp only [wSpan] at h
  exact ⟨by omega, by omega⟩

theorem scopeFuel_of_w {fuel : Nat} {sc : ScopeSpans} (h : wScope sc < fuel) : ScopeFuel fuel sc := by
  simp only [wScope] at h
  have h1 := length_le_sum wSpan wSpan_pos sc.spans
  refine ⟨by omega, fun sp hsp => spanFuel_of_w ?_⟩
  have := mem_le_sum wSpan sc.spans sp hsp
  omega

theorem preScopes_sum (sorted : Bool) (r : ResourceSpans) :
    ((preScopes sorted r).map wScope).sum ≤ (r.scopes.map wScope).sum := by
  cases sorted
  · exact Nat.le_refl _
  · simp only [preScopes, if_true]
    refine Nat.le_trans (mergeAdjacent_sum wScope _ _ ?_ _) (Nat.le_of_eq (perm_sum_map wScope (sortStable_perm _ _)))
    intro a b
    simp [wScope, mergeScopes]; omega

theorem resFuel_of_w {fuel : Nat} (sorted : Bool) {r : ResourceSpans} (h : wRes r < fuel) : ResFuel fuel sorted r := by
  simp only [wRes] at h
  have h1 := length_le_sum wScope wScope_pos r.scopes
  have h2 := preScopes_sum sorted r
  have h3 := length_le_sum wScope wScope_pos (preScopes sorted r)
  refine ⟨by omega, by omega, fun sc hsc => scopeFuel_of_w ?_⟩
  have := mem_le_sum wScope _ sc hsc
  omega

theorem preRes_sum (sorted : Bool) (t : Traces) : ((preRes sorted t).map wRes).sum ≤ weight t := by
  cases sorted
  · exact Nat.le_refl _
  · simp only [preRes, if_true, weight]
    refine Nat.le_trans (mergeAdjacent_sum wRes _ _ ?_ _) (Nat.le_of_eq (perm_sum_map wRes (sortStable_perm _ _)))
    intro a b
    simp [wRes, mergeResources]; omega

/-- more fuel than the batch has nodes is enough -/
theorem fuel_of_weight {fuel : Nat} (sorted : Bool) {t : Traces} (h : weight t < fuel) : Fuel fuel sorted t := by
  have h1 := length_le_sum wRes wRes_pos t.rss
  have h2 := preRes_sum sorted t
  have h3 := length_le_sum wRes wRes_pos (preRes sorted t)
  refine ⟨by simp only [weight] at h; omega, by omega, fun r hr => resFuel_of_w sorted ?_⟩
  have := mem_le_sum wRes _ r hr
  omega

/-- **Convert = tracesToStef**: started with a fresh writer, `Convert` (both modes) has written
    exactly the records of the hand model, in order, for every batch - with any fuel above the number
    of nodes of the batch (so no loop of the translated code runs longer than that). -/
theorem convert_records (sorted : Bool) (t : Traces) (fuel : Nat) (hf : weight t < fuel) :
    ∃ t' cur, exec (convert fuel sorted) (t, {}) = .ok none (t', ⟨cur, (tracesToStef sorted t).reverse⟩) := by
  rw [convert_eq fuel sorted t {} (fuel_of_weight sorted hf)]
  cases sorted
  · exact ⟨t, (writeResourceSpans false t.rss {}).cur, by simp [tracesToStef]⟩
  · exact ⟨sortTraces t, (writeResourceSpans true (sortTraces t).rss {}).cur, by simp [tracesToStef]⟩

end Stef.Proofs.TracesFlowGen
