/-
  Stef.Proofs.WireSerdeGen: the wire schema (de)serialization REGENERATED from the Go source
  (Stef/Gen/WireSerde.lean, by extract/wireserde.go) computes exactly what the hand model
  Stef.WireSchema (`Stef.Idl.serialize` / `deserialize`) says, on every heap. These proofs are
  the tie of the hand model to the source text: a change of `WireSchema.Serialize`,
  `WireSchema.Deserialize`, `internal.WriteUvarint` or of the iterator either still proves equal
  here, or breaks this file (or makes the generator fail).
-/
import Stef.Gen.WireSerde

-- simp sets below name a few lemmas more than today's generated text needs, so that harmless
-- rewrites of the Go source keep proving
set_option linter.unusedSimpArgs false

namespace Stef.Proofs.WireSerdeGen
open Stef.WireSerdeSem Stef.Idl

/-! ### the monad -/

theorem bind_run {ρ α β : Type} (m : M ρ α) (f : α → M ρ β) (h : Heap) :
    (m >>= f).run h = match m.run h with
      | .next a h' => (f a).run h'
      | .ret r h' => .ret r h'
      | .panic => .panic := rfl

theorem pure_run {ρ α : Type} (a : α) (h : Heap) : (pure a : M ρ α).run h = .next a h := rfl

/-! ### `binary.ReadUvarint`: the full version of WireSerdeSem is the hand model's -/

theorem readFull_go : ∀ (f i x s : Nat) (bs : List Nat),
    match readUvarintGo f i x s bs with
    | .ok (v, rest) => readUvarintFull f i x s bs = (v, none, rest) ∧ v < 2 ^ 64
    | .error e => ∃ v rest, readUvarintFull f i x s bs = (v, some e, rest) := by
  intro f
  induction f with
  | zero => intro i x s bs; simp [readUvarintGo, readUvarintFull]
  | succ f ih =>
    intro i x s bs
    cases bs with
    | nil => simp [readUvarintGo, readUvarintFull]
    | cons b rest =>
      simp only [readUvarintGo, readUvarintFull]
      by_cases hb : b < 128
      · by_cases h9 : (i = 9 && b > 1) = true
        · simp [hb, h9]
        · simp only [hb, h9, if_true]
          exact ⟨by simp, Nat.mod_lt _ (by decide)⟩
      · simp only [hb, if_false]
        exact ih _ _ _ _

/-- `readUvarint` of the vocabulary against `Stef.Idl.readUvarint`. -/
theorem readUvarint_spec {ρ : Type} (h : Heap) :
    match Idl.readUvarint h.src with
    | .ok (v, rest) =>
        (WireSerdeSem.readUvarint (ρ := ρ)).run h = .next (v, none) { h with src := rest } ∧ v < 2 ^ 64
    | .error e => ∃ v rest,
        (WireSerdeSem.readUvarint (ρ := ρ)).run h = .next (v, some (GoErr.ofRErr e)) { h with src := rest } := by
  have := readFull_go 10 0 0 0 h.src
  unfold Idl.readUvarint
  cases hr : readUvarintGo 10 0 0 0 h.src with
  | error e =>
    rw [hr] at this
    obtain ⟨v, rest, hf⟩ := this
    exact ⟨v, rest, by simp [WireSerdeSem.readUvarint, hf]⟩
  | ok p =>
    obtain ⟨v, rest⟩ := p
    rw [hr] at this
    exact ⟨by simp [WireSerdeSem.readUvarint, this.1], this.2⟩

/-! ### `internal.WriteUvarint` and `WireSchema.Serialize` -/

/-- `internal.WriteUvarint(v, dst)` appends the varint of `v` and returns nil. -/
theorem writeUvarint_eq (v : Nat) (h : Heap) :
    (Gen.WireSerde.writeUvarint v).run h = .ret none { h with buf := h.buf ++ uvarint v } := by
  simp [Gen.WireSerde.writeUvarint, bind_run, bufWrite, ret, appendUvarint]

theorem forEach_append {ρ β : Type} (g : β → List Nat) (body : β → M ρ Unit)
    (hb : ∀ x h, (body x).run h = .next () { h with buf := h.buf ++ g x }) (xs : List β) (h : Heap) :
    (forEach xs body).run h = .next () { h with buf := h.buf ++ (xs.map g).flatten } := by
  show forEachRun xs body h = _
  induction xs generalizing h with
  | nil => simp [forEachRun]
  | cons x rest ih => simp [forEachRun, hb, ih, List.append_assoc]

/-- **Gen.serialize = Idl.serialize**: `Serialize` appends the hand model's bytes to the buffer,
    touches nothing else and returns nil (counts are `uint`s, the length fits 64 bit). -/
theorem serialize_eq (h : Heap) (hlen : h.counts.length < 2 ^ 64) (hw : ∀ c ∈ h.counts, c < 2 ^ 64) :
    Gen.WireSerde.serialize.run h = .ret none { h with buf := h.buf ++ Idl.serialize h.counts } := by
  have hl : ofInt 64 (len h.counts) = h.counts.length := by
    simp only [ofInt, len]
    rw [← Int.natCast_emod, Int.toNat_natCast]
    exact Nat.mod_eq_of_lt hlen
  have hmap : h.counts.map (fun x => uvarint (wrap 64 x)) = h.counts.map uvarint :=
    List.map_congr_left (fun c hc => by rw [wrap, Nat.mod_eq_of_lt (hw c hc)])
  unfold Gen.WireSerde.serialize
  simp only [bind_run, pure_run, getCounts, call, writeUvarint_eq, hl, ne_eq, not_true_eq_false, if_false]
  rw [forEach_append (fun x => uvarint (wrap 64 x))]
  · simp [ret, hmap, Idl.serialize, List.append_assoc]
  · intro x h'
    simp [bind_run, call, writeUvarint_eq, pure_run]

/-! ### `WireSchema.Deserialize` -/

theorem take_succ_set (l : List Nat) (j v : Nat) (hj : j < l.length) :
    (l.set j v).take (j + 1) = l.take j ++ [v] := by
  induction l generalizing j with
  | nil => simp at hj
  | cons x xs ih =>
    cases j with
    | zero => simp
    | succ k => simp at hj; simp [ih k hj]

/-- the loop of `Deserialize`: `k` more counts are read into the positions `j`, `j+1`, .. of a
    slice that has room for them; an error of `ReadUvarint` is returned as it is. -/
theorem forFrom_read {body : Int → M Err Unit}
    (hb : ∀ (j : Nat) (h : Heap), j < h.counts.length →
      match Idl.readUvarint h.src with
      | .ok (v, rest) => (body j).run h = .next () { h with counts := h.counts.set j v, src := rest }
      | .error e => ∃ h', (body j).run h = .ret (some (GoErr.ofRErr e)) h')
    (k j : Nat) (h : Heap) (hlen : h.counts.length = j + k) :
    match readCounts k h.src with
    | .ok vs => ∃ rest, forFrom k j body h = .next () { h with counts := h.counts.take j ++ vs, src := rest }
    | .error e => ∃ h', forFrom k j body h = .ret (some (GoErr.ofRErr e)) h' := by
  induction k generalizing j h with
  | zero =>
    refine ⟨h.src, ?_⟩
    have : List.take j h.counts = h.counts := List.take_of_length_le (by omega)
    simp [forFrom, this]
  | succ k ih =>
    have hj : j < h.counts.length := by omega
    have hbj := hb j h hj
    simp only [readCounts, forFrom]
    cases hr : Idl.readUvarint h.src with
    | error e =>
      rw [hr] at hbj
      obtain ⟨h', hh⟩ := hbj
      exact ⟨h', by rw [hh]⟩
    | ok p =>
      obtain ⟨v, rest⟩ := p
      rw [hr] at hbj
      simp only at hbj ⊢
      rw [hbj]
      simp only
      have hcast : ((j : Int) + 1) = ((j + 1 : Nat) : Int) := by omega
      rw [hcast]
      have := ih (j + 1) { h with counts := h.counts.set j v, src := rest }
        (by simp only [List.length_set]; omega)
      simp only at this
      cases hc : readCounts k rest with
      | error e =>
        rw [hc] at this
        exact this
      | ok vs =>
        rw [hc] at this
        obtain ⟨rest', hh⟩ := this
        refine ⟨rest', ?_⟩
        rw [hh, take_succ_set _ _ _ hj]
        simp [List.append_assoc]

theorem forFrom_read_of {body : Int → M Err Unit} {k : Nat} {h : Heap} {o : Out Err Unit}
    (hX : forFrom k 0 body h = o) (hlen : h.counts.length = k)
    (hb : ∀ (j : Nat) (h : Heap), j < h.counts.length →
      match Idl.readUvarint h.src with
      | .ok (v, rest) => (body j).run h = .next () { h with counts := h.counts.set j v, src := rest }
      | .error e => ∃ h', (body j).run h = .ret (some (GoErr.ofRErr e)) h') :
    match readCounts k h.src with
    | .ok vs => ∃ rest, o = .next () { h with counts := vs, src := rest }
    | .error e => ∃ h', o = .ret (some (GoErr.ofRErr e)) h' := by
  have := forFrom_read hb k 0 h (by omega)
  simp only [Int.natCast_zero, hX, List.take_zero, List.nil_append] at this
  exact this

theorem toInt_small (n : Nat) (hn : n < 2 ^ 63) : toInt n = n := by
  have h1 : n % 2 ^ 64 = n := Nat.mod_eq_of_lt (by omega)
  simp [toInt, h1, hn]

/-- **Gen.deserialize = Idl.deserialize** on every heap: never a panic; on success the receiver
    holds exactly the counts of the hand model, whatever it held before; an error is the hand
    model's error (the receiver may then hold a partly filled slice). Only `maxStructCount < 2^63`
    is used of the regenerated constant. -/
theorem deserialize_eq (h : Heap) :
    match Idl.deserialize h.src with
    | .ok cs => ∃ rest, Gen.WireSerde.deserialize.run h = .ret none { h with counts := cs, src := rest }
    | .error e => ∃ h', Gen.WireSerde.deserialize.run h = .ret (some (GoErr.ofRErr e)) h' := by
  have hmax : Gen.WireSerde.c_maxStructCount = Stef.Gen.maxStructCount := rfl
  have hmax63 : Stef.Gen.maxStructCount < 2 ^ 63 := by decide
  have hr0 := readUvarint_spec (ρ := Err) h
  unfold Gen.WireSerde.deserialize Idl.deserialize
  cases hr : Idl.readUvarint h.src with
  | error e =>
    rw [hr] at hr0
    obtain ⟨v, rest, hh⟩ := hr0
    exact ⟨{ h with src := rest }, by simp [bind_run, hh, ret]⟩
  | ok p =>
    obtain ⟨count, rest⟩ := p
    rw [hr] at hr0
    obtain ⟨hh, _⟩ := hr0
    simp only [bind_run, hh, ne_eq, not_true_eq_false, if_false, pure_run, hmax]
    by_cases hlim : count > Stef.Gen.maxStructCount
    · simp only [hlim, if_true]
      exact ⟨{ h with src := rest }, by simp [bind_run, ret, GoErr.ofRErr]⟩
    · have hci : toInt count = (count : Int) := toInt_small count (by omega)
      have hneg : ¬ ((count : Int) < 0) := by omega
      simp only [hlim, if_false, bind_run, pure_run, hci, makeCounts, hneg, setCounts, forLt, Int.toNat_natCast]
      -- the loop body is taken from the goal (by `generalize`), not restated here
      generalize hX : forFrom count 0 _ _ = o
      have hloop := forFrom_read_of hX (by simp) (by
        intro j h' hj
        have hs := readUvarint_spec (ρ := Err) h'
        cases hr' : Idl.readUvarint h'.src with
        | error e =>
          rw [hr'] at hs
          obtain ⟨v, rest', hh'⟩ := hs
          exact ⟨{ h' with src := rest' }, by simp [bind_run, hh', ret]⟩
        | ok p =>
          obtain ⟨v, rest'⟩ := p
          rw [hr'] at hs
          obtain ⟨hh', hv⟩ := hs
          have hw : wrap 64 v = v := Nat.mod_eq_of_lt hv
          have hjl : (j : Int) < (h'.counts.length : Int) := by omega
          simp [bind_run, hh', setCount, hw, hjl, hj])
      simp only at hloop
      cases hc : readCounts count rest with
      | error e =>
        rw [hc] at hloop
        obtain ⟨h', hh'⟩ := hloop
        exact ⟨h', by rw [hh']⟩
      | ok vs =>
        rw [hc] at hloop
        obtain ⟨rest', hh'⟩ := hloop
        exact ⟨rest', by rw [hh']; simp [ret]⟩

/-! ### the iterator -/

/-- `NextFieldCount` inside the slice: the count at `structIdx`, which moves on by one. -/
theorem nextFieldCount_in (h : Heap) (j : Nat) (hi : h.idx = j) (hj : j < h.counts.length) :
    Gen.WireSerde.nextFieldCount.run h = .ret (h.counts.getD j 0, none) { h with idx := (j + 1 : Nat) } := by
  have h1 : ¬ ((j : Int) ≥ len h.counts) := by simp only [len]; omega
  have h2 : (0 : Int) ≤ j ∧ (j : Int) < (h.counts.length : Int) := by omega
  simp only [Gen.WireSerde.nextFieldCount, bind_run, getIdx, getCounts, h1, if_false, pure_run,
    getCount, hi, h2, and_self, if_true, setIdx, ret, Int.toNat_natCast]
  rfl

/-- `NextFieldCount` at the end: an error, nothing changes. -/
theorem nextFieldCount_end (h : Heap) (hi : h.idx ≥ h.counts.length) :
    ∃ e, Gen.WireSerde.nextFieldCount.run h = .ret (0, some e) h := by
  have h1 : h.idx ≥ len h.counts := hi
  refine ⟨.new "struct count limit exceeded", ?_⟩
  simp [Gen.WireSerde.nextFieldCount, bind_run, getIdx, getCounts, h1, ret]

theorem done_eq (h : Heap) :
    Gen.WireSerde.done.run h = .ret (decide (h.idx ≥ (h.counts.length : Int))) h := by
  simp [Gen.WireSerde.done, bind_run, getIdx, getCounts, ret, len]

end Stef.Proofs.WireSerdeGen
