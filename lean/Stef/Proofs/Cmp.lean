/-
  Helper lemmas for property C09 (Stef/Props/C09.lean): integer facts about lexicographic
  composition, the order laws of the regenerated primitive comparators, and the induction over
  record trees. Core Lean only.
-/
import Stef.Cmp

namespace Stef.Cmp
open Stef

/-! ### three-way results -/

/-- the canonical three-way comparison of two integer keys -/
def sgnCmp (x y : Int) : Int := if y < x then 1 else if x < y then -1 else 0

/-- what transitivity needs of the three results `x = cmp a b`, `y = cmp b c`, `z = cmp a c`;
    closed under lexicographic composition (`Tri.lex`). -/
def Tri (x y z : Int) : Prop := (x < 0 → y < 0 → z < 0) ∧ (x = 0 → z = y) ∧ (y = 0 → z = x)

theorem Tri.le {x y z : Int} (h : Tri x y z) (hx : x ≤ 0) (hy : y ≤ 0) : z ≤ 0 := by
  obtain ⟨h1, h2, h3⟩ := h
  by_cases hx0 : x = 0
  · have := h2 hx0; omega
  · by_cases hy0 : y = 0
    · have := h3 hy0; omega
    · have := h1 (by omega) (by omega); omega

theorem Tri.lex {x1 y1 z1 x2 y2 z2 : Int} (h1 : Tri x1 y1 z1) (h2 : Tri x2 y2 z2) :
    Tri (lex x1 x2) (lex y1 y2) (lex z1 z2) := by
  obtain ⟨a1, b1, c1⟩ := h1
  obtain ⟨a2, b2, c2⟩ := h2
  unfold Stef.Cmp.lex
  refine ⟨?_, ?_, ?_⟩
  · intro hx hy
    by_cases hx1 : x1 = 0 <;> by_cases hy1 : y1 = 0 <;> simp [hx1, hy1] at hx hy ⊢
    · have e := b1 hx1; rw [hy1] at e; simp [e]; exact a2 hx hy
    · have e := b1 hx1; simp [e, hy1]; exact hy
    · have e := c1 hy1; simp [e, hx1]; exact hx
    · have := a1 hx hy
      have hz : z1 ≠ 0 := by omega
      simp [hz]; exact this
  · intro hx
    by_cases hx1 : x1 = 0
    · simp [hx1] at hx
      have e1 := b1 hx1; have e2 := b2 hx
      simp [e1, e2]
    · simp [hx1] at hx
  · intro hy
    by_cases hy1 : y1 = 0
    · simp [hy1] at hy
      have e1 := c1 hy1; have e2 := c2 hy
      simp [e1, e2]
    · simp [hy1] at hy

theorem lex_of_ne {a : Int} (b : Int) (h : a ≠ 0) : lex a b = a := by simp [lex, h]

/-- `Tri.lex` where the second components need to be related only when the first ones are both 0
    (a struct field: the values are compared only after the presence marks compared equal) -/
theorem tri_lex' {x1 y1 z1 x2 y2 z2 : Int} (h1 : Tri x1 y1 z1)
    (h2 : x1 = 0 → y1 = 0 → Tri x2 y2 z2) : Tri (lex x1 x2) (lex y1 y2) (lex z1 z2) := by
  by_cases hx1 : x1 = 0
  · by_cases hy1 : y1 = 0
    · exact Tri.lex h1 (h2 hx1 hy1)
    · have e : z1 = y1 := h1.2.1 hx1
      have ex : lex x1 x2 = x2 := by simp [Stef.Cmp.lex, hx1]
      have ey : lex y1 y2 = y1 := by simp [Stef.Cmp.lex, hy1]
      have ez : lex z1 z2 = y1 := by simp [Stef.Cmp.lex, e, hy1]
      rw [ex, ey, ez]
      refine ⟨?_, ?_, ?_⟩ <;> intros <;> omega
  · have ex : lex x1 x2 = x1 := by simp [Stef.Cmp.lex, hx1]
    by_cases hy1 : y1 = 0
    · have e : z1 = x1 := h1.2.2 hy1
      have ey : lex y1 y2 = y2 := by simp [Stef.Cmp.lex, hy1]
      have ez : lex z1 z2 = x1 := by simp [Stef.Cmp.lex, e, hx1]
      rw [ex, ey, ez]
      refine ⟨?_, ?_, ?_⟩ <;> intros <;> omega
    · have ey : lex y1 y2 = y1 := by simp [Stef.Cmp.lex, hy1]
      rw [ex, ey]
      refine ⟨?_, ?_, ?_⟩
      · intro hx hy
        have hz := h1.1 hx hy
        have ez : lex z1 z2 = z1 := lex_of_ne _ (by omega)
        omega
      · intro hx; omega
      · intro hy; omega

theorem Tri.sub (x y z : Int) : Tri (x - y) (y - z) (x - z) := by
  refine ⟨?_, ?_, ?_⟩ <;> intros <;> omega

theorem Tri.sgnCmp (x y z : Int) : Tri (sgnCmp x y) (sgnCmp y z) (sgnCmp x z) := by
  unfold Stef.Cmp.sgnCmp
  refine ⟨?_, ?_, ?_⟩ <;> (repeat' split) <;> intros <;> omega

theorem lex_neg (a b : Int) : lex (-a) (-b) = -(lex a b) := by
  unfold lex
  by_cases h : a = 0 <;> simp [h]

theorem lex_eq_zero {a b : Int} : lex a b = 0 ↔ a = 0 ∧ b = 0 := by
  unfold lex
  by_cases h : a = 0 <;> simp [h]

theorem lex_zero_left (b : Int) : lex 0 b = b := by simp [lex]

theorem skipAbsent_zero (p : Presence) : skipAbsent p 0 = 0 := by cases p <;> rfl

theorem skipAbsent_neg (p : Presence) (c : Int) : skipAbsent p (-c) = -(skipAbsent p c) := by
  cases p <;> simp [skipAbsent]

theorem tri_skipAbsent (p : Presence) {x y z : Int} (h : Tri x y z) :
    Tri (skipAbsent p x) (skipAbsent p y) (skipAbsent p z) := by
  cases p
  · exact ⟨fun h _ => h, fun _ => rfl, fun _ => rfl⟩
  · exact h
  · exact h

theorem sgnCmp_self (x : Int) : sgnCmp x x = 0 := by simp [sgnCmp]

theorem sgnCmp_antisymm (x y : Int) : sgnCmp x y = -(sgnCmp y x) := by
  unfold sgnCmp; (repeat' split) <;> omega

theorem sgnCmp_eq_zero {x y : Int} : sgnCmp x y = 0 ↔ x = y := by
  unfold sgnCmp; (repeat' split) <;> omega

/-! ### leaf laws -/

variable {α : Type}

/-- a three-way comparison that is a total preorder on the leaves satisfying `P` -/
structure LeafOrder (P : α → Prop) (c : α → α → Int) : Prop where
  refl : ∀ a, P a → c a a = 0
  antisymm : ∀ a b, P a → P b → c a b = -(c b a)
  tri : ∀ a b d, P a → P b → P d → Tri (c a b) (c b d) (c a d)

/-- ... and which returns 0 only for identical leaves -/
structure LeafExact (P : α → Prop) (c : α → α → Int) : Prop extends LeafOrder P c where
  eq_of_zero : ∀ a b, P a → P b → c a b = 0 → a = b

/-- the laws follow from an integer key that the comparison agrees with -/
theorem LeafOrder.of_key {P : α → Prop} {c : α → α → Int} (k : α → Int)
    (h : ∀ a b, P a → P b → c a b = sgnCmp (k a) (k b)) : LeafOrder P c where
  refl a ha := by rw [h a a ha ha]; exact sgnCmp_self _
  antisymm a b ha hb := by rw [h a b ha hb, h b a hb ha]; exact sgnCmp_antisymm _ _
  tri a b d ha hb hd := by rw [h a b ha hb, h b d hb hd, h a d ha hd]; exact Tri.sgnCmp _ _ _

theorem LeafExact.of_key {P : α → Prop} {c : α → α → Int} (k : α → Int)
    (h : ∀ a b, P a → P b → c a b = sgnCmp (k a) (k b))
    (inj : ∀ a b, P a → P b → k a = k b → a = b) : LeafExact P c where
  toLeafOrder := LeafOrder.of_key k h
  eq_of_zero a b ha hb hz := by
    rw [h a b ha hb] at hz
    exact inj a b ha hb (sgnCmp_eq_zero.mp hz)

/-- the textbook laws (reflexive, antisymmetric, transitive, zero only for identical values)
    give the `Tri` form used by the induction -/
theorem LeafExact.of_laws {P : α → Prop} {c : α → α → Int}
    (refl : ∀ a, P a → c a a = 0)
    (antisymm : ∀ a b, P a → P b → c a b = -(c b a))
    (trans : ∀ a b d, P a → P b → P d → c a b ≤ 0 → c b d ≤ 0 → c a d ≤ 0)
    (eq_of_zero : ∀ a b, P a → P b → c a b = 0 → a = b) : LeafExact P c where
  refl := refl
  antisymm := antisymm
  eq_of_zero := eq_of_zero
  tri a b d ha hb hd := by
    refine ⟨?_, ?_, ?_⟩
    · intro hx hy
      have hz := trans a b d ha hb hd (by omega) (by omega)
      by_cases h0 : c a d = 0
      · have := eq_of_zero a d ha hd h0
        subst this
        have := antisymm a b ha hb
        omega
      · omega
    · intro hx
      have := eq_of_zero a b ha hb hx
      subst this; rfl
    · intro hy
      have := eq_of_zero b d hb hd hy
      subst this; rfl


/-! ### the regenerated primitive comparators agree with integer keys -/


theorem uint64Compare_key (a b : BitVec 64) :
    Gen.uint64Compare a b = sgnCmp (a.toNat : Int) (b.toNat : Int) := by
  unfold Gen.uint64Compare sgnCmp
  simp only [BitVec.ult, decide_eq_true_eq]
  all_goals ((repeat' split) <;> omega)

theorem typOf_toNat (k : BitVec 8) : (typOf k).toNat = k.toNat + 1 := by
  have := k.isLt
  have h1 : (1 : BitVec 64).toNat = 1 := rfl
  simp only [typOf, BitVec.toNat_add, BitVec.toNat_setWidth, h1]
  omega

theorem typOf_inj {k j : BitVec 8} (h : typOf k = typOf j) : k = j := by
  apply BitVec.eq_of_toNat_eq
  have := congrArg BitVec.toNat h
  rw [typOf_toNat, typOf_toNat] at this
  omega

theorem u64_refl (w : BitVec 64) : Gen.uint64Compare w w = 0 := by
  rw [uint64Compare_key, sgnCmp_self]
theorem u64_antisymm (a b : BitVec 64) : Gen.uint64Compare a b = -(Gen.uint64Compare b a) := by
  rw [uint64Compare_key, uint64Compare_key, sgnCmp_antisymm]
theorem u64_tri (a b c : BitVec 64) : Tri (Gen.uint64Compare a b) (Gen.uint64Compare b c) (Gen.uint64Compare a c) := by
  rw [uint64Compare_key, uint64Compare_key, uint64Compare_key]; exact Tri.sgnCmp _ _ _
theorem u64_eq_of_zero {a b : BitVec 64} (h : Gen.uint64Compare a b = 0) : a = b := by
  rw [uint64Compare_key, sgnCmp_eq_zero] at h
  exact BitVec.eq_of_toNat_eq (by omega)
theorem u64_zero_typ (k : BitVec 8) : Gen.uint64Compare 0#64 (typOf k) = -1 := by
  rw [uint64Compare_key, typOf_toNat]
  have h0 : (0#64).toNat = 0 := rfl
  rw [h0]; unfold sgnCmp; (repeat' split) <;> omega
theorem u64_typ_zero (k : BitVec 8) : Gen.uint64Compare (typOf k) 0#64 = 1 := by
  rw [uint64Compare_key, typOf_toNat]
  have h0 : (0#64).toNat = 0 := rfl
  rw [h0]; unfold sgnCmp; (repeat' split) <;> omega

theorem int64Compare_key (a b : BitVec 64) :
    Gen.int64Compare a b = sgnCmp a.toInt b.toInt := by
  unfold Gen.int64Compare sgnCmp
  simp only [BitVec.slt, decide_eq_true_eq]
  all_goals ((repeat' split) <;> omega)

def boolKey (b : Bool) : Int := if b then 1 else 0

theorem boolCompare_key (a b : Bool) :
    Gen.boolCompare a b = sgnCmp (boolKey a) (boolKey b) := by
  cases a <;> cases b <;> decide

theorem signMask_eq : (0x8000000000000000#64) = BitVec.twoPow 64 63 := by decide

/-- the value of the regenerated `float64OrderKey` (IEEE-754 totalOrder key), by sign bit -/
theorem float64OrderKey_toNat (f : BitVec 64) :
    (Gen.float64OrderKey f).toNat =
      if 2 ^ 63 ≤ f.toNat then 2 ^ 64 - 1 - f.toNat else f.toNat + 2 ^ 63 := by
  have hlt := f.isLt
  unfold Gen.float64OrderKey
  simp only [signMask_eq, BitVec.and_twoPow]
  have hmsb : f.getLsbD 63 = decide (2 ^ 63 ≤ f.toNat) := by
    have := BitVec.msb_eq_decide f
    rw [BitVec.msb_eq_getLsbD_last] at this
    simpa using this
  by_cases h : 2 ^ 63 ≤ f.toNat
  · have hb : f.getLsbD 63 = true := by rw [hmsb]; simpa using h
    have hne : (BitVec.twoPow 64 63 != 0x0#64) = true := by decide
    simp only [hb, if_true, hne, h]
    rw [BitVec.toNat_not]
  · have hb : f.getLsbD 63 = false := by rw [hmsb]; simpa using h
    have hz : ((0#64 : BitVec 64) != 0x0#64) = false := by decide
    simp only [hb, hz, h, if_false, Bool.false_eq_true]
    have hand : f &&& BitVec.twoPow 64 63 = 0#64 := by rw [BitVec.and_twoPow, hb]; rfl
    rw [← BitVec.add_eq_or_of_and_eq_zero _ _ hand, BitVec.toNat_add, BitVec.toNat_twoPow]
    omega

/-- the integer key Float64Compare orders by -/
def f64Key (f : BitVec 64) : Int := ((Gen.float64OrderKey f).toNat : Int)

theorem float64Compare_key (a b : BitVec 64) :
    Gen.float64Compare a b = sgnCmp (f64Key a) (f64Key b) := by
  unfold Gen.float64Compare sgnCmp f64Key
  simp only [BitVec.ult, decide_eq_true_eq]
  all_goals ((repeat' split) <;> omega)

/-- the key is injective on ALL bit patterns (NaNs and both zeros included) -/
theorem f64Key_inj (a b : BitVec 64) (h : f64Key a = f64Key b) : a = b := by
  apply BitVec.eq_of_toNat_eq
  unfold f64Key at h
  have ea := float64OrderKey_toNat a
  have eb := float64OrderKey_toNat b
  generalize (Gen.float64OrderKey a).toNat = ka at ea h
  generalize (Gen.float64OrderKey b).toNat = kb at eb h
  have := a.isLt; have := b.isLt
  split at ea <;> split at eb <;> omega

/-- unless both are zeros, the key order is the order of the sign-magnitude keys `Flt.key`,
    i.e. for non-NaN values the IEEE-754 order of `<`, `>` -/
theorem f64Key_ieee (a b : BitVec 64)
    (hz : ¬ (Flt.isZero a = true ∧ Flt.isZero b = true)) :
    sgnCmp (f64Key a) (f64Key b) = sgnCmp (Flt.key a) (Flt.key b) := by
  unfold f64Key
  have ea := float64OrderKey_toNat a
  have eb := float64OrderKey_toNat b
  generalize (Gen.float64OrderKey a).toNat = ka at ea ⊢
  generalize (Gen.float64OrderKey b).toNat = kb at eb ⊢
  unfold Flt.isZero Flt.mag at hz
  unfold Flt.key Flt.neg Flt.mag sgnCmp
  have := a.isLt; have := b.isLt
  simp only [decide_eq_true_eq] at hz ⊢
  split at ea <;> split at eb <;> (repeat' split) <;> omega

/-! ### strings.Compare -/


theorem strCompare_cons (a b : Byte) (as bs : Bytes) :
    strCompare (a :: as) (b :: bs) = lex (sgnCmp (a.toNat : Int) (b.toNat : Int)) (strCompare as bs) := by
  simp only [strCompare, BitVec.ult, decide_eq_true_eq, lex, sgnCmp]
  all_goals ((repeat' split) <;> omega)

theorem strCompare_refl : ∀ a : Bytes, strCompare a a = 0
  | [] => by simp [strCompare]
  | a :: as => by rw [strCompare_cons, sgnCmp_self, lex_zero_left]; exact strCompare_refl as

theorem strCompare_antisymm : ∀ a b : Bytes, strCompare a b = -(strCompare b a)
  | [], [] => by simp [strCompare]
  | [], _ :: _ => by simp [strCompare]
  | _ :: _, [] => by simp [strCompare]
  | a :: as, b :: bs => by
    rw [strCompare_cons, strCompare_cons, sgnCmp_antisymm, strCompare_antisymm as bs, lex_neg]

theorem strCompare_eq_of_zero : ∀ a b : Bytes, strCompare a b = 0 → a = b
  | [], [], _ => rfl
  | [], _ :: _, h => by simp [strCompare] at h
  | _ :: _, [], h => by simp [strCompare] at h
  | a :: as, b :: bs, h => by
    rw [strCompare_cons, lex_eq_zero, sgnCmp_eq_zero] at h
    have h1 : a = b := BitVec.eq_of_toNat_eq (by omega)
    rw [h1, strCompare_eq_of_zero as bs h.2]

theorem strCompare_tri : ∀ a b c : Bytes, Tri (strCompare a b) (strCompare b c) (strCompare a c)
  | [], [], [] => by simp [strCompare, Tri]
  | [], [], _ :: _ => by simp [strCompare, Tri]
  | [], _ :: _, [] => by simp [strCompare, Tri]
  | [], _ :: _, _ :: _ => by simp [strCompare, Tri]
  | _ :: _, [], [] => by simp [strCompare, Tri]
  | _ :: _, [], _ :: _ => by simp [strCompare, Tri]
  | _ :: _, _ :: _, [] => by simp [strCompare, Tri]
  | a :: as, b :: bs, c :: cs => by
    rw [strCompare_cons, strCompare_cons, strCompare_cons]
    exact Tri.lex (Tri.sgnCmp _ _ _) (strCompare_tri as bs cs)

/-! ### induction over record trees -/

theorem cmp_rank_ne (o : LeafOps α) (a b : Value α) (h : a.rank ≠ b.rank) : cmp o a b = a.rank - b.rank := by
  cases a <;> cases b <;> simp [cmp, Value.rank] at h ⊢

theorem Tri.of_ranks {x y z ra rb rc : Int}
    (hx : ra ≠ rb → x = ra - rb) (hy : rb ≠ rc → y = rb - rc) (hz : ra ≠ rc → z = ra - rc)
    (h : ¬ (ra = rb ∧ rb = rc)) : Tri x y z := by
  by_cases h1 : ra = rb
  · have h2 : rb ≠ rc := fun e => h ⟨h1, e⟩
    have h3 : ra ≠ rc := by omega
    have ey := hy h2; have ez := hz h3
    refine ⟨?_, ?_, ?_⟩ <;> intros <;> omega
  · have ex := hx h1
    by_cases h2 : rb = rc
    · have h3 : ra ≠ rc := by omega
      have ez := hz h3
      refine ⟨?_, ?_, ?_⟩ <;> intros <;> omega
    · have ey := hy h2
      by_cases h3 : ra = rc
      · refine ⟨?_, ?_, ?_⟩ <;> intros <;> omega
      · have ez := hz h3
        refine ⟨?_, ?_, ?_⟩ <;> intros <;> omega

theorem presCmp_eq_zero {p q : Presence} (h : presCmp p q = 0) : p = q := by
  cases p <;> cases q <;> simp [presCmp, Presence.rank] at h ⊢

theorem cmpValues_zero_len (o : LeafOps α) : ∀ a b : Values α, cmpValues o a b = 0 → a.len = b.len := by
  intro a b h
  cases a with
  | nil => cases b with
    | nil => rfl
    | cons w s => simp [cmpValues] at h
  | cons v r => cases b with
    | nil => simp [cmpValues] at h
    | cons w s =>
      simp only [cmpValues, lex_eq_zero] at h
      simp only [Values.len]
      rw [cmpValues_zero_len o r s h.2]

theorem cmpKeys_zero_len (o : LeafOps α) : ∀ a b : Pairs α, cmpKeys o a b = 0 → a.len = b.len := by
  intro a b h
  cases a with
  | nil => cases b with
    | nil => rfl
    | cons j w s => simp only [cmpKeys] at h; omega
  | cons k v r => cases b with
    | nil => simp only [cmpKeys] at h; omega
    | cons j w s =>
      simp only [cmpKeys, lex_eq_zero] at h
      simp only [Pairs.len]
      rw [cmpKeys_zero_len o r s h.2]

mutual
theorem cmp_refl {P : α → Prop} {o : LeafOps α} (h : LeafOrder P o.cmp) :
    ∀ v : Value α, v.All P → cmp o v v = 0
  | .leaf a, hv => by simp only [cmp]; exact h.refl a hv
  | .null, _ => by simp [cmp]
  | .struct fs, hv => by simp only [cmp]; exact cmpFields_refl h fs hv
  | .none, _ => by simp only [cmp]; exact u64_refl _
  | .choice k v, hv => by simp only [cmp, u64_refl, lex_zero_left]; exact cmp_refl h v hv
  | .arr es, hv => by simp only [cmp, Int.sub_self, lex_zero_left]; exact cmpValues_refl h es hv
  | .mmap ps, hv => by
    simp only [cmp]
    rw [cmpKeys_refl h ps hv, lex_zero_left]; exact cmpVals_refl h ps hv
theorem cmpFields_refl {P : α → Prop} {o : LeafOps α} (h : LeafOrder P o.cmp) :
    ∀ v : Fields α, v.All P → cmpFields o v v = 0
  | .nil, _ => by simp [cmpFields]
  | .cons p v rest, hv => by
    simp only [cmpFields, presCmp, Int.sub_self, lex_zero_left]
    rw [cmp_refl h v hv.1, skipAbsent_zero, lex_zero_left]; exact cmpFields_refl h rest hv.2
theorem cmpValues_refl {P : α → Prop} {o : LeafOps α} (h : LeafOrder P o.cmp) :
    ∀ v : Values α, v.All P → cmpValues o v v = 0
  | .nil, _ => by simp [cmpValues]
  | .cons v rest, hv => by
    simp only [cmpValues]
    rw [cmp_refl h v hv.1, lex_zero_left]; exact cmpValues_refl h rest hv.2
theorem cmpKeys_refl {P : α → Prop} {o : LeafOps α} (h : LeafOrder P o.cmp) :
    ∀ v : Pairs α, v.All P → cmpKeys o v v = 0
  | .nil, _ => by simp [cmpKeys]
  | .cons k v rest, hv => by
    simp only [cmpKeys]
    rw [cmp_refl h k hv.1, lex_zero_left]; exact cmpKeys_refl h rest hv.2.2
theorem cmpVals_refl {P : α → Prop} {o : LeafOps α} (h : LeafOrder P o.cmp) :
    ∀ v : Pairs α, v.All P → cmpVals o v v = 0
  | .nil, _ => by simp [cmpVals]
  | .cons k v rest, hv => by
    simp only [cmpVals]
    rw [cmp_refl h v hv.2.1, lex_zero_left]; exact cmpVals_refl h rest hv.2.2
end

theorem presCmp_antisymm (p q : Presence) : presCmp p q = -(presCmp q p) := by
  simp only [presCmp]; omega

mutual
theorem cmp_antisymm {P : α → Prop} {o : LeafOps α} (h : LeafOrder P o.cmp) :
    ∀ a b : Value α, a.All P → b.All P → cmp o a b = -(cmp o b a) := by
  intro a b ha hb
  cases a with
  | leaf x => cases b with
    | leaf y => simp only [cmp]; exact h.antisymm x y ha hb
    | _ => simp [cmp, Value.rank]
  | null => cases b with
    | _ => simp [cmp, Value.rank]
  | struct fs => cases b with
    | struct gs => simp only [cmp]; exact cmpFields_antisymm h fs gs ha hb
    | _ => simp [cmp, Value.rank]
  | none => cases b with
    | none => simp only [cmp, u64_refl]; rfl
    | choice j w => simp only [cmp, u64_zero_typ, u64_typ_zero]
    | _ => simp [cmp, Value.rank]
  | choice k v => cases b with
    | none => simp only [cmp, u64_zero_typ, u64_typ_zero]; rfl
    | choice j w =>
      simp only [cmp]
      rw [u64_antisymm, cmp_antisymm h v w ha hb, lex_neg]
    | _ => simp [cmp, Value.rank]
  | arr es => cases b with
    | arr fs =>
      simp only [cmp]
      rw [cmpValues_antisymm h es fs ha hb, ← lex_neg]; congr 1; omega
    | _ => simp [cmp, Value.rank]
  | mmap ps => cases b with
    | mmap qs =>
      simp only [cmp]
      rw [cmpKeys_antisymm h ps qs ha hb, cmpVals_antisymm h ps qs ha hb, lex_neg]
    | _ => simp [cmp, Value.rank]
theorem cmpFields_antisymm {P : α → Prop} {o : LeafOps α} (h : LeafOrder P o.cmp) :
    ∀ a b : Fields α, a.All P → b.All P → cmpFields o a b = -(cmpFields o b a) := by
  intro a b ha hb
  cases a with
  | nil => cases b <;> simp [cmpFields]
  | cons p v r => cases b with
    | nil => simp [cmpFields]
    | cons q w s =>
      simp only [cmpFields]
      by_cases e : p = q
      · have hs : skipAbsent p (cmp o v w) = -(skipAbsent q (cmp o w v)) := by
          rw [e, cmp_antisymm h v w ha.1 hb.1, skipAbsent_neg]
        rw [hs, cmpFields_antisymm h r s ha.2 hb.2, lex_neg, presCmp_antisymm p q, lex_neg]
      · have h1 : presCmp p q ≠ 0 := fun h0 => e (presCmp_eq_zero h0)
        have h2 : presCmp q p ≠ 0 := fun h0 => e (presCmp_eq_zero h0).symm
        rw [lex_of_ne _ h1, lex_of_ne _ h2]
        exact presCmp_antisymm p q
theorem cmpValues_antisymm {P : α → Prop} {o : LeafOps α} (h : LeafOrder P o.cmp) :
    ∀ a b : Values α, a.All P → b.All P → cmpValues o a b = -(cmpValues o b a) := by
  intro a b ha hb
  cases a with
  | nil => cases b <;> simp [cmpValues]
  | cons v r => cases b with
    | nil => simp [cmpValues]
    | cons w s =>
      simp only [cmpValues]
      rw [cmp_antisymm h v w ha.1 hb.1, cmpValues_antisymm h r s ha.2 hb.2, lex_neg]
theorem cmpKeys_antisymm {P : α → Prop} {o : LeafOps α} (h : LeafOrder P o.cmp) :
    ∀ a b : Pairs α, a.All P → b.All P → cmpKeys o a b = -(cmpKeys o b a) := by
  intro a b ha hb
  cases a with
  | nil => cases b <;> simp [cmpKeys]
  | cons k v r => cases b with
    | nil => simp [cmpKeys]
    | cons j w s =>
      simp only [cmpKeys]
      rw [cmp_antisymm h k j ha.1 hb.1, cmpKeys_antisymm h r s ha.2.2 hb.2.2, lex_neg]
theorem cmpVals_antisymm {P : α → Prop} {o : LeafOps α} (h : LeafOrder P o.cmp) :
    ∀ a b : Pairs α, a.All P → b.All P → cmpVals o a b = -(cmpVals o b a) := by
  intro a b ha hb
  cases a with
  | nil => cases b <;> simp [cmpVals]
  | cons k v r => cases b with
    | nil => simp [cmpVals]
    | cons j w s =>
      simp only [cmpVals]
      rw [cmp_antisymm h v w ha.2.1 hb.2.1, cmpVals_antisymm h r s ha.2.2 hb.2.2, lex_neg]
end

mutual
theorem cmp_tri {P : α → Prop} {o : LeafOps α} (h : LeafOrder P o.cmp) :
    ∀ a b c : Value α, a.All P → b.All P → c.All P → Tri (cmp o a b) (cmp o b c) (cmp o a c) := by
  intro a b c ha hb hc
  by_cases hr : a.rank = b.rank ∧ b.rank = c.rank
  · obtain ⟨h1, h2⟩ := hr
    cases a with
    | leaf x => cases b with
      | leaf y => cases c with
        | leaf z => simp only [cmp]; exact h.tri x y z ha hb hc
        | _ => exfalso; simp [Value.rank] at h2
      | _ => exfalso; simp [Value.rank] at h1
    | null => cases b with
      | null => cases c with
        | null => simp [cmp, Tri]
        | struct hs => simp [cmp, Tri]
        | _ => exfalso; simp [Value.rank] at h2
      | struct gs => cases c with
        | null => simp [cmp, Tri]
        | struct hs => simp [cmp, Tri]
        | _ => exfalso; simp [Value.rank] at h2
      | _ => exfalso; simp [Value.rank] at h1
    | struct fs => cases b with
      | null => cases c with
        | null => simp [cmp, Tri]
        | struct hs => simp [cmp, Tri]
        | _ => exfalso; simp [Value.rank] at h2
      | struct gs => cases c with
        | null => simp [cmp, Tri]
        | struct hs => simp only [cmp]; exact cmpFields_tri h fs gs hs ha hb hc
        | _ => exfalso; simp [Value.rank] at h2
      | _ => exfalso; simp [Value.rank] at h1
    | none => cases b with
      | none => cases c with
        | none => simp [cmp, Tri, u64_refl]
        | choice i u => simp [cmp, Tri, u64_refl, u64_zero_typ]
        | _ => exfalso; simp [Value.rank] at h2
      | choice j w => cases c with
        | none => simp [cmp, Tri, u64_refl, u64_zero_typ, u64_typ_zero]
        | choice i u => simp [cmp, Tri, u64_zero_typ]
        | _ => exfalso; simp [Value.rank] at h2
      | _ => exfalso; simp [Value.rank] at h1
    | choice k v => cases b with
      | none => cases c with
        | none => simp [cmp, Tri, u64_refl, u64_typ_zero]
        | choice i u => simp [cmp, Tri, u64_zero_typ, u64_typ_zero]
        | _ => exfalso; simp [Value.rank] at h2
      | choice j w => cases c with
        | none =>
          simp only [cmp, u64_typ_zero]
          refine ⟨?_, ?_, ?_⟩ <;> intros <;> omega
        | choice i u =>
          simp only [cmp]
          exact Tri.lex (u64_tri _ _ _) (cmp_tri h v w u ha hb hc)
        | _ => exfalso; simp [Value.rank] at h2
      | _ => exfalso; simp [Value.rank] at h1
    | arr es => cases b with
      | arr fs => cases c with
        | arr gs =>
          simp only [cmp]
          exact Tri.lex (Tri.sub _ _ _) (cmpValues_tri h es fs gs ha hb hc)
        | _ => exfalso; simp [Value.rank] at h2
      | _ => exfalso; simp [Value.rank] at h1
    | mmap ps => cases b with
      | mmap qs => cases c with
        | mmap rs =>
          simp only [cmp]
          exact Tri.lex (cmpKeys_tri h ps qs rs ha hb hc) (cmpVals_tri h ps qs rs ha hb hc)
        | _ => exfalso; simp [Value.rank] at h2
      | _ => exfalso; simp [Value.rank] at h1
  · exact Tri.of_ranks (cmp_rank_ne o a b) (cmp_rank_ne o b c) (cmp_rank_ne o a c) hr
theorem cmpFields_tri {P : α → Prop} {o : LeafOps α} (h : LeafOrder P o.cmp) :
    ∀ a b c : Fields α, a.All P → b.All P → c.All P →
      Tri (cmpFields o a b) (cmpFields o b c) (cmpFields o a c) := by
  intro a b c ha hb hc
  cases a with
  | nil => cases b <;> cases c <;> simp [cmpFields, Tri]
  | cons p v r => cases b with
    | nil => cases c <;> simp [cmpFields, Tri]
    | cons q w s => cases c with
      | nil => simp [cmpFields, Tri]
      | cons t u x =>
        simp only [cmpFields, presCmp]
        refine tri_lex' (Tri.sub _ _ _) (fun e1 e2 => ?_)
        -- equal presence on all three sides: the same fields are skipped
        have hpq : p = q := presCmp_eq_zero e1
        have hqt : q = t := presCmp_eq_zero e2
        subst hpq; subst hqt
        exact Tri.lex (tri_skipAbsent p (cmp_tri h v w u ha.1 hb.1 hc.1))
          (cmpFields_tri h r s x ha.2 hb.2 hc.2)
theorem cmpValues_tri {P : α → Prop} {o : LeafOps α} (h : LeafOrder P o.cmp) :
    ∀ a b c : Values α, a.All P → b.All P → c.All P →
      Tri (cmpValues o a b) (cmpValues o b c) (cmpValues o a c) := by
  intro a b c ha hb hc
  cases a with
  | nil => cases b <;> cases c <;> simp [cmpValues, Tri]
  | cons v r => cases b with
    | nil => cases c <;> simp [cmpValues, Tri]
    | cons w s => cases c with
      | nil => simp [cmpValues, Tri]
      | cons u x =>
        simp only [cmpValues]
        exact Tri.lex (cmp_tri h v w u ha.1 hb.1 hc.1) (cmpValues_tri h r s x ha.2 hb.2 hc.2)
theorem cmpKeys_tri {P : α → Prop} {o : LeafOps α} (h : LeafOrder P o.cmp) :
    ∀ a b c : Pairs α, a.All P → b.All P → c.All P →
      Tri (cmpKeys o a b) (cmpKeys o b c) (cmpKeys o a c) := by
  intro a b c ha hb hc
  cases a with
  | nil => cases b with
    | nil => cases c <;> simp [cmpKeys, Tri]
    | cons j w s => cases c with
      | nil => simp only [cmpKeys]; refine ⟨?_, ?_, ?_⟩ <;> intros <;> omega
      | cons i u x =>
        refine ⟨?_, ?_, ?_⟩
        · intros; simp only [cmpKeys]; omega
        · intro hx; simp only [cmpKeys] at hx; omega
        · intro hy
          have := cmpKeys_zero_len o _ _ hy
          simp only [Pairs.len] at this
          simp only [cmpKeys]; omega
  | cons k v r => cases b with
    | nil => cases c with
      | nil => simp only [cmpKeys]; refine ⟨?_, ?_, ?_⟩ <;> intros <;> omega
      | cons i u x => simp only [cmpKeys]; refine ⟨?_, ?_, ?_⟩ <;> intros <;> omega
    | cons j w s => cases c with
      | nil =>
        refine ⟨?_, ?_, ?_⟩
        · intro _ hy; simp only [cmpKeys] at hy; omega
        · intro hx
          have := cmpKeys_zero_len o _ _ hx
          simp only [Pairs.len] at this
          simp only [cmpKeys]; omega
        · intro hy; simp only [cmpKeys] at hy; omega
      | cons i u x =>
        simp only [cmpKeys]
        exact Tri.lex (cmp_tri h k j i ha.1 hb.1 hc.1) (cmpKeys_tri h r s x ha.2.2 hb.2.2 hc.2.2)
theorem cmpVals_tri {P : α → Prop} {o : LeafOps α} (h : LeafOrder P o.cmp) :
    ∀ a b c : Pairs α, a.All P → b.All P → c.All P →
      Tri (cmpVals o a b) (cmpVals o b c) (cmpVals o a c) := by
  intro a b c ha hb hc
  cases a with
  | nil => cases b <;> cases c <;> simp [cmpVals, Tri]
  | cons k v r => cases b with
    | nil => cases c <;> simp [cmpVals, Tri]
    | cons j w s => cases c with
      | nil => simp [cmpVals, Tri]
      | cons i u x =>
        simp only [cmpVals]
        exact Tri.lex (cmp_tri h v w u ha.2.1 hb.2.1 hc.2.1) (cmpVals_tri h r s x ha.2.2 hb.2.2 hc.2.2)
end


/-! ### Cmp = 0 exactly for values holding the same data

  Since /repo 82431a4 Cmp<Struct> does not read the value stored in an absent optional field, so
  `cmp` no longer separates two trees that differ only there: zero means `data a = data b` (and
  for trees without absent optional fields, `data` is the identity). -/

mutual
theorem cmp_data_of_zero {P : α → Prop} {o : LeafOps α} (h : LeafExact P o.cmp) :
    ∀ a b : Value α, a.All P → b.All P → cmp o a b = 0 → data a = data b := by
  intro a b ha hb hz
  by_cases hr : a.rank = b.rank
  · cases a with
    | leaf x => cases b with
      | leaf y => simp only [cmp] at hz; rw [h.eq_of_zero x y ha hb hz]
      | _ => exfalso; simp [Value.rank] at hr
    | null => cases b with
      | null => rfl
      | struct gs => simp [cmp] at hz
      | _ => exfalso; simp [Value.rank] at hr
    | struct fs => cases b with
      | null => simp [cmp] at hz
      | struct gs =>
        simp only [cmp] at hz
        simp only [data]; rw [cmpFields_data_of_zero h fs gs ha hb hz]
      | _ => exfalso; simp [Value.rank] at hr
    | none => cases b with
      | none => rfl
      | choice j w => simp [cmp, u64_zero_typ] at hz
      | _ => exfalso; simp [Value.rank] at hr
    | choice k v => cases b with
      | none => simp [cmp, u64_typ_zero] at hz
      | choice j w =>
        simp only [cmp, lex_eq_zero] at hz
        simp only [data]
        rw [typOf_inj (u64_eq_of_zero hz.1), cmp_data_of_zero h v w ha hb hz.2]
      | _ => exfalso; simp [Value.rank] at hr
    | arr es => cases b with
      | arr fs =>
        simp only [cmp, lex_eq_zero] at hz
        simp only [data]; rw [cmpValues_data_of_zero h es fs ha hb hz.2]
      | _ => exfalso; simp [Value.rank] at hr
    | mmap ps => cases b with
      | mmap qs =>
        simp only [cmp, lex_eq_zero] at hz
        simp only [data]; rw [cmpPairs_data_of_zero h ps qs ha hb hz.1 hz.2]
      | _ => exfalso; simp [Value.rank] at hr
  · rw [cmp_rank_ne o a b hr] at hz; omega
theorem cmpFields_data_of_zero {P : α → Prop} {o : LeafOps α} (h : LeafExact P o.cmp) :
    ∀ a b : Fields α, a.All P → b.All P → cmpFields o a b = 0 → dataFields a = dataFields b := by
  intro a b ha hb hz
  cases a with
  | nil => cases b with
    | nil => rfl
    | cons q w s => simp [cmpFields] at hz
  | cons p v r => cases b with
    | nil => simp [cmpFields] at hz
    | cons q w s =>
      simp only [cmpFields, lex_eq_zero] at hz
      obtain ⟨hp, hv, hrest⟩ := hz
      have e := presCmp_eq_zero hp
      subst e
      have ir := cmpFields_data_of_zero h r s ha.2 hb.2 hrest
      cases p with
      | absent => simp only [dataFields, ir]
      | present =>
        simp only [skipAbsent] at hv
        simp only [dataFields, ir, cmp_data_of_zero h v w ha.1 hb.1 hv]
      | req =>
        simp only [skipAbsent] at hv
        simp only [dataFields, ir, cmp_data_of_zero h v w ha.1 hb.1 hv]
theorem cmpValues_data_of_zero {P : α → Prop} {o : LeafOps α} (h : LeafExact P o.cmp) :
    ∀ a b : Values α, a.All P → b.All P → cmpValues o a b = 0 → dataValues a = dataValues b := by
  intro a b ha hb hz
  cases a with
  | nil => cases b with
    | nil => rfl
    | cons w s => simp [cmpValues] at hz
  | cons v r => cases b with
    | nil => simp [cmpValues] at hz
    | cons w s =>
      simp only [cmpValues, lex_eq_zero] at hz
      simp only [dataValues]
      rw [cmp_data_of_zero h v w ha.1 hb.1 hz.1, cmpValues_data_of_zero h r s ha.2 hb.2 hz.2]
theorem cmpPairs_data_of_zero {P : α → Prop} {o : LeafOps α} (h : LeafExact P o.cmp) :
    ∀ a b : Pairs α, a.All P → b.All P → cmpKeys o a b = 0 → cmpVals o a b = 0 →
      dataPairs a = dataPairs b := by
  intro a b ha hb hk hv
  cases a with
  | nil => cases b with
    | nil => rfl
    | cons j w s => simp [cmpVals] at hv
  | cons k v r => cases b with
    | nil => simp [cmpVals] at hv
    | cons j w s =>
      simp only [cmpKeys, lex_eq_zero] at hk
      simp only [cmpVals, lex_eq_zero] at hv
      simp only [dataPairs]
      rw [cmp_data_of_zero h k j ha.1 hb.1 hk.1, cmp_data_of_zero h v w ha.2.1 hb.2.1 hv.1,
        cmpPairs_data_of_zero h r s ha.2.2 hb.2.2 hk.2 hv.2]
end

mutual
theorem cmp_zero_of_data {P : α → Prop} {o : LeafOps α} (h : LeafOrder P o.cmp) :
    ∀ a b : Value α, a.All P → data a = data b → cmp o a b = 0 := by
  intro a b ha e
  cases a with
  | leaf x =>
    cases b <;> simp [data] at e
    subst e; simp only [cmp]; exact h.refl _ ha
  | null => cases b <;> simp [data] at e; simp [cmp]
  | struct fs =>
    cases b <;> simp [data] at e
    simp only [cmp]; exact cmpFields_zero_of_data h fs _ ha e
  | none => cases b <;> simp [data] at e; simp only [cmp]; exact u64_refl _
  | choice k v =>
    cases b <;> simp [data] at e
    obtain ⟨e1, e2⟩ := e
    subst e1
    simp only [cmp, u64_refl, lex_zero_left]; exact cmp_zero_of_data h v _ ha e2
  | arr es =>
    cases b <;> simp [data] at e
    have hv := cmpValues_zero_of_data h es _ ha e
    have hl := cmpValues_zero_len o _ _ hv
    simp only [cmp, hv, hl, Int.sub_self, lex_zero_left]
  | mmap ps =>
    cases b <;> simp [data] at e
    have hv := cmpPairs_zero_of_data h ps _ ha e
    simp only [cmp, hv.1, hv.2, lex_zero_left]
theorem cmpFields_zero_of_data {P : α → Prop} {o : LeafOps α} (h : LeafOrder P o.cmp) :
    ∀ a b : Fields α, a.All P → dataFields a = dataFields b → cmpFields o a b = 0 := by
  intro a b ha e
  cases a with
  | nil => cases b with
    | nil => simp [cmpFields]
    | cons q w s => cases q <;> simp [dataFields] at e
  | cons p v r => cases b with
    | nil => cases p <;> simp [dataFields] at e
    | cons q w s =>
      cases p with
      | absent =>
        cases q <;> simp [dataFields] at e
        simp [cmpFields, presCmp, skipAbsent, lex, cmpFields_zero_of_data h r s ha.2 e]
      | present =>
        cases q <;> simp [dataFields] at e
        simp [cmpFields, presCmp, skipAbsent, lex, cmpFields_zero_of_data h r s ha.2 e.2,
          cmp_zero_of_data h v w ha.1 e.1]
      | req =>
        cases q <;> simp [dataFields] at e
        simp [cmpFields, presCmp, skipAbsent, lex, cmpFields_zero_of_data h r s ha.2 e.2,
          cmp_zero_of_data h v w ha.1 e.1]
theorem cmpValues_zero_of_data {P : α → Prop} {o : LeafOps α} (h : LeafOrder P o.cmp) :
    ∀ a b : Values α, a.All P → dataValues a = dataValues b → cmpValues o a b = 0 := by
  intro a b ha e
  cases a with
  | nil => cases b <;> simp [dataValues] at e; simp [cmpValues]
  | cons v r =>
    cases b <;> simp [dataValues] at e
    simp [cmpValues, lex, cmp_zero_of_data h v _ ha.1 e.1, cmpValues_zero_of_data h r _ ha.2 e.2]
theorem cmpPairs_zero_of_data {P : α → Prop} {o : LeafOps α} (h : LeafOrder P o.cmp) :
    ∀ a b : Pairs α, a.All P → dataPairs a = dataPairs b → cmpKeys o a b = 0 ∧ cmpVals o a b = 0 := by
  intro a b ha e
  cases a with
  | nil => cases b <;> simp [dataPairs] at e; simp [cmpKeys, cmpVals]
  | cons k v r =>
    cases b <;> simp [dataPairs] at e
    have ir := cmpPairs_zero_of_data h r _ ha.2.2 e.2.2
    simp [cmpKeys, cmpVals, lex, cmp_zero_of_data h k _ ha.1 e.1, cmp_zero_of_data h v _ ha.2.1 e.2.1,
      ir.1, ir.2]
end

/-! ### trees without hidden state -/

mutual
/-- no optional field is absent anywhere in the tree (so no stored-but-invisible value exists) -/
def Value.NoAbsent : Value α → Prop
  | .struct fs => fs.NoAbsent
  | .choice _ v => v.NoAbsent
  | .arr es => es.NoAbsent
  | .mmap ps => ps.NoAbsent
  | _ => True
def Fields.NoAbsent : Fields α → Prop
  | .nil => True
  | .cons p v rest => p ≠ .absent ∧ v.NoAbsent ∧ rest.NoAbsent
def Values.NoAbsent : Values α → Prop
  | .nil => True
  | .cons v rest => v.NoAbsent ∧ rest.NoAbsent
def Pairs.NoAbsent : Pairs α → Prop
  | .nil => True
  | .cons k v rest => k.NoAbsent ∧ v.NoAbsent ∧ rest.NoAbsent
end

mutual
theorem data_noAbsent : ∀ v : Value α, v.NoAbsent → data v = v := by
  intro v h
  cases v with
  | leaf a => rfl
  | null => rfl
  | struct fs => simp only [data]; rw [dataFields_noAbsent fs h]
  | none => rfl
  | choice k w => simp only [data]; rw [data_noAbsent w h]
  | arr es => simp only [data]; rw [dataValues_noAbsent es h]
  | mmap ps => simp only [data]; rw [dataPairs_noAbsent ps h]
theorem dataFields_noAbsent : ∀ v : Fields α, v.NoAbsent → dataFields v = v := by
  intro v h
  cases v with
  | nil => rfl
  | cons p w r =>
    obtain ⟨hp, hw, hr⟩ := h
    cases p with
    | absent => exact absurd rfl hp
    | present => simp only [dataFields]; rw [data_noAbsent w hw, dataFields_noAbsent r hr]
    | req => simp only [dataFields]; rw [data_noAbsent w hw, dataFields_noAbsent r hr]
theorem dataValues_noAbsent : ∀ v : Values α, v.NoAbsent → dataValues v = v := by
  intro v h
  cases v with
  | nil => rfl
  | cons w r => simp only [dataValues]; rw [data_noAbsent w h.1, dataValues_noAbsent r h.2]
theorem dataPairs_noAbsent : ∀ v : Pairs α, v.NoAbsent → dataPairs v = v := by
  intro v h
  cases v with
  | nil => rfl
  | cons k w r =>
    simp only [dataPairs]
    rw [data_noAbsent k h.1, data_noAbsent w h.2.1, dataPairs_noAbsent r h.2.2]
end

/-! ### the laws as stated in the property, and the bridge to the `Tri` form -/

/-- a three-way comparison that is a total order on the values satisfying `P`:
    reflexive-zero, antisymmetric, transitive, and zero only for identical values -/
structure TotalOrderCmp {β : Type} (P : β → Prop) (c : β → β → Int) : Prop where
  refl : ∀ a, P a → c a a = 0
  antisymm : ∀ a b, P a → P b → c a b = -(c b a)
  trans : ∀ a b d, P a → P b → P d → c a b ≤ 0 → c b d ≤ 0 → c a d ≤ 0
  eq_zero_iff : ∀ a b, P a → P b → (c a b = 0 ↔ a = b)

/-- the same laws, where zero means "the same data" under a projection `key` (for record trees:
    `data`, which forgets the values stored in absent optional fields) -/
structure TotalOrderUpTo {β γ : Type} (P : β → Prop) (key : β → γ) (c : β → β → Int) : Prop where
  refl : ∀ a, P a → c a a = 0
  antisymm : ∀ a b, P a → P b → c a b = -(c b a)
  trans : ∀ a b d, P a → P b → P d → c a b ≤ 0 → c b d ≤ 0 → c a d ≤ 0
  eq_zero_iff : ∀ a b, P a → P b → (c a b = 0 ↔ key a = key b)

theorem LeafExact.toTotal {P : α → Prop} {c : α → α → Int} (h : LeafExact P c) : TotalOrderCmp P c where
  refl := h.refl
  antisymm := h.antisymm
  trans a b d ha hb hd := (h.tri a b d ha hb hd).le
  eq_zero_iff a b ha hb := ⟨h.eq_of_zero a b ha hb, fun e => by subst e; exact h.refl a ha⟩

theorem TotalOrderCmp.toExact {P : α → Prop} {c : α → α → Int} (h : TotalOrderCmp P c) : LeafExact P c :=
  LeafExact.of_laws h.refl h.antisymm h.trans (fun a b ha hb => (h.eq_zero_iff a b ha hb).mp)

/-! ### instances for the regenerated comparators -/

theorem u64Exact : LeafExact (fun _ : BitVec 64 => True) Gen.uint64Compare :=
  LeafExact.of_key (fun a => (a.toNat : Int)) (fun a b _ _ => uint64Compare_key a b)
    (fun a b _ _ h => BitVec.eq_of_toNat_eq (by omega))

theorem i64Exact : LeafExact (fun _ : BitVec 64 => True) Gen.int64Compare :=
  LeafExact.of_key (fun a => a.toInt) (fun a b _ _ => int64Compare_key a b)
    (fun _ _ _ _ h => BitVec.eq_of_toInt_eq h)

theorem boolExact : LeafExact (fun _ : Bool => True) Gen.boolCompare :=
  LeafExact.of_key boolKey (fun a b _ _ => boolCompare_key a b)
    (fun a b _ _ => by cases a <;> cases b <;> simp [boolKey])

theorem strExact : LeafExact (fun _ : Bytes => True) strCompare where
  refl a _ := strCompare_refl a
  antisymm a b _ _ := strCompare_antisymm a b
  tri a b d _ _ _ := strCompare_tri a b d
  eq_of_zero a b _ _ := strCompare_eq_of_zero a b

/-- Float64Compare (since 05846e0: IEEE-754 totalOrder key) is exact on ALL bit patterns -/
theorem f64Exact : LeafExact (fun _ : BitVec 64 => True) Gen.float64Compare :=
  LeafExact.of_key f64Key (fun a b _ _ => float64Compare_key a b) (fun a b _ _ h => f64Key_inj a b h)

theorem primCompare_rank_ne (a b : PrimVal) (h : a.rank ≠ b.rank) : primCompare a b = a.rank - b.rank := by
  cases a <;> cases b <;> simp [primCompare, PrimVal.rank] at h ⊢

theorem primExact : LeafExact (fun _ : PrimVal => True) primCompare where
  refl a _ := by
    cases a with
    | u64 w => exact u64Exact.refl w trivial
    | i64 w => exact i64Exact.refl w trivial
    | bool w => exact boolExact.refl w trivial
    | f64 w => exact f64Exact.refl w trivial
    | str w => exact strExact.refl w trivial
    | bytes w => exact strExact.refl w trivial
  antisymm a b _ _ := by
    by_cases hr : a.rank = b.rank
    · cases a <;> cases b <;> simp [PrimVal.rank] at hr <;> simp only [primCompare]
      · exact u64Exact.antisymm _ _ trivial trivial
      · exact i64Exact.antisymm _ _ trivial trivial
      · exact boolExact.antisymm _ _ trivial trivial
      · exact f64Exact.antisymm _ _ trivial trivial
      · exact strExact.antisymm _ _ trivial trivial
      · exact strExact.antisymm _ _ trivial trivial
    · rw [primCompare_rank_ne a b hr, primCompare_rank_ne b a (Ne.symm hr)]; omega
  tri a b d _ _ _ := by
    by_cases hr : a.rank = b.rank ∧ b.rank = d.rank
    · obtain ⟨h1, h2⟩ := hr
      cases a <;> cases b <;> simp [PrimVal.rank] at h1 <;> cases d <;> simp [PrimVal.rank] at h2 <;>
        simp only [primCompare]
      · exact u64Exact.tri _ _ _ trivial trivial trivial
      · exact i64Exact.tri _ _ _ trivial trivial trivial
      · exact boolExact.tri _ _ _ trivial trivial trivial
      · exact f64Exact.tri _ _ _ trivial trivial trivial
      · exact strExact.tri _ _ _ trivial trivial trivial
      · exact strExact.tri _ _ _ trivial trivial trivial
    · exact Tri.of_ranks (primCompare_rank_ne a b) (primCompare_rank_ne b d) (primCompare_rank_ne a d) hr
  eq_of_zero a b _ _ hz := by
    by_cases hr : a.rank = b.rank
    · cases a <;> cases b <;> simp [PrimVal.rank] at hr <;> simp only [primCompare] at hz
      · rw [u64Exact.eq_of_zero _ _ trivial trivial hz]
      · rw [i64Exact.eq_of_zero _ _ trivial trivial hz]
      · rw [boolExact.eq_of_zero _ _ trivial trivial hz]
      · rw [f64Exact.eq_of_zero _ _ trivial trivial hz]
      · rw [strExact.eq_of_zero _ _ trivial trivial hz]
      · rw [strExact.eq_of_zero _ _ trivial trivial hz]
    · rw [primCompare_rank_ne a b hr] at hz; omega

/-- `Value.All P` for the always-true predicate -/
theorem all_true : ∀ v : Value α, v.All (fun _ => True) := by
  intro v
  have : (∀ v : Value α, v.All (fun _ => True)) ∧ (∀ v : Fields α, v.All (fun _ => True)) ∧
      (∀ v : Values α, v.All (fun _ => True)) ∧ (∀ v : Pairs α, v.All (fun _ => True)) := by
    refine ⟨?_, ?_, ?_, ?_⟩
    all_goals intro v
    · exact Value.rec (motive_1 := fun v => v.All (fun _ => True)) (motive_2 := fun v => v.All (fun _ => True))
        (motive_3 := fun v => v.All (fun _ => True)) (motive_4 := fun v => v.All (fun _ => True))
        (fun _ => trivial) trivial (fun _ h => h) trivial (fun _ _ h => h) (fun _ h => h) (fun _ h => h)
        trivial (fun _ _ _ h1 h2 => ⟨h1, h2⟩) trivial (fun _ _ h1 h2 => ⟨h1, h2⟩)
        trivial (fun _ _ _ h1 h2 h3 => ⟨h1, h2, h3⟩) v
    · exact Fields.rec (motive_1 := fun v => v.All (fun _ => True)) (motive_2 := fun v => v.All (fun _ => True))
        (motive_3 := fun v => v.All (fun _ => True)) (motive_4 := fun v => v.All (fun _ => True))
        (fun _ => trivial) trivial (fun _ h => h) trivial (fun _ _ h => h) (fun _ h => h) (fun _ h => h)
        trivial (fun _ _ _ h1 h2 => ⟨h1, h2⟩) trivial (fun _ _ h1 h2 => ⟨h1, h2⟩)
        trivial (fun _ _ _ h1 h2 h3 => ⟨h1, h2, h3⟩) v
    · exact Values.rec (motive_1 := fun v => v.All (fun _ => True)) (motive_2 := fun v => v.All (fun _ => True))
        (motive_3 := fun v => v.All (fun _ => True)) (motive_4 := fun v => v.All (fun _ => True))
        (fun _ => trivial) trivial (fun _ h => h) trivial (fun _ _ h => h) (fun _ h => h) (fun _ h => h)
        trivial (fun _ _ _ h1 h2 => ⟨h1, h2⟩) trivial (fun _ _ h1 h2 => ⟨h1, h2⟩)
        trivial (fun _ _ _ h1 h2 h3 => ⟨h1, h2, h3⟩) v
    · exact Pairs.rec (motive_1 := fun v => v.All (fun _ => True)) (motive_2 := fun v => v.All (fun _ => True))
        (motive_3 := fun v => v.All (fun _ => True)) (motive_4 := fun v => v.All (fun _ => True))
        (fun _ => trivial) trivial (fun _ h => h) trivial (fun _ _ h => h) (fun _ h => h) (fun _ h => h)
        trivial (fun _ _ _ h1 h2 => ⟨h1, h2⟩) trivial (fun _ _ h1 h2 => ⟨h1, h2⟩)
        trivial (fun _ _ _ h1 h2 h3 => ⟨h1, h2, h3⟩) v
  exact this.1 v

end Stef.Cmp
