/-
  Column-state algebra for the encoder/decoder round trip: `DS.col` / `DS.setCol`, `modCol`,
  `feed` and how codec / dictionary updates commute with feeding input.
-/
import Stef.SpecEnc

namespace Stef.SpecEnc
open Stef Stef.Spec

/-! ### col / setCol -/

theorem size_setCol (ds : DS) (i : Nat) (c : ColSt) : (ds.setCol i c).cols.size = ds.cols.size := by
  simp [DS.setCol]

theorem col_setCol_self (ds : DS) (i : Nat) (c : ColSt) (h : i < ds.cols.size) :
    (ds.setCol i c).col i = c := by
  simp [DS.setCol, DS.col, Array.getD_eq_getD_getElem?, h]

theorem col_setCol_ne (ds : DS) (i j : Nat) (c : ColSt) (h : i ≠ j) :
    (ds.setCol i c).col j = ds.col j := by
  simp only [DS.setCol, DS.col, Array.getD_eq_getD_getElem?]
  rw [Array.getElem?_setIfInBounds_ne h]

theorem setCol_setCol (ds : DS) (i : Nat) (a b : ColSt) : (ds.setCol i a).setCol i b = ds.setCol i b := by
  simp [DS.setCol, Array.setIfInBounds_setIfInBounds]

theorem setCol_col_self (ds : DS) (i : Nat) : ds.setCol i (ds.col i) = ds := by
  cases ds with
  | mk cols sd td dv dp mp =>
    simp only [DS.setCol, DS.col, DS.mk.injEq, and_true]
    apply Array.ext
    · simp
    · intro j h1 h2
      simp only [Array.size_setIfInBounds] at h1
      by_cases hij : i = j
      · subst hij; simp [Array.getD, h2]
      · rw [Array.getElem_setIfInBounds_ne _ hij]

theorem setCol_comm (ds : DS) (i j : Nat) (a b : ColSt) (h : i ≠ j) :
    (ds.setCol i a).setCol j b = (ds.setCol j b).setCol i a := by
  simp only [DS.setCol]
  congr 1
  exact Array.setIfInBounds_comm _ _ h

/-! ### modCol -/

def modCol (ds : DS) (i : Nat) (g : ColSt → ColSt) : DS := ds.setCol i (g (ds.col i))

theorem size_modCol (ds : DS) (i : Nat) (g : ColSt → ColSt) : (modCol ds i g).cols.size = ds.cols.size :=
  size_setCol _ _ _

theorem modCol_oob (ds : DS) (i : Nat) (g : ColSt → ColSt) (h : ¬ i < ds.cols.size) : modCol ds i g = ds := by
  cases ds with
  | mk cols sd td dv dp mp =>
    simp only [modCol, DS.setCol, DS.mk.injEq, and_true]
    apply Array.ext
    · simp
    · intro j h1 h2
      have : i ≠ j := by simp at h; omega
      rw [Array.getElem_setIfInBounds_ne _ this]

theorem setCol_oob (ds : DS) (i : Nat) (c : ColSt) (h : ¬ i < ds.cols.size) : ds.setCol i c = ds :=
  modCol_oob ds i (fun _ => c) h

theorem modCol_modCol_same (ds : DS) (i : Nat) (g h : ColSt → ColSt) :
    modCol (modCol ds i g) i h = modCol ds i (fun c => h (g c)) := by
  by_cases hb : i < ds.cols.size
  · simp only [modCol]
    rw [col_setCol_self _ _ _ hb, setCol_setCol]
  · rw [modCol_oob ds i g hb, modCol_oob ds i h hb, modCol_oob ds i _ hb]

theorem modCol_comm (ds : DS) (i j : Nat) (g h : ColSt → ColSt) (hc : ∀ c, g (h c) = h (g c)) :
    modCol (modCol ds i g) j h = modCol (modCol ds j h) i g := by
  by_cases hij : i = j
  · subst hij
    rw [modCol_modCol_same, modCol_modCol_same]
    congr 1
    funext c
    exact (hc c).symm
  · simp only [modCol]
    rw [col_setCol_ne _ _ _ _ hij, col_setCol_ne _ _ _ _ (Ne.symm hij), setCol_comm _ _ _ _ _ hij]

/-! ### feed -/

def pre : Chunk → ColSt → ColSt
  | .bits b, c => { c with bits := b ++ c.bits }
  | .bytes b, c => { c with bytes := b ++ c.bytes }

theorem feed1_eq (e : Ev) (ds : DS) : feed1 e ds = modCol ds e.1 (pre e.2) := by
  obtain ⟨c, ch⟩ := e
  cases ch <;> rfl

@[simp] theorem feed_nil (ds : DS) : feed [] ds = ds := rfl
theorem feed_cons (e : Ev) (evs : List Ev) (ds : DS) : feed (e :: evs) ds = feed1 e (feed evs ds) := rfl
theorem feed_append (a b : List Ev) (ds : DS) : feed (a ++ b) ds = feed a (feed b ds) := by
  simp [feed, List.foldr_append]

theorem size_feed (evs : List Ev) (ds : DS) : (feed evs ds).cols.size = ds.cols.size := by
  induction evs with
  | nil => rfl
  | cons e evs ih => rw [feed_cons, feed1_eq, size_modCol, ih]

/-- an update of codec fields commutes with feeding input -/
theorem feed_modCol (evs : List Ev) (ds : DS) (i : Nat) (g : ColSt → ColSt)
    (hg : ∀ ch c, g (pre ch c) = pre ch (g c)) :
    feed evs (modCol ds i g) = modCol (feed evs ds) i g := by
  induction evs with
  | nil => rfl
  | cons e evs ih =>
    rw [feed_cons, feed_cons, ih, feed1_eq, feed1_eq]
    exact modCol_comm _ _ _ _ _ (fun c => hg e.2 c)

/-- the non-column part of the state -/
structure Aux where
  sdict : List (String × List Bytes)
  tdict : List (String × List (Option St))
  dictViolations : Nat
  dictPayload : Nat
  maxDictPayload : Nat

def _root_.Stef.Spec.DS.aux (ds : DS) : Aux := ⟨ds.sdict, ds.tdict, ds.dictViolations, ds.dictPayload, ds.maxDictPayload⟩
def _root_.Stef.Spec.DS.withAux (ds : DS) (a : Aux) : DS :=
  { cols := ds.cols, sdict := a.sdict, tdict := a.tdict, dictViolations := a.dictViolations,
    dictPayload := a.dictPayload, maxDictPayload := a.maxDictPayload }

theorem aux_setCol (ds : DS) (i : Nat) (c : ColSt) : (ds.setCol i c).aux = ds.aux := rfl
theorem aux_modCol (ds : DS) (i : Nat) (g : ColSt → ColSt) : (modCol ds i g).aux = ds.aux := rfl

theorem aux_feed (evs : List Ev) (ds : DS) : (feed evs ds).aux = ds.aux := by
  induction evs with
  | nil => rfl
  | cons e evs ih => rw [feed_cons, feed1_eq, aux_modCol, ih]

theorem withAux_modCol (ds : DS) (a : Aux) (i : Nat) (g : ColSt → ColSt) :
    (modCol ds i g).withAux a = modCol (ds.withAux a) i g := rfl

theorem feed_withAux (evs : List Ev) (ds : DS) (a : Aux) :
    feed evs (ds.withAux a) = (feed evs ds).withAux a := by
  induction evs with
  | nil => rfl
  | cons e evs ih => rw [feed_cons, feed_cons, ih, feed1_eq, feed1_eq, withAux_modCol]

theorem sdict_feed (evs : List Ev) (ds : DS) : (feed evs ds).sdict = ds.sdict :=
  congrArg Aux.sdict (aux_feed evs ds)
theorem tdict_feed (evs : List Ev) (ds : DS) : (feed evs ds).tdict = ds.tdict :=
  congrArg Aux.tdict (aux_feed evs ds)
theorem dictViolations_feed (evs : List Ev) (ds : DS) : (feed evs ds).dictViolations = ds.dictViolations :=
  congrArg Aux.dictViolations (aux_feed evs ds)
theorem dictPayload_feed (evs : List Ev) (ds : DS) : (feed evs ds).dictPayload = ds.dictPayload :=
  congrArg Aux.dictPayload (aux_feed evs ds)
theorem maxDictPayload_feed (evs : List Ev) (ds : DS) : (feed evs ds).maxDictPayload = ds.maxDictPayload :=
  congrArg Aux.maxDictPayload (aux_feed evs ds)

/-! ### what feeding does to the codec fields of a column: nothing -/

structure CodecOf where
  lastVal : Word
  lastDelta : Word
  fLast : Word
  fLead : Nat
  fTrail : Nat

def codecOf (c : ColSt) : CodecOf := ⟨c.lastVal, c.lastDelta, c.fLast, c.fLead, c.fTrail⟩

theorem codecOf_pre (ch : Chunk) (c : ColSt) : codecOf (pre ch c) = codecOf c := by
  cases ch <;> rfl

theorem col_modCol (ds : DS) (i j : Nat) (g : ColSt → ColSt) :
    (modCol ds i g).col j = if i = j ∧ i < ds.cols.size then g (ds.col j) else ds.col j := by
  by_cases hij : i = j
  · subst hij
    by_cases hb : i < ds.cols.size
    · simp [modCol, col_setCol_self _ _ _ hb, hb]
    · simp [modCol_oob _ _ _ hb, hb]
  · simp [modCol, col_setCol_ne _ _ _ _ hij, hij]

theorem codecOf_col_feed (evs : List Ev) (ds : DS) (j : Nat) :
    codecOf ((feed evs ds).col j) = codecOf (ds.col j) := by
  induction evs with
  | nil => rfl
  | cons e evs ih =>
    rw [feed_cons, feed1_eq, col_modCol]
    split
    · rw [codecOf_pre, ih]
    · exact ih

/-! ### reading the chunk that was fed first -/

theorem col_feed1_self (c : Nat) (ch : Chunk) (ds : DS) (h : c < ds.cols.size) :
    (feed1 (c, ch) ds).col c = pre ch (ds.col c) := by
  rw [feed1_eq]; exact col_setCol_self _ _ _ h

theorem setCol_feed1_self (c : Nat) (ch : Chunk) (ds : DS) (x : ColSt) :
    (feed1 (c, ch) ds).setCol c x = ds.setCol c x := by
  rw [feed1_eq]; exact setCol_setCol _ _ _ _

end Stef.SpecEnc

namespace Stef.SpecEnc
open Stef Stef.Spec

/-! ### `feed` column by column -/

theorem colBits_cons (c' : Nat) (ch : Chunk) (evs : List Ev) (c : Nat) :
    colBits ((c', ch) :: evs) c =
      (match ch with | .bits b => if c' = c then b ++ colBits evs c else colBits evs c | .bytes _ => colBits evs c) := by
  cases ch <;> rfl

theorem colBytes_cons (c' : Nat) (ch : Chunk) (evs : List Ev) (c : Nat) :
    colBytes ((c', ch) :: evs) c =
      (match ch with | .bytes b => if c' = c then b ++ colBytes evs c else colBytes evs c | .bits _ => colBytes evs c) := by
  cases ch <;> rfl

/-- what the decoder sees in column `c` after `feed evs`: the concatenation of the chunks written to
    `c`, in order, in front of the old input; nothing else of the column changes. -/
theorem col_feed (evs : List Ev) (ds : DS) (c : Nat) (hc : c < ds.cols.size) :
    (feed evs ds).col c =
      { ds.col c with bits := colBits evs c ++ (ds.col c).bits, bytes := colBytes evs c ++ (ds.col c).bytes } := by
  induction evs with
  | nil => simp [colBits, colBytes]
  | cons e evs ih =>
    obtain ⟨c', ch⟩ := e
    rw [feed_cons, feed1_eq, col_modCol, ih, colBits_cons, colBytes_cons, size_feed]
    by_cases h : c' = c
    · subst h
      simp only [hc, and_self, ↓reduceIte]
      cases ch <;> simp [pre]
    · simp only [h, false_and, ↓reduceIte]
      cases ch <;> rfl

/-- two states with the same columns (as seen through `col`), the same number of columns and the
    same dictionaries are equal -/
theorem ds_ext (a b : DS) (hs : a.cols.size = b.cols.size) (hc : ∀ i, i < a.cols.size → a.col i = b.col i)
    (ha : a.aux = b.aux) : a = b := by
  cases a with
  | mk ca sa ta va pa ma =>
    cases b with
    | mk cb sb tb vb pb mb =>
      simp only [DS.aux, Aux.mk.injEq] at ha
      obtain ⟨h1, h2, h3, h4, h5⟩ := ha
      subst h1 h2 h3 h4 h5
      simp only [DS.mk.injEq, and_true]
      apply Array.ext hs
      intro i h1 h2
      have := hc i h1
      simp only [DS.col, Array.getD_eq_getD_getElem?] at this
      simp only at hs
      rw [Array.getElem?_eq_getElem h1, Array.getElem?_eq_getElem h2] at this
      simpa using this

end Stef.SpecEnc
