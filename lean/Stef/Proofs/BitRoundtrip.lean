/-
  Register-level round trip: what `BitsWriter` wrote (any widths, any values in contract), closed
  and handed to `BitsReader` as a buffer, is read back by `ReadBits` calls of the same widths.
-/
import Stef.Proofs.BitReader
import Stef.Proofs.BitStream

namespace Stef
open Stef.Spec

theorem bytesBits_take (l : Bytes) (k : Nat) : bytesBits (l.take k) = (bytesBits l).take (8 * k) := by
  induction l generalizing k with
  | nil => simp [bytesBits]
  | cons b bs ih =>
    cases k with
    | zero => simp [bytesBits]
    | succ k =>
      have hl : (byteBits b).length = 8 := by simp [byteBits]
      simp only [List.take_succ_cons, bytesBits, ih]
      rw [List.take_append, hl]
      have e : 8 * (k + 1) - 8 = 8 * k := by omega
      rw [e, List.take_of_length_le (l := byteBits b) (by omega)]

theorem highBits_take (w : Word) (m n : Nat) (h : m ≤ n) : (highBits w n).take m = highBits w m := by
  unfold highBits
  rw [← List.map_take, List.take_range, Nat.min_eq_left h]

theorem highBits_pad (w : Word) (u m : Nat) (hum : u ≤ m) (hz : ∀ i, u ≤ i → w.getMsbD i = false) :
    highBits w m = highBits w u ++ List.replicate (m - u) false := by
  apply List.ext_getElem
  · simp [highBits]; omega
  · intro i h1 h2
    simp only [highBits, List.getElem_map, List.getElem_range]
    by_cases hi : i < u
    · rw [List.getElem_append_left (by simp; exact hi)]
      simp
    · rw [List.getElem_append_right (by simp; omega)]
      simp [hz i (by omega)]

namespace BitsWriter

/-- `Close` + `Bytes`: the written bits followed by zero padding up to the next byte. -/
theorem bytes_bits (w : BitsWriter) (hI : w.Inv) :
    bytesBits w.bytes = w.toBits ++ List.replicate (8 * ((w.bitsBufUsed + 7) / 8) - w.bitsBufUsed) false := by
  obtain ⟨hu, hz⟩ := hI
  unfold bytes close toBits
  simp only
  rw [List.take_append, bytesBits_append, List.take_of_length_le (by omega)]
  have e : w.stream.length + (w.bitsBufUsed + 7) / 8 - w.stream.length = (w.bitsBufUsed + 7) / 8 := by omega
  rw [e, bytesBits_take, bytesBits_be64, highBits_take _ _ _ (by omega),
    highBits_pad w.bitsBuf w.bitsBufUsed _ (by omega) hz, List.append_assoc]

end BitsWriter

namespace BitsReader

/-- reading fields whose bits lie in the buffer at `pos` yields the fields -/
theorem windows_of_bits (buf : Bytes) (ops : List (Word × Nat)) (pos : Nat) (rest : Bits)
    (hops : ∀ p ∈ ops, p.2 ≤ 64 ∧ p.1.toNat < 2 ^ p.2) (hpos : pos ≤ 8 * buf.length)
    (h : (bytesBits buf).drop pos = (ops.map (fun p => lowBits p.1 p.2)).flatten ++ rest) :
    windows buf pos (ops.map (·.2)) = ops.map (·.1) := by
  induction ops generalizing pos with
  | nil => rfl
  | cons p ps ih =>
    have hp := hops p (by simp)
    simp only [List.map_cons, windows, List.flatten_cons, List.append_assoc] at h ⊢
    have hlen : (lowBits p.1 p.2).length = p.2 := by simp [lowBits]
    have hin : pos + p.2 ≤ 8 * buf.length := by
      have := congrArg List.length h
      simp only [List.length_drop, List.length_append, hlen, bytesBits_length] at this
      omega
    have hw : window buf pos p.2 = p.1 := by
      rw [window_eq_take_drop _ _ _ hin, h, List.take_append_of_le_length (by omega),
        List.take_of_length_le (by omega)]
      exact wordOfBits_lowBits p.1 p.2 hp.1 hp.2
    rw [hw]
    congr 1
    apply ih (pos + p.2) (fun q hq => hops q (by simp [hq])) hin
    rw [← List.drop_drop, h, List.drop_append_of_le_length (by omega), List.drop_of_length_le (by omega)]
    rfl

end BitsReader

theorem flatten_lowBits_length (ops : List (Word × Nat)) :
    ((ops.map (fun p => lowBits p.1 p.2)).flatten).length = (ops.map (·.2)).sum := by
  induction ops with
  | nil => rfl
  | cons p ps ih =>
    simp only [List.map_cons, List.flatten_cons, List.length_append, List.sum_cons, ih]
    simp [lowBits]

/-- **register-level round trip**: any sequence of in-contract `WriteBits(v, n)` calls on a fresh
    `BitsWriter`, `Close`d, and read by a fresh `BitsReader` over those bytes with `ReadBits` calls
    of the same widths returns the same values without error. -/
theorem bits_roundtrip (ops : List (Word × Nat)) (hops : ∀ p ∈ ops, p.2 ≤ 64 ∧ p.1.toNat < 2 ^ p.2) :
    let w := ops.foldl (fun w p => w.writeBits p.1 p.2) ({} : BitsWriter)
    (BitsReader.readMany { buf := w.bytes } (ops.map (·.2))).2 = ops.map (·.1) ∧
    (BitsReader.readMany { buf := w.bytes } (ops.map (·.2))).1.err = false := by
  intro w
  -- the writer's bits and invariant
  have hw : w.toBits = (ops.map (fun p => lowBits p.1 p.2)).flatten ∧ w.Inv := by
    suffices h : ∀ (w0 : BitsWriter), w0.Inv →
        (ops.foldl (fun w p => w.writeBits p.1 p.2) w0).toBits
          = w0.toBits ++ (ops.map (fun p => lowBits p.1 p.2)).flatten ∧
        (ops.foldl (fun w p => w.writeBits p.1 p.2) w0).Inv by
      have := h {} BitsWriter.inv_init
      simpa [BitsWriter.toBits, bytesBits, highBits] using this
    clear w
    induction ops with
    | nil => intro w0 h0; simp [h0]
    | cons p ps ih =>
      intro w0 h0
      have hp := hops p (by simp)
      have hstep := BitsWriter.writeBits_spec w0 p.1 p.2 h0 hp.1 hp.2
      have := ih (fun q hq => hops q (by simp [hq])) (w0.writeBits p.1 p.2) hstep.2
      simp only [List.foldl_cons, List.map_cons, List.flatten_cons]
      rw [this.1, hstep.1, List.append_assoc]
      exact ⟨rfl, this.2⟩
  have hb := BitsWriter.bytes_bits w hw.2
  rw [hw.1] at hb
  have hsum : (ops.map (·.2)).sum ≤ 8 * w.bytes.length := by
    have := congrArg List.length hb
    rw [bytesBits_length, List.length_append] at this
    have hl := flatten_lowBits_length ops
    omega
  have hns : ∀ n ∈ ops.map (·.2), n ≤ 64 := by
    intro n hn
    obtain ⟨p, hp, rfl⟩ := List.mem_map.1 hn
    exact (hops p hp).1
  obtain ⟨h1, _⟩ := BitsReader.readMany_spec (ops.map (·.2)) { buf := w.bytes } 0 (BitsReader.rinv_init _) hns
  obtain ⟨he, hv, _⟩ := h1 (by simpa using hsum)
  refine ⟨?_, he⟩
  rw [hv]
  exact BitsReader.windows_of_bits w.bytes ops 0 _ hops (by omega) (by simpa using hb)

end Stef
