/-
  Stef.Proofs.ChunkGen: the gRPC chunk transport REGENERATED from the Go source (Stef/Gen/ChunkFlow.lean, by
  extract/chunkflow.go: the bodies of grpcChunkSource.recvMsg, chunkAssembler.recvMsg, chunkAssembler.Read and
  grpcWriter.WriteChunk as data, interpreted by Stef/ChunkFlowSem.lean) computes exactly what the hand model
  Stef/Chunk.lean says - on every state, for every stream of wire messages, every caller buffer. These proofs
  are the tie of the hand model to the source text: a change of one of the four functions either still proves
  equal here, or breaks this file (or makes the generator fail).

  The proofs run the interpreter symbolically (`simp` with the definitions of the interpreter on the regenerated
  data). The accumulation loop is taken apart as `<accumulator> := nil ;; for { body }` (`asmRecvMsgBody_shape`);
  slices are compared by content (`getD []`), so whether a slice is nil or empty is proved irrelevant.
-/
import Stef.Gen.ChunkFlow
import Stef.Proofs.Chunk

set_option linter.unusedSimpArgs false

namespace Stef.Proofs.ChunkGen
open Stef Stef.Chunk Stef.ChunkFlowSem Stef.Gen.ChunkFlow

/-- one received message, as the source hands it to the assembler -/
def recvOne (r : Src) : Src × Sl × Bool × Bool × Bool :=
  match r.stream with
  | [] => (r, none, false, true, true)
  | m :: rest => ({ stream := rest, messagesReceived := r.messagesReceived + 1 }, m.stefBytes, m.isEndOfChunk, false, true)

theorem srcRecvMsg_eq (r : Src) : srcRecvMsg r = recvOne r := by
  rcases r with ⟨st, k⟩
  cases st <;>
    simp [srcRecvMsg, srcRecvMsgOf, srcRecvMsgBody, exec, chk, streamRecv, recvOne, upd, BE.eval, BE.ok, SE.eval,
      SE.ok, IE.eval, IE.ok, IVar.write, IVar.read, IVar.isStat, Ex.fine]

/-! ### byte contents of slice values (the hand model does not know nil from empty) -/

theorem append_bytes (a b : Sl) : (a.append b).getD [] = a.getD [] ++ b.getD [] := by
  cases a with
  | none => by_cases h : (b.getD []).isEmpty <;> simp [Sl.append, h] ; simpa using h
  | some x => simp [Sl.append]

theorem append_len (a b : Sl) : (a.append b).len = a.len + b.len := by
  simp [Sl.len, append_bytes]

theorem upto0_bytes (a : Sl) : (a.upto 0).getD [] = [] := by cases a <;> simp [Sl.upto]

theorem from_bytes (s : Sl) (i : Nat) : (s.from i).getD [] = (s.getD []).drop i := by
  cases s <;> simp [Sl.from]

theorem none_len : Sl.len none = 0 := rfl

def toMsg (w : Wire) : Msg := (w.stefBytes.getD [], w.isEndOfChunk)

/-- what the accumulation loop computes, on the stream of wire messages and the BYTES accumulated
    so far: the source afterwards and the chunk (`none`: the stream ended first). -/
def recvSpec : List Wire → Nat → Bytes → Src × Option Bytes
  | [], k, _ => (⟨[], k⟩, none)
  | m :: rest, k, acc =>
    if m.isEndOfChunk then (⟨rest, k + 1⟩, some (acc ++ m.stefBytes.getD []))
    else recvSpec rest (k + 1) (acc ++ m.stefBytes.getD [])

def afterRecv (g : AsmG) : Src × Option Bytes → AsmG × Bytes × Bool × Bool
  | (r, none) => ({ g with source := r }, [], true, true)
  | (r, some d) => ({ g with source := r, statMsgs := g.statMsgs + 1, statBytes := g.statBytes + d.length }, d, false, true)

/-- what a caller of `recvMsg` sees, the returned slice by its content -/
def obs (x : Ex) : AsmG × Bytes × Bool × Bool := (x.g, (x.rs.getD 0 none).getD [], x.rb.getD 0 false, x.fine)

/-- the body of the `for { .. }` of chunkAssembler.recvMsg and the accumulator local -/
def loopBody : Stmt :=
  match asmRecvMsgBody with
  | .seq _ (.loop b) => b
  | _ => .skip

def accLocal : Nat :=
  match asmRecvMsgBody with
  | .seq (.setS i _) _ => i
  | _ => 0

theorem srcRecvMsgOf_eq (r : Src) : srcRecvMsgOf srcRecvMsgBody r = recvOne r := srcRecvMsg_eq r

def cs1 : Calls := { noCalls with srcRecvMsg := srcRecvMsgOf srcRecvMsgBody }

/-- one iteration of the loop on an exhausted stream: `return nil, err`. -/
theorem iter_eof (x : Ex) (hs : x.g.source.stream = []) (hc : x.ctl = .run) (hl : x.locked = false) :
    obs (exec cs1 loopBody x) = ({ x.g with source := ⟨[], x.g.source.messagesReceived⟩ }, [], true, x.lockOk) ∧
    (exec cs1 loopBody x).ctl = .ret := by
  rcases x with ⟨⟨⟨st, k⟩, buf, ri, sm, sb⟩, w, sl, il, bl, ml, ctl, rs, ri, rb, locked, lockOk⟩
  simp only at hs hc hl
  subst hs hc hl
  simp [cs1, loopBody, asmRecvMsgBody, exec, chk, srcRecvMsgOf_eq, recvOne, upd, BE.eval, BE.ok, SE.eval, SE.ok,
    obs, Ex.fine]

/-- one iteration that receives the last message of a chunk: statistics, `return chunkBuf, nil`. -/
theorem iter_last (x : Ex) (m : Wire) (rest : List Wire) (hs : x.g.source.stream = m :: rest) (he : m.isEndOfChunk = true)
    (hc : x.ctl = .run) (hl : x.locked = false) :
    obs (exec cs1 loopBody x) =
      ({ x.g with source := ⟨rest, x.g.source.messagesReceived + 1⟩, statMsgs := x.g.statMsgs + 1,
                  statBytes := x.g.statBytes + ((x.sl accLocal).getD [] ++ m.stefBytes.getD []).length },
       (x.sl accLocal).getD [] ++ m.stefBytes.getD [], false, x.lockOk) ∧
    (exec cs1 loopBody x).ctl = .ret := by
  rcases x with ⟨⟨⟨st, k⟩, buf, ri, sm, sb⟩, w, sl, il, bl, ml, ctl, rs, ri, rb, locked, lockOk⟩
  rcases m with ⟨mb, me⟩
  simp only at hs hc hl he
  subst hs hc hl he
  cases hcb : sl accLocal <;> simp only [accLocal, asmRecvMsgBody] at hcb <;>
    simp [cs1, loopBody, accLocal, asmRecvMsgBody, exec, chk, srcRecvMsgOf_eq, recvOne, upd, BE.eval, BE.ok, SE.eval,
      SE.ok, IE.eval, IE.ok, IVar.write, IVar.read, IVar.isStat, obs, Ex.fine, hcb, append_bytes, append_len, Sl.len]

/-- one iteration that receives a message inside a chunk: accumulate and go round again. -/
theorem iter_more (x : Ex) (m : Wire) (rest : List Wire) (hs : x.g.source.stream = m :: rest) (he : m.isEndOfChunk = false)
    (hc : x.ctl = .run) (hl : x.locked = false) :
    let x1 := exec cs1 loopBody x
    (x1.ctl = .run ∨ x1.ctl = .cont) ∧ x1.g = { x.g with source := ⟨rest, x.g.source.messagesReceived + 1⟩ } ∧
    (x1.sl accLocal).getD [] = (x.sl accLocal).getD [] ++ m.stefBytes.getD [] ∧ x1.locked = false ∧
    x1.lockOk = x.lockOk := by
  rcases x with ⟨⟨⟨st, k⟩, buf, ri, sm, sb⟩, w, sl, il, bl, ml, ctl, rs, ri, rb, locked, lockOk⟩
  rcases m with ⟨mb, me⟩
  simp only at hs hc hl he
  subst hs hc hl he
  cases hcb : sl accLocal <;> simp only [accLocal, asmRecvMsgBody] at hcb <;>
    simp [cs1, loopBody, accLocal, asmRecvMsgBody, exec, chk, srcRecvMsgOf_eq, recvOne, upd, BE.eval, BE.ok, SE.eval,
      SE.ok, IE.eval, IE.ok, IVar.write, IVar.read, IVar.isStat, hcb, append_bytes]

theorem asm_loop (ms : List Wire) : ∀ (fuel : Nat) (x : Ex), x.g.source.stream = ms → ms.length < fuel →
    x.ctl = .run → x.locked = false → x.lockOk = true →
    obs (loopN (exec cs1 loopBody) fuel x)
      = afterRecv x.g (recvSpec ms x.g.source.messagesReceived ((x.sl accLocal).getD [])) := by
  induction ms with
  | nil =>
    intro fuel x hs hf hc hl hk
    cases fuel with
    | zero => simp at hf
    | succ n =>
      have h := iter_eof x hs hc hl
      simp only [loopN, h.2]
      rw [h.1, hk]
      simp [afterRecv, recvSpec]
  | cons m rest ih =>
    intro fuel x hs hf hc hl hk
    cases fuel with
    | zero => simp at hf
    | succ n =>
      have hn : rest.length < n := by simp at hf; omega
      cases he : m.isEndOfChunk with
      | true =>
        have h := iter_last x m rest hs he hc hl
        simp only [loopN, h.2]
        rw [h.1, hk]
        simp [afterRecv, recvSpec, he]
      | false =>
        have h := iter_more x m rest hs he hc hl
        simp only at h
        obtain ⟨h1, h2, h3, h4, h5⟩ := h
        have hloop : loopN (exec cs1 loopBody) (n + 1) x
            = loopN (exec cs1 loopBody) n { exec cs1 loopBody x with ctl := .run } := by
          rcases h1 with h1 | h1 <;> simp [loopN, h1]
        have key := ih n { exec cs1 loopBody x with ctl := .run } (by simp [h2]) hn rfl h4 (by rw [← hk, ← h5])
        rw [hloop, key]
        simp only [h2, h3]
        simp [recvSpec, he]
        cases recvSpec rest (x.g.source.messagesReceived + 1) ((x.sl accLocal).getD [] ++ m.stefBytes.getD []) with
        | mk r o => cases o <;> simp [afterRecv]

theorem asmRecvMsgBody_shape : asmRecvMsgBody = (.setS accLocal .nil ;; .loop loopBody) := rfl

/-- **chunkAssembler.recvMsg** (regenerated) = the accumulation `recvSpec` from an empty buffer
    (the returned slice is compared by content). -/
theorem asmRecvMsg_eq (g : AsmG) :
    ((asmRecvMsg g).1, (asmRecvMsg g).2.1.getD [], (asmRecvMsg g).2.2.1, (asmRecvMsg g).2.2.2)
      = afterRecv g (recvSpec g.source.stream g.source.messagesReceived []) := by
  have h := asm_loop g.source.stream (g.source.stream.length + 1)
    { g := g, sl := upd (fun _ => none) accLocal none } rfl (by omega) rfl rfl rfl
  simp only [obs, upd] at h
  simp only [asmRecvMsg, asmRecvMsgOf, asmRecvMsgBody_shape, exec, chk, SE.ok, SE.eval]
  simpa [cs1] using h

/-- the same as equations on the components, for rewriting in callers -/
theorem asmRecvMsgOf_spec (g : AsmG) : ∃ d : Sl,
    asmRecvMsgOf srcRecvMsgBody asmRecvMsgBody g =
      ((afterRecv g (recvSpec g.source.stream g.source.messagesReceived [])).1, d,
       (afterRecv g (recvSpec g.source.stream g.source.messagesReceived [])).2.2.1, true) ∧
    d.getD [] = (afterRecv g (recvSpec g.source.stream g.source.messagesReceived [])).2.1 := by
  have h := asmRecvMsg_eq g
  have hf : (afterRecv g (recvSpec g.source.stream g.source.messagesReceived [])).2.2.2 = true := by
    cases recvSpec g.source.stream g.source.messagesReceived [] with
    | mk r o => cases o <;> rfl
  refine ⟨(asmRecvMsg g).2.1, ?_, ?_⟩
  · rw [← h] at hf ⊢
    simp only at hf
    show asmRecvMsg g = _
    rw [← hf]
  · rw [← h]

/-! ### wire messages and the messages of the hand model -/

/-- `recvSpec` is the hand model's `recvChunk` on the byte contents, and `messagesReceived` counts
    the messages taken from the stream. -/
theorem recvSpec_chunk (ms : List Wire) : ∀ (k : Nat) (acc : Bytes),
    (match recvChunk (ms.map toMsg) acc with
     | none => (recvSpec ms k acc).2 = none ∧ (recvSpec ms k acc).1.stream = []
     | some (d, rest) => (recvSpec ms k acc).2 = some d ∧ (recvSpec ms k acc).1.stream.map toMsg = rest) ∧
    (recvSpec ms k acc).1.messagesReceived + (recvSpec ms k acc).1.stream.length = k + ms.length := by
  induction ms with
  | nil => intro k acc; simp [recvSpec, recvChunk]
  | cons m rest ih =>
    intro k acc
    cases he : m.isEndOfChunk with
    | true =>
      simp [recvSpec, recvChunk, toMsg, he]
      omega
    | false =>
      have := ih (k + 1) (acc ++ m.stefBytes.getD [])
      simp only [recvSpec, recvChunk, toMsg, he, List.map_cons, Bool.false_eq_true, ↓reduceIte]
      refine ⟨this.1, ?_⟩
      have h2 := this.2
      simp only [List.length_cons]
      omega

/-- the assembler of the hand model that a regenerated assembler state stands for -/
def abs (g : AsmG) : Asm :=
  { src := g.source.stream.map toMsg, buf := g.buf.getD [], readIndex := g.readIndex,
    chunksReceived := g.statMsgs, bytesReceived := g.statBytes }

/-- `n := copy(p, src)`: `p[:n]` holds the first `len(p)` bytes of `src`, `p` keeps its length. -/
theorem copy_facts (p src : Sl) :
    ((copyInto p src).1.getD []).take (copyInto p src).2 = (src.getD []).take p.len ∧
    (copyInto p src).2 = min (copyInto p src).2 ((copyInto p src).1.getD []).length ∧
    (copyInto p src).1.len = p.len ∧ (copyInto p src).1.isNone = p.isNone ∧
    (copyInto p src).2 = ((src.getD []).take p.len).length := by
  cases p with
  | none => simp [copyInto, Sl.len]
  | some pb =>
    simp [copyInto, Sl.len]
    omega

/-- **chunkAssembler.Read** (regenerated) = `Asm.read` of the hand model: same successor state,
    same error, and the bytes the caller finds in `p[:n]` are the hand model's output. The body
    returns properly (no slice out of range, no lock misuse) from EVERY state. -/
theorem read_eq (g : AsmG) (p : Sl) :
    (read g p).fine = true ∧
    (abs (read g p).g, if (read g p).err then none else some (read g p).out) = (abs g).read p.len ∧
    (read g p).n = (read g p).out.length ∧ (read g p).p.len = p.len ∧ (read g p).p.isNone = p.isNone := by
  by_cases hi : g.readIndex ≥ g.buf.len
  · have hs := (recvSpec_chunk g.source.stream g.source.messagesReceived []).1
    obtain ⟨d, hq, hd⟩ := asmRecvMsgOf_spec g
    have hb : (abs g).readIndex ≥ (abs g).buf.length := hi
    cases hr : recvSpec g.source.stream g.source.messagesReceived [] with
    | mk r o =>
      rw [hr] at hs hq hd
      cases o with
      | none =>
        simp only [afterRecv] at hq hd
        simp [Gen.ChunkFlow.read, readOf, readBody, exec, chk, hq, upd, BE.eval, BE.ok, SE.eval, SE.ok,
          IE.eval, IE.ok, IVar.write, IVar.read, IVar.isStat, Ex.fine, Cmp.eval, hi, ReadResult.out]
        cases hc : recvChunk (List.map toMsg g.source.stream) [] with
        | some q => simp [hc] at hs
        | none =>
          simp [hc] at hs
          simp [Asm.read, hb]
          simp [abs, hc, hs]
      | some data =>
        simp only [afterRecv] at hq hd
        simp [Gen.ChunkFlow.read, readOf, readBody, exec, chk, hq, upd, BE.eval, BE.ok, SE.eval, SE.ok,
          IE.eval, IE.ok, IVar.write, IVar.read, IVar.isStat, Ex.fine, Cmp.eval, hi, ReadResult.out]
        obtain ⟨c1, c2, c3, c4, c5⟩ := copy_facts p (d.from 0)
        refine ⟨?_, c2, c3, c4⟩
        rw [c1]
        cases hc : recvChunk (List.map toMsg g.source.stream) [] with
        | none => simp [hc] at hs
        | some q =>
          obtain ⟨data', rest⟩ := q
          simp [hc] at hs
          simp [Asm.read, hb]
          simp [abs, hc, hs.1, hs.2, c5, from_bytes, Sl.len, hd]
  · have hb : ¬ (abs g).readIndex ≥ (abs g).buf.length := hi
    have hi' : g.readIndex ≤ g.buf.len := by simp at hi; omega
    obtain ⟨c1, c2, c3, c4, c5⟩ := copy_facts p (g.buf.from g.readIndex)
    simp [Gen.ChunkFlow.read, readOf, readBody, exec, chk, upd, BE.eval, BE.ok, SE.eval, SE.ok,
      IE.eval, IE.ok, IVar.write, IVar.read, IVar.isStat, Ex.fine, Cmp.eval, hi, hi', ReadResult.out]
    refine ⟨?_, c2, c3, c4⟩
    rw [c1]
    simp [Asm.read, hb]
    simp [abs, c5, from_bytes, Sl.len]

/-- a consumer's whole run of `Read` calls: the regenerated `run` is `Asm.run` of the hand model
    with the lengths of the caller's buffers as read sizes. -/
theorem run_eq (g : AsmG) (ps : List Sl) :
    (run g ps).1 = ((abs g).run (ps.map Sl.len)).1 ∧ abs (run g ps).2.1 = ((abs g).run (ps.map Sl.len)).2.1 ∧
    (run g ps).2.2 = ((abs g).run (ps.map Sl.len)).2.2 := by
  induction ps generalizing g with
  | nil => simp [run, runOf, Asm.run]
  | cons p ps ih =>
    have h := (read_eq g p).2.1
    have ih' := ih (read g p).g
    simp only [run] at ih'
    simp only [run, runOf, List.map_cons, Asm.run]
    rw [← h]
    cases he : (read g p).err <;> simp [ih']

/-! ### grpcWriter.WriteChunk -/

/-- `WriteChunk` sends at most one message per call, has no loop, and builds its message in the
    request's own buffer (`x[:0]`, `append(x, ..)`): it never hands a caller's slice to gRPC. -/
theorem writeChunk_shape :
    writeChunkBody.sends = 1 ∧ writeChunkBody.hasLoop = false ∧ writeChunkBody.ownsRequestBuffer = true := by decide

/-- **grpcWriter.WriteChunk** (regenerated): returns properly; when `Send` succeeds exactly one message is
    sent, it is the hand model's `writeChunk header content` (header ++ content, flagged end of chunk,
    whatever the request buffer held before); when `Send` fails an error is returned and nothing is sent. -/
theorem writeChunk_eq (w : Wr) (h c : Sl) :
    (writeChunk w h c).2.2 = true ∧ (writeChunk w h c).2.1 = w.sendFails ∧ (writeChunk w h c).1.sendFails = w.sendFails ∧
    (writeChunk w h c).1.sent.map toMsg =
      w.sent.map toMsg ++ (if w.sendFails then [] else [Chunk.writeChunk (h.getD []) (c.getD [])]) := by
  rcases w with ⟨⟨rb, re⟩, sent, sf⟩
  cases sf <;>
    simp [Gen.ChunkFlow.writeChunk, writeChunkOf, writeChunkBody, exec, chk, upd, BE.eval, BE.ok, SE.eval, SE.ok, IE.eval, IE.ok,
      Ex.fine, toMsg, Chunk.writeChunk, append_bytes, upto0_bytes, Sl.len]

theorem writeAll_eq (w : Wr) (hw : w.sendFails = false) (cs : List (Sl × Sl)) :
    (writeAll w cs).sent.map toMsg = w.sent.map toMsg ++ cs.map (fun c => Chunk.writeChunk (c.1.getD []) (c.2.getD [])) := by
  induction cs generalizing w with
  | nil => simp [writeAll, writeAllOf]
  | cons c cs ih =>
    obtain ⟨_, _, h3, h4⟩ := writeChunk_eq w c.1 c.2
    have := ih (writeChunk w c.1 c.2).1 (by rw [h3, hw])
    simp only [writeAll, writeAllOf, List.foldl_cons] at this ⊢
    rw [this, h4, hw]
    simp

/-! ### closed facts about the regenerated data -/

/-- `newChunkAssembler` makes an assembler with nothing buffered and zero statistics, and
    `StreamServer.Stream` makes a new one for every stream from a new `grpcChunkSource`. -/
theorem new_assembler (r : Src) : abs (newChunkAssembler r) = { src := r.stream.map toMsg } := rfl

theorem stream_fresh : streamFreshAssembler = true := rfl

end Stef.Proofs.ChunkGen
